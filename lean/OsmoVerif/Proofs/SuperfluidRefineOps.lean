/- C11, refinement of the rate-one ledger model by the staking model, part 3: every entry point of
Model/SuperfluidStaking.lean corresponds to the entry point of Model/Superfluid.lean on the abstracted state. -/
import OsmoVerif.Proofs.SuperfluidRefinePrim

namespace OsmoVerif.Superfluid
open OsmoVerif.Num OsmoVerif.Spec

/-- the refinement invariant of a state. -/
def ROs (s : SState) : Prop := RO s.k s.b.supply s.b.validators

theorem absL_withB (s : SState) (b' : State) : absL { s with b := b' } = setD (ledgerOf s.k) b' := rfl

theorem ROs_withB {s : SState} {b' : State} (h : ROs s) (h1 : b'.supply = s.b.supply) (h2 : b'.validators = s.b.validators) :
    ROs { s with b := b' } := by
  unfold ROs
  show RO s.k b'.supply b'.validators
  rw [h1, h2]; exact h

/-! ## SuperfluidDelegate -/

/-- the mint of a delegation has room: the value of the lock fits on top of the supply. -/
def FitsDelegate (l : State) (id : Nat) : Prop :=
  ∀ lk amt, l.locks id = some lk → osmoTokens l lk.denom lk.amount = .ok amt → l.supply + amt ≤ roomB

theorem superfluidDelegateS_sim {s : SState} {snd id v : Nat} (hR : ROs s) (hfit : FitsDelegate (absL s) id) :
    SimR Refines (superfluidDelegateS s snd id v) (superfluidDelegate (absL s) snd id v) := by
  unfold superfluidDelegateS superfluidDelegate
  show SimR Refines (match s.b.locks id with | none => _ | some l => _) (match s.b.locks id with | none => _ | some l => _)
  cases hl : s.b.locks id with
  | none => trivial
  | some l =>
    dsimp only
    by_cases h1 : l.owner ≠ snd
    · rw [if_pos h1, if_pos h1]; trivial
    rw [if_neg h1, if_neg h1]
    by_cases h2 : l.single = false
    · rw [if_pos h2, if_pos h2]; trivial
    rw [if_neg h2, if_neg h2]
    show SimR Refines (if l.denom ∉ s.b.assets then _ else _) (if l.denom ∉ s.b.assets then _ else _)
    by_cases h3 : l.denom ∉ s.b.assets
    · rw [if_pos h3, if_pos h3]; trivial
    rw [if_neg h3, if_neg h3]
    by_cases h4 : l.endTime.isSome
    · rw [if_pos h4, if_pos h4]; trivial
    rw [if_neg h4, if_neg h4]
    show SimR Refines (if l.duration < s.b.unbondingTime then _ else _) (if l.duration < s.b.unbondingTime then _ else _)
    by_cases h5 : l.duration < s.b.unbondingTime
    · rw [if_pos h5, if_pos h5]; trivial
    rw [if_neg h5, if_neg h5]
    rw [show absL s = setD (ledgerOf s.k) s.b from rfl, alreadyStaking_setD]
    by_cases h6 : alreadyStaking s.b id = true
    · rw [if_pos h6, if_pos h6]; trivial
    rw [if_neg h6, if_neg h6]
    rw [getOrCreateAcc_setD]
    show SimR Refines _ (match createSynth (setD (ledgerOf s.k)
        { getOrCreateAcc s.b (l.denom, v) with conns := upd (getOrCreateAcc s.b (l.denom, v)).conns id (some (l.denom, v)) })
        id .bonding (l.denom, v) with | .error e => _ | .ok s3 => _)
    rw [createSynth_setD]
    cases hcs : createSynth { getOrCreateAcc s.b (l.denom, v) with
        conns := upd (getOrCreateAcc s.b (l.denom, v)).conns id (some (l.denom, v)) } id .bonding (l.denom, v) with
    | error e => trivial
    | ok s3 =>
      show SimR Refines (match osmoTokens s3 l.denom l.amount with | .error e => _ | .ok amt => _)
        (match osmoTokens s3 l.denom l.amount with | .error e => _ | .ok amt => _)
      obtain ⟨c1, c2, c3, c4, c5⟩ := createSynth_bank hcs
      obtain ⟨g1, g2, g3, g4, g5⟩ := getOrCreateAcc_bank s.b (l.denom, v)
      have hsup : s3.supply = s.b.supply := c1.trans g1
      have hval : s3.validators = s.b.validators := c2.trans g2
      have hot : osmoTokens s3 l.denom l.amount = osmoTokens s.b l.denom l.amount :=
        osmoTokens_congr (c3.trans g3) (c4.trans g4) (c5.trans g5) _ _
      cases hos : osmoTokens s3 l.denom l.amount with
      | error e => trivial
      | ok amt =>
        dsimp only
        by_cases h7 : amt = 0
        · rw [if_pos h7, if_pos h7]; trivial
        rw [if_neg h7, if_neg h7]
        have hR3 : ROs { s with b := s3 } := ROs_withB hR hsup hval
        refine mintS_sim (s := { s with b := s3 }) hR3 ?_
        intro _
        show s3.supply + amt ≤ roomB
        rw [hsup]
        exact hfit l amt hl (by show osmoTokens s.b l.denom l.amount = _; rw [← hot]; exact hos)


/-! ## SuperfluidUndelegate -/

theorem undelegateCommonS_sim {s : SState} {snd id : Nat} (hR : ROs s) :
    SimR (fun (r : SState × AccKey) (r' : State × AccKey) => Refines r.1 r'.1 ∧ r.2 = r'.2)
      (undelegateCommonS s snd id) (undelegateCommon (absL s) snd id) := by
  unfold undelegateCommonS undelegateCommon
  show SimR _ (match s.b.locks id with | none => _ | some l => _) (match s.b.locks id with | none => _ | some l => _)
  cases hl : s.b.locks id with
  | none => trivial
  | some l =>
    dsimp only
    by_cases h1 : l.owner ≠ snd
    · rw [if_pos h1, if_pos h1]; trivial
    rw [if_neg h1, if_neg h1]
    by_cases h2 : l.single = false
    · rw [if_pos h2, if_pos h2]; trivial
    rw [if_neg h2, if_neg h2]
    show SimR _ (match s.b.conns id with | none => _ | some key => _) (match s.b.conns id with | none => _ | some key => _)
    cases hk : s.b.conns id with
    | none => trivial
    | some key =>
      show SimR _
        (match deleteSynth ({ s.b with conns := upd s.b.conns id none } : State) id .bonding (l.denom, key.2) with
          | .error e => _ | .ok s2 => _)
        (match deleteSynth (setD (ledgerOf s.k) ({ s.b with conns := upd s.b.conns id none } : State)) id .bonding (l.denom, key.2) with
          | .error e => _ | .ok s2 => _)
      have hb2s : ({ s.b with conns := upd s.b.conns id none } : State).supply = s.b.supply := rfl
      have hb2v : ({ s.b with conns := upd s.b.conns id none } : State).validators = s.b.validators := rfl
      generalize ({ s.b with conns := upd s.b.conns id none } : State) = b2 at *
      rw [deleteSynth_setD]
      cases hds : deleteSynth b2 id .bonding (l.denom, key.2) with
      | error e => trivial
      | ok s2 =>
        show SimR _ (match osmoTokens s2 key.1 l.amount with | .error e => _ | .ok amt => _)
          (match osmoTokens s2 key.1 l.amount with | .error e => _ | .ok amt => _)
        cases hos : osmoTokens s2 key.1 l.amount with
        | error e => trivial
        | ok amt =>
          obtain ⟨c1, c2, _, _, _⟩ := deleteSynth_bank hds
          have hR2 : ROs { s with b := s2 } := ROs_withB hR (c1.trans hb2s) (c2.trans hb2v)
          have hb := burnS_sim (s := { s with b := s2 }) (a := amt) (key := key) hR2
          show SimR _ (match burnS { s with b := s2 } amt key with | .error e => _ | .ok s3 => _)
            (match forceUndelegateAndBurn (setD (ledgerOf s.k) s2) amt key with | .error e => _ | .ok s3 => _)
          rw [show setD (ledgerOf s.k) s2 = absL { s with b := s2 } from rfl]
          cases hbs : burnS { s with b := s2 } amt key with
          | error e =>
            cases hbl : forceUndelegateAndBurn (absL { s with b := s2 }) amt key with
            | error e' => trivial
            | ok l3 => rw [hbs, hbl] at hb; exact hb.elim
          | ok s3 =>
            cases hbl : forceUndelegateAndBurn (absL { s with b := s2 }) amt key with
            | error e' => rw [hbs, hbl] at hb; exact hb.elim
            | ok l3 => rw [hbs, hbl] at hb; exact ⟨hb, rfl⟩

theorem superfluidUndelegateS_sim {s : SState} {snd id : Nat} (hR : ROs s) :
    SimR Refines (superfluidUndelegateS s snd id) (superfluidUndelegate (absL s) snd id) := by
  have hc := undelegateCommonS_sim (snd := snd) (id := id) hR
  unfold superfluidUndelegateS superfluidUndelegate
  cases hs : undelegateCommonS s snd id with
  | error e =>
    cases hlc : undelegateCommon (absL s) snd id with
    | error e' => trivial
    | ok r' => rw [hs, hlc] at hc; exact hc.elim
  | ok r =>
    cases hlc : undelegateCommon (absL s) snd id with
    | error e' => rw [hs, hlc] at hc; exact hc.elim
    | ok r' =>
      rw [hs, hlc] at hc
      obtain ⟨s1, key⟩ := r
      obtain ⟨l1, key'⟩ := r'
      obtain ⟨⟨hl1, hR1⟩, hkk⟩ := hc
      dsimp only at hl1 hR1 hkk
      subst hkk; subst hl1
      show SimR Refines (liftB s1 (createSynth s1.b id .unbonding key)) (createSynth (setD (ledgerOf s1.k) s1.b) id .unbonding key)
      rw [createSynth_setD]
      cases hcs : createSynth s1.b id .unbonding key with
      | error e => trivial
      | ok b' =>
        obtain ⟨c1, c2, _, _, _⟩ := createSynth_bank hcs
        exact ⟨rfl, ROs_withB hR1 c1 c2⟩


/-! ## AddTokensToLock and its hook -/

theorem mintAndDelegate_no_panic {l : State} {a : Int} {key : AccKey} : mintAndDelegate l a key ≠ .error .panic := by
  unfold mintAndDelegate
  split
  · intro h; cases h
  · split
    · intro h; cases h
    · intro h; cases h

/-- the hook's mint has room. -/
def FitsHook (l : State) (id lockDenom : Nat) (amount : Int) : Prop :=
  ∀ key amt, l.conns id = some key → osmoTokens l key.1 (if key.1 = lockDenom then amount else 0) = .ok amt →
    l.supply + amt ≤ roomB

theorem increaseHookS_sim {s : SState} {id lockDenom : Nat} {amount : Int} (hR : ROs s)
    (hfit : FitsHook (absL s) id lockDenom amount) :
    SimR Refines (increaseHookS s id lockDenom amount) (increaseHook (absL s) id lockDenom amount) := by
  unfold increaseHookS increaseHook
  show SimR Refines (match s.b.conns id with | none => _ | some key => _) (match s.b.conns id with | none => _ | some key => _)
  cases hk : s.b.conns id with
  | none => exact ⟨rfl, hR⟩
  | some key =>
    show SimR Refines (match findAcc s.b.accs key with | none => _ | some _ => _) (match findAcc s.b.accs key with | none => _ | some _ => _)
    cases hf : findAcc s.b.accs key with
    | none => exact ⟨rfl, hR⟩
    | some g =>
      show SimR Refines (match osmoTokens s.b key.1 (if key.1 = lockDenom then amount else 0) with
          | .error .panic => _ | .error _ => _ | .ok amt => _)
        (match osmoTokens s.b key.1 (if key.1 = lockDenom then amount else 0) with
          | .error .panic => _ | .error _ => _ | .ok amt => _)
      cases hos : osmoTokens s.b key.1 (if key.1 = lockDenom then amount else 0) with
      | error e => cases e <;> first | trivial | exact ⟨rfl, hR⟩
      | ok amt =>
        dsimp only
        by_cases h0 : amt = 0
        · rw [if_pos h0, if_pos h0]; exact ⟨rfl, hR⟩
        rw [if_neg h0, if_neg h0]
        have hsim := mintS_sim (a := amt) (key := key) hR (fun _ => hfit key amt hk hos)
        cases hm : mintS s amt key with
        | ok s' =>
          cases hml : mintAndDelegate (absL s) amt key with
          | ok l' => rw [hm, hml] at hsim; exact hsim
          | error e' => rw [hm, hml] at hsim; exact hsim.elim
        | error e =>
          cases hml : mintAndDelegate (absL s) amt key with
          | ok l' => rw [hm, hml] at hsim; exact hsim.elim
          | error e' =>
            have hx : e ≠ .panic := fun h => mintS_no_panic (h ▸ hm)
            have hy : e' ≠ .panic := fun h => mintAndDelegate_no_panic (h ▸ hml)
            cases e <;> first | exact absurd rfl hx | (cases e' <;> first | exact absurd rfl hy | exact ⟨rfl, hR⟩)

theorem addTokensToLockS_sim {s : SState} {snd id : Nat} {a : Int} (hR : ROs s)
    (hfit : ∀ lk, s.b.locks id = some lk → FitsHook (absL s) id lk.denom a) :
    SimR Refines (addTokensToLockS s snd id a) (addTokensToLock (absL s) snd id a) := by
  unfold addTokensToLockS addTokensToLock
  show SimR Refines (match s.b.locks id with | none => _ | some l => _) (match s.b.locks id with | none => _ | some l => _)
  cases hl : s.b.locks id with
  | none => trivial
  | some l =>
    dsimp only
    by_cases h1 : l.owner ≠ snd
    · rw [if_pos h1, if_pos h1]; trivial
    rw [if_neg h1, if_neg h1]
    by_cases h2 : l.single = false
    · rw [if_pos h2, if_pos h2]; trivial
    rw [if_neg h2, if_neg h2]
    by_cases h3 : a ≤ 0
    · rw [if_pos h3, if_pos h3]; trivial
    rw [if_neg h3, if_neg h3]
    show SimR Refines (match s.b.synths id with | _ :: _ :: _ => _ | [] => _ | [sy] => _)
      (match s.b.synths id with | _ :: _ :: _ => _ | [] => _ | [sy] => _)
    have hfit' := hfit l hl
    cases hsy : s.b.synths id with
    | nil =>
      exact increaseHookS_sim (s := { s with b := { s.b with locks := upd s.b.locks id (some { l with amount := l.amount + a }) } })
        (ROs_withB hR rfl rfl) hfit'
    | cons sy r =>
      cases r with
      | nil =>
        exact increaseHookS_sim (s := { s with b := { s.b with
            locks := upd s.b.locks id (some { l with amount := l.amount + a }),
            accum := updK s.b.accum (sy.kind, sy.key) (accAdd (s.b.accum (sy.kind, sy.key)) sy.duration a) } })
          (ROs_withB hR rfl rfl) hfit'
      | cons sy2 r2 => trivial


/-! ## SuperfluidUndelegateAndUnbondLock -/

/-- what an undelegation leaves alone in the ledger model, and it never raises the supply. -/
theorem superfluidUndelegate_frame {l l1 : State} {snd id : Nat} (h : superfluidUndelegate l snd id = .ok l1) :
    l1.locks = l.locks ∧ l1.mult = l.mult ∧ l1.assets = l.assets ∧ l1.riskFactor = l.riskFactor ∧
    l1.validators = l.validators ∧ l1.supply ≤ l.supply := by
  unfold superfluidUndelegate at h
  split at h
  · cases h
  · rename_i l' key hc
    obtain ⟨lk, s2, amt, _, _, _, _, hds, _, hb⟩ := undelegateCommon_ok hc
    obtain ⟨_, _, _, _, _, e3⟩ := createSynth_ok h
    obtain ⟨_, _, _, _, e2⟩ := deleteSynth_ok hds
    subst e3
    rcases forceUndelegateAndBurn_ok hb with ⟨_, e⟩ | ⟨sh, _, ha, _, e⟩
    · subst e; subst e2; exact ⟨rfl, rfl, rfl, rfl, rfl, Int.le_refl _⟩
    · subst e; subst e2
      refine ⟨rfl, rfl, rfl, rfl, rfl, ?_⟩
      show l.supply - amt ≤ l.supply
      omega

/-- the re-delegation of the part that stays locked has room. -/
def FitsUU (l : State) (id : Nat) (amount : Int) : Prop :=
  ∀ lk amt, l.locks id = some lk → osmoTokens l lk.denom (lk.amount - amount) = .ok amt → l.supply + amt ≤ roomB

theorem undelegateAndUnbondS_sim {s : SState} {id snd : Nat} {amount : Int} (hR : ROs s)
    (hfit : FitsUU (absL s) id amount) :
    SimR (fun (r : SState × Nat) (r' : State × Nat) => Refines r.1 r'.1 ∧ r.2 = r'.2)
      (superfluidUndelegateAndUnbondLockS s id snd amount) (superfluidUndelegateAndUnbondLock (absL s) id snd amount) := by
  have hu := superfluidUndelegateS_sim (snd := snd) (id := id) hR
  unfold superfluidUndelegateAndUnbondLockS superfluidUndelegateAndUnbondLock
  show SimR _ (match s.b.locks id with | none => _ | some l => _) (match s.b.locks id with | none => _ | some l => _)
  cases hl : s.b.locks id with
  | none => trivial
  | some l =>
    dsimp only
    by_cases h1 : amount < 0
    · rw [if_pos h1, if_pos h1]; trivial
    rw [if_neg h1, if_neg h1]
    by_cases h2 : amount = 0
    · rw [if_pos h2, if_pos h2]; trivial
    rw [if_neg h2, if_neg h2]
    by_cases h3 : l.amount < amount
    · rw [if_pos h3, if_pos h3]; trivial
    rw [if_neg h3, if_neg h3]
    show SimR _ (match s.b.conns id with | none => _ | some key => _) (match s.b.conns id with | none => _ | some key => _)
    cases hk : s.b.conns id with
    | none => trivial
    | some key =>
      dsimp only
      cases hs : superfluidUndelegateS s snd id with
      | error e =>
        cases hlu : superfluidUndelegate (absL s) snd id with
        | error e' => trivial
        | ok l1 => rw [hs, hlu] at hu; exact hu.elim
      | ok s1 =>
        cases hlu : superfluidUndelegate (absL s) snd id with
        | error e' => rw [hs, hlu] at hu; exact hu.elim
        | ok l1 =>
          rw [hs, hlu] at hu
          obtain ⟨hl1, hR1⟩ := hu
          obtain ⟨f1, f2, f3, f4, f5, f6⟩ := superfluidUndelegate_frame hlu
          subst hl1
          dsimp only
          show SimR _ (match unbondLock s1.b id snd (some amount) with | .error e => _ | .ok (b2, nid) => _)
            (match unbondLock (setD (ledgerOf s1.k) s1.b) id snd (some amount) with | .error e => _ | .ok (s2, nid) => _)
          rw [unbondLock_setD]
          cases hub : unbondLock s1.b id snd (some amount) with
          | error e => trivial
          | ok r =>
            obtain ⟨b2, nid⟩ := r
            show SimR _ (if l.amount = amount then _ else _) (if l.amount = amount then _ else _)
            by_cases h4 : l.amount = amount
            · rw [if_pos h4, if_pos h4]
              by_cases h5 : nid ≠ id
              · rw [if_pos h5, if_pos h5]; trivial
              · rw [if_neg h5, if_neg h5]
                obtain ⟨lk, sy, _, _, _, _, hbu⟩ := unbondLock_ok hub
                obtain ⟨lk', _, _, hcase⟩ := beginUnlock_ok hbu
                have hb2 : b2.supply = s1.b.supply ∧ b2.validators = s1.b.validators := by
                  rcases hcase with ⟨_, _, e⟩ | ⟨a, _, _, _, _, _, e⟩ <;> subst e <;> exact ⟨rfl, rfl⟩
                exact ⟨⟨rfl, ROs_withB hR1 hb2.1 hb2.2⟩, rfl⟩
            · rw [if_neg h4, if_neg h4]
              by_cases h5 : nid = id
              · rw [if_pos h5, if_pos h5]; trivial
              rw [if_neg h5, if_neg h5]
              show SimR _ (match deleteSynth b2 id .unbonding (l.denom, key.2) with | .error e => _ | .ok b3 => _)
                (match deleteSynth (setD (ledgerOf s1.k) b2) id .unbonding (l.denom, key.2) with | .error e => _ | .ok s3 => _)
              rw [deleteSynth_setD]
              cases hds : deleteSynth b2 id .unbonding (l.denom, key.2) with
              | error e => trivial
              | ok b3 =>
                -- the lock `id` now holds `l.amount − amount`; the parameters of the valuation are those of `s`
                obtain ⟨lk, sy, hlk, _, _, _, hbu⟩ := unbondLock_ok hub
                obtain ⟨lk', hlk', _, hcase⟩ := beginUnlock_ok hbu
                rw [hlk] at hlk'; injection hlk' with hlk'; subst hlk'
                have hlk0 : lk = l := by
                  have : s1.b.locks id = s.b.locks id := congrFun f1 id
                  rw [this, hl] at hlk; injection hlk with hlk; exact hlk.symm
                subst hlk0
                obtain ⟨d1, d2, d3, d4, d5⟩ := deleteSynth_bank hds
                obtain ⟨_, _, _, _, e3⟩ := deleteSynth_ok hds
                have hb2 : b2.supply = s1.b.supply ∧ b2.validators = s1.b.validators ∧ b2.mult = s1.b.mult ∧
                    b2.assets = s1.b.assets ∧ b2.riskFactor = s1.b.riskFactor ∧
                    b2.locks id = some { lk with amount := lk.amount - amount } := by
                  rcases hcase with ⟨hn, _, _⟩ | ⟨a, ha, _, _, _, hn, e⟩
                  · exact absurd hn h5
                  · injection ha with ha; subst ha
                    subst e
                    refine ⟨rfl, rfl, rfl, rfl, rfl, ?_⟩
                    dsimp only
                    have : id ≠ s1.b.lastLockId + 1 := by rw [← hn]; exact fun h => h5 h.symm
                    simp [upd, this]
                have hR3 : ROs { s1 with b := b3 } := ROs_withB hR1 (d1.trans hb2.1) (d2.trans hb2.2.1)
                have hfit3 : FitsDelegate (absL { s1 with b := b3 }) id := by
                  intro lk3 amt hl3 hos
                  have hl3' : b3.locks id = some lk3 := hl3
                  have hlocks : b3.locks = b2.locks := by subst e3; rfl
                  rw [hlocks, hb2.2.2.2.2.2] at hl3'
                  injection hl3' with hl3'
                  subst hl3'
                  have hos' : osmoTokens b3 lk.denom (lk.amount - amount) = .ok amt := hos
                  have hp : osmoTokens b3 lk.denom (lk.amount - amount) = osmoTokens (absL s) lk.denom (lk.amount - amount) :=
                    osmoTokens_congr (b := absL s) (d3.trans (hb2.2.2.1.trans f2)) (d4.trans (hb2.2.2.2.1.trans f3))
                      (d5.trans (hb2.2.2.2.2.1.trans f4)) _ _
                  rw [hp] at hos'
                  have := hfit lk amt hl hos'
                  show b3.supply + amt ≤ roomB
                  have hs3 : b3.supply = s1.b.supply := d1.trans hb2.1
                  have hs1 : s1.b.supply ≤ s.b.supply := f6
                  have : s.b.supply + amt ≤ roomB := this
                  omega
                have hd := superfluidDelegateS_sim (s := { s1 with b := b3 }) (snd := snd) (id := id) (v := key.2) hR3 hfit3
                show SimR _ (match superfluidDelegateS { s1 with b := b3 } snd id key.2 with | .error e => _ | .ok s4 => _)
                  (match superfluidDelegate (setD (ledgerOf s1.k) b3) snd id key.2 with | .error e => _ | .ok s4 => _)
                rw [show setD (ledgerOf s1.k) b3 = absL { s1 with b := b3 } from rfl]
                cases hsd : superfluidDelegateS { s1 with b := b3 } snd id key.2 with
                | error e =>
                  cases hld : superfluidDelegate (absL { s1 with b := b3 }) snd id key.2 with
                  | error e' => trivial
                  | ok l4 => rw [hsd, hld] at hd; exact hd.elim
                | ok s4 =>
                  cases hld : superfluidDelegate (absL { s1 with b := b3 }) snd id key.2 with
                  | error e' => rw [hsd, hld] at hd; exact hd.elim
                  | ok l4 =>
                    rw [hsd, hld] at hd
                    obtain ⟨hl4, hR4⟩ := hd
                    subst hl4
                    show SimR _ (match createSynth s4.b nid .unbonding key with | .error e => _ | .ok b5 => _)
                      (match createSynth (setD (ledgerOf s4.k) s4.b) nid .unbonding key with | .error e => _ | .ok s5 => _)
                    rw [createSynth_setD]
                    cases hcs : createSynth s4.b nid .unbonding key with
                    | error e => trivial
                    | ok b5 =>
                      obtain ⟨c1, c2, _, _, _⟩ := createSynth_bank hcs
                      exact ⟨⟨rfl, ROs_withB hR4 c1 c2⟩, rfl⟩


/-! ## the epoch -/

theorem expected_nonneg {b : State} (hI : Inv b) {key : AccKey} {e : Int} (he : expectedDelegation b key = .ok e) : 0 ≤ e := by
  unfold expectedDelegation at he
  refine osmoTokens_nonneg hI ?_ he
  rw [hI.accumEq]; exact sumConn_nonneg hI key _

theorem delegated_absL_nonneg {s : SState} (hR : ROs s) (key : AccKey) : 0 ≤ delegated (absL s) key := by
  rw [delegated_absL]
  cases hk : s.k.dsh key with
  | none =>
    have : shOf s.k key = 0 := by unfold shOf; rw [hk]
    rw [this]; decide
  | some d =>
    obtain ⟨n, e, hn⟩ := hR.dsh key d hk
    rw [shOf_of_some hk, e, Int.mul_ediv_cancel _ P18_ne]; omega

/-- one iteration of the refresh: the two models correspond, and the supply rises by at most the expected amount. -/
theorem refreshOneS_sim {s : SState} {key : AccKey} (hR : ROs s) (hI : Inv s.b)
    (hfit : ∀ e, expectedDelegation s.b key = .ok e → s.b.supply + e ≤ roomB) :
    SimR (fun s' l' => Refines s' l' ∧ ∀ e, expectedDelegation s.b key = .ok e → s'.b.supply ≤ s.b.supply + e)
      (refreshOneS s key) (refreshOne (absL s) key) := by
  unfold refreshOneS refreshOne
  show SimR _ (if key.2 ∉ s.b.validators then _ else _) (if key.2 ∉ s.b.validators then _ else _)
  by_cases hv : key.2 ∈ s.b.validators
  · rw [if_neg (by simpa using hv), if_neg (by simpa using hv), currentS_sim hR hv]
    dsimp only
    show SimR _ (match expectedDelegation s.b key with | .error _ => _ | .ok r => _)
      (match expectedDelegation s.b key with | .error _ => _ | .ok r => _)
    cases he : expectedDelegation s.b key with
    | error e => trivial
    | ok e =>
      dsimp only
      have he0 := expected_nonneg hI he
      have hn0 := delegated_absL_nonneg hR key
      have hfit' := hfit e he
      by_cases hgt : e > delegated (absL s) key
      · rw [if_pos hgt, if_pos hgt]
        have hsim := mintS_sim (a := e - delegated (absL s) key) (key := key) hR (fun _ => by omega)
        cases hm : mintS s (e - delegated (absL s) key) key with
        | ok s' =>
          cases hml : mintAndDelegate (absL s) (e - delegated (absL s) key) key with
          | ok l' =>
            rw [hm, hml] at hsim
            refine ⟨hsim, ?_⟩
            intro e' he'
            injection he' with he'; subst he'
            obtain ⟨_, _, _, _, _, _, _, _, hs'⟩ := mintS_ok hm
            subst hs'
            show s.b.supply + (e - delegated (absL s) key) ≤ s.b.supply + e
            omega
          | error e' => rw [hm, hml] at hsim; exact hsim.elim
        | error er =>
          cases hml : mintAndDelegate (absL s) (e - delegated (absL s) key) key with
          | ok l' => rw [hm, hml] at hsim; exact hsim.elim
          | error e' =>
            have hx : er ≠ .panic := fun h => mintS_no_panic (h ▸ hm)
            have hy : e' ≠ .panic := fun h => mintAndDelegate_no_panic (h ▸ hml)
            have fin : Refines s (absL s) ∧ ∀ e1, (Except.ok e : Except Err Int) = Except.ok e1 → s.b.supply ≤ s.b.supply + e1 := by
              refine ⟨⟨rfl, hR⟩, ?_⟩
              intro e1 h1; injection h1 with h1; omega
            cases er <;> first | exact absurd rfl hx | (cases e' <;> first | exact absurd rfl hy | exact fin)
      · rw [if_neg hgt, if_neg hgt]
        by_cases hlt : delegated (absL s) key > e
        · rw [if_pos hlt, if_pos hlt]
          have hsim := burnS_sim (a := delegated (absL s) key - e) (key := key) hR
          -- the ledger's undelegation cannot fail: the stake covers the difference
          have hlok : ∃ l', forceUndelegateAndBurn (absL s) (delegated (absL s) key - e) key = .ok l' ∧ l'.supply ≤ s.b.supply := by
            unfold forceUndelegateAndBurn
            rw [if_neg (show ¬ key.2 ∉ (absL s).validators from fun h => h hv)]
            have hdl : delegated (absL s) key = (match (absL s).deleg key with | some x => x | none => 0) := rfl
            cases hlk : (absL s).deleg key with
            | none => rw [hlk] at hdl; dsimp only at hdl; omega
            | some sh =>
              rw [hlk] at hdl
              dsimp only at hdl ⊢
              rw [if_neg (by omega), if_neg (by omega)]
              refine ⟨_, rfl, ?_⟩
              show s.b.supply - (delegated (absL s) key - e) ≤ s.b.supply
              omega
          obtain ⟨l', hml, hsl⟩ := hlok
          cases hm : burnS s (delegated (absL s) key - e) key with
          | ok s' =>
            rw [hm, hml] at hsim
            rw [hml]
            refine ⟨hsim, ?_⟩
            intro e1 h1
            injection h1 with h1; subst h1
            have : s'.b.supply = l'.supply := by rw [hsim.1]; rfl
            omega
          | error er => rw [hm, hml] at hsim; exact hsim.elim
        · rw [if_neg hlt, if_neg hlt]
          refine ⟨⟨rfl, hR⟩, ?_⟩
          intro e1 h1; injection h1 with h1; omega
  · rw [if_pos (by simpa using hv), if_pos (by simpa using hv)]
    refine ⟨⟨rfl, hR⟩, ?_⟩
    intro e he
    have := expected_nonneg hI he
    omega

/-- the sum of the expected amounts of the listed accounts: what a refresh can mint at most. -/
def expSum (b : State) : List (AccKey × Nat) → Int
  | [] => 0
  | (k, _) :: r => (match expectedDelegation b k with | .ok e => e | .error _ => 0) + expSum b r

theorem expSum_setD (f : AccKey → Option Int) (b : State) : ∀ (L : List (AccKey × Nat)), expSum (setD f b) L = expSum b L
  | [] => rfl
  | (k, g) :: r => by unfold expSum; rw [expSum_setD f b r]; rfl

theorem expSum_nonneg {b : State} (hI : Inv b) : ∀ (L : List (AccKey × Nat)), 0 ≤ expSum b L
  | [] => Int.le_refl _
  | (k, g) :: r => by
    unfold expSum
    have := expSum_nonneg hI r
    cases he : expectedDelegation b k with
    | error e => dsimp only; omega
    | ok e => have := expected_nonneg hI he; dsimp only; omega

theorem expSum_congr {b b' : State} (h : ∀ k, expectedDelegation b' k = expectedDelegation b k) :
    ∀ (L : List (AccKey × Nat)), expSum b' L = expSum b L
  | [] => rfl
  | (k, g) :: r => by unfold expSum; rw [h k, expSum_congr h r]

theorem refreshAllS_sim : ∀ (accs : List (AccKey × Nat)) (s : SState), ROs s → Inv s.b →
    s.b.supply + expSum s.b accs ≤ roomB → SimR Refines (refreshAllS s accs) (refreshAll (absL s) accs)
  | [], s, hR, _, _ => ⟨rfl, hR⟩
  | (k, g) :: r, s, hR, hI, hfit => by
    have hr0 := expSum_nonneg hI r
    have hfit1 : ∀ e, expectedDelegation s.b k = .ok e → s.b.supply + e ≤ roomB := by
      intro e he
      unfold expSum at hfit
      rw [he] at hfit
      dsimp only at hfit
      omega
    have h1 := refreshOneS_sim (key := k) hR hI hfit1
    unfold refreshAllS refreshAll
    cases hs : refreshOneS s k with
    | error e =>
      cases hl : refreshOne (absL s) k with
      | error e' => trivial
      | ok l1 => rw [hs, hl] at h1; exact h1.elim
    | ok s1 =>
      cases hl : refreshOne (absL s) k with
      | error e' => rw [hs, hl] at h1; exact h1.elim
      | ok l1 =>
        rw [hs, hl] at h1
        obtain ⟨⟨hl1, hR1⟩, hsup⟩ := h1
        subst hl1
        dsimp only
        have hb := refreshOneS_bank hs
        have hI1 : Inv s1.b := hb.inv hI
        obtain ⟨_, f2, f3, f4, f5, _, _⟩ := hb.fields
        have hexp : ∀ k', expectedDelegation s1.b k' = expectedDelegation s.b k' :=
          fun k' => expectedDelegation_congr f3 f4 f5 hb.same.ub f2
        refine refreshAllS_sim r s1 hR1 hI1 ?_
        rw [expSum_congr hexp r]
        unfold expSum at hfit
        cases he : expectedDelegation s.b k with
        | error e =>
          -- impossible: the refresh of `k` would have panicked (or `k`'s validator is unknown: nothing changed)
          rw [he] at hfit
          dsimp only at hfit
          have : s1.b.supply ≤ s.b.supply := by
            by_cases hv : k.2 ∈ s.b.validators
            · exfalso
              unfold refreshOneS at hs
              rw [if_neg (by simpa using hv)] at hs
              split at hs
              · cases hs
              · rw [he] at hs; cases hs
            · unfold refreshOneS at hs
              rw [if_pos (by simpa using hv)] at hs
              injection hs with hs; subst hs; exact Int.le_refl _
          omega
        | ok e =>
          rw [he] at hfit
          dsimp only at hfit
          have := hsup e he
          omega

/-- the refresh of an epoch has room: the supply plus everything the accounts expect, at the new multipliers. -/
def FitsEpoch (l : State) (ups : List (Nat × Int × Int × Bool)) : Prop :=
  ∀ l1, updateMults l ups = .ok (l1, true) → l1.supply + expSum l1 l.accs ≤ roomB

theorem epochS_sim {s : SState} {ups : List (Nat × Int × Int × Bool)} (hR : ROs s) (hI : Inv s.b)
    (hfit : FitsEpoch (absL s) ups) : SimR Refines (epochS s ups) (epoch (absL s) ups) := by
  unfold epochS epoch
  rw [show absL s = setD (ledgerOf s.k) s.b from rfl, updateMults_setD]
  cases hu : updateMults s.b ups with
  | error e => trivial
  | ok r =>
    obtain ⟨b1, full⟩ := r
    obtain ⟨f, g⟩ := updateMults_spec ups s.b b1 full hI.mult0 hu
    have hR1 : ROs { s with b := b1 } := ROs_withB hR f.ledger.2.1 f.vals
    cases full with
    | false => exact ⟨rfl, hR1⟩
    | true =>
      show SimR Refines (refreshAllS { s with b := b1 } s.b.accs) (refreshAll (setD (ledgerOf s.k) b1) s.b.accs)
      refine refreshAllS_sim s.b.accs { s with b := b1 } hR1 (f.inv hI g) ?_
      have := hfit (setD (ledgerOf s.k) b1) (by
        rw [show absL s = setD (ledgerOf s.k) s.b from rfl, updateMults_setD, hu]; rfl)
      rw [expSum_setD] at this
      exact this

end OsmoVerif.Superfluid
