/-
C08 (incentives, histories) helpers, part 12: claimed coins are positive; a claim whose six totals are all below one unit
yields no coins at all (`claimLoop_nil`); the claim sums read per accumulator index (`collSum_six`).  Core only.
-/
import OsmoVerif.Proofs.CLIncHist11

namespace OsmoVerif.CLIncP
open OsmoVerif.Num OsmoVerif.CL OsmoVerif.CLPool OsmoVerif.CLFees OsmoVerif.CLInc OsmoVerif.CLFeesP OsmoVerif.CLBook
open OsmoVerif.Accum (amt sorted hev)
open OsmoVerif.Gen

/-! ## claimed coins are positive -/

theorem coinsAdd_pos : ∀ (tc : Coins) (d : String) (t : Int) (r : Coins), (∀ c ∈ tc, 0 < c.2) → 0 < t →
    Accum.coinsAdd tc d t = some r → ∀ c ∈ r, 0 < c.2 := by
  intro tc
  induction tc with
  | nil =>
    intro d t r _ ht h c hc
    simp only [Accum.coinsAdd, Option.some.injEq] at h; subst h
    simp only [List.mem_singleton] at hc; subst hc; exact ht
  | cons x rest ih =>
    obtain ⟨e, y⟩ := x
    intro d t r hall ht h c hc
    have hy : 0 < y := hall (e, y) List.mem_cons_self
    have hrest : ∀ c ∈ rest, 0 < c.2 := fun c hc => hall c (List.mem_cons_of_mem _ hc)
    unfold Accum.coinsAdd at h
    split at h
    · injection h with h; subst h
      rcases List.mem_cons.mp hc with rfl | hc
      · exact ht
      · exact hall c hc
    · split at h
      · unfold chkInt at h
        split at h
        · simp only [Option.map_some, Option.some.injEq] at h; subst h
          rcases List.mem_cons.mp hc with rfl | hc
          · simp only; omega
          · exact hrest c hc
        · cases h
      · simp only [Option.map_eq_some_iff] at h
        obtain ⟨r', hr', e'⟩ := h
        subst e'
        rcases List.mem_cons.mp hc with rfl | hc
        · exact hy
        · exact ih d t r' hrest ht hr' c hc

theorem truncGo_pos : ∀ (cs : DC) (tc : Coins) (cc : DC) (tc' : Coins) (cc' : DC),
    Accum.truncGo tc cc cs = some (tc', cc') → (∀ c ∈ tc, 0 < c.2) → ∀ c ∈ tc', 0 < c.2 := by
  intro cs
  induction cs with
  | nil =>
    intro tc cc tc' cc' h hall
    simp only [Accum.truncGo, Option.some.injEq, Prod.mk.injEq] at h
    rw [← h.1]; exact hall
  | cons x t ih =>
    obtain ⟨e, y⟩ := x
    intro tc cc tc' cc' h hall
    unfold Accum.truncGo at h
    split at h
    · cases h
    · next q hq =>
      split at h
      · cases h
      · next ch hch =>
        split at h
        · cases h
        · next hnn =>
          split at h
          · cases h
          · next tcn htc =>
            split at h
            · cases h
            · next ccn hcc =>
              refine ih _ _ _ _ h ?_
              split at htc
              · injection htc with htc; subst htc; exact hall
              · rename_i hq0
                exact coinsAdd_pos tc e q tcn hall (by omega) htc

theorem claimOne_coins_pos {a a' : UAcc} {id : Nat} {o : DC} {coins : Coins} (h : claimOne a id o = some (a', coins)) :
    ∀ c ∈ coins, 0 < c.2 := by
  cases hr : getURec a.recs id with
  | none => rw [(claimOne_none hr h).2]; intro c hc; cases hc
  | some r =>
    obtain ⟨_, total, dust, _, _, htr, _⟩ := claimOne_some hr h
    exact truncGo_pos total [] [] coins dust htr (fun c hc => by cases hc)

theorem nil_of_amt_zero {cs : Coins} (hpos : ∀ c ∈ cs, 0 < c.2) (hz : ∀ d, amt cs d = 0) : cs = [] := by
  cases cs with
  | nil => rfl
  | cons c t =>
    exfalso
    obtain ⟨e, x⟩ := c
    have hx := hpos (e, x) List.mem_cons_self
    have ht : 0 ≤ amt t e := amt_nonneg_of_all (fun c hc => Int.le_of_lt (hpos c (List.mem_cons_of_mem _ hc))) e
    have := hz e
    simp only [amt, ↓reduceIte] at this hx
    omega

/-! ## a claim with nothing to claim -/

/-- per accumulator: the claim yields no scaled coins. -/
def AllEmpty (id : Nat) : List UAcc → List DC → Prop
  | a :: as, o :: os => (∃ a', claimOne a id o = some (a', [])) ∧ AllEmpty id as os
  | _, _ => True

theorem claimLoop_nil {factor age : Int} {id : Nat} :
    ∀ (accs : List UAcc) (outs : List DC) (ups : List Int) (accs' : List UAcc) (coll forf : Coins) (byUp : List Coins),
      claimLoop factor age id accs outs ups = some (accs', coll, forf, byUp) → AllEmpty id accs outs → coll = [] ∧ forf = [] := by
  intro accs
  induction accs with
  | nil =>
    intro outs ups accs' coll forf byUp h _
    cases outs <;> cases ups <;> simp only [claimLoop, Option.some.injEq, Prod.mk.injEq, reduceCtorEq] at h
    exact ⟨h.2.1.symm, h.2.2.1.symm⟩
  | cons a as ih =>
    intro outs ups accs' coll forf byUp h hall
    cases outs with
    | nil => simp [claimLoop] at h
    | cons o os =>
      cases ups with
      | nil => simp [claimLoop] at h
      | cons up ups' =>
        simp only [AllEmpty] at hall
        obtain ⟨⟨a2, hh⟩, htail⟩ := hall
        simp only [claimLoop, Option.bind_eq_some_iff] at h
        obtain ⟨⟨a', scaled⟩, hclaim, down, hdown, ⟨as', coll0, forf0, byUp0⟩, hrest, h⟩ := h
        simp only at h hdown
        obtain ⟨hc0, hf0⟩ := ih os ups' as' coll0 forf0 byUp0 hrest htail
        rw [hclaim] at hh
        simp only [Option.some.injEq, Prod.mk.injEq] at hh
        rw [hh.2, scaleDownCoins_nil] at hdown
        injection hdown with hdown
        subst hdown
        split at h
        · simp only [coinsAddAll_nil, Option.map_some, Option.some.injEq, Prod.mk.injEq] at h
          obtain ⟨_, e1, e2, _⟩ := h
          rw [← e1, ← e2]; exact ⟨hc0, hf0⟩
        · simp only [coinsAddAll_nil, Option.map_some, Option.some.injEq, Prod.mk.injEq] at h
          obtain ⟨_, e1, e2, _⟩ := h
          rw [← e1, ← e2]; exact ⟨hc0, hf0⟩

theorem allEmpty_six {id : Nat} {accs : List UAcc} {outs : List DC} (ha : accs.length = 6) (ho : outs.length = 6)
    (h : ∀ k, k < 6 → ∀ a o, accs[k]? = some a → outs[k]? = some o → ∃ a', claimOne a id o = some (a', [])) :
    AllEmpty id accs outs := by
  obtain ⟨a0, a1, a2, a3, a4, a5, rfl⟩ := list6 ha
  obtain ⟨o0, o1, o2, o3, o4, o5, rfl⟩ := list6 ho
  simp only [AllEmpty, and_true]
  exact ⟨h 0 (by omega) a0 o0 rfl rfl, h 1 (by omega) a1 o1 rfl rfl, h 2 (by omega) a2 o2 rfl rfl, h 3 (by omega) a3 o3 rfl rfl,
    h 4 (by omega) a4 o4 rfl rfl, h 5 (by omega) a5 o5 rfl rfl⟩

/-! ## the claim sums per accumulator index -/

def upAt (k : Nat) : Int := (uptimesNs[k]?).getD 0

/-- what accumulator `j` contributes (scaled down, denom `d`) to a claim of position `id` on the synced state `i1`. -/
def claimPart (i1 : Inc) (cur l u : Int) (id : Nat) (j : Nat) (d : String) : Int :=
  amt (downOf i1.factor (accAt i1 j) id ((((outsideAll i1 cur l u).getD [])[j]?).getD [])) d

theorem collSum_six {factor age : Int} {id : Nat} (d : String) {accs : List UAcc} {outs : List DC}
    (ha : accs.length = 6) (ho : outs.length = 6) (hrec : ∀ a ∈ accs, (getURec a.recs id).isSome) :
    collSum factor age id d accs outs uptimesNs =
      sumN six (fun j => if age < upAt j then 0 else amt (downOf factor ((accs[j]?).getD {}) id ((outs[j]?).getD [])) d) ∧
    forfSum factor age id d accs outs uptimesNs =
      sumN six (fun j => if age < upAt j then amt (downOf factor ((accs[j]?).getD {}) id ((outs[j]?).getD [])) d else 0) := by
  obtain ⟨a0, a1, a2, a3, a4, a5, rfl⟩ := list6 ha
  obtain ⟨o0, o1, o2, o3, o4, o5, rfl⟩ := list6 ho
  have h0 := hrec a0 (by simp)
  have h1 := hrec a1 (by simp)
  have h2 := hrec a2 (by simp)
  have h3 := hrec a3 (by simp)
  have h4 := hrec a4 (by simp)
  have h5 := hrec a5 (by simp)
  simp only [collSum, forfSum, uptimesNs, sumN, six, upAt, h0, h1, h2, h3, h4, h5, true_and, List.getElem?_cons_zero,
    List.getElem?_cons_succ, Option.getD_some, Int.add_zero]
  exact ⟨rfl, rfl⟩

end OsmoVerif.CLIncP
