/-
C03 helpers, part 4: the swap loops.  Executed swaps and estimates use the same sqrt-price limit; a
successful `computeSwap` is a finite run of within-bucket steps whose 18-decimal amounts add up exactly,
and its integer results are the ceiling / truncation of those sums.
-/
import OsmoVerif.Proofs.CLRound3

namespace OsmoVerif.CL
open OsmoVerif.Num OsmoVerif.Gen OsmoVerif.Spec OsmoVerif.Props

theorem limit_exec_eq_estimate (zfo : Bool) : sqrtPriceLimit (execPriceLimit zfo) zfo = sqrtPriceLimit 0 zfo := by
  cases zfo <;> decide +kernel

theorem computeSwap_limit_congr {ogi zfo : Bool} {spf pl pl' : Int} {pool : PoolSt} {ticks : Ticks} {specified : Int}
    (h : sqrtPriceLimit pl zfo = sqrtPriceLimit pl' zfo) :
    computeSwap ogi zfo spf pl pool ticks specified = computeSwap ogi zfo spf pl' pool ticks specified := by
  unfold computeSwap
  rw [h]

/-- the final conversion of the loop state into the result. -/
def finishSwap (ogi : Bool) (specified : Int) (st : SwapSt) (steps crossed : Nat) : Option SwapOut :=
  if st.remaining < 0 then none else
  if ogi then
    (Dec.sub (specified * P18) st.remaining).bind fun used =>
    ((Dec.ceil used).bind Dec.truncateInt).bind fun ain =>
    (Dec.truncateInt st.calculated).bind fun aout =>
    some ⟨ain, aout, st.spreadTotal, st.pool, steps, crossed⟩
  else
    ((Dec.ceil st.calculated).bind Dec.truncateInt).bind fun ain =>
    (Dec.sub (specified * P18) st.remaining).bind fun got =>
    (Dec.truncateInt got).bind fun aout =>
    some ⟨ain, aout, st.spreadTotal, st.pool, steps, crossed⟩

theorem computeSwap_eq (ogi zfo : Bool) (spf pl : Int) (pool : PoolSt) (ticks : Ticks) (specified : Int) :
    computeSwap ogi zfo spf pl pool ticks specified =
    (sqrtPriceLimit pl zfo).bind fun limit =>
    (if zfo then (if limit > pool.sqrtPrice ∨ limit < CL.MinSqrtPriceBigDec then none else some ())
      else (if limit < pool.sqrtPrice ∨ limit > CL.MaxSqrtPriceBigDec then none else some ())).bind fun _ =>
    (swapLoop ogi zfo spf limit (2 * ticks.length + CL.swapNoProgressLimit + 8)
      { remaining := specified * P18, calculated := 0, pool := pool, spreadTotal := 0, noProgress := 0 }
      (ticksAhead zfo ticks pool.tick) 0 0).bind fun x =>
    finishSwap ogi specified x.1 x.2.1 x.2.2 := by
  unfold computeSwap finishSwap
  cases ogi <;> cases zfo <;> rfl

/-- the step function selected by the swap kind. -/
def stepOf (ogi zfo : Bool) (spf sp target liq remaining : Int) : Option StepResult :=
  if ogi then stepOutGivenIn zfo spf sp target liq remaining else stepInGivenOut zfo spf sp target liq remaining

/-- `GetSqrtTargetPrice`. -/
def targetOf (zfo : Bool) (limit nextSp : Int) : Int :=
  if zfo then (if nextSp < limit then limit else nextSp) else (if nextSp > limit then limit else nextSp)

/-- the step target is the sqrt price of an initialised tick ahead, clamped by the limit. -/
def TargetFrom (zfo : Bool) (limit target : Int) : Prop :=
  ∃ nextTick nextSp, Tick.tickToSqrtPrice nextTick = some nextSp ∧ target = targetOf zfo limit nextSp

/-- how one loop iteration moves the swap state, given the step result. -/
def Advances (ogi : Bool) (st : SwapSt) (r : StepResult) (st' : SwapSt) : Prop :=
  st'.pool.sqrtPrice = r.sqrtPriceNext ∧
  st'.spreadTotal = st.spreadTotal + r.spreadCharge ∧
  (if ogi then st'.remaining = st.remaining - (r.amountSpecified + r.spreadCharge) ∧
      st'.calculated = st.calculated + r.amountOther
    else st'.remaining = st.remaining - r.amountSpecified ∧
      st'.calculated = st.calculated + (r.amountOther + r.spreadCharge))

theorem ite_none_eq_some {α : Type} {c : Prop} [Decidable c] {x : Option α} {y : α}
    (h : (if c then none else x) = some y) : ¬ c ∧ x = some y := by
  by_cases hc : c
  · rw [if_pos hc] at h; cases h
  · rw [if_neg hc] at h; exact ⟨hc, h⟩

theorem loopBody_decomp {ogi zfo : Bool} {spf limit : Int} {st st' : SwapSt} {ahead ahead' : Ticks} {c : Bool}
    (h : loopBody ogi zfo spf limit st ahead = some (st', ahead', c)) :
    ∃ nextTick net rest nextSp r, ahead = (nextTick, net) :: rest ∧ Tick.tickToSqrtPrice nextTick = some nextSp ∧
      stepOf ogi zfo spf st.pool.sqrtPrice (targetOf zfo limit nextSp) st.pool.liquidity st.remaining = some r ∧
      Advances ogi st r st' := by
  cases ahead with
  | nil => unfold loopBody at h; cases h
  | cons hd rest =>
    obtain ⟨nextTick, net⟩ := hd
    cases ogi
    · unfold loopBody at h
      simp only [Option.bind_eq_bind, Option.pure_def, Bool.false_eq_true, if_false] at h
      obtain ⟨nextSp, hns, h1⟩ := Option.bind_eq_some_iff.mp h
      obtain ⟨r, hr, h2⟩ := Option.bind_eq_some_iff.mp h1
      clear h h1
      refine ⟨nextTick, net, rest, nextSp, r, rfl, hns, hr, ?_⟩
      obtain ⟨-, h3⟩ := ite_none_eq_some h2
      obtain ⟨spread, hspread, h4⟩ := Option.bind_eq_some_iff.mp h3
      obtain ⟨x1, hx1, h5⟩ := Option.bind_eq_some_iff.mp h4
      obtain ⟨x2, hx2, h6⟩ := Option.bind_eq_some_iff.mp h5
      obtain ⟨x3, hx3, h⟩ := Option.bind_eq_some_iff.mp h6
      clear h2 h3 h4 h5 h6
      have e0 := dec_add_exact hspread
      have e1 := dec_sub_exact hx1
      have e2 := dec_add_exact hx2
      have e3 := dec_add_exact hx3
      simp only [Option.bind_some, Option.bind_none] at h
      have fin : ∀ {Z : Prop} [Decidable Z] {a : SwapSt} {b : Ticks} {d : Bool},
          (if Z then none else some (a, b, d)) = some (st', ahead', c) → st' = a := by
        intro Z _ a b d hh
        have := (ite_none_eq_some hh).2
        cases this; rfl
      have key : st'.pool.sqrtPrice = r.sqrtPriceNext ∧ st'.remaining = x1 ∧ st'.calculated = x3 ∧ st'.spreadTotal = spread := by
        by_cases hA : nextSp = r.sqrtPriceNext
        · rw [if_pos hA] at h
          obtain ⟨liq, -, h⟩ := Option.bind_eq_some_iff.mp h
          rw [fin h]; exact ⟨rfl, rfl, rfl, rfl⟩
        · rw [if_neg hA] at h
          obtain ⟨-, h⟩ := ite_none_eq_some h
          by_cases hC : st.pool.sqrtPrice ≠ r.sqrtPriceNext
          · rw [if_pos hC] at h
            obtain ⟨t, -, h⟩ := Option.bind_eq_some_iff.mp h
            rw [fin h]; exact ⟨rfl, rfl, rfl, rfl⟩
          · rw [if_neg hC] at h
            rw [fin h]; exact ⟨rfl, rfl, rfl, rfl⟩
      obtain ⟨k1, k2, k3, k4⟩ := key
      unfold Advances
      rw [if_neg (by decide)]
      refine ⟨k1, by omega, by omega, by omega⟩
    · unfold loopBody at h
      simp only [Option.bind_eq_bind, Option.pure_def, if_true] at h
      obtain ⟨nextSp, hns, h1⟩ := Option.bind_eq_some_iff.mp h
      obtain ⟨r, hr, h2⟩ := Option.bind_eq_some_iff.mp h1
      clear h h1
      refine ⟨nextTick, net, rest, nextSp, r, rfl, hns, hr, ?_⟩
      obtain ⟨-, h3⟩ := ite_none_eq_some h2
      obtain ⟨spread, hspread, h4⟩ := Option.bind_eq_some_iff.mp h3
      obtain ⟨x2, hx2, h5⟩ := Option.bind_eq_some_iff.mp h4
      obtain ⟨x1, hx1, h6⟩ := Option.bind_eq_some_iff.mp h5
      obtain ⟨x3, hx3, h⟩ := Option.bind_eq_some_iff.mp h6
      clear h2 h3 h4 h5 h6
      have e0 := dec_add_exact hspread
      have e1 := dec_sub_exact hx1
      have e2 := dec_add_exact hx2
      have e3 := dec_add_exact hx3
      simp only [Option.bind_some, Option.bind_none] at h
      have fin : ∀ {Z : Prop} [Decidable Z] {a : SwapSt} {b : Ticks} {d : Bool},
          (if Z then none else some (a, b, d)) = some (st', ahead', c) → st' = a := by
        intro Z _ a b d hh
        have := (ite_none_eq_some hh).2
        cases this; rfl
      have key : st'.pool.sqrtPrice = r.sqrtPriceNext ∧ st'.remaining = x1 ∧ st'.calculated = x3 ∧ st'.spreadTotal = spread := by
        by_cases hA : nextSp = r.sqrtPriceNext
        · rw [if_pos hA] at h
          obtain ⟨liq, -, h⟩ := Option.bind_eq_some_iff.mp h
          rw [fin h]; exact ⟨rfl, rfl, rfl, rfl⟩
        · rw [if_neg hA] at h
          obtain ⟨-, h⟩ := ite_none_eq_some h
          by_cases hC : st.pool.sqrtPrice ≠ r.sqrtPriceNext
          · rw [if_pos hC] at h
            obtain ⟨t, -, h⟩ := Option.bind_eq_some_iff.mp h
            rw [fin h]; exact ⟨rfl, rfl, rfl, rfl⟩
          · rw [if_neg hC] at h
            rw [fin h]; exact ⟨rfl, rfl, rfl, rfl⟩
      obtain ⟨k1, k2, k3, k4⟩ := key
      unfold Advances
      rw [if_pos rfl]
      refine ⟨k1, by omega, by omega, by omega⟩

/-! ### runs of the loop -/

/-- one recorded loop iteration: swap state before it, the target, the step result. -/
structure StepRec where
  st : SwapSt
  target : Int
  res : StepResult

/-- `Run st tr st'`: the loop went from `st` to `st'` through the recorded steps `tr`. -/
inductive Run (ogi zfo : Bool) (spf limit : Int) : SwapSt → List StepRec → SwapSt → Prop
  | nil (st : SwapSt) : Run ogi zfo spf limit st [] st
  | cons {st st' st'' : SwapSt} {target : Int} {r : StepResult} {tr : List StepRec} :
      st.remaining > 1 →
      TargetFrom zfo limit target →
      stepOf ogi zfo spf st.pool.sqrtPrice target st.pool.liquidity st.remaining = some r →
      Advances ogi st r st' → Run ogi zfo spf limit st' tr st'' →
      Run ogi zfo spf limit st (⟨st, target, r⟩ :: tr) st''

theorem swapLoop_run {ogi zfo : Bool} {spf limit : Int} :
    ∀ (fuel : Nat) {st st' : SwapSt} {ahead : Ticks} {s c s' c' : Nat},
      swapLoop ogi zfo spf limit fuel st ahead s c = some (st', s', c') →
      ∃ tr, Run ogi zfo spf limit st tr st' ∧ s' = s + tr.length ∧
        ¬ (st'.remaining > 1 ∧ st'.pool.sqrtPrice ≠ limit) := by
  intro fuel
  induction fuel with
  | zero => intro st st' ahead s c s' c' h; unfold swapLoop at h; cases h
  | succ n ih =>
    intro st st' ahead s c s' c' h
    unfold swapLoop at h
    by_cases hc : st.remaining > 1 ∧ st.pool.sqrtPrice ≠ limit
    · rw [if_pos hc] at h
      cases hb : loopBody ogi zfo spf limit st ahead with
      | none => rw [hb] at h; cases h
      | some x =>
        obtain ⟨st1, ahead1, cr⟩ := x
        rw [hb] at h
        obtain ⟨tr, hrun, hlen, hstop⟩ := ih h
        obtain ⟨nextTick, net, rest, nextSp, r, -, hns, hstep, hadv⟩ := loopBody_decomp hb
        refine ⟨_ :: tr, Run.cons hc.1 ⟨nextTick, nextSp, hns, rfl⟩ hstep hadv hrun, ?_, hstop⟩
        rw [List.length_cons]; omega
    · rw [if_neg hc] at h
      cases h
      exact ⟨[], Run.nil _, rfl, hc⟩

/-- amount paid in / paid out / spread charge of a recorded step (raw 18-decimal). -/
def StepRec.amtIn (ogi : Bool) (e : StepRec) : Int := if ogi then e.res.amountSpecified else e.res.amountOther
def StepRec.amtOut (ogi : Bool) (e : StepRec) : Int := if ogi then e.res.amountOther else e.res.amountSpecified

def sumIn (ogi : Bool) : List StepRec → Int
  | [] => 0
  | e :: tr => e.amtIn ogi + sumIn ogi tr
def sumOut (ogi : Bool) : List StepRec → Int
  | [] => 0
  | e :: tr => e.amtOut ogi + sumOut ogi tr
def sumCharge : List StepRec → Int
  | [] => 0
  | e :: tr => e.res.spreadCharge + sumCharge tr

/-- the 18-decimal bookkeeping of the loop is exact: the specified side decreases by, and the calculated
side grows by, the sums of the per-step amounts. -/
theorem Run.sums {ogi zfo : Bool} {spf limit : Int} {st st' : SwapSt} {tr : List StepRec}
    (h : Run ogi zfo spf limit st tr st') :
    st'.spreadTotal = st.spreadTotal + sumCharge tr ∧
    (if ogi then st.remaining - st'.remaining = sumIn ogi tr + sumCharge tr ∧
        st'.calculated = st.calculated + sumOut ogi tr
      else st.remaining - st'.remaining = sumOut ogi tr ∧
        st'.calculated = st.calculated + (sumIn ogi tr + sumCharge tr)) := by
  induction h with
  | nil st => cases ogi <;> simp [sumIn, sumOut, sumCharge]
  | cons hrem htgt hstep hadv hrun ih =>
    obtain ⟨-, a2, a3⟩ := hadv
    obtain ⟨i1, i2⟩ := ih
    cases ogi
    · simp only [Bool.false_eq_true, if_false] at a3 i2 ⊢
      simp only [sumIn, sumOut, sumCharge, StepRec.amtIn, StepRec.amtOut, Bool.false_eq_true, if_false]
      omega
    · simp only [if_true] at a3 i2 ⊢
      simp only [sumIn, sumOut, sumCharge, StepRec.amtIn, StepRec.amtOut, if_true]
      omega

/-! ### the final integer conversion -/

theorem chkInt_some {x r : Int} (h : chkInt x = some r) : r = x := by
  unfold chkInt at h; split at h
  · exact (Option.some.inj h).symm
  · cases h

theorem dec_truncateInt_trunc {a r : Int} (h : Dec.truncateInt a = some r) : IsTrunc a P18 r := by
  have := chkInt_some h; subst this; exact tdiv_isTrunc _ _ P18_pos

theorem dec_ceil_truncateInt_ceil {a r : Int} (h : (Dec.ceil a).bind Dec.truncateInt = some r) : IsCeil a P18 r := by
  obtain ⟨b, hb, hr⟩ := Option.bind_eq_some_iff.mp h
  have eb := chkDec_some hb
  have er := chkInt_some hr
  subst eb
  rw [Int.mul_tdiv_cancel _ (Int.ne_of_gt P18_pos)] at er
  subst er
  obtain ⟨e, hp, hn⟩ := tdiv_tmod_spec a P18 P18_pos
  unfold IsCeil
  generalize a.tdiv P18 = q at *
  generalize a.tmod P18 = t at *
  rcases Int.lt_or_le a 0 with ha | ha
  · have := hn ha
    rw [if_pos (by omega), Int.sub_mul]; omega
  · have := hp ha
    split
    · rw [Int.sub_mul]; omega
    · rw [Int.sub_mul, Int.add_mul]; omega

/-- a successful `computeSwap` is a run of steps from the initial state, and its integer amounts are
the ceiling (amount in, including spread charges) and truncation (amount out) of the exact 18-decimal sums. -/
theorem computeSwap_run {ogi zfo : Bool} {spf pl : Int} {pool : PoolSt} {ticks : Ticks} {specified : Int} {r : SwapOut}
    (h : computeSwap ogi zfo spf pl pool ticks specified = some r) :
    ∃ (limit : Int) (tr : List StepRec) (st' : SwapSt),
      sqrtPriceLimit pl zfo = some limit ∧
      (if zfo then CL.MinSqrtPriceBigDec ≤ limit ∧ limit ≤ pool.sqrtPrice
        else pool.sqrtPrice ≤ limit ∧ limit ≤ CL.MaxSqrtPriceBigDec) ∧
      Run ogi zfo spf limit { remaining := specified * P18, calculated := 0, pool := pool, spreadTotal := 0, noProgress := 0 } tr st' ∧
      tr.length = r.steps ∧ r.pool = st'.pool ∧ 0 ≤ st'.remaining ∧
      r.spreadRewards = sumCharge tr ∧
      IsCeil (sumIn ogi tr + sumCharge tr) P18 r.amountIn ∧
      IsTrunc (sumOut ogi tr) P18 r.amountOut ∧
      (if ogi then sumIn ogi tr + sumCharge tr = specified * P18 - st'.remaining
        else sumOut ogi tr = specified * P18 - st'.remaining) := by
  rw [computeSwap_eq] at h
  obtain ⟨limit, hlim, h1⟩ := Option.bind_eq_some_iff.mp h
  obtain ⟨u, hval, h2⟩ := Option.bind_eq_some_iff.mp h1
  have hv : if zfo then CL.MinSqrtPriceBigDec ≤ limit ∧ limit ≤ pool.sqrtPrice
      else pool.sqrtPrice ≤ limit ∧ limit ≤ CL.MaxSqrtPriceBigDec := by
    cases zfo
    · rw [if_neg (by decide)] at hval ⊢
      have := (ite_none_eq_some hval).1
      omega
    · rw [if_pos rfl] at hval ⊢
      have := (ite_none_eq_some hval).1
      omega
  obtain ⟨x, hx, h3⟩ := Option.bind_eq_some_iff.mp h2
  clear h h1 h2
  obtain ⟨st', steps, crossed⟩ := x
  obtain ⟨tr, hrun, hlen, -⟩ := swapLoop_run _ hx
  obtain ⟨s1, s2⟩ := hrun.sums
  refine ⟨limit, tr, st', hlim, hv, hrun, ?_⟩
  unfold finishSwap at h3
  obtain ⟨hneg, h4⟩ := ite_none_eq_some h3
  simp only at hneg h4 s1 s2
  cases ogi
  · rw [if_neg (by decide)] at h4 s2 ⊢
    obtain ⟨ain, hain, h5⟩ := Option.bind_eq_some_iff.mp h4
    obtain ⟨got, hgot, h6⟩ := Option.bind_eq_some_iff.mp h5
    obtain ⟨aout, haout, h7⟩ := Option.bind_eq_some_iff.mp h6
    cases h7
    have eg := dec_sub_exact hgot
    have c1 := dec_ceil_truncateInt_ceil hain
    have c2 := dec_truncateInt_trunc haout
    have e1 : st'.calculated = sumIn false tr + sumCharge tr := by omega
    have e2 : got = sumOut false tr := by omega
    rw [e1] at c1; rw [e2] at c2
    exact ⟨by simp only; omega, rfl, by omega, by simp only; omega, c1, c2, by omega⟩
  · rw [if_pos rfl] at h4 s2 ⊢
    obtain ⟨used, hused, h5⟩ := Option.bind_eq_some_iff.mp h4
    obtain ⟨ain, hain, h6⟩ := Option.bind_eq_some_iff.mp h5
    obtain ⟨aout, haout, h7⟩ := Option.bind_eq_some_iff.mp h6
    cases h7
    have eg := dec_sub_exact hused
    have c1 := dec_ceil_truncateInt_ceil hain
    have c2 := dec_truncateInt_trunc haout
    have e1 : used = sumIn true tr + sumCharge tr := by omega
    have e2 : st'.calculated = sumOut true tr := by omega
    rw [e1] at c1; rw [e2] at c2
    exact ⟨by simp only; omega, rfl, by omega, by simp only; omega, c1, c2, by omega⟩

end OsmoVerif.CL
