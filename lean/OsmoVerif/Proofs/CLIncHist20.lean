/-
C08 (incentives, histories) helpers, part 20: `SumI` along histories (`runI_sum`), and what every position can claim against
its exact entitlement (`claimable_le_ent`).  Core only.
-/
import OsmoVerif.Proofs.CLIncHist19

namespace OsmoVerif.CLIncP
open OsmoVerif.Num OsmoVerif.CL OsmoVerif.CLPool OsmoVerif.CLFees OsmoVerif.CLInc OsmoVerif.CLFeesP OsmoVerif.CLBook
open OsmoVerif.Accum (amt sorted hev)
open OsmoVerif.Gen

theorem addI_sum {s s' : Full} {owner : String} {id nid : Nat} {add0 add1 x0 x1 : Int} {n : Int}
    (hi : IncInv s) (hs : SumI s n) (hf' : FullInv s'.fees)
    (h : CLInc.addToPosition s owner id add0 add1 = some (s', nid, x0, x1)) : SumI s' (n + 6) := by
  obtain ⟨pos, s1, w0, w1, liq, lo, up, hfind, hw, hne, hc⟩ := addI_spec h
  have hwf := withdrawI_fees hw
  have hcf := createMinI_fees hc
  have hap : applyF s.fees (.withdraw owner id pos.liq) = some s1.fees := by simp only [applyF, hwf, Option.map_some]
  obtain ⟨hf1, sf1⟩ := apply_facts hi.fees hap
  obtain ⟨sf2, _⟩ := createMin_facts hf1.pool.core hf1.acc hcf
  have f1 := withdrawI_facts hi hf1 sf1 hw
  have f2 := createI_facts f1.inv hf' sf2 hc
  exact createI_sum f1.inv (withdrawI_sum hi hs hf1 f1 hw) hf' f2 hc

theorem applyI_sum {s s' : Full} {op : IOp} {n : Int} (hi : IncInv s) (hs : SumI s n) (h : applyI s op = some s') : SumI s' (n + 6) := by
  have sf := applyI_facts hi h
  have hf' := sf.inv.fees
  cases op with
  | fee fop =>
    cases fop with
    | create o l u a0 a1 =>
      simp only [applyI, Option.map_eq_some_iff] at h
      obtain ⟨⟨s1, id, x0, x1, liq, lo, up⟩, h, e⟩ := h
      simp only at e; subst e
      exact (createI_sum hi hs hf' sf h).mono (by omega)
    | withdraw o id liq =>
      simp only [applyI, Option.map_eq_some_iff] at h
      obtain ⟨⟨s1, o0, o1⟩, h, e⟩ := h
      simp only at e; subst e
      exact withdrawI_sum hi hs hf' sf h
    | add o id a0 a1 =>
      simp only [applyI, Option.map_eq_some_iff] at h
      obtain ⟨⟨s2, nid, x0, x1⟩, h, e⟩ := h
      simp only at e; subst e
      exact addI_sum hi hs hf' h
    | transfer sd id n' => exact (transferI_sum hi hs h).mono (by omega)
    | swap og zfo spec =>
      simp only [applyI, Option.map_eq_some_iff] at h
      obtain ⟨⟨s1, ain, aout, fee⟩, h, e⟩ := h
      simp only at e; subst e
      exact (swapI_sum hi hs sf h).mono (by omega)
    | collect sd id =>
      simp only [applyI, Option.map_eq_some_iff] at h
      obtain ⟨⟨s1, c0, c1⟩, h, e⟩ := h
      simp only at e; subst e
      exact (collectSpreadI_sum hi hs sf h).mono (by omega)
  | incentive id d a r st u => exact (createIncentiveI_sum hi hs h).mono (by omega)
  | advance ns =>
    simp only [applyI, Option.some.injEq] at h
    subst h
    exact (advanceI_sum hi hs ns).mono (by omega)
  | sync => exact (syncNowI_sum hi hs sf h).mono (by omega)
  | icollect sd id =>
    simp only [applyI, Option.map_eq_some_iff] at h
    obtain ⟨⟨s1, c, f⟩, h, e⟩ := h
    simp only at e; subst e
    exact collectIncentivesI_sum hi hs h

theorem stepI_sum {s : Full} (op : IOp) {n : Int} (hi : IncInv s) (hs : SumI s n) : SumI (stepI s op) (n + 6) := by
  rcases stepI_cases s op with h | ⟨s', h, e⟩
  · rw [h]; exact hs.mono (by omega)
  · rw [e]; exact applyI_sum hi hs h

theorem runI_sum {s : Full} (ops : List IOp) {n : Int} (hi : IncInv s) (hs : SumI s n) :
    SumI (runI s ops) (n + 6 * ops.length) := by
  induction ops generalizing s n with
  | nil => simpa [runI] using hs
  | cons op ops ih =>
    have := ih (stepI_facts op hi).inv (stepI_sum op hi hs)
    show SumI (runI (stepI s op) ops) _
    have e : n + 6 + 6 * (ops.length : Int) = n + 6 * ((op :: ops).length : Int) := by
      simp only [List.length_cons, Nat.cast_add, Nat.cast_one]; omega
    rw [← e]; exact this

/-- what a position can claim (collected + forfeited, whole tokens) against its exact entitlement after sync. -/
theorem claimable_le_ent {s : Full} (hi : IncInv s) {q : Position} (hq : q ∈ s.fees.pool.positions) {c f : Coins}
    (h : claimableIncentives s q.id = some (c, f)) {i1 : Inc} (hsync : sync s.inc s.fees.pool.liquidity = some i1) (d : String) :
    0 ≤ amt c d ∧ 0 ≤ amt f d ∧
    2 * ((amt c d + amt f d) * (P18 * i1.factor)) ≤ 2 * entQ { s with inc := i1 } d q + 6 * P18 := by
  obtain ⟨pos, i1', i2, byUp, T, hmem, hid, hsync', hp1, hclaim, hj, _, _, _, _⟩ := claimableI_spec hi h
  rw [hsync] at hsync'; injection hsync' with e; subst e
  have hpq : pos = q := mem_eq_of_id hi.fees.pool.core.pos.uniq hmem hq hid
  subst hpq
  have hj1 : joinOf i1 pos.id = some T := by
    obtain ⟨_, _, _, _, j1, _⟩ := sync_part hi.inc hsync
    unfold joinOf; rw [j1]; exact hj
  obtain ⟨T', hj', _, hsplit, _⟩ := claim_split hi.fees hp1 hmem hclaim
  have hTT : T = T' := by rw [hj1] at hj'; injection hj'
  subst hTT
  obtain ⟨n1, n2, parts⟩ := claim_parts hi.fees hp1 hmem hj1 hclaim d
  have hP := P18_pos
  have hF := hp1.factor
  refine ⟨amt_nonneg_of_all n1 d, amt_nonneg_of_all n2 d, ?_⟩
  have hsum : amt c d + amt f d = sumN six (fun k => claimPart i1 s.fees.pool.tick pos.lower pos.upper pos.id k d) := by
    rw [(hsplit d).1, (hsplit d).2, ← sumN_add]
    apply sumN_congr
    intro k _
    split <;> omega
  rw [hsum]
  have hk : ∀ k ∈ six, 2 * (claimPart i1 s.fees.pool.tick pos.lower pos.upper pos.id k d * (P18 * i1.factor)) ≤
      2 * ent { s with inc := i1 } d k pos + P18 := by
    intro k hk
    obtain ⟨r, cs, hr, hsh, hx, ht0, hp0, hpb, _, _⟩ := parts k (mem_six.mp hk)
    have hshn : 0 ≤ r.shares := by have := hi.fees.pool.core.pos.liqPos pos hmem; omega
    have hre : 2 * (rawTotal r (insU i1 s.fees.pool.tick k d pos.lower pos.upper) d * P18) ≤ 2 * ent { s with inc := i1 } d k pos + P18 :=
      rawTotal_le_ent (s := { s with inc := i1 }) (k := k) (d := d) (q := pos) hr hshn hx
    obtain ⟨q0, q1, _⟩ := tdiv_le_self ht0 hP
    generalize rawTotal r (insU i1 s.fees.pool.tick k d pos.lower pos.upper) d = t at *
    generalize claimPart i1 s.fees.pool.tick pos.lower pos.upper pos.id k d = D at *
    have h1' : D * i1.factor * P18 ≤ t.tdiv P18 * P18 * P18 := Int.mul_le_mul_of_nonneg_right hpb (by omega)
    have h2' : t.tdiv P18 * P18 * P18 ≤ t * P18 := Int.mul_le_mul_of_nonneg_right q1 (by omega)
    have e3 : D * (P18 * i1.factor) = D * i1.factor * P18 := by rw [Int.mul_comm P18, Int.mul_assoc]
    rw [e3]; omega
  have := sumN_le hk
  rw [sumN_mul_left, sumN_mul, sumN_add, sumN_mul_left, sumN_six_const] at this
  exact this

end OsmoVerif.CLIncP
