/-
C03, same-amount comparison, part 4 (exact-out, swapper's side): how far the exact amount OUT along the path actually taken
can exceed the amount delivered.  Per step (`outSlack`, raw 18-decimal units):
* the amount out is the 18-decimal truncation of the round-down delta, less than `outLoss` below the exact amount — unless it
  is CAPPED by the request; that happens only in a step whose next sqrt price was computed from the requested amount and
  rounded AWAY from the current price:
    zero-for-one `⌈·⌉` of the price decrement: slack `liq/10^36`;
    one-for-zero three nested roundings up: slack `10^36·(10^36 + liq·10^18 + next)/(sp·next)/10^18`.
-/
import OsmoVerif.Proofs.CLIdeal3

namespace OsmoVerif.CLIdeal
open OsmoVerif.CLPool OsmoVerif.CLBook OsmoVerif.CLSolv OsmoVerif.CL OsmoVerif.Num OsmoVerif.Tick OsmoVerif.Gen
open OsmoVerif.Spec OsmoVerif.Props OsmoVerif.CLLimit OsmoVerif.Spec.CLCurve

/-- `GetNextSqrtPriceFromAmount1OutRoundingDown`: the ceiling adds less than one unit to the price decrement. -/
theorem next1Out_exact_lt {sp liq amt x : Int} (h : nextSqrtPriceAmount1Out sp liq amt = some x)
    (hl : 0 ≤ liq) : (sp - x) * liq < amt * P18 + liq := by
  rw [nextSqrtPriceAmount1Out_eq] at h
  obtain ⟨q, hq, hx⟩ := Option.bind_eq_some_iff.mp h
  have ex := C12.sub_exact hx
  have hlpos : 0 < liq := by
    rcases Int.lt_or_le 0 liq with hp | hz
    · exact hp
    · have e0 : liq = 0 := by omega
      subst e0
      unfold BigDec.quoByDecRoundUp at hq
      simp at hq
  have cq := quoByDecRoundUp_ceil_pos hlpos hq
  have := cq.1
  rw [ex]
  have e : (sp - (sp - q)) * liq = q * liq := by ring
  rw [Int.sub_mul] at this
  omega

/-- `GetNextSqrtPriceFromAmount0OutRoundingUp` (positive denominator): ceilings of the product, of the numerator and of the
quotient. -/
theorem next0Out_exact_lt {sp l rem x : Int} (h : nextSqrtPriceAmount0Out sp l rem = some x)
    (hl : 0 < l) (hsp : 0 < sp) (hrem : 0 ≤ rem) (hx0 : 0 < x) (hxs : sp ≤ x) :
    (x - sp) * l * P18 < rem * (x * sp) + P18 * (P36 + l + x) := by
  rw [nextSqrtPriceAmount0Out_eq] at h
  by_cases hz : rem = 0
  · rw [if_pos hz] at h; injection h with e
    subst e; subst hz
    have : 0 < P18 * (P36 + l + sp) := Int.mul_pos P18_pos (by have := P36_pos; omega)
    simp only [Int.sub_self, Int.zero_mul]
    omega
  · rw [if_neg hz] at h
    obtain ⟨product, hp, h1⟩ := Option.bind_eq_some_iff.mp h
    obtain ⟨denom, hd, h2⟩ := Option.bind_eq_some_iff.mp h1
    obtain ⟨num, hn, h3⟩ := Option.bind_eq_some_iff.mp h2
    have cp : IsCeil (sp * rem) P18 product := C12.mulRoundUpDec_ceil hp
    have ed := C12.sub_exact hd
    have cn := C12.mulRoundUp_ceil hn
    have dne : denom ≠ 0 := (C12.quoRoundUpMut_ceil h3).1
    have p0 : 0 ≤ product := ceil_nonneg P18_pos (Int.mul_nonneg (by omega) hrem) cp
    have n0 : 0 < num := mulRoundUp_pos hl hsp hn
    -- the denominator is positive: otherwise the quotient would not be positive
    have d0 : 0 < denom := by
      rcases Int.lt_or_le 0 denom with hp' | hnp
      · exact hp'
      · exfalso
        have hneg : denom < 0 := by omega
        have hq := (C12.quoRoundUpMut_ceil h3).2
        rw [sgnMul_of_neg _ hneg] at hq
        have hnat : (denom.natAbs : Int) = -denom := by omega
        rw [hnat] at hq
        have q1 := hq.1
        have : 0 * (-denom) ≤ (x - 1) * (-denom) := Int.mul_le_mul_of_nonneg_right (by omega) (by omega)
        have hnp36 : 0 < num * P36 := Int.mul_pos n0 P36_pos
        omega
    have cx := quoRoundUpMut_ceil_pos d0 h3
    have dl : denom ≤ l := by omega
    -- x·denom < l·sp + P36 + denom
    have k1 : x * denom < l * sp + P36 + denom := by
      have a1 := cx.1
      have a2 := cn.1
      rw [Int.sub_mul] at a1 a2
      omega
    have k2 : l * (x - sp) < x * product + P36 + denom := by
      rw [ed] at k1
      have e1 : x * (l - product) = x * l - x * product := by ring
      have e2 : l * (x - sp) = x * l - l * sp := by ring
      omega
    have k3 : l * (x - sp) * P18 < (x * product + P36 + denom) * P18 := Int.mul_lt_mul_of_pos_right k2 P18_pos
    have k4 : x * ((product - 1) * P18) ≤ x * (sp * rem - 1) := Int.mul_le_mul_of_nonneg_left (by have := cp.1; omega) (Int.le_of_lt hx0)
    have e3 : (x - sp) * l * P18 = l * (x - sp) * P18 := by ring
    have e4 : (x * product + P36 + denom) * P18 = x * ((product - 1) * P18) + x * P18 + (P36 + denom) * P18 := by ring
    have e5 : x * (sp * rem - 1) = rem * (x * sp) - x := by ring
    have e6 : P18 * (P36 + l + x) = (P36 + l) * P18 + x * P18 := by ring
    have k5 : (P36 + denom) * P18 ≤ (P36 + l) * P18 := Int.mul_le_mul_of_nonneg_right (by omega) P18_nonneg
    omega

/-! ## the per-step slack -/

/-- one-for-zero exact-out step that does not reach its target: bound on the excess from rounding the next sqrt price. -/
def priceSlackOut0 (liq sp next : Int) : ℚ :=
  10 ^ 36 * (10 ^ 36 + (liq : ℚ) * 10 ^ 18 + next) / ((sp : ℚ) * next) / 10 ^ 18

/-- how far (raw 18-decimal units) the exact amount out of a recorded exact-out step can exceed the amount it delivered. -/
def outSlack (zfo : Bool) (e : StepRec) : ℚ :=
  outLoss zfo e.res.sqrtPriceNext e.st.pool.sqrtPrice +
    (if zfo then (e.st.pool.liquidity : ℚ) / 10 ^ 36
      else priceSlackOut0 e.st.pool.liquidity e.st.pool.sqrtPrice e.res.sqrtPriceNext)

def sumOutSlack (zfo : Bool) : List StepRec → ℚ
  | [] => 0
  | e :: tr => outSlack zfo e + sumOutSlack zfo tr

theorem exact1_down {liq sp next : Int} (h : next ≤ sp) : exact1 liq next sp = ((sp : ℚ) - next) * liq / 10 ^ 36 := by
  unfold exact1
  rw [show ((next - sp).natAbs : Int) = sp - next by omega]
  push_cast
  norm_num

theorem outLoss_nonneg {zfo : Bool} {p q : Int} (hp : 0 < p) (hq : 0 < q) : 0 ≤ outLoss zfo p q := by
  unfold outLoss
  cases zfo
  · simp only [Bool.false_eq_true, ↓reduceIte]
    unfold loss0
    have qp : (0 : ℚ) < p := by exact_mod_cast hp
    have qq : (0 : ℚ) < q := by exact_mod_cast hq
    have qm : (0 : ℚ) < ((min p q : Int) : ℚ) := by
      have : 0 < min p q := by omega
      exact_mod_cast this
    positivity
  · simp

/-- one exact-out step: the exact amount out between its start and end price is less than the amount delivered plus the
slack. -/
theorem stepInGivenOut_exact_lt_out {zfo : Bool} {spf sp target liq remainingOut : Int} {r : StepResult}
    (hl : 0 ≤ liq) (hsp : 0 < sp) (ht : 0 < target) (hs0 : 0 ≤ spf) (hs1 : spf < P18) (hrem : 0 ≤ remainingOut)
    (hdir : if zfo then target ≤ sp else sp ≤ target)
    (hdn : if zfo then r.sqrtPriceNext ≤ sp else sp ≤ r.sqrtPriceNext)
    (h : stepInGivenOut zfo spf sp target liq remainingOut = some r) :
    exactOut zfo liq r.sqrtPriceNext sp <
      (r.amountSpecified : ℚ) + outSlack zfo ⟨⟨remainingOut, 0, ⟨sp, 0, liq⟩, 0, 0⟩, target, r⟩ := by
  have hn := stepInGivenOut_next_pos' hl hsp ht hrem hdir h
  obtain ⟨x, y, out0, _, hy, _, cO, _, h0, hnext⟩ := stepInGivenOut_decomp h
  have hloss0 := outLoss_nonneg (zfo := zfo) hn hsp
  unfold outSlack
  simp only
  by_cases hcap : y > remainingOut * Pdiff
  · -- capped: the step delivered everything requested; it cannot have reached its target
    rw [if_pos hcap] at cO
    have eS : r.amountSpecified = remainingOut := cO.exact Pdiff_pos
    have hcb : ¬ remainingOut * Pdiff ≥ out0 := by
      intro hc
      rw [if_pos hc] at hnext
      injection hnext with e
      rw [← e] at hy
      rw [hy] at h0
      injection h0 with e2
      omega
    rw [if_neg hcb] at hnext
    rw [eS]
    cases zfo
    · simp only [Bool.false_eq_true, ↓reduceIte] at hnext hdn ⊢
      obtain ⟨l, hlb, hnx⟩ := Option.bind_eq_some_iff.mp hnext
      have el := C12.fromDec_exact hlb
      subst el
      have hlpos : 0 < liq := by
        rcases Int.lt_or_le 0 liq with hp | hz
        · exact hp
        · have e0 : liq = 0 := by omega
          subst e0
          unfold deltaOut at h0
          simp only [Bool.false_eq_true, ↓reduceIte] at h0
          have := amount0_roundDown_zero_liq ht hsp h0
          have : 0 ≤ remainingOut * Pdiff := Int.mul_nonneg hrem Pdiff_nonneg
          omega
      have k := next0Out_exact_lt hnx (Int.mul_pos hlpos Pdiff_pos) hsp hrem hn hdn
      unfold exactOut
      simp only [Bool.false_eq_true, ↓reduceIte]
      rw [exact0_comm, exact0_sorted hdn]
      unfold priceSlackOut0
      have qn : (0 : ℚ) < r.sqrtPriceNext := by exact_mod_cast hn
      have qsp : (0 : ℚ) < sp := by exact_mod_cast hsp
      have hns : (0 : ℚ) < (sp : ℚ) * r.sqrtPriceNext := by positivity
      have qk : ((r.sqrtPriceNext : ℚ) - sp) * ((liq : ℚ) * 10 ^ 18) * 10 ^ 18 <
          (remainingOut : ℚ) * ((r.sqrtPriceNext : ℚ) * sp) + 10 ^ 18 * (10 ^ 36 + (liq : ℚ) * 10 ^ 18 + r.sqrtPriceNext) := by
        have : (((r.sqrtPriceNext - sp) * (liq * Pdiff) * P18 : Int) : ℚ) <
            ((remainingOut * (r.sqrtPriceNext * sp) + P18 * (P36 + liq * Pdiff + r.sqrtPriceNext) : Int) : ℚ) :=
          Int.cast_lt.mpr k
        push_cast at this
        rw [P36_cast, Pdiff_cast, P18_cast] at this
        exact this
      have e : (remainingOut : ℚ) + (outLoss false r.sqrtPriceNext sp +
          10 ^ 36 * (10 ^ 36 + (liq : ℚ) * 10 ^ 18 + r.sqrtPriceNext) / ((sp : ℚ) * r.sqrtPriceNext) / 10 ^ 18) =
          ((remainingOut : ℚ) * ((sp : ℚ) * r.sqrtPriceNext) + 10 ^ 18 * (10 ^ 36 + (liq : ℚ) * 10 ^ 18 + r.sqrtPriceNext)) /
            ((sp : ℚ) * r.sqrtPriceNext) + outLoss false r.sqrtPriceNext sp := by
        field_simp
        ring
      rw [e]
      have : ((r.sqrtPriceNext : ℚ) - sp) * liq * 10 ^ 36 / ((sp : ℚ) * r.sqrtPriceNext) <
          ((remainingOut : ℚ) * ((sp : ℚ) * r.sqrtPriceNext) + 10 ^ 18 * (10 ^ 36 + (liq : ℚ) * 10 ^ 18 + r.sqrtPriceNext)) /
            ((sp : ℚ) * r.sqrtPriceNext) := by
        rw [div_lt_div_iff_of_pos_right hns]
        nlinarith
      linarith
    · simp only [↓reduceIte] at hnext hdn ⊢
      have k := next1Out_exact_lt hnext hl
      unfold exactOut
      simp only [↓reduceIte]
      rw [exact1_down hdn]
      have : (((sp - r.sqrtPriceNext) * liq : Int) : ℚ) < ((remainingOut * Pdiff * P18 + liq : Int) : ℚ) := Int.cast_lt.mpr k
      push_cast at this
      rw [Pdiff_cast, P18_cast] at this
      have e : (remainingOut : ℚ) + (outLoss true r.sqrtPriceNext sp + (liq : ℚ) / 10 ^ 36) =
          ((remainingOut : ℚ) * 10 ^ 18 * 10 ^ 18 + liq) / 10 ^ 36 + outLoss true r.sqrtPriceNext sp := by ring
      rw [e]
      have : ((sp : ℚ) - r.sqrtPriceNext) * liq / 10 ^ 36 < ((remainingOut : ℚ) * 10 ^ 18 * 10 ^ 18 + liq) / 10 ^ 36 := by
        rw [div_lt_div_iff_of_pos_right (by positivity)]
        exact this
      linarith
  · -- not capped: the truncation of the round-down delta
    rw [if_neg hcap] at cO
    have b := outLower_of_deltaOut hn hsp hl hy cO
    have : (0 : ℚ) ≤ (if zfo then (liq : ℚ) / 10 ^ 36 else priceSlackOut0 liq sp r.sqrtPriceNext) := by
      have ql : (0 : ℚ) ≤ liq := by exact_mod_cast hl
      have qn : (0 : ℚ) < r.sqrtPriceNext := by exact_mod_cast hn
      have qsp : (0 : ℚ) < sp := by exact_mod_cast hsp
      split
      · positivity
      · unfold priceSlackOut0; positivity
    linarith

/-- summed over a run of an exact-out swap. -/
theorem run_exact_out_lt {zfo : Bool} {spf limit : Int} {st st' : SwapSt} {tr : List StepRec}
    (hs0 : 0 ≤ spf) (hs1 : spf < P18) (h : Run false zfo spf limit st tr st')
    (hall : ∀ e ∈ tr, RecGoodL false zfo limit e) :
    sumExactOut zfo tr ≤ (sumOut false tr : ℚ) + sumOutSlack zfo tr := by
  have hmem := h.mem
  clear h
  induction tr with
  | nil => simp [sumExactOut, sumOut, sumOutSlack]
  | cons e tr ih =>
    have i := ih (fun e he => hall e (List.mem_cons_of_mem _ he)) (fun e he => hmem e (List.mem_cons_of_mem _ he))
    obtain ⟨⟨⟨hliq, hdirT⟩, hsp, hn, hdirs⟩, _, _⟩ := hall e List.mem_cons_self
    obtain ⟨hrem, _, hstep⟩ := hmem e List.mem_cons_self
    unfold stepOf at hstep
    simp only [Bool.false_eq_true, ↓reduceIte] at hstep
    have ht : 0 < e.target := by
      cases zfo
      · simp only [Bool.false_eq_true, ↓reduceIte] at hdirs; omega
      · simp only [↓reduceIte] at hdirs; omega
    have hdn : if zfo then e.res.sqrtPriceNext ≤ e.st.pool.sqrtPrice else e.st.pool.sqrtPrice ≤ e.res.sqrtPriceNext := by
      cases zfo
      · simp only [Bool.false_eq_true, ↓reduceIte] at hdirs ⊢; exact hdirs.2
      · simp only [↓reduceIte] at hdirs ⊢; exact hdirs.2.2.2
    have b := stepInGivenOut_exact_lt_out hliq hsp ht hs0 hs1 (by omega) (hdirT rfl) hdn hstep
    have b' : exactOut zfo e.st.pool.liquidity e.res.sqrtPriceNext e.st.pool.sqrtPrice <
        (e.res.amountSpecified : ℚ) + outSlack zfo e := b
    unfold sumExactOut sumOut sumOutSlack StepRec.amtOut
    simp only [Bool.false_eq_true, ↓reduceIte]
    push_cast at i ⊢
    linarith

/-- the slack in numbers: at sqrt prices ≥ 10^-6 at most 3 raw units + liquidity·10^-24. -/
theorem outSlack_le {zfo : Bool} {e : StepRec}
    (hf1 : 1000000000000000000000000000000 ≤ e.st.pool.sqrtPrice)
    (hf2 : 1000000000000000000000000000000 ≤ e.res.sqrtPriceNext) (hliq : 0 ≤ e.st.pool.liquidity) :
    outSlack zfo e ≤ 3 + (e.st.pool.liquidity : ℚ) / 10 ^ 24 := by
  have ql : (0 : ℚ) ≤ e.st.pool.liquidity := by exact_mod_cast hliq
  have qp : (10 : ℚ) ^ 30 ≤ e.st.pool.sqrtPrice := by exact_mod_cast hf1
  have qn : (10 : ℚ) ^ 30 ≤ e.res.sqrtPriceNext := by exact_mod_cast hf2
  have p0 : (0 : ℚ) < e.st.pool.sqrtPrice := by linarith [show (0 : ℚ) < 10 ^ 30 by positivity]
  have n0 : (0 : ℚ) < e.res.sqrtPriceNext := by linarith [show (0 : ℚ) < 10 ^ 30 by positivity]
  have hm : (1000000000000000000000000000000 : Int) ≤ 1000000000000000000000000000000 := Int.le_refl _
  have l1 := outLoss_le (zfo := zfo) (p := e.res.sqrtPriceNext) (q := e.st.pool.sqrtPrice)
    (by decide : (0 : Int) < 1000000000000000000000000000000) hf2 hf1
  have l2 := outLossU_le (zfo := zfo) hm
  have l3 : (2 : ℚ) / 10 ^ 6 ≤ 1 := by norm_num
  unfold outSlack
  cases zfo
  · simp only [Bool.false_eq_true, ↓reduceIte]
    unfold priceSlackOut0
    have hns : (0 : ℚ) < (e.st.pool.sqrtPrice : ℚ) * e.res.sqrtPriceNext := by positivity
    have hns60 : (10 : ℚ) ^ 60 ≤ (e.st.pool.sqrtPrice : ℚ) * e.res.sqrtPriceNext := by
      have : (10 : ℚ) ^ 60 = 10 ^ 30 * 10 ^ 30 := by norm_num
      rw [this]
      exact mul_le_mul qp qn (by positivity) (le_of_lt p0)
    have key : (10 : ℚ) ^ 36 * (10 ^ 36 + (e.st.pool.liquidity : ℚ) * 10 ^ 18 + e.res.sqrtPriceNext) /
        ((e.st.pool.sqrtPrice : ℚ) * e.res.sqrtPriceNext) / 10 ^ 18 ≤ 1 + (e.st.pool.liquidity : ℚ) / 10 ^ 24 := by
      rw [div_div, div_le_iff₀ (by positivity)]
      have b1 : (10 : ℚ) ^ 36 * 10 ^ 36 ≤ (1 / 2) * ((e.st.pool.sqrtPrice : ℚ) * e.res.sqrtPriceNext * 10 ^ 18) := by nlinarith
      have b2 : (10 : ℚ) ^ 36 * (e.res.sqrtPriceNext : ℚ) ≤ (1 / 2) * ((e.st.pool.sqrtPrice : ℚ) * e.res.sqrtPriceNext * 10 ^ 18) := by
        have : (2 : ℚ) * 10 ^ 36 ≤ e.st.pool.sqrtPrice * 10 ^ 18 := by nlinarith
        nlinarith
      have b4 : (10 : ℚ) ^ 36 * ((e.st.pool.liquidity : ℚ) * 10 ^ 18) ≤
          (e.st.pool.liquidity : ℚ) / 10 ^ 24 * ((e.st.pool.sqrtPrice : ℚ) * e.res.sqrtPriceNext * 10 ^ 18) := by
        have e2 : (e.st.pool.liquidity : ℚ) / 10 ^ 24 * ((e.st.pool.sqrtPrice : ℚ) * e.res.sqrtPriceNext * 10 ^ 18) =
            (e.st.pool.liquidity : ℚ) * ((e.st.pool.sqrtPrice : ℚ) * e.res.sqrtPriceNext) / 10 ^ 6 := by ring
        rw [e2, le_div_iff₀ (by positivity)]
        have : (e.st.pool.liquidity : ℚ) * 10 ^ 60 ≤ (e.st.pool.liquidity : ℚ) * ((e.st.pool.sqrtPrice : ℚ) * e.res.sqrtPriceNext) :=
          mul_le_mul_of_nonneg_left hns60 ql
        nlinarith
      nlinarith
    linarith
  · simp only [↓reduceIte]
    have : (e.st.pool.liquidity : ℚ) / 10 ^ 36 ≤ (e.st.pool.liquidity : ℚ) / 10 ^ 24 :=
      div_le_div_of_nonneg_left ql (by positivity) (by norm_num)
    linarith

end OsmoVerif.CLIdeal
