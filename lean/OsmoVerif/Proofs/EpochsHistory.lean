/- C17 helper lemmas: the hook-free timer step, the canonical signal stream, and invariants of
reachable states. -/
import OsmoVerif.Proofs.EpochsBlock
namespace OsmoVerif.Epochs

/-! ### committed effect of a block -/

theorem stepBlock_cases (s : State) (b : Block) :
    ((beginBlock s b).panicked = true ∧ stepBlock s b = s ∧ committedSignals s b = []) ∨
    ((beginBlock s b).panicked = false ∧
      (stepBlock s b).timers = s.timers.map (pureStep b.t b.h) ∧
      (stepBlock s b).subs = (s.timers.flatMap (pureSignals b.t)).foldl (applySignal b.script) s.subs ∧
      committedSignals s b = s.timers.flatMap (pureSignals b.t)) := by
  cases hp : (beginBlock s b).panicked with
  | true => left; simp [stepBlock, committedSignals, hp]
  | false =>
    right
    have hp' : (processTimers b.t b.h b.script s.timers s.subs).panicked = false := hp
    obtain ⟨a1, a2, _, a4⟩ := processTimers_ok b.t b.h b.script s.timers s.subs hp'
    refine ⟨rfl, ?_, ?_, ?_⟩
    · simp only [stepBlock, hp]; exact a1
    · simp only [stepBlock, hp]; exact a4
    · simp only [committedSignals, hp]; exact a2

/-! ### one timer -/

theorem pureStep_identifier (t h : Int) (e : EpochInfo) : (pureStep t h e).identifier = e.identifier := by
  unfold pureStep; repeat' split
  all_goals rfl
theorem pureStep_startTime (t h : Int) (e : EpochInfo) : (pureStep t h e).startTime = e.startTime := by
  unfold pureStep; repeat' split
  all_goals rfl
theorem pureStep_duration (t h : Int) (e : EpochInfo) : (pureStep t h e).duration = e.duration := by
  unfold pureStep; repeat' split
  all_goals rfl

theorem pureSignals_timer (t : Int) (e : EpochInfo) : ∀ sig ∈ pureSignals t e, sig.timer = e.identifier := by
  unfold pureSignals
  repeat' split
  all_goals simp

theorem pureStep_onGrid (t h : Int) (e : EpochInfo) (hg : OnGrid e) : OnGrid (pureStep t h e) := by
  unfold pureStep
  split
  · split
    · rename_i hs
      intro _
      have := hg hs
      simp only
      rw [this, Int.add_sub_cancel, Int.sub_mul, Int.one_mul]
      omega
    · intro _; simp
  · exact hg

/-- a counting timer's epoch number is at least 1 -/
def EpochPos (e : EpochInfo) : Prop := e.epochCountingStarted = true → 1 ≤ e.currentEpoch

theorem pureStep_epochPos (t h : Int) (e : EpochInfo) (hg : EpochPos e) : EpochPos (pureStep t h e) := by
  unfold pureStep
  split
  · split
    · rename_i hs
      intro _
      have := hg hs
      simp only; omega
    · intro _; simp
  · exact hg

theorem pureStep_started_start_le (t h T : Int) (e : EpochInfo) (hT : T ≤ t)
    (he : e.epochCountingStarted = true → e.startTime ≤ T) :
    (pureStep t h e).epochCountingStarted = true → (pureStep t h e).startTime ≤ t := by
  rw [pureStep_startTime]
  unfold pureStep
  split
  · rename_i ht
    intro _
    simp [ticks] at ht
    exact ht.1
  · intro hs; have := he hs; omega

/-! ### canonical stream -/

theorem canon_succ (n : Nat) : canon (n + 1) = canon n ++ [sigAt n] := by
  simp [canon, List.range_succ]

theorem sigAt_odd (m : Nat) (n : Int) (h : (m : Int) = 2 * n - 1) : sigAt m = (.epochEnd, n) := by
  have h2 : m % 2 = 1 := by omega
  simp only [sigAt, h2]
  simp
  omega

theorem sigAt_even (m : Nat) (n : Int) (h : (m : Int) = 2 * n) : sigAt m = (.epochStart, n + 1) := by
  have h2 : m % 2 = 0 := by omega
  simp only [sigAt, h2]
  simp
  omega

/-- the signals one block adds to a timer continue the canonical stream exactly -/
theorem canon_step (t h : Int) (e : EpochInfo) (hp : EpochPos e) :
    canon (sigCount e) ++ (pureSignals t e).map (fun s => (s.kind, s.epoch)) = canon (sigCount (pureStep t h e)) := by
  unfold pureStep pureSignals
  split
  · split
    · rename_i hs
      have h1 := hp hs
      simp only [sigCount, hs, if_true, List.map_cons, List.map_nil]
      have hm : (((2 * e.currentEpoch - 1).toNat : Nat) : Int) = 2 * e.currentEpoch - 1 := by omega
      have hm2 : (2 * (e.currentEpoch + 1) - 1).toNat = (2 * e.currentEpoch - 1).toNat + 2 := by omega
      rw [hm2, canon_succ, canon_succ, sigAt_odd _ e.currentEpoch hm,
        sigAt_even ((2 * e.currentEpoch - 1).toNat + 1) e.currentEpoch (by omega)]
      simp
    · rename_i hs
      have hs' : e.epochCountingStarted = false := by cases hq : e.epochCountingStarted <;> simp_all
      simp only [sigCount, hs']
      simp [canon, sigAt]
  · simp

/-- the explicit stream satisfies the recursive (automaton) formulation -/
theorem canonFrom_of_suffix : ∀ (k : Nat) (m : Nat) (n : Int),
    ((m : Int) = 2 * n - 1 → CanonFrom (some (false, n)) ((List.range' m k).map sigAt)) ∧
    ((m : Int) = 2 * n → CanonFrom (some (true, n)) ((List.range' m k).map sigAt))
  | 0, _, _ => by simp [CanonFrom]
  | k + 1, m, n => by
    constructor
    · intro h
      simp only [List.range'_succ, List.map_cons]
      rw [sigAt_odd m n h]
      exact ⟨rfl, rfl, (canonFrom_of_suffix k (m + 1) n).2 (by omega)⟩
    · intro h
      simp only [List.range'_succ, List.map_cons]
      rw [sigAt_even m n h]
      exact ⟨rfl, rfl, (canonFrom_of_suffix k (m + 1) (n + 1)).1 (by omega)⟩

theorem canonFrom_canon (k : Nat) : CanonFrom none (canon k) := by
  cases k with
  | zero => simp [canon, CanonFrom]
  | succ k =>
    have : canon (k + 1) = sigAt 0 :: (List.range' 1 k).map sigAt := by
      simp [canon, List.range_eq_range', List.range'_succ]
    rw [this]
    have h0 : sigAt 0 = (.epochStart, 1) := by simp [sigAt]
    rw [h0]
    exact ⟨rfl, rfl, (canonFrom_of_suffix k 1 1).1 (by omega)⟩

theorem sigAt_injective : ∀ i j, sigAt i = sigAt j → i = j := by
  intro i j h
  unfold sigAt at h
  split at h <;> split at h <;> simp at h <;> omega

theorem canon_nodup (k : Nat) : (canon k).Nodup := by
  unfold canon
  rw [List.Nodup, List.pairwise_map]
  exact (List.nodup_range (n := k)).imp (fun hne h => hne (sigAt_injective _ _ h))

/-! ### signal histories -/

theorem sigsFor_append (id : String) (a b : List Signal) : sigsFor id (a ++ b) = sigsFor id a ++ sigsFor id b := by
  simp [sigsFor]

theorem sigsFor_eq_nil (id : String) (l : List Signal) (h : ∀ s ∈ l, s.timer ≠ id) : sigsFor id l = [] := by
  simp only [sigsFor, List.map_eq_nil_iff, List.filter_eq_nil_iff]
  intro s hs; simpa using h s hs

theorem sigsFor_self (id : String) (l : List Signal) (h : ∀ s ∈ l, s.timer = id) :
    sigsFor id l = l.map (fun s => (s.kind, s.epoch)) := by
  simp only [sigsFor]
  rw [List.filter_eq_self.2]
  intro s hs; simpa using h s hs

/-- with distinct identifiers, the signals of a block attributed to timer `e` are exactly `e`'s -/
theorem sigsFor_flatMap (t : Int) : ∀ (l : List EpochInfo), Distinct l → ∀ e ∈ l,
    sigsFor e.identifier (l.flatMap (pureSignals t)) = (pureSignals t e).map (fun s => (s.kind, s.epoch))
  | [], _, e, he => by simp at he
  | x :: r, hd, e, he => by
    have hd' := List.pairwise_cons.1 hd
    simp only [List.flatMap_cons, sigsFor_append]
    rcases List.mem_cons.1 he with rfl | her
    · rw [sigsFor_self _ _ (pureSignals_timer t e)]
      rw [sigsFor_eq_nil]
      · simp
      · intro s hs
        obtain ⟨y, hy, hsy⟩ := List.mem_flatMap.1 hs
        rw [pureSignals_timer t y s hsy]
        exact fun h => hd'.1 y hy h.symm
    · rw [sigsFor_eq_nil _ (pureSignals t x)]
      · simp [sigsFor_flatMap t r hd'.2 e her]
      · intro s hs
        rw [pureSignals_timer t x s hs]
        exact hd'.1 e her

/-! ### AddEpochInfo -/

theorem mem_insertTimer (e : EpochInfo) : ∀ (l : List EpochInfo) (x : EpochInfo), x ∈ insertTimer e l ↔ x = e ∨ x ∈ l
  | [], x => by simp [insertTimer]
  | y :: r, x => by
    unfold insertTimer
    split
    · simp
    · simp [mem_insertTimer e r x, or_left_comm]

theorem distinct_insertTimer (e : EpochInfo) : ∀ (l : List EpochInfo), Distinct l →
    (∀ x ∈ l, x.identifier ≠ e.identifier) → Distinct (insertTimer e l)
  | [], _, _ => by simp [insertTimer, Distinct]
  | y :: r, hd, hne => by
    have hd' := List.pairwise_cons.1 hd
    unfold insertTimer
    split
    · exact List.pairwise_cons.2 ⟨fun x hx => (hne x hx).symm, hd⟩
    · refine List.pairwise_cons.2 ⟨?_, distinct_insertTimer e r hd'.2 (fun x hx => hne x (List.mem_cons_of_mem _ hx))⟩
      intro x hx
      rcases (mem_insertTimer e r x).1 hx with rfl | hx
      · exact hne y (List.mem_cons_self ..)
      · exact hd'.1 x hx

/-- what a successful `AddEpochInfo` does, extensionally -/
theorem addEpochInfo_some {ctxT ctxH : Int} {e : EpochInfo} {s s' : State} (h : addEpochInfo ctxT ctxH e s = some s') :
    ∃ e', e'.identifier = e.identifier ∧ e'.epochCountingStarted = e.epochCountingStarted ∧
      e'.currentEpoch = e.currentEpoch ∧ e'.currentEpochStartTime = e.currentEpochStartTime ∧
      e'.duration = e.duration ∧ e'.startTime = (if e.startTime = 0 then ctxT else e.startTime) ∧
      e'.currentEpochStartHeight = ctxH ∧
      (∀ x ∈ s.timers, x.identifier ≠ e.identifier) ∧ validate e = true ∧
      s'.timers = insertTimer e' s.timers ∧ s'.subs = s.subs := by
  unfold addEpochInfo at h
  split at h
  · simp at h
  · rename_i hv
    split at h
    · simp at h
    · rename_i hany
      simp only [Option.some.injEq] at h
      subst h
      refine ⟨_, ?_, ?_, ?_, ?_, ?_, ?_, rfl, ?_, ?_, rfl, rfl⟩
      · simp only; split <;> rfl
      · simp only; split <;> rfl
      · simp only; split <;> rfl
      · simp only; split <;> rfl
      · simp only; split <;> rfl
      · simp only; split <;> simp_all
      · intro x hx hxe
        apply hany
        simp only [List.any_eq_true]
        exact ⟨x, hx, by simp [hxe]⟩
      · simpa using hv

end OsmoVerif.Epochs
