/- C10 helper lemmas, part 3: anatomy of a successful query; error times along the index. -/
import OsmoVerif.Proofs.TwapInv

namespace OsmoVerif.Twap
open OsmoVerif.Num

/-- `getInterpolatedRecord`'s inheritance of an error sitting on the record's own time. -/
def inherit (r : TwapRecord) (t : Int) : TwapRecord := if r.time = r.lastErr then { r with lastErr := t } else r

theorem getInterpolatedRecord_ok {s : Store} {now t : Int} {A : TwapRecord}
    (h : getInterpolatedRecord s now t = .ok A) :
    ∃ r, recAtOrBefore s.hist t = some r ∧ interp (inherit r t) t = some A := by
  unfold getInterpolatedRecord at h
  split at h
  · split at h
    · cases h
    · split at h <;> cases h
  · rename_i r hr
    refine ⟨r, hr, ?_⟩
    simp only at h
    unfold inherit
    cases hi : interp (if r.time = r.lastErr then { r with lastErr := t } else r) t with
    | none => rw [hi] at h; cases h
    | some x => rw [hi] at h; exact congrArg some (by injection h)

/-- anatomy of a successful query. -/
theorem getTwap_ok {s : Store} {now a b : Int} {q0 : Bool} {st : Strategy} {res : Int × Bool} (wf : WF s)
    (hnow : ∀ r ∈ s.hist, r.time ≤ now) (h : getTwap s now a b q0 st = .ok res) :
    a ≤ b ∧ b ≤ now ∧ ∃ ra rb A B, recAtOrBefore s.hist a = some ra ∧ recAtOrBefore s.hist b = some rb ∧
      interp (inherit ra a) a = some A ∧
      (interp (inherit rb b) b = some B ∨ (b = now ∧ interp rb b = some B)) ∧
      computeTwap A B q0 st = .ok res := by
  unfold getTwap at h
  split at h
  · cases h
  · rename_i hab
    split at h
    · rename_i hbn
      subst hbn
      unfold getTwapToNow at h
      rw [if_neg hab] at h
      cases hA : getInterpolatedRecord s b a with
      | err => rw [hA] at h; cases h
      | panic => rw [hA] at h; cases h
      | ok A =>
        rw [hA] at h
        simp only [Res.bind] at h
        obtain ⟨ra, hra, hiA⟩ := getInterpolatedRecord_ok hA
        unfold getMostRecentRecord at h
        cases hr : s.recent with
        | none => rw [hr] at h; cases h
        | some rb =>
          rw [hr] at h
          simp only at h
          cases hiB : interp rb b with
          | none => rw [hiB] at h; cases h
          | some B =>
            rw [hiB] at h
            simp only [Res.ofOpt] at h
            have hl : s.hist.getLast? = some rb := by rw [← wf.recent, hr]
            exact ⟨by omega, Int.le_refl _, ra, rb, A, B, hra, recAtOrBefore_last wf.chain hl hnow, hiA, Or.inr ⟨rfl, hiB⟩, h⟩
    · split at h
      · cases h
      · cases hA : getInterpolatedRecord s now a with
        | err => rw [hA] at h; cases h
        | panic => rw [hA] at h; cases h
        | ok A =>
          rw [hA] at h
          simp only [Res.bind] at h
          cases hB : getInterpolatedRecord s now b with
          | err => rw [hB] at h; cases h
          | panic => rw [hB] at h; cases h
          | ok B =>
            rw [hB] at h
            simp only at h
            obtain ⟨ra, hra, hiA⟩ := getInterpolatedRecord_ok hA
            obtain ⟨rb, hrb, hiB⟩ := getInterpolatedRecord_ok hB
            exact ⟨by omega, by omega, ra, rb, A, B, hra, hrb, hiA, Or.inl hiB, h⟩

theorem inherit_fields (r : TwapRecord) (t : Int) :
    (inherit r t).time = r.time ∧ (inherit r t).sp0 = r.sp0 ∧ (inherit r t).sp1 = r.sp1 ∧
    (inherit r t).acc0 = r.acc0 ∧ (inherit r t).acc1 = r.acc1 ∧ (inherit r t).geom = r.geom ∧
    (inherit r t).lastErr = (if r.time = r.lastErr then t else r.lastErr) := by
  unfold inherit
  split <;> simp_all

theorem logW_inherit (r : TwapRecord) (t : Int) : logW (inherit r t) = logW r := by
  unfold logW; rw [(inherit_fields r t).2.1]

/-- the value part of `computeTwap` for a non-degenerate interval. -/
theorem computeTwap_value {A B : TwapRecord} {q0 : Bool} {st : Strategy} {res : Int × Bool}
    (hne : B.time - A.time ≠ 0) (h : computeTwap A B q0 st = .ok res) :
    strategyTwap st A B q0 = some res.1 ∧ res.2 = errFlag A B := by
  unfold computeTwap at h
  simp only at h
  rw [if_neg hne] at h
  cases hs : strategyTwap st A B q0 with
  | none => rw [hs] at h; cases h
  | some v =>
    rw [hs] at h
    simp only [Res.ofOpt, Res.bind] at h
    injection h with h
    subst h
    exact ⟨rfl, rfl⟩

theorem computeTwap_flag {A B : TwapRecord} {q0 : Bool} {st : Strategy} {res : Int × Bool}
    (h : computeTwap A B q0 st = .ok res) : res.2 = errFlag A B := by
  unfold computeTwap at h
  simp only at h
  split at h
  · injection h with h; subst h; rfl
  · cases hs : strategyTwap st A B q0 with
    | none => rw [hs] at h; cases h
    | some v =>
      rw [hs] at h
      simp only [Res.ofOpt, Res.bind] at h
      injection h with h
      subst h; rfl

theorem decSub_some {a b d : Int} (h : Dec.sub a b = some d) : d = a - b := by
  unfold Dec.sub at h; exact chkDec_some h

/-- the interpolated record of `getInterpolatedRecord` in terms of the stored record it starts from. -/
theorem interp_inherit_fields {r A : TwapRecord} {t : Int} (h : interp (inherit r t) t = some A) :
    A.time = t ∧ A.sp0 = r.sp0 ∧ A.sp1 = r.sp1 ∧
    A.acc0 = r.acc0 + r.sp0 * (canonicalMs t - canonicalMs r.time) ∧
    A.acc1 = r.acc1 + r.sp1 * (canonicalMs t - canonicalMs r.time) ∧
    A.geom = r.geom + logW r * (canonicalMs t - canonicalMs r.time) ∧
    A.lastErr = (if r.sp0 = 0 ∧ r.time ≠ t then t else if r.time = r.lastErr then t else r.lastErr) := by
  obtain ⟨h1, _, h3, h4, h5, h6, h7, h8⟩ := interp_spec h
  obtain ⟨i1, i2, i3, i4, i5, i6, i7⟩ := inherit_fields r t
  rw [logW_inherit] at h7
  simp only [i1, i2, i3, i4, i5, i6, i7] at h3 h4 h5 h6 h7 h8
  exact ⟨h1, h3, h4, h5, h6, h7, h8⟩

/-- the end record of a query (either path) in terms of the stored record it starts from. -/
theorem endRecord_fields {r B : TwapRecord} {t now : Int}
    (h : interp (inherit r t) t = some B ∨ (t = now ∧ interp r t = some B)) :
    B.time = t ∧ B.sp0 = r.sp0 ∧ B.sp1 = r.sp1 ∧
    B.acc0 = r.acc0 + r.sp0 * (canonicalMs t - canonicalMs r.time) ∧
    B.acc1 = r.acc1 + r.sp1 * (canonicalMs t - canonicalMs r.time) ∧
    B.geom = r.geom + logW r * (canonicalMs t - canonicalMs r.time) ∧
    (B.lastErr = (if r.sp0 = 0 ∧ r.time ≠ t then t else if r.time = r.lastErr then t else r.lastErr) ∨
     B.lastErr = (if r.sp0 = 0 ∧ r.time ≠ t then t else r.lastErr)) := by
  rcases h with h | ⟨_, h⟩
  · obtain ⟨h1, h3, h4, h5, h6, h7, h8⟩ := interp_inherit_fields h
    exact ⟨h1, h3, h4, h5, h6, h7, Or.inl h8⟩
  · obtain ⟨h1, _, h3, h4, h5, h6, h7, h8⟩ := interp_spec h
    exact ⟨h1, h3, h4, h5, h6, h7, Or.inr h8⟩

/-! ### error times along the index -/

theorem chain_unique_time : ∀ {h : List TwapRecord} {x y : TwapRecord}, Chain h → x ∈ h → y ∈ h → x.time = y.time → x = y := by
  intro h
  induction h with
  | nil => intro x y _ hx; cases hx
  | cons a l ih =>
    intro x y hc hx hy ht
    rcases List.mem_cons.mp hx with hx' | hx' <;> rcases List.mem_cons.mp hy with hy' | hy'
    · rw [hx', hy']
    · rw [hx'] at ht; have := Chain.head_lt hc y hy'; omega
    · rw [hy'] at ht; have := Chain.head_lt hc x hx'; omega
    · exact ih hc.tail hx' hy' ht

/-- error times never decrease along the index. -/
theorem lastErr_mono_head {a : TwapRecord} : ∀ {l : List TwapRecord}, Chain (a :: l) →
    (∀ x ∈ a :: l, x.lastErr ≤ x.time) → ∀ y ∈ l, a.lastErr ≤ y.lastErr := by
  intro l
  induction l generalizing a with
  | nil => intro _ _ y hy; cases hy
  | cons b rs ih =>
    intro hc he y hy
    have hab : a.lastErr ≤ b.lastErr := by
      rcases hc.1.err with e | e
      · have := he a List.mem_cons_self; have := hc.1.lt; omega
      · omega
    rcases List.mem_cons.mp hy with hy | hy
    · subst hy; exact hab
    · exact Int.le_trans hab (ih hc.2 (fun x hx => he x (List.mem_cons_of_mem _ hx)) y hy)

theorem lastErr_mono : ∀ {h : List TwapRecord} {r y : TwapRecord}, Chain h → (∀ x ∈ h, x.lastErr ≤ x.time) →
    r ∈ h → y ∈ h → r.time ≤ y.time → r.lastErr ≤ y.lastErr := by
  intro h
  induction h with
  | nil => intro r y _ _ hr; cases hr
  | cons a l ih =>
    intro r y hc he hr hy ht
    rcases List.mem_cons.mp hr with hr' | hr' <;> rcases List.mem_cons.mp hy with hy' | hy'
    · rw [hr', hy']
    · rw [hr']; exact lastErr_mono_head hc he y hy'
    · rw [hy'] at ht; have := Chain.head_lt hc r hr'; omega
    · exact ih hc.tail (fun x hx => he x (List.mem_cons_of_mem _ hx)) hr' hy' ht

/-- where an error time comes from: the head's, or the own time of an error record at or before. -/
theorem lastErr_origin {a : TwapRecord} : ∀ {l : List TwapRecord}, Chain (a :: l) → ∀ y ∈ a :: l,
    y.lastErr = a.lastErr ∨ ∃ z ∈ a :: l, IsErr z ∧ z.time = y.lastErr ∧ z.time ≤ y.time := by
  intro l
  induction l generalizing a with
  | nil =>
    intro _ y hy
    rcases List.mem_cons.mp hy with hy | hy
    · subst hy; exact Or.inl rfl
    · cases hy
  | cons b rs ih =>
    intro hc y hy
    rcases List.mem_cons.mp hy with hy | hy
    · subst hy; exact Or.inl rfl
    · rcases ih hc.2 y hy with h1 | ⟨z, hz, hze, hzt, hzy⟩
      · rcases hc.1.err with e | e
        · right
          refine ⟨b, List.mem_cons_of_mem _ List.mem_cons_self, e, by rw [h1, e], ?_⟩
          rcases List.mem_cons.mp hy with hy | hy
          · subst hy; exact Int.le_refl _
          · exact Int.le_of_lt (Chain.head_lt hc.2 y hy)
        · left; rw [h1, e]
      · exact Or.inr ⟨z, List.mem_cons_of_mem _ hz, hze, hzt, hzy⟩

end OsmoVerif.Twap
