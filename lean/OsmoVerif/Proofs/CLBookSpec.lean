/-
C07 helpers, part 3: what a successful call of each pool operation of `Model/CLPool.lean` did, as equations
between the old and the new pool (the definitions are `do` blocks; these lemmas take them apart once).
Also the operation type, `step`, `run` of the history model.  Core only.
-/
import OsmoVerif.Proofs.CLBookSum
import OsmoVerif.Proofs.CLBookTicks

namespace OsmoVerif.CLBook
open OsmoVerif.CLPool OsmoVerif.CL OsmoVerif.Num OsmoVerif.Tick OsmoVerif.Gen

/-! ## histories -/

/-- the state-changing messages of one concentrated pool. -/
inductive Op where
  | create (owner : String) (lower upper amount0 amount1 : Int)
  | withdraw (owner : String) (id : Nat) (liq : Int)
  | add (owner : String) (id : Nat) (amount0 amount1 : Int)
  | transfer (sender : String) (id : Nat) (newOwner : String)
  | swap (outGivenIn zfo : Bool) (specified : Int)
  deriving Repr, DecidableEq

/-- the pool after the operation, `none` if the operation fails. -/
def apply (p : Pool) : Op → Option Pool
  | .create o l u a0 a1 => (createPosition p o l u a0 a1).map (·.1)
  | .withdraw o id liq => (withdrawPosition p o id liq).map (·.1)
  | .add o id a0 a1 => (addToPosition p o id a0 a1).map (·.1)
  | .transfer s id n => transferPosition p s id n
  | .swap og zfo spec => (CLPool.swap p og zfo spec).map (·.1)

/-- a failed operation leaves the pool unchanged (transaction atomicity). -/
def step (p : Pool) (op : Op) : Pool :=
  match apply p op with
  | some p' => p'
  | none => p

def run (p : Pool) : List Op → Pool
  | [] => p
  | op :: ops => run (step p op) ops

/-- a freshly created pool. -/
def initPool (spacing spf : Int) : Pool := { spacing := spacing, spf := spf }

/-! ## updatePosition -/

theorem updatePosition_new {p : Pool} {id : Nat} {owner : String} {l u d : Int} {p' : Pool} {x0 x1 : Int} {le ue : Bool}
    (hnew : ∀ q ∈ p.positions, q.id ≠ id)
    (h : updatePosition p id owner l u d = some (p', x0, x1, le, ue)) :
    0 ≤ d ∧
    p' = { p with
      ticks := updTick (updTick p.ticks l d false) u d true,
      positions := p.positions ++ [⟨id, owner, l, u, d⟩],
      liquidity := if inRange p l u then p.liquidity + d else p.liquidity } ∧
    le = tickEmpty (updTick (updTick p.ticks l d false) u d true) l ∧
    ue = tickEmpty (updTick (updTick p.ticks l d false) u d true) u := by
  have hfind : p.positions.find? (fun x => decide (x.id = id)) = none := by
    rw [List.find?_eq_none]; intro q hq; simpa using hnew q hq
  have hany : p.positions.any (fun x => decide (x.id = id)) = false := by
    rw [List.any_eq_false]; intro q hq; simpa using hnew q hq
  unfold updatePosition at h
  simp only [hfind, hany, Int.zero_add] at h
  by_cases hd : d < 0
  · rw [if_pos hd] at h; cases h
  · rw [if_neg hd] at h
    simp only [Option.bind_eq_bind, Option.bind_eq_some_iff, Option.some.injEq, Prod.mk.injEq] at h
    obtain ⟨a, _, x0', _, x1', _, h1, _, _, h4, h5⟩ := h
    refine ⟨by omega, ?_, h4.symm, h5.symm⟩
    rw [← h1]; simp

theorem updatePosition_old {p : Pool} {id : Nat} {owner : String} {l u d : Int} {p' : Pool} {x0 x1 : Int} {le ue : Bool}
    {pos : Position} (hfind : p.positions.find? (fun x => decide (x.id = id)) = some pos)
    (h : updatePosition p id owner l u d = some (p', x0, x1, le, ue)) :
    0 ≤ pos.liq + d ∧
    p' = { p with
      ticks := updTick (updTick p.ticks l d false) u d true,
      positions := p.positions.map fun q => if q.id = id then { q with liq := pos.liq + d } else q,
      liquidity := if inRange p l u then p.liquidity + d else p.liquidity } ∧
    le = tickEmpty (updTick (updTick p.ticks l d false) u d true) l ∧
    ue = tickEmpty (updTick (updTick p.ticks l d false) u d true) u := by
  have hany : p.positions.any (fun x => decide (x.id = id)) = true := by
    rw [List.any_eq_true]
    have := List.find?_some hfind
    exact ⟨pos, List.mem_of_find?_eq_some hfind, this⟩
  unfold updatePosition at h
  simp only [hfind, hany] at h
  by_cases hd : pos.liq + d < 0
  · rw [if_pos hd] at h; cases h
  · rw [if_neg hd] at h
    simp only [Option.bind_eq_bind, Option.bind_eq_some_iff, Option.some.injEq, Prod.mk.injEq] at h
    obtain ⟨a, _, x0', _, x1', _, h1, _, _, h4, h5⟩ := h
    refine ⟨by omega, ?_, h4.symm, h5.symm⟩
    rw [← h1]; simp

/-! ## createPositionMin -/

theorem ite_none_bind {α β} (c : Prop) [Decidable c] (f : α → Option β) (y : Option β) (x : β) :
    ((if c then (none : Option α).bind f else y) = some x) ↔ (¬ c ∧ y = some x) := by
  split <;> simp [*]

theorem createPositionMin_some {p : Pool} {owner : String} {lower upper a0 a1 m0 m1 : Int}
    {p' : Pool} {id : Nat} {r0 r1 liq l' u' : Int}
    (h : createPositionMin p owner lower upper a0 a1 m0 m1 = some (p', id, r0, r1, liq, l', u')) :
    ∃ (p2 p3 : Pool) (le ue : Bool),
      validRange p.spacing l' u' = true ∧ liq ≠ 0 ∧ id = p.nextId ∧
      p2.spacing = p.spacing ∧ p2.spf = p.spf ∧ p2.liquidity = p.liquidity ∧ p2.ticks = p.ticks ∧
      p2.positions = p.positions ∧ p2.nextId = p.nextId + 1 ∧
      (p.positions ≠ [] → p2.sqrtPrice = p.sqrtPrice ∧ p2.tick = p.tick) ∧
      (p.positions = [] → sqrtPriceToTickRoundDownSpacing p2.sqrtPrice p.spacing = some p2.tick) ∧
      updatePosition p2 p.nextId owner l' u' liq = some (p3, r0, r1, le, ue) ∧
      p' = { p3 with bal0 := p3.bal0 + r0, bal1 := p3.bal1 + r1 } := by
  have hvalid : ∀ lower' upper', ¬¬validRange p.spacing lower upper = true →
      ¬((lower ≠ lower' ∨ upper ≠ upper') ∧ ¬validRange p.spacing lower' upper' = true) →
      validRange p.spacing lower' upper' = true := by
    intro lower' upper' c1 c3
    by_cases hv : validRange p.spacing lower' upper' = true
    · exact hv
    · have : ¬ (lower ≠ lower' ∨ upper ≠ upper') := fun hne => c3 ⟨hne, hv⟩
      have hl : lower = lower' := by omega
      have hu : upper = upper' := by omega
      subst hl; subst hu
      exact Decidable.not_not.mp c1
  unfold createPositionMin at h
  simp only [Option.bind_eq_bind] at h
  by_cases c7 : p.positions.isEmpty = true
  · have hnil : p.positions = [] := List.isEmpty_iff.mp c7
    simp only [c7, ↓reduceIte, ite_none_bind, Option.bind_eq_some_iff, Option.pure_def, Option.bind_some,
      Option.some.injEq, Prod.mk.injEq] at h
    obtain ⟨c1, _, spL, _, spU, _, lower', _, upper', _, c3, _, price, _, s, _, sp, _, t, f4, liq0, _, c4,
      ⟨p3, x0, x1, le, ue⟩, e6, _, _, t1, t2, t3, t4, t5, t6, t7⟩ := h
    simp only at t1 t3 t4
    subst t5; subst t6; subst t7; subst t3; subst t4
    exact ⟨{ p with nextId := p.nextId + 1, sqrtPrice := sp, tick := t }, p3, le, ue, hvalid _ _ c1 c3, c4, t2.symm,
      rfl, rfl, rfl, rfl, rfl, rfl, fun hne => absurd hnil hne, fun _ => f4, e6, t1.symm⟩
  · have hne : p.positions ≠ [] := fun e => c7 (List.isEmpty_iff.mpr e)
    simp only [c7, Bool.false_eq_true, ↓reduceIte, ite_none_bind, Option.bind_eq_some_iff, Option.pure_def, Option.bind_some,
      Option.some.injEq, Prod.mk.injEq] at h
    obtain ⟨c1, _, spL, _, spU, _, lower', _, upper', _, c3, liq0, _, c4,
      ⟨p3, x0, x1, le, ue⟩, e6, _, _, t1, t2, t3, t4, t5, t6, t7⟩ := h
    simp only at t1 t3 t4
    subst t5; subst t6; subst t7; subst t3; subst t4
    exact ⟨{ p with nextId := p.nextId + 1 }, p3, le, ue, hvalid _ _ c1 c3, c4, t2.symm,
      rfl, rfl, rfl, rfl, rfl, rfl, fun _ => ⟨rfl, rfl⟩, fun e => absurd e hne, e6, t1.symm⟩

/-! ## withdrawPosition -/

theorem withdrawPosition_some {p : Pool} {owner : String} {id : Nat} {req : Int} {p' : Pool} {o0 o1 : Int}
    (h : withdrawPosition p owner id req = some (p', o0, o1)) :
    ∃ (pos : Position) (p1 : Pool) (a0 a1 : Int) (le ue : Bool),
      p.positions.find? (fun x => decide (x.id = id)) = some pos ∧ owner = pos.owner ∧ 0 ≤ req ∧ req ≤ pos.liq ∧
      updatePosition p id owner pos.lower pos.upper (-req) = some (p1, a0, a1, le, ue) ∧
      p'.positions = (if req = pos.liq then p1.positions.filter (fun x => decide (x.id ≠ id)) else p1.positions) ∧
      p'.ticks = (if ue then removeTick (if le then removeTick p1.ticks pos.lower else p1.ticks) pos.upper
                  else (if le then removeTick p1.ticks pos.lower else p1.ticks)) ∧
      p'.liquidity = p1.liquidity ∧ p'.spacing = p1.spacing ∧ p'.spf = p1.spf ∧ p'.nextId = p1.nextId ∧
      (p'.positions = [] → p'.sqrtPrice = 0 ∧ p'.tick = 0) ∧
      (p'.positions ≠ [] → p'.sqrtPrice = p1.sqrtPrice ∧ p'.tick = p1.tick) := by
  unfold withdrawPosition at h
  simp only [Option.bind_eq_bind, ite_none_bind, Option.bind_eq_some_iff,
    Option.some.injEq, Prod.mk.injEq] at h
  obtain ⟨pos, e1, c1, c2, c3, ⟨p1, a0, a1, le, ue⟩, e2, c4, h1, _, _⟩ := h
  simp only at h1
  refine ⟨pos, p1, a0, a1, le, ue, e1, Decidable.not_not.mp c1, by omega, by omega, e2, ?_⟩
  have hpart : req ≠ pos.liq → p1.positions ≠ [] := by
    -- a partial withdrawal keeps the position, so the list cannot be empty
    intro _ hnil
    have hold := updatePosition_old e1 e2
    have hm := List.mem_of_find?_eq_some e1
    rw [hold.2.1] at hnil
    simp only at hnil
    have := List.map_eq_nil_iff.mp hnil
    rw [this] at hm; cases hm
  by_cases c5 : req = pos.liq
  · by_cases c6 : (p1.positions.filter (fun x => decide (x.id ≠ id))).isEmpty = true
    · have hnil := List.isEmpty_iff.mp c6
      simp only [c5, c6, ↓reduceIte] at h1
      subst h1
      rw [if_pos c5]
      exact ⟨rfl, rfl, rfl, rfl, rfl, rfl, fun _ => ⟨rfl, rfl⟩, fun hne => absurd hnil hne⟩
    · have hne : p1.positions.filter (fun x => decide (x.id ≠ id)) ≠ [] := fun e => c6 (List.isEmpty_iff.mpr e)
      simp only [c5, c6, Bool.false_eq_true, ↓reduceIte] at h1
      subst h1
      rw [if_pos c5]
      exact ⟨rfl, rfl, rfl, rfl, rfl, rfl, fun e => absurd e hne, fun _ => ⟨rfl, rfl⟩⟩
  · have := hpart c5
    simp only [c5, ↓reduceIte] at h1
    subst h1
    rw [if_neg c5]
    exact ⟨rfl, rfl, rfl, rfl, rfl, rfl, fun e => absurd e this, fun _ => ⟨rfl, rfl⟩⟩

/-! ## addToPosition, transferPosition, swap -/

theorem addToPosition_some {p : Pool} {owner : String} {id : Nat} {add0 add1 : Int} {p' : Pool} {nid : Nat} {r0 r1 : Int}
    (h : addToPosition p owner id add0 add1 = some (p', nid, r0, r1)) :
    ∃ (pos : Position) (p1 : Pool) (w0 w1 liq l' u' : Int),
      withdrawPosition p owner id pos.liq = some (p1, w0, w1) ∧
      createPositionMin p1 owner pos.lower pos.upper (w0 + add0) (w1 + add1) w0 w1 = some (p', nid, r0, r1, liq, l', u') := by
  unfold addToPosition at h
  simp only [Option.bind_eq_bind, ite_none_bind, Option.bind_eq_some_iff,
    Option.some.injEq, Prod.mk.injEq] at h
  obtain ⟨pos, _, _, _, _, ⟨p1, w0, w1⟩, e2, _, ⟨p2, nid', b0, b1, liq, l', u'⟩, e3, h1, h2, h3, h4⟩ := h
  simp only at h1 h2 h3 h4 e3
  subst h1; subst h2; subst h3; subst h4
  exact ⟨pos, p1, w0, w1, liq, l', u', e2, e3⟩

theorem transferPosition_some {p : Pool} {sender : String} {id : Nat} {newOwner : String} {p' : Pool}
    (h : transferPosition p sender id newOwner = some p') :
    ∃ pos : Position, p.positions.find? (fun x => decide (x.id = id)) = some pos ∧ sender = pos.owner ∧
      p' = { p with positions := p.positions.map fun q => if q.id = id then { q with owner := newOwner } else q } := by
  unfold transferPosition at h
  simp only [Option.bind_eq_bind, ite_none_bind, Option.bind_eq_some_iff,
    Option.some.injEq] at h
  obtain ⟨pos, e1, c1, _, h1⟩ := h
  exact ⟨pos, e1, Decidable.not_not.mp c1, h1.symm⟩

/-- an executed swap (which may additionally fail in the accumulator update) is the amounts-only `execSwap`
whenever it succeeds. -/
theorem execSwapS_some {scale : Int} {og zfo : Bool} {spf : Int} {pool : PoolSt} {ticks : Ticks} {spec : Int}
    {x : SwapOut × Int} (h : execSwapS scale og zfo spf pool ticks spec = some x) :
    execSwap og zfo spf pool ticks spec = some x := by
  unfold execSwapS at h
  cases hc : computeSwapS scale og zfo spf (execPriceLimit zfo) pool ticks spec with
  | none => rw [hc] at h; cases h
  | some r => rw [hc] at h; exact h

theorem swap_some {p : Pool} {og zfo : Bool} {spec : Int} {p' : Pool} {ain aout fee : Int}
    (h : CLPool.swap p og zfo spec = some (p', ain, aout, fee)) :
    ∃ (r : SwapOut) (f : Int),
      p.positions ≠ [] ∧
      execSwap og zfo p.spf ⟨p.sqrtPrice, p.tick, p.liquidity⟩ (p.ticks.map fun t => (t.tick, t.net)) spec = some (r, f) ∧
      p'.sqrtPrice = r.pool.sqrtPrice ∧ p'.tick = r.pool.tick ∧ p'.liquidity = r.pool.liquidity ∧
      p'.ticks = p.ticks ∧ p'.positions = p.positions ∧ p'.nextId = p.nextId ∧ p'.spacing = p.spacing ∧ p'.spf = p.spf := by
  unfold CLPool.swap at h
  simp only [Option.bind_eq_bind, ite_none_bind, Option.bind_eq_some_iff] at h
  obtain ⟨c1, ⟨r, f⟩, e1, c2, h⟩ := h
  have hne : p.positions ≠ [] := fun e => c1 (List.isEmpty_iff.mpr e)
  refine ⟨r, f, hne, execSwapS_some e1, ?_⟩
  simp only at h
  cases zfo
  · simp only [Bool.false_eq_true, ↓reduceIte] at h
    split at h
    · cases h
    · simp only [Option.some.injEq, Prod.mk.injEq] at h
      obtain ⟨h1, _⟩ := h
      subst h1
      exact ⟨rfl, rfl, rfl, rfl, rfl, rfl, rfl, rfl⟩
  · simp only [↓reduceIte] at h
    split at h
    · cases h
    · simp only [Option.some.injEq, Prod.mk.injEq] at h
      obtain ⟨h1, _⟩ := h
      subst h1
      exact ⟨rfl, rfl, rfl, rfl, rfl, rfl, rfl, rfl⟩

end OsmoVerif.CLBook
