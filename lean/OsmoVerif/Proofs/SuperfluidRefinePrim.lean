/- C11, refinement of the rate-one ledger model by the staking model, part 2: the abstraction map, the refinement
invariant, and the three staking primitives (`mintOsmoTokensAndDelegate`, `forceUndelegateAndBurnOsmoTokens`, the
refresh's current amount) at exchange rate one. -/
import OsmoVerif.Proofs.SuperfluidRefineFrame
import OsmoVerif.Proofs.SuperfluidRefreshEffect

namespace OsmoVerif.Superfluid
open OsmoVerif.Num OsmoVerif.Spec

/-- the staking ledger a staking state stands for at exchange rate one: whole tokens = raw shares / 10¹⁸. -/
def ledgerOf (k : Stk) : AccKey → Option Int := fun key => (k.dsh key).map (fun d => d / P18)

/-- **the abstraction map**: the state of Model/Superfluid.lean a state of Model/SuperfluidStaking.lean stands for. -/
def absL (s : SState) : State := setD (ledgerOf s.k) s.b

/-- the arithmetic room the refinement needs: every validator holds at most 2⁸² tokens (the whole OSMO supply is
about 2⁵⁰ base units), so that no 256-bit range check of the share arithmetic can fail and no validator reaches 2⁶³
power units (2⁶³·10⁶ ≈ 2⁸²·⁹ tokens), where staking's power index panics. -/
def roomB : Int := 2 ^ 82

theorem roomB_lit : roomB = 4835703278458516698824704 := by decide

theorem roomB_lt_powLimit : roomB < powLimit := by decide

/-- the tokens staked with the listed validators. -/
def sumTok (k : Stk) : List Nat → Int
  | [] => 0
  | v :: r => (k.val v).tokens + sumTok k r

/-- **the refinement invariant**: every validator at exchange rate one (`shares = tokens · 10¹⁸`) with a non-negative
number of tokens, the known validators (listed once) together hold at most the bank supply, every delegation record is a
positive whole number of tokens' worth of shares, the share invariant, and the bank supply is at most 2¹²⁷. -/
structure RO (k : Stk) (supply : Int) (vals : List Nat) : Prop where
  rate : ∀ v, (k.val v).shares = (k.val v).tokens * P18
  tok0 : ∀ v, 0 ≤ (k.val v).tokens
  nd : vals.Nodup
  staked : sumTok k vals ≤ supply
  dsh : ∀ key d, k.dsh key = some d → ∃ n, d = n * P18 ∧ 0 < n
  sh : ShareInv k
  room : supply ≤ roomB

theorem sumTok_nonneg {k : Stk} (h : ∀ v, 0 ≤ (k.val v).tokens) : ∀ (L : List Nat), 0 ≤ sumTok k L
  | [] => Int.le_refl _
  | v :: r => by unfold sumTok; have := h v; have := sumTok_nonneg h r; omega

theorem le_sumTok {k : Stk} (h : ∀ v, 0 ≤ (k.val v).tokens) : ∀ (L : List Nat) (v : Nat), v ∈ L → (k.val v).tokens ≤ sumTok k L
  | [], v, hv => by cases hv
  | w :: r, v, hv => by
    unfold sumTok
    rcases List.mem_cons.mp hv with e | e
    · subst e; have := sumTok_nonneg h r; omega
    · have := le_sumTok h r v e; have := h w; omega

theorem sumTok_update {k k' : Stk} {i : Nat} {δ : Int} (hi : (k'.val i).tokens = (k.val i).tokens + δ)
    (hoth : ∀ j, j ≠ i → k'.val j = k.val j) :
    ∀ (L : List Nat), L.Nodup → sumTok k' L = sumTok k L + (if i ∈ L then δ else 0)
  | [], _ => by simp [sumTok]
  | v :: r, hnd => by
    have hnd' := List.nodup_cons.mp hnd
    unfold sumTok
    rw [sumTok_update hi hoth r hnd'.2]
    by_cases hv : v = i
    · subst hv
      rw [hi, if_neg hnd'.1, if_pos (List.mem_cons_self ..)]
      omega
    · rw [hoth v hv]
      by_cases hm : i ∈ r
      · rw [if_pos hm, if_pos (List.mem_cons_of_mem _ hm)]; omega
      · rw [if_neg hm, if_neg (by
          intro hc
          rcases List.mem_cons.mp hc with hc | hc
          · exact hv hc.symm
          · exact hm hc)]
        omega

theorem RO.tok_le {k : Stk} {supply : Int} {vals : List Nat} (h : RO k supply vals) {v : Nat} (hv : v ∈ vals) :
    (k.val v).tokens ≤ supply := Int.le_trans (le_sumTok h.tok0 vals v hv) h.staked

/-- outcomes correspond: both calls succeed with related results, or both fail. -/
def SimR {α β : Type} (rel : α → β → Prop) : Except Err α → Except Err β → Prop
  | .ok a, .ok b => rel a b
  | .error _, .error _ => True
  | _, _ => False

/-- the relation between a staking state and the ledger state it refines. -/
def Refines (s' : SState) (l' : State) : Prop := l' = absL s' ∧ RO s'.k s'.b.supply s'.b.validators

theorem SimR.ok_iff {α β : Type} {rel : α → β → Prop} {x : Except Err α} {y : Except Err β} (h : SimR rel x y) :
    (∃ a, x = .ok a) ↔ (∃ b, y = .ok b) := by
  cases x <;> cases y <;> simp_all [SimR]

theorem SimR.of_ok {α β : Type} {rel : α → β → Prop} {x : Except Err α} {y : Except Err β} {a : α} {b : β}
    (h : SimR rel x y) (hx : x = .ok a) (hy : y = .ok b) : rel a b := by
  subst hx; subst hy; exact h

theorem P18_ne : P18 ≠ 0 := by decide

theorem RO.le {k : Stk} {supply : Int} {vals : List Nat} (h : RO k supply vals) {key : AccKey} {n : Int} (hd : k.dsh key = some (n * P18)) :
    n ≤ (k.val key.2).tokens := by
  have := (h.sh key.2).le (key := key)
  rw [shOf_of_some hd, h.rate] at this
  exact Int.le_of_mul_le_mul_right this (by decide)

theorem shOf_getD (k : Stk) (key : AccKey) : shOf k key = (k.dsh key).getD 0 := by
  unfold shOf; cases k.dsh key <;> rfl

theorem delegated_absL (s : SState) (key : AccKey) : delegated (absL s) key = shOf s.k key / P18 := by
  unfold delegated absL ledgerOf shOf
  show (match (s.k.dsh key).map (fun d => d / P18) with | some x => x | none => 0) = _
  cases s.k.dsh key with
  | none => simp
  | some d => rfl

theorem mul_lt_I256 {x y : Int} (_hx0 : 0 ≤ x) (hx : x ≤ roomB) (hy0 : 0 ≤ y) (hy : y ≤ roomB) : x * y < I256 := by
  have h1 : x * y ≤ roomB * y := Int.mul_le_mul_of_nonneg_right hx hy0
  have h2 : roomB * y ≤ roomB * roomB := Int.mul_le_mul_of_nonneg_left hy (by decide)
  have h3 : roomB * roomB < I256 := by decide
  omega

theorem mulP18_mul_le {x y : Int} (h : x * y < I256) : x * P18 * y ≤ decUpper := by
  have : x * P18 * y = (x * y) * P18 := by
    rw [Int.mul_assoc, Int.mul_comm P18 y, ← Int.mul_assoc]
  rw [this]; exact mulP18_le_decUpper h

/-! ## mint + delegate -/

/-- `AddTokensFromDel` at exchange rate one issues `a·10¹⁸` shares and keeps the rate. -/
theorem addTokensFromDel_rate_one {v v' : Val} {a i : Int} (hr : v.shares = v.tokens * P18) (hT : 0 ≤ v.tokens) (ha : 0 < a)
    (h : v.addTokensFromDel a = some (v', i)) :
    i = a * P18 ∧ v' = { tokens := v.tokens + a, shares := (v.tokens + a) * P18 } := by
  by_cases hT0 : v.tokens = 0
  · have hS0 : v.shares = 0 := by rw [hr, hT0]; rfl
    unfold Val.addTokensFromDel at h
    dsimp only at h
    rw [if_pos hS0] at h
    dsimp only at h
    split at h
    · rename_i t sh' ht hsh
      injection h with h
      injection h with e1 e2
      subst e2
      refine ⟨rfl, ?_⟩
      rw [← e1, chkInt_eq ht, (by unfold Dec.add at hsh; exact chkDec_eq hsh : sh' = v.shares + a * P18), hS0, hT0]
      simp
    · cases h
  · have hTp : 0 < v.tokens := by omega
    have hSp : 0 < v.shares := by rw [hr]; exact Int.mul_pos hTp (by decide)
    obtain ⟨a1, a2, a3⟩ := addTokensFromDel_ok hTp hSp h
    obtain ⟨b1, b2, _⟩ := sharesFromTokens_floor hTp (Int.le_of_lt hSp) (Int.le_of_lt ha) a1
    have hi : i = a * P18 := by
      rw [hr] at b1 b2
      have e : v.tokens * P18 * a = a * P18 * v.tokens := by ring
      exact RefreshArith.floor_unique hTp b1 b2 (by omega) (by omega)
    refine ⟨hi, ?_⟩
    cases v' with
    | mk t sh' =>
      simp only at a2 a3
      rw [a2, a3, hi, hr, Int.add_mul]

theorem ledgerOf_setDsh (k : Stk) (key : AccKey) (o : Option Int) :
    ledgerOf (setDsh k key o) = updK (ledgerOf k) key (o.map (fun d => d / P18)) := by
  funext x
  unfold ledgerOf setDsh updK
  dsimp only
  split <;> rfl

theorem ledgerOf_setVal (k : Stk) (i : Nat) (v : Val) : ledgerOf (setVal k i v) = ledgerOf k := rfl

/-- one change of an account's delegation and its validator that keeps the refinement invariant: the validator (a known
one) stays at rate one with `T' = T + δ ≥ 0` tokens, the account's shares move by `δ·10¹⁸` to a non-negative whole number
of tokens (the record goes at zero), the supply moves by the same `δ`. -/
theorem RO.step {k : Stk} {supply δ : Int} {vals : List Nat} {key : AccKey} {n' : Int} {o : Option Int} (h : RO k supply vals)
    (hkv : key.2 ∈ vals) (hT' : 0 ≤ (k.val key.2).tokens + δ) (hroom : supply + δ ≤ roomB)
    (hsh : shOf k key + δ * P18 = n' * P18) (hn' : 0 ≤ n') (ho : o = if n' = 0 then none else some (n' * P18)) :
    RO (setDsh (setVal k key.2 { tokens := (k.val key.2).tokens + δ, shares := ((k.val key.2).tokens + δ) * P18 }) key o)
      (supply + δ) vals := by
  have hv : ∀ v, (setDsh (setVal k key.2 { tokens := (k.val key.2).tokens + δ, shares := ((k.val key.2).tokens + δ) * P18 }) key o).val v =
      if v = key.2 then { tokens := (k.val key.2).tokens + δ, shares := ((k.val key.2).tokens + δ) * P18 } else k.val v := by
    intro v; simp only [setDsh, setVal, upd]
  have hd : ∀ x, (setDsh (setVal k key.2 { tokens := (k.val key.2).tokens + δ, shares := ((k.val key.2).tokens + δ) * P18 }) key o).dsh x =
      if x = key then o else k.dsh x := by
    intro x; simp only [setDsh, setVal, updK]
  have hshk : shOf (setDsh (setVal k key.2 { tokens := (k.val key.2).tokens + δ, shares := ((k.val key.2).tokens + δ) * P18 }) key o) key
      = shOf k key + δ * P18 := by
    rw [hsh, shOf_getD, hd key, if_pos rfl, ho]
    by_cases h0 : n' = 0
    · rw [if_pos h0, h0]; simp
    · rw [if_neg h0]; rfl
  have hoth : ∀ x, x ≠ key →
      shOf (setDsh (setVal k key.2 { tokens := (k.val key.2).tokens + δ, shares := ((k.val key.2).tokens + δ) * P18 }) key o) x = shOf k x := by
    intro x hx; unfold shOf; rw [hd x, if_neg hx]
  refine ⟨?_, ?_, h.nd, ?_, ?_, ?_, hroom⟩
  · intro v
    rw [hv v]
    split
    · rfl
    · exact h.rate v
  · intro v
    rw [hv v]
    split
    · exact hT'
    · exact h.tok0 v
  · rw [sumTok_update (k := k) (i := key.2) (δ := δ) (by rw [hv key.2, if_pos rfl]) (by intro j hj; rw [hv j, if_neg hj]) vals h.nd,
      if_pos hkv]
    have := h.staked
    omega
  · intro x d hx
    rw [hd x] at hx
    split at hx
    · rw [ho] at hx
      split at hx
      · cases hx
      · rename_i hn0
        injection hx with hx
        exact ⟨n', hx.symm, by omega⟩
    · exact h.dsh x d hx
  · intro v
    by_cases hvk : key.2 = v
    · subst hvk
      refine (h.sh key.2).step (δ := δ * P18) hshk (by rw [hsh]; exact Int.mul_nonneg hn' (by decide)) hoth ?_
      rw [hv key.2, if_pos rfl, h.rate key.2]
      show ((k.val key.2).tokens + δ) * P18 = _
      rw [Int.add_mul]
    · refine (h.sh v).frame hvk hoth ?_
      intro j hj
      rw [hv j, if_neg hj]

/-- **mint + delegate**: with room for the minted amount, the staking model's call corresponds to the ledger model's. -/
theorem mintS_sim {s : SState} {a : Int} {key : AccKey} (hR : RO s.k s.b.supply s.b.validators) (hfit : 0 < a → s.b.supply + a ≤ roomB) :
    SimR Refines (mintS s a key) (mintAndDelegate (absL s) a key) := by
  unfold mintAndDelegate
  show SimR Refines (mintS s a key) (if key.2 ∉ s.b.validators then _ else _)
  by_cases hv : key.2 ∈ s.b.validators
  · rw [if_neg (by simpa using hv)]
    by_cases ha : a ≤ 0
    · rw [if_pos ha]
      unfold mintS
      rw [if_neg (by simpa using hv), if_pos ha]
      trivial
    · rw [if_neg ha]
      have ha' : 0 < a := by omega
      have hfit' := hfit ha'
      have hT0 := hR.tok0 key.2
      have hTs := hR.tok_le hv
      have hroom := hR.room
      have hsup0 : 0 ≤ s.b.supply := by omega
      have haB : a ≤ roomB := by omega
      have hTB : (s.k.val key.2).tokens ≤ roomB := by omega
      -- the staking call succeeds
      have hok : ∃ s', mintS s a key = .ok s' := by
        have hd0 := (hR.sh key.2).1 key rfl
        have hdS := (hR.sh key.2).le (key := key)
        by_cases hTz : (s.k.val key.2).tokens = 0
        · have hSz : (s.k.val key.2).shares = 0 := by rw [hR.rate, hTz]; rfl
          have hdz : shOf s.k key = 0 := by omega
          unfold mintS
          rw [if_neg (by simpa using hv), if_neg (by omega)]
          dsimp only
          rw [if_neg (by omega)]
          unfold Val.addTokensFromDel
          dsimp only
          rw [if_pos hSz, hTz, hSz]
          dsimp only
          unfold Dec.add
          rw [chkInt_of_range (by omega) (by rw [I256_lit]; rw [roomB_lit] at haB; omega),
            chkDec_of_range (by have := Int.mul_nonneg (Int.le_of_lt ha') (show (0 : Int) ≤ P18 by decide); omega)
              (by rw [Int.zero_add]; exact mulP18_le_decUpper (by rw [I256_lit]; rw [roomB_lit] at haB; omega))]
          dsimp only
          rw [if_neg (by rw [powerOverflows_iff]; have := roomB_lt_powLimit; omega)]
          have hrange : chkDec (0 + a * P18) = some (0 + a * P18) :=
            chkDec_of_range (by have := Int.mul_nonneg (Int.le_of_lt ha') (show (0 : Int) ≤ P18 by decide); omega)
              (by rw [Int.zero_add]; exact mulP18_le_decUpper (by rw [I256_lit]; rw [roomB_lit] at haB; omega))
          cases hk : s.k.dsh key with
          | none => dsimp only; rw [hrange]; exact ⟨_, rfl⟩
          | some x =>
            have : x = 0 := by rw [← shOf_of_some hk]; exact hdz
            subst this
            dsimp only; rw [hrange]; exact ⟨_, rfl⟩
        · have hTp : 0 < (s.k.val key.2).tokens := by omega
          have hSp : 0 < (s.k.val key.2).shares := by rw [hR.rate]; exact Int.mul_pos hTp (by decide)
          refine mintS_accepts hv ha' hTp hSp hd0 hdS (by have := roomB_lt_powLimit; omega) ?_
          rw [hR.rate]
          exact mulP18_mul_le (mul_lt_I256 hT0 hTB (by omega) (by omega))
      obtain ⟨s', hs'⟩ := hok
      rw [hs']
      obtain ⟨_, _, _, v', issued, d', hadd, hdd, hs'eq⟩ := mintS_ok hs'
      obtain ⟨hi, hv'⟩ := addTokensFromDel_rate_one (hR.rate key.2) hT0 ha' hadd
      have ed' : d' = shOf s.k key + a * P18 := by
        unfold Dec.add at hdd; rw [chkDec_eq hdd, hi]; rfl
      -- the account's shares before: n·10¹⁸
      obtain ⟨n, hn, hn0⟩ : ∃ n, shOf s.k key = n * P18 ∧ 0 ≤ n := by
        cases hk : s.k.dsh key with
        | none => exact ⟨0, by unfold shOf; rw [hk]; simp, Int.le_refl _⟩
        | some d =>
          obtain ⟨n, e, hp⟩ := hR.dsh key d hk
          exact ⟨n, by rw [shOf_of_some hk, e], by omega⟩
      have hd'n : d' = (n + a) * P18 := by rw [ed', hn, Int.add_mul]
      subst hs'eq
      constructor
      · -- the ledger state
        show _ = setD (ledgerOf (setDsh (setVal s.k key.2 v') key (some d'))) _
        rw [ledgerOf_setDsh, ledgerOf_setVal, delegated_absL, hn, Int.mul_ediv_cancel _ P18_ne]
        show _ = ({ s.b with supply := s.b.supply + a, offset := s.b.offset - a,
                              deleg := updK (ledgerOf s.k) key (some (d' / P18)) } : State)
        rw [hd'n, Int.mul_ediv_cancel _ P18_ne]
        rfl
      · show RO (setDsh (setVal s.k key.2 v') key (some d')) (s.b.supply + a) s.b.validators
        rw [hv']
        exact RO.step (key := key) (δ := a) (n' := n + a) (o := some d') hR hv (by omega) hfit' (by rw [hn, Int.add_mul])
          (by omega) (by rw [if_neg (by omega), hd'n])
  · rw [if_pos (by simpa using hv)]
    unfold mintS
    rw [if_pos (by simpa using hv)]
    trivial


/-! ## force-undelegate + burn -/

/-- `TokensFromShares(a·10¹⁸) = a·10¹⁸` at exchange rate one. -/
theorem tokensFromShares_rate_one {v : Val} {a t : Int} (hr : v.shares = v.tokens * P18) (hT : 0 < v.tokens) (ha : 0 ≤ a)
    (h : v.tokensFromShares (a * P18) = some t) : t = a * P18 := by
  have hS : 0 < v.shares := by rw [hr]; exact Int.mul_pos hT (by decide)
  obtain ⟨q, q1, q2, hh, _, _⟩ := tokensFromShares_spec (Int.le_of_lt hT) hS (Int.mul_nonneg ha (by decide)) h
  have hq : q = a * P18 * P18 := by
    rw [hr] at q1 q2
    have e : a * P18 * v.tokens * (P18 * P18) = a * P18 * P18 * (v.tokens * P18) := by ring
    exact RefreshArith.floor_unique (Int.mul_pos hT (by decide)) q1 q2 (by omega) (by
      have : 0 < v.tokens * P18 := Int.mul_pos hT (by decide)
      omega)
  rw [hq] at hh
  exact hh.exact P18_pos

/-- **force-undelegate + burn**: the staking model's call corresponds to the ledger model's (both fail when more than
the delegation is asked for). -/
theorem burnS_sim {s : SState} {a : Int} {key : AccKey} (hR : RO s.k s.b.supply s.b.validators) :
    SimR Refines (burnS s a key) (forceUndelegateAndBurn (absL s) a key) := by
  unfold forceUndelegateAndBurn
  show SimR Refines (burnS s a key) (if key.2 ∉ s.b.validators then _ else (match ledgerOf s.k key with | none => _ | some sh => _))
  by_cases hv : key.2 ∈ s.b.validators
  · rw [if_neg (by simpa using hv)]
    cases hk : s.k.dsh key with
    | none =>
      have : ledgerOf s.k key = none := by unfold ledgerOf; rw [hk]; rfl
      rw [this]
      have : burnS s a key = .ok s := by
        unfold burnS; rw [if_neg (by simpa using hv), hk]
      rw [this]
      exact ⟨rfl, hR⟩
    | some d =>
      obtain ⟨n, hdn, hn0⟩ := hR.dsh key d hk
      subst hdn
      have : ledgerOf s.k key = some n := by
        unfold ledgerOf; rw [hk]; show some (n * P18 / P18) = _; rw [Int.mul_ediv_cancel _ P18_ne]
      rw [this]
      dsimp only
      have hnT := hR.le hk
      have hT : 0 < (s.k.val key.2).tokens := by omega
      have hS : 0 < (s.k.val key.2).shares := by rw [hR.rate]; exact Int.mul_pos hT (by decide)
      have hTs := hR.tok_le hv
      have hroom := hR.room
      have hTB : (s.k.val key.2).tokens ≤ roomB := by omega
      by_cases ha : a < 0
      · rw [if_pos ha]
        unfold burnS
        rw [if_neg (by simpa using hv), hk]
        dsimp only
        rw [if_pos ha]
        trivial
      · rw [if_neg ha]
        by_cases hgt : a > n
        · rw [if_pos hgt]
          cases hb : burnS s a key with
          | error e => trivial
          | ok s' =>
            exfalso
            refine burnS_rejects hT hS hk (by omega) ?_ hb
            rw [hR.rate]
            have h1 : (n + 1) * P18 ≤ a * P18 := Int.mul_le_mul_of_nonneg_right (by omega) (by decide)
            have h2 : n * P18 + 1 ≤ (n + 1) * P18 := by rw [Int.add_mul, P18_lit]; omega
            have h3 : (n * P18 + 1) * (s.k.val key.2).tokens ≤ (a * P18) * (s.k.val key.2).tokens :=
              Int.mul_le_mul_of_nonneg_right (by omega) (Int.le_of_lt hT)
            have e : (s.k.val key.2).tokens * P18 * a = a * P18 * (s.k.val key.2).tokens := by ring
            omega
        · rw [if_neg hgt]
          have han : a ≤ n := by omega
          have haB : a ≤ roomB := by omega
          have hra : (s.k.val key.2).tokens * P18 * a ≤ decUpper :=
            mulP18_mul_le (mul_lt_I256 (by omega) hTB (by omega) haB)
          have hI : a < I256 := by rw [I256_lit]; rw [roomB_lit] at haB; omega
          have hSr : (s.k.val key.2).shares ≤ decUpper := by
            rw [hR.rate]; exact mulP18_le_decUpper (by rw [I256_lit]; rw [roomB_lit] at hTB; omega)
          obtain ⟨s', hs'⟩ := burnS_accepts hv hT hS hk (Int.mul_nonneg (by omega) (by decide))
            (by rw [hR.rate]; exact Int.mul_le_mul_of_nonneg_right hnT (by decide)) hSr (by omega) hI
            (by rw [hR.rate]; exact hra) (by
              rw [hR.rate]
              have h1 : a * P18 ≤ n * P18 := Int.mul_le_mul_of_nonneg_right han (by decide)
              have h3 : (a * P18) * (s.k.val key.2).tokens ≤ (n * P18) * (s.k.val key.2).tokens :=
                Int.mul_le_mul_of_nonneg_right h1 (Int.le_of_lt hT)
              have e : (s.k.val key.2).tokens * P18 * a = a * P18 * (s.k.val key.2).tokens := by ring
              rw [Int.add_mul, Int.one_mul]
              omega)
          rw [hs']
          rcases (burnS_ok hs').2 with ⟨hn, _⟩ | ⟨d0, sh, d', v', got, hd0, ha0, hval, hle, hsub, hrem, hs'eq⟩
          · rw [hk] at hn; cases hn
          · rw [hk] at hd0; injection hd0 with hd0; subst hd0
            obtain ⟨f1, f2, f3, _, _⟩ := validateUnbondAmount_ok hT (Int.le_of_lt hS) ha0 hval
            have hsh : sh = a * P18 := by
              rw [hR.rate] at f1 f2
              have e : (s.k.val key.2).tokens * P18 * a = a * P18 * (s.k.val key.2).tokens := by ring
              exact RefreshArith.floor_unique hT f1 f2 (by omega) (by omega)
            subst hsh
            have ed' : d' = (n - a) * P18 := by
              unfold Dec.sub at hsub; rw [chkDec_eq hsub, Int.sub_mul]
            have hgv : got = a ∧ v' = { tokens := (s.k.val key.2).tokens + -a, shares := ((s.k.val key.2).tokens + -a) * P18 } := by
              rcases removeDelShares_spec hrem with ⟨r1, r2, r3⟩ | ⟨r1, r2, r3, r4⟩
              · rw [hR.rate] at r1
                have : (s.k.val key.2).tokens = a := by
                  have : (s.k.val key.2).tokens * P18 = a * P18 := by omega
                  exact Int.eq_of_mul_eq_mul_right P18_ne this
                refine ⟨by rw [r3, this], ?_⟩
                rw [r2, this]; simp
              · obtain ⟨t, ht, g1, g2, g3⟩ := stakeTrunc_spec (Int.le_of_lt hT) hS f3 r2
                have et := tokensFromShares_rate_one (hR.rate key.2) hT (by omega) ht
                subst et
                have hg : got = a := RefreshArith.floor_unique P18_pos g1 g2 (Int.le_refl _) (by have := P18_pos; omega)
                subst hg
                refine ⟨rfl, ?_⟩
                rw [r3, hR.rate]
                congr 1 <;> (try rw [Int.add_mul, Int.neg_mul]) <;> omega
            obtain ⟨hg, hv'⟩ := hgv
            subst hg
            subst hs'eq
            constructor
            · show _ = setD (ledgerOf (setDsh (setVal s.k key.2 v') key (if d' = 0 then none else some d'))) _
              rw [ledgerOf_setDsh, ledgerOf_setVal]
              show _ = ({ s.b with supply := s.b.supply - got, offset := s.b.offset + got,
                                    deleg := updK (ledgerOf s.k) key ((if d' = 0 then none else some d').map fun d => d / P18) } : State)
              have : ((if d' = 0 then none else some d').map fun d => d / P18) = (if n - got = 0 then none else some (n - got)) := by
                rw [ed']
                by_cases h0 : n - got = 0
                · rw [h0]; simp
                · have : (n - got) * P18 ≠ 0 := Int.mul_ne_zero h0 P18_ne
                  rw [if_neg this, if_neg h0]
                  show some ((n - got) * P18 / P18) = _
                  rw [Int.mul_ediv_cancel _ P18_ne]
              rw [this]
              rfl
            · show RO (setDsh (setVal s.k key.2 v') key (if d' = 0 then none else some d')) (s.b.supply - got) s.b.validators
              rw [hv']
              have := RO.step (key := key) (δ := -got) (n' := n - got) (o := if d' = 0 then none else some d') hR hv (by omega)
                (by omega) (by rw [shOf_of_some hk, Int.sub_mul, Int.neg_mul]; omega) (by omega) (by
                  rw [ed']
                  by_cases h0 : n - got = 0
                  · rw [h0]; simp
                  · have : (n - got) * P18 ≠ 0 := Int.mul_ne_zero h0 P18_ne
                    rw [if_neg this, if_neg h0])
              have e : s.b.supply - got = s.b.supply + -got := by omega
              rw [e]; exact this
  · rw [if_pos (by simpa using hv)]
    unfold burnS
    rw [if_pos (by simpa using hv)]
    trivial

/-! ## the refresh's current amount -/

/-- at exchange rate one the refresh reads exactly the ledger's amount. -/
theorem currentS_sim {s : SState} {key : AccKey} (hR : RO s.k s.b.supply s.b.validators) (hv : key.2 ∈ s.b.validators) :
    currentS s key = some (delegated (absL s) key) := by
  rw [delegated_absL]
  cases hk : s.k.dsh key with
  | none =>
    rw [currentS_none hk]
    have : shOf s.k key = 0 := by unfold shOf; rw [hk]
    rw [this]; rfl
  | some d =>
    obtain ⟨n, hdn, hn0⟩ := hR.dsh key d hk
    subst hdn
    rw [shOf_of_some hk, Int.mul_ediv_cancel _ P18_ne]
    have hnT := hR.le hk
    have hT : 0 < (s.k.val key.2).tokens := by omega
    have hS : 0 < (s.k.val key.2).shares := by rw [hR.rate]; exact Int.mul_pos hT (by decide)
    have hTs := hR.tok_le hv
    have hroom := hR.room
    have hTB : (s.k.val key.2).tokens ≤ roomB := by omega
    have hnB : n ≤ roomB := by omega
    have hI : n < I256 := by rw [I256_lit]; rw [roomB_lit] at hnB; omega
    obtain ⟨t, ht⟩ := tokensFromShares_some (v := s.k.val key.2) (sh := n * P18) (a := n) (Int.le_of_lt hT) hS
      (Int.mul_nonneg (by omega) (by decide)) (by rw [hR.rate]; exact Int.le_of_eq (by ring))
      (by
        have := mulP18_mul_le (mul_lt_I256 (x := n) (y := (s.k.val key.2).tokens) (by omega) hnB (by omega) hTB)
        exact this) hI
    have et := tokensFromShares_rate_one (hR.rate key.2) hT (by omega) ht
    subst et
    unfold currentS
    rw [hk]
    dsimp only
    rw [ht]
    dsimp only
    unfold Dec.roundInt
    have : chopRound P18 (n * P18) = n := rnd_mul_exact n
    rw [this]
    exact chkInt_of_range (by omega) hI

end OsmoVerif.Superfluid
