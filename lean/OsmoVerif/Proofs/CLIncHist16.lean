/-
C08 (incentives, histories) helpers, part 16: `SumI` is preserved by the messages that touch no position record: swap,
sync, time advance, spread-reward collect, transfer, incentive record creation.  Core only.
-/
import OsmoVerif.Proofs.CLIncHist15

namespace OsmoVerif.CLIncP
open OsmoVerif.Num OsmoVerif.CL OsmoVerif.CLPool OsmoVerif.CLFees OsmoVerif.CLInc OsmoVerif.CLFeesP OsmoVerif.CLBook
open OsmoVerif.Accum (amt sorted hev)
open OsmoVerif.Gen

/-- a message whose only effect on the potential is the emission of its sync. -/
theorem sum_emit_only {s s' : Full} {i1 : Inc} {n : Int} (hi : IncInv s) (hs : SumI s n) (sf : IStepFacts s s')
    (hpos : s'.fees.pool.positions = s.fees.pool.positions)
    (hrec : ∀ q ∈ s.fees.pool.positions, ∀ k, getURec (accAt s'.inc k).recs q.id = getURec (accAt s.inc k).recs q.id)
    (hsync : sync s.inc s.fees.pool.liquidity = some i1)
    (hval : ∀ k d, dVal s.inc s'.inc k d = dVal s.inc i1 k d)
    (hbal : s'.inc.bal = i1.bal) (hrecs : s'.inc.records = i1.records) (hfac : s'.inc.factor = i1.factor) : SumI s' n := by
  obtain ⟨_, _, _, fa1, _, b1, _, _, _, hsum, _⟩ := sync_part hi.inc hsync
  refine ⟨by rw [hbal, b1]; exact hs.balSorted, fun d => ?_⟩
  have hE := Etot_same hi hpos hrec (fun q hq k d => sf.inside q hq q (by rw [hpos]; exact hq) rfl k d) d
  have hb := hs.bound d
  have hsd := hsum d
  rw [hE, hbal, hrecs, hfac, b1, fa1]
  have hd : sumN six (dVal s.inc s'.inc · d) = sumN six (dVal s.inc i1 · d) := sumN_congr (fun k _ => hval k d)
  rw [hd]
  have : (sumRem d s.inc.records - sumRem d i1.records) * s.inc.factor =
      sumRem d s.inc.records * s.inc.factor - sumRem d i1.records * s.inc.factor := Int.sub_mul _ _ _
  omega

/-- a message that leaves positions, records, values, balance and incentive records alone. -/
theorem sum_unchanged {s s' : Full} {n : Int} (hi : IncInv s) (hs : SumI s n) (sf : IStepFacts s s')
    (hpos : s'.fees.pool.positions = s.fees.pool.positions)
    (hrec : ∀ q ∈ s.fees.pool.positions, ∀ k, getURec (accAt s'.inc k).recs q.id = getURec (accAt s.inc k).recs q.id)
    (hval : ∀ k d, dVal s.inc s'.inc k d = 0)
    (hbal : s'.inc.bal = s.inc.bal) (hrecs : s'.inc.records = s.inc.records) (hfac : s'.inc.factor = s.inc.factor) : SumI s' n := by
  refine ⟨by rw [hbal]; exact hs.balSorted, fun d => ?_⟩
  have hE := Etot_same hi hpos hrec (fun q hq k d => sf.inside q hq q (by rw [hpos]; exact hq) rfl k d) d
  have hd : sumN six (dVal s.inc s'.inc · d) = 0 := by
    rw [sumN_congr (g := fun _ => 0) (fun k _ => hval k d), sumN_zero]
  rw [hE, hd, Int.zero_mul, Int.add_zero, hbal, hrecs, hfac]
  exact hs.bound d

theorem swapI_sum {s s' : Full} {og zfo : Bool} {spec ain aout fee : Int} {n : Int}
    (hi : IncInv s) (hs : SumI s n) (sf : IStepFacts s s')
    (h : CLInc.swap s og zfo spec = some (s', ain, aout, fee)) : SumI s' n := by
  unfold CLInc.swap at h
  simp only [Option.bind_eq_some_iff] at h
  obtain ⟨⟨f', ai, ao, fe⟩, hfe, trs, htr, h⟩ := h
  simp only at h
  obtain ⟨hpl, _⟩ := swap_spec hfe
  obtain ⟨_, epos, _⟩ := swap_core hi.fees.pool.core hpl
  split at h
  · simp only [Option.some.injEq, Prod.mk.injEq] at h
    obtain ⟨e1, _⟩ := h
    subst e1
    exact sum_unchanged hi hs sf epos (fun _ _ _ => rfl) (fun k d => dVal_self _ k d) rfl rfl rfl
  · simp only [Option.bind_eq_some_iff, Option.map_eq_some_iff, Prod.mk.injEq] at h
    obtain ⟨i1, hsync, trk, _, e1, _⟩ := h
    subst e1
    obtain ⟨hp1, _, _, _, _, _, _, g1, _⟩ := sync_part hi.inc hsync
    exact sum_emit_only hi hs sf epos
      (fun q _ k => by show getURec (accAt i1 k).recs q.id = _; rw [recs_of_grew (by rw [hp1.len, hi.inc.len]) g1 k])
      hsync (fun _ _ => rfl) rfl rfl rfl

theorem syncNowI_sum {s s' : Full} {n : Int} (hi : IncInv s) (hs : SumI s n) (sf : IStepFacts s s')
    (h : syncNow s = some s') : SumI s' n := by
  unfold syncNow at h
  simp only [Option.map_eq_some_iff] at h
  obtain ⟨i1, hsync, e⟩ := h
  subst e
  exact sync_sum hi hs hsync

theorem advanceI_sum {s : Full} {n : Int} (hi : IncInv s) (hs : SumI s n) (ns : Int) : SumI (CLInc.advance s ns) n :=
  sum_unchanged hi hs (advanceI_facts hi ns) rfl (fun _ _ _ => rfl) (fun k d => by simp only [CLInc.advance, dVal]; omega) rfl rfl rfl

theorem collectSpreadI_sum {s s' : Full} {sender : String} {id : Nat} {c0 c1 : Int} {n : Int}
    (hi : IncInv s) (hs : SumI s n) (sf : IStepFacts s s')
    (h : CLInc.collectSpread s sender id = some (s', c0, c1)) : SumI s' n := by
  unfold CLInc.collectSpread at h
  simp only [Option.map_eq_some_iff, Prod.mk.injEq] at h
  obtain ⟨⟨f', d0, d1⟩, hfe, e, _, _⟩ := h
  subst e
  obtain ⟨_, hpool, _⟩ := collect_facts hi.fees.pool.core hi.fees.acc hfe
  exact sum_unchanged hi hs sf (by show f'.pool.positions = _; rw [hpool]) (fun _ _ _ => rfl) (fun k d => dVal_self _ k d) rfl rfl rfl

theorem transferI_sum {s s' : Full} {sender : String} {id : Nat} {newOwner : String} {n : Int}
    (hi : IncInv s) (hs : SumI s n) (h : CLInc.transferPosition s sender id newOwner = some s') : SumI s' n := by
  unfold CLInc.transferPosition at h
  simp only [Option.map_eq_some_iff] at h
  obtain ⟨f', hfe, e⟩ := h
  subst e
  obtain ⟨_, _, _, _, et, epos⟩ := transfer_facts hi.fees.pool.core hi.fees.acc hfe
  refine ⟨hs.balSorted, fun d => ?_⟩
  have hE : Etot { s with fees := f' } d = Etot s d := by
    unfold Etot
    show sumBy (entQ { s with fees := f' } d) f'.pool.positions = _
    rw [epos, sumBy_map]
    apply sumBy_congr
    intro q _
    have e1 : entQ { s with fees := f' } d (if q.id = id then { q with owner := newOwner } else q) = entQ { s with fees := f' } d q := by
      apply entQ_congr_pos <;> (split <;> rfl)
    rw [e1]
    unfold entQ ent
    show sumN six (fun k => match getURec (accAt s.inc k).recs q.id with
      | some r => amt r.unclaimed d * P18 + (insU s.inc f'.pool.tick k d q.lower q.upper - amt r.snap d) * r.shares
      | none => 0) = _
    rw [et]
    rfl
  rw [hE]
  exact hs.bound d

theorem createIncentiveI_sum {s s' : Full} {id : Nat} {denom : String} {amount rate start : Int} {uptime : Nat} {n : Int}
    (hi : IncInv s) (hs : SumI s n) (h : createIncentive s id denom amount rate start uptime = some s') : SumI s' n := by
  unfold createIncentive at h
  split at h
  · cases h
  · split at h
    · cases h
    · split at h
      · cases h
      · split at h
        · cases h
        · simp only [Option.bind_eq_some_iff, Option.map_eq_some_iff] at h
          obtain ⟨i1, hsync, b, hb, e⟩ := h
          subst e
          have h1 := sync_sum hi hs hsync
          obtain ⟨hp1, _⟩ := sync_part hi.inc hsync
          refine ⟨coinsAdd_sorted _ _ _ _ hb h1.balSorted, fun d => ?_⟩
          have hb1 := h1.bound d
          simp only at hb1 ⊢
          have hE : Etot { fees := s.fees, inc := { i1 with records := insertRec i1.records ⟨id, uptime, denom, amount * P18, rate, start⟩, bal := b, nextRec := id + 1 } } d =
              Etot { s with inc := i1 } d := rfl
          rw [hE, sumRem_insert, Accum.coinsAdd_amt _ _ _ _ d hb]
          simp only
          by_cases hd : denom = d
          · rw [if_pos hd, if_pos hd, Int.add_mul, Int.add_mul, Int.add_mul]
            omega
          · rw [if_neg hd, if_neg hd, Int.add_zero, Int.add_zero]
            exact hb1

end OsmoVerif.CLIncP
