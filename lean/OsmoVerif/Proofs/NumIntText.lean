/- `big.Int` text (base 0) — lemmas about the reference scanner of `Model/NumInt.lean`:
the printer's output is read back, the canonical decimal language, rejected shapes.  Core only
(reuses the digit lemmas of `Proofs/NumStrLang.lean`). -/
import OsmoVerif.Model.NumInt
import OsmoVerif.Proofs.NumStrLang

namespace OsmoVerif.Num.IntText
open OsmoVerif.Num OsmoVerif.NumStr

theorem isDigit_bounds {c : Char} (h : c.isDigit = true) : 48 ≤ c.toNat ∧ c.toNat ≤ 57 := by
  have : c.toNat = c.val.toNat := rfl
  have h1 : 48 ≤ c.val.toNat ∧ c.val.toNat ≤ 57 := by
    simpa [Char.isDigit, UInt32.le_iff_toNat_le] using h
  omega

theorem char_le_iff (a b : Char) : a ≤ b ↔ a.toNat ≤ b.toNat := by
  rw [Char.le_def, UInt32.le_iff_toNat_le]; rfl

theorem digitVal_of_isDigit {c : Char} (h : c.isDigit = true) :
    digitVal c = c.toNat - '0'.toNat ∧ digitVal c < 10 ∧ c ≠ '_' ∧ c ≠ '-' ∧ c ≠ '+' := by
  have hb := isDigit_bounds h
  have e1 : ('0' ≤ c ∧ c ≤ '9') := by
    rw [char_le_iff, char_le_iff]; exact hb
  refine ⟨by unfold digitVal; rw [if_pos e1], ?_, ?_, ?_, ?_⟩
  · unfold digitVal; rw [if_pos e1]; show c.toNat - 48 < 10; omega
  all_goals (intro hc; subst hc; revert h; decide)

/-- a character that is not alphanumeric: none of the characters the prefix detection looks for -/
theorem not_prefix_char {c : Char} (h : digitVal c = 63) :
    c ≠ '0' ∧ ¬ (c = 'b' ∨ c = 'B') ∧ ¬ (c = 'o' ∨ c = 'O') ∧ ¬ (c = 'x' ∨ c = 'X') := by
  refine ⟨?_, ?_, ?_, ?_⟩
  · intro hc; subst hc; revert h; decide
  all_goals (rintro (hc | hc) <;> (subst hc; revert h; decide))

/-! ### the digit loop -/
theorem scanBody_digits (cs : List Char) (h : cs.all Char.isDigit = true) (prev : Char) (inv : Bool) (cnt acc : Nat) :
    scanBody 10 cs prev inv cnt acc =
      some (if cs = [] then prev else '0', inv, cnt + cs.length, Nat.ofDigitChars 10 cs acc) := by
  induction cs generalizing prev cnt acc with
  | nil => simp [scanBody]
  | cons c cs ih =>
    rw [List.all_cons, Bool.and_eq_true] at h
    obtain ⟨e, lt, nu, _, _⟩ := digitVal_of_isDigit h.1
    unfold scanBody
    rw [if_neg nu, if_pos lt, ih h.2, Nat.ofDigitChars_cons, e]
    have e1 : (if cs = [] then '0' else '0') = '0' := by split <;> rfl
    have e2 : cnt + 1 + cs.length = cnt + (c :: cs).length := by simp only [List.length_cons]; omega
    rw [e1, e2, if_neg (by simp)]

/-- once an invalid separator was seen the flag stays set -/
theorem scanBody_inv (b : Nat) (cs : List Char) (prev : Char) (cnt acc : Nat) {r : Char × Bool × Nat × Nat}
    (h : scanBody b cs prev true cnt acc = some r) : r.2.1 = true := by
  induction cs generalizing prev cnt acc with
  | nil => unfold scanBody at h; cases h; rfl
  | cons c cs ih =>
    unfold scanBody at h
    split at h
    · exact ih _ _ _ (by simpa using h)
    · split at h
      · exact ih _ _ _ h
      · cases h

/-- a character that is neither `_` nor a digit of the base stops the loop with unread input -/
theorem scanBody_bad_char (b : Nat) (hb : b ≤ 16) (pre post : List Char) (c : Char) (hc : digitVal c = 63) (hu : c ≠ '_')
    (prev : Char) (inv : Bool) (cnt acc : Nat) : scanBody b (pre ++ c :: post) prev inv cnt acc = none := by
  induction pre generalizing prev inv cnt acc with
  | nil =>
    show scanBody b (c :: post) prev inv cnt acc = none
    unfold scanBody
    rw [if_neg hu, if_neg (by omega)]
  | cons d pre ih =>
    show scanBody b (d :: (pre ++ c :: post)) prev inv cnt acc = none
    unfold scanBody
    split
    · exact ih _ _ _ _
    · split
      · exact ih _ _ _ _
      · rfl

/-! ### the scanner -/
theorem scanPrefix_of_head_ne {c : Char} {cs : List Char} (h : c ≠ '0') :
    scanPrefix (c :: cs) = (10, c :: cs, '.', 0, false) := by
  unfold scanPrefix; simp only [if_neg h]

theorem scanPrefix_zero_cons (c : Char) (rest : List Char) :
    scanPrefix ('0' :: c :: rest) =
      if c = 'b' ∨ c = 'B' then (2, rest, '0', 0, false)
      else if c = 'o' ∨ c = 'O' then (8, rest, '0', 0, false)
      else if c = 'x' ∨ c = 'X' then (16, rest, '0', 0, false)
      else (8, c :: rest, '0', 0, true) := by
  unfold scanPrefix; simp only [if_true]

theorem scanNat_of_scanPrefix {cs : List Char} {b : Nat} {body : List Char} {prev : Char} {cnt0 : Nat} {oct0 : Bool}
    (h : scanPrefix cs = (b, body, prev, cnt0, oct0)) :
    scanNat cs = match scanBody b body prev false cnt0 0 with
      | none => none
      | some (prev', inv, cnt, acc) =>
        if inv || prev' = '_' then none else if cnt = 0 then (if oct0 then some 0 else none) else some acc := by
  unfold scanNat; rw [h]; rfl

/-- canonical decimal digits (no leading zero) are read in base 10 -/
theorem scanNat_decimal {c : Char} {cs : List Char} (h0 : c ≠ '0') (hall : (c :: cs).all Char.isDigit = true) :
    scanNat (c :: cs) = some (Nat.ofDigitChars 10 (c :: cs) 0) := by
  rw [scanNat_of_scanPrefix (scanPrefix_of_head_ne h0), scanBody_digits _ hall]
  simp

theorem scanNat_toDigits (n : Nat) : scanNat (Nat.toDigits 10 n) = some n := by
  by_cases hn : n = 0
  · subst hn; decide
  · have hne := Nat.toDigits_ne_nil (n := n) (b := 10)
    obtain ⟨c, rest, hcr⟩ := List.exists_cons_of_ne_nil hne
    have hh := toDigits_head_ne_zero n (by omega)
    rw [hcr] at hh
    have h0 : c ≠ '0' := by intro e; apply hh; rw [e]; rfl
    have hall := toDigits_all n
    rw [hcr] at hall ⊢
    rw [scanNat_decimal h0 hall, ← hcr, Nat.ofDigitChars_ten_toDigits]

/-- `SetString(String(a), 0) = a` for every integer -/
theorem parseBase0_intChars (a : Int) : parseBase0 (intChars a) = some a := by
  unfold intChars
  by_cases ha : a < 0
  · rw [if_pos ha]
    show parseBase0 ('-' :: Nat.toDigits 10 a.natAbs) = some a
    unfold parseBase0
    simp only [if_true]
    rw [scanNat_toDigits, Option.map_some]
    congr 1; omega
  · rw [if_neg ha, List.nil_append]
    have hne := Nat.toDigits_ne_nil (n := a.natAbs) (b := 10)
    obtain ⟨c, rest, hcr⟩ := List.exists_cons_of_ne_nil hne
    have hall := toDigits_all a.natAbs
    have hc : c.isDigit = true := by
      rw [hcr, List.all_cons, Bool.and_eq_true] at hall; exact hall.1
    obtain ⟨_, _, _, hm, hp⟩ := digitVal_of_isDigit hc
    have key : parseBase0 (c :: rest) = (scanNat (c :: rest)).map (fun (n : Nat) => (n : Int)) := by
      unfold parseBase0; simp only [if_neg hm, if_neg hp]
    rw [hcr, key, ← hcr, scanNat_toDigits, Option.map_some]
    congr 1; omega

/-- the accepted canonical language: optional '-', decimal digits without leading zero -/
theorem parseBase0_decimal {c : Char} {cs : List Char} (h0 : c ≠ '0') (hall : (c :: cs).all Char.isDigit = true) :
    parseBase0 (c :: cs) = some (Nat.ofDigitChars 10 (c :: cs) 0 : Nat) ∧
    parseBase0 ('-' :: c :: cs) = some (-((Nat.ofDigitChars 10 (c :: cs) 0 : Nat) : Int)) := by
  have hc : c.isDigit = true := by rw [List.all_cons, Bool.and_eq_true] at hall; exact hall.1
  obtain ⟨_, _, _, hm, hp⟩ := digitVal_of_isDigit hc
  constructor
  · unfold parseBase0; simp only [if_neg hm, if_neg hp]; rw [scanNat_decimal h0 hall]; rfl
  · unfold parseBase0; simp only [if_true]; rw [scanNat_decimal h0 hall]; rfl

theorem parseBase0_cons (c : Char) (rest : List Char) :
    parseBase0 (c :: rest) =
      if c = '-' then (scanNat rest).map (fun (n : Nat) => -(n : Int))
      else if c = '+' then (scanNat rest).map (fun (n : Nat) => (n : Int))
      else (scanNat (c :: rest)).map (fun (n : Nat) => (n : Int)) := rfl

/-! ### rejected shapes -/
theorem parseBase0_nil : parseBase0 [] = none := rfl
theorem parseBase0_sign_only : parseBase0 ['-'] = none ∧ parseBase0 ['+'] = none := by decide

theorem scanNat_bad_char (pre post : List Char) (c : Char) (hc : digitVal c = 63) (hu : c ≠ '_') :
    scanNat (pre ++ c :: post) = none := by
  obtain ⟨n0, nb, no, nx⟩ := not_prefix_char hc
  -- the body handed to the digit loop still contains the offending character
  have hbody : ∃ b body prev cnt0 oct0 pre', scanPrefix (pre ++ c :: post) = (b, body, prev, cnt0, oct0) ∧
      body = pre' ++ c :: post ∧ b ≤ 16 := by
    match pre with
    | [] =>
      exact ⟨10, c :: post, '.', 0, false, [], by
        show scanPrefix (c :: post) = _; exact scanPrefix_of_head_ne n0, rfl, by decide⟩
    | [d] =>
      show ∃ b body prev cnt0 oct0 pre', scanPrefix (d :: c :: post) = _ ∧ _
      by_cases hd : d = '0'
      · subst hd
        refine ⟨8, c :: post, '0', 0, true, [], ?_, rfl, by decide⟩
        rw [scanPrefix_zero_cons]; simp only [if_neg nb, if_neg no, if_neg nx]
      · exact ⟨10, d :: c :: post, '.', 0, false, [d], scanPrefix_of_head_ne hd, rfl, by decide⟩
    | d :: e :: pre'' =>
      show ∃ b body prev cnt0 oct0 pre', scanPrefix (d :: e :: (pre'' ++ c :: post)) = _ ∧ _
      by_cases hd : d = '0'
      · subst hd
        rw [scanPrefix_zero_cons]
        by_cases h1 : e = 'b' ∨ e = 'B'
        · exact ⟨2, _, '0', 0, false, pre'', by simp only [if_pos h1], rfl, by decide⟩
        · by_cases h2 : e = 'o' ∨ e = 'O'
          · exact ⟨8, _, '0', 0, false, pre'', by simp only [if_neg h1, if_pos h2], rfl, by decide⟩
          · by_cases h3 : e = 'x' ∨ e = 'X'
            · exact ⟨16, _, '0', 0, false, pre'', by simp only [if_neg h1, if_neg h2, if_pos h3], rfl, by decide⟩
            · exact ⟨8, _, '0', 0, true, e :: pre'', by simp only [if_neg h1, if_neg h2, if_neg h3]; rfl, rfl, by decide⟩
      · exact ⟨10, _, '.', 0, false, d :: e :: pre'', scanPrefix_of_head_ne hd, rfl, by decide⟩
  obtain ⟨b, body, prev, cnt0, oct0, pre', hp, hb, hle⟩ := hbody
  rw [scanNat_of_scanPrefix hp, hb, scanBody_bad_char b hle pre' post c hc hu]

/-- any character that is not alphanumeric / `_` (space, '.', ',', control and non-ASCII bytes, a sign that is
not the first character …) anywhere makes the decoder fail -/
theorem parseBase0_bad_char (pre post : List Char) (c : Char) (hc : digitVal c = 63) (hu : c ≠ '_')
    (hpos : pre ≠ [] ∨ (c ≠ '-' ∧ c ≠ '+')) : parseBase0 (pre ++ c :: post) = none := by
  match pre, hpos with
  | [], hpos =>
    have ⟨hm, hp⟩ : c ≠ '-' ∧ c ≠ '+' := by rcases hpos with h | h; exact absurd rfl h; exact h
    show parseBase0 (c :: post) = none
    unfold parseBase0; simp only [if_neg hm, if_neg hp]
    rw [show c :: post = [] ++ c :: post from rfl, scanNat_bad_char [] post c hc hu]; rfl
  | d :: pre', _ =>
    show parseBase0 (d :: (pre' ++ c :: post)) = none
    rw [parseBase0_cons]
    split
    · rw [scanNat_bad_char pre' post c hc hu]; rfl
    · split
      · rw [scanNat_bad_char pre' post c hc hu]; rfl
      · rw [show d :: (pre' ++ c :: post) = (d :: pre') ++ c :: post from rfl, scanNat_bad_char (d :: pre') post c hc hu]; rfl

/-- a leading `_` (after the optional sign) is an invalid separator -/
theorem scanNat_leading_underscore (cs : List Char) : scanNat ('_' :: cs) = none := by
  rw [scanNat_of_scanPrefix (scanPrefix_of_head_ne (by decide))]
  unfold scanBody
  simp only [if_true]
  have hinv : (false || ('.' != '0')) = true := by decide
  rw [hinv]
  cases h : scanBody 10 cs '_' true 0 0 with
  | none => rfl
  | some r =>
    obtain ⟨p, i, c, a⟩ := r
    have := scanBody_inv 10 cs '_' 0 0 h
    simp only at this
    simp [this]

end OsmoVerif.Num.IntText
