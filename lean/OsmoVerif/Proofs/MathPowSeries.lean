/-
`PowApprox`: the real analysis behind the Maclaurin (generalized binomial) series of `(1 + y)^a`, `0 ≤ a ≤ 1`, `|y| < 1`
(Mathlib reals; nothing here is used by the executable model).

`pterm a y k = C(a,k)·y^k` is defined by the recurrence the code iterates (`term ← term·(a − k)·y/(k+1)`); Mathlib's
`Real.one_add_rpow_hasFPowerSeriesOnBall_zero` gives `Σ_k pterm a y k = (1 + y)^a`; the remainder after the `n`-th term is
bounded GEOMETRICALLY: `|(1+y)^a − Σ_{k≤n} pterm k| ≤ |pterm (n+1)|/(1 − q) ≤ |pterm n|·(n/(n+1))·q/(1 − q)` for `|y| ≤ q < 1`
(each ratio `|a − k|/(k+1)·|y|` is at most `|y|`).  For `q ≤ 1/2` this is the "remainder ≤ last term" rule the stopping
criterion of `PowApprox` assumes — and it is FALSE for `q > 1/2` on the one-signed side (`y < 0`): finding F9.
-/
import Mathlib.Analysis.Analytic.Binomial
import Mathlib.Analysis.SpecificLimits.Basic
import Mathlib.Analysis.SpecificLimits.Normed

namespace OsmoVerif.MathM
open Polynomial

/-- the `k`-th term of the binomial series of `(1 + y)^a`, by the recurrence `PowApprox` iterates. -/
noncomputable def pterm (a y : ℝ) : ℕ → ℝ
  | 0 => 1
  | k + 1 => pterm a y k * (a - k) * y / (k + 1)

/-- partial sum `Σ_{k ≤ n} pterm a y k`. -/
noncomputable def psum (a y : ℝ) (n : ℕ) : ℝ := ∑ k ∈ Finset.range (n + 1), pterm a y k

theorem psum_zero (a y : ℝ) : psum a y 0 = 1 := by simp [psum, pterm]
theorem psum_succ (a y : ℝ) (n : ℕ) : psum a y (n + 1) = psum a y n + pterm a y (n + 1) := by
  unfold psum; rw [Finset.sum_range_succ]

theorem choose_succ_real (a : ℝ) (k : ℕ) :
    Ring.choose a (k + 1) = Ring.choose a k * (a - k) / (k + 1) := by
  rw [Ring.choose_eq_smul, Ring.choose_eq_smul, descPochhammer_succ_right, Polynomial.smeval_mul]
  simp [Polynomial.smeval_sub, Polynomial.smeval_natCast, Nat.factorial_succ]
  field_simp

theorem pterm_eq (a y : ℝ) (k : ℕ) : pterm a y k = Ring.choose a k * y ^ k := by
  induction k with
  | zero => simp [pterm]
  | succ k ih => rw [pterm, ih, choose_succ_real, pow_succ]; ring

/-- Mathlib's binomial series, as a `HasSum` over the coded recurrence. -/
theorem pterm_hasSum (a y : ℝ) (hy : |y| < 1) : HasSum (pterm a y) ((1 + y) ^ a) := by
  have h := (Real.one_add_rpow_hasFPowerSeriesOnBall_zero (a := a)).hasSum (y := y)
    (by simpa [enorm_eq_nnnorm, ← ENNReal.ofReal_one] using hy)
  have e : pterm a y = fun k : ℕ => Ring.choose a k * y ^ k := funext (pterm_eq a y)
  rw [e]
  simpa [binomialSeries, FormalMultilinearSeries.ofScalars_apply_eq, mul_comm] using h

theorem abs_pterm_succ (a y : ℝ) (k : ℕ) :
    |pterm a y (k + 1)| = |pterm a y k| * (|a - k| / (k + 1)) * |y| := by
  rw [pterm, abs_div, abs_mul, abs_mul]
  have : |(k : ℝ) + 1| = k + 1 := abs_of_pos (by positivity)
  rw [this]; ring

/-- every ratio of consecutive terms is at most `|y|` in absolute value (`0 ≤ a ≤ 1`). -/
theorem abs_pterm_succ_le {a y : ℝ} (ha0 : 0 ≤ a) (ha1 : a ≤ 1) (k : ℕ) :
    |pterm a y (k + 1)| ≤ |pterm a y k| * |y| := by
  rw [abs_pterm_succ]
  have hk : (0 : ℝ) ≤ k := by positivity
  have h1 : |a - k| / (k + 1) ≤ 1 := by
    rw [div_le_one (by positivity), abs_le]; constructor <;> linarith
  have h2 : 0 ≤ |pterm a y k| := abs_nonneg _
  have h3 : 0 ≤ |y| := abs_nonneg _
  calc |pterm a y k| * (|a - k| / (k + 1)) * |y| ≤ |pterm a y k| * 1 * |y| := by gcongr
    _ = _ := by ring

/-- from the second term on the ratio is at most `k/(k+1)·|y|`. -/
theorem abs_pterm_succ_le' {a y : ℝ} (ha0 : 0 ≤ a) (ha1 : a ≤ 1) {k : ℕ} (hk1 : 1 ≤ k) :
    |pterm a y (k + 1)| ≤ |pterm a y k| * ((k : ℝ) / (k + 1)) * |y| := by
  rw [abs_pterm_succ]
  have hk : (1 : ℝ) ≤ k := by exact_mod_cast hk1
  have h1 : |a - k| / (k + 1) ≤ (k : ℝ) / (k + 1) := by
    apply div_le_div_of_nonneg_right _ (by positivity)
    rw [abs_le]; constructor <;> linarith
  have h2 : 0 ≤ |pterm a y k| := abs_nonneg _
  have h3 : 0 ≤ |y| := abs_nonneg _
  gcongr

theorem abs_pterm_le_pow {a y : ℝ} (ha0 : 0 ≤ a) (ha1 : a ≤ 1) (k : ℕ) : |pterm a y k| ≤ |y| ^ k := by
  induction k with
  | zero => simp [pterm]
  | succ k ih =>
    calc _ ≤ |pterm a y k| * |y| := abs_pterm_succ_le ha0 ha1 k
      _ ≤ |y| ^ k * |y| := by gcongr
      _ = _ := by rw [pow_succ]

theorem abs_pterm_add_le {a y q : ℝ} (ha0 : 0 ≤ a) (ha1 : a ≤ 1) (hq : |y| ≤ q) (m j : ℕ) :
    |pterm a y (m + j)| ≤ |pterm a y m| * q ^ j := by
  induction j with
  | zero => simp
  | succ j ih =>
    have h0 : 0 ≤ |y| := abs_nonneg _
    have hq0 : 0 ≤ q := le_trans h0 hq
    have h1 : 0 ≤ |pterm a y m| * q ^ j := by positivity
    calc _ ≤ |pterm a y (m + j)| * |y| := abs_pterm_succ_le ha0 ha1 (m + j)
      _ ≤ (|pterm a y m| * q ^ j) * q := by gcongr
      _ = _ := by rw [pow_succ]; ring

/-- GEOMETRIC remainder of the binomial series: after the `n`-th term at most `|term_{n+1}|/(1 − q)`. -/
theorem pow_series_tail {a y q : ℝ} (ha0 : 0 ≤ a) (ha1 : a ≤ 1) (hq : |y| ≤ q) (hq1 : q < 1) (n : ℕ) :
    |(1 + y) ^ a - psum a y n| ≤ |pterm a y (n + 1)| / (1 - q) := by
  have hq0 : 0 ≤ q := le_trans (abs_nonneg _) hq
  have hs := pterm_hasSum a y (lt_of_le_of_lt hq hq1)
  have ht : HasSum (fun j => pterm a y (j + (n + 1))) ((1 + y) ^ a - psum a y n) :=
    (hasSum_nat_add_iff' (n + 1)).mpr hs
  have hg : HasSum (fun j : ℕ => |pterm a y (n + 1)| * q ^ j) (|pterm a y (n + 1)| * (1 - q)⁻¹) :=
    (hasSum_geometric_of_lt_one hq0 hq1).mul_left _
  have := ht.norm_le_of_bounded hg (fun j => by
    rw [Real.norm_eq_abs, add_comm]; exact abs_pterm_add_le ha0 ha1 hq (n + 1) j)
  rwa [Real.norm_eq_abs, ← div_eq_mul_inv] at this

/-- … hence at most `|term_n|·(n/(n+1))·q/(1 − q)` for `n ≥ 1`: below the last term as soon as `q ≤ 1/2`. -/
theorem pow_series_tail_last {a y q : ℝ} (ha0 : 0 ≤ a) (ha1 : a ≤ 1) (hq : |y| ≤ q) (hq1 : q < 1) {n : ℕ}
    (hn : 1 ≤ n) : |(1 + y) ^ a - psum a y n| ≤ |pterm a y n| * ((n : ℝ) / (n + 1)) * (q / (1 - q)) := by
  have hq0 : 0 ≤ q := le_trans (abs_nonneg _) hq
  have h1 := pow_series_tail ha0 ha1 hq hq1 n
  have h2 := abs_pterm_succ_le' (y := y) ha0 ha1 hn
  have hd : 0 < 1 - q := by linarith
  have h3 : |pterm a y n| * ((n : ℝ) / (n + 1)) * |y| ≤ |pterm a y n| * ((n : ℝ) / (n + 1)) * q := by
    have : 0 ≤ |pterm a y n| * ((n : ℝ) / (n + 1)) := by positivity
    gcongr
  calc _ ≤ |pterm a y (n + 1)| / (1 - q) := h1
    _ ≤ (|pterm a y n| * ((n : ℝ) / (n + 1)) * q) / (1 - q) := by
        apply div_le_div_of_nonneg_right (le_trans h2 h3) hd.le
    _ = _ := by ring

/-! ### the alternating side (`y ≥ 0`, i.e. base `≥ 1`) -/

open Filter Topology Finset in
/-- remainder of a convergent alternating series with antitone magnitudes: at most the first omitted magnitude. -/
theorem alt_series_remainder {f : ℕ → ℝ} {l : ℝ}
    (hfl : Tendsto (fun n ↦ ∑ i ∈ range n, (-1 : ℝ) ^ i * f i) atTop (𝓝 l)) (hfa : Antitone f) (m : ℕ) :
    |l - ∑ i ∈ range m, (-1 : ℝ) ^ i * f i| ≤ f m := by
  rcases Nat.even_or_odd' m with ⟨k, rfl | rfl⟩
  · have h1 := hfa.alternating_series_le_tendsto hfl k
    have h2 := hfa.tendsto_le_alternating_series hfl k
    rw [Finset.sum_range_succ, pow_mul, neg_one_sq, one_pow, one_mul] at h2
    rw [abs_le]; constructor <;> linarith
  · have h1 := hfa.alternating_series_le_tendsto hfl (k + 1)
    have h2 := hfa.tendsto_le_alternating_series hfl k
    rw [show 2 * (k + 1) = 2 * k + 1 + 1 by ring, Finset.sum_range_succ _ (2 * k + 1), pow_succ, pow_mul, neg_one_sq,
      one_pow, one_mul, neg_one_mul] at h1
    rw [abs_le]; constructor <;> linarith

/-- for `y ≥ 0` the terms alternate from the second one on: `pterm (i+1) = (−1)^i·|pterm (i+1)|`. -/
theorem pterm_alt {a y : ℝ} (ha0 : 0 ≤ a) (ha1 : a ≤ 1) (hy0 : 0 ≤ y) (i : ℕ) :
    pterm a y (i + 1) = (-1 : ℝ) ^ i * |pterm a y (i + 1)| := by
  induction i with
  | zero =>
    have : pterm a y (0 + 1) = a * y := by simp [pterm]
    rw [this, abs_of_nonneg (by positivity)]; simp
  | succ i ih =>
    have hi0 : (0 : ℝ) ≤ i := by positivity
    have hr : 0 ≤ (((i : ℝ) + 1) - a) * y / (((i : ℝ) + 1) + 1) := by
      apply div_nonneg (mul_nonneg (by linarith) hy0) (by positivity)
    have e : pterm a y (i + 1 + 1) = -(pterm a y (i + 1) * ((((i : ℝ) + 1) - a) * y / (((i : ℝ) + 1) + 1))) := by
      rw [pterm]; push_cast; ring
    have e2 : |pterm a y (i + 1 + 1)| = |pterm a y (i + 1)| * ((((i : ℝ) + 1) - a) * y / (((i : ℝ) + 1) + 1)) := by
      rw [e, abs_neg, abs_mul, abs_of_nonneg hr]
    rw [e2, e]
    conv_lhs => rw [ih]
    rw [pow_succ]; ring

open Filter Topology Finset in
/-- ALTERNATING remainder of the binomial series for `0 ≤ y < 1`: at most the first omitted term — for every `y < 1`,
not only `y ≤ 1/2`. -/
theorem pow_series_tail_alt {a y : ℝ} (ha0 : 0 ≤ a) (ha1 : a ≤ 1) (hy0 : 0 ≤ y) (hy1 : y < 1) (n : ℕ) :
    |(1 + y) ^ a - psum a y n| ≤ |pterm a y (n + 1)| := by
  have hyabs : |y| < 1 := by rwa [abs_of_nonneg hy0]
  have hs := pterm_hasSum a y hyabs
  have ht : HasSum (fun i => pterm a y (i + 1)) ((1 + y) ^ a - 1) := by
    have := (hasSum_nat_add_iff' 1).mpr hs
    simpa [pterm] using this
  have hfl : Tendsto (fun n ↦ ∑ i ∈ range n, (-1 : ℝ) ^ i * |pterm a y (i + 1)|) atTop (𝓝 ((1 + y) ^ a - 1)) := by
    have := ht.tendsto_sum_nat
    refine this.congr (fun n => Finset.sum_congr rfl (fun i _ => pterm_alt ha0 ha1 hy0 i))
  have hfa : Antitone (fun i => |pterm a y (i + 1)|) := by
    apply antitone_nat_of_succ_le
    intro i
    have := abs_pterm_succ_le (y := y) ha0 ha1 (i + 1)
    have h0 := abs_nonneg (pterm a y (i + 1))
    have hy' : |y| ≤ 1 := hyabs.le
    calc |pterm a y (i + 1 + 1)| ≤ |pterm a y (i + 1)| * |y| := this
      _ ≤ |pterm a y (i + 1)| * 1 := mul_le_mul_of_nonneg_left hy' h0
      _ = _ := mul_one _
  have := alt_series_remainder hfl hfa n
  have e : ∑ i ∈ range n, (-1 : ℝ) ^ i * |pterm a y (i + 1)| = psum a y n - 1 := by
    unfold psum
    rw [Finset.sum_range_succ', ← Finset.sum_congr rfl (fun i _ => pterm_alt ha0 ha1 hy0 i)]
    simp [pterm]
  rw [e] at this
  have e2 : (1 + y) ^ a - 1 - (psum a y n - 1) = (1 + y) ^ a - psum a y n := by ring
  rwa [e2] at this

end OsmoVerif.MathM
