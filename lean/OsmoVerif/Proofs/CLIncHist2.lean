/-
C08 (incentives, histories) helpers, part 2: what bringing the accumulators to now (`sync`) does to the six accumulators:
records, totals and the other components are untouched, values only grow (and stay in DecCoins normal form), and
Σ over the six accumulators of (growth of the value in denom d) × liquidity ≤ (decrease of the records' remaining amount
in denom d) × scaling factor.  Core only.
-/
import OsmoVerif.Proofs.CLIncHist1

namespace OsmoVerif.CLIncP
open OsmoVerif.Num OsmoVerif.CL OsmoVerif.CLPool OsmoVerif.CLFees OsmoVerif.CLInc OsmoVerif.CLFeesP OsmoVerif.CLBook
open OsmoVerif.Accum (amt sorted)

/-- value of accumulator `k` (empty when there is no such accumulator). -/
def valAt (accs : List UAcc) (k : Nat) : DC := ((accs[k]?).map (·.value)).getD []

theorem valAt_of {accs : List UAcc} {k : Nat} {a : UAcc} (h : accs[k]? = some a) : valAt accs k = a.value := by
  unfold valAt; rw [h]; rfl

def sumN : List Nat → (Nat → Int) → Int
  | [], _ => 0
  | k :: ks, f => f k + sumN ks f

theorem sumN_congr {f g : Nat → Int} : ∀ {us : List Nat}, (∀ k ∈ us, f k = g k) → sumN us f = sumN us g
  | [], _ => rfl
  | u :: us, h => by
    simp only [sumN]
    rw [h u List.mem_cons_self, sumN_congr (fun k hk => h k (List.mem_cons_of_mem _ hk))]

theorem sumN_add (f g : Nat → Int) : ∀ (us : List Nat), sumN us (fun k => f k + g k) = sumN us f + sumN us g
  | [] => rfl
  | u :: us => by simp only [sumN, sumN_add f g us]; omega

theorem sumN_zero : ∀ (us : List Nat), sumN us (fun _ => 0) = 0
  | [] => rfl
  | u :: us => by simp only [sumN, sumN_zero us]; omega

theorem sumN_le {f g : Nat → Int} : ∀ {us : List Nat}, (∀ k ∈ us, f k ≤ g k) → sumN us f ≤ sumN us g
  | [], _ => Int.le_refl _
  | u :: us, h => by
    simp only [sumN]
    have h1 := h u List.mem_cons_self
    have h2 := sumN_le (us := us) (fun k hk => h k (List.mem_cons_of_mem _ hk))
    omega

theorem sumN_mul (c : Int) (f : Nat → Int) : ∀ (us : List Nat), sumN us (fun k => f k * c) = sumN us f * c
  | [] => by simp [sumN]
  | u :: us => by simp only [sumN, sumN_mul c f us, Int.add_mul]

/-- the six uptime indexes. -/
def six : List Nat := [0, 1, 2, 3, 4, 5]

theorem mem_six {k : Nat} : k ∈ six ↔ k < 6 := by
  simp only [six, List.mem_cons, List.mem_nil_iff, or_false]; omega

/-! ## one accumulator pass keeps the normal form -/

theorem emitLoop_sorted {now elapsed liq factor : Int} {u : Nat} :
    ∀ (recs : List IncRec) (add0 add : DC) (recs' : List IncRec),
      emitLoop now elapsed liq factor u recs add0 = some (add, recs') → sorted add0 = true → sorted add = true := by
  intro recs
  induction recs with
  | nil =>
    intro add0 add recs' h hs
    simp only [emitLoop, Option.some.injEq, Prod.mk.injEq] at h
    rw [← h.1]; exact hs
  | cons r rest ih =>
    intro add0 add recs' h hs
    unfold emitLoop at h
    simp only [Option.bind_eq_some_iff] at h
    obtain ⟨res, _, h⟩ := h
    cases res with
    | none =>
      simp only [Option.map_eq_some_iff, Prod.mk.injEq] at h
      obtain ⟨⟨a, rs⟩, hloop, e1, _⟩ := h
      simp only at e1; subst e1
      exact ih add0 a rs hloop hs
    | some pr =>
      obtain ⟨perLiq, rem⟩ := pr
      simp only at h
      split at h
      · cases h
      · simp only [Option.bind_eq_some_iff, Option.map_eq_some_iff, Prod.mk.injEq] at h
        obtain ⟨add1, hadd1, ⟨a, rs⟩, hloop, e1, _⟩ := h
        simp only at e1; subst e1
        exact ih add1 a rs hloop (Accum.add_sorted _ _ _ hs (Accum.sorted_single _ _) hadd1)

/-! ## all six passes -/

theorem emitAll_spec {now elapsed liq factor : Int} (he : 0 ≤ elapsed) (hl : 0 < liq) (hf : 0 < factor) :
    ∀ (us : List Nat) (accs : List UAcc) (recs : List IncRec) (accs' : List UAcc) (recs' : List IncRec),
      RecsOK recs → us.Nodup → emitAll now elapsed liq factor us accs recs = some (accs', recs') →
      accs'.length = accs.length ∧
      (∀ k a, accs[k]? = some a → ∃ a', accs'[k]? = some a' ∧ a'.recs = a.recs ∧ a'.total = a.total ∧
        (sorted a.value = true → sorted a'.value = true) ∧ (∀ d, amt a.value d ≤ amt a'.value d) ∧ (k ∉ us → a' = a)) ∧
      (∀ d, sumN us (fun k => amt (valAt accs' k) d - amt (valAt accs k) d) * liq ≤ (sumRem d recs - sumRem d recs') * factor) ∧
      RecsOK recs' := by
  intro us
  induction us with
  | nil =>
    intro accs recs accs' recs' hok _ h
    simp only [emitAll, Option.some.injEq, Prod.mk.injEq] at h
    obtain ⟨e1, e2⟩ := h
    subst e1; subst e2
    refine ⟨rfl, fun k a ha => ⟨a, ha, rfl, rfl, id, fun _ => Int.le_refl _, fun _ => rfl⟩, fun d => ?_, hok⟩
    simp [sumN]
  | cons u us ih =>
    intro accs recs accs' recs' hok hnd h
    simp only [emitAll, Option.bind_eq_some_iff] at h
    obtain ⟨⟨toAdd, recs1⟩, hloop, a, ha, v, hv, hrest⟩ := h
    simp only at hrest
    have hnd' := (List.nodup_cons.mp hnd)
    have hrok1 : RecsOK recs1 := (emitLoop_bound he hl hf "" recs [] toAdd recs1 hok hloop).2.2.2.1
    obtain ⟨l1, g1, s1, r1⟩ := ih _ recs1 accs' recs' hrok1 hnd'.2 hrest
    have hu : u < accs.length := lt_of_getElem? ha
    have hsa : sorted toAdd = true := emitLoop_sorted recs [] toAdd recs1 hloop rfl
    -- the accumulator at `u` after the whole loop
    have hau : (setAt accs u { a with value := v })[u]? = some { a with value := v } := by
      rw [getElem?_setAt, if_pos ⟨rfl, hu⟩]
    obtain ⟨au', hau', _, _, _, _, hsame⟩ := g1 u _ hau
    have hau'' := hsame hnd'.1
    subst hau''
    refine ⟨by rw [l1, length_setAt], fun k a0 ha0 => ?_, fun d => ?_, r1⟩
    · by_cases hk : k = u
      · subst hk
        rw [ha] at ha0; injection ha0 with ha0; subst ha0
        refine ⟨_, hau', rfl, rfl, fun hs => Accum.add_sorted _ _ _ hs hsa hv, fun d => ?_, fun hn => absurd List.mem_cons_self hn⟩
        have := Accum.add_amt _ _ _ d hv
        have b2 := (emitLoop_bound he hl hf d recs [] toAdd recs1 hok hloop).2.1
        simp only at this ⊢
        have z : amt ([] : DC) d = 0 := rfl
        omega
      · have hk1 : (setAt accs u { a with value := v })[k]? = some a0 := by
          rw [getElem?_setAt, if_neg (fun c => hk c.1)]; exact ha0
        obtain ⟨a', h1, h2, h3, h4, h5, h6⟩ := g1 k a0 hk1
        exact ⟨a', h1, h2, h3, h4, h5, fun hn => h6 (fun c => hn (List.mem_cons_of_mem _ c))⟩
    · simp only [sumN]
      have b1 := (emitLoop_bound he hl hf d recs [] toAdd recs1 hok hloop).1
      have z : amt ([] : DC) d = 0 := rfl
      rw [z, Int.zero_mul, Int.zero_add] at b1
      have s1d := s1 d
      have hcongr : sumN us (fun k => amt (valAt accs' k) d - amt (valAt (setAt accs u { a with value := v }) k) d) =
          sumN us (fun k => amt (valAt accs' k) d - amt (valAt accs k) d) := by
        apply sumN_congr
        intro k hk
        have hku : k ≠ u := fun c => hnd'.1 (c ▸ hk)
        unfold valAt
        rw [getElem?_setAt, if_neg (fun c => hku c.1)]
      rw [hcongr] at s1d
      rw [valAt_of hau', valAt_of ha]
      simp only
      rw [Accum.add_amt _ _ _ d hv, Int.add_mul]
      have e : amt a.value d + amt toAdd d - amt a.value d = amt toAdd d := by omega
      rw [e]
      have e2 : (sumRem d recs - sumRem d recs') * factor = (sumRem d recs - sumRem d recs1) * factor + (sumRem d recs1 - sumRem d recs') * factor := by
        rw [← Int.add_mul]; congr 1; omega
      omega

/-- growth of accumulator `k` in denom `d` between two incentive states. -/
def dVal (i i' : Inc) (k : Nat) (d : String) : Int := amt (valAt i'.accs k) d - amt (valAt i.accs k) d

/-- **bringing the accumulators to now**: only accumulator values, records, and the clock change. -/
theorem sync_spec {i i' : Inc} {liq : Int} (hf : 0 < i.factor) (hok : RecsOK i.records) (h : sync i liq = some i') :
    i'.trackers = i.trackers ∧ i'.now = i.now ∧ i'.factor = i.factor ∧ i'.authorized = i.authorized ∧ i'.join = i.join ∧
    i'.bal = i.bal ∧ i'.nextRec = i.nextRec ∧ i'.accs.length = i.accs.length ∧
    (∀ (k : Nat) (a : UAcc), i.accs[k]? = some a → ∃ a' : UAcc, i'.accs[k]? = some a' ∧ a'.recs = a.recs ∧ a'.total = a.total ∧
      (sorted a.value = true → sorted a'.value = true) ∧ (∀ d, amt a.value d ≤ amt a'.value d)) ∧
    (∀ d, sumN six (dVal i i' · d) * liq ≤ (sumRem d i.records - sumRem d i'.records) * i.factor) ∧
    (liq < P18 → i'.accs = i.accs) := by
  have refl : ∀ (k : Nat) (a : UAcc), i.accs[k]? = some a → ∃ a' : UAcc, i.accs[k]? = some a' ∧ a'.recs = a.recs ∧ a'.total = a.total ∧
      (sorted a.value = true → sorted a'.value = true) ∧ (∀ d, amt a.value d ≤ amt a'.value d) :=
    fun k a ha => ⟨a, ha, rfl, rfl, id, fun _ => Int.le_refl _⟩
  have zero : ∀ d, sumN six (dVal i i · d) = 0 := by
    intro d
    have : sumN six (dVal i i · d) = sumN six (fun _ => 0) := sumN_congr (fun k _ => by simp only [dVal]; omega)
    rw [this, sumN_zero]
  unfold sync at h
  simp only [Option.bind_eq_some_iff] at h
  obtain ⟨el, _, h⟩ := h
  split at h
  · injection h with h; subst h
    exact ⟨rfl, rfl, rfl, rfl, rfl, rfl, rfl, rfl, refl, fun d => by rw [zero, Int.zero_mul, Int.sub_self, Int.zero_mul], fun _ => rfl⟩
  · split at h
    · cases h
    · simp only [Option.map_eq_some_iff] at h
      obtain ⟨⟨accs, recs⟩, hx, e⟩ := h
      subst e
      split at hx
      · simp only [Option.some.injEq, Prod.mk.injEq] at hx
        obtain ⟨e1, e2⟩ := hx
        subst e1; subst e2
        refine ⟨rfl, rfl, rfl, rfl, rfl, rfl, rfl, rfl, refl, fun d => ?_, fun _ => rfl⟩
        have : sumN six (dVal i { i with accs := i.accs, records := i.records.filter (fun r => r.remaining > 0), last := i.now } · d) = 0 := zero d
        rw [this, Int.zero_mul, (sumRem_filter d i.records hok).1, Int.sub_self, Int.zero_mul]
      · rename_i hneg hliq
        have hP := P18_pos
        obtain ⟨l1, g1, s1, r1⟩ := emitAll_spec (by omega) (by omega) hf [0, 1, 2, 3, 4, 5] _ _ _ _ hok (by decide) hx
        refine ⟨rfl, rfl, rfl, rfl, rfl, rfl, rfl, l1, fun k a ha => ?_, fun d => ?_, fun hl => absurd hl hliq⟩
        · obtain ⟨a', h1, h2, h3, h4, h5, _⟩ := g1 k a ha
          exact ⟨a', h1, h2, h3, h4, h5⟩
        · rw [(sumRem_filter d recs r1).1]
          exact s1 d

end OsmoVerif.CLIncP
