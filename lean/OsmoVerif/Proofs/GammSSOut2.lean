/-
C04 (stableswap invariant), part 7: exact-in end to end.  From a successful `SwapOutAmtGivenIn` to
`ssInvariant p' ≥ ssInvariant p − swapErr·Π others`.
-/
import OsmoVerif.Proofs.GammSSOut

set_option linter.unusedSimpArgs false

namespace OsmoVerif.GammMath.SS
open OsmoVerif.Num OsmoVerif.MathM OsmoVerif.Gen OsmoVerif.Spec

/-- the assets other than the two swapped ones. -/
def othersOf (p : SSPool) (d1 d2 : String) : List SSAsset :=
  p.assets.filter fun c => c.denom ≠ d1 ∧ c.denom ≠ d2

/-- the facts (D) at the level of `CalcOutAmtGivenIn`: what the solver ran on, and how the integer result and the
token-in relate to the solver's amounts. -/
theorem ssCalcOut_point {p : SSPool} {dIn dOut : String} {amt spread out : Int}
    (hamt : 0 ≤ amt) (hs : 0 ≤ spread) (h : ssCalcOut p [(dIn, amt)] dOut spread = .ok out) :
    ∃ aIn aOut x0 y0 w yIn xOut rem,
      findSS p.assets dIn = some aIn ∧ findSS p.assets dOut = some aOut ∧ dIn ≠ dOut ∧
      0 < aIn.sf ∧ 0 < aOut.sf ∧ (∀ c ∈ othersOf p dIn dOut, 0 < c.sf) ∧
      x0 = (aOut.amount * P36).tdiv aOut.sf ∧ y0 = (aIn.amount * P36).tdiv aIn.sf ∧
      List.Forall₂ (fun c r => r = (c.amount * P36).tdiv c.sf) (othersOf p dIn dOut) rem ∧
      sumSquares rem = some w ∧ solveCfmmMulti x0 y0 w yIn = some xOut ∧
      0 < out ∧ 0 < xOut ∧ 0 < aIn.amount ∧ 0 < aOut.amount ∧
      (out : ℚ) / aOut.sf ≤ rq xOut ∧ rq yIn ≤ (amt : ℚ) / aIn.sf ∧ out < aOut.amount ∧
      ∃ tin, tin = (amt * P36).tdiv aIn.sf ∧ ((oneMinus spread).bind fun om => BigDec.mul tin om) = some yIn := by
  obtain ⟨aIn, aOut, y0, x0, rem, w, tin, ammIn, xOut, dd, hIn, hOut, hne, sfIn, sfOut, sfO, hy0, hx0, hrem, hw,
    htin, hamm, hsol, hdd, hout⟩ := ssCalcOut_spec h
  obtain ⟨hxf, _, hx0p, hy0p, _, _⟩ := solver_post_exact_partial hsol
  obtain ⟨o1, o2, _⟩ := outTrunc_spec hout
  -- reserves are positive
  have amOut : 0 < aOut.amount := by
    have := pos_of_tdiv_pos sfOut (hx0 ▸ hx0p)
    have := P36_pos
    by_contra hc
    have : aOut.amount * P36 ≤ 0 := Int.mul_nonpos_of_nonpos_of_nonneg (by omega) (by omega)
    omega
  have amIn : 0 < aIn.amount := by
    have := pos_of_tdiv_pos sfIn (hy0 ▸ hy0p)
    have := P36_pos
    by_contra hc
    have : aIn.amount * P36 ≤ 0 := Int.mul_nonpos_of_nonpos_of_nonneg (by omega) (by omega)
    omega
  -- out·10^36 ≤ xOut·sf
  have hddpos : 0 < dd := by
    have : 0 < out * P18 := Int.mul_pos o1 P18_pos
    omega
  have hxs : 0 < xOut * aOut.sf := pos_of_tdiv_pos Pdiff_pos (hdd ▸ hddpos)
  obtain ⟨f1, _, _⟩ := tdiv_floor Pdiff_pos (Int.le_of_lt hxs)
  rw [← hdd] at f1
  have key : out * P36 ≤ xOut * aOut.sf := by
    have : out * P18 * Pdiff ≤ dd * Pdiff := Int.mul_le_mul_of_nonneg_right o2 (Int.le_of_lt Pdiff_pos)
    rw [Int.mul_assoc, P18_mul_Pdiff] at this
    omega
  have hxo : 0 < xOut := by
    by_contra hc
    have : xOut * aOut.sf ≤ 0 := Int.mul_nonpos_of_nonpos_of_nonneg (by omega) (by omega)
    omega
  have sfq : (0 : ℚ) < aOut.sf := by exact_mod_cast sfOut
  have q1 : (out : ℚ) / aOut.sf ≤ rq xOut := by
    unfold rq
    rw [div_le_div_iff₀ sfq (by positivity)]
    rw [← P36_cast]; exact_mod_cast key
  -- curve input ≤ token in
  obtain ⟨t1, _, t3⟩ := scaled_down_rq sfIn hamt htin
  have hle := ammIn_le hs t3 hamm
  have q2 : rq ammIn ≤ (amt : ℚ) / aIn.sf := le_trans (rq_le_rq.mpr hle) t1
  -- out < reserve
  have hlt : out < aOut.amount := by
    obtain ⟨g1, _, _⟩ := tdiv_floor sfOut (Int.le_of_lt (Int.mul_pos amOut P36_pos))
    rw [← hx0] at g1
    have : xOut * aOut.sf < x0 * aOut.sf := Int.mul_lt_mul_of_pos_right (by omega) sfOut
    have : out * P36 < aOut.amount * P36 := by omega
    exact Int.lt_of_mul_lt_mul_right this (Int.le_of_lt P36_pos)
  exact ⟨aIn, aOut, x0, y0, w, ammIn, xOut, rem, hIn, hOut, hne, sfIn, sfOut, sfO, hx0, hy0, hrem, hw, hsol,
    o1, hxo, amIn, amOut, q1, q2, hlt, tin, htin, hamm⟩

/-- the asset list after the swap, as a function of the one before. -/
def swapOutAsset (dIn dOut : String) (amt out : Int) (a : SSAsset) : SSAsset :=
  { a with amount := a.amount + amountOf [(dIn, amt)] a.denom - amountOf [(dOut, out)] a.denom }

theorem swapOutAsset_in {dIn dOut : String} {amt out : Int} {a : SSAsset} (h : a.denom = dIn) (hne : dIn ≠ dOut) :
    swapOutAsset dIn dOut amt out a = { a with amount := a.amount + amt } := by
  unfold swapOutAsset
  rw [amountOf_single, amountOf_single, if_pos h.symm, if_neg (by rw [h]; exact fun e => hne e.symm)]
  simp

theorem swapOutAsset_out {dIn dOut : String} {amt out : Int} {a : SSAsset} (h : a.denom = dOut) (hne : dIn ≠ dOut) :
    swapOutAsset dIn dOut amt out a = { a with amount := a.amount - out } := by
  unfold swapOutAsset
  rw [amountOf_single, amountOf_single, if_pos h.symm, if_neg (by rw [h]; exact hne)]
  simp

theorem swapOutAsset_other {dIn dOut : String} {amt out : Int} {a : SSAsset} (h1 : a.denom ≠ dIn) (h2 : a.denom ≠ dOut) :
    swapOutAsset dIn dOut amt out a = a := by
  unfold swapOutAsset
  rw [amountOf_single, amountOf_single, if_neg (fun e => h1 e.symm), if_neg (fun e => h2 e.symm)]
  simp

theorem othersOf_map_swapOut (p : SSPool) (dIn dOut : String) (amt out : Int) :
    (othersOf p dIn dOut).map (swapOutAsset dIn dOut amt out) = othersOf p dIn dOut := by
  conv_rhs => rw [← List.map_id (othersOf p dIn dOut)]
  apply List.map_congr_left
  intro c hc
  unfold othersOf at hc
  have := (List.mem_filter.mp hc).2
  simp only [decide_eq_true_eq] at this
  rw [swapOutAsset_other this.1 this.2]; rfl

/-- PARTIAL end-to-end exact-in (the full statement, without the error term, is FALSE of the code: see
`Props.C04Stable.stableswap_invariant_decrease_witness`). -/
theorem ssSwapOut_invariant_partial {p p' : SSPool} {dIn dOut : String} {amt spread out : Int}
    (hnd : NodupDenoms p.assets) (hamt : 0 ≤ amt) (hs : 0 ≤ spread)
    (h : ssSwapOut p [(dIn, amt)] dOut spread = .ok (out, p')) :
    ∃ aIn aOut, findSS p.assets dIn = some aIn ∧ findSS p.assets dOut = some aOut ∧
      ssInvariant p
        - swapErr (xq aOut) (xq aIn) ((othersOf p dIn dOut).map xq) * ((othersOf p dIn dOut).map xq).prod
        ≤ ssInvariant p' := by
  obtain ⟨hc, hv, hp', _, hpos⟩ := ssSwapOut_spec h
  obtain ⟨aIn, aOut, x0, y0, w, yIn, xOut, rem, hIn, hOut, hne, sfIn, sfOut, sfO, hx0, hy0, hrem, hw, hsol,
    o1, hxo, amIn, amOut, q1, q2, hlt, -⟩ := ssCalcOut_point hamt hs hc
  refine ⟨aIn, aOut, hIn, hOut, ?_⟩
  obtain ⟨hxf, hyf, hx0p, hy0p, hwp, hsolq⟩ := solver_post_exact_partial hsol
  obtain ⟨solrun, hsr, -, -, habs, -⟩ := Props.C04.stableswap_solver_post hsol
  obtain ⟨-, -, -, hyin, -, -⟩ := solverSetup_spec hsr
  -- the other assets: positive scaling factors and (from validatePoolLiquidity) positive amounts
  have hO : ∀ c ∈ othersOf p dIn dOut, 0 < c.sf ∧ 0 ≤ c.amount := by
    intro c hc
    have hsf := sfO c hc
    have hmem := List.mem_filter.mp hc
    have hd := hmem.2
    simp only [decide_eq_true_eq] at hd
    have := validLiquidity_spec hv _ (List.mem_map.mpr ⟨c, hmem.1, rfl⟩)
    simp only at this
    rw [amountOf_single, if_neg (fun e => hd.1 e.symm), Int.add_zero] at this
    have := le_of_one_le_tdiv hsf this.2.1
    exact ⟨hsf, by omega⟩
  have hZ : ∀ z ∈ (othersOf p dIn dOut).map xq, 0 ≤ z := by
    intro z hz
    obtain ⟨c, hc, rfl⟩ := List.mem_map.mp hz
    obtain ⟨a, b⟩ := hO c hc
    unfold xq
    have : (0 : ℚ) < c.sf := by exact_mod_cast a
    have : (0 : ℚ) ≤ c.amount := by exact_mod_cast b
    positivity
  obtain ⟨w1, w2⟩ := w_bounds hrem hO hw
  -- the two invariants through the swapped pair
  have dIn_eq := (findSS_some hIn).2
  have dOut_eq := (findSS_some hOut).2
  have e0 := ssInvariant_two hnd hne hIn hOut
  have e1 : ssInvariant p' =
      kq (xq (swapOutAsset dIn dOut amt out aIn)) (xq (swapOutAsset dIn dOut amt out aOut))
        (sumSq ((othersOf p dIn dOut).map xq)) * ((othersOf p dIn dOut).map xq).prod := by
    unfold ssInvariant
    have hp'' : p'.assets = p.assets.map (swapOutAsset dIn dOut amt out) := hp'
    rw [hp'']
    have pm := ((perm_two hnd hne hIn hOut).map (swapOutAsset dIn dOut amt out)).map xq
    rw [ssK_perm pm]
    simp only [List.map_cons]
    have := othersOf_map_swapOut p dIn dOut amt out
    unfold othersOf at this
    rw [this]
    exact ssK_cons_cons _ _ _
  rw [swapOutAsset_in dIn_eq hne, swapOutAsset_out dOut_eq hne] at e1
  change ssInvariant p = kq (xq aIn) (xq aOut) (sumSq ((othersOf p dIn dOut).map xq))
    * ((othersOf p dIn dOut).map xq).prod at e0
  rw [e0, e1, kq_symm (xq aIn), kq_symm (xq { aIn with amount := aIn.amount + amt })]
  have hP := prod_nonneg_of_forall hZ
  have hWn := sumSq_nonneg ((othersOf p dIn dOut).map xq)
  -- the rational facts about the pair
  obtain ⟨bx1, bx2, _⟩ := scaled_down_rq sfOut (Int.le_of_lt amOut) hx0
  obtain ⟨by1, by2, _⟩ := scaled_down_rq sfIn (Int.le_of_lt amIn) hy0
  have sfq : (0 : ℚ) < aOut.sf := by exact_mod_cast sfOut
  have sfiq : (0 : ℚ) < aIn.sf := by exact_mod_cast sfIn
  have hX' : rq x0 - rq xOut ≤ xq { aOut with amount := aOut.amount - out } := by
    unfold xq
    simp only
    push_cast
    rw [sub_div]
    linarith
  have hY' : rq (y0 + yIn) ≤ xq { aIn with amount := aIn.amount + amt } := by
    unfold xq
    simp only
    push_cast
    rw [add_div, rq_add]
    linarith
  have hXo : |rq xOut| ≤ rq x0 := by
    rw [← rq_natAbs]; exact rq_le_rq.mpr (Int.le_of_lt habs)
  have hsolq' : kq (rq x0) (rq y0) (rq w) - solverErr (rq x0) (rq y0) (rq (y0 + yIn)) (rq xOut)
      ≤ kq (rq x0 - rq xOut) (rq (y0 + yIn)) (rq w) := by
    rw [← rq_sub]; exact hsolq
  have hxf' : 0 < rq x0 - rq xOut := by rw [← rq_sub]; exact rq_pos.mpr hxf
  have eY' : xq { aIn with amount := aIn.amount + amt } = (((aIn.amount + amt : Int) : ℚ) / aIn.sf) := rfl
  have hYb : rq (y0 + yIn) ≤ 2 * xq aIn := by
    have : y0 + yIn ≤ 2 * y0 := by omega
    have := rq_le_rq.mpr this
    rw [rq_mul_int] at this
    have e : rq 2 * (y0 : ℚ) = 2 * rq y0 := by unfold rq; push_cast; ring
    rw [e] at this
    have : rq y0 ≤ xq aIn := by1
    linarith
  have main : kq (xq aOut) (xq aIn) (sumSq ((othersOf p dIn dOut).map xq))
      - swapErr (xq aOut) (xq aIn) ((othersOf p dIn dOut).map xq)
      ≤ kq (xq { aOut with amount := aOut.amount - out }) (((aIn.amount + amt : Int) : ℚ) / aIn.sf)
          (sumSq ((othersOf p dIn dOut).map xq)) := by
    unfold swapErr
    rw [List.length_map, ← eY']
    exact chain_out hsolq' (rq_pos.mpr hx0p) (rq_pos.mpr hy0p) hxf' (rq_pos.mpr hyf) hXo
      (rq_pos.mpr hxo).le bx1 bx2.le by1 by2.le hX' hY' hYb w1 w2
      (by have := eps_pos; positivity) (wErr_nonneg hZ) hWn
  rw [eY']
  have fin := mul_le_mul_of_nonneg_right main hP
  rw [sub_mul] at fin
  exact fin

end OsmoVerif.GammMath.SS
