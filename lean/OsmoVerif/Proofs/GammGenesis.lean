/-
C19 / x/gamm genesis: lemmas about `Model/GammGenesis.lean`.
* `PoolEff s s' net`: what a (part of a) message does to the pool RECORDS: as long as the history stays inside the pool-math
  contract (`clean`), the liquidity the records report changes by exactly `net`; pool ids stay distinct.
* every message: `PoolEff` with `net` = the net of its `RecordTotalLiquidity…` calls (`step_eff`) — so the incrementally
  maintained total liquidity equals the sum over the pool records on every clean reachable state (`GInv`).
* `InitGenesis` on an export: the pool table is reproduced, the total liquidity is the sum over the records.
Core only.
-/
import OsmoVerif.Model.GammGenesis
import OsmoVerif.Proofs.GammSteps

namespace OsmoVerif.Gamm
open OsmoVerif.Ledger OsmoVerif.Ledger.Bank

/-! ## coin lists -/

theorem aget_aerase (l : Coins) (k k' : Denom) : aget (aerase l k) k' = if k = k' then 0 else aget l k' := by
  induction l with
  | nil => simp only [aerase, aget]; split <;> rfl
  | cons h t ih =>
    obtain ⟨k0, v0⟩ := h
    unfold aerase
    by_cases e : k0 = k
    · rw [if_pos e, ih]
      by_cases e2 : k = k'
      · rw [if_pos e2, if_pos e2]
      · rw [if_neg e2, if_neg e2]
        simp only [aget]
        rw [if_neg (by rw [e]; exact e2)]
    · rw [if_neg e]
      simp only [aget]
      by_cases e3 : k0 = k'
      · rw [if_pos e3, if_pos e3, if_neg (fun h => e (by rw [e3, h]))]
      · rw [if_neg e3, if_neg e3, ih]

theorem sumOf_aset (l : Coins) (k : Denom) (v : Int) (k' : Denom) :
    sumOf (aset l k v) k' = sumOf l k' + (if k = k' then v - aget l k else 0) := by
  induction l with
  | nil => simp only [aset, sumOf, aget]; split <;> omega
  | cons h t ih =>
    obtain ⟨k0, v0⟩ := h
    unfold aset
    by_cases e : k0 = k
    · rw [if_pos e]
      simp only [sumOf, aget, if_pos e]
      subst e
      split <;> omega
    · rw [if_neg e]
      simp only [sumOf, aget, if_neg e, ih]
      omega

theorem sumOf_append (a b : Coins) (d : Denom) : sumOf (a ++ b) d = sumOf a d + sumOf b d := by
  induction a with
  | nil => simp only [List.nil_append, sumOf]; omega
  | cons h t ih => obtain ⟨k, v⟩ := h; simp only [List.cons_append, sumOf, ih]; omega

/-! ## the `Record…` calls as sums -/

def netOf : List Flow → Denom → Int
  | [], _ => 0
  | (true, cs) :: fs, d => sumOf cs d + netOf fs d
  | (false, cs) :: fs, d => - sumOf cs d + netOf fs d

theorem netOf_append (a b : List Flow) (d : Denom) : netOf (a ++ b) d = netOf a d + netOf b d := by
  induction a with
  | nil => simp only [List.nil_append, netOf]; omega
  | cons h t ih =>
    obtain ⟨b0, cs⟩ := h
    cases b0 <;> simp only [List.cons_append, netOf, ih] <;> omega

theorem aget_recInc (cs : Coins) : ∀ (tl : Coins) (d : Denom), aget (recInc tl cs) d = aget tl d + sumOf cs d := by
  induction cs with
  | nil => intro tl d; simp only [recInc, sumOf]; omega
  | cons h t ih =>
    intro tl d
    obtain ⟨k, v⟩ := h
    simp only [recInc, sumOf, ih, aget_aset]
    split
    · rename_i e; subst e; omega
    · omega

theorem aget_recDec (cs : Coins) : ∀ (tl : Coins) (d : Denom), aget (recDec tl cs) d = aget tl d - sumOf cs d := by
  induction cs with
  | nil => intro tl d; simp only [recDec, sumOf]; omega
  | cons h t ih =>
    intro tl d
    obtain ⟨k, v⟩ := h
    simp only [recDec, sumOf, ih, aget_aset]
    split
    · rename_i e; subst e; omega
    · omega

/-- the total liquidity after the `Record…` calls of a message = before + their net -/
theorem aget_applyFlows (fl : List Flow) : ∀ (tl : Coins) (d : Denom), aget (applyFlows tl fl) d = aget tl d + netOf fl d := by
  induction fl with
  | nil => intro tl d; simp only [applyFlows, netOf]; omega
  | cons h t ih =>
    intro tl d
    obtain ⟨b, cs⟩ := h
    cases b
    · simp only [applyFlows, netOf, ih, aget_recDec]; omega
    · simp only [applyFlows, netOf, ih, aget_recInc]; omega

/-! ## the liquidity a record reports -/

theorem liq_setRes (p : Pool) (d : Denom) (v : Int) (d' : Denom) :
    (p.setRes d v).liq d' = p.liq d' + (if d = d' then v - p.res d else 0) := by
  simp only [Pool.liq, Pool.setRes, Pool.res, sumOf_aset]

theorem recSwap_liq {p p' : Pool} {din dout : Denom} {a b : Int} {ok : Bool}
    (h : recSwap p din a dout b = some (p', ok)) (hne : din ≠ dout) (hok : ok = true) (d : Denom) :
    p'.liq d = p.liq d + (if d = din then a else 0) - (if d = dout then b else 0) := by
  unfold recSwap at h
  split at h
  · cases h
  · simp only at h
    split at h
    · split at h
      · cases h
      · injection h with h
        injection h with h1 h2
        subst h1; subst h2
        simp only [Bool.and_eq_true, Bool.not_eq_eq_eq_not, Bool.not_true, decide_eq_false_iff_not] at hok
        rw [if_neg hok.2, if_neg hok.1, liq_setRes, liq_setRes, Pool.res_setRes, if_neg hne]
        grind
    · split at h
      · cases h
      · injection h with h
        injection h with h1 h2
        subst h1
        rw [liq_setRes, liq_setRes, Pool.res_setRes, if_neg hne]
        grind

theorem recAddCoins_liq : ∀ (cs : Coins) {p p' : Pool}, recAddCoins p cs = some p' → ∀ d, p'.liq d = p.liq d + sumOf cs d
  | [], p, p', h, d => by
    simp only [recAddCoins] at h; injection h with h; subst h
    simp only [sumOf]; omega
  | (d0, a) :: cs, p, p', h, d => by
    simp only [recAddCoins] at h
    split at h
    · rw [recAddCoins_liq cs h d, liq_setRes]
      simp only [sumOf]
      grind
    · cases h

theorem recJoin_liq {cs : Coins} {p p' : Pool} {n : Int} (h : recJoin p cs n = some p') (d : Denom) :
    p'.liq d = p.liq d + sumOf cs d := by
  unfold recJoin at h
  cases h1 : recAddCoins p cs with
  | none => rw [h1] at h; cases h
  | some q =>
    rw [h1] at h
    simp only [Option.map_some] at h
    injection h with h; subst h
    exact recAddCoins_liq cs h1 d

theorem recSubCoins_liq : ∀ (cs : Coins) {p p' : Pool} {ok : Bool}, recSubCoins p cs = some (p', ok) → ok = true →
    ∀ d, p'.liq d = p.liq d - sumOf cs d
  | [], p, p', ok, h, _, d => by
    simp only [recSubCoins] at h; injection h with h; injection h with h1 h2; subst h1
    simp only [sumOf]; omega
  | (d0, a) :: cs, p, p', ok, h, hok, d => by
    simp only [recSubCoins] at h
    split at h
    · cases h
    · split at h
      · split at h
        · cases h
        · split at h
          · cases h1 : recSubCoins p cs with
            | none => rw [h1] at h; cases h
            | some r =>
              rw [h1] at h
              simp only [Option.map_some] at h
              injection h with h; injection h with h2 h3
              rw [← h3] at hok; cases hok
          · rw [recSubCoins_liq cs h hok d, liq_setRes]
            simp only [sumOf]
            grind
      · split at h
        · cases h
        · rw [recSubCoins_liq cs h hok d, liq_setRes]
          simp only [sumOf]
          grind

theorem recExit_liq {cs : Coins} {p p' : Pool} {n : Int} {ok : Bool} (h : recExit p cs n = some (p', ok)) (hok : ok = true)
    (d : Denom) : p'.liq d = p.liq d - sumOf cs d := by
  unfold recExit at h
  cases h1 : recSubCoins p cs with
  | none => rw [h1] at h; cases h
  | some r =>
    rw [h1] at h
    simp only [Option.map_some] at h
    injection h with h; injection h with h2 h3
    subst h2; subst h3
    exact recSubCoins_liq cs (p := p) (p' := r.1) (ok := r.2) (by rw [h1]) hok d

/-! ## the pool table -/

def poolIds (ps : List (Nat × Pool)) : List Nat := ps.map Prod.fst

theorem getPool_none_of_not_mem {id : Nat} : ∀ {ps : List (Nat × Pool)}, id ∉ poolIds ps → getPool ps id = none
  | [], _ => rfl
  | (i, q) :: t, h => by
    unfold getPool
    have : i ≠ id := fun e => h (by rw [e]; exact List.mem_cons_self)
    rw [if_neg this]
    exact getPool_none_of_not_mem (fun m => h (List.mem_cons_of_mem _ m))

theorem getPool_some_mem {id : Nat} {p : Pool} : ∀ {ps : List (Nat × Pool)}, getPool ps id = some p → id ∈ poolIds ps
  | [], h => by cases h
  | (i, q) :: t, h => by
    unfold getPool at h
    by_cases e : i = id
    · rw [e]; exact List.mem_cons_self
    · rw [if_neg e] at h; exact List.mem_cons_of_mem _ (getPool_some_mem h)

/-- `setPool` on an existing id keeps the id list; on a new id it appends -/
theorem poolIds_setPool (id : Nat) (p : Pool) : ∀ (ps : List (Nat × Pool)),
    poolIds (setPool ps id p) = if id ∈ poolIds ps then poolIds ps else poolIds ps ++ [id]
  | [] => rfl
  | (i, q) :: t => by
    unfold setPool
    by_cases e : i = id
    · rw [if_pos e, if_pos (by rw [e]; exact List.mem_cons_self)]
      simp only [poolIds, List.map_cons, e]
    · rw [if_neg e]
      have ih := poolIds_setPool id p t
      simp only [poolIds, List.map_cons] at ih ⊢
      rw [ih]
      have e' : ¬ id = i := fun h => e h.symm
      by_cases m : id ∈ t.map Prod.fst
      · simp only [List.mem_cons, m, or_true, if_true]
      · simp only [List.mem_cons, m, e', or_self, if_false, List.cons_append]

theorem setPool_nodup (id : Nat) (p : Pool) {ps : List (Nat × Pool)} (h : (poolIds ps).Nodup) :
    (poolIds (setPool ps id p)).Nodup := by
  rw [poolIds_setPool]
  split
  · exact h
  · rename_i m
    exact List.nodup_append.mpr ⟨h, List.nodup_cons.mpr ⟨List.not_mem_nil, List.nodup_nil⟩, fun a ha b hb e => by
      rw [List.mem_singleton] at hb; subst hb; subst e; exact m ha⟩

theorem sumLiq_setPool (id : Nat) (p' : Pool) (d : Denom) : ∀ (ps : List (Nat × Pool)),
    sumLiq (setPool ps id p') d = sumLiq ps d - (match getPool ps id with | some p => p.liq d | none => 0) + p'.liq d
  | [] => by simp only [setPool, sumLiq, getPool]; omega
  | (i, q) :: t => by
    unfold setPool getPool
    by_cases e : i = id
    · rw [if_pos e, if_pos e]
      simp only [sumLiq]; omega
    · rw [if_neg e, if_neg e]
      simp only [sumLiq, sumLiq_setPool id p' d t]; omega

theorem setPool_append_new (id : Nat) (p : Pool) : ∀ (ps : List (Nat × Pool)), id ∉ poolIds ps → setPool ps id p = ps ++ [(id, p)]
  | [], _ => rfl
  | (i, q) :: t, h => by
    unfold setPool
    have : i ≠ id := fun e => h (by rw [e]; exact List.mem_cons_self)
    rw [if_neg this, setPool_append_new id p t (fun m => h (List.mem_cons_of_mem _ m))]
    rfl

/-! ## what a message does to the records -/

structure PoolEff (s s' : State) (net : Denom → Int) : Prop where
  clean : s'.clean = true → s.clean = true
  liq : s'.clean = true → ∀ d, sumLiq s'.pools d = sumLiq s.pools d + net d
  nodup : (poolIds s.pools).Nodup → (poolIds s'.pools).Nodup

theorem PoolEff.trans {s s1 s2 : State} {n1 n2 n : Denom → Int} (h1 : PoolEff s s1 n1) (h2 : PoolEff s1 s2 n2)
    (hn : ∀ d, n d = n1 d + n2 d) : PoolEff s s2 n :=
  ⟨fun hc => h1.clean (h2.clean hc), fun hc d => by rw [h2.liq hc d, h1.liq (h2.clean hc) d, hn d]; omega,
    fun hd => h2.nodup (h1.nodup hd)⟩

theorem PoolEff.congr {s s' : State} {n n' : Denom → Int} (h : PoolEff s s' n) (hn : ∀ d, n' d = n d) : PoolEff s s' n' :=
  ⟨h.clean, fun hc d => by rw [h.liq hc d, hn d], h.nodup⟩

/-- nothing of the records changed -/
theorem PoolEff.same {s s' : State} (hp : s'.pools = s.pools) (hc : s'.clean = s.clean) : PoolEff s s' (fun _ => 0) :=
  ⟨fun h => by rw [← hc]; exact h, fun _ d => by rw [hp]; omega, fun h => by rw [hp]; exact h⟩

/-- one pool record replaced, with the contract flag -/
theorem poolStep_eff {s : State} {id : Nat} {p p' : Pool} {B : GBank} {ok : Bool} (δ : Denom → Int)
    (hp : getPool s.pools id = some p) (hliq : ok = true → ∀ d, p'.liq d = p.liq d + δ d) :
    PoolEff s { s with bank := B, pools := setPool s.pools id p', clean := s.clean && ok } δ := by
  refine ⟨fun hc => (by simpa using hc : s.clean = true ∧ ok = true).1, fun hc d => ?_, fun hd => setPool_nodup id p' hd⟩
  have hc' : s.clean = true ∧ ok = true := by simpa using hc
  show sumLiq (setPool s.pools id p') d = _
  rw [sumLiq_setPool, hp]
  simp only
  rw [hliq hc'.2 d]
  omega

theorem applySwap_eff {s s' : State} {u id : Nat} {p p' : Pool} {din dout : Denom} {a b : Int} {ok : Bool}
    (hp : getPool s.pools id = some p)
    (hliq : ok = true → ∀ d, p'.liq d = p.liq d + (if d = din then a else 0) - (if d = dout then b else 0))
    (h : applySwap s u id p' din a dout b ok = some s') :
    PoolEff s s' (netOf [(true, [(din, a)]), (false, [(dout, b)])]) := by
  unfold applySwap at h
  simp only [Option.bind_eq_bind, Option.bind_eq_some_iff] at h
  obtain ⟨b1, _, b2, _, h⟩ := h
  injection h with h; subst h
  refine (poolStep_eff (fun d => (if d = din then a else 0) - (if d = dout then b else 0)) hp (fun hok d => by rw [hliq hok d]; omega)).congr
    (fun d => ?_)
  simp only [netOf, sumOf]
  grind

theorem applyJoin_eff {s s' : State} {u id : Nat} {p p' : Pool} {coins : Coins} {n : Int} {ok : Bool}
    (hp : getPool s.pools id = some p) (hliq : ok = true → ∀ d, p'.liq d = p.liq d + sumOf coins d)
    (h : applyJoin s u id p' n coins ok = some s') : PoolEff s s' (netOf [(true, coins)]) := by
  unfold applyJoin at h
  simp only [Option.bind_eq_bind, Option.bind_eq_some_iff] at h
  obtain ⟨b1, _, b2, _, h⟩ := h
  injection h with h; subst h
  exact (poolStep_eff (fun d => sumOf coins d) hp hliq).congr (fun d => by simp only [netOf]; omega)

theorem applyExit_eff {s s' : State} {u id : Nat} {p p' : Pool} {coins : Coins} {n : Int} {ok : Bool}
    (hp : getPool s.pools id = some p) (hliq : ok = true → ∀ d, p'.liq d = p.liq d - sumOf coins d)
    (h : applyExit s u id p' n coins ok = some s') : PoolEff s s' (netOf [(false, coins)]) := by
  unfold applyExit at h
  simp only [Option.bind_eq_bind, Option.bind_eq_some_iff] at h
  obtain ⟨b1, _, b2, _, h⟩ := h
  injection h with h; subst h
  exact (poolStep_eff (fun d => - sumOf coins d) hp (fun hok d => by rw [hliq hok d]; omega)).congr
    (fun d => by simp only [netOf]; omega)

theorem gammSwapIn_eff {s s' : State} {u id : Nat} {din dout : Denom} {a minOut out : Int} {math : Option Int}
    (h : gammSwapIn s u id din a dout minOut math = some (s', out)) :
    math = some out ∧ PoolEff s s' (netOf [(true, [(din, a)]), (false, [(dout, out)])]) := by
  unfold gammSwapIn at h
  simp only [Option.bind_eq_bind, Option.bind_eq_some_iff, require_eq_some, decide_eq_true_eq] at h
  obtain ⟨p, hp, _, hne, o, hm, ⟨p', ok⟩, hrec, _, _, _, _, s1, happ, h⟩ := h
  injection h with h; injection h with h1 h2; subst h1; subst h2
  exact ⟨hm, applySwap_eff hp (fun hok d => recSwap_liq hrec hne hok d) happ⟩

theorem gammSwapOut_eff {s s' : State} {u id : Nat} {din dout : Denom} {b maxIn a : Int} {math : Option Int}
    (h : gammSwapOut s u id din maxIn dout b math = some (s', a)) :
    math = some a ∧ PoolEff s s' (netOf [(true, [(din, a)]), (false, [(dout, b)])]) := by
  unfold gammSwapOut at h
  simp only [Option.bind_eq_bind, Option.bind_eq_some_iff, require_eq_some, decide_eq_true_eq] at h
  obtain ⟨p, hp, _, hne, _, _, a', hm, ⟨p', ok⟩, hrec, _, _, _, _, s1, happ, h⟩ := h
  injection h with h; injection h with h1 h2; subst h1; subst h2
  exact ⟨hm, applySwap_eff hp (fun hok d => recSwap_liq hrec hne hok d) happ⟩

theorem chargeTakerFee_frame {s s' : State} {u : Nat} {din dout : Denom} {amt after fee : Int} {ex : Bool}
    (h : chargeTakerFee s u din amt dout ex = some (s', after, fee)) : s'.pools = s.pools ∧ s'.clean = s.clean := by
  unfold chargeTakerFee at h
  split at h
  · injection h with h; injection h with h1 _; subst h1; exact ⟨rfl, rfl⟩
  · split at h
    · cases h
    · split at h
      · cases h
      · split at h
        · injection h with h; injection h with h1 _; subst h1; exact ⟨rfl, rfl⟩
        · split at h
          · cases h
          · injection h with h; injection h with h1 _; subst h1; exact ⟨rfl, rfl⟩

theorem PoolEff.after_frame {s s1 s' : State} {n : Denom → Int} (hp : s1.pools = s.pools) (hc : s1.clean = s.clean)
    (h : PoolEff s1 s' n) : PoolEff s s' n :=
  ⟨fun hc' => by rw [← hc]; exact h.clean hc', fun hc' d => by rw [h.liq hc' d, hp], fun hd => h.nodup (by rw [hp]; exact hd)⟩

theorem PoolEff.before_frame {s s1 s' : State} {n : Denom → Int} (hp : s'.pools = s1.pools) (hc : s'.clean = s1.clean)
    (h : PoolEff s s1 n) : PoolEff s s' n :=
  ⟨fun hc' => h.clean (by rw [← hc]; exact hc'), fun hc' d => by rw [hp, h.liq (by rw [← hc]; exact hc') d],
    fun hd => by rw [hp]; exact h.nodup hd⟩

theorem hopIn_eff {s s' : State} {u : Nat} {din : Denom} {amt minOut out : Int} {h : HopIn}
    (hh : hopIn s u din amt h minOut = some (s', out)) : PoolEff s s' (netOf (hopInFlows s u din amt h)) := by
  unfold hopIn at hh
  simp only [Option.bind_eq_bind, Option.bind_eq_some_iff] at hh
  obtain ⟨_, _, ⟨s1, after, fee⟩, hfee, hswap⟩ := hh
  obtain ⟨f1, f2⟩ := chargeTakerFee_frame hfee
  obtain ⟨hm, he⟩ := gammSwapIn_eff hswap
  unfold hopInFlows
  rw [hfee, hm]
  exact he.after_frame f1 f2

theorem routeInLoop_eff {u : Nat} {minOut : Int} : ∀ (hops : List HopIn) {s s' : State} {din : Denom} {amt out : Int},
    routeInLoop s u din amt minOut hops = some (s', out) → PoolEff s s' (netOf (routeInFlows s u din amt minOut hops))
  | [], s, s', din, amt, out, h => by
    simp only [routeInLoop] at h; injection h with h; injection h with h1 _; subst h1
    exact (PoolEff.same rfl rfl).congr (fun d => by simp only [routeInFlows, netOf])
  | [hp], s, s', din, amt, out, h => by
    simp only [routeInLoop] at h
    simp only [routeInFlows]
    exact hopIn_eff h
  | hp :: h2 :: hs, s, s', din, amt, out, h => by
    simp only [routeInLoop, Option.bind_eq_bind, Option.bind_eq_some_iff] at h
    obtain ⟨⟨s1, o1⟩, hhop, hrest⟩ := h
    simp only [routeInFlows, hhop]
    exact (hopIn_eff hhop).trans (routeInLoop_eff (h2 :: hs) hrest) (fun d => netOf_append _ _ d)

theorem hopOut_eff {s s' : State} {u : Nat} {h : HopOut} {maxIn paid : Int} {tout : Denom × Int}
    (hh : hopOut s u h maxIn tout = some (s', paid)) : PoolEff s s' (netOf (hopOutFlows h tout)) := by
  unfold hopOut at hh
  simp only [Option.bind_eq_bind, Option.bind_eq_some_iff] at hh
  obtain ⟨⟨s1, a⟩, hswap, ⟨s2, af, fee⟩, hfee, hh⟩ := hh
  injection hh with hh; injection hh with h1 h2; subst h1
  obtain ⟨f1, f2⟩ := chargeTakerFee_frame hfee
  obtain ⟨hm, he⟩ := gammSwapOut_eff hswap
  unfold hopOutFlows
  rw [hm]
  exact he.before_frame f1 f2

theorem routeOutLoop_cons (s : State) (u : Nat) (final : Denom × Int) (h : HopOut) (hs : List HopOut) (e : Int) (es : List Int) :
    routeOutLoop s u final (h :: hs) (e :: es) =
      (hopOut s u h e (toutOf final hs es)).bind fun r => (routeOutLoop r.1 u final hs es).bind fun r2 => some (r2.1, r.2) := by
  cases hs <;> cases es <;> rfl

theorem routeOutLoop_eff {u : Nat} {final : Denom × Int} : ∀ (hops : List HopOut) (es : List Int) {s s' : State} {a : Int},
    routeOutLoop s u final hops es = some (s', a) → PoolEff s s' (netOf (routeOutFlows s u final hops es))
  | [], _, s, s', a, h => by
    simp only [routeOutLoop] at h; injection h with h; injection h with h1 _; subst h1
    exact (PoolEff.same rfl rfl).congr (fun d => by simp only [routeOutFlows, netOf])
  | _ :: _, [], _, _, _, h => by simp only [routeOutLoop] at h; cases h
  | hp :: hs, e :: es, s, s', a, h => by
    rw [routeOutLoop_cons] at h
    simp only [Option.bind_eq_bind, Option.bind_eq_some_iff] at h
    obtain ⟨⟨s1, a1⟩, hhop, ⟨s2, a2⟩, hrest, h⟩ := h
    injection h with h; injection h with h1 _; subst h1
    simp only [routeOutFlows, hhop]
    exact (hopOut_eff hhop).trans (routeOutLoop_eff hs es hrest) (fun d => netOf_append _ _ d)

theorem exitPool_eff {s s' : State} {u id : Nat} {shareIn : Int} {mins cs : Coins} {math : Option Coins}
    (h : exitPool s u id shareIn mins math = some (s', cs)) : math = some cs ∧ PoolEff s s' (netOf [(false, cs)]) := by
  unfold exitPool at h
  simp only [Option.bind_eq_bind, Option.bind_eq_some_iff, require_eq_some, decide_eq_true_eq] at h
  obtain ⟨p, hp, _, _, _, _, ec, hm, ⟨p', ok⟩, hrec, _, _, s1, happ, h⟩ := h
  injection h with h; injection h with h1 h2; subst h1; subst h2
  exact ⟨hm, applyExit_eff hp (fun hok d => recExit_liq hrec hok d) happ⟩

theorem exitSwapLoop_eff {u id : Nat} {dout : Denom} : ∀ (cs : Coins) (ms : List (Option Int)) {s s' : State} {acc t : Int},
    exitSwapLoop s u id dout acc cs ms = some (s', t) → PoolEff s s' (netOf (exitSwapFlows s u id dout cs ms))
  | [], _, s, s', acc, t, h => by
    simp only [exitSwapLoop] at h; injection h with h; injection h with h1 _; subst h1
    exact (PoolEff.same rfl rfl).congr (fun d => by simp only [exitSwapFlows, netOf])
  | (d, a) :: cs, ms, s, s', acc, t, h => by
    unfold exitSwapLoop at h
    unfold exitSwapFlows
    split at h
    · rename_i e; rw [if_pos e]; exact exitSwapLoop_eff cs ms h
    · rename_i e
      rw [if_neg e]
      cases ms with
      | nil => cases h
      | cons m ms' =>
        simp only [Option.bind_eq_bind, Option.bind_eq_some_iff] at h
        obtain ⟨⟨s1, o⟩, hswap, hrest⟩ := h
        simp only [hswap]
        exact (gammSwapIn_eff hswap).2.trans (exitSwapLoop_eff cs ms' hrest) (fun d' => netOf_append _ _ d')

/-- **every successful message changes the liquidity the records report by exactly the net of its `Record…` calls**, as long as
the history stays inside the pool-math contract; pool ids stay distinct.  (`WF`: ids not yet handed out have no record — needed for
pool creation only.) -/
theorem step_eff {s s' : State} {m : Msg} (hwf : WF s) (h : step s m = some s') : PoolEff s s' (netOf (flows s m)) := by
  cases m with
  | createPool u kind liq =>
    simp only [step, createPool, Option.bind_eq_bind, Option.bind_eq_some_iff, require_eq_some] at h
    obtain ⟨_, hv, b1, _, b2, _, b3, _, h⟩ := h
    injection h with h; subst h
    have hnone : getPool s.pools s.nextPoolId = none := hwf s.nextPoolId (Nat.le_refl _)
    refine ⟨fun hc => hc, fun _ d => ?_, fun hd => setPool_nodup _ _ hd⟩
    show sumLiq (setPool s.pools s.nextPoolId _) d = _
    rw [sumLiq_setPool, hnone]
    simp only [flows, netOf, Pool.liq]
    omega
  | joinPool u id sh maxs math =>
    simp only [step, joinPool, Option.bind_eq_bind, Option.bind_eq_some_iff, require_eq_some] at h
    obtain ⟨p, hp, needed, hn, _, _, ⟨so, joined⟩, _, p', hrec, happ⟩ := h
    simp only [flows, hp, Option.bind_some, hn]
    refine applyJoin_eff hp (fun hok d => ?_) happ
    rw [recJoin_liq hrec d]
    have : joined = needed := of_decide_eq_true hok
    rw [this]
  | joinSwapExternAmountIn u id din amt ms math =>
    simp only [step, joinSwapExternAmountIn, Option.bind_eq_bind, Option.bind_eq_some_iff, require_eq_some] at h
    obtain ⟨p, hp, so, _, p', hrec, _, _, _, _, happ⟩ := h
    simp only [flows]
    exact applyJoin_eff hp (fun _ d => recJoin_liq hrec d) happ
  | joinSwapShareAmountOut u id din sh mx math =>
    simp only [step, joinSwapShareAmountOut, Option.bind_eq_bind, Option.bind_eq_some_iff, require_eq_some] at h
    obtain ⟨p, hp, _, _, tin, hm, _, _, _, _, p', hrec, happ⟩ := h
    simp only [flows, hm]
    exact applyJoin_eff hp (fun _ d => recJoin_liq hrec d) happ
  | exitPool u id sh mins math =>
    simp only [step, Option.map_eq_some_iff] at h
    obtain ⟨⟨s1, cs⟩, he, h⟩ := h
    subst h
    obtain ⟨hm, heff⟩ := exitPool_eff he
    simp only [flows, hm]
    exact heff
  | exitSwapShareAmountIn u id dout sh mn math ms =>
    simp only [step, Option.map_eq_some_iff] at h
    obtain ⟨⟨s2, t⟩, he, h⟩ := h
    subst h
    unfold exitSwapShareAmountIn at he
    simp only [Option.bind_eq_bind, Option.bind_eq_some_iff, require_eq_some] at he
    obtain ⟨⟨s1, cs⟩, hexit, ⟨s3, tot⟩, hloop, _, _, he⟩ := he
    injection he with he; injection he with h1 _; subst h1
    simp only [flows, hexit]
    exact (exitPool_eff hexit).2.trans (exitSwapLoop_eff cs ms hloop) (fun d => by
      show netOf ([(false, cs)] ++ exitSwapFlows s1 u id dout cs ms) d = _
      exact netOf_append _ _ d)
  | exitSwapExternAmountOut u id dout amtOut math =>
    simp only [step, exitSwapExternAmountOut, Option.bind_eq_bind, Option.bind_eq_some_iff, require_eq_some] at h
    obtain ⟨p, hp, _, _, si, _, _, hnn, ⟨p', ok⟩, hrec, happ⟩ := h
    simp only [flows]
    refine applyExit_eff hp (fun hok d => ?_) happ
    rw [recExit_liq hrec hok d]
    by_cases e : amtOut = 0
    · simp only [e, if_true, sumOf]; split <;> omega
    · simp only [e, if_false]
  | swapExactAmountIn u din amt mn hops =>
    simp only [step, Option.map_eq_some_iff] at h
    obtain ⟨⟨s1, o⟩, he, h⟩ := h
    subst h
    unfold routeExactAmountIn at he
    split at he
    · cases he
    · simp only [flows]
      exact routeInLoop_eff hops he
  | swapExactAmountOut u mx dout amtOut hops =>
    simp only [step, Option.map_eq_some_iff] at h
    obtain ⟨⟨s1, o⟩, he, h⟩ := h
    subst h
    unfold routeExactAmountOut at he
    simp only [Option.bind_eq_bind, Option.bind_eq_some_iff, require_eq_some] at he
    obtain ⟨_, _, ins, hins, he⟩ := he
    cases ins with
    | nil => cases he
    | cons i0 es =>
      simp only [flows, hins]
      exact routeOutLoop_eff hops (mx :: es) he
  | bankSend u to d amt =>
    simp only [step, bankSend, Option.bind_eq_bind, Option.bind_eq_some_iff] at h
    obtain ⟨b, _, h⟩ := h
    injection h with h; subst h
    exact ⟨fun hc => hc, fun _ d' => by simp only [flows, netOf]; omega, fun hd => hd⟩

/-! ## the invariant of the layered store -/

/-- C02's invariants, distinct pool ids, and — inside the pool-math contract — total liquidity = Σ over the pool records -/
structure GInv (g : GState) : Prop where
  core : Inv g.core
  nodup : (poolIds g.core.pools).Nodup
  tl : g.core.clean = true → ∀ d, g.liquidity d = sumLiq g.core.pools d

theorem applyOpT_inv {g : GState} (h : GInv g) (o : GOp) : GInv (applyOpT g o) := by
  cases o with
  | setMigration recs => exact ⟨h.core, h.nodup, h.tl⟩
  | setGammParams fee => exact ⟨h.core, h.nodup, h.tl⟩
  | op o =>
    cases o with
    | fund u n a =>
      refine ⟨applyOp_inv g.core (.fund u n a) h.core, ?_, ?_⟩
      · show (poolIds (applyOp g.core (.fund u n a)).pools).Nodup
        simp only [applyOp]; split
        · rename_i s' hs; unfold fund at hs
          cases hb : g.core.bank.mint (.user u) (.tok n) a with
          | none => rw [hb] at hs; cases hs
          | some b => rw [hb] at hs; injection hs with hs; subst hs; exact h.nodup
        · exact h.nodup
      · show (applyOp g.core (.fund u n a)).clean = true → ∀ d, aget g.totalLiq d = sumLiq (applyOp g.core (.fund u n a)).pools d
        simp only [applyOp]; split
        · rename_i s' hs; unfold fund at hs
          cases hb : g.core.bank.mint (.user u) (.tok n) a with
          | none => rw [hb] at hs; cases hs
          | some b => rw [hb] at hs; injection hs with hs; subst hs; exact h.tl
        · exact h.tl
    | setParams p => exact ⟨applyOp_inv g.core (.setParams p) h.core, h.nodup, h.tl⟩
    | msg m =>
      show GInv (match stepT g m with | some g' => g' | none => g)
      unfold stepT
      cases hs : step g.core m with
      | none => exact h
      | some c' =>
        simp only [Option.map_some]
        have heff := step_eff h.core.wf hs
        have hinv : Inv c' := by
          have := apply_inv g.core m h.core
          unfold apply at this; rw [hs] at this; exact this
        refine ⟨hinv, heff.nodup h.nodup, fun hc d => ?_⟩
        show aget (applyFlows g.totalLiq (flows g.core m)) d = _
        rw [aget_applyFlows, heff.liq hc d]
        have := h.tl (heff.clean hc) d
        unfold GState.liquidity at this
        omega

theorem runT_inv : ∀ (ops : List GOp) {g : GState}, GInv g → GInv (runT g ops)
  | [], _, h => h
  | o :: os, _, h => runT_inv os (applyOpT_inv h o)

/-- a fresh chain (next pool id `n`) -/
def gInit (n : Nat) : GState := { core := { nextPoolId := n } }

theorem gInit_inv (n : Nat) : GInv (gInit n) :=
  ⟨init_inv n, List.nodup_nil, fun _ _ => rfl⟩

/-! ## the import of an export -/

theorem aget_coinsAdd1 (acc : Coins) (c : Denom × Int) (d : Denom) :
    aget (coinsAdd1 acc c) d = aget acc d + (if c.1 = d then c.2 else 0) := by
  unfold coinsAdd1
  simp only
  split
  · rename_i hz
    rw [aget_aerase]
    split
    · rename_i e; subst e; omega
    · omega
  · rw [aget_aset]
    split
    · rename_i e; subst e; omega
    · omega

theorem aget_foldl_coinsAdd1 (cs : Coins) : ∀ (acc : Coins) (d : Denom),
    aget (cs.foldl coinsAdd1 acc) d = aget acc d + sumOf cs d := by
  induction cs with
  | nil => intro acc d; simp only [List.foldl_nil, sumOf]; omega
  | cons h t ih =>
    intro acc d
    obtain ⟨k, v⟩ := h
    rw [List.foldl_cons, ih, aget_coinsAdd1]
    simp only [sumOf]
    omega

/-- the pool loop of `InitGenesis` on distinct ids: the table is reproduced, the sum is the sum -/
theorem foldl_initPool : ∀ (ps : List (Nat × Pool)) (acc : List (Nat × Pool)) (L : Coins),
    (poolIds (acc ++ ps)).Nodup →
    (ps.foldl initPool (acc, L)).1 = acc ++ ps ∧ ∀ d, aget (ps.foldl initPool (acc, L)).2 d = aget L d + sumLiq ps d
  | [], acc, L, _ => ⟨by simp, fun d => by simp only [List.foldl_nil, sumLiq]; omega⟩
  | (id, p) :: r, acc, L, hn => by
    have hnew : id ∉ poolIds acc := by
      intro m
      simp only [poolIds, List.map_append, List.map_cons] at hn m
      exact (List.nodup_append.mp hn).2.2 id m id List.mem_cons_self rfl
    have e1 : setPool acc id p = acc ++ [(id, p)] := setPool_append_new id p acc hnew
    have e2 : initPool (acc, L) (id, p) = (acc ++ [(id, p)], p.reserves.foldl coinsAdd1 L) := by
      unfold initPool; simp only [e1]
    rw [List.foldl_cons, e2]
    have hn' : (poolIds ((acc ++ [(id, p)]) ++ r)).Nodup := by
      rw [List.append_assoc]; exact hn
    obtain ⟨h1, h2⟩ := foldl_initPool r (acc ++ [(id, p)]) (p.reserves.foldl coinsAdd1 L) hn'
    refine ⟨by rw [h1, List.append_assoc]; rfl, fun d => ?_⟩
    rw [h2 d, aget_foldl_coinsAdd1]
    simp only [sumLiq, Pool.liq]
    omega

/-- **export → import**: with distinct pool ids the imported store is the exported one with the total liquidity REPLACED by the
sum over the pool records -/
theorem gammExportImport_eq {g : GState} (hn : (poolIds g.core.pools).Nodup) :
    (gammExportImport g).core = g.core ∧ (gammExportImport g).nextPoolNumber = g.nextPoolNumber ∧
    (gammExportImport g).poolCreationFee = g.poolCreationFee ∧ (gammExportImport g).migration = g.migration ∧
    ∀ d, (gammExportImport g).liquidity d = sumLiq g.core.pools d := by
  obtain ⟨h1, h2⟩ := foldl_initPool g.core.pools [] [] (by simpa using hn)
  refine ⟨?_, rfl, rfl, rfl, fun d => ?_⟩
  · show { g.core with pools := (g.core.pools.foldl initPool ([], [])).1 } = g.core
    rw [h1]; rfl
  · show aget (g.core.pools.foldl initPool ([], [])).2 d = _
    rw [h2 d]; simp only [aget]; omega

end OsmoVerif.Gamm
