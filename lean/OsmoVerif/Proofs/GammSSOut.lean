/-
C04 (stableswap invariant), part 6: the exact-in chain in pure rational arithmetic.

  * `validLiquidity` (every scaled reserve in [1, 10^34]) and what it gives on the exact reserves;
  * floors of the other assets: `w` against the exact sum of squares;
  * `chain_out`: solver guarantee (with its rounding error) + flooring of the pre-swap reserves + monotonicity
    ⇒ post-swap kernel ≥ pre-swap kernel − explicit error.
-/
import OsmoVerif.Proofs.GammSSSwap

set_option linter.unusedSimpArgs false

namespace OsmoVerif.GammMath.SS
open OsmoVerif.Num OsmoVerif.MathM OsmoVerif.Gen OsmoVerif.Spec

/-! ### `validatePoolLiquidity` -/

theorem validLiquidity_go_spec : ∀ (as : List SSAsset), validLiquidity.go as = .ok () →
    ∀ a ∈ as, a.sf ≠ 0 ∧ 1 ≤ a.amount.tdiv a.sf ∧ a.amount.tdiv a.sf ≤ 10 ^ 34 := by
  intro as
  induction as with
  | nil => intro _ a ha; cases ha
  | cons c t ih =>
    intro h a ha
    rw [validLiquidity.go.eq_2] at h
    split at h
    · cases h
    · rename_i hsf
      dsimp only at h
      split at h
      · cases h
      · rename_i h1
        split at h
        · cases h
        · rename_i h2
          rcases List.mem_cons.mp ha with e | e
          · subst e
            have e1 : Gen.GammMath.StableswapMaxScaledAmtPerAsset = 10 ^ 34 := by decide
            have e2 : Gen.GammMath.StableswapMinScaledAmtPerAsset = 1 := by decide
            rw [e1] at h1; rw [e2] at h2
            exact ⟨hsf, by omega, by omega⟩
          · exact ih h a e

theorem validLiquidity_spec {as : List SSAsset} (h : validLiquidity as = .ok ()) :
    ∀ a ∈ as, a.sf ≠ 0 ∧ 1 ≤ a.amount.tdiv a.sf ∧ a.amount.tdiv a.sf ≤ 10 ^ 34 := by
  unfold validLiquidity at h
  split at h
  · cases h
  · split at h
    · cases h
    · exact validLiquidity_go_spec as h

/-- a truncated quotient ≥ 1 by a positive divisor: the dividend is at least the divisor. -/
theorem le_of_one_le_tdiv {n d : Int} (hd : 0 < d) (h : 1 ≤ n.tdiv d) : d ≤ n := by
  rcases Int.lt_or_le n 0 with hn | hn
  · have := Int.tdiv_nonneg (show (0 : Int) ≤ -n by omega) (Int.le_of_lt hd)
    rw [Int.neg_tdiv] at this; omega
  · obtain ⟨a, _, _⟩ := tdiv_floor hd hn
    have : 1 * d ≤ n.tdiv d * d := Int.mul_le_mul_of_nonneg_right h (Int.le_of_lt hd)
    omega

/-- a positive truncated quotient by a positive divisor has a positive dividend. -/
theorem pos_of_tdiv_pos {n d : Int} (hd : 0 < d) (h : 0 < n.tdiv d) : 0 < n := by
  rcases Int.lt_or_le 0 n with hn | hn
  · exact hn
  · have := Int.tdiv_nonneg (show (0 : Int) ≤ -n by omega) (Int.le_of_lt hd)
    rw [Int.neg_tdiv] at this; omega

/-! ### the other assets -/

/-- the per-asset squared-floor loss, summed: `eps·Σ (2·Zⱼ + eps + 1/2)`. -/
def wErr (Zs : List ℚ) : ℚ := eps * (Zs.map fun z => 2 * z + eps + 1 / 2).sum

theorem wErr_nonneg {Zs : List ℚ} (h : ∀ z ∈ Zs, 0 ≤ z) : 0 ≤ wErr Zs := by
  unfold wErr
  refine mul_nonneg eps_pos.le (List.sum_nonneg fun x hx => ?_)
  obtain ⟨z, hz, rfl⟩ := List.mem_map.mp hx
  have := h z hz
  have := eps_pos
  positivity

theorem others_floor {os : List SSAsset} {rem : List Int}
    (h : List.Forall₂ (fun c r => r = (c.amount * P36).tdiv c.sf) os rem)
    (hpos : ∀ c ∈ os, 0 < c.sf ∧ 0 ≤ c.amount) :
    List.Forall₂ (fun Z z => 0 ≤ z ∧ z ≤ Z ∧ Z < z + eps) (os.map xq) (rem.map rq) := by
  induction h with
  | nil => exact .nil
  | @cons c r os rem hcr _ ih =>
    obtain ⟨hsf, ham⟩ := hpos c (by simp)
    obtain ⟨a1, a2, a3⟩ := scaled_down_rq hsf ham hcr
    rw [List.map_cons, List.map_cons]
    refine .cons ⟨rq_nonneg.mpr a3, a1, a2⟩ (ih fun z hz => hpos z (by simp [hz]))

theorem sumSq_floor_bounds {Zs zs : List ℚ}
    (h : List.Forall₂ (fun Z z => 0 ≤ z ∧ z ≤ Z ∧ Z < z + eps) Zs zs) :
    sumSq zs ≤ sumSq Zs ∧ sumSq Zs + (zs.length : ℚ) * (eps / 2) ≤ sumSq zs + wErr Zs ∧
      zs.length = Zs.length := by
  unfold wErr
  induction h with
  | nil => simp [sumSq]
  | @cons Z z Zs zs hz _ ih =>
    obtain ⟨i1, i2, i3⟩ := ih
    obtain ⟨z0, z1, z2⟩ := hz
    have he := eps_pos
    rw [sumSq_cons, sumSq_cons, List.map_cons, List.sum_cons, List.length_cons, List.length_cons]
    push_cast
    refine ⟨by nlinarith, ?_, by omega⟩
    have : Z ^ 2 ≤ z ^ 2 + eps * (2 * Z + eps) := by nlinarith
    nlinarith

/-- FULL: the solver's `w` against the exact sum of squares `W` of the other assets' exact scaled reserves. -/
theorem w_bounds {os : List SSAsset} {rem : List Int} {w : Int}
    (h : List.Forall₂ (fun c r => r = (c.amount * P36).tdiv c.sf) os rem)
    (hpos : ∀ c ∈ os, 0 < c.sf ∧ 0 ≤ c.amount) (hw : sumSquares rem = some w) :
    rq w ≤ sumSq (os.map xq) + (os.length : ℚ) * (eps / 2) ∧
      sumSq (os.map xq) ≤ rq w + wErr (os.map xq) := by
  obtain ⟨b1, b2, b3⟩ := sumSq_floor_bounds (others_floor h hpos)
  have a := abs_le.mp (sumSquares_rq hw)
  rw [List.length_map] at b2 b3
  rw [List.length_map] at b3
  rw [b3] at a b2
  constructor <;> linarith [a.1, a.2]

/-! ### differences of the kernel -/

theorem kq_sub_x_le {X0 X Y W d : ℚ} (h0 : 0 ≤ X0) (h1 : X0 ≤ X) (h2 : X ≤ X0 + d) (hY : 0 ≤ Y) (hW : 0 ≤ W) :
    kq X Y W - kq X0 Y W ≤ d * (Y * (3 * X ^ 2 + Y ^ 2 + W)) := by
  have e : kq X Y W - kq X0 Y W = (X - X0) * (Y * (X ^ 2 + X * X0 + X0 ^ 2 + Y ^ 2 + W)) := by
    unfold kq; ring
  rw [e]
  have hd : X - X0 ≤ d := by linarith
  have hA : Y * (X ^ 2 + X * X0 + X0 ^ 2 + Y ^ 2 + W) ≤ Y * (3 * X ^ 2 + Y ^ 2 + W) := by
    apply mul_le_mul_of_nonneg_left _ hY
    nlinarith
  have hA0 : 0 ≤ Y * (X ^ 2 + X * X0 + X0 ^ 2 + Y ^ 2 + W) := by
    have : 0 ≤ X := by linarith
    positivity
  exact mul_le_mul hd hA hA0 (by linarith)

theorem solverErr_mono {X0 Y0 Yf Xo X Y Y' : ℚ} (hX0 : 0 ≤ X0) (hY0 : 0 ≤ Y0) (hYf : 0 ≤ Yf)
    (x1 : X0 ≤ X) (y1 : Y0 ≤ Y) (hY' : Yf ≤ Y') (hXo : |Xo| ≤ X0) :
    solverErr X0 Y0 Yf Xo ≤ solverErr X Y Y' X := by
  unfold solverErr
  apply mul_le_mul_of_nonneg_left _ eps_pos.le
  have hX : |X| = X := abs_of_nonneg (by linarith)
  rw [hX]
  have he := eps_pos
  have t1 : X0 * Y0 ≤ X * Y := mul_le_mul x1 y1 hY0 (by linarith)
  have t2 : Yf * (3 / 2 + eps + X0 + 3 / 2 * |Xo|) ≤ Y' * (3 / 2 + eps + X + 3 / 2 * X) := by
    apply mul_le_mul hY' (by linarith) _ (by linarith)
    have := abs_nonneg Xo
    positivity
  linarith

/-- the explicit error of one exact-in swap, in real units of the two-asset kernel, as a function of the PRE-swap
state only; `X`, `Y` the exact scaled out- and in-reserves before the swap, `Zs` the other exact scaled reserves
(the solver refuses `yIn ≥ y`, so the in-reserve it ends on is below `2·Y`):
  * `solverErr X Y (2Y) X`       roundings inside the solver (`cfmmNoV`, `targetK`, `iterK`),
  * `X·2Y·n·eps/2`               half-even squares in `w`,
  * `eps·(Y·(3X²+Y²+W) + X·(X²+3Y²+W))`  the solver ran on the 36-decimal floors of `X` and `Y`,
  * `X·Y·wErr Zs`                … and on the floors of the other reserves. -/
def swapErr (X Y : ℚ) (Zs : List ℚ) : ℚ :=
  solverErr X Y (2 * Y) X + X * (2 * Y) * ((Zs.length : ℚ) * (eps / 2))
    + eps * (Y * (3 * X ^ 2 + Y ^ 2 + sumSq Zs) + X * (X ^ 2 + 3 * Y ^ 2 + sumSq Zs))
    + X * Y * wErr Zs

/-- the chain, in pure rational arithmetic. -/
theorem chain_out {X Y X' Y' W X0 Y0 W0 Yf Xo m η : ℚ}
    (hsol : kq X0 Y0 W0 - solverErr X0 Y0 Yf Xo ≤ kq (X0 - Xo) Yf W0)
    (hX0 : 0 < X0) (hY0 : 0 < Y0) (hXf : 0 < X0 - Xo) (hYf : 0 < Yf) (hXo : |Xo| ≤ X0) (hXo0 : 0 ≤ Xo)
    (x1 : X0 ≤ X) (x2 : X ≤ X0 + eps) (y1 : Y0 ≤ Y) (y2 : Y ≤ Y0 + eps)
    (hX' : X0 - Xo ≤ X') (hY' : Yf ≤ Y') {Yb : ℚ} (hYb : Yf ≤ Yb)
    (w1 : W0 ≤ W + m) (w2 : W ≤ W0 + η) (hm : 0 ≤ m) (hη : 0 ≤ η) (hW : 0 ≤ W) :
    kq X Y W - (solverErr X Y Yb X + X * Yb * m
        + eps * (Y * (3 * X ^ 2 + Y ^ 2 + W) + X * (X ^ 2 + 3 * Y ^ 2 + W)) + X * Y * η) ≤ kq X' Y' W := by
  have he := eps_pos
  have hX : 0 < X := by linarith
  have hY : 0 < Y := by linarith
  -- (1) monotonicity from the solver point to the true post-swap reserves
  have s1 : kq (X0 - Xo) Yf W ≤ kq X' Y' W := kq_mono hXf.le hYf.le hW hX' hY' le_rfl
  -- (2) w against W
  have s2 : kq (X0 - Xo) Yf W0 - X * Yb * m ≤ kq (X0 - Xo) Yf W := by
    have a := kq_mono_w hXf.le hYf.le (show W0 - m ≤ W by linarith)
    rw [kq_sub_w] at a
    have hxo : X0 - Xo ≤ X := by linarith
    have : (X0 - Xo) * Yf * m ≤ X * Yb * m :=
      mul_le_mul_of_nonneg_right (mul_le_mul hxo hYb hYf.le hX.le) hm
    linarith
  -- (3) the solver's rounding error, at the true reserves
  have s3 := solverErr_mono hX0.le hY0.le hYf.le x1 y1 hYb hXo
  -- (4) the pre-swap floors
  have p1 := kq_sub_x_le hX0.le x1 x2 hY.le hW
  have p2 : kq X0 Y W - kq X0 Y0 W ≤ eps * (X0 * (3 * Y ^ 2 + X0 ^ 2 + W)) := by
    rw [kq_symm X0 Y, kq_symm X0 Y0]; exact kq_sub_x_le hY0.le y1 y2 hX0.le hW
  have p2' : X0 * (3 * Y ^ 2 + X0 ^ 2 + W) ≤ X * (X ^ 2 + 3 * Y ^ 2 + W) := by
    apply mul_le_mul x1 _ (by positivity) hX.le
    nlinarith
  have p2'' := mul_le_mul_of_nonneg_left p2' he.le
  have p3 : kq X0 Y0 W - kq X0 Y0 W0 ≤ X * Y * η := by
    have e : kq X0 Y0 W - kq X0 Y0 W0 = X0 * Y0 * (W - W0) := by unfold kq; ring
    rw [e]
    have t : X0 * Y0 * (W - W0) ≤ X0 * Y0 * η := mul_le_mul_of_nonneg_left (by linarith) (by positivity)
    have t' : X0 * Y0 * η ≤ X * Y * η :=
      mul_le_mul_of_nonneg_right (mul_le_mul x1 y1 hY0.le hX.le) hη
    linarith
  have e4 : eps * (Y * (3 * X ^ 2 + Y ^ 2 + W) + X * (X ^ 2 + 3 * Y ^ 2 + W))
      = eps * (Y * (3 * X ^ 2 + Y ^ 2 + W)) + eps * (X * (X ^ 2 + 3 * Y ^ 2 + W)) := by ring
  linarith

end OsmoVerif.GammMath.SS
