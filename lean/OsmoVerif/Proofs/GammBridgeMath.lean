/-
Bridge C02 ⟷ C04, part 1: facts about the ACTUAL pool math of Model/Gamm that the keeper bookkeeping of
Model/GammKeeper relies on (its pool-math "contract"):
  * balancer exact-in swap: the integer paid out vs. the whole out-reserve, in terms of the value `Pow` returned;
  * `Pow` with exponent exactly 1 (equal weights) is the identity, weight ratio of equal weights is exactly 1;
  * `CalcExitPool`: the exit coins are a sub-list (same order) of the liquidity, every amount below its reserve;
  * balancer `ExitSwapExactAmountOut`: the amount out is strictly below the reserve;
  * `MaximalExactRatioJoin` on the coins computed by the keeper's `getMaximalNoSwapLPAmount` uses ALL of them.
-/
import OsmoVerif.Proofs.GammMathSwap
import OsmoVerif.Props.C04

namespace OsmoVerif.GammMath
open OsmoVerif.Num OsmoVerif.MathM OsmoVerif.Gen OsmoVerif.Spec

/-! ## `Dec.quo` upper bound (mirror of `Dec_quo_ge`) -/

theorem Dec_quo_le {a b r q : Int} (h : Dec.quo a b = some r) (hb : 0 < b) (hq : a ≤ q * b) : r ≤ q * P18 := by
  unfold Dec.quo at h
  rw [if_neg (by omega)] at h
  rw [chkDec_some h]
  apply chopRound_le
  have hP : (0 : Int) < P18 * P18 := Int.mul_pos P18_pos P18_pos
  have h1 : a * (P18 * P18) ≤ q * P18 * P18 * b := by nlinarith
  by_contra hc
  have hlt : q * P18 * P18 + 1 ≤ (a * (P18 * P18)).tdiv b := by omega
  by_cases hn : 0 ≤ a * (P18 * P18)
  · obtain ⟨c, _, _⟩ := tdiv_floor hb hn
    have : (q * P18 * P18 + 1) * b ≤ (a * (P18 * P18)).tdiv b * b := Int.mul_le_mul_of_nonneg_right hlt (by omega)
    rw [Int.add_mul] at this
    omega
  · have : (a * (P18 * P18)).tdiv b ≤ 0 := by
      have := Int.tdiv_nonneg (show (0 : Int) ≤ -(a * (P18 * P18)) by omega) (Int.le_of_lt hb)
      rw [Int.neg_tdiv] at this; omega
    have hq0 : 0 ≤ q * P18 * P18 ∨ q * P18 * P18 < 0 := by omega
    rcases hq0 with hq0 | hq0
    · omega
    · -- both negative: tdiv rounds towards zero, so tdiv·b ≥ numerator … but tdiv ≥ q·P18²+1 contradicts numerator ≤ q·P18²·b
      obtain ⟨e, _, hneg⟩ := tdiv_tmod_spec (a * (P18 * P18)) b hb
      have hneg := hneg (by omega)
      have : (q * P18 * P18 + 1) * b ≤ (a * (P18 * P18)).tdiv b * b := Int.mul_le_mul_of_nonneg_right hlt (by omega)
      rw [Int.add_mul] at this
      omega

/-- a positive numerator over a positive divisor: the quotient is non-negative. -/
theorem Dec_quo_nonneg_pos {a b r : Int} (h : Dec.quo a b = some r) (ha : 0 ≤ a) (hb : 0 < b) : 0 ≤ r := by
  have := Dec_quo_ge (q := 0) h hb (by omega)
  omega

/-- `x / x = 1` exactly. -/
theorem Dec_quo_same {a r : Int} (h : Dec.quo a a = some r) (ha : 0 < a) : r = P18 := by
  have h1 := Dec_quo_ge (q := 1) h ha (by omega)
  have h2 := Dec_quo_le (q := 1) h ha (by omega)
  omega

/-! ## `Pow` with exponent exactly one -/

/-- `Pow(y, 1) = y` exactly (integer part 1, zero fractional part, `Power(1)` multiplies by one). -/
theorem pow_one_exp {y : Int} (h0 : 0 < y) (h2 : y < 2 * P18) : pow y P18 = some y := by
  have hup : y ≤ decUpper ∧ -decUpper ≤ y := by
    have : 2 * P18 ≤ decUpper := by decide
    omega
  have hmul : Dec.mul y P18 = some y := by
    unfold Dec.mul chkDec
    rw [chopRound_mul_exact, if_pos hup]
  unfold pow
  rw [if_neg (by omega), if_neg (by omega)]
  have hip : P18.tdiv P18 = 1 := by decide
  have hfrac : Dec.sub P18 (1 * P18) = some 0 := by decide
  simp only [hip, hfrac, Option.bind_some, bind]
  have hdp : decPower y (1 : Int).toNat = some y := by
    show decPower y 1 = some y
    have hl : decPowLoop 64 1 y P18 = some (y, P18) := rfl
    unfold decPower
    rw [if_neg (by decide)]
    simp only [hl, Option.bind_some, bind]
    exact hmul
  rw [if_neg (by decide), hdp]
  simp

/-! ## balancer exact-in swap against the whole out-reserve -/

/-- FULL. `CalcOutAmtGivenIn` on a pool whose out-reserve `R` is positive, with `pw` the value `Pow` returned for the
base `resIn/(resIn + in·(1−spread))` and the exponent `wIn/wOut` (both 18-decimal quotients):
the integer paid out is BELOW the reserve iff `pw > 0`; it EQUALS the whole reserve iff `pw ≤ 0` and `−pw·R < 10¹⁸`;
it EXCEEDS it otherwise (then the record update panics and the swap fails). -/
theorem balCalcOut_vs_reserve {p : BalPool} {dIn dOut : String} {amt spread t : Int}
    (h : balCalcOut p [(dIn, amt)] dOut spread = .ok t) :
    ∃ aIn aOut wr y pw, findAsset p.assets dIn = some aIn ∧ findAsset p.assets dOut = some aOut ∧
      Dec.quo (toDec aIn.weight) (toDec aOut.weight) = some wr ∧
      Dec.quo (toDec aIn.amount) (amt * (P18 - spread) + toDec aIn.amount) = some y ∧
      pow y wr = some pw ∧
      (0 < aOut.amount →
        (t < aOut.amount ↔ 0 < pw) ∧
        (t = aOut.amount ↔ pw ≤ 0 ∧ -pw * aOut.amount < P18) ∧
        (aOut.amount < t ↔ P18 ≤ -pw * aOut.amount)) := by
  obtain ⟨aIn, aOut, wr, y, pw, h1, h2, h3, h4, h5, t0, t1, t2⟩ := Props.C04.balCalcOut_spec h
  refine ⟨aIn, aOut, wr, y, pw, h1, h2, h3, h4, h5, fun hR => ?_⟩
  have hP := P18_pos
  generalize aOut.amount = R at *
  have e1 : (P18 - pw) * R = P18 * R - pw * R := by rw [Int.sub_mul]
  have e2 : (t + 1) * P18 = t * P18 + P18 := by rw [Int.add_mul, Int.one_mul]
  have e3 : -pw * R = -(pw * R) := Int.neg_mul ..
  rw [e1] at t1 t2; rw [e2] at t2; rw [e3]
  have hpos : 0 < pw → 0 < pw * R := fun hp => Int.mul_pos hp hR
  have hneg : pw ≤ 0 → pw * R ≤ 0 := fun hp => Int.mul_nonpos_of_nonpos_of_nonneg hp (by omega)
  have hlt : t < R → t * P18 + P18 ≤ R * P18 := fun hh => by
    have := Int.mul_le_mul_of_nonneg_right (show t + 1 ≤ R by omega) (Int.le_of_lt hP)
    rw [Int.add_mul, Int.one_mul] at this; exact this
  have hge : R ≤ t → R * P18 ≤ t * P18 := fun hh => Int.mul_le_mul_of_nonneg_right hh (Int.le_of_lt hP)
  have hgt : R < t → R * P18 + P18 ≤ t * P18 := fun hh => by
    have := Int.mul_le_mul_of_nonneg_right (show R + 1 ≤ t by omega) (Int.le_of_lt hP)
    rw [Int.add_mul, Int.one_mul] at this; exact this
  have hc : P18 * R = R * P18 := Int.mul_comm ..
  rw [hc] at t1 t2
  refine ⟨⟨fun hh => ?_, fun hh => ?_⟩, ⟨fun hh => ?_, fun hh => ?_⟩, ⟨fun hh => ?_, fun hh => ?_⟩⟩
  · by_contra hp
    have := hneg (by omega); have := hlt hh; omega
  · by_contra hc'
    have := hpos hh; have := hge (by omega); omega
  · subst hh
    constructor
    · by_contra hp
      have := hpos (by omega); omega
    · omega
  · have hR' : ¬ t < R := fun hh' => by have := hlt hh'; have := hneg hh.1; omega
    have hR'' : ¬ R < t := fun hh' => by have := hgt hh'; omega
    omega
  · have := hgt hh; omega
  · by_contra hc'
    have := hlt
    rcases Int.lt_or_le t R with h' | h'
    · have := hlt h'
      have : 0 < pw ∨ pw ≤ 0 := by omega
      rcases this with hp | hp
      · have := hpos hp; omega
      · have := hneg hp; omega
    · have : t = R := by omega
      subst this; omega

/-- the F13 characterisation in one line: a successful exact-in calculation returns EXACTLY the whole (positive)
out-reserve only if `Pow` returned a non-positive value. -/
theorem balCalcOut_entire_reserve_pow_nonpos {p : BalPool} {dIn dOut : String} {amt spread t : Int} {aOut : BalAsset}
    (h : balCalcOut p [(dIn, amt)] dOut spread = .ok t) (ho : findAsset p.assets dOut = some aOut)
    (hR : 0 < aOut.amount) (hall : aOut.amount ≤ t) :
    ∃ y wr pw, pow y wr = some pw ∧ pw ≤ 0 := by
  obtain ⟨_, aOut', wr, y, pw, _, h2, _, _, h5, h6⟩ := balCalcOut_vs_reserve h
  rw [ho] at h2; injection h2 with h2; subst h2
  refine ⟨y, wr, pw, h5, ?_⟩
  have := (h6 hR).1
  by_contra hc
  have := this.2 (by omega)
  omega

/-- FULL, unconditional for EQUAL WEIGHTS: the exponent is exactly 1, `Pow` is the identity on the (positive) base,
so an equal-weight balancer swap NEVER pays out a whole reserve. -/
theorem balCalcOut_lt_reserve_equal_weights {p : BalPool} {dIn dOut : String} {amt spread t : Int} {aIn aOut : BalAsset}
    (h : balCalcOut p [(dIn, amt)] dOut spread = .ok t)
    (hi : findAsset p.assets dIn = some aIn) (ho : findAsset p.assets dOut = some aOut)
    (hw : aIn.weight = aOut.weight) (hw0 : 0 < aIn.weight) (hR : 0 < aOut.amount) : t < aOut.amount := by
  obtain ⟨aIn', aOut', wr, y, pw, h1, h2, h3, h4, h5, h6⟩ := balCalcOut_vs_reserve h
  rw [hi] at h1; injection h1 with h1; subst h1
  rw [ho] at h2; injection h2 with h2; subst h2
  rw [hw] at h3
  have hwr : wr = P18 := Dec_quo_same h3 (by unfold toDec; exact Int.mul_pos (hw ▸ hw0) P18_pos)
  subst hwr
  obtain ⟨hy0, hy2⟩ := pow_some_domain h5
  rw [pow_one_exp hy0 hy2] at h5
  injection h5 with h5; subst h5
  exact ((h6 hR).1).2 hy0

/-! ## proportional exit: the exit coins are a sub-list of the liquidity, every amount below its reserve -/

theorem exitCoins_sublist (ratio : Int) : ∀ (liq cs : Coins), exitCoins ratio liq = .ok cs →
    (cs.map Prod.fst).Sublist (liq.map Prod.fst) := by
  intro liq
  induction liq with
  | nil => intro cs h; simp [exitCoins, pure, Except.pure] at h; subst h; exact List.Sublist.slnil
  | cons c liq ih =>
    intro cs h
    obtain ⟨d0, a0⟩ := c
    unfold exitCoins at h
    cases he : exitAmount ratio a0 with
    | none => simp [he, pn, bind, Except.bind] at h
    | some x0 =>
      simp only [he, pn, bind, Except.bind] at h
      split at h
      · exact (ih cs h).cons _
      · split at h
        · cases h
        · cases hrest : exitCoins ratio liq with
          | error e => simp [hrest] at h
          | ok rest =>
            simp only [hrest, pure, Except.pure] at h
            injection h with h; subst h
            exact (ih rest hrest).cons_cons _

/-- FULL (`exit_in_contract`, pool-math side). `CalcExitPool` never pays a whole reserve and never repeats or
reorders a denom: the exit coins' denoms are a sub-list of the liquidity's, every amount is positive and strictly
below the reserve it is taken from. No hypothesis on the pool at all. -/
theorem calcExitPool_contract {liq : Coins} {T sh fee : Int} {cs : Coins} (h : calcExitPool liq T sh fee = .ok cs) :
    (cs.map Prod.fst).Sublist (liq.map Prod.fst) ∧
    ∀ d x, (d, x) ∈ cs → ∃ a, (d, a) ∈ liq ∧ 0 < x ∧ x < a := by
  unfold calcExitPool at h
  split at h
  · cases h
  · cases hr : refundedShares sh fee with
    | none => simp [hr, pn, bind, Except.bind] at h
    | some refunded =>
      cases hq : Dec.quoInt refunded T with
      | none => simp [hr, hq, pn, bind, Except.bind] at h
      | some ratio =>
        simp only [hr, hq, pn, bind, Except.bind] at h
        refine ⟨exitCoins_sublist ratio liq cs h, fun d x hm => ?_⟩
        obtain ⟨a, ha, hx0, hxa, _⟩ := exitCoins_spec ratio liq cs h d x hm
        exact ⟨a, ha, hx0, hxa⟩

/-! ## balancer `ExitSwapExactAmountOut`: the amount out is strictly below the reserve -/

theorem feeRatio_bounds {nw spread fr : Int} (h : feeRatio nw spread = some fr)
    (hnw : 0 ≤ nw ∧ nw ≤ P18) (hs : 0 ≤ spread ∧ spread ≤ P18) : 0 ≤ fr ∧ fr ≤ P18 := by
  unfold feeRatio at h
  cases h1 : Dec.sub P18 nw with
  | none => simp [h1] at h
  | some a =>
    cases h2 : Dec.mul a spread with
    | none => simp [h1, h2] at h
    | some b =>
      simp only [h1, h2, Option.bind_some, bind] at h
      have ha := Dec_sub_spec h1
      have hfr := Dec_sub_spec h
      unfold Dec.mul at h2
      have hb := chkDec_some h2
      have hb0 : 0 ≤ b := by
        rw [hb]; apply chopRound_ge; rw [Int.zero_mul]
        exact Int.mul_nonneg (by omega) hs.1
      have hb1 : b ≤ P18 := by
        rw [hb]; apply chopRound_le
        have : a * spread ≤ P18 * spread := Int.mul_le_mul_of_nonneg_right (by omega) hs.1
        have : P18 * spread ≤ P18 * P18 := Int.mul_le_mul_of_nonneg_left hs.2 (Int.le_of_lt P18_pos)
        omega
      omega

/-- FULL. A successful `ExitSwapExactAmountOut` on an asset with positive reserve, positive weight not above the
total weight, and a swap fee in [0, 1]: the amount taken out is STRICTLY below the reserve (the `Pow` base
`(reserve − out/feeRatio)/reserve` must be positive). -/
theorem balExitSwapOut_lt_reserve {p p' : BalPool} {denom : String} {amtOut maxShares s : Int} {a : BalAsset}
    (h : balExitSwapOut p denom amtOut maxShares = .ok (s, p'))
    (ha : findAsset p.assets denom = some a) (hR : 0 < a.amount)
    (hw : 0 < a.weight) (hW : a.weight ≤ p.totalWeight) (hfee : 0 ≤ p.swapFee ∧ p.swapFee ≤ P18) :
    amtOut < a.amount := by
  unfold balExitSwapOut at h
  split at h
  · cases h
  · rw [ha] at h
    simp only at h
    cases hnw : Dec.quo (toDec a.weight) (toDec p.totalWeight) with
    | none => simp [hnw, pn, bind, Except.bind] at h
    | some nw =>
      cases hx : sharesInGivenSingleOut (toDec a.amount) nw (toDec p.totalShares) (toDec amtOut) p.swapFee p.exitFee with
      | none => simp [hnw, hx, pn, bind, Except.bind] at h
      | some x =>
        clear h
        have hP := P18_pos
        have hWpos : 0 < toDec p.totalWeight := by unfold toDec; exact Int.mul_pos (by omega) hP
        have hnw0 : 0 ≤ nw := Dec_quo_nonneg_pos hnw (by unfold toDec; exact Int.mul_nonneg (by omega) (by omega)) hWpos
        have hnw1 : nw ≤ P18 := by
          have := Dec_quo_le (q := 1) hnw hWpos (by
            unfold toDec; rw [Int.one_mul]; exact Int.mul_le_mul_of_nonneg_right hW (by omega))
          omega
        unfold sharesInGivenSingleOut at hx
        cases hfr : feeRatio nw p.swapFee with
        | none => simp [hfr] at hx
        | some fr =>
          cases hof : Dec.quo (toDec amtOut) fr with
          | none => simp [hfr, hof] at hx
          | some outFee =>
            cases hpost : Dec.sub (toDec a.amount) outFee with
            | none => simp [hfr, hof, hpost] at hx
            | some post =>
              cases hsh : solveCFI post (toDec a.amount) nw (toDec p.totalShares) P18 with
              | none => simp [hfr, hof, hpost, hsh] at hx
              | some sharesIn =>
                obtain ⟨hfr0, hfr1⟩ := feeRatio_bounds hfr ⟨hnw0, hnw1⟩ hfee
                have hfrne : fr ≠ 0 := by
                  intro hz; subst hz; unfold Dec.quo at hof; rw [if_pos rfl] at hof; cases hof
                by_cases hneg : amtOut < 0
                · omega
                · have hge : amtOut * P18 ≤ outFee := by
                    apply Dec_quo_ge hof (by omega)
                    unfold toDec
                    exact Int.mul_le_mul_of_nonneg_left hfr1 (by omega)
                  obtain ⟨wr, y, pw, _, hy, hpw, _⟩ := solveCFI_spec hsh
                  obtain ⟨hy0, _⟩ := pow_some_domain hpw
                  have hRd : 0 < toDec a.amount := by unfold toDec; exact Int.mul_pos hR hP
                  have hpost0 : 0 < post := by
                    by_contra hc
                    have := Dec_quo_le (q := 0) hy hRd (by omega)
                    omega
                  have := Dec_sub_spec hpost
                  have hlt : amtOut * P18 < a.amount * P18 := by unfold toDec at this; omega
                  exact lt_of_mul_lt_mul_pos hP hlt

/-! ## `MaximalExactRatioJoin` on the coins the keeper computed uses all of them -/

theorem foldl_min_mem (rs : List Int) (m : Int) :
    rs.foldl (fun m r => if r < m then r else m) m = m ∨ rs.foldl (fun m r => if r < m then r else m) m ∈ rs := by
  induction rs generalizing m with
  | nil => exact Or.inl rfl
  | cons r rs ih =>
    simp only [List.foldl_cons]
    by_cases hrm : r < m
    · rw [if_pos hrm]
      rcases ih r with h | h
      · rw [h]; exact Or.inr (List.mem_cons_self ..)
      · exact Or.inr (List.mem_cons_of_mem _ h)
    · rw [if_neg hrm]
      rcases ih m with h | h
      · exact Or.inl h
      · exact Or.inr (List.mem_cons_of_mem _ h)

/-- every ratio is the floor of `c·10^18 / res`, both sides. -/
theorem shareRatios_floor (liq : Coins) :
    ∀ (cs : Coins) (rs : List Int), shareRatios liq cs = some rs →
      (∀ c ∈ cs, 0 < amountOf liq c.1 ∧ 0 ≤ c.2) →
      List.Forall₂ (fun (c : String × Int) r => r * amountOf liq c.1 ≤ c.2 * P18 ∧ c.2 * P18 < (r + 1) * amountOf liq c.1) cs rs := by
  intro cs
  induction cs with
  | nil => intro rs h _; simp [shareRatios] at h; subst h; exact .nil
  | cons c cs ih =>
    intro rs h hpos
    unfold shareRatios at h
    cases hq : Dec.quoInt (toDec c.2) (amountOf liq c.1) with
    | none => simp [hq] at h
    | some r =>
      cases hrest : shareRatios liq cs with
      | none => simp [hq, hrest] at h
      | some rs' =>
        simp only [hq, hrest, Option.bind_some, bind, pure] at h
        injection h with h; subst h
        have hc := hpos c (List.mem_cons_self ..)
        refine .cons ?_ (ih rs' hrest fun c' hc' => hpos c' (List.mem_cons_of_mem _ hc'))
        unfold Dec.quoInt at hq
        rw [if_neg (by omega)] at hq
        injection hq with hq; subst hq
        have hn : 0 ≤ toDec c.2 := Int.mul_nonneg hc.2 (by decide)
        obtain ⟨a, b, _⟩ := tdiv_floor hc.1 hn
        exact ⟨a, b⟩

/-- one coin whose offered amount is `⌈ratio·res⌉` for a `ratio` not above the minimal share ratio: all of it is used. -/
theorem usedAmount_all {res c r m ratio u : Int} (hres : 0 < res)
    (hr : r * res ≤ c * P18) (hmr : m ≤ r) (hm0 : 0 ≤ m) (hratio : ratio ≤ m)
    (hneed : (c - 1) * P18 < ratio * res)
    (hu : usedAmount res m r c = some u) : u = c := by
  have hP := P18_pos
  unfold usedAmount at hu
  split at hu
  · injection hu with hu; exact hu.symm
  · cases hx : Dec.mulInt m res with
    | none => simp [hx] at hu
    | some x =>
      have hxv := Dec_mulInt_spec hx
      cases hcl : Dec.ceil x with
      | none => simp [hx, hcl] at hu
      | some cl =>
        simp only [hx, hcl, Option.bind_some] at hu
        have hx0 : 0 ≤ x := by rw [hxv]; exact Int.mul_nonneg hm0 (by omega)
        obtain ⟨k, hk, hk1, hk2, hk0⟩ := Dec_ceil_spec hcl hx0
        have hut := Dec_truncateInt_spec hu
        have huk : u = k := by rw [hut, hk]; exact Int.mul_tdiv_cancel _ (by omega)
        subst huk
        rw [hxv] at hk1 hk2
        have h1 : m * res ≤ c * P18 := Int.le_trans (Int.mul_le_mul_of_nonneg_right hmr (by omega)) hr
        have h2 : ratio * res ≤ m * res := Int.mul_le_mul_of_nonneg_right hratio (by omega)
        have a1 : (u - 1) * P18 < c * P18 := by omega
        have a2 : (c - 1) * P18 < u * P18 := by omega
        have := lt_of_mul_lt_mul_pos hP a1
        have := lt_of_mul_lt_mul_pos hP a2
        omega

theorem usedAmounts_all (liq : Coins) (m ratio : Int) (hm0 : 0 ≤ m) (hratio : ratio ≤ m) :
    ∀ (cs : Coins) (rs us : List Int), usedAmounts liq m cs rs = some us →
      (∀ c ∈ cs, 0 < amountOf liq c.1 ∧ (c.2 - 1) * P18 < ratio * amountOf liq c.1) →
      List.Forall₂ (fun (c : String × Int) r => r * amountOf liq c.1 ≤ c.2 * P18 ∧ c.2 * P18 < (r + 1) * amountOf liq c.1) cs rs →
      (∀ r ∈ rs, m ≤ r) → us = cs.map (·.2) := by
  intro cs
  induction cs with
  | nil =>
    intro rs us h _ hf _
    cases hf
    simp [usedAmounts] at h; subst h; rfl
  | cons c cs ih =>
    intro rs us h hpos hf hmin
    cases hf with
    | cons hr hrest =>
      rename_i r rs'
      unfold usedAmounts at h
      cases hu : usedAmount (amountOf liq c.1) m r c.2 with
      | none => simp [hu] at h
      | some u =>
        cases hus : usedAmounts liq m cs rs' with
        | none => simp [hu, hus] at h
        | some us' =>
          simp only [hu, hus, Option.bind_some, bind, pure] at h
          injection h with h; subst h
          have hc := hpos c (List.mem_cons_self ..)
          have e1 := usedAmount_all hc.1 hr.1 (hmin r (List.mem_cons_self ..)) hm0 hratio hc.2 hu
          have e2 := ih rs' us' hus (fun c' hc' => hpos c' (List.mem_cons_of_mem _ hc')) hrest
              (fun r' hr' => hmin r' (List.mem_cons_of_mem _ hr'))
          rw [e1, e2]; rfl

theorem forall₂_mem_right' {α β : Type} {R : α → β → Prop} {l₁ : List α} {l₂ : List β}
    (h : List.Forall₂ R l₁ l₂) {b : β} (hb : b ∈ l₂) : ∃ a, a ∈ l₁ ∧ R a b := forall₂_mem_right h hb

/-- FULL (`join_in_contract`, pool-math side). If every offered amount is `⌈ratio·reserve⌉` (18-decimal `ratio ≥ 0`,
positive reserves) — which is exactly what the keeper's `getMaximalNoSwapLPAmount` computes — then
`MaximalExactRatioJoin` uses ALL the offered tokens of every coin. -/
theorem maximalExactRatioJoin_uses_all {liq : Coins} {T : Int} {tokensIn : Coins} {ratio shares : Int} {used : List Int}
    (h : maximalExactRatioJoin liq T tokensIn = .ok (shares, used)) (hr0 : 0 ≤ ratio)
    (hneed : ∀ c ∈ tokensIn, 0 < amountOf liq c.1 ∧ 0 ≤ c.2 ∧
      ratio * amountOf liq c.1 ≤ c.2 * P18 ∧ (c.2 - 1) * P18 < ratio * amountOf liq c.1) :
    used = tokensIn.map (·.2) := by
  unfold maximalExactRatioJoin at h
  cases hrs : shareRatios liq tokensIn with
  | none => simp [hrs, pn] at h; cases h
  | some rs =>
    have hf := shareRatios_floor liq tokensIn rs hrs (fun c hc => ⟨(hneed c hc).1, (hneed c hc).2.1⟩)
    have hmin : ∀ r ∈ rs, minRatio rs ≤ r := fun r hr => minRatio_le_mem hr
    simp only [hrs, pn, bind, Except.bind] at h
    split at h
    · cases h
    · rename_i hne
      cases hsh : (Dec.mulInt (minRatio rs) T).bind Dec.truncateInt with
      | none => simp [hsh] at h
      | some s =>
        simp only [hsh] at h
        split at h
        · injection h with h; injection h with _ h2; exact h2.symm
        · cases hus : usedAmounts liq (minRatio rs) tokensIn rs with
          | none => simp [hus] at h
          | some us =>
            simp only [hus] at h
            injection h with h; injection h with _ h2; subst h2
            -- the minimal ratio is one of the ratios, hence ≥ `ratio`
            have hmem : minRatio rs ∈ rs := by
              rcases foldl_min_mem rs GammMath.MaxSortableDec with hm | hm
              · exact absurd hm hne
              · exact hm
            obtain ⟨c, hc, hcr⟩ := forall₂_mem_right hf hmem
            have hcn := hneed c hc
            have hge : ratio ≤ minRatio rs := by
              have : ratio * amountOf liq c.1 < (minRatio rs + 1) * amountOf liq c.1 := by omega
              have := lt_of_mul_lt_mul_pos hcn.1 this
              omega
            exact usedAmounts_all liq _ ratio (by omega) hge tokensIn rs _ hus
              (fun c' hc' => ⟨(hneed c' hc').1, (hneed c' hc').2.2.2⟩) hf hmin

theorem joinedCoins_all : ∀ (cs : Coins), (∀ c ∈ cs, c.2 ≠ 0) → joinedCoins cs (cs.map (·.2)) = cs
  | [], _ => rfl
  | c :: cs, h => by
    have hc := h c (List.mem_cons_self ..)
    have ih := joinedCoins_all cs (fun c' hc' => h c' (List.mem_cons_of_mem _ hc'))
    unfold joinedCoins at ih ⊢
    simp only [List.map_cons, List.zip_cons_cons, List.filterMap_cons, hc, if_false, ih]

/-- balancer `CalcJoinPoolNoSwapShares` on the keeper's needed coins joins exactly those coins. -/
theorem balCalcJoinNoSwap_joins_needed {p : BalPool} {tokensIn joined : Coins} {ratio shares : Int}
    (h : balCalcJoinNoSwap p tokensIn = .ok (shares, joined)) (hr0 : 0 ≤ ratio)
    (hneed : ∀ c ∈ tokensIn, 0 < amountOf (balLiquidity p) c.1 ∧ 0 < c.2 ∧
      ratio * amountOf (balLiquidity p) c.1 ≤ c.2 * P18 ∧ (c.2 - 1) * P18 < ratio * amountOf (balLiquidity p) c.1) :
    joined = tokensIn := by
  unfold balCalcJoinNoSwap at h
  split at h
  · cases h
  · split at h
    · cases h
    · cases hm : maximalExactRatioJoin (balLiquidity p) p.totalShares tokensIn with
      | error e => simp [hm, bind, Except.bind] at h
      | ok r =>
        obtain ⟨s, used⟩ := r
        simp only [hm, bind, Except.bind] at h
        have hu := maximalExactRatioJoin_uses_all hm hr0 (fun c hc => ⟨(hneed c hc).1, by have := (hneed c hc).2.1; omega, (hneed c hc).2.2⟩)
        split at h
        · cases h
        · injection h with h; injection h with _ h2
          rw [← h2, hu]
          exact joinedCoins_all tokensIn (fun c hc => by have := (hneed c hc).2.1; omega)

/-- stableswap `CalcJoinPoolNoSwapShares` likewise. -/
theorem ssCalcJoinNoSwap_joins_needed {p : SSPool} {tokensIn joined : Coins} {ratio shares : Int}
    (h : ssCalcJoinNoSwap p tokensIn = .ok (shares, joined)) (hr0 : 0 ≤ ratio)
    (hneed : ∀ c ∈ tokensIn, 0 < amountOf (ssLiquidity p) c.1 ∧ 0 < c.2 ∧
      ratio * amountOf (ssLiquidity p) c.1 ≤ c.2 * P18 ∧ (c.2 - 1) * P18 < ratio * amountOf (ssLiquidity p) c.1) :
    joined = tokensIn := by
  unfold ssCalcJoinNoSwap at h
  split at h
  · cases h
  · cases hm : maximalExactRatioJoin (ssLiquidity p) p.totalShares tokensIn with
    | error e => simp [hm, bind, Except.bind] at h
    | ok r =>
      obtain ⟨s, used⟩ := r
      simp only [hm, bind, Except.bind] at h
      have hu := maximalExactRatioJoin_uses_all hm hr0 (fun c hc => ⟨(hneed c hc).1, by have := (hneed c hc).2.1; omega, (hneed c hc).2.2⟩)
      split at h
      · cases h
      · injection h with h; injection h with _ h2
        rw [← h2, hu]
        exact joinedCoins_all tokensIn (fun c hc => by have := (hneed c hc).2.1; omega)

end OsmoVerif.GammMath
