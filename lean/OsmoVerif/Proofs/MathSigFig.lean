/-
Helper lemmas for `SigFigRound` (Model/Math.lean): the scaling loop, the closed form of the
result for positive inputs, and the integer rounding facts used by Props/C13SigFig.
-/
import OsmoVerif.Model.Math
import OsmoVerif.Proofs.NumLemmas
import Mathlib.Tactic.Linarith
import Mathlib.Tactic.Ring
import Mathlib.Tactic.Positivity

namespace OsmoVerif.MathM
open OsmoVerif.Num OsmoVerif.Gen OsmoVerif.Spec

/-! ### range checks -/

theorem chkDec_eq_some_iff {x r : Int} : chkDec x = some r ↔ r = x ∧ x ≤ decUpper ∧ -decUpper ≤ x := by
  unfold chkDec
  by_cases h : x ≤ decUpper ∧ -decUpper ≤ x
  · rw [if_pos h]; constructor
    · intro e; exact ⟨(Option.some.inj e).symm, h⟩
    · rintro ⟨rfl, _⟩; rfl
  · rw [if_neg h]; constructor
    · intro e; cases e
    · rintro ⟨_, h'⟩; exact absurd h' h

theorem chkInt_eq_some_iff {x r : Int} : chkInt x = some r ↔ r = x ∧ x.natAbs < 2 ^ 256 := by
  unfold chkInt
  by_cases h : fitsBits Osmomath.sdkMaxBitLen x = true
  · rw [if_pos h]; constructor
    · intro e; exact ⟨(Option.some.inj e).symm, fitsBits_lt h⟩
    · rintro ⟨rfl, _⟩; rfl
  · rw [if_neg h]; constructor
    · intro e; cases e
    · rintro ⟨_, h'⟩; exact absurd (lt_fitsBits h') h

theorem decUpper_val : decUpper = 2 ^ 256 * 10 ^ 18 - 1 := by decide +kernel
theorem pointOne_val : Osmomath.pointOne = 10 ^ 17 := by decide +kernel
theorem P18_val : P18 = 10 ^ 18 := by decide +kernel

/-! ### the scaling exponent -/

/-- `k` is the scaling exponent the loop of `SigFigRound` finds for `d > 0`: the least `k` with
`d·10^k ≥ 0.1` (raw `10^17`).  For `k > 0` the scaled value is below `1`. -/
def SigK (d : Int) (k : Nat) : Prop := 10 ^ 17 ≤ d * 10 ^ k ∧ (k = 0 ∨ d * 10 ^ k < 10 ^ 18)

theorem sigFigScale_pos : ∀ (f : Nat) (d : Int), 0 < d →
    (∃ j, j < f ∧ (10 : Int) ^ 17 ≤ d * 10 ^ j) →
    ∃ j, j < f ∧ SigK d j ∧ ∀ k0, sigFigScale f d k0 = some (d * 10 ^ j, k0 + j) := by
  intro f
  induction f with
  | zero => rintro d _ ⟨j, hj, _⟩; omega
  | succ f ih =>
    intro d hd ⟨j, hj, hle⟩
    by_cases hlt : d < 10 ^ 17
    · have hm : Dec.mulInt d 10 = some (d * 10) := by
        unfold Dec.mulInt
        rw [chkDec_eq_some_iff, decUpper_val]
        refine ⟨rfl, ?_, ?_⟩ <;> omega
      have hj0 : j ≠ 0 := by
        rintro rfl; simp at hle; omega
      obtain ⟨j', rfl⟩ : ∃ j', j = j' + 1 := ⟨j - 1, by omega⟩
      have hle' : (10 : Int) ^ 17 ≤ d * 10 * 10 ^ j' := by
        have e : d * 10 ^ (j' + 1) = d * 10 * 10 ^ j' := by ring
        rw [← e]; exact hle
      obtain ⟨i, hi, ⟨h1, h2⟩, he⟩ := ih (d * 10) (by omega) ⟨j', by omega, hle'⟩
      have e : d * 10 ^ (i + 1) = d * 10 * 10 ^ i := by ring
      refine ⟨i + 1, by omega, ⟨?_, ?_⟩, ?_⟩
      · rw [e]; exact h1
      · right
        rw [e]
        rcases h2 with rfl | h2
        · simp; omega
        · exact h2
      · intro k0
        unfold sigFigScale
        rw [pointOne_val, if_pos hlt, hm, Option.bind_some, he, e]
        congr 2; omega
    · refine ⟨0, by omega, ⟨by simp; omega, Or.inl rfl⟩, ?_⟩
      intro k0
      unfold sigFigScale
      rw [pointOne_val, if_neg hlt]; simp

theorem sigK_exists {d : Int} (hd : 0 < d) :
    ∃ k, k ≤ 17 ∧ SigK d k ∧ ∀ k0, sigFigScale 400 d k0 = some (d * 10 ^ k, k0 + k) := by
  obtain ⟨k, _, hk, he⟩ := sigFigScale_pos 400 d hd ⟨17, by omega, by omega⟩
  refine ⟨k, ?_, hk, he⟩
  by_contra hc
  have h18 : 18 ≤ k := by omega
  have hp : (10 : Int) ^ 18 ≤ 10 ^ k := pow_le_pow_right₀ (by norm_num) h18
  rcases hk.2 with h | h
  · omega
  · have : (10 : Int) ^ k ≤ d * 10 ^ k := by nlinarith
    omega

theorem SigK.le17 {d : Int} {k : Nat} (hd : 0 < d) (hk : SigK d k) : k ≤ 17 := by
  by_contra hc
  have h18 : 18 ≤ k := by omega
  have hp : (10 : Int) ^ 18 ≤ 10 ^ k := pow_le_pow_right₀ (by norm_num) h18
  rcases hk.2 with h | h
  · omega
  · have : (10 : Int) ^ k ≤ d * 10 ^ k := by nlinarith
    omega

theorem SigK.unique {d : Int} {k k' : Nat} (_hd : 0 < d) (h : SigK d k) (h' : SigK d k') : k = k' := by
  have key : ∀ {a b : Nat}, SigK d a → SigK d b → ¬ a < b := by
    intro a b ha hb hlt
    obtain ⟨c, rfl⟩ : ∃ c, b = a + (c + 1) := ⟨b - a - 1, by omega⟩
    rcases hb.2 with h0 | h0
    · omega
    · have e : d * 10 ^ (a + (c + 1)) = d * 10 ^ a * 10 ^ c * 10 := by ring
      have hc : (1 : Int) ≤ 10 ^ c := one_le_pow₀ (by norm_num)
      have := ha.1
      rw [e] at h0
      nlinarith
  have := key h h'; have := key h' h; omega

theorem pow10_le17 {k : Nat} (hk : k ≤ 17) : (10 : Int) ^ k ≤ 10 ^ 17 :=
  pow_le_pow_right₀ (by norm_num) hk

theorem sigFigRound_unfold {d : Int} (t : Int) (hd : d ≠ 0) :
    sigFigRound d t = (sigFigScale 400 d 0).bind fun p => (Dec.mulInt p.1 t).bind fun dkSig =>
      (Dec.roundInt dkSig).bind fun num => (chkDec ((10 : Int) ^ p.2 * P18)).bind fun tenToK =>
      (Dec.truncateInt tenToK).bind fun tk => (chkInt (t * tk)).bind fun den =>
      if den = 0 then none else some ((num * P18).tdiv den) := by
  unfold sigFigRound
  rw [if_neg hd]
  rfl

/-- the rounded numerator `RoundInt(d·10^k·t)`. -/
def sigNum (d t : Int) (k : Nat) : Int := chopRound P18 (d * 10 ^ k * t)

theorem tenToK_ok {k : Nat} (hk17 : k ≤ 17) :
    chkDec ((10 : Int) ^ k * P18) = some (10 ^ k * P18) ∧ Dec.truncateInt ((10 : Int) ^ k * P18) = some (10 ^ k) := by
  have hp0 : (0 : Int) < 10 ^ k := by positivity
  have hp := pow10_le17 hk17
  constructor
  · rw [chkDec_eq_some_iff, decUpper_val, P18_val]
    refine ⟨rfl, ?_, ?_⟩ <;> nlinarith
  · unfold Dec.truncateInt
    rw [Int.mul_tdiv_cancel _ (by decide), chkInt_eq_some_iff]
    refine ⟨rfl, ?_⟩
    have : ((10 : Int) ^ k).natAbs = 10 ^ k := by
      rw [Int.natAbs_pow]; rfl
    rw [this]
    calc 10 ^ k ≤ 10 ^ 17 := Nat.pow_le_pow_right (by omega) hk17
      _ < 2 ^ 256 := by norm_num

theorem sigFigRound_pos_eq {d : Int} (t : Int) {k : Nat} (hd : 0 < d) (hk17 : k ≤ 17)
    (he : ∀ k0, sigFigScale 400 d k0 = some (d * 10 ^ k, k0 + k)) :
    sigFigRound d t = (chkDec (d * 10 ^ k * t)).bind fun x => (chkInt (chopRound P18 x)).bind fun num =>
      (chkInt (t * 10 ^ k)).bind fun den => if den = 0 then none else some ((num * P18).tdiv den) := by
  obtain ⟨h1, h2⟩ := tenToK_ok hk17
  rw [sigFigRound_unfold t (by omega), he 0, Option.bind_some]
  show (chkDec (d * 10 ^ k * t)).bind (fun dkSig => (chkInt (chopRound P18 dkSig)).bind fun num =>
      (chkDec ((10 : Int) ^ (0 + k) * P18)).bind fun tenToK =>
      (Dec.truncateInt tenToK).bind fun tk => (chkInt (t * tk)).bind fun den =>
      if den = 0 then none else some ((num * P18).tdiv den)) = _
  rw [Nat.zero_add, h1]
  congr 1; funext x; congr 1; funext num
  rw [Option.bind_some, h2, Option.bind_some]

theorem sigFigRound_some_iff {d t r : Int} (hd : 0 < d) :
    sigFigRound d t = some r ↔ ∃ k, SigK d k ∧ t ≠ 0 ∧ d * 10 ^ k * t ≤ decUpper ∧ -decUpper ≤ d * 10 ^ k * t ∧
      (sigNum d t k).natAbs < 2 ^ 256 ∧ (t * 10 ^ k).natAbs < 2 ^ 256 ∧
      r = (sigNum d t k * P18).tdiv (t * 10 ^ k) := by
  obtain ⟨k, hk17, hk, he⟩ := sigK_exists hd
  have hp0 : (0 : Int) < 10 ^ k := by positivity
  rw [sigFigRound_pos_eq t hd hk17 he]
  constructor
  · intro h
    obtain ⟨x, hx, h⟩ := Option.bind_eq_some_iff.mp h
    obtain ⟨num, hnum, h⟩ := Option.bind_eq_some_iff.mp h
    obtain ⟨den, hden, h⟩ := Option.bind_eq_some_iff.mp h
    obtain ⟨rfl, hx1, hx2⟩ := chkDec_eq_some_iff.mp hx
    obtain ⟨rfl, hn⟩ := chkInt_eq_some_iff.mp hnum
    obtain ⟨rfl, hdn⟩ := chkInt_eq_some_iff.mp hden
    split at h
    · cases h
    · rename_i hne
      refine ⟨k, hk, ?_, hx1, hx2, hn, hdn, (Option.some.inj h).symm⟩
      rintro rfl; simp at hne
  · rintro ⟨k', hk', ht, hx1, hx2, hn, hdn, rfl⟩
    obtain rfl := SigK.unique hd hk hk'
    rw [chkDec_eq_some_iff.mpr ⟨rfl, hx1, hx2⟩, Option.bind_some, chkInt_eq_some_iff.mpr ⟨rfl, (show (chopRound P18 (d * 10 ^ k * t)).natAbs < 2 ^ 256 from hn)⟩,
      Option.bind_some, chkInt_eq_some_iff.mpr ⟨rfl, hdn⟩, Option.bind_some, if_neg]
    · rfl
    · intro h0
      rcases Int.mul_eq_zero.mp h0 with h0 | h0 <;> omega

end OsmoVerif.MathM
