/-
C07 helpers, part 2: the sorted tick list as a function `tick ↦ (gross, net)` plus its stored set, and how
`updTick` / `removeTick` / `tickEmpty` act on that view.  Core only.
-/
import OsmoVerif.Model.CLPool

namespace OsmoVerif.CLBook
open OsmoVerif.CLPool

/-- gross liquidity stored for tick `t` (0 if the tick is not stored). -/
def grossOf : List TickInfo → Int → Int
  | [], _ => 0
  | x :: xs, t => if x.tick = t then x.gross else grossOf xs t

/-- net liquidity stored for tick `t` (0 if the tick is not stored). -/
def netOf : List TickInfo → Int → Int
  | [], _ => 0
  | x :: xs, t => if x.tick = t then x.net else netOf xs t

/-- tick `t` has a stored entry. -/
def Stored (ticks : List TickInfo) (t : Int) : Prop := ∃ x ∈ ticks, x.tick = t

/-- strictly increasing tick indexes. -/
def Sorted (ticks : List TickInfo) : Prop := ticks.Pairwise (fun a b => a.tick < b.tick)

theorem stored_nil (t : Int) : ¬ Stored [] t := by
  intro ⟨x, hx, _⟩; cases hx

theorem stored_cons (x : TickInfo) (xs : List TickInfo) (t : Int) :
    Stored (x :: xs) t ↔ x.tick = t ∨ Stored xs t := by
  constructor
  · intro ⟨y, hy, e⟩
    rcases List.mem_cons.mp hy with rfl | hy
    · exact Or.inl e
    · exact Or.inr ⟨y, hy, e⟩
  · intro h
    rcases h with h | ⟨y, hy, e⟩
    · exact ⟨x, List.mem_cons_self, h⟩
    · exact ⟨y, List.mem_cons_of_mem _ hy, e⟩

theorem grossOf_of_not_stored {ticks : List TickInfo} {t : Int} (h : ¬ Stored ticks t) : grossOf ticks t = 0 := by
  induction ticks with
  | nil => rfl
  | cons x xs ih =>
    rw [stored_cons] at h
    simp only [grossOf]
    rw [if_neg (fun e => h (Or.inl e))]
    exact ih (fun e => h (Or.inr e))

theorem netOf_of_not_stored {ticks : List TickInfo} {t : Int} (h : ¬ Stored ticks t) : netOf ticks t = 0 := by
  induction ticks with
  | nil => rfl
  | cons x xs ih =>
    rw [stored_cons] at h
    simp only [netOf]
    rw [if_neg (fun e => h (Or.inl e))]
    exact ih (fun e => h (Or.inr e))

/-- in a sorted list the function view reads back every stored entry. -/
theorem of_mem_sorted {ticks : List TickInfo} (hs : Sorted ticks) {x : TickInfo} (hx : x ∈ ticks) :
    grossOf ticks x.tick = x.gross ∧ netOf ticks x.tick = x.net := by
  induction ticks with
  | nil => cases hx
  | cons a as ih =>
    have hs' := List.pairwise_cons.mp hs
    simp only [grossOf, netOf]
    rcases List.mem_cons.mp hx with rfl | hx'
    · simp
    · have := hs'.1 x hx'
      rw [if_neg (by omega), if_neg (by omega)]
      exact ih hs'.2 hx'

/-! ## updTick -/

theorem updTick_stored (ticks : List TickInfo) (t d : Int) (up : Bool) (t' : Int) :
    Stored (updTick ticks t d up) t' ↔ Stored ticks t' ∨ t' = t := by
  induction ticks with
  | nil =>
    simp only [updTick, stored_cons]
    constructor
    · intro h; rcases h with h | h
      · exact Or.inr h.symm
      · exact absurd h (stored_nil _)
    · intro h; rcases h with h | h
      · exact absurd h (stored_nil _)
      · exact Or.inl h.symm
  | cons x xs ih =>
    simp only [updTick]
    split
    · rename_i h
      simp only [stored_cons]
      constructor
      · intro h'; rcases h' with h' | h'
        · exact Or.inr h'.symm
        · exact Or.inl (Or.inr h')
      · intro h'; rcases h' with (h' | h') | h'
        · exact Or.inl (by omega)
        · exact Or.inr h'
        · exact Or.inl h'.symm
    · split
      · simp only [stored_cons]
        constructor
        · intro h'; rcases h' with h' | h' | h'
          · exact Or.inr h'.symm
          · exact Or.inl (Or.inl h')
          · exact Or.inl (Or.inr h')
        · intro h'; rcases h' with (h' | h') | h'
          · exact Or.inr (Or.inl h')
          · exact Or.inr (Or.inr h')
          · exact Or.inl h'.symm
      · simp only [stored_cons, ih]
        constructor
        · intro h'; rcases h' with h' | h' | h'
          · exact Or.inl (Or.inl h')
          · exact Or.inl (Or.inr h')
          · exact Or.inr h'
        · intro h'; rcases h' with (h' | h') | h'
          · exact Or.inl h'
          · exact Or.inr (Or.inl h')
          · exact Or.inr (Or.inr h')

theorem updTick_sorted {ticks : List TickInfo} (hs : Sorted ticks) (t d : Int) (up : Bool) :
    Sorted (updTick ticks t d up) := by
  induction ticks with
  | nil => simp [updTick, Sorted]
  | cons x xs ih =>
    have hs' := List.pairwise_cons.mp hs
    simp only [updTick]
    split
    · rename_i h
      apply List.pairwise_cons.mpr
      refine ⟨?_, hs'.2⟩
      intro y hy; have := hs'.1 y hy; simp only; omega
    · split
      · rename_i h1 h2
        apply List.pairwise_cons.mpr
        refine ⟨?_, hs⟩
        intro y hy
        rcases List.mem_cons.mp hy with rfl | hy
        · exact h2
        · have := hs'.1 y hy; simp only; omega
      · rename_i h1 h2
        apply List.pairwise_cons.mpr
        refine ⟨?_, ih hs'.2⟩
        intro y hy
        have : Stored (updTick xs t d up) y.tick := ⟨y, hy, rfl⟩
        rw [updTick_stored] at this
        rcases this with ⟨z, hz, e⟩ | e
        · have := hs'.1 z hz; omega
        · omega

theorem updTick_grossOf {ticks : List TickInfo} (hs : Sorted ticks) (t d : Int) (up : Bool) (t' : Int) :
    grossOf (updTick ticks t d up) t' = grossOf ticks t' + (if t' = t then d else 0) := by
  induction ticks with
  | nil =>
    simp only [updTick, grossOf]
    repeat' split
    all_goals omega
  | cons x xs ih =>
    have hs' := List.pairwise_cons.mp hs
    simp only [updTick]
    split
    · simp only [grossOf]
      repeat' split
      all_goals omega
    · split
      · rename_i h1 h2
        have key : t' = t → grossOf xs t' = 0 := by
          intro e
          apply grossOf_of_not_stored
          intro ⟨z, hz, e'⟩; have := hs'.1 z hz; omega
        simp only [grossOf]
        repeat' split
        all_goals omega
      · have := ih hs'.2
        simp only [grossOf]
        repeat' split
        all_goals (split at this <;> omega)

theorem updTick_netOf {ticks : List TickInfo} (hs : Sorted ticks) (t d : Int) (up : Bool) (t' : Int) :
    netOf (updTick ticks t d up) t' = netOf ticks t' + (if t' = t then (if up then -d else d) else 0) := by
  cases up <;> induction ticks with
  | nil =>
    simp only [updTick, netOf, ↓reduceIte, Bool.false_eq_true]
    repeat' split
    all_goals omega
  | cons x xs ih =>
    have hs' := List.pairwise_cons.mp hs
    simp only [updTick, ↓reduceIte, Bool.false_eq_true]
    split
    · simp only [netOf]
      repeat' split
      all_goals omega
    · split
      · rename_i h1 h2
        have key : t' = t → netOf xs t' = 0 := by
          intro e
          apply netOf_of_not_stored
          intro ⟨z, hz, e'⟩; have := hs'.1 z hz; omega
        simp only [netOf]
        repeat' split
        all_goals omega
      · have := ih hs'.2
        simp only [↓reduceIte, Bool.false_eq_true] at this
        simp only [netOf]
        repeat' split
        all_goals (split at this <;> omega)

/-! ## removeTick, tickEmpty -/

theorem removeTick_sorted {ticks : List TickInfo} (hs : Sorted ticks) (t : Int) : Sorted (removeTick ticks t) :=
  List.Pairwise.sublist List.filter_sublist hs

theorem removeTick_stored (ticks : List TickInfo) (t t' : Int) :
    Stored (removeTick ticks t) t' ↔ Stored ticks t' ∧ t' ≠ t := by
  unfold removeTick Stored
  constructor
  · intro ⟨x, hx, e⟩
    rw [List.mem_filter] at hx
    have : x.tick ≠ t := by simpa using hx.2
    exact ⟨⟨x, hx.1, e⟩, by omega⟩
  · intro ⟨⟨x, hx, e⟩, hne⟩
    refine ⟨x, ?_, e⟩
    rw [List.mem_filter]
    exact ⟨hx, by simp; omega⟩

theorem removeTick_grossOf (ticks : List TickInfo) (t t' : Int) :
    grossOf (removeTick ticks t) t' = if t' = t then 0 else grossOf ticks t' := by
  unfold removeTick
  induction ticks with
  | nil => simp [grossOf]
  | cons x xs ih =>
    by_cases h : x.tick = t
    · rw [List.filter_cons_of_neg (by simp [h]), ih]
      simp only [grossOf]
      split
      · rfl
      · rw [if_neg (by omega)]
    · rw [List.filter_cons_of_pos (by simpa using h)]
      simp only [grossOf]
      rw [ih]
      split
      · rename_i h'; rw [if_neg (by omega)]
      · rfl

theorem removeTick_netOf (ticks : List TickInfo) (t t' : Int) :
    netOf (removeTick ticks t) t' = if t' = t then 0 else netOf ticks t' := by
  unfold removeTick
  induction ticks with
  | nil => simp [netOf]
  | cons x xs ih =>
    by_cases h : x.tick = t
    · rw [List.filter_cons_of_neg (by simp [h]), ih]
      simp only [netOf]
      split
      · rfl
      · rw [if_neg (by omega)]
    · rw [List.filter_cons_of_pos (by simpa using h)]
      simp only [netOf]
      rw [ih]
      split
      · rename_i h'; rw [if_neg (by omega)]
      · rfl

theorem tickEmpty_iff (ticks : List TickInfo) (t : Int) :
    tickEmpty ticks t = true ↔ grossOf ticks t = 0 ∧ netOf ticks t = 0 := by
  unfold tickEmpty
  induction ticks with
  | nil => simp [grossOf, netOf]
  | cons x xs ih =>
    simp only [grossOf, netOf]
    by_cases h : x.tick = t
    · rw [List.find?_cons_of_pos (by simpa using h), if_pos h, if_pos h]
      simp
    · rw [List.find?_cons_of_neg (by simpa using h), if_neg h, if_neg h]
      exact ih

end OsmoVerif.CLBook
