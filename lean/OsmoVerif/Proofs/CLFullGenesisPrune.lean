/-
C19 / x/concentrated-liquidity genesis: removing the uptime-accumulator records and join times of positions that no longer exist
(`prune p`, of which `canon` is an instance) is UNOBSERVABLE: every message of the layered model commutes with it — same success /
failure, same returned amounts, pruned result — as long as `p` keeps the ids of the live positions and of all ids not yet handed out.
Building blocks first (records of one accumulator, the accumulator list, `sync`, claims), then the messages.  Core only.
-/
import OsmoVerif.Proofs.CLFullGenesisWF

namespace OsmoVerif.CLIncP
open OsmoVerif.Num OsmoVerif.CL OsmoVerif.CLPool OsmoVerif.CLFees OsmoVerif.CLInc OsmoVerif.CLFeesP OsmoVerif.CLBook

def pruneA (p : Nat → Bool) (a : UAcc) : UAcc := { a with recs := a.recs.filter (fun r => p r.id) }

def pruneI (p : Nat → Bool) (i : Inc) : Inc :=
  { i with accs := i.accs.map (pruneA p), join := i.join.filter (fun e => p e.1) }

def prune (p : Nat → Bool) (s : Full) : Full := { s with inc := pruneI p s.inc }

theorem canon_eq_prune (s : Full) : canon s = prune (live s) s := rfl

theorem pruneA_value (p : Nat → Bool) (a : UAcc) : (pruneA p a).value = a.value := rfl
theorem pruneA_total (p : Nat → Bool) (a : UAcc) : (pruneA p a).total = a.total := rfl
theorem pruneA_recs (p : Nat → Bool) (a : UAcc) : (pruneA p a).recs = a.recs.filter (fun r => p r.id) := rfl
theorem pruneI_accs (p : Nat → Bool) (i : Inc) : (pruneI p i).accs = i.accs.map (pruneA p) := rfl
theorem pruneI_join (p : Nat → Bool) (i : Inc) : (pruneI p i).join = i.join.filter (fun e => p e.1) := rfl
theorem pruneI_trackers (p : Nat → Bool) (i : Inc) : (pruneI p i).trackers = i.trackers := rfl
theorem pruneI_records (p : Nat → Bool) (i : Inc) : (pruneI p i).records = i.records := rfl
theorem pruneI_last (p : Nat → Bool) (i : Inc) : (pruneI p i).last = i.last := rfl
theorem pruneI_now (p : Nat → Bool) (i : Inc) : (pruneI p i).now = i.now := rfl
theorem pruneI_factor (p : Nat → Bool) (i : Inc) : (pruneI p i).factor = i.factor := rfl
theorem pruneI_authorized (p : Nat → Bool) (i : Inc) : (pruneI p i).authorized = i.authorized := rfl
theorem pruneI_bal (p : Nat → Bool) (i : Inc) : (pruneI p i).bal = i.bal := rfl
theorem pruneI_nextRec (p : Nat → Bool) (i : Inc) : (pruneI p i).nextRec = i.nextRec := rfl

/-! ## one record list -/

theorem getURec_filter' (p : Nat → Bool) (recs : List URec) (id : Nat) (hp : p id = true) :
    getURec (recs.filter (fun r => p r.id)) id = getURec recs id := by
  unfold getURec
  exact find_filter _ _ (fun x hx => by simp only [decide_eq_true_eq] at hx; rw [hx]; exact hp) recs

theorem setURec_filter (p : Nat → Bool) (recs : List URec) (r : URec) (hp : p r.id = true) :
    (setURec recs r).filter (fun x => p x.id) = setURec (recs.filter (fun x => p x.id)) r := by
  unfold setURec
  induction recs with
  | nil => rfl
  | cons x xs ih =>
    by_cases hx : x.id = r.id
    · have hpx : p x.id = true := by rw [hx]; exact hp
      simp only [List.map_cons, List.filter_cons, if_pos hx, hp, hpx, if_true, ih]
    · cases hq : p x.id with
      | true => simp only [List.map_cons, List.filter_cons, if_neg hx, hq, if_true, ih]
      | false => simp only [List.map_cons, List.filter_cons, if_neg hx, hq, Bool.false_eq_true, if_false, ih]

theorem filter_ne_filter (p : Nat → Bool) (recs : List URec) (id : Nat) :
    (recs.filter (fun x => decide (x.id ≠ id))).filter (fun x => p x.id) =
      (recs.filter (fun x => p x.id)).filter (fun x => decide (x.id ≠ id)) := by
  rw [List.filter_filter, List.filter_filter]
  congr 1
  funext x
  exact Bool.and_comm _ _

/-! ## one accumulator -/

theorem updOne_prune (p : Nat → Bool) (a : UAcc) (id : Nat) (nl dl : Int) (ins outs : DC) (hp : p id = true) :
    updOne (pruneA p a) id nl dl ins outs = (updOne a id nl dl ins outs).map (pruneA p) := by
  unfold updOne
  have hg : getURec (pruneA p a).recs id = getURec a.recs id := getURec_filter' p a.recs id hp
  rw [hg]
  simp only [pruneA_value, pruneA_total, pruneA_recs]
  cases getURec a.recs id with
  | none =>
    simp only
    split
    · rfl
    · cases Dec.add a.total nl with
      | none => rfl
      | some tot =>
        simp only [Option.map_some, pruneA, List.filter_append, List.filter_cons, hp, if_true, List.filter_nil]
  | some r =>
    simp only
    cases Accum.add r.snap outs with
    | none => rfl
    | some snap1 =>
      simp only [Option.bind_some]
      split
      · rfl
      · split
        · rfl
        · cases uRewards a.value r.shares snap1 r.unclaimed with
          | none => rfl
          | some rewards =>
            simp only [Option.bind_some]
            cases Dec.add r.shares dl with
            | none => rfl
            | some sh =>
              simp only [Option.bind_some]
              cases Dec.add a.total dl with
              | none => rfl
              | some tot =>
                simp only [Option.map_some, pruneA]
                rw [setURec_filter p a.recs ⟨id, sh, ins, rewards⟩ hp]

theorem updAll_prune (p : Nat → Bool) (id : Nat) (nl dl : Int) (hp : p id = true) : ∀ (accs : List UAcc) (ins outs : List DC),
    updAll id nl dl (accs.map (pruneA p)) ins outs = (updAll id nl dl accs ins outs).map (List.map (pruneA p))
  | [], [], [] => rfl
  | [], _ :: _, _ => rfl
  | [], [], _ :: _ => rfl
  | _ :: _, [], _ => rfl
  | _ :: _, _ :: _, [] => rfl
  | a :: as, i :: is, o :: os => by
    simp only [List.map_cons, updAll, updOne_prune p a id nl dl i o hp, updAll_prune p id nl dl hp as is os]
    cases updOne a id nl dl i o with
    | none => rfl
    | some a' =>
      simp only [Option.map_some, Option.bind_some]
      cases updAll id nl dl as is os <;> rfl

theorem claimOne_prune (p : Nat → Bool) (a : UAcc) (id : Nat) (outs : DC) (hp : p id = true) :
    claimOne (pruneA p a) id outs = (claimOne a id outs).map (fun r => (pruneA p r.1, r.2)) := by
  unfold claimOne
  have hg : getURec (pruneA p a).recs id = getURec a.recs id := getURec_filter' p a.recs id hp
  rw [hg]
  simp only [pruneA_value, pruneA_total, pruneA_recs]
  cases getURec a.recs id with
  | none => rfl
  | some r =>
    simp only
    cases Accum.add r.snap outs with
    | none => rfl
    | some snap1 =>
      simp only [Option.bind_some]
      cases uRewards a.value r.shares snap1 r.unclaimed with
      | none => rfl
      | some total =>
        simp only [Option.bind_some]
        cases Accum.truncateDecimal total with
        | none => rfl
        | some cd =>
          simp only [Option.bind_some]
          split
          · simp only [Option.map_some, pruneA]
            rw [filter_ne_filter]
          · cases Accum.safeSub a.value outs with
            | none => rfl
            | some io =>
              simp only [Option.map_some, pruneA]
              rw [setURec_filter p a.recs ⟨id, r.shares, io.1, []⟩ hp]

theorem claimLoop_prune (p : Nat → Bool) (factor age : Int) (id : Nat) (hp : p id = true) : ∀ (accs : List UAcc) (outs : List DC) (ups : List Int),
    claimLoop factor age id (accs.map (pruneA p)) outs ups =
      (claimLoop factor age id accs outs ups).map (fun r => (r.1.map (pruneA p), r.2))
  | [], [], [] => rfl
  | [], _ :: _, _ => rfl
  | [], [], _ :: _ => rfl
  | _ :: _, [], _ => rfl
  | _ :: _, _ :: _, [] => rfl
  | a :: as, o :: os, up :: ups => by
    have hg : getURec (pruneA p a).recs id = getURec a.recs id := getURec_filter' p a.recs id hp
    simp only [List.map_cons, claimLoop, claimOne_prune p a id o hp, claimLoop_prune p factor age id hp as os ups, hg]
    cases claimOne a id o with
    | none => rfl
    | some r1 =>
      simp only [Option.map_some, Option.bind_some]
      cases scaleDownCoins factor r1.2 with
      | none => rfl
      | some down =>
        simp only [Option.bind_some]
        cases claimLoop factor age id as os ups with
        | none => rfl
        | some r2 =>
          simp only [Option.map_some, Option.bind_some]
          split
          · cases coinsAddAll r2.2.2.1 down <;> rfl
          · cases coinsAddAll r2.2.1 down <;> rfl

/-! ## the incentive layer -/

theorem accValues_prune (p : Nat → Bool) (i : Inc) : accValues (pruneI p i) = accValues i := by
  unfold accValues pruneI
  simp only [List.map_map]
  rfl

theorem insideAll_prune (p : Nat → Bool) (i : Inc) (cur l u : Int) : insideAll (pruneI p i) cur l u = insideAll i cur l u := by
  unfold insideAll tickTr initialTr
  rw [accValues_prune]
  rfl

theorem outsideAll_prune (p : Nat → Bool) (i : Inc) (cur l u : Int) : outsideAll (pruneI p i) cur l u = outsideAll i cur l u := by
  unfold outsideAll
  rw [insideAll_prune, accValues_prune]

theorem updPosition_prune (p : Nat → Bool) (i : Inc) (cur l u : Int) (id : Nat) (nl dl : Int) (hp : p id = true) :
    updPosition (pruneI p i) cur l u id nl dl = (updPosition i cur l u id nl dl).map (pruneI p) := by
  unfold updPosition
  rw [insideAll_prune, outsideAll_prune]
  cases insideAll i cur l u with
  | none => rfl
  | some ins =>
    simp only [Option.bind_some]
    cases outsideAll i cur l u with
    | none => rfl
    | some outs =>
      simp only [Option.bind_some]
      have : (pruneI p i).accs = i.accs.map (pruneA p) := rfl
      rw [this, updAll_prune p id nl dl hp]
      cases updAll id nl dl i.accs ins outs <;> rfl

theorem join_find_prune (p : Nat → Bool) (i : Inc) (id : Nat) (hp : p id = true) :
    (pruneI p i).join.find? (·.1 = id) = i.join.find? (·.1 = id) :=
  find_filter _ _ (fun x hx => by simp only [decide_eq_true_eq] at hx; rw [hx]; exact hp) i.join

theorem claimAll_prune (p : Nat → Bool) (i : Inc) (cur l u : Int) (id : Nat) (hp : p id = true) :
    claimAll (pruneI p i) cur l u id = (claimAll i cur l u id).map (fun r => (pruneI p r.1, r.2)) := by
  unfold claimAll
  rw [join_find_prune p i id hp, outsideAll_prune]
  cases (i.join.find? (·.1 = id)).map (·.2) with
  | none => rfl
  | some jt =>
    simp only [Option.bind_some]
    have e1 : (pruneI p i).now = i.now := rfl
    have e2 : (pruneI p i).factor = i.factor := rfl
    have e3 : (pruneI p i).accs = i.accs.map (pruneA p) := rfl
    rw [e1]
    split
    · rfl
    · cases outsideAll i cur l u with
      | none => rfl
      | some outs =>
        simp only [Option.bind_some]
        rw [e2, e3, claimLoop_prune p i.factor (i.now - jt) id hp]
        cases claimLoop i.factor (i.now - jt) id i.accs outs uptimesNs <;> rfl

theorem redepositLoop_prune (p : Nat → Bool) (liq : Int) : ∀ (accs : List UAcc) (byUp : List Coins),
    redepositLoop liq (accs.map (pruneA p)) byUp = (redepositLoop liq accs byUp).map (List.map (pruneA p))
  | [], [] => rfl
  | [], _ :: _ => rfl
  | _ :: _, [] => rfl
  | a :: as, cs :: rest => by
    simp only [List.map_cons, redepositLoop, redepositLoop_prune p liq as rest]
    have hv : (pruneA p a).value = a.value := rfl
    split
    · simp only [Option.bind_some]
      cases redepositLoop liq as rest <;> rfl
    · rw [hv]
      cases (cs.foldlM (fun (acc : DC) (c : String × Int) =>
          (Dec.quoTruncate (c.2 * P18) liq).bind fun per => if per < 0 then none else Accum.add acc [(c.1, per)]) ([] : DC)) with
      | none => rfl
      | some toAdd =>
        simp only [Option.bind_some]
        cases Accum.add a.value toAdd with
        | none => rfl
        | some v =>
          simp only [Option.map_some, Option.bind_some]
          cases redepositLoop liq as rest <;> rfl

theorem redeposit_prune (p : Nat → Bool) (i : Inc) (liq : Int) (forf : Coins) (byUp : List Coins) :
    redeposit (pruneI p i) liq forf byUp = (redeposit i liq forf byUp).map (pruneI p) := by
  unfold redeposit
  split
  · have : (pruneI p i).bal = i.bal := rfl
    rw [this]
    cases coinsSubAll i.bal forf <;> rfl
  · have : (pruneI p i).accs = i.accs.map (pruneA p) := rfl
    rw [this, redepositLoop_prune]
    cases redepositLoop liq i.accs byUp <;> rfl

theorem setAt_map {α β : Type} (g : α → β) : ∀ (l : List α) (k : Nat) (v : α), setAt (l.map g) k (g v) = (setAt l k v).map g
  | [], _, _ => rfl
  | _ :: _, 0, _ => rfl
  | x :: xs, k + 1, v => by simp only [List.map_cons, setAt, setAt_map g xs k v]

theorem emitAll_prune (p : Nat → Bool) (now el liq factor : Int) : ∀ (us : List Nat) (accs : List UAcc) (rs : List IncRec),
    emitAll now el liq factor us (accs.map (pruneA p)) rs =
      (emitAll now el liq factor us accs rs).map (fun r => (r.1.map (pruneA p), r.2))
  | [], _, _ => rfl
  | u :: us, accs, rs => by
    simp only [emitAll]
    cases emitLoop now el liq factor u rs [] with
    | none => rfl
    | some r1 =>
      simp only [Option.bind_some, List.getElem?_map]
      cases accs[u]? with
      | none => rfl
      | some a =>
        simp only [Option.map_some, Option.bind_some]
        have hv : (pruneA p a).value = a.value := rfl
        rw [hv]
        cases Accum.add a.value r1.1 with
        | none => rfl
        | some v =>
          simp only [Option.bind_some]
          have : ({ pruneA p a with value := v } : UAcc) = pruneA p { a with value := v } := rfl
          rw [this, setAt_map (pruneA p), emitAll_prune p now el liq factor us]

theorem sync_prune (p : Nat → Bool) (i : Inc) (liq : Int) : sync (pruneI p i) liq = (sync i liq).map (pruneI p) := by
  unfold sync
  have e1 : (pruneI p i).now = i.now := rfl
  have e2 : (pruneI p i).last = i.last := rfl
  rw [e1, e2]
  cases Dec.quo ((i.now - i.last) * P18) (1000000000 * P18) with
  | none => rfl
  | some el =>
    simp only [Option.bind_some]
    split
    · rfl
    · split
      · rfl
      · split
        · rfl
        · have e3 : (pruneI p i).accs = i.accs.map (pruneA p) := rfl
          have e4 : (pruneI p i).records = i.records := rfl
          have e5 : (pruneI p i).factor = i.factor := rfl
          rw [e3, e4, e5, emitAll_prune]
          cases emitAll i.now el liq i.factor [0, 1, 2, 3, 4, 5] i.accs i.records <;> rfl

theorem initTr_prune (p : Nat → Bool) (i : Inc) (cur t : Int) : initTr (pruneI p i) cur t = pruneI p (initTr i cur t) := by
  unfold initTr
  have e1 : (pruneI p i).trackers = i.trackers := rfl
  rw [e1]
  cases getTr i.trackers t with
  | some _ => rfl
  | none =>
    simp only
    unfold initialTr
    rw [accValues_prune]
    rfl

end OsmoVerif.CLIncP
