/- Schedule invariant `SInv` of Model/Incentives over all histories: every id is filed under its gauge's start
time; upcoming gauges have paid nothing; active non-perpetual gauges have filled < numEpochs; finished gauges
are non-perpetual with numEpochs − 1 ≤ filled ≤ numEpochs.  Core only. -/
import OsmoVerif.Proofs.IncentivesInv

namespace OsmoVerif.Incentives

def idStart (gs : List Gauge) : List (Nat × Int) := gs.map (fun g => (g.id, g.start))

/-- every id filed in `r` satisfies `P key id`. -/
def RefsAll (P : Int → Nat → Prop) (r : Refs) : Prop := ∀ kv ∈ r, ∀ i ∈ kv.2, P kv.1 i

theorem mem_refsIds {r : Refs} {i : Nat} : i ∈ refsIds r ↔ ∃ kv ∈ r, i ∈ kv.2 := by
  unfold refsIds; simp [List.mem_flatMap]

theorem RefsAll_nil (P : Int → Nat → Prop) : RefsAll P [] := fun _ h => absurd h List.not_mem_nil

theorem RefsAll_cons {P : Int → Nat → Prop} {t : Int} {l : List Nat} {r : Refs} :
    RefsAll P ((t, l) :: r) ↔ (∀ i ∈ l, P t i) ∧ RefsAll P r := by
  unfold RefsAll
  constructor
  · intro h
    exact ⟨fun i hi => h (t, l) (List.mem_cons_self ..) i hi, fun kv hkv => h kv (List.mem_cons_of_mem _ hkv)⟩
  · rintro ⟨h1, h2⟩ kv hkv
    rcases List.mem_cons.mp hkv with rfl | h
    · exact h1
    · exact h2 kv h

theorem RefsAll_mono {P Q : Int → Nat → Prop} {r : Refs} (h : RefsAll P r) (hpq : ∀ t i, P t i → Q t i) : RefsAll Q r :=
  fun kv hkv i hi => hpq _ _ (h kv hkv i hi)

theorem RefsAll_refsAdd {P : Int → Nat → Prop} {r : Refs} {t : Int} {id : Nat} {r' : Refs}
    (hr : RefsAll P r) (hp : P t id) (h : refsAdd r t id = some r') : RefsAll P r' := by
  induction r generalizing r' with
  | nil =>
    simp only [refsAdd] at h; cases h
    exact RefsAll_cons.mpr ⟨fun i hi => by simp only [List.mem_singleton] at hi; subst hi; exact hp, RefsAll_nil P⟩
  | cons hd r ih =>
    obtain ⟨t', l⟩ := hd
    obtain ⟨h1, h2⟩ := RefsAll_cons.mp hr
    simp only [refsAdd] at h
    by_cases c1 : t < t'
    · rw [if_pos c1] at h; cases h
      exact RefsAll_cons.mpr ⟨fun i hi => by simp only [List.mem_singleton] at hi; subst hi; exact hp, hr⟩
    · rw [if_neg c1] at h
      by_cases c2 : t = t'
      · rw [if_pos c2] at h
        split at h
        · cases h
        · cases h
          subst c2
          refine RefsAll_cons.mpr ⟨fun i hi => ?_, h2⟩
          rcases List.mem_append.mp hi with hi' | hi'
          · exact h1 i hi'
          · simp only [List.mem_singleton] at hi'; subst hi'; exact hp
      · rw [if_neg c2] at h
        cases hrr : refsAdd r t id with
        | none => rw [hrr] at h; cases h
        | some r'' =>
          rw [hrr] at h; cases h
          exact RefsAll_cons.mpr ⟨h1, ih h2 hrr⟩

theorem RefsAll_refsAddAll {P : Int → Nat → Prop} {r : Refs} {t : Int} {ids : List Nat} {r' : Refs}
    (hr : RefsAll P r) (hp : ∀ i ∈ ids, P t i) (h : refsAddAll r t ids = some r') : RefsAll P r' := by
  induction ids generalizing r with
  | nil => simp only [refsAddAll] at h; cases h; exact hr
  | cons id ids ih =>
    simp only [refsAddAll] at h
    cases ha : refsAdd r t id with
    | none => rw [ha] at h; cases h
    | some r1 =>
      rw [ha] at h
      exact ih (RefsAll_refsAdd hr (hp id (List.mem_cons_self ..)) ha) (fun i hi => hp i (List.mem_cons_of_mem _ hi)) h

theorem RefsAll_refsDel {P : Int → Nat → Prop} {r : Refs} {t : Int} {id : Nat} {r' : Refs}
    (hr : RefsAll P r) (h : refsDel r t id = some r') : RefsAll P r' := by
  induction r generalizing r' with
  | nil => cases h
  | cons hd r ih =>
    obtain ⟨t', l⟩ := hd
    obtain ⟨h1, h2⟩ := RefsAll_cons.mp hr
    simp only [refsDel] at h
    by_cases c1 : t = t'
    · rw [if_pos c1] at h
      cases hs : swapRemove l id with
      | none => rw [hs] at h; cases h
      | some l' =>
        rw [hs] at h
        simp only [Option.map_some] at h
        cases h
        have hsub : ∀ i ∈ l', i ∈ l := fun i hi => (swapRemove_perm hs).mem_iff.mpr (List.mem_cons_of_mem _ hi)
        split
        · exact h2
        · exact RefsAll_cons.mpr ⟨fun i hi => h1 i (hsub i hi), h2⟩
    · rw [if_neg c1] at h
      cases hrr : refsDel r t id with
      | none => rw [hrr] at h; cases h
      | some r'' =>
        rw [hrr] at h; cases h
        exact RefsAll_cons.mpr ⟨h1, ih h2 hrr⟩

theorem RefsAll_activate {P : Int → Nat → Prop} {now : Int} {up act up' act' : Refs}
    (hu : RefsAll P up) (ha : RefsAll P act) (h : activate now up act = some (up', act')) :
    RefsAll P up' ∧ RefsAll P act' := by
  induction up generalizing act up' act' with
  | nil => simp only [activate] at h; cases h; exact ⟨RefsAll_nil P, ha⟩
  | cons hd r ih =>
    obtain ⟨t, l⟩ := hd
    obtain ⟨h1, h2⟩ := RefsAll_cons.mp hu
    simp only [activate] at h
    by_cases ht : t ≤ now
    · rw [if_pos ht] at h
      cases hx : refsAddAll act t l with
      | none => rw [hx] at h; cases h
      | some act1 =>
        rw [hx] at h
        exact ih h2 (RefsAll_refsAddAll ha h1 hx) h
    · rw [if_neg ht] at h
      cases hx : activate now r act with
      | none => rw [hx] at h; cases h
      | some ua =>
        rw [hx] at h
        obtain ⟨u1, a1⟩ := ua
        simp only [Option.map_some] at h
        cases h
        obtain ⟨i1, i2⟩ := ih h2 ha hx
        exact ⟨RefsAll_cons.mpr ⟨h1, i1⟩, i2⟩

theorem RefsAll_finishLoop {P : Int → Nat → Prop} {store snap : List Gauge} {act fin act' fin' : Refs}
    (ha : RefsAll P act) (hf : RefsAll P fin) (hs : ∀ u ∈ store, P u.start u.id)
    (h : finishLoop store snap act fin = some (act', fin')) : RefsAll P act' ∧ RefsAll P fin' := by
  induction snap generalizing act fin with
  | nil => simp only [finishLoop] at h; cases h; exact ⟨ha, hf⟩
  | cons g gs ih =>
    simp only [finishLoop] at h
    split at h
    · cases hu : getGauge store g.id with
      | none => rw [hu] at h; cases h
      | some u =>
        rw [hu] at h
        simp only at h
        have hum : u ∈ store := by unfold getGauge at hu; exact List.mem_of_find?_eq_some hu
        split at h
        · exact ih ha hf h
        · cases hd : refsDel act u.start u.id with
          | none => rw [hd] at h; cases h
          | some act1 =>
            rw [hd] at h
            cases hx : refsAdd fin u.start u.id with
            | none => rw [hx] at h; cases h
            | some fin1 =>
              rw [hx] at h
              exact ih (RefsAll_refsDel ha hd) (RefsAll_refsAdd hf (hs u hum) hx) h
    · exact ih ha hf h

/-! ### records after the gauge loop -/

theorem eq_of_id_eq {gs : List Gauge} (hn : (gs.map (·.id)).Nodup) {a b : Gauge} (ha : a ∈ gs) (hb : b ∈ gs)
    (h : a.id = b.id) : a = b := by
  induction gs with
  | nil => cases ha
  | cons y t ih =>
    simp only [List.map_cons, List.nodup_cons] at hn
    rcases List.mem_cons.mp ha with rfl | ha'
    · rcases List.mem_cons.mp hb with rfl | hb'
      · rfl
      · exact absurd (List.mem_map.mpr ⟨b, hb', h.symm⟩) hn.1
    · rcases List.mem_cons.mp hb with rfl | hb'
      · exact absurd (List.mem_map.mpr ⟨a, ha', h⟩) hn.1
      · exact ih hn.2 ha' hb'

theorem idStart_setGauge {gs : List Gauge} {g0 g' : Gauge} (hm : g0 ∈ gs) (hn : (gs.map (·.id)).Nodup)
    (hid : g'.id = g0.id) (hst : g'.start = g0.start) : idStart (setGauge gs g') = idStart gs := by
  unfold idStart setGauge
  rw [List.map_map]
  apply List.map_congr_left
  intro x hx
  simp only [Function.comp]
  split
  · rename_i hxi
    -- x and g0 share the id, hence are equal
    have : x = g0 := eq_of_id_eq hn hx hm (hxi.trans hid)
    subst this
    rw [hid, hst]
  · rfl

/-- every record after the loop is an untouched old record or the post-distribution record of a snapshot gauge. -/
theorem distributeLoop_records {thr : MinVal} {locks : List Lock} {snap store : List Gauge} {info : Info}
    {store' : List Gauge} {info' : Info}
    (h : distributeLoop thr locks snap store info = some (store', info'))
    (hn : (store.map (·.id)).Nodup) (hm : ∀ g ∈ snap, g ∈ store) (hsn : (snap.map (·.id)).Nodup) :
    idStart store' = idStart store ∧
    ∀ x ∈ store', x ∈ store ∨ ∃ g ∈ snap, ∃ m total pays, distributeGauge m locks g = some (some (total, pays)) ∧
      x = g.postDistribute total := by
  induction snap generalizing store info thr with
  | nil => simp only [distributeLoop] at h; cases h; exact ⟨rfl, fun x hx => Or.inl hx⟩
  | cons g gs ih =>
    simp only [List.map_cons, List.nodup_cons] at hsn
    have hgs : ∀ x ∈ gs, x ∈ store := fun x hx => hm x (List.mem_cons_of_mem _ hx)
    have hgm : g ∈ store := hm g (List.mem_cons_self ..)
    simp only [distributeLoop] at h
    cases hd : distributeGauge thr locks g with
    | none => rw [hd] at h; cases h
    | some r =>
      rw [hd] at h
      cases r with
      | none =>
        obtain ⟨i1, i2⟩ := ih h hn hgs hsn.2
        refine ⟨i1, fun x hx => ?_⟩
        rcases i2 x hx with h' | ⟨g2, hg2, m2, t, p, hdd, hxx⟩
        · exact Or.inl h'
        · exact Or.inr ⟨g2, List.mem_cons_of_mem _ hg2, m2, t, p, hdd, hxx⟩
      | some tp =>
        obtain ⟨total, pays⟩ := tp
        simp only at h
        have hn1 : ((setGauge store (g.postDistribute total)).map (·.id)).Nodup := by rw [map_id_setGauge]; exact hn
        have hgs1 : ∀ x ∈ gs, x ∈ setGauge store (g.postDistribute total) := by
          intro x hx
          refine mem_setGauge_of_ne (hgs x hx) ?_
          intro hh
          exact hsn.1 (List.mem_map.mpr ⟨x, hx, hh⟩)
        obtain ⟨i1, i2⟩ := ih h hn1 hgs1 hsn.2
        refine ⟨by rw [i1]; exact idStart_setGauge hgm hn rfl rfl, fun x hx => ?_⟩
        rcases i2 x hx with h' | ⟨g2, hg2, m2, t, p, hdd, hxx⟩
        · rcases mem_setGauge h' with rfl | h''
          · exact Or.inr ⟨g, List.mem_cons_self .., thr, total, pays, hd, rfl⟩
          · exact Or.inl h''
        · exact Or.inr ⟨g2, List.mem_cons_of_mem _ hg2, m2, t, p, hdd, hxx⟩

/-- records whose id is not in the snapshot are not touched. -/
theorem distributeLoop_untouched {thr : MinVal} {locks : List Lock} {snap store : List Gauge} {info : Info}
    {store' : List Gauge} {info' : Info}
    (h : distributeLoop thr locks snap store info = some (store', info'))
    {x : Gauge} (hx : x ∈ store) (hni : x.id ∉ snap.map (·.id)) : x ∈ store' := by
  induction snap generalizing store info thr with
  | nil => simp only [distributeLoop] at h; cases h; exact hx
  | cons g gs ih =>
    simp only [List.map_cons, List.mem_cons, not_or] at hni
    simp only [distributeLoop] at h
    cases hd : distributeGauge thr locks g with
    | none => rw [hd] at h; cases h
    | some r =>
      rw [hd] at h
      cases r with
      | none => exact ih h hx hni.2
      | some tp =>
        obtain ⟨total, pays⟩ := tp
        simp only at h
        exact ih h (mem_setGauge_of_ne hx hni.1) hni.2

/-! ### the schedule invariant -/

structure SInv (s : State) : Prop where
  kup : RefsAll (fun t i => (i, t) ∈ idStart s.gauges) s.upcoming
  kact : RefsAll (fun t i => (i, t) ∈ idStart s.gauges) s.active
  kfin : RefsAll (fun t i => (i, t) ∈ idStart s.gauges) s.finished
  up : ∀ g ∈ s.gauges, g.id ∈ refsIds s.upcoming → g.filled = 0 ∧ g.distributed = []
  act : ∀ g ∈ s.gauges, g.id ∈ refsIds s.active → g.perpetual = true ∨ g.filled < g.numEpochs
  fin : ∀ g ∈ s.gauges, g.id ∈ refsIds s.finished → g.perpetual = false ∧ g.filled = g.numEpochs
  pos : ∀ g ∈ s.gauges, g.perpetual = true ∨ 1 ≤ g.numEpochs

theorem SInv_init (cfg : Cfg) (balance : Coins) : SInv (init cfg balance) :=
  ⟨RefsAll_nil _, RefsAll_nil _, RefsAll_nil _, fun _ h => absurd h List.not_mem_nil, fun _ h => absurd h List.not_mem_nil,
   fun _ h => absurd h List.not_mem_nil, fun _ h => absurd h List.not_mem_nil⟩

theorem SInv_create {s s' : State} {p : Bool} {dn : Denom} {du : Int} {c : Coins} {st : Int} {n : Nat}
    (hi : Inv s) (hs : SInv s) (h : createGauge s p dn du c st n = some s') : SInv s' := by
  unfold createGauge at h
  split at h; · cases h
  rename_i hzero
  split at h; · cases h
  split at h; · cases h
  split at h; · cases h
  split at h; · cases h
  simp only at h
  cases ha : refsAdd s.upcoming st (s.lastId + 1) with
  | none => rw [ha] at h; cases h
  | some up =>
    rw [ha] at h
    cases h
    have hp := refsAdd_perm ha
    have mono : ∀ t i, (i, t) ∈ idStart s.gauges → (i, t) ∈ idStart (s.gauges ++ [
        { id := s.lastId + 1, perpetual := p, denom := dn, duration := du, coins := c, distributed := [], start := st,
          numEpochs := n, filled := 0 }]) := by
      intro t i hh
      unfold idStart at *
      rw [List.map_append]
      exact List.mem_append_left _ hh
    have hnew : (s.lastId + 1, st) ∈ idStart (s.gauges ++ [
        { id := s.lastId + 1, perpetual := p, denom := dn, duration := du, coins := c, distributed := [], start := st,
          numEpochs := n, filled := 0 }]) := by
      unfold idStart
      rw [List.map_append]
      exact List.mem_append_right _ (by simp)
    have hold : ∀ g ∈ s.gauges, g.id ≠ s.lastId + 1 := fun g hg hh => by have := hi.idle g hg; omega
    have hnotref : s.lastId + 1 ∉ refsIds s.upcoming ++ refsIds s.active ++ refsIds s.finished := by
      intro hh; have := hi.refle _ hh; omega
    refine ⟨RefsAll_refsAdd (RefsAll_mono hs.kup mono) hnew ha, RefsAll_mono hs.kact mono, RefsAll_mono hs.kfin mono,
      ?_, ?_, ?_, ?_⟩
    · intro g hg hgu
      rcases List.mem_append.mp hg with h1 | h1
      · refine hs.up g h1 ?_
        rcases List.mem_cons.mp (hp.mem_iff.mp hgu) with hh | hh
        · exact absurd hh (hold g h1)
        · exact hh
      · simp only [List.mem_singleton] at h1; subst h1; exact ⟨rfl, rfl⟩
    · intro g hg hga
      rcases List.mem_append.mp hg with h1 | h1
      · exact hs.act g h1 hga
      · simp only [List.mem_singleton] at h1; subst h1
        exact absurd (List.mem_append_left _ (List.mem_append_right _ hga)) hnotref
    · intro g hg hgf
      rcases List.mem_append.mp hg with h1 | h1
      · exact hs.fin g h1 hgf
      · simp only [List.mem_singleton] at h1; subst h1
        exact absurd (List.mem_append_right _ hgf) hnotref
    · intro g hg
      rcases List.mem_append.mp hg with h1 | h1
      · exact hs.pos g h1
      · simp only [List.mem_singleton] at h1; subst h1
        show p = true ∨ 1 ≤ n
        cases p with
        | true => exact Or.inl rfl
        | false =>
          right
          rcases Nat.eq_zero_or_pos n with hz | hz
          · exact absurd ⟨hz, by simp⟩ hzero
          · exact hz

theorem SInv_add {s s' : State} {id : Nat} {c : Coins} {now : Int} (hi : Inv s) (hs : SInv s)
    (h : addToGauge s id c now = some s') : SInv s' := by
  unfold addToGauge at h
  split at h; · cases h
  cases hg : getGauge s.gauges id with
  | none => rw [hg] at h; cases h
  | some g =>
    rw [hg] at h
    simp only at h
    split at h; · cases h
    split at h; · cases h
    cases h
    obtain ⟨hm, _⟩ := getGauge_some hg
    have hst : idStart (setGauge s.gauges { g with coins := addCoins g.coins c }) = idStart s.gauges :=
      idStart_setGauge hm hi.ids rfl rfl
    have hrec : ∀ x ∈ setGauge s.gauges { g with coins := addCoins g.coins c },
        ∃ y ∈ s.gauges, y.id = x.id ∧ y.filled = x.filled ∧ y.distributed = x.distributed ∧
          y.perpetual = x.perpetual ∧ y.numEpochs = x.numEpochs := by
      intro x hx
      rcases mem_setGauge hx with rfl | hx'
      · exact ⟨g, hm, rfl, rfl, rfl, rfl, rfl⟩
      · exact ⟨x, hx', rfl, rfl, rfl, rfl, rfl⟩
    refine ⟨by show RefsAll _ s.upcoming; rw [hst]; exact hs.kup, by show RefsAll _ s.active; rw [hst]; exact hs.kact,
      by show RefsAll _ s.finished; rw [hst]; exact hs.kfin, ?_, ?_, ?_, ?_⟩
    · intro x hx hxu
      obtain ⟨y, hy, e1, e2, e3, _, _⟩ := hrec x hx
      have := hs.up y hy (by rw [e1]; exact hxu)
      rw [← e2, ← e3]; exact this
    · intro x hx hxa
      obtain ⟨y, hy, e1, e2, _, e4, e5⟩ := hrec x hx
      have := hs.act y hy (by rw [e1]; exact hxa)
      rw [← e2, ← e4, ← e5]; exact this
    · intro x hx hxf
      obtain ⟨y, hy, e1, e2, _, e4, e5⟩ := hrec x hx
      have := hs.fin y hy (by rw [e1]; exact hxf)
      rw [← e2, ← e4, ← e5]; exact this
    · intro x hx
      obtain ⟨y, hy, _, _, _, e4, e5⟩ := hrec x hx
      have := hs.pos y hy
      rw [← e4, ← e5]; exact this

theorem finishing_iff (store : List Gauge) (g : Gauge) : finishing store g = true ↔
    g.perpetual = false ∧ g.numEpochs ≤ g.filled + 1 ∧ ∃ u, getGauge store g.id = some u ∧ u.numEpochs ≤ u.filled := by
  unfold finishing
  cases hu : getGauge store g.id with
  | none => simp
  | some u => simp [and_assoc]

theorem mem_finishing_ids {store snap : List Gauge} {i : Nat} :
    i ∈ (snap.filter (finishing store)).map (·.id) ↔ ∃ g ∈ snap, finishing store g = true ∧ g.id = i := by
  simp only [List.mem_map, List.mem_filter]
  constructor
  · rintro ⟨g, ⟨h1, h2⟩, h3⟩; exact ⟨g, h1, h2, h3⟩
  · rintro ⟨g, h1, h2, h3⟩; exact ⟨g, ⟨h1, h2⟩, h3⟩

/-- the record stored under an id that occurs once. -/
theorem getGauge_of_mem {gs : List Gauge} (hn : (gs.map (·.id)).Nodup) {x : Gauge} (hx : x ∈ gs) :
    getGauge gs x.id = some x := by
  cases h : getGauge gs x.id with
  | none =>
    unfold getGauge at h
    have := List.find?_eq_none.mp h x hx
    simp at this
  | some y =>
    obtain ⟨hy, hid⟩ := getGauge_some h
    rw [eq_of_id_eq hn hy hx hid]

/-- the membership facts of one successful epoch, collected once. -/
structure EpochFacts (s : State) (now : Int) (up act act' fin : Refs) (snap store : List Gauge) : Prop where
  upEq : up = s.upcoming.filter (fun kv => decide (now < kv.1))
  upSub : ∀ i ∈ refsIds up, i ∈ refsIds s.upcoming
  actFrom : ∀ i ∈ refsIds act, i ∈ refsIds s.upcoming ∨ i ∈ refsIds s.active
  actNotUp : ∀ i ∈ refsIds act, i ∉ refsIds up
  actNotFin : ∀ i ∈ refsIds act, i ∉ refsIds s.finished
  act'Sub : ∀ i ∈ refsIds act', i ∈ refsIds act
  act'NotF : ∀ i ∈ refsIds act', i ∉ (snap.filter (finishing store)).map (·.id)
  actSplit : ∀ i ∈ refsIds act, i ∈ (snap.filter (finishing store)).map (·.id) ∨ i ∈ refsIds act'
  finIff : ∀ i, i ∈ refsIds fin ↔ i ∈ (snap.filter (finishing store)).map (·.id) ∨ i ∈ refsIds s.finished
  snapIds : snap.map (·.id) = refsIds act
  snapMem : ∀ g ∈ snap, g ∈ s.gauges
  snapNodup : (snap.map (·.id)).Nodup
  keepActive : ∀ i ∈ refsIds s.active, i ∈ refsIds act

theorem filter_refsIds_sub {r : Refs} {p : Int × List Nat → Bool} {i : Nat} (h : i ∈ refsIds (r.filter p)) : i ∈ refsIds r := by
  obtain ⟨kv, hkv, hi⟩ := mem_refsIds.mp h
  exact mem_refsIds.mpr ⟨kv, (List.mem_filter.mp hkv).1, hi⟩

theorem refsAddAll_keeps {r : Refs} {t : Int} {ids : List Nat} {r' : Refs} (h : refsAddAll r t ids = some r') :
    ∀ i ∈ refsIds r, i ∈ refsIds r' :=
  fun _ hi => (refsAddAll_perm h).mem_iff.mpr (List.mem_append_right _ hi)

theorem activate_keeps {now : Int} {up act up' act' : Refs} (h : activate now up act = some (up', act')) :
    ∀ i ∈ refsIds act, i ∈ refsIds act' := by
  induction up generalizing act up' act' with
  | nil => simp only [activate] at h; cases h; exact fun i hi => hi
  | cons hd r ih =>
    obtain ⟨t, l⟩ := hd
    simp only [activate] at h
    by_cases ht : t ≤ now
    · rw [if_pos ht] at h
      cases hx : refsAddAll act t l with
      | none => rw [hx] at h; cases h
      | some act1 =>
        rw [hx] at h
        exact fun i hi => ih h i (refsAddAll_keeps hx i hi)
    · rw [if_neg ht] at h
      cases hx : activate now r act with
      | none => rw [hx] at h; cases h
      | some ua =>
        rw [hx] at h
        obtain ⟨u1, a1⟩ := ua
        simp only [Option.map_some] at h
        cases h
        exact ih hx

theorem epochFacts {s : State} {now : Int} {up act act' fin : Refs} {snap store : List Gauge} (hi : Inv s)
    (h1 : activate now s.upcoming s.active = some (up, act)) (h2 : snapshot s.gauges (refsIds act) = some snap)
    (h5 : finishLoop store snap act s.finished = some (act', fin)) : EpochFacts s now up act act' fin snap store := by
  have p1 := activate_perm h1
  obtain ⟨p2, p3⟩ := finishLoop_perm h5
  have hmid : (refsIds up ++ refsIds act ++ refsIds s.finished).Nodup :=
    (p1.append_right _).symm.nodup hi.refs
  obtain ⟨hsid, hsm⟩ := snapshot_spec h2
  have hue := activate_upcoming h1
  have hactn : (refsIds act).Nodup := by
    rw [List.append_assoc, List.nodup_append] at hmid
    exact (List.nodup_append.mp hmid.2.1).1
  have hFA : ((snap.filter (finishing store)).map (·.id) ++ refsIds act').Nodup := p2.nodup hactn
  refine ⟨hue, ?_, ?_, ?_, ?_, ?_, ?_, ?_, ?_, hsid, hsm, by rw [hsid]; exact hactn, activate_keeps h1⟩
  · intro i hh; rw [hue] at hh; exact filter_refsIds_sub hh
  · intro i hh
    exact List.mem_append.mp (p1.mem_iff.mp (List.mem_append_right _ hh))
  · intro i hh hu
    rw [List.append_assoc, List.nodup_append] at hmid
    exact hmid.2.2 i hu i (List.mem_append_left _ hh) rfl
  · intro i hh hf
    rw [List.nodup_append] at hmid
    exact hmid.2.2 i (List.mem_append_right _ hh) i hf rfl
  · intro i hh; exact p2.mem_iff.mpr (List.mem_append_right _ hh)
  · intro i hh hf
    exact (List.nodup_append.mp hFA).2.2 i hf i hh rfl
  · intro i hh; exact List.mem_append.mp (p2.mem_iff.mp hh)
  · intro _; rw [p3.mem_iff, List.mem_append]

theorem SInv_epoch {s s' : State} {now : Int} {thr : Quotes} {locks : List Lock} {info : Info} (hi : Inv s) (hs : SInv s)
    (h : epoch s now thr locks = some (s', info)) : SInv s' := by
  obtain ⟨up, act, snap, store, bal, act', fin, h1, h2, h3, h4, h5, rfl⟩ := epoch_unfold h
  have F := epochFacts hi h1 h2 h5
  obtain ⟨hst, hrec⟩ := distributeLoop_records h3 hi.ids F.snapMem F.snapNodup
  -- static fields of every new record come from an old record with the same id
  have hsnapid : ∀ g ∈ snap, g.id ∈ refsIds act := fun g hg => by rw [← F.snapIds]; exact List.mem_map.mpr ⟨g, hg, rfl⟩
  have kact0 : RefsAll (fun t i => (i, t) ∈ idStart s.gauges) act := (RefsAll_activate hs.kup hs.kact h1).2
  have kup0 : RefsAll (fun t i => (i, t) ∈ idStart s.gauges) up := (RefsAll_activate hs.kup hs.kact h1).1
  have ksnap : ∀ g ∈ snap, (g.id, g.start) ∈ idStart s.gauges := fun g hg =>
    List.mem_map.mpr ⟨g, F.snapMem g hg, rfl⟩
  have kstore : ∀ u ∈ store, (u.id, u.start) ∈ idStart s.gauges := fun u hu => by
    rw [← hst]; exact List.mem_map.mpr ⟨u, hu, rfl⟩
  obtain ⟨kact1, kfin1⟩ := RefsAll_finishLoop kact0 hs.kfin kstore h5
  have hstoreids : (store.map (·.id)).Nodup := by
    have e : ∀ l : List Gauge, l.map (·.id) = (idStart l).map (·.1) := fun l => by
      unfold idStart; rw [List.map_map]; rfl
    rw [e, hst, ← e]; exact hi.ids
  -- state of a snapshot gauge before the epoch
  have hsnapstate : ∀ g ∈ snap, g.perpetual = true ∨ g.filled < g.numEpochs := by
    intro g hg
    rcases F.actFrom g.id (hsnapid g hg) with hu | ha
    · have := hs.up g (F.snapMem g hg) hu
      rcases hs.pos g (F.snapMem g hg) with hp | hp
      · exact Or.inl hp
      · right; omega
    · exact hs.act g (F.snapMem g hg) ha
  refine ⟨by show RefsAll _ up; rw [hst]; exact kup0, by show RefsAll _ act'; rw [hst]; exact kact1,
    by show RefsAll _ fin; rw [hst]; exact kfin1, ?_, ?_, ?_, ?_⟩
  · -- upcoming
    intro x hx hxu
    rcases hrec x hx with hold | ⟨g, hg, _, total, pays, _, rfl⟩
    · exact hs.up x hold (F.upSub _ hxu)
    · exact absurd hxu (F.actNotUp _ (hsnapid g hg))
  · -- active
    intro x hx hxa
    have hxact := F.act'Sub _ hxa
    rcases hrec x hx with hold | ⟨g, hg, _, total, pays, _, rfl⟩
    · rcases F.actFrom _ hxact with hu | ha
      · have := hs.up x hold hu
        rcases hs.pos x hold with hp | hp
        · exact Or.inl hp
        · right; omega
      · exact hs.act x hold ha
    · have hxs : g.postDistribute total ∈ store := hx
      have hnf : ¬ finishing store g = true := fun hf =>
        F.act'NotF _ hxa (mem_finishing_ids.mpr ⟨g, hg, hf, rfl⟩)
      rw [finishing_iff] at hnf
      have hre : getGauge store g.id = some (g.postDistribute total) := getGauge_of_mem hstoreids hxs
      show g.perpetual = true ∨ g.filled + 1 < g.numEpochs
      cases hp : g.perpetual with
      | true => exact Or.inl rfl
      | false =>
        right
        apply Nat.lt_of_not_le
        intro hle
        exact hnf ⟨hp, hle, _, hre, hle⟩
  · -- finished
    intro x hx hxf
    rcases (F.finIff _).mp hxf with hF | hold
    · obtain ⟨g, hg, hfin, hgid⟩ := mem_finishing_ids.mp hF
      obtain ⟨hnp, hle, u, hu, hule⟩ := (finishing_iff store g).mp hfin
      have hlt : g.filled < g.numEpochs := by
        rcases hsnapstate g hg with hp | hp
        · rw [hnp] at hp; cases hp
        · exact hp
      have hxu : u = x := by
        have hxs : x ∈ store := hx
        have := getGauge_of_mem hstoreids hxs
        rw [← hgid, hu] at this
        exact Option.some.inj this
      subst hxu
      rcases hrec u hx with hxold | ⟨g2, hg2, _, total, pays, _, hue⟩
      · have : u = g := eq_of_id_eq hi.ids hxold (F.snapMem g hg) hgid.symm
        subst this
        omega
      · have : g2 = g := by
          refine eq_of_id_eq hi.ids (F.snapMem g2 hg2) (F.snapMem g hg) ?_
          have e1 : u.id = g2.id := by rw [hue]; rfl
          exact e1.symm.trans hgid.symm
        subst this
        subst hue
        show g2.perpetual = false ∧ g2.filled + 1 = g2.numEpochs
        exact ⟨hnp, by omega⟩
    · rcases hrec x hx with hxold | ⟨g, hg, _, total, pays, _, rfl⟩
      · exact hs.fin x hxold hold
      · exact absurd hold (F.actNotFin _ (hsnapid g hg))
  · intro x hx
    rcases hrec x hx with hxold | ⟨g, hg, _, total, pays, _, rfl⟩
    · exact hs.pos x hxold
    · exact hs.pos g (F.snapMem g hg)

theorem SInv_step {s : State} (hi : Inv s) (hs : SInv s) (o : Op) : SInv (step s o) := by
  cases o with
  | routes r => exact ⟨hs.kup, hs.kact, hs.kfin, hs.up, hs.act, hs.fin, hs.pos⟩
  | create p dn du c st n =>
    simp only [step]
    cases h : createGauge s p dn du c st n with
    | none => exact hs
    | some s' => exact SInv_create hi hs h
  | add id c now =>
    simp only [step]
    cases h : addToGauge s id c now with
    | none => exact hs
    | some s' => exact SInv_add hi hs h
  | epoch now thr locks =>
    simp only [step]
    cases h : epoch s now thr locks with
    | none => exact hs
    | some r => obtain ⟨s', info⟩ := r; exact SInv_epoch hi hs h

theorem SInv_run {s : State} (hi : Inv s) (hs : SInv s) (ops : List Op) : SInv (run s ops) := by
  unfold run
  induction ops generalizing s with
  | nil => exact hs
  | cons o ops ih => exact ih (Inv_step hi o) (SInv_step hi hs o)

end OsmoVerif.Incentives
