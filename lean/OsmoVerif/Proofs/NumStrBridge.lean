/-
Bridge between the model's `String` codec (`BigDec.toStr`, `BigDec.fromStr`, `digitsToNat?`) and the
`List Char` reference codec of `Proofs/NumStrList.lean`, for ALL strings:

  `splitOn_char`       legacy `String.splitOn s (singleton c)` = `List.splitOn` on `s.toList` (Batteries has the
                       byte-position lemmas `get/next/atEnd/extract_of_valid` but leaves `splitOn` as a TODO)
  `fromStr_eq_parseU`  `BigDec.fromStr s = (parseU 36 s.toList).bind chkBigInt`
  `toStr_eq_ofList`    `BigDec.toStr a = String.ofList (toChars 36 a)`
-/
import OsmoVerif.Proofs.NumStrList
import Batteries.Data.String.Lemmas
set_option linter.deprecated false
namespace OsmoVerif.NumStr
open String OsmoVerif.Num OsmoVerif.Gen

theorem get_zero_singleton (c : Char) : Pos.Raw.get (String.singleton c) 0 = c := by
  rw [String.singleton_eq_ofList]
  exact get_of_valid [] [c]

theorem next_zero_singleton (c : Char) : Pos.Raw.next (String.singleton c) 0 = ⟨c.utf8Size⟩ := by
  rw [String.singleton_eq_ofList]
  have := next_of_valid [] c []
  simp only [List.nil_append, utf8Len_nil, Nat.zero_add] at this
  exact this

theorem atEnd_singleton (c : Char) : Pos.Raw.atEnd (String.singleton c) ⟨c.utf8Size⟩ = true := by
  rw [String.singleton_eq_ofList]
  have := (atEnd_of_valid [c] []).2 rfl
  simpa [-ofList_append] using this

theorem splitOnAux_char (c : Char) (r : List Char) : ∀ (l m : List Char) (acc : List String),
    String.splitOnAux (ofList (l ++ m ++ r)) (String.singleton c) ⟨utf8Len l⟩ ⟨utf8Len l + utf8Len m⟩ 0 acc =
      acc.reverse ++ (List.splitOnPPrepend (· == c) r m.reverse).map ofList := by
  induction r with
  | nil =>
    intro l m acc
    rw [String.splitOnAux]
    have h1 : Pos.Raw.atEnd (ofList (l ++ m ++ [])) ⟨utf8Len l + utf8Len m⟩ = true := by
      have := (atEnd_of_valid (l ++ m) []).2 rfl
      simpa [utf8Len_append] using this
    rw [if_pos h1]
    rw [extract_of_valid l m []]
    simp
  | cons d r ih =>
    intro l m acc
    rw [String.splitOnAux]
    have h1 : ¬ Pos.Raw.atEnd (ofList (l ++ m ++ d :: r)) ⟨utf8Len l + utf8Len m⟩ = true := by
      have := (atEnd_of_valid (l ++ m) (d :: r))
      simpa [utf8Len_append] using this
    rw [if_neg h1]
    have hg : Pos.Raw.get (ofList (l ++ m ++ d :: r)) ⟨utf8Len l + utf8Len m⟩ = d := by
      have := get_of_valid (l ++ m) (d :: r)
      simpa [utf8Len_append] using this
    have hn : Pos.Raw.next (ofList (l ++ m ++ d :: r)) ⟨utf8Len l + utf8Len m⟩ = ⟨utf8Len l + utf8Len m + d.utf8Size⟩ := by
      have := next_of_valid (l ++ m) d r
      simpa [utf8Len_append] using this
    rw [hg, get_zero_singleton]
    by_cases hdc : d = c
    · subst hdc
      rw [if_pos (by simp)]
      simp only [hn, next_zero_singleton, atEnd_singleton, if_true]
      have hu : (⟨utf8Len l + utf8Len m + d.utf8Size⟩ : Pos.Raw).unoffsetBy ⟨d.utf8Size⟩ = ⟨utf8Len l + utf8Len m⟩ := by
        simp [Pos.Raw.unoffsetBy]
      rw [hu]
      have he := extract_of_valid l m (d :: r)
      rw [he]
      have := ih (l ++ m ++ [d]) [] (ofList m :: acc)
      simp only [List.append_assoc, List.singleton_append, List.append_nil, utf8Len_append, utf8Len_cons, utf8Len_nil,
        Nat.add_zero, List.reverse_nil, Nat.zero_add] at this
      rw [← Nat.add_assoc] at this
      simp only [List.append_assoc]
      rw [this, List.splitOnPPrepend_cons_pos (by simp)]
      simp
    · rw [if_neg (by simpa using hdc)]
      have hu : (⟨utf8Len l + utf8Len m⟩ : Pos.Raw).unoffsetBy 0 = ⟨utf8Len l + utf8Len m⟩ := by
        simp [Pos.Raw.unoffsetBy]
      rw [hu, hn]
      have := ih l (m ++ [d]) acc
      simp only [List.append_assoc, List.singleton_append, utf8Len_append, utf8Len_cons, utf8Len_nil,
        Nat.zero_add] at this
      rw [← Nat.add_assoc] at this
      simp only [List.append_assoc]
      rw [this, List.splitOnPPrepend_cons_neg (by simpa using hdc)]
      simp

theorem splitOn_char (s : String) (c : Char) :
    s.splitOn (String.singleton c) = (s.toList.splitOn c).map ofList := by
  unfold String.splitOn
  have hne : (String.singleton c == "") = false := by
    rw [String.singleton_eq_ofList]
    simp [← String.toList_inj]
  rw [hne]
  have := splitOnAux_char c s.toList [] [] []
  simpa [List.splitOn_eq_splitOnP] using this



/-- the fold step of `digitsToNat?`. -/
def digStep (acc : Option Nat) (c : Char) : Option Nat :=
  acc.bind fun n => if c.isDigit then some (n * 10 + (c.toNat - '0'.toNat)) else none

theorem foldl_digStep_none (cs : List Char) : cs.foldl digStep none = none := by
  induction cs with
  | nil => rfl
  | cons c cs ih => simpa [digStep] using ih

theorem foldl_digStep_some (cs : List Char) (k : Nat) :
    cs.foldl digStep (some k) = if cs.all Char.isDigit then some (Nat.ofDigitChars 10 cs k) else none := by
  induction cs generalizing k with
  | nil => simp
  | cons c cs ih =>
    simp only [List.foldl_cons, List.all_cons, Nat.ofDigitChars_cons]
    by_cases hc : c.isDigit = true
    · have : digStep (some k) c = some (10 * k + (c.toNat - '0'.toNat)) := by
        simp [digStep, hc, Nat.mul_comm]
      rw [this, ih, hc]; simp
    · have : digStep (some k) c = none := by simp [digStep, hc]
      rw [this, foldl_digStep_none]; simp [hc]

theorem isEmpty_iff_toList (s : String) : s.isEmpty = true ↔ s.toList = [] := by
  rw [String.isEmpty_iff, ← String.toList_inj]; simp

theorem digitsToNat?_eq (s : String) : digitsToNat? s = digitsVal? s.toList := by
  unfold digitsToNat? digitsVal?
  by_cases h : s.toList = []
  · rw [if_pos ((isEmpty_iff_toList s).2 h), if_pos h]
  · rw [if_neg (fun hh => h ((isEmpty_iff_toList s).1 hh)), if_neg h, String.foldl_eq_foldl_toList]
    exact foldl_digStep_some s.toList 0

theorem fitsBits_neg (n : Nat) (v : Int) : fitsBits n (-v) = fitsBits n v := by
  unfold fitsBits; rw [Int.natAbs_neg]

/-- the part of `fromStr` after the sign has been removed. -/
def fromBody (neg : Bool) (body : String) : Option Int :=
  if body.isEmpty then none else
  match body.splitOn "." with
  | [ip] =>
    match digitsToNat? ip with
    | some n =>
      let v : Int := (n : Int) * P36
      if fitsBits Osmomath.maxBitLen v then some (if neg then -v else v) else none
    | none => none
  | [ip, fp] =>
    if fp.isEmpty || ip.isEmpty || fp.length > Osmomath.BigDecPrecision then none else
    match digitsToNat? (ip ++ fp) with
    | some n =>
      let v : Int := (n : Int) * 10 ^ (Osmomath.BigDecPrecision - fp.length)
      if fitsBits Osmomath.maxBitLen v then some (if neg then -v else v) else none
    | none => none
  | _ => none

theorem fromStr_eq_fromBody (s : String) : BigDec.fromStr s =
    if s.isEmpty then none else
      if s.front = '-' then fromBody true (s.drop 1).toString else fromBody false s := by
  unfold BigDec.fromStr fromBody
  by_cases h : s.isEmpty = true
  · simp [h]
  · rw [if_neg h, if_neg h]
    by_cases h2 : s.front = '-'
    · rw [if_pos h2, if_pos h2]; rfl
    · rw [if_neg h2, if_neg h2]; rfl

theorem chk_signed (neg : Bool) (n : Nat) (v : Int) (hv : v = (n : Int)) :
    (if fitsBits Osmomath.maxBitLen v then some (if neg then -v else v) else none) = chkBigInt (signed neg n) := by
  subst hv
  unfold chkBigInt signed
  cases neg
  · simp
  · simp [fitsBits_neg]

theorem fromBody_eq (neg : Bool) (body : String) :
    fromBody neg body = if body.toList = [] then none else
      ((parseAbs Osmomath.BigDecPrecision body.toList).map (signed neg)).bind chkBigInt := by
  unfold fromBody
  by_cases h : body.toList = []
  · rw [if_pos ((isEmpty_iff_toList body).2 h), if_pos h]
  · rw [if_neg (fun hh => h ((isEmpty_iff_toList body).1 hh)), if_neg h]
    rw [show "." = String.singleton '.' from rfl, splitOn_char]
    unfold parseAbs
    generalize body.toList.splitOn '.' = L
    match L with
    | [] => rfl
    | [ip] =>
      simp only [List.map, digitsToNat?_eq, String.toList_ofList]
      cases digitsVal? ip with
      | none => rfl
      | some n =>
        simp only [Option.map_some, Option.bind_some]
        exact chk_signed neg _ _ (by unfold P36; simp)
    | [ip, fp] =>
      simp only [List.map, ← String.ofList_append, digitsToNat?_eq, String.toList_ofList, String.length_ofList]
      by_cases hc : fp = [] ∨ ip = [] ∨ Osmomath.BigDecPrecision < fp.length
      · rw [if_pos hc, if_pos]
        · rfl
        · simpa [isEmpty_iff_toList, or_assoc] using hc
      · rw [if_neg hc, if_neg (by simpa [isEmpty_iff_toList, or_assoc] using hc)]
        cases digitsVal? (ip ++ fp) with
        | none => rfl
        | some n =>
          simp only [Option.map_some, Option.bind_some]
          exact chk_signed neg _ _ (by simp)
    | _ :: _ :: _ :: _ => rfl

theorem fromStr_eq_parseU (s : String) :
    BigDec.fromStr s = (parseU Osmomath.BigDecPrecision s.toList).bind chkBigInt := by
  rw [fromStr_eq_fromBody]
  by_cases h : s.toList = []
  · rw [if_pos ((isEmpty_iff_toList s).2 h), h]; rfl
  · rw [if_neg (fun hh => h ((isEmpty_iff_toList s).1 hh))]
    obtain ⟨c, rest, hcr⟩ := List.exists_cons_of_ne_nil h
    have hf : s.front = c := by
      rw [String.front_eq, String.front?_eq, hcr]; rfl
    have hd : (s.drop 1).toString.toList = rest := by
      show (s.drop 1).copy.toList = rest
      rw [String.toList_copy_drop, hcr]; rfl
    rw [hf, fromBody_eq, fromBody_eq, hd, hcr]
    unfold parseU
    by_cases hc : c = '-'
    · simp only [if_pos hc]
      by_cases hr : rest = []
      · simp [hr]
      · simp [hr]
    · simp only [if_neg hc]
      simp


theorem natDigits_eq (n : Nat) : natDigits n = ofList (Nat.toDigits 10 n) := rfl

theorem toStr_eq_ofList (a : Int) : BigDec.toStr a = ofList (toChars Osmomath.BigDecPrecision a) := by
  unfold BigDec.toStr toChars absChars fracChars
  simp only [natDigits_eq, String.length_ofList]
  rw [show ("." : String) = ofList ['.'] from rfl]
  by_cases ha : a < 0
  · rw [if_pos ha, if_pos ha, show ("-" : String) = ofList ['-'] from rfl]
    simp only [← String.ofList_append, List.append_assoc, List.cons_append, List.nil_append]
  · rw [if_neg ha, if_neg ha, show ("" : String) = ofList [] from rfl]
    simp only [← String.ofList_append, List.append_assoc, List.cons_append, List.nil_append]

theorem prec_pos : 0 < Osmomath.BigDecPrecision := by decide
theorem dot_toList : (".": String).toList = ['.'] := rfl
theorem dash_toList : ("-": String).toList = ['-'] := rfl

theorem fromStr_of_parseU_none {s : String} (h : parseU Osmomath.BigDecPrecision s.toList = none) :
    BigDec.fromStr s = none := by
  rw [fromStr_eq_parseU, h]; rfl

end OsmoVerif.NumStr
