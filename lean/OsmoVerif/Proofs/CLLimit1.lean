/-
C03 with a caller-supplied price limit, part 1 (step arithmetic).
With the execution limit the step target is always the sqrt price of an initialised tick, and the loop's own guard
(`ComputedSqrtPriceInequalityError`) rejects a step that passes it.  With a limit strictly inside the bucket the
target is the LIMIT, and the guard does not look at it.  What the step functions themselves guarantee:
* the round-up amount deltas are monotone in the price interval (`amount0_roundUp_mono`, `amount1_roundUp_mono`);
* exact-in: a step that ends strictly BEYOND its target has consumed everything that remained (for a zero spread
  factor even more than remained, which fails the swap) — `stepOutGivenIn_pass`;
* exact-out, zero-for-one: the step never passes its target — `stepInGivenOut_zfo_nopass`.
(exact-out, one-for-zero: Proofs/CLLimit2.lean.)
-/
import OsmoVerif.Proofs.CLRound5

namespace OsmoVerif.CLLimit
open OsmoVerif.CL OsmoVerif.Num OsmoVerif.Gen OsmoVerif.Spec OsmoVerif.Props

/-! ## monotone ceilings -/

theorem ceil_mono {n n' d r r' : Int} (hd : 0 < d) (h : IsCeil n d r) (h' : IsCeil n' d r') (hn : n ≤ n') : r ≤ r' := by
  have h1 : (r - 1) * d < r' * d := by have := h.1; have := h'.2; omega
  have := lt_of_mul_lt_mul_pos hd h1
  omega

/-- larger numerator, smaller divisor. -/
theorem ceil_mono_div {n n' d d' r r' : Int} (hd' : 0 < d') (hdd : d' ≤ d) (hn0 : 0 ≤ n') (h : IsCeil n d r)
    (h' : IsCeil n' d' r') (hn : n ≤ n') : r ≤ r' := by
  have r0 : 0 ≤ r' := ceil_nonneg hd' hn0 h'
  have h2 : r' * d' ≤ r' * d := Int.mul_le_mul_of_nonneg_left hdd r0
  have h1 : (r - 1) * d < r' * d := by have := h.1; have := h'.2; omega
  have := lt_of_mul_lt_mul_pos (by omega : 0 < d) h1
  omega

/-- token1 rounded up is monotone in the width of the price interval. -/
theorem amount1_roundUp_mono {liq a b a' b' r r' : Int} (hl : 0 ≤ liq)
    (hw : ((b - a).natAbs : Int) ≤ ((b' - a').natAbs : Int))
    (h : calcAmount1Delta liq a b true = some r) (h' : calcAmount1Delta liq a' b' true = some r') : r ≤ r' := by
  rw [calcAmount1Delta_roundUp_eq] at h h'
  obtain ⟨d, hd, h1⟩ := Option.bind_eq_some_iff.mp h
  obtain ⟨x, hx, hr⟩ := Option.bind_eq_some_iff.mp h1
  obtain ⟨d', hd', h1'⟩ := Option.bind_eq_some_iff.mp h'
  obtain ⟨x', hx', hr'⟩ := Option.bind_eq_some_iff.mp h1'
  have ed := C12.sub_exact hd
  have ed' := C12.sub_exact hd'
  subst ed; subst ed'
  have cx : IsCeil _ _ _ := C12.mulRoundUpDec_ceil hx
  have cx' : IsCeil _ _ _ := C12.mulRoundUpDec_ceil hx'
  obtain ⟨k, hk, ck⟩ := C12.ceil_ceil hr
  obtain ⟨k', hk', ck'⟩ := C12.ceil_ceil hr'
  have hxx : x ≤ x' := ceil_mono P18_pos cx cx' (Int.mul_le_mul_of_nonneg_right hw hl)
  have hkk : k ≤ k' := ceil_mono P36_pos ck ck' hxx
  rw [hk, hk']
  exact Int.mul_le_mul_of_nonneg_right hkk P36_nonneg

/-- token0 rounded up (sorted, common upper price): monotone when the lower price moves down. -/
theorem amount0_roundUp_mono_sorted {liq a a' b r r' : Int} (ha' : 0 < a') (haa : a' ≤ a) (hab : a ≤ b) (hl : 0 ≤ liq)
    (h : calcAmount0Delta liq a b true = some r) (h' : calcAmount0Delta liq a' b true = some r') : r ≤ r' := by
  rw [calcAmount0Delta_roundUp_eq hab] at h
  rw [calcAmount0Delta_roundUp_eq (by omega : a' ≤ b)] at h'
  obtain ⟨d, hd, h1⟩ := Option.bind_eq_some_iff.mp h
  obtain ⟨x, hx, h2⟩ := Option.bind_eq_some_iff.mp h1
  obtain ⟨y, hy, hr⟩ := Option.bind_eq_some_iff.mp h2
  obtain ⟨d', hd', h1'⟩ := Option.bind_eq_some_iff.mp h'
  obtain ⟨x', hx', h2'⟩ := Option.bind_eq_some_iff.mp h1'
  obtain ⟨y', hy', hr'⟩ := Option.bind_eq_some_iff.mp h2'
  have hb : 0 < b := by omega
  have ha : 0 < a := by omega
  have ed := C12.sub_exact hd
  have ed' := C12.sub_exact hd'
  subst ed; subst ed'
  have cx := C12.mulRoundUpDec_ceil hx
  have cx' := C12.mulRoundUpDec_ceil hx'
  have cy := quoRoundUpMut_ceil_pos hb hy
  have cy' := quoRoundUpMut_ceil_pos hb hy'
  obtain ⟨k, hk, ck⟩ := quoRoundUpNextInt_ceil_pos ha hr
  obtain ⟨k', hk', ck'⟩ := quoRoundUpNextInt_ceil_pos ha' hr'
  have hdl' : 0 ≤ (b - a') * liq := Int.mul_nonneg (by omega) hl
  have x0' : 0 ≤ x' := ceil_nonneg P18_pos hdl' cx'
  have y0' : 0 ≤ y' := ceil_nonneg hb (Int.mul_nonneg x0' P36_nonneg) cy'
  have hxx : x ≤ x' := ceil_mono P18_pos cx cx' (Int.mul_le_mul_of_nonneg_right (by omega) hl)
  have hyy : y ≤ y' := ceil_mono hb cy cy' (Int.mul_le_mul_of_nonneg_right hxx P36_nonneg)
  have hkk : k ≤ k' := ceil_mono_div ha' haa y0' ck ck' hyy
  rw [hk, hk']
  exact Int.mul_le_mul_of_nonneg_right hkk P36_nonneg

/-- the in-token delta (rounded up) between `sp` and a price further away in the swap direction is at least the
delta up to a nearer price. -/
theorem deltaIn_mono {zfo : Bool} {liq sp near far x0 x : Int} (hl : 0 ≤ liq) (hfar : 0 < far)
    (hdir : if zfo then far ≤ near ∧ near ≤ sp else sp ≤ near ∧ near ≤ far)
    (h0 : deltaIn zfo liq near sp = some x0) (h : deltaIn zfo liq far sp = some x) : x0 ≤ x := by
  unfold deltaIn at h0 h
  cases zfo
  · simp only [Bool.false_eq_true, ↓reduceIte] at h0 h hdir
    exact amount1_roundUp_mono hl (by omega) h0 h
  · simp only [↓reduceIte] at h0 h hdir
    exact amount0_roundUp_mono_sorted hfar hdir.1 hdir.2 hl h0 h

/-! ## exact-in: passing the target consumes everything -/

/-- An out-given-in step whose target lies in the swap direction and which ends strictly BEYOND it took the
"target not reached" branch with an amount in of at least the amount needed for the target, which exceeds what
remained after the spread factor: the whole remaining amount is consumed — for a positive spread factor exactly
(the charge is the rest), for a zero spread factor more than remained (the swap then fails on the negative
remainder). -/
theorem stepOutGivenIn_pass {zfo : Bool} {spf sp target liq remaining : Int} {r : StepResult}
    (hl : 0 ≤ liq) (hsp : 0 < sp) (ht : 0 < target) (hs0 : 0 ≤ spf) (hs1 : spf < P18) (hrem : 0 ≤ remaining)
    (hdir : if zfo then target ≤ sp else sp ≤ target)
    (h : stepOutGivenIn zfo spf sp target liq remaining = some r)
    (hpass : if zfo then r.sqrtPriceNext < target else target < r.sqrtPriceNext) :
    (0 < spf → remaining - (r.amountSpecified + r.spreadCharge) = 0) ∧
    (spf = 0 → remaining - (r.amountSpecified + r.spreadCharge) < 0) := by
  have hn := stepOutGivenIn_next_pos' hl hsp ht hs1 hrem h
  obtain ⟨x, y, amtIn0, oneMinus, hx, hy, cS, cO, hch, h0, hone, hnext⟩ := stepOutGivenIn_decomp h
  have hne : target ≠ r.sqrtPriceNext := by
    cases zfo
    · simp only [Bool.false_eq_true, ↓reduceIte] at hpass; omega
    · simp only [↓reduceIte] at hpass; omega
  have hlt : remaining * oneMinus < amtIn0 := by
    by_cases hc : remaining * oneMinus ≥ amtIn0
    · rw [if_pos hc] at hnext; injection hnext with e; exact absurd e hne
    · omega
  have hmono : amtIn0 ≤ x := by
    refine deltaIn_mono hl hn ?_ h0 hx
    cases zfo
    · simp only [Bool.false_eq_true, ↓reduceIte] at hpass hdir ⊢; omega
    · simp only [↓reduceIte] at hpass hdir ⊢; omega
  have hS : x ≤ r.amountSpecified * Pdiff := cS.2
  obtain ⟨g, k, k0, ek⟩ := inGe_of_deltaIn hn hsp hl hx cS
  have a0 : 0 ≤ r.amountSpecified := by rw [ek]; exact Int.mul_nonneg k0 P18_nonneg
  obtain ⟨c0, cz, _, cn⟩ := spreadChargeOutGivenIn_spec a0 hs0 hs1 hch
  refine ⟨fun hpos => ?_, fun hz => ?_⟩
  · have := cn (decide_eq_false hne) hpos
    omega
  · have hc := cz hz
    subst hz
    subst hone
    rw [Pdiff_eq_P18] at hS
    have h1 : remaining * P18 < r.amountSpecified * P18 := by
      have : remaining * (P18 - 0) = remaining * P18 := by rw [Int.sub_zero]
      omega
    have := lt_of_mul_lt_mul_pos P18_pos h1
    omega

/-! ## exact-out, zero-for-one: the target is never passed -/

theorem stepInGivenOut_zfo_nopass {spf sp target liq remainingOut : Int} {r : StepResult}
    (hl : 0 ≤ liq) (hsp : 0 < sp) (ht : 0 < target) (hrem : 0 ≤ remainingOut) (hdir : target ≤ sp)
    (h : stepInGivenOut true spf sp target liq remainingOut = some r) : target ≤ r.sqrtPriceNext := by
  obtain ⟨x, y, out0, -, -, -, -, -, h0, hn⟩ := stepInGivenOut_decomp h
  split at hn
  · injection hn with e; omega
  · rename_i hlt
    simp only [↓reduceIte] at hn
    unfold deltaOut at h0
    simp only [↓reduceIte] at h0
    rcases Int.lt_or_le 0 liq with hpos | hz
    · exact nextSqrtPriceAmount1Out_ge_target hpos hdir h0 (by omega) hn
    · have : liq = 0 := by omega
      subst this
      have := amount1_roundDown_zero_liq h0
      subst this
      have : 0 ≤ remainingOut * Pdiff := Int.mul_nonneg hrem Pdiff_nonneg
      omega

end OsmoVerif.CLLimit
