/- Balancer swaps over the reals: the integer results of `CalcOutAmtGivenIn` / `CalcInAmtGivenOut` as floor / ceiling of
real expressions in the value returned by `Pow`, the pool update, and the CONDITIONAL accuracy statements (if `Pow` is
within `ε` of the real power on the base and exponent actually used, then …). -/
import OsmoVerif.Proofs.GammRealNum
import OsmoVerif.Proofs.GammRealRpow
import OsmoVerif.Props.C04

namespace OsmoVerif.GammMath
open OsmoVerif.Num OsmoVerif.MathM OsmoVerif.Gen OsmoVerif.Spec

/-- The `Pow` call made by `CalcOutAmtGivenIn(tokenIn = amt·dIn, dOut, spread)`: exponent `wr`, base `y` (both
half-even 18-decimal quotients) and the value `pw` that `Pow` returned. -/
structure SwapOutCall (p : BalPool) (dIn dOut : String) (amt spread : Int) (aIn aOut : BalAsset)
    (wr y pw : Int) : Prop where
  hIn : findAsset p.assets dIn = some aIn
  hOut : findAsset p.assets dOut = some aOut
  hwr : Dec.quo (toDec aIn.weight) (toDec aOut.weight) = some wr
  hy : Dec.quo (toDec aIn.amount) (amt * (P18 - spread) + toDec aIn.amount) = some y
  hpw : pow y wr = some pw

/-- The `Pow` call made by `CalcInAmtGivenOut(tokenOut = amt·dOut, dIn, spread)` and the Dec quotient `q` whose
ceiling is charged. -/
structure SwapInCall (p : BalPool) (dIn dOut : String) (amt spread : Int) (aOut aIn : BalAsset)
    (wr y pw q : Int) : Prop where
  hOut : findAsset p.assets dOut = some aOut
  hIn : findAsset p.assets dIn = some aIn
  hwr : Dec.quo (toDec aOut.weight) (toDec aIn.weight) = some wr
  hy : Dec.quo (toDec aOut.amount) (toDec aOut.amount - toDec amt) = some y
  hpw : pow y wr = some pw
  hq : Dec.quo ((pw - P18) * aIn.amount) (P18 - spread) = some q

/-- exact base of the exact-in swap: `R_in / (R_in + a·(1 − spread))`. -/
noncomputable def outBase (Rin amt spread : Int) : ℝ := (Rin : ℝ) / ((Rin : ℝ) + (amt : ℝ) * (1 - dv spread))
/-- exact base of the exact-out swap: `R_out / (R_out − a)`. -/
noncomputable def inBase (Rout amt : Int) : ℝ := (Rout : ℝ) / ((Rout : ℝ) - (amt : ℝ))
/-- exact exponent: the weight ratio. -/
noncomputable def wRatio (w1 w2 : Int) : ℝ := (w1 : ℝ) / (w2 : ℝ)
/-- the perturbation bound of the real power when base and exponent carry one `Quo` rounding each:
`2^M·(M + 1)·quoErr/β` for bases in `[β, 2]` and exponents in `[0, M]`. -/
noncomputable def powDelta (β M : ℝ) : ℝ := (2 : ℝ) ^ M * (M * quoErr + quoErr) / β

/-! ### unconditional: floor / ceiling given `Pow` -/

/-- FULL. The integer paid out by an exact-in swap is EXACTLY `⌊R_out·(1 − pw/10^18)⌋`. -/
theorem balCalcOut_floor {p : BalPool} {dIn dOut : String} {amt spread t : Int}
    (h : balCalcOut p [(dIn, amt)] dOut spread = .ok t) :
    ∃ aIn aOut wr y pw, SwapOutCall p dIn dOut amt spread aIn aOut wr y pw ∧ 0 < t ∧
      t = ⌊(aOut.amount : ℝ) * (1 - dv pw)⌋ := by
  obtain ⟨aIn, aOut, wr, y, pw, h1, h2, h3, h4, h5, h6, h7, h8⟩ := Props.C04.balCalcOut_spec h
  refine ⟨aIn, aOut, wr, y, pw, ⟨h1, h2, h3, h4, h5⟩, h6, ?_⟩
  have := floor_dv h7 h8
  rw [dv_mul_int, dv_sub, dv_P18, mul_comm] at this
  exact this.symm

/-- FULL. The integer charged by an exact-out swap is EXACTLY `⌈q/10^18⌉`, `q` the half-even 18-decimal quotient of
`(pw − 1)·R_in` by `(1 − spread)`; `q/10^18` is within `quoErr = (1/2 + 10^-18)·10^-18` of the exact quotient. -/
theorem balCalcIn_ceil {p : BalPool} {dIn dOut : String} {amt spread t : Int}
    (h : balCalcIn p [(dOut, amt)] dIn spread = .ok t) :
    ∃ aOut aIn wr y pw q, SwapInCall p dIn dOut amt spread aOut aIn wr y pw q ∧ 0 < t ∧ t = ⌈dv q⌉ ∧
      |dv q - (dv pw - 1) * (aIn.amount : ℝ) / (1 - dv spread)| ≤ quoErr := by
  obtain ⟨aOut, aIn, wr, y, pw, q, h1, h2, h3, h4, h5, h6, h7, h8, h9⟩ := Props.C04.balCalcIn_spec h
  refine ⟨aOut, aIn, wr, y, pw, q, ⟨h1, h2, h3, h4, h5, h6⟩, h7, (ceil_dv h8 h9).symm, ?_⟩
  have := (Dec_quo_dv_error h6).2
  rwa [dv_mul_int, dv_sub, dv_sub, dv_P18] at this

/-! ### the pool update -/

/-- FULL. `SwapOutAmtGivenIn`: the in-reserve grows by the WHOLE token in (spread included), the out-reserve
falls by the floor above (records read back with `writtenAmount`: the amount written, except that a new balance of
exactly zero is never written — finding F13); hence the new out-reserve is at least `R_out·pw/10^18`; weights,
shares and all other assets are untouched. -/
theorem balSwapOut_update {p p' : BalPool} {dIn dOut : String} {amt spread out : Int}
    (h : balSwapOut p [(dIn, amt)] dOut spread = .ok (out, p')) :
    ∃ aIn aOut wr y pw, SwapOutCall p dIn dOut amt spread aIn aOut wr y pw ∧ 0 < out ∧
      out = ⌊(aOut.amount : ℝ) * (1 - dv pw)⌋ ∧ dIn ≠ dOut ∧ out ≤ aOut.amount ∧
      findAsset p'.assets dIn = some { aIn with amount := writtenAmount aIn.amount (aIn.amount + amt) } ∧
      findAsset p'.assets dOut = some { aOut with amount := writtenAmount aOut.amount (aOut.amount - out) } ∧
      (aOut.amount : ℝ) * dv pw ≤ ((writtenAmount aOut.amount (aOut.amount - out) : Int) : ℝ) ∧
      (∀ d, d ≠ dIn → d ≠ dOut → findAsset p'.assets d = findAsset p.assets d) ∧
      p'.totalWeight = p.totalWeight ∧ p'.totalShares = p.totalShares := by
  obtain ⟨hc, ha⟩ := balSwapOut_split h
  obtain ⟨aIn, aOut, wr, y, pw, hcall, hpos, hfl⟩ := balCalcOut_floor hc
  obtain ⟨aIn', aOut', f1, f2, hne, n1, n2, g1, g2, g3, g4, g5, _, _⟩ := balApplySwap_spec ha
  rw [hcall.hIn] at f1; injection f1 with f1; subst f1
  rw [hcall.hOut] at f2; injection f2 with f2; subst f2
  refine ⟨aIn, aOut, wr, y, pw, hcall, hpos, hfl, hne, by omega, g1, g2, ?_, g3, g4, g5⟩
  have hle : (out : ℝ) ≤ (aOut.amount : ℝ) * (1 - dv pw) := by rw [hfl]; exact Int.floor_le _
  have hw : aOut.amount - out ≤ writtenAmount aOut.amount (aOut.amount - out) := by
    unfold writtenAmount; split <;> omega
  have hw' : ((aOut.amount - out : Int) : ℝ) ≤ ((writtenAmount aOut.amount (aOut.amount - out) : Int) : ℝ) := by
    exact_mod_cast hw
  push_cast at hw'
  linarith

/-- FULL. `SwapInAmtGivenOut`: the in-reserve grows by the ceiling charged, the out-reserve falls by the exact
amount requested. -/
theorem balSwapIn_update {p p' : BalPool} {dIn dOut : String} {amt spread tin : Int}
    (h : balSwapIn p [(dOut, amt)] dIn spread = .ok (tin, p')) :
    ∃ aOut aIn wr y pw q, SwapInCall p dIn dOut amt spread aOut aIn wr y pw q ∧ 0 < tin ∧ tin = ⌈dv q⌉ ∧
      |dv q - (dv pw - 1) * (aIn.amount : ℝ) / (1 - dv spread)| ≤ quoErr ∧ dIn ≠ dOut ∧ amt ≤ aOut.amount ∧
      findAsset p'.assets dIn = some { aIn with amount := writtenAmount aIn.amount (aIn.amount + tin) } ∧
      findAsset p'.assets dOut = some { aOut with amount := writtenAmount aOut.amount (aOut.amount - amt) } ∧
      (∀ d, d ≠ dIn → d ≠ dOut → findAsset p'.assets d = findAsset p.assets d) ∧
      p'.totalWeight = p.totalWeight ∧ p'.totalShares = p.totalShares := by
  obtain ⟨hc, ha⟩ := balSwapIn_split h
  obtain ⟨aOut, aIn, wr, y, pw, q, hcall, hpos, hce, hq⟩ := balCalcIn_ceil hc
  obtain ⟨aIn', aOut', f1, f2, hne, n1, n2, g1, g2, g3, g4, g5, _, _⟩ := balApplySwap_spec ha
  rw [hcall.hIn] at f1; injection f1 with f1; subst f1
  rw [hcall.hOut] at f2; injection f2 with f2; subst f2
  exact ⟨aOut, aIn, wr, y, pw, q, hcall, hpos, hce, hq, hne, by omega, g1, g2, g3, g4, g5⟩

/-! ### conditional accuracy, in terms of the base and exponent actually used -/

/-- exact-in: if `Pow` is within `ε` of the real power, the floor is within `R_out·ε` (and the one unit of the floor)
of `R_out·(1 − b^e)`. -/
theorem floor_of_pow_accuracy {R t pw : Int} {x ε : ℝ} (ht : t = ⌊(R : ℝ) * (1 - dv pw)⌋) (hR : 0 ≤ R)
    (hacc : |dv pw - x| ≤ ε) :
    (R : ℝ) * (1 - x - ε) - 1 < t ∧ (t : ℝ) ≤ (R : ℝ) * (1 - x + ε) := by
  have hR' : (0 : ℝ) ≤ R := by exact_mod_cast hR
  obtain ⟨a1, a2⟩ := abs_le.mp hacc
  have f1 := Int.floor_le ((R : ℝ) * (1 - dv pw))
  have f2 := Int.lt_floor_add_one ((R : ℝ) * (1 - dv pw))
  rw [← ht] at f1 f2
  constructor
  · have : (R : ℝ) * (1 - x - ε) ≤ (R : ℝ) * (1 - dv pw) := mul_le_mul_of_nonneg_left (by linarith) hR'
    linarith
  · have : (R : ℝ) * (1 - dv pw) ≤ (R : ℝ) * (1 - x + ε) := mul_le_mul_of_nonneg_left (by linarith) hR'
    linarith

/-- exact-out: the ceiling against `R_in·(b^e − 1)/(1 − spread)`. -/
theorem ceil_of_pow_accuracy {R t pw q : Int} {x ε s : ℝ} (ht : t = ⌈dv q⌉)
    (hq : |dv q - (dv pw - 1) * (R : ℝ) / (1 - s)| ≤ quoErr) (hR : 0 ≤ R) (hs : s < 1)
    (hacc : |dv pw - x| ≤ ε) :
    (x - ε - 1) * (R : ℝ) / (1 - s) - quoErr ≤ t ∧ (t : ℝ) < (x + ε - 1) * (R : ℝ) / (1 - s) + quoErr + 1 := by
  have hR' : (0 : ℝ) ≤ R := by exact_mod_cast hR
  have hs' : 0 < 1 - s := by linarith
  obtain ⟨a1, a2⟩ := abs_le.mp hacc
  obtain ⟨b1, b2⟩ := abs_le.mp hq
  have f1 := Int.le_ceil (dv q)
  have f2 := Int.ceil_lt_add_one (dv q)
  rw [← ht] at f1 f2
  have m1 : (x - ε - 1) * (R : ℝ) / (1 - s) ≤ (dv pw - 1) * (R : ℝ) / (1 - s) :=
    div_le_div_of_nonneg_right (mul_le_mul_of_nonneg_right (by linarith) hR') hs'.le
  have m2 : (dv pw - 1) * (R : ℝ) / (1 - s) ≤ (x + ε - 1) * (R : ℝ) / (1 - s) :=
    div_le_div_of_nonneg_right (mul_le_mul_of_nonneg_right (by linarith) hR') hs'.le
  constructor <;> linarith

/-! ### the base and exponent actually used against the exact ones -/

/-- one `Quo` rounding on the base of the exact-in swap. -/
theorem outBase_error {Rin amt spread y : Int}
    (hy : Dec.quo (toDec Rin) (amt * (P18 - spread) + toDec Rin) = some y) :
    |dv y - outBase Rin amt spread| ≤ quoErr := by
  obtain ⟨hb, he⟩ := Dec_quo_dv_error hy
  have e : dv (toDec Rin) / dv (amt * (P18 - spread) + toDec Rin) = outBase Rin amt spread := by
    unfold outBase
    rw [dv_add, dv_toDec, dv_int_mul, dv_sub, dv_P18, add_comm]
  rwa [e] at he

/-- one `Quo` rounding on the base of the exact-out swap. -/
theorem inBase_error {Rout amt y : Int}
    (hy : Dec.quo (toDec Rout) (toDec Rout - toDec amt) = some y) :
    |dv y - inBase Rout amt| ≤ quoErr := by
  obtain ⟨hb, he⟩ := Dec_quo_dv_error hy
  have e : dv (toDec Rout) / dv (toDec Rout - toDec amt) = inBase Rout amt := by
    unfold inBase
    rw [dv_sub, dv_toDec, dv_toDec]
  rwa [e] at he

/-- one `Quo` rounding on the exponent. -/
theorem wRatio_error {w1 w2 wr : Int} (h : Dec.quo (toDec w1) (toDec w2) = some wr) :
    |dv wr - wRatio w1 w2| ≤ quoErr := by
  obtain ⟨hb, he⟩ := Dec_quo_dv_error h
  rwa [dv_toDec, dv_toDec] at he

/-- the real power on the rounded base/exponent against the real power on the exact ones. -/
theorem pow_used_vs_exact {b B e E β M : ℝ} (hβ : 0 < β) (hβ1 : β ≤ 1) (hb : β ≤ b) (hB : β ≤ B)
    (hb2 : b ≤ 2) (hB2 : B ≤ 2) (he0 : 0 ≤ e) (hE0 : 0 ≤ E) (heM : e ≤ M) (hEM : E ≤ M)
    (h1 : |b - B| ≤ quoErr) (h2 : |e - E| ≤ quoErr) : |b ^ e - B ^ E| ≤ powDelta β M :=
  rpow_perturb hβ hβ1 hb hB hb2 hB2 he0 hE0 heM hEM h1 h2

theorem accuracy_transfer {p x X ε δ : ℝ} (h1 : |p - x| ≤ ε) (h2 : |x - X| ≤ δ) : |p - X| ≤ ε + δ := by
  have : p - X = (p - x) + (x - X) := by ring
  rw [this]; exact le_trans (abs_add_le _ _) (by linarith)

/-- `pow` succeeded: the base used lies strictly inside `(0, 2)`. -/
theorem pow_base_dv {y e pw : Int} (h : pow y e = some pw) : 0 < dv y ∧ dv y < 2 := by
  obtain ⟨h0, h2⟩ := pow_some_domain h
  refine ⟨dv_pos h0, ?_⟩
  have := dv_lt h2
  rw [dv_int_mul, dv_P18] at this
  push_cast at this; linarith

/-- a quotient of non-negative by positive raw values is non-negative. -/
theorem Dec_quo_nonneg {a b r : Int} (h : Dec.quo a b = some r) (ha : 0 ≤ a) (hb : 0 < b) : 0 ≤ r := by
  have := Dec_quo_ge (q := 0) h hb (by omega)
  omega

/-! ### the calls are functions of the pool and the arguments (used to instantiate the theorems on concrete pools) -/

theorem SwapOutCall.unique {p : BalPool} {dIn dOut : String} {amt spread : Int} {aIn aOut aIn' aOut' : BalAsset}
    {wr y pw wr' y' pw' : Int} (h : SwapOutCall p dIn dOut amt spread aIn aOut wr y pw)
    (h' : SwapOutCall p dIn dOut amt spread aIn' aOut' wr' y' pw') :
    aIn = aIn' ∧ aOut = aOut' ∧ wr = wr' ∧ y = y' ∧ pw = pw' := by
  have e1 : aIn = aIn' := Option.some.inj (h.hIn.symm.trans h'.hIn)
  have e2 : aOut = aOut' := Option.some.inj (h.hOut.symm.trans h'.hOut)
  subst e1; subst e2
  have e3 : wr = wr' := Option.some.inj (h.hwr.symm.trans h'.hwr)
  have e4 : y = y' := Option.some.inj (h.hy.symm.trans h'.hy)
  subst e3; subst e4
  exact ⟨rfl, rfl, rfl, rfl, Option.some.inj (h.hpw.symm.trans h'.hpw)⟩

theorem SwapInCall.unique {p : BalPool} {dIn dOut : String} {amt spread : Int} {aIn aOut aIn' aOut' : BalAsset}
    {wr y pw q wr' y' pw' q' : Int} (h : SwapInCall p dIn dOut amt spread aOut aIn wr y pw q)
    (h' : SwapInCall p dIn dOut amt spread aOut' aIn' wr' y' pw' q') :
    aIn = aIn' ∧ aOut = aOut' ∧ wr = wr' ∧ y = y' ∧ pw = pw' ∧ q = q' := by
  have e1 : aIn = aIn' := Option.some.inj (h.hIn.symm.trans h'.hIn)
  have e2 : aOut = aOut' := Option.some.inj (h.hOut.symm.trans h'.hOut)
  subst e1; subst e2
  have e3 : wr = wr' := Option.some.inj (h.hwr.symm.trans h'.hwr)
  have e4 : y = y' := Option.some.inj (h.hy.symm.trans h'.hy)
  subst e3; subst e4
  have e5 : pw = pw' := Option.some.inj (h.hpw.symm.trans h'.hpw)
  subst e5
  exact ⟨rfl, rfl, rfl, rfl, rfl, Option.some.inj (h.hq.symm.trans h'.hq)⟩

end OsmoVerif.GammMath
