/-
C08 (incentives, histories) helpers, part 7: a claim on a synced state (`claimI_stage`), the tracker flips of a swap
(`flipTicks_ok`), the step trace of an executed swap satisfies `TraceOK` (`swap_traceOK`).  Core only.
-/
import OsmoVerif.Proofs.CLIncHist6

namespace OsmoVerif.CLIncP
open OsmoVerif.Num OsmoVerif.CL OsmoVerif.CLPool OsmoVerif.CLFees OsmoVerif.CLInc OsmoVerif.CLFeesP OsmoVerif.CLBook
open OsmoVerif.Accum (amt sorted hev)
open OsmoVerif.Gen

/-- what a claim does to accumulator `k` of a synced state `i`. -/
structure CChain (i i2 : Inc) (pos : Position) (cur joinT : Int) (byUp : List Coins) (k : Nat) : Prop where
  ex : ∃ (a1 a2 : UAcc) (r : URec) (total ins : DC) (scaled down : Coins) (up : Int),
    i.accs[k]? = some a1 ∧ i2.accs[k]? = some a2 ∧ getURec a1.recs pos.id = some r ∧ r.shares = pos.liq ∧ uptimesNs[k]? = some up ∧
    (∀ d, amt total d = amt r.unclaimed d + hev r.shares (insU i cur k d pos.lower pos.upper - amt r.snap d) ∧
      0 ≤ insU i cur k d pos.lower pos.upper - amt r.snap d ∧ amt scaled d = (amt total d).tdiv P18 ∧ 0 ≤ amt total d) ∧
    scaleDownCoins i.factor scaled = some down ∧ (∀ c ∈ scaled, 0 ≤ c.2) ∧
    byUp[k]? = some (if i.now - joinT < up then scaled else []) ∧
    getURec a2.recs pos.id = some ⟨pos.id, r.shares, ins, []⟩ ∧ sorted ins = true ∧
    (∀ d, amt ins d = insU i cur k d pos.lower pos.upper) ∧
    (∀ x, x ≠ pos.id → getURec a2.recs x = getURec a1.recs x) ∧ a2.value = a1.value ∧ a2.total = a1.total

theorem claimI_stage {f : Fees} {i i2 : Inc} {pos : Position} {coll forf : Coins} {byUp : List Coins}
    (hf : FullInv f) (hp : IncPart f i) (hmem : pos ∈ f.pool.positions)
    (hclaim : claimAll i f.pool.tick pos.lower pos.upper pos.id = some (i2, coll, forf, byUp)) :
    i2 = { i with accs := i2.accs } ∧
    ∃ joinT, (i.join.find? (·.1 = pos.id)).map (·.2) = some joinT ∧ 0 ≤ i.now - joinT ∧
      claimLoop i.factor (i.now - joinT) pos.id i.accs ((outsideAll i f.pool.tick pos.lower pos.upper).getD []) uptimesNs =
        some (i2.accs, coll, forf, byUp) ∧
      (∀ b, IncPart f { i2 with bal := b }) ∧
      ∀ k, k < 6 → CChain i i2 pos f.pool.tick joinT byUp k := by
  have hlu := hf.pool.core.pos.range pos hmem
  have hliqpos := hf.pool.core.pos.liqPos pos hmem
  have hs1 := hp.sortedInc
  obtain ⟨sl, su⟩ := hp.stored pos hmem
  obtain ⟨tl, htl⟩ := Option.isSome_iff_exists.mp sl
  obtain ⟨tu, htu⟩ := Option.isSome_iff_exists.mp su
  obtain ⟨e2c, l2, joinT, hj, hage, hloop, g2⟩ := claimAll_stage hlu hs1 htl htu hclaim
  have st2 : ∀ k, k < 6 → CChain i i2 pos f.pool.tick joinT byUp k := by
    intro k hk
    obtain ⟨a1, ha1, hm1⟩ := hp.get hk
    obtain ⟨a2, o, up, scaled, down, h1, h2, h3, h4, h5, h6, h7⟩ := g2 k a1 ha1
    have ok1 := hp.accs a1 hm1
    obtain ⟨r, hr1, hsh⟩ := ok1.recs pos hmem
    obtain ⟨ss, su'⟩ := ok1.sortedR pos.id r hr1
    obtain ⟨total, ins, c1, c2, c3, c4, c5, c6, c7⟩ := claimOne_eff hr1 (by omega) ok1.sortedV ss su' h3 h4 h5
    have hsome : (getURec a1.recs pos.id).isSome = true := by rw [hr1]; rfl
    simp only [hsome, true_and] at h7
    exact ⟨a1, a2, r, total, ins, scaled, down, up, ha1, h1, hr1, hsh, h2, c7, h6, claimOne_coins_nonneg h5, h7, c1, c3, c4, c2, c5, c6⟩
  refine ⟨e2c, joinT, hj, hage, hloop, fun b => ?_, st2⟩
  have e2t : i2.trackers = i.trackers := by rw [e2c]
  have e2r : i2.records = i.records := by rw [e2c]
  have e2f : i2.factor = i.factor := by rw [e2c]
  have e2j : i2.join = i.join := by rw [e2c]
  refine ⟨by show i2.accs.length = 6; rw [l2, hp.len], fun a2 ha2 => ?_, by show ∀ q ∈ _, (getTr i2.trackers _).isSome ∧ _; rw [e2t]; exact hp.stored,
    by show ∀ t tl, getTr i2.trackers t = some tl → _; rw [e2t]; exact hp.trOK,
    by show ∀ t, (getTr i2.trackers t).isSome → _; rw [e2t]; exact hp.trTicks,
    by show RecsOK i2.records; rw [e2r]; exact hp.recsOK, by show 0 < i2.factor; rw [e2f]; exact hp.factor,
    by show ∀ e ∈ i2.join, _; rw [e2j]; exact hp.joinIds, by show ∀ q ∈ _, (i2.join.find? _).isSome; rw [e2j]; exact hp.joined⟩
  have ha2' : a2 ∈ i2.accs := ha2
  obtain ⟨k, hk⟩ := getElem?_of_mem ha2'
  have hk6 : k < 6 := by have := lt_of_getElem? hk; rw [l2, hp.len] at this; exact this
  obtain ⟨⟨a1, a2', r, total, ins, scaled, down, up, ha1, ha2'', hr, hsh, _, _, _, _, _, hrec, hsi, _, hoth, ev, et⟩⟩ := st2 k hk6
  rw [hk] at ha2''; injection ha2'' with ha2''; subst ha2''
  have ok1 := hp.accs a1 (mem_of_getElem? ha1)
  refine ⟨fun q hq => ?_, fun x hx => ?_, by rw [ev]; exact ok1.sortedV, fun x r' hr' => ?_, by rw [et]; exact ok1.total⟩
  · by_cases hx : q.id = pos.id
    · have : q = pos := mem_eq_of_id hf.pool.core.pos.uniq hq hmem hx
      subst this
      exact ⟨_, hrec, hsh⟩
    · obtain ⟨rq, hrq, e⟩ := ok1.recs q hq
      exact ⟨rq, by rw [hoth _ hx]; exact hrq, e⟩
  · by_cases e : x = pos.id
    · subst e; exact ok1.recIds _ (by rw [hr]; rfl)
    · rw [hoth x e] at hx; exact ok1.recIds x hx
  · by_cases e : x = pos.id
    · subst e
      rw [hrec] at hr'; injection hr' with hr'; subst hr'
      exact ⟨hsi, rfl⟩
    · rw [hoth x e] at hr'; exact ok1.sortedR x r' hr'

/-! ## tracker flips -/

theorem flipTicks_ok {values : List DC} {n : Nat} (hvl : values.length = n) (hvs : ∀ v ∈ values, sorted v = true) :
    ∀ (trs : List StepTrace) (trk trk' : List (Int × List DC)), flipTicks values trs trk = some trk' →
      (∀ t tl, getTr trk t = some tl → tl.length = n ∧ ∀ v ∈ tl, sorted v = true) →
      (∀ t tl, getTr trk' t = some tl → tl.length = n ∧ ∀ v ∈ tl, sorted v = true) ∧
      ∀ t, (getTr trk' t).isSome = (getTr trk t).isSome := by
  intro trs
  induction trs with
  | nil =>
    intro trk trk' h hok
    simp only [flipTicks, Option.some.injEq] at h
    subst h
    exact ⟨hok, fun _ => rfl⟩
  | cons tr rest ih =>
    intro trk trk' h hok
    unfold flipTicks at h
    cases hc : tr.crossed with
    | none =>
      rw [hc] at h
      exact ih trk trk' h hok
    | some t =>
      rw [hc] at h
      simp only [Option.bind_eq_some_iff] at h
      obtain ⟨old, hold, new, hnew, h⟩ := h
      have hok1 : ∀ x tl, getTr (trk.map fun o => if o.1 = t then (t, new) else o) x = some tl →
          tl.length = n ∧ ∀ v ∈ tl, sorted v = true := by
        intro x tl hx
        rw [getTr_map_set] at hx
        split at hx
        · rw [hold] at hx
          simp only [Option.map_some, Option.some.injEq] at hx
          subst hx
          obtain ⟨z1, z2⟩ := zip2With_length hnew
          obtain ⟨o1, o2⟩ := hok t old hold
          refine ⟨by omega, fun v hv => ?_⟩
          obtain ⟨k, hk⟩ := getElem?_of_mem hv
          obtain ⟨a, b, ha, hb, hsub⟩ := zip2With_get' hnew k v hk
          exact Accum.sub_sorted (hvs a (mem_of_getElem? ha)) (o2 b (mem_of_getElem? hb)) hsub
        · exact hok x tl hx
      obtain ⟨r1, r2⟩ := ih _ trk' h hok1
      refine ⟨r1, fun x => ?_⟩
      rw [r2 x, getTr_map_set]
      split
      · rename_i e; subst e; rw [hold]; rfl
      · rfl

theorem flipTicks_none {values : List DC} :
    ∀ (trs : List StepTrace) (trk : List (Int × List DC)), trs.all (fun tr => tr.crossed.isNone) = true →
      flipTicks values trs trk = some trk := by
  intro trs
  induction trs with
  | nil => intro trk _; rfl
  | cons tr rest ih =>
    intro trk h
    simp only [List.all_cons, Bool.and_eq_true] at h
    unfold flipTicks
    cases hc : tr.crossed with
    | none => exact ih trk h.2
    | some t => rw [hc] at h; simp at h

/-! ## the step trace of an executed swap -/

theorem swap_traceOK {f f' : Fees} {og zfo : Bool} {spec ain aout fee : Int} {trs : List StepTrace}
    (hi : Inv f.pool) (hspf : SpfOK f.pool.spf)
    (h : CLFees.swap f og zfo spec = some (f', ain, aout, fee))
    (htr : swapTrace f.pool.scale og zfo f.pool.spf (execPriceLimit zfo) ⟨f.pool.sqrtPrice, f.pool.tick, f.pool.liquidity⟩
      (f.pool.ticks.map fun t => (t.tick, t.net)) spec = some trs) :
    TraceOK zfo (f.pool.ticks.map fun t => (t.tick, t.net)) f.pool.positions f.pool.tick trs f'.pool.tick := by
  obtain ⟨hp, trs', g, htr', _⟩ := swap_spec h
  rw [htr] at htr'; injection htr' with htr'; subst htr'
  obtain ⟨limit, st, steps, crossed, hl, hloopT⟩ := swapTrace_spec htr
  obtain ⟨limit', st', steps', crossed', hl', hloop, _, etick, _⟩ := swap_loop_of_some hp
  rw [hl] at hl'; injection hl' with hl'; subst hl'
  have hS := swapLoopT_fst f.pool.scale og zfo f.pool.spf limit (2 * (f.pool.ticks.map fun t => (t.tick, t.net)).length + CL.swapNoProgressLimit + 8)
    { remaining := spec * P18, calculated := 0, pool := ⟨f.pool.sqrtPrice, f.pool.tick, f.pool.liquidity⟩, spreadTotal := 0, noProgress := 0 }
    (ticksAhead zfo (f.pool.ticks.map fun t => (t.tick, t.net)) f.pool.tick) 0 0
  rw [hloopT] at hS
  simp only [Option.map_some] at hS
  have hloop2 := swapLoopS_some _ _ _ _ _ _ hS.symm
  have hst : st' = st := by
    have : some (st', steps', crossed') = some (st, steps, crossed) := by rw [← hloop]; exact hloop2
    injection this with this; injection this
  subst hst
  have hne : f.pool.positions ≠ [] := (swap_some hp).choose_spec.choose_spec.1
  have hmono := swapMono_of_inv og zfo spec hi.core hi.price hi.active hspf limit hl
  have htok := swapLoopT_traceOK (ticksOK_of_core hi.core) _ _ _ _ _ _ _ _ _ hloopT hmono (hi.price.2 hne).1 ⟨hi.active, rfl⟩
  simp only at htok
  rw [← etick] at htok
  exact htok

theorem stored_tick_pairs {p : Pool} (hc : InvCore p) {q : Position} (hq : q ∈ p.positions) :
    (∃ n, (q.lower, n) ∈ (p.ticks.map fun t => (t.tick, t.net))) ∧ (∃ n, (q.upper, n) ∈ (p.ticks.map fun t => (t.tick, t.net))) := by
  obtain ⟨x, hx, ex⟩ := (hc.stored q.lower).mpr ⟨q, hq, Or.inl rfl⟩
  obtain ⟨y, hy, ey⟩ := (hc.stored q.upper).mpr ⟨q, hq, Or.inr rfl⟩
  exact ⟨⟨x.net, List.mem_map.mpr ⟨x, hx, by rw [ex]⟩⟩, ⟨y.net, List.mem_map.mpr ⟨y, hy, by rw [ey]⟩⟩⟩

end OsmoVerif.CLIncP
