/-
Lemmas about Model/Ledger: association lists and the bank operations.  Core only.
Every lemma is unconditional (no well-formedness invariant on the stores).
-/
import OsmoVerif.Model.Ledger

namespace OsmoVerif.Ledger

section assoc
variable {κ : Type} [DecidableEq κ]

theorem aget_aset (l : List (κ × Int)) (k k' : κ) (v : Int) :
    aget (aset l k v) k' = if k = k' then v else aget l k' := by
  induction l with
  | nil => simp only [aset, aget]
  | cons h t ih =>
    obtain ⟨k0, v0⟩ := h
    simp only [aset]
    split
    · rename_i h0; subst h0; simp only [aget]; grind
    · rename_i h0
      simp only [aget, ih]
      grind

theorem afind_aset (l : List (κ × Int)) (k k' : κ) (v : Int) :
    afind? (aset l k v) k' = if k = k' then some v else afind? l k' := by
  induction l with
  | nil => simp only [aset, afind?]
  | cons h t ih =>
    obtain ⟨k0, v0⟩ := h
    simp only [aset]
    split
    · rename_i h0; subst h0; simp only [afind?]; grind
    · rename_i h0
      simp only [afind?, ih]
      grind

end assoc

section bank
variable {α δ : Type} [DecidableEq α] [DecidableEq δ]

theorem totalOf_aset (d : δ) (l : List ((α × δ) × Int)) (a : α) (d0 : δ) (v : Int) :
    totalOf d (aset l (a, d0) v) = totalOf d l + (if d0 = d then v - aget l (a, d0) else 0) := by
  induction l with
  | nil => simp only [aset, totalOf, aget]; split <;> omega
  | cons h t ih =>
    obtain ⟨⟨a1, d1⟩, v1⟩ := h
    simp only [aset]
    split
    · rename_i h0
      injection h0 with ha hd
      subst ha; subst hd
      simp only [totalOf, aget, if_true]
      split <;> omega
    · rename_i h0
      simp only [totalOf, ih, aget, if_neg h0]
      omega

namespace Bank

@[simp] theorem balance_setBalance (b : Bank α δ) (a a' : α) (d d' : δ) (v : Int) :
    (b.setBalance a d v).balance a' d' = if a = a' ∧ d = d' then v else b.balance a' d' := by
  simp only [setBalance, balance, aget_aset, Prod.mk.injEq]

@[simp] theorem supply_setBalance (b : Bank α δ) (a : α) (d d' : δ) (v : Int) :
    (b.setBalance a d v).supply d' = b.supply d' := rfl

@[simp] theorem total_setBalance (b : Bank α δ) (a : α) (d d' : δ) (v : Int) :
    (b.setBalance a d v).total d' = b.total d' + (if d = d' then v - b.balance a d else 0) := by
  simp only [setBalance, total, balance, totalOf_aset]

@[simp] theorem balance_setSupply (b : Bank α δ) (a' : α) (d d' : δ) (v : Int) :
    (b.setSupply d v).balance a' d' = b.balance a' d' := rfl

omit [DecidableEq α] in
@[simp] theorem total_setSupply (b : Bank α δ) (d d' : δ) (v : Int) :
    (b.setSupply d v).total d' = b.total d' := rfl

omit [DecidableEq α] in
@[simp] theorem supply_setSupply (b : Bank α δ) (d d' : δ) (v : Int) :
    (b.setSupply d v).supply d' = if d = d' then v else b.supply d' := by
  simp only [setSupply, supply, aget_aset]

/-! ### send -/

theorem send_pos {b b' : Bank α δ} {f t : α} {d : δ} {amt : Int} (h : b.send f t d amt = some b') :
    0 < amt ∧ amt ≤ b.balance f d := by
  unfold send at h
  split at h
  · cases h
  · split at h
    · cases h
    · omega

theorem send_balance {b b' : Bank α δ} {f t : α} {d : δ} {amt : Int} (h : b.send f t d amt = some b')
    (a' : α) (d' : δ) :
    b'.balance a' d' = b.balance a' d' - (if f = a' ∧ d = d' then amt else 0) + (if t = a' ∧ d = d' then amt else 0) := by
  unfold send at h
  split at h
  · cases h
  · split at h
    · cases h
    · injection h with h
      subst h
      simp only [balance_setBalance]
      grind

theorem send_supply {b b' : Bank α δ} {f t : α} {d : δ} {amt : Int} (h : b.send f t d amt = some b') (d' : δ) :
    b'.supply d' = b.supply d' := by
  unfold send at h
  split at h
  · cases h
  · split at h
    · cases h
    · injection h with h; subst h; rfl

theorem send_total {b b' : Bank α δ} {f t : α} {d : δ} {amt : Int} (h : b.send f t d amt = some b') (d' : δ) :
    b'.total d' = b.total d' := by
  unfold send at h
  split at h
  · cases h
  · split at h
    · cases h
    · injection h with h
      subst h
      simp only [total_setBalance, balance_setBalance]
      grind

/-! ### sendCoins -/

theorem sendCoins_balance {f t : α} : ∀ (cs : List (δ × Int)) {b b' : Bank α δ}, b.sendCoins f t cs = some b' →
    ∀ (a' : α) (d' : δ), b'.balance a' d' =
      b.balance a' d' - (if f = a' then sumOf cs d' else 0) + (if t = a' then sumOf cs d' else 0)
  | [], b, b', h, a', d' => by
    simp only [sendCoins] at h; injection h with h; subst h
    simp only [sumOf]; split <;> split <;> omega
  | (d, amt) :: cs, b, b', h, a', d' => by
    simp only [sendCoins] at h
    cases h1 : b.send f t d amt with
    | none => rw [h1] at h; cases h
    | some b1 =>
      rw [h1] at h
      simp only [Option.bind_some] at h
      rw [sendCoins_balance cs h a' d', send_balance h1 a' d']
      simp only [sumOf]
      by_cases hf : f = a' <;> by_cases ht : t = a' <;> by_cases hd : d = d' <;>
        simp only [hf, ht, hd, true_and, false_and, if_true, if_false] <;> omega

theorem sendCoins_supply {f t : α} : ∀ (cs : List (δ × Int)) {b b' : Bank α δ}, b.sendCoins f t cs = some b' →
    ∀ (d' : δ), b'.supply d' = b.supply d'
  | [], b, b', h, d' => by simp only [sendCoins] at h; injection h with h; subst h; rfl
  | (d, amt) :: cs, b, b', h, d' => by
    simp only [sendCoins] at h
    cases h1 : b.send f t d amt with
    | none => rw [h1] at h; cases h
    | some b1 =>
      rw [h1] at h
      simp only [Option.bind_some] at h
      rw [sendCoins_supply cs h d', send_supply h1 d']

theorem sendCoins_total {f t : α} : ∀ (cs : List (δ × Int)) {b b' : Bank α δ}, b.sendCoins f t cs = some b' →
    ∀ (d' : δ), b'.total d' = b.total d'
  | [], b, b', h, d' => by simp only [sendCoins] at h; injection h with h; subst h; rfl
  | (d, amt) :: cs, b, b', h, d' => by
    simp only [sendCoins] at h
    cases h1 : b.send f t d amt with
    | none => rw [h1] at h; cases h
    | some b1 =>
      rw [h1] at h
      simp only [Option.bind_some] at h
      rw [sendCoins_total cs h d', send_total h1 d']

/-! ### mint / burn -/

theorem mint_balance {b b' : Bank α δ} {t : α} {d : δ} {amt : Int} (h : b.mint t d amt = some b') (a' : α) (d' : δ) :
    b'.balance a' d' = b.balance a' d' + (if t = a' ∧ d = d' then amt else 0) := by
  unfold mint at h
  split at h
  · cases h
  · split at h
    · injection h with h; subst h; rename_i h0; subst h0; split <;> omega
    · injection h with h; subst h
      simp only [balance_setBalance, balance_setSupply]
      split
      · rename_i hc; obtain ⟨h1, h2⟩ := hc; subst h1; subst h2; omega
      · omega

theorem mint_supply {b b' : Bank α δ} {t : α} {d : δ} {amt : Int} (h : b.mint t d amt = some b') (d' : δ) :
    b'.supply d' = b.supply d' + (if d = d' then amt else 0) := by
  unfold mint at h
  split at h
  · cases h
  · split at h
    · injection h with h; subst h; rename_i h0; subst h0; split <;> omega
    · injection h with h; subst h
      simp only [supply_setBalance, supply_setSupply]
      split
      · rename_i hc; subst hc; omega
      · omega

theorem mint_total {b b' : Bank α δ} {t : α} {d : δ} {amt : Int} (h : b.mint t d amt = some b') (d' : δ) :
    b'.total d' = b.total d' + (if d = d' then amt else 0) := by
  unfold mint at h
  split at h
  · cases h
  · split at h
    · injection h with h; subst h; rename_i h0; subst h0; split <;> omega
    · injection h with h; subst h
      simp only [total_setBalance, total_setSupply, balance_setSupply]
      split <;> omega

theorem mint_nonneg {b b' : Bank α δ} {t : α} {d : δ} {amt : Int} (h : b.mint t d amt = some b') : 0 ≤ amt := by
  unfold mint at h
  split at h
  · cases h
  · omega

theorem burn_balance {b b' : Bank α δ} {f : α} {d : δ} {amt : Int} (h : b.burn f d amt = some b') (a' : α) (d' : δ) :
    b'.balance a' d' = b.balance a' d' - (if f = a' ∧ d = d' then amt else 0) := by
  unfold burn at h
  split at h
  · cases h
  · split at h
    · cases h
    · injection h with h; subst h
      simp only [balance_setBalance, balance_setSupply]
      split
      · rename_i hc; obtain ⟨h1, h2⟩ := hc; subst h1; subst h2; omega
      · omega

theorem burn_supply {b b' : Bank α δ} {f : α} {d : δ} {amt : Int} (h : b.burn f d amt = some b') (d' : δ) :
    b'.supply d' = b.supply d' - (if d = d' then amt else 0) := by
  unfold burn at h
  split at h
  · cases h
  · split at h
    · cases h
    · injection h with h; subst h
      simp only [supply_setBalance, supply_setSupply]
      split
      · rename_i hc; subst hc; omega
      · omega

theorem burn_total {b b' : Bank α δ} {f : α} {d : δ} {amt : Int} (h : b.burn f d amt = some b') (d' : δ) :
    b'.total d' = b.total d' - (if d = d' then amt else 0) := by
  unfold burn at h
  split at h
  · cases h
  · split at h
    · cases h
    · injection h with h; subst h
      simp only [total_setBalance, total_setSupply, balance_setSupply]
      split <;> omega

theorem burn_pos {b b' : Bank α δ} {f : α} {d : δ} {amt : Int} (h : b.burn f d amt = some b') :
    0 < amt ∧ amt ≤ b.balance f d := by
  unfold burn at h
  split at h
  · cases h
  · split at h
    · cases h
    · omega

end Bank
end bank
end OsmoVerif.Ledger
