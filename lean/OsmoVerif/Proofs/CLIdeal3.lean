/-
C03, same-amount comparison, part 3 (exact-in, lower side): how far the exact amount in along the path actually taken can
fall short of the amount consumed net of the spread factor.  Per step (`inSlack`, raw 18-decimal units):
* a step that reaches its target (or any step when the spread factor is zero): the amount in is a whole number of tokens
  less than `inGain` (one token + 10^54/(p·q)) above the exact amount, and the charge `⌈⌈spf/(1−spf)⌉·amountIn⌉` is less than
  `amountIn·10^-18 + 1` above `amountIn·spf/(1−spf)`:   slack `inGain + amountIn·10^-18 + 1`;
* a step that does not reach its target with a positive spread factor consumes everything that remains; the next sqrt price
  is rounded toward the current one:  one-for-zero `⌊·⌋` of the price increment: slack `liq/10^36`;
  zero-for-one three nested roundings: slack `10^36·(10^36 + denom + next)/(next·sp)/10^18`, `denom ≤ amt·sp/10^36 + liq·10^18`.
-/
import OsmoVerif.Proofs.CLIdeal2

namespace OsmoVerif.CLIdeal
open OsmoVerif.CLPool OsmoVerif.CLBook OsmoVerif.CLSolv OsmoVerif.CL OsmoVerif.Num OsmoVerif.Tick OsmoVerif.Gen
open OsmoVerif.Spec OsmoVerif.Props OsmoVerif.CLLimit OsmoVerif.Spec.CLCurve

/-! ## the next sqrt price is not rounded away by more than … -/

/-- `GetNextSqrtPriceFromAmount1InRoundingDown`: the floor loses less than one unit of the price increment. -/
theorem next1In_exact_gt {sp liq amt x : Int} (h : nextSqrtPriceAmount1In sp liq amt = some x)
    (hl : 0 ≤ liq) (ha : 0 ≤ amt) : amt * P18 < (x - sp) * liq + liq := by
  rw [nextSqrtPriceAmount1In_eq] at h
  obtain ⟨q, hq, hx⟩ := Option.bind_eq_some_iff.mp h
  have ex := C12.add_exact hx
  have hlpos : 0 < liq := by
    rcases Int.lt_or_le 0 liq with hp | hz
    · exact hp
    · have e0 : liq = 0 := by omega
      subst e0
      unfold BigDec.quoTruncateDec at hq
      simp at hq
  have tq := quoTruncateDec_trunc_pos hlpos hq
  have := (tq.1 (Int.mul_nonneg ha P18_nonneg)).2
  rw [ex]
  have e : (q + sp - sp) * liq = q * liq := by ring
  rw [Int.add_mul] at this
  omega

/-- `GetNextSqrtPriceFromAmount0InRoundingUp`: floor of the product, ceiling of the numerator, ceiling of the quotient. -/
theorem next0In_exact_gt {sp l amt x : Int} (h : nextSqrtPriceAmount0In sp l amt = some x)
    (hl : 0 < l) (hsp : 0 < sp) (ha : 0 ≤ amt) :
    ∃ d, 0 < d ∧ d * P36 ≤ amt * sp + l * P36 ∧ amt * (x * sp) < (sp - x) * l * P36 + P36 * (P36 + d + x) := by
  have hx0 := nextSqrtPriceAmount0In_pos hsp hl ha h
  rw [nextSqrtPriceAmount0In_eq] at h
  by_cases hz : amt = 0
  · rw [if_pos hz] at h; injection h with e
    subst e; subst hz
    refine ⟨l, hl, by omega, ?_⟩
    have : 0 < P36 * (P36 + l + sp) := Int.mul_pos P36_pos (by have := P36_pos; omega)
    simp only [Int.zero_mul, Int.sub_self]
    omega
  · rw [if_neg hz] at h
    obtain ⟨product, hp, h1⟩ := Option.bind_eq_some_iff.mp h
    obtain ⟨denom, hd, h2⟩ := Option.bind_eq_some_iff.mp h1
    obtain ⟨num, hn, h3⟩ := Option.bind_eq_some_iff.mp h2
    have has : 0 ≤ amt * sp := Int.mul_nonneg ha (Int.le_of_lt hsp)
    have tp := C12.mulTruncate_toward_zero hp
    obtain ⟨p0, hp1⟩ := trunc_nonneg_le P36_pos has tp
    have hp2 : amt * sp < (product + 1) * P36 := (tp.1 has).2
    have ed := C12.add_exact hd
    have cn := C12.mulRoundUp_ceil hn
    have d0 : 0 < denom := by omega
    have cx := quoRoundUpMut_ceil_pos d0 h3
    refine ⟨denom, d0, by rw [ed, Int.add_mul]; omega, ?_⟩
    -- x·denom < l·sp + P36 + denom
    have k1 : x * denom < l * sp + P36 + denom := by
      have a1 := cx.1
      have a2 := cn.1
      rw [Int.sub_mul] at a1 a2
      omega
    have k2 : x * product < l * (sp - x) + P36 + denom := by
      rw [ed] at k1
      have e1 : x * (product + l) = x * product + x * l := by ring
      have e2 : l * (sp - x) = l * sp - x * l := by ring
      omega
    have k3 : x * product * P36 < (l * (sp - x) + P36 + denom) * P36 := Int.mul_lt_mul_of_pos_right k2 P36_pos
    have k4 : amt * sp * x ≤ ((product + 1) * P36 - 1) * x := Int.mul_le_mul_of_nonneg_right (by omega) (Int.le_of_lt hx0)
    have e3 : amt * (x * sp) = amt * sp * x := by ring
    have e4 : ((product + 1) * P36 - 1) * x = x * product * P36 + x * P36 - x := by ring
    have e5 : (l * (sp - x) + P36 + denom) * P36 = (sp - x) * l * P36 + P36 * (P36 + denom) := by ring
    have e6 : P36 * (P36 + denom + x) = P36 * (P36 + denom) + x * P36 := by ring
    omega

theorem exact1_up {liq sp next : Int} (h : sp ≤ next) : exact1 liq next sp = ((next : ℚ) - sp) * liq / 10 ^ 36 := by
  unfold exact1
  rw [show ((next - sp).natAbs : Int) = next - sp by omega]
  push_cast
  norm_num

/-! ## the per-step slack -/

/-- zero-for-one step that does not reach its target: bound on the loss from rounding the next sqrt price. -/
def priceSlack0 (liq sp next amt : Int) : ℚ :=
  10 ^ 36 * (10 ^ 36 + ((amt : ℚ) * sp / 10 ^ 36 + (liq : ℚ) * 10 ^ 18) + next) / ((next : ℚ) * sp) / 10 ^ 18

/-- how far (raw 18-decimal units) the exact amount in of a recorded exact-in step can fall short of what the step consumed,
net of the spread factor. -/
def inSlack (zfo : Bool) (spf : Int) (e : StepRec) : ℚ :=
  if e.target ≠ e.res.sqrtPriceNext ∧ 0 < spf then
    (if zfo then priceSlack0 e.st.pool.liquidity e.st.pool.sqrtPrice e.res.sqrtPriceNext (e.st.remaining * (P18 - spf))
      else (e.st.pool.liquidity : ℚ) / 10 ^ 36)
  else inGain zfo e.res.sqrtPriceNext e.st.pool.sqrtPrice + (e.res.amountSpecified : ℚ) / 10 ^ 18 + 1

def sumInSlack (zfo : Bool) (spf : Int) : List StepRec → ℚ
  | [] => 0
  | e :: tr => inSlack zfo spf e + sumInSlack zfo spf tr

/-- the charge of a step that reaches its target, upper side. -/
theorem spreadChargeOutGivenIn_lt {amountIn remaining spf c : Int} (ha : 0 ≤ amountIn) (hs0 : 0 < spf) (hs1 : spf < P18)
    (h : spreadChargeOutGivenIn true amountIn remaining spf = some c) :
    (c : ℚ) < amountIn * ((spf : ℚ) / (10 ^ 18 - spf) + 1 / 10 ^ 18) + 1 := by
  unfold spreadChargeOutGivenIn at h
  rw [if_neg (by omega), if_neg (by omega)] at h
  simp only [↓reduceIte, Option.bind_eq_bind] at h
  obtain ⟨c', hc', h2⟩ := Option.bind_eq_some_iff.mp h
  split at h2
  · cases h2
  · injection h2 with e
    subst e
    exact spreadChargeFromAmountIn_lt ha (by omega) hs1 hc'

/-- one exact-in step: what it consumed net of the spread factor is less than the exact amount in plus the slack. -/
theorem stepOutGivenIn_net_lt_exact {zfo : Bool} {spf sp target liq remaining : Int} {r : StepResult}
    (hl : 0 ≤ liq) (hsp : 0 < sp) (ht : 0 < target) (hs0 : 0 ≤ spf) (hs1 : spf < P18) (hrem : 0 ≤ remaining)
    (hdn : if zfo then r.sqrtPriceNext ≤ sp else sp ≤ r.sqrtPriceNext)
    (h : stepOutGivenIn zfo spf sp target liq remaining = some r) :
    ((r.amountSpecified + r.spreadCharge : Int) : ℚ) * (10 ^ 18 - spf) <
      (exactIn zfo liq r.sqrtPriceNext sp + inSlack zfo spf ⟨⟨remaining, 0, ⟨sp, 0, liq⟩, 0, 0⟩, target, r⟩) * 10 ^ 18 := by
  obtain ⟨hn, hge, ⟨k, k0, ek⟩, _, _, c0, cz, cr, cn⟩ := stepOutGivenIn_curve hl hsp ht hs0 hs1 hrem h
  have hup := stepOf_in_upper (ogi := true) (zfo := zfo) (spf := spf) (target := target) (liq := liq) (rem := remaining)
    hsp hn (by unfold stepOf; simpa using h)
  unfold resIn at hup
  simp only [↓reduceIte] at hup
  have a0 : 0 ≤ r.amountSpecified := by rw [ek]; exact Int.mul_nonneg k0 P18_nonneg
  have qa0 : (0 : ℚ) ≤ r.amountSpecified := by exact_mod_cast a0
  have qs0 : (0 : ℚ) ≤ spf := by exact_mod_cast hs0
  have qs1 : (spf : ℚ) < 10 ^ 18 := by
    have : ((spf : Int) : ℚ) < ((P18 : Int) : ℚ) := Int.cast_lt.mpr hs1
    rw [P18_cast] at this; exact this
  unfold inSlack
  simp only
  by_cases hB : target ≠ r.sqrtPriceNext ∧ 0 < spf
  · -- not reached, positive spread factor: everything that remains is consumed
    rw [if_pos hB]
    obtain ⟨hreach, hpos⟩ := hB
    have hc := cn hreach hpos
    obtain ⟨x, y, amtIn0, oneMinus, _, _, _, _, _, h0, hone, hnext⟩ := stepOutGivenIn_decomp h
    subst hone
    have hcb : ¬ remaining * (P18 - spf) ≥ amtIn0 := by
      intro hc'
      rw [if_pos hc'] at hnext
      injection hnext with e; exact hreach e
    rw [if_neg hcb] at hnext
    have hamt : 0 ≤ remaining * (P18 - spf) := Int.mul_nonneg hrem (by omega)
    have esum : r.amountSpecified + r.spreadCharge = remaining := by omega
    rw [esum]
    cases zfo
    · simp only [Bool.false_eq_true, ↓reduceIte] at hnext hdn ⊢
      have k1 := next1In_exact_gt hnext hl hamt
      unfold exactIn
      simp only [Bool.false_eq_true, ↓reduceIte]
      rw [exact1_up hdn]
      have : ((remaining * (P18 - spf) * P18 : Int) : ℚ) < (((r.sqrtPriceNext - sp) * liq + liq : Int) : ℚ) := Int.cast_lt.mpr k1
      push_cast at this ⊢
      rw [P18_cast] at this
      have e : (((r.sqrtPriceNext : ℚ) - sp) * liq / 10 ^ 36 + (liq : ℚ) / 10 ^ 36) * 10 ^ 18 =
          (((r.sqrtPriceNext : ℚ) - sp) * liq + liq) / 10 ^ 18 := by ring
      rw [e, lt_div_iff₀ (by positivity)]
      linarith
    · simp only [↓reduceIte] at hnext hdn ⊢
      obtain ⟨l, hlb, hnx⟩ := Option.bind_eq_some_iff.mp hnext
      have el := C12.fromDec_exact hlb
      subst el
      have hlpos : 0 < liq := by
        rcases Int.lt_or_le 0 liq with hp | hz
        · exact hp
        · have e0 : liq = 0 := by omega
          subst e0
          unfold deltaIn at h0
          simp only [↓reduceIte] at h0
          have := amount0_roundUp_zero_liq ht hsp h0
          omega
      obtain ⟨d, d0, hd1, hd2⟩ := next0In_exact_gt hnx (Int.mul_pos hlpos Pdiff_pos) hsp hamt
      unfold exactIn
      simp only [↓reduceIte]
      rw [exact0_sorted hdn]
      unfold priceSlack0
      have qn : (0 : ℚ) < r.sqrtPriceNext := by exact_mod_cast hn
      have qsp : (0 : ℚ) < sp := by exact_mod_cast hsp
      have qd1 : (d : ℚ) ≤ ((remaining * (P18 - spf) : Int) : ℚ) * sp / 10 ^ 36 + (liq : ℚ) * 10 ^ 18 := by
        have : ((d * P36 : Int) : ℚ) ≤ ((remaining * (P18 - spf) * sp + liq * Pdiff * P36 : Int) : ℚ) := Int.cast_le.mpr hd1
        push_cast at this ⊢
        rw [P36_cast, Pdiff_cast, P18_cast] at this
        rw [P18_cast]
        have h36 : (0 : ℚ) < 10 ^ 36 := by positivity
        have e : ((remaining : ℚ) * (10 ^ 18 - spf)) * sp / 10 ^ 36 + (liq : ℚ) * 10 ^ 18 =
            ((remaining : ℚ) * (10 ^ 18 - spf) * sp + liq * 10 ^ 18 * 10 ^ 36) / 10 ^ 36 := by
          field_simp
        rw [e, le_div_iff₀ h36]
        exact this
      have qd2 : ((remaining * (P18 - spf) : Int) : ℚ) * ((r.sqrtPriceNext : ℚ) * sp) <
          ((sp : ℚ) - r.sqrtPriceNext) * ((liq : ℚ) * 10 ^ 18) * 10 ^ 36 + 10 ^ 36 * (10 ^ 36 + d + r.sqrtPriceNext) := by
        have : ((remaining * (P18 - spf) * (r.sqrtPriceNext * sp) : Int) : ℚ) <
            (((sp - r.sqrtPriceNext) * (liq * Pdiff) * P36 + P36 * (P36 + d + r.sqrtPriceNext) : Int) : ℚ) := Int.cast_lt.mpr hd2
        push_cast at this ⊢
        rw [P36_cast, Pdiff_cast] at this
        exact this
      have hns : (0 : ℚ) < (r.sqrtPriceNext : ℚ) * sp := by positivity
      -- multiply out
      have e : (((sp : ℚ) - r.sqrtPriceNext) * liq * 10 ^ 36 / ((r.sqrtPriceNext : ℚ) * sp) +
          10 ^ 36 * (10 ^ 36 + (((remaining * (P18 - spf) : Int) : ℚ) * sp / 10 ^ 36 + (liq : ℚ) * 10 ^ 18) + r.sqrtPriceNext) /
            ((r.sqrtPriceNext : ℚ) * sp) / 10 ^ 18) * 10 ^ 18 =
          (((sp : ℚ) - r.sqrtPriceNext) * ((liq : ℚ) * 10 ^ 18) * 10 ^ 36 +
            10 ^ 36 * (10 ^ 36 + (((remaining * (P18 - spf) : Int) : ℚ) * sp / 10 ^ 36 + (liq : ℚ) * 10 ^ 18) + r.sqrtPriceNext)) /
            ((r.sqrtPriceNext : ℚ) * sp) := by
        field_simp
      rw [e, lt_div_iff₀ hns]
      have hmono : (10 : ℚ) ^ 36 * (10 ^ 36 + d + r.sqrtPriceNext) ≤
          10 ^ 36 * (10 ^ 36 + (((remaining * (P18 - spf) : Int) : ℚ) * sp / 10 ^ 36 + (liq : ℚ) * 10 ^ 18) + r.sqrtPriceNext) := by
        apply mul_le_mul_of_nonneg_left _ (by positivity)
        linarith
      have ecast : ((remaining : Int) : ℚ) * (10 ^ 18 - spf) = ((remaining * (P18 - spf) : Int) : ℚ) := by
        push_cast; rw [P18_cast]
      rw [ecast]
      linarith
  · rw [if_neg hB]
    have hup' : (r.amountSpecified : ℚ) * 10 ^ 18 <
        (exactIn zfo liq r.sqrtPriceNext sp + inGain zfo r.sqrtPriceNext sp) * 10 ^ 18 :=
      mul_lt_mul_of_pos_right hup (by positivity)
    rcases Int.lt_or_le 0 spf with hpos | hz
    · -- reached, positive spread factor
      have hreach : target = r.sqrtPriceNext := by
        by_contra hne; exact hB ⟨hne, hpos⟩
      obtain ⟨x, y, amtIn0, oneMinus, _, _, _, _, hch, _⟩ := stepOutGivenIn_decomp h
      rw [decide_eq_true hreach] at hch
      have hc := spreadChargeOutGivenIn_lt a0 hpos hs1 hch
      have qd : (0 : ℚ) < 10 ^ 18 - spf := by linarith
      have h1 : (r.spreadCharge : ℚ) * (10 ^ 18 - spf) <
          (r.amountSpecified * ((spf : ℚ) / (10 ^ 18 - spf) + 1 / 10 ^ 18) + 1) * (10 ^ 18 - spf) :=
        mul_lt_mul_of_pos_right hc qd
      have h2 : ((r.amountSpecified : ℚ) * ((spf : ℚ) / (10 ^ 18 - spf) + 1 / 10 ^ 18) + 1) * (10 ^ 18 - spf) =
          r.amountSpecified * spf + r.amountSpecified * (10 ^ 18 - spf) / 10 ^ 18 + (10 ^ 18 - spf) := by
        field_simp
      have h3 : (r.amountSpecified : ℚ) * (10 ^ 18 - spf) / 10 ^ 18 ≤ r.amountSpecified := by
        rw [div_le_iff₀ (by positivity)]
        nlinarith
      push_cast
      have e : (exactIn zfo liq r.sqrtPriceNext sp +
          (inGain zfo r.sqrtPriceNext sp + (r.amountSpecified : ℚ) / 10 ^ 18 + 1)) * 10 ^ 18 =
          (exactIn zfo liq r.sqrtPriceNext sp + inGain zfo r.sqrtPriceNext sp) * 10 ^ 18 + r.amountSpecified + 10 ^ 18 := by
        ring
      rw [e]
      nlinarith
    · have e0 : spf = 0 := by omega
      have hc := cz e0
      rw [hc, e0]
      push_cast
      have e : (exactIn zfo liq r.sqrtPriceNext sp +
          (inGain zfo r.sqrtPriceNext sp + (r.amountSpecified : ℚ) / 10 ^ 18 + 1)) * 10 ^ 18 =
          (exactIn zfo liq r.sqrtPriceNext sp + inGain zfo r.sqrtPriceNext sp) * 10 ^ 18 + r.amountSpecified + 10 ^ 18 := by
        ring
      rw [e]
      nlinarith

/-- summed over a run of an exact-in swap. -/
theorem run_net_le_exact {zfo : Bool} {spf limit : Int} {st st' : SwapSt} {tr : List StepRec}
    (hs0 : 0 ≤ spf) (hs1 : spf < P18) (h : Run true zfo spf limit st tr st')
    (hall : ∀ e ∈ tr, RecGoodL true zfo limit e) :
    ((sumIn true tr + sumCharge tr : Int) : ℚ) * (10 ^ 18 - spf) ≤ (sumExactIn zfo tr + sumInSlack zfo spf tr) * 10 ^ 18 := by
  have hmem := h.mem
  clear h
  induction tr with
  | nil => simp [sumExactIn, sumIn, sumCharge, sumInSlack]
  | cons e tr ih =>
    have i := ih (fun e he => hall e (List.mem_cons_of_mem _ he)) (fun e he => hmem e (List.mem_cons_of_mem _ he))
    obtain ⟨⟨⟨hliq, _⟩, hsp, hn, hdirs⟩, _, _⟩ := hall e List.mem_cons_self
    obtain ⟨hrem, _, hstep⟩ := hmem e List.mem_cons_self
    unfold stepOf at hstep
    simp only [↓reduceIte] at hstep
    have ht : 0 < e.target := by
      cases zfo
      · simp only [Bool.false_eq_true, ↓reduceIte] at hdirs; omega
      · simp only [↓reduceIte] at hdirs; omega
    have hdn : if zfo then e.res.sqrtPriceNext ≤ e.st.pool.sqrtPrice else e.st.pool.sqrtPrice ≤ e.res.sqrtPriceNext := by
      cases zfo
      · simp only [Bool.false_eq_true, ↓reduceIte] at hdirs ⊢; exact hdirs.2
      · simp only [↓reduceIte] at hdirs ⊢; exact hdirs.2.2.2
    have b := stepOutGivenIn_net_lt_exact hliq hsp ht hs0 hs1 (by omega) hdn hstep
    have b' : ((e.res.amountSpecified + e.res.spreadCharge : Int) : ℚ) * (10 ^ 18 - spf) <
        (exactIn zfo e.st.pool.liquidity e.res.sqrtPriceNext e.st.pool.sqrtPrice + inSlack zfo spf e) * 10 ^ 18 := b
    unfold sumExactIn sumIn sumCharge sumInSlack StepRec.amtIn
    simp only [↓reduceIte]
    push_cast at b' i ⊢
    linarith

/-! ## the slack in numbers: at sqrt prices ≥ 10^-6 less than one token + 2 raw units + tiny terms -/

theorem inSlack_le {zfo : Bool} {spf : Int} {e : StepRec} (hs0 : 0 ≤ spf) (hs1 : spf < P18)
    (hf1 : 1000000000000000000000000000000 ≤ e.st.pool.sqrtPrice)
    (hf2 : 1000000000000000000000000000000 ≤ e.res.sqrtPriceNext)
    (hliq : 0 ≤ e.st.pool.liquidity) (hrem : 0 ≤ e.st.remaining) (ha : 0 ≤ e.res.amountSpecified) :
    inSlack zfo spf e ≤ 10 ^ 18 + 2 + (e.res.amountSpecified : ℚ) / 10 ^ 18 + (e.st.remaining : ℚ) / 10 ^ 30 +
      (e.st.pool.liquidity : ℚ) / 10 ^ 24 := by
  have qa : (0 : ℚ) ≤ e.res.amountSpecified := by exact_mod_cast ha
  have ql : (0 : ℚ) ≤ e.st.pool.liquidity := by exact_mod_cast hliq
  have qr : (0 : ℚ) ≤ e.st.remaining := by exact_mod_cast hrem
  have qp : (10 : ℚ) ^ 30 ≤ e.st.pool.sqrtPrice := by exact_mod_cast hf1
  have qn : (10 : ℚ) ^ 30 ≤ e.res.sqrtPriceNext := by exact_mod_cast hf2
  have p0 : (0 : ℚ) < e.st.pool.sqrtPrice := by linarith [show (0 : ℚ) < 10 ^ 30 by positivity]
  have n0 : (0 : ℚ) < e.res.sqrtPriceNext := by linarith [show (0 : ℚ) < 10 ^ 30 by positivity]
  have t1 : (0 : ℚ) ≤ (e.res.amountSpecified : ℚ) / 10 ^ 18 := by positivity
  have t2 : (0 : ℚ) ≤ (e.st.remaining : ℚ) / 10 ^ 30 := by positivity
  have t3 : (0 : ℚ) ≤ (e.st.pool.liquidity : ℚ) / 10 ^ 24 := by positivity
  unfold inSlack
  split
  · cases zfo
    · simp only [Bool.false_eq_true, ↓reduceIte]
      have : (e.st.pool.liquidity : ℚ) / 10 ^ 36 ≤ (e.st.pool.liquidity : ℚ) / 10 ^ 24 :=
        div_le_div_of_nonneg_left ql (by positivity) (by norm_num)
      linarith [show (0 : ℚ) ≤ 10 ^ 18 + 2 by positivity]
    · simp only [↓reduceIte]
      unfold priceSlack0
      have qs0 : (0 : ℚ) ≤ spf := by exact_mod_cast hs0
      have hamt : ((e.st.remaining * (P18 - spf) : Int) : ℚ) ≤ (e.st.remaining : ℚ) * 10 ^ 18 := by
        push_cast; rw [P18_cast]
        nlinarith
      have hamt0 : (0 : ℚ) ≤ ((e.st.remaining * (P18 - spf) : Int) : ℚ) := by
        have : 0 ≤ e.st.remaining * (P18 - spf) := Int.mul_nonneg hrem (by omega)
        exact_mod_cast this
      have hns : (0 : ℚ) < (e.res.sqrtPriceNext : ℚ) * e.st.pool.sqrtPrice := by positivity
      have hns60 : (10 : ℚ) ^ 60 ≤ (e.res.sqrtPriceNext : ℚ) * e.st.pool.sqrtPrice := by
        have : (10 : ℚ) ^ 60 = 10 ^ 30 * 10 ^ 30 := by norm_num
        rw [this]
        exact mul_le_mul qn qp (by positivity) (le_of_lt n0)
      rw [div_div, div_le_iff₀ (by positivity)]
      -- numerator ≤ bound · (next·sp·10^18)
      have b1 : (10 : ℚ) ^ 36 * 10 ^ 36 ≤ (1 / 2) * ((e.res.sqrtPriceNext : ℚ) * e.st.pool.sqrtPrice * 10 ^ 18) := by
        nlinarith
      have b2 : (10 : ℚ) ^ 36 * (e.res.sqrtPriceNext : ℚ) ≤ (1 / 2) * ((e.res.sqrtPriceNext : ℚ) * e.st.pool.sqrtPrice * 10 ^ 18) := by
        have : (2 : ℚ) * 10 ^ 36 ≤ e.st.pool.sqrtPrice * 10 ^ 18 := by nlinarith
        nlinarith
      have b3 : (10 : ℚ) ^ 36 * (((e.st.remaining * (P18 - spf) : Int) : ℚ) * e.st.pool.sqrtPrice / 10 ^ 36) ≤
          (e.st.remaining : ℚ) / 10 ^ 30 * ((e.res.sqrtPriceNext : ℚ) * e.st.pool.sqrtPrice * 10 ^ 18) := by
        have e1 : (10 : ℚ) ^ 36 * (((e.st.remaining * (P18 - spf) : Int) : ℚ) * e.st.pool.sqrtPrice / 10 ^ 36) =
            ((e.st.remaining * (P18 - spf) : Int) : ℚ) * e.st.pool.sqrtPrice := by field_simp
        have e2 : (e.st.remaining : ℚ) / 10 ^ 30 * ((e.res.sqrtPriceNext : ℚ) * e.st.pool.sqrtPrice * 10 ^ 18) =
            (e.st.remaining : ℚ) * 10 ^ 18 * ((e.res.sqrtPriceNext : ℚ) / 10 ^ 30) * e.st.pool.sqrtPrice := by
          field_simp
        rw [e1, e2]
        have h1 : (1 : ℚ) ≤ (e.res.sqrtPriceNext : ℚ) / 10 ^ 30 := by
          rw [le_div_iff₀ (by positivity)]; linarith
        have h2 : ((e.st.remaining * (P18 - spf) : Int) : ℚ) ≤ (e.st.remaining : ℚ) * 10 ^ 18 * ((e.res.sqrtPriceNext : ℚ) / 10 ^ 30) := by
          have : (e.st.remaining : ℚ) * 10 ^ 18 * 1 ≤ (e.st.remaining : ℚ) * 10 ^ 18 * ((e.res.sqrtPriceNext : ℚ) / 10 ^ 30) :=
            mul_le_mul_of_nonneg_left h1 (by positivity)
          linarith
        exact mul_le_mul_of_nonneg_right h2 (le_of_lt p0)
      have b4 : (10 : ℚ) ^ 36 * ((e.st.pool.liquidity : ℚ) * 10 ^ 18) ≤
          (e.st.pool.liquidity : ℚ) / 10 ^ 24 * ((e.res.sqrtPriceNext : ℚ) * e.st.pool.sqrtPrice * 10 ^ 18) := by
        have e2 : (e.st.pool.liquidity : ℚ) / 10 ^ 24 * ((e.res.sqrtPriceNext : ℚ) * e.st.pool.sqrtPrice * 10 ^ 18) =
            (e.st.pool.liquidity : ℚ) * ((e.res.sqrtPriceNext : ℚ) * e.st.pool.sqrtPrice) / 10 ^ 6 := by
          ring
        rw [e2, le_div_iff₀ (by positivity)]
        have : (e.st.pool.liquidity : ℚ) * 10 ^ 60 ≤ (e.st.pool.liquidity : ℚ) * ((e.res.sqrtPriceNext : ℚ) * e.st.pool.sqrtPrice) :=
          mul_le_mul_of_nonneg_left hns60 ql
        nlinarith
      have hpos : (0 : ℚ) ≤ (e.res.sqrtPriceNext : ℚ) * e.st.pool.sqrtPrice * 10 ^ 18 := by positivity
      nlinarith [mul_nonneg t1 hpos, mul_nonneg (show (0:ℚ) ≤ 10 ^ 18 + 1 by positivity) hpos]
  · have g := gain0_le hf2 hf1
    have : inGain zfo e.res.sqrtPriceNext e.st.pool.sqrtPrice ≤ 10 ^ 18 + 1 := by
      unfold inGain
      cases zfo
      · simp
      · simp only [↓reduceIte]
        have : (1 : ℚ) / 10 ^ 6 ≤ 1 := by norm_num
        linarith
    linarith

/-! ## exact-out: the exact amount in is at most the amount charged net of the spread factor -/

/-- summed over a run of an exact-OUT swap: every step charges `≥ spf/(1−spf)` of its amount in, which is at least the exact
amount in between its start and end price. -/
theorem run_exact_le_net_out {zfo : Bool} {spf limit : Int} {st st' : SwapSt} {tr : List StepRec}
    (hs0 : 0 ≤ spf) (hs1 : spf < P18) (h : Run false zfo spf limit st tr st')
    (hall : ∀ e ∈ tr, RecGoodL false zfo limit e) :
    sumExactIn zfo tr * 10 ^ 18 ≤ ((sumIn false tr + sumCharge tr : Int) : ℚ) * (10 ^ 18 - spf) := by
  have hmem := h.mem
  clear h
  induction tr with
  | nil => simp [sumExactIn, sumIn, sumCharge]
  | cons e tr ih =>
    have i := ih (fun e he => hall e (List.mem_cons_of_mem _ he)) (fun e he => hmem e (List.mem_cons_of_mem _ he))
    obtain ⟨⟨⟨hliq, hdirT⟩, hsp, hn, hdirs⟩, _, _⟩ := hall e List.mem_cons_self
    obtain ⟨hrem, _, hstep⟩ := hmem e List.mem_cons_self
    unfold stepOf at hstep
    simp only [Bool.false_eq_true, ↓reduceIte] at hstep
    have ht : 0 < e.target := by
      cases zfo
      · simp only [Bool.false_eq_true, ↓reduceIte] at hdirs; omega
      · simp only [↓reduceIte] at hdirs; omega
    obtain ⟨_, hge, ⟨k, k0, ek⟩, _, _, _, c0, hc⟩ := stepInGivenOut_curve hliq hsp ht hs0 hs1 (by omega) (hdirT rfl) hstep
    have qge : exactIn zfo e.st.pool.liquidity e.res.sqrtPriceNext e.st.pool.sqrtPrice ≤ (e.res.amountOther : ℚ) :=
      (inGe_iff hn hsp).mp hge
    have qc : (e.res.amountOther : ℚ) * spf ≤ e.res.spreadCharge * (10 ^ 18 - spf) := by
      have : ((e.res.amountOther * spf : Int) : ℚ) ≤ ((e.res.spreadCharge * (P18 - spf) : Int) : ℚ) := Int.cast_le.mpr hc
      push_cast at this; rw [P18_cast] at this; exact this
    unfold sumExactIn sumIn sumCharge StepRec.amtIn
    simp only [Bool.false_eq_true, ↓reduceIte]
    push_cast at i ⊢
    nlinarith

end OsmoVerif.CLIdeal
