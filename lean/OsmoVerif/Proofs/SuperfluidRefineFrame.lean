/- C11, refinement of the rate-one ledger model by the staking model, part 1: the lockup / marker / multiplier
primitives of Model/Superfluid.lean do not look at the staking ledger `deleg` — replacing it commutes with each of
them.  Core only. -/
import OsmoVerif.Proofs.SuperfluidStkKeep

namespace OsmoVerif.Superfluid
open OsmoVerif.Num

/-- replace the staking ledger. -/
def setD (f : AccKey → Option Int) (b : State) : State := { b with deleg := f }

macro "commD" : tactic =>
  `(tactic| (dsimp only [setD]; repeat' (first | rfl | (split <;> try simp only [*, ↓reduceIte, Except.map, reduceCtorEq,
      false_and, and_false, and_true, true_and]))))

macro "splitD" : tactic =>
  `(tactic| (split <;> try simp only [*, ↓reduceIte, reduceCtorEq, false_and, and_false, and_true, true_and]))

theorem setD_fields (f : AccKey → Option Int) (b : State) :
    (setD f b).locks = b.locks ∧ (setD f b).synths = b.synths ∧ (setD f b).conns = b.conns ∧ (setD f b).accs = b.accs ∧
    (setD f b).validators = b.validators ∧ (setD f b).assets = b.assets ∧ (setD f b).supply = b.supply ∧
    (setD f b).offset = b.offset ∧ (setD f b).deleg = f := ⟨rfl, rfl, rfl, rfl, rfl, rfl, rfl, rfl, rfl⟩

theorem setD_setD (f g : AccKey → Option Int) (b : State) : setD f (setD g b) = setD f b := rfl

theorem createSynth_setD (f : AccKey → Option Int) (b : State) (id : Nat) (kind : SKind) (key : AccKey) :
    createSynth (setD f b) id kind key = (createSynth b id kind key).map (setD f) := by
  unfold createSynth; commD

theorem deleteSynth_setD (f : AccKey → Option Int) (b : State) (id : Nat) (kind : SKind) (key : AccKey) :
    deleteSynth (setD f b) id kind key = (deleteSynth b id kind key).map (setD f) := by
  unfold deleteSynth; commD

theorem osmoTokens_setD (f : AccKey → Option Int) (b : State) (d : Nat) (x : Int) :
    osmoTokens (setD f b) d x = osmoTokens b d x := rfl

theorem expectedDelegation_setD (f : AccKey → Option Int) (b : State) (k : AccKey) :
    expectedDelegation (setD f b) k = expectedDelegation b k := rfl

theorem alreadyStaking_setD (f : AccKey → Option Int) (b : State) (id : Nat) :
    alreadyStaking (setD f b) id = alreadyStaking b id := rfl

theorem getOrCreateAcc_setD (f : AccKey → Option Int) (b : State) (key : AccKey) :
    getOrCreateAcc (setD f b) key = setD f (getOrCreateAcc b key) := by
  unfold getOrCreateAcc; commD

theorem createLock_setD (f : AccKey → Option Int) (b : State) (o d : Nat) (a du : Int) (sg : Bool) :
    createLock (setD f b) o d a du sg = (createLock b o d a du sg).map (fun r => (setD f r.1, r.2)) := by
  unfold createLock; commD

theorem beginUnlock_setD (f : AccKey → Option Int) (b : State) (id : Nat) (c : Option Int) :
    beginUnlock (setD f b) id c = (beginUnlock b id c).map (fun r => (setD f r.1, r.2)) := by
  unfold beginUnlock; commD

theorem msgBeginUnlocking_setD (f : AccKey → Option Int) (b : State) (snd id : Nat) (c : Option Int) :
    msgBeginUnlocking (setD f b) snd id c = (msgBeginUnlocking b snd id c).map (fun r => (setD f r.1, r.2)) := by
  unfold msgBeginUnlocking
  show (match b.locks id with | none => _ | some l => _) = _
  splitD
  · rfl
  · splitD
    · rfl
    · show (match b.synths id with | _ :: _ => _ | [] => _) = _
      splitD
      · rfl
      · exact beginUnlock_setD f b id c

theorem unlockMatured_setD (f : AccKey → Option Int) (b : State) (id : Nat) :
    unlockMatured (setD f b) id = (unlockMatured b id).map (setD f) := by
  unfold unlockMatured; commD

theorem unbondLock_setD (f : AccKey → Option Int) (b : State) (id snd : Nat) (c : Option Int) :
    unbondLock (setD f b) id snd c = (unbondLock b id snd c).map (fun r => (setD f r.1, r.2)) := by
  unfold unbondLock
  show (match b.locks id with | none => _ | some l => _) = _
  splitD
  · rfl
  · splitD
    · rfl
    · splitD
      · rfl
      · show (match b.synths id with | _ :: _ :: _ => _ | [] => _ | [sy] => _) = _
        splitD
        · rfl
        · rfl
        · splitD
          · rfl
          · exact beginUnlock_setD f b id c

theorem superfluidUnbondLock_setD (f : AccKey → Option Int) (b : State) (id snd : Nat) :
    superfluidUnbondLock (setD f b) id snd = (superfluidUnbondLock b id snd).map (setD f) := by
  unfold superfluidUnbondLock
  rw [unbondLock_setD]
  cases unbondLock b id snd none with
  | error e => rfl
  | ok r => rfl

theorem deleteSynths_setD (f : AccKey → Option Int) (id : Nat) : ∀ (l : List Synth) (b : State),
    deleteSynths (setD f b) id l = (deleteSynths b id l).map (setD f)
  | [], b => rfl
  | x :: r, b => by
    unfold deleteSynths
    rw [deleteSynth_setD]
    cases deleteSynth b id x.kind x.key with
    | error e => rfl
    | ok b1 => exact deleteSynths_setD f id r b1

theorem sweepSynths_setD (f : AccKey → Option Int) (b : State) : ∀ (n : Nat),
    sweepSynths (setD f b) n = (sweepSynths b n).map (setD f)
  | 0 => rfl
  | n + 1 => by
    unfold sweepSynths
    rw [sweepSynths_setD f b n]
    cases sweepSynths b n with
    | error e => rfl
    | ok b1 => exact deleteSynths_setD f (n + 1) _ b1

theorem sweepLocks_setD (f : AccKey → Option Int) (b : State) : ∀ (n : Nat),
    sweepLocks (setD f b) n = (sweepLocks b n).map (setD f)
  | 0 => rfl
  | n + 1 => by
    unfold sweepLocks
    rw [sweepLocks_setD f b n]
    cases sweepLocks b n with
    | error e => rfl
    | ok b1 =>
      show (match b1.locks (n + 1) with | none => _ | some l => _) = _
      splitD
      · rfl
      · splitD
        · rfl
        · show (if _ ≤ b1.now then _ else _) = _
          splitD
          · rw [unlockMatured_setD]
            cases unlockMatured b1 (n + 1) with
            | error e => rfl
            | ok b2 => rfl
          · rfl

theorem endBlock_setD (f : AccKey → Option Int) (b : State) : endBlock (setD f b) = (endBlock b).map (setD f) := by
  unfold endBlock
  show (match sweepSynths (setD f b) b.lastLockId with | .error e => _ | .ok s1 => _) = _
  rw [sweepSynths_setD]
  cases sweepSynths b b.lastLockId with
  | error e => rfl
  | ok b1 => exact sweepLocks_setD f b1 b1.lastLockId

theorem withdraw_setD (f : AccKey → Option Int) (b : State) (id : Nat) : withdraw (setD f b) id = (withdraw b id).map (setD f) := by
  unfold withdraw
  show (match sweepSynths (setD f b) b.lastLockId with | .error e => _ | .ok s1 => _) = _
  rw [sweepSynths_setD]
  cases sweepSynths b b.lastLockId with
  | error e => rfl
  | ok b1 => exact unlockMatured_setD f b1 id

theorem advance_setD (f : AccKey → Option Int) (b : State) (dt : Int) : advance (setD f b) dt = (advance b dt).map (setD f) := by
  unfold advance; commD

theorem updateMults_setD (f : AccKey → Option Int) : ∀ (ups : List (Nat × Int × Int × Bool)) (b : State),
    updateMults (setD f b) ups = (updateMults b ups).map (fun r => (setD f r.1, r.2))
  | [], b => rfl
  | (d, osmo, q, cl) :: r, b => by
    unfold updateMults
    show (if d ∉ b.assets then _ else _) = _
    splitD
    · rfl
    · splitD
      · rfl
      · splitD
        · splitD
          · exact updateMults_setD f r b
          · splitD
            · exact updateMults_setD f r b
            · rename_i m _; exact updateMults_setD f r { b with mult := upd b.mult d m }
        · splitD
          · rfl
          · splitD
            · rfl
            · rename_i m _; exact updateMults_setD f r { b with mult := upd b.mult d m }

end OsmoVerif.Superfluid
