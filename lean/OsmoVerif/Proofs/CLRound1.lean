/-
C03 helpers, part 1: explicit (unfolded) forms of the math.go functions — obtained by interpreting the
regenerated operator lists `Gen.CL.ops_*` (tie T1: a changed operator in the Go source changes the list
and breaks the `rfl` below) — and the rounding direction of the amount deltas.
-/
import OsmoVerif.Model.CL
import OsmoVerif.Props.C12
import Mathlib.Tactic.Linarith
import Mathlib.Tactic.Ring
import Mathlib.Tactic.Positivity

namespace OsmoVerif.CL
open OsmoVerif.Num OsmoVerif.Gen OsmoVerif.Spec OsmoVerif.Props

/-! ### positive-divisor forms of the C12 facts -/

theorem natAbs_of_pos {b : Int} (hb : 0 < b) : (b.natAbs : Int) = b := by omega

theorem quoRoundUpMut_ceil_pos {a b r : Int} (hb : 0 < b) (h : BigDec.quoRoundUpMut a b = some r) :
    IsCeil (a * P36) b r := by
  have := (C12.quoRoundUpMut_ceil h).2
  rwa [sgnMul_of_pos _ hb, natAbs_of_pos hb] at this

theorem quoRoundUpNextInt_ceil_pos {a b r : Int} (hb : 0 < b) (h : BigDec.quoRoundUpNextIntMut a b = some r) :
    ∃ k, r = k * P36 ∧ IsCeil a b k := by
  obtain ⟨k, hk, hc⟩ := (C12.quoRoundUpNextInt_ceil h).2
  rw [sgnMul_of_pos _ hb, natAbs_of_pos hb] at hc
  exact ⟨k, hk, hc⟩

theorem quoTruncate_trunc_pos {a b r : Int} (hb : 0 < b) (h : BigDec.quoTruncate a b = some r) :
    IsTrunc (a * P36) b r := by
  have := (C12.quoTruncate_toward_zero h).2
  rwa [sgnMul_of_pos _ hb, natAbs_of_pos hb] at this

theorem quoTruncateDec_trunc_pos {a b r : Int} (hb : 0 < b) (h : BigDec.quoTruncateDec a b = some r) :
    IsTrunc (a * P18) b r := by
  have := (C12.quoTruncateDec_toward_zero h).2
  rwa [sgnMul_of_pos _ hb, natAbs_of_pos hb] at this

theorem quoByDecRoundUp_ceil_pos {a b r : Int} (hb : 0 < b) (h : BigDec.quoByDecRoundUp a b = some r) :
    IsCeil (a * P18) b r := by
  have := (C12.quoByDecRoundUp_ceil h).2
  rwa [sgnMul_of_pos _ hb, natAbs_of_pos hb] at this

/-- truncation of a non-negative numerator: non-negative and below the exact quotient. -/
theorem trunc_nonneg_le {n d r : Int} (hd : 0 < d) (hn : 0 ≤ n) (h : IsTrunc n d r) : 0 ≤ r ∧ r * d ≤ n := by
  obtain ⟨h1, h2⟩ := h.1 hn
  refine ⟨?_, h1⟩
  by_contra hr
  have : (r + 1) * d ≤ 0 := Int.mul_nonpos_of_nonpos_of_nonneg (by omega) (by omega)
  omega

/-- a ceiling of a non-negative numerator is non-negative. -/
theorem ceil_nonneg {n d r : Int} (hd : 0 < d) (hn : 0 ≤ n) (h : IsCeil n d r) : 0 ≤ r := by
  by_contra hr
  have : r * d ≤ (-1) * d := Int.mul_le_mul_of_nonneg_right (by omega) (by omega)
  have := h.2
  omega

/-- a ceiling of a positive numerator is positive. -/
theorem ceil_pos {n d r : Int} (hd : 0 < d) (hn : 0 < n) (h : IsCeil n d r) : 0 < r := by
  by_contra hr
  have : r * d ≤ 0 := Int.mul_nonpos_of_nonpos_of_nonneg (by omega) (by omega)
  have := h.2
  omega

/-! ### T1 tie: explicit forms read off the regenerated operator lists -/

theorem calcAmount0Delta_comm (liq a b : Int) (ru : Bool) :
    calcAmount0Delta liq a b ru = calcAmount0Delta liq b a ru := by
  unfold calcAmount0Delta
  rcases Int.lt_trichotomy a b with h | h | h
  · rw [if_neg (by omega), if_pos (by omega)]
  · subst h; rfl
  · rw [if_pos (by omega), if_neg (by omega)]

theorem calcAmount0Delta_roundUp_eq {liq a b : Int} (hab : a ≤ b) :
    calcAmount0Delta liq a b true =
      (BigDec.sub b a).bind fun d => (BigDec.mulRoundUpDec d liq).bind fun x =>
        (BigDec.quoRoundUpMut x b).bind fun y => BigDec.quoRoundUpNextIntMut y a := by
  unfold calcAmount0Delta
  rw [if_neg (by omega)]
  rfl

theorem calcAmount0Delta_roundDown_eq {liq a b : Int} (hab : a ≤ b) :
    calcAmount0Delta liq a b false =
      (BigDec.sub b a).bind fun d => (BigDec.mulTruncateDec d liq).bind fun x =>
        (BigDec.quoTruncate x b).bind fun y => BigDec.quoTruncate y a := by
  unfold calcAmount0Delta
  rw [if_neg (by omega)]
  rfl

theorem calcAmount1Delta_roundUp_eq (liq a b : Int) :
    calcAmount1Delta liq a b true =
      (BigDec.sub b a).bind fun d => (BigDec.mulRoundUpDec (d.natAbs : Int) liq).bind BigDec.ceil := rfl

theorem calcAmount1Delta_roundDown_eq (liq a b : Int) :
    calcAmount1Delta liq a b false =
      (BigDec.sub b a).bind fun d => BigDec.mulTruncateDec (d.natAbs : Int) liq := rfl

theorem nextSqrtPriceAmount0In_eq (sp liq amt : Int) :
    nextSqrtPriceAmount0In sp liq amt =
      if amt = 0 then some sp else
        (BigDec.mulTruncate amt sp).bind fun product => (BigDec.add product liq).bind fun denom =>
          (BigDec.mulRoundUp liq sp).bind fun num => BigDec.quoRoundUpMut num denom := rfl

theorem nextSqrtPriceAmount0Out_eq (sp liq amtDec : Int) :
    nextSqrtPriceAmount0Out sp liq amtDec =
      if amtDec = 0 then some sp else
        (BigDec.mulRoundUpDec sp amtDec).bind fun product => (BigDec.sub liq product).bind fun denom =>
          (BigDec.mulRoundUp liq sp).bind fun num => BigDec.quoRoundUpMut num denom := rfl

theorem nextSqrtPriceAmount1In_eq (sp liqDec amt : Int) :
    nextSqrtPriceAmount1In sp liqDec amt = (BigDec.quoTruncateDec amt liqDec).bind fun q => BigDec.add q sp := rfl

theorem nextSqrtPriceAmount1Out_eq (sp liqDec amt : Int) :
    nextSqrtPriceAmount1Out sp liqDec amt = (BigDec.quoByDecRoundUp amt liqDec).bind fun q => BigDec.sub sp q := rfl

theorem fitsBits_neg (n : Nat) (x : Int) : fitsBits n (-x) = fitsBits n x := by
  unfold fitsBits; rw [Int.natAbs_neg]

theorem calcAmount1Delta_comm (liq a b : Int) (ru : Bool) :
    calcAmount1Delta liq a b ru = calcAmount1Delta liq b a ru := by
  have key : ∀ (f : Int → Option Int), ((BigDec.sub b a).bind fun d => f (d.natAbs : Int)) =
      ((BigDec.sub a b).bind fun d => f (d.natAbs : Int)) := by
    intro f
    unfold BigDec.sub chk
    have e : a - b = -(b - a) := by omega
    rw [e, fitsBits_neg]
    split
    · simp only [Option.bind_some, Int.natAbs_neg]
    · rfl
  cases ru
  · rw [calcAmount1Delta_roundDown_eq, calcAmount1Delta_roundDown_eq]
    exact key fun d => BigDec.mulTruncateDec d liq
  · rw [calcAmount1Delta_roundUp_eq, calcAmount1Delta_roundUp_eq]
    exact key fun d => (BigDec.mulRoundUpDec d liq).bind BigDec.ceil

/-! ### amount deltas round in the pool's favour (cross-multiplied, `P36 = 10^36`, `P18 = 10^18`) -/

theorem P36_nonneg : 0 ≤ P36 := Int.le_of_lt P36_pos
theorem P18_nonneg : 0 ≤ P18 := Int.le_of_lt P18_pos

/-- token0, rounding up: whole tokens `k`, `k ≥ L(√b − √a)/(√a√b)`. -/
theorem amount0_roundUp_sorted {liq a b r : Int} (ha : 0 < a) (hab : a ≤ b) (hl : 0 ≤ liq)
    (h : calcAmount0Delta liq a b true = some r) :
    ∃ k, r = k * P36 ∧ 0 ≤ k ∧ (b - a) * liq * P36 ≤ k * a * b * P18 := by
  rw [calcAmount0Delta_roundUp_eq hab] at h
  obtain ⟨d, hd, h1⟩ := Option.bind_eq_some_iff.mp h
  obtain ⟨x, hx, h2⟩ := Option.bind_eq_some_iff.mp h1
  obtain ⟨y, hy, hr⟩ := Option.bind_eq_some_iff.mp h2
  clear h h1 h2
  have hb : 0 < b := by omega
  have ed := C12.sub_exact hd
  have cx := C12.mulRoundUpDec_ceil hx
  have cy := quoRoundUpMut_ceil_pos hb hy
  obtain ⟨k, hk, ck⟩ := quoRoundUpNextInt_ceil_pos ha hr
  subst ed
  have hdl : 0 ≤ (b - a) * liq := Int.mul_nonneg (by omega) hl
  have x0 : 0 ≤ x := ceil_nonneg P18_pos hdl cx
  have y0 : 0 ≤ y := ceil_nonneg hb (Int.mul_nonneg x0 P36_nonneg) cy
  have k0 : 0 ≤ k := ceil_nonneg ha y0 ck
  refine ⟨k, hk, k0, ?_⟩
  have h1 := cx.2; have h2 := cy.2; have h3 := ck.2
  have p36 := P36_nonneg; have p18 := P18_nonneg
  calc (b - a) * liq * P36 ≤ x * P18 * P36 := Int.mul_le_mul_of_nonneg_right h1 p36
    _ = x * P36 * P18 := by ring
    _ ≤ y * b * P18 := Int.mul_le_mul_of_nonneg_right h2 p18
    _ ≤ k * a * b * P18 :=
        Int.mul_le_mul_of_nonneg_right (Int.mul_le_mul_of_nonneg_right h3 (Int.le_of_lt hb)) p18

/-- token0, rounding down: `r/10^36 ≤ L(√b − √a)/(√a√b)`. -/
theorem amount0_roundDown_sorted {liq a b r : Int} (ha : 0 < a) (hab : a ≤ b) (hl : 0 ≤ liq)
    (h : calcAmount0Delta liq a b false = some r) :
    r * a * b * P18 ≤ (b - a) * liq * (P36 * P36) ∧ 0 ≤ r := by
  rw [calcAmount0Delta_roundDown_eq hab] at h
  obtain ⟨d, hd, h1⟩ := Option.bind_eq_some_iff.mp h
  obtain ⟨x, hx, h2⟩ := Option.bind_eq_some_iff.mp h1
  obtain ⟨y, hy, hr⟩ := Option.bind_eq_some_iff.mp h2
  clear h h1 h2
  have hb : 0 < b := by omega
  have ed := C12.sub_exact hd
  subst ed
  have hdl : 0 ≤ (b - a) * liq := Int.mul_nonneg (by omega) hl
  have p36 := P36_nonneg; have p18 := P18_nonneg
  obtain ⟨x0, h1⟩ := trunc_nonneg_le P18_pos hdl (C12.mulTruncateDec_toward_zero hx)
  obtain ⟨y0, h2⟩ := trunc_nonneg_le hb (Int.mul_nonneg x0 p36) (quoTruncate_trunc_pos hb hy)
  obtain ⟨r0, h3⟩ := trunc_nonneg_le ha (Int.mul_nonneg y0 p36) (quoTruncate_trunc_pos ha hr)
  refine ⟨?_, r0⟩
  calc r * a * b * P18 ≤ y * P36 * b * P18 :=
        Int.mul_le_mul_of_nonneg_right (Int.mul_le_mul_of_nonneg_right h3 (Int.le_of_lt hb)) p18
    _ = y * b * (P36 * P18) := by ring
    _ ≤ x * P36 * (P36 * P18) := Int.mul_le_mul_of_nonneg_right h2 (Int.mul_nonneg p36 p18)
    _ = x * P18 * (P36 * P36) := by ring
    _ ≤ (b - a) * liq * (P36 * P36) := Int.mul_le_mul_of_nonneg_right h1 (Int.mul_nonneg p36 p36)

/-- token1, rounding up (any order of the prices): whole tokens `k ≥ L·|√b − √a|`. -/
theorem amount1_roundUp_abs {liq a b r : Int} (hl : 0 ≤ liq)
    (h : calcAmount1Delta liq a b true = some r) :
    ∃ k, r = k * P36 ∧ 0 ≤ k ∧ ((b - a).natAbs : Int) * liq ≤ k * P36 * P18 := by
  rw [calcAmount1Delta_roundUp_eq] at h
  obtain ⟨d, hd, h1⟩ := Option.bind_eq_some_iff.mp h
  obtain ⟨x, hx, hr⟩ := Option.bind_eq_some_iff.mp h1
  clear h h1
  have ed := C12.sub_exact hd
  subst ed
  have cx : IsCeil _ _ _ := C12.mulRoundUpDec_ceil hx
  obtain ⟨k, hk, ck⟩ := C12.ceil_ceil hr
  have hdl : 0 ≤ ((b - a).natAbs : Int) * liq := Int.mul_nonneg (by omega) hl
  have x0 : 0 ≤ x := ceil_nonneg P18_pos hdl cx
  have k0 : 0 ≤ k := ceil_nonneg P36_pos x0 ck
  refine ⟨k, hk, k0, ?_⟩
  calc ((b - a).natAbs : Int) * liq ≤ x * P18 := cx.2
    _ ≤ k * P36 * P18 := Int.mul_le_mul_of_nonneg_right ck.2 P18_nonneg

/-- token1, rounding down: `r/10^36 ≤ L·|√b − √a|`. -/
theorem amount1_roundDown_abs {liq a b r : Int} (hl : 0 ≤ liq)
    (h : calcAmount1Delta liq a b false = some r) :
    r * P18 ≤ ((b - a).natAbs : Int) * liq ∧ 0 ≤ r := by
  rw [calcAmount1Delta_roundDown_eq] at h
  obtain ⟨d, hd, hr⟩ := Option.bind_eq_some_iff.mp h
  clear h
  have ed := C12.sub_exact hd
  subst ed
  have hdl : 0 ≤ ((b - a).natAbs : Int) * liq := Int.mul_nonneg (by omega) hl
  obtain ⟨r0, h1⟩ := trunc_nonneg_le P18_pos hdl (C12.mulTruncateDec_toward_zero hr)
  exact ⟨h1, r0⟩

theorem P36_eq : P36 = 10 ^ 36 := by decide
theorem P18_eq : P18 = 10 ^ 18 := by decide
theorem Pdiff_eq : Pdiff = 10 ^ 18 := by decide
theorem Pdiff_eq_P18 : Pdiff = P18 := by decide
theorem P36_eq_mul : P36 = P18 * P18 := by decide

end OsmoVerif.CL
