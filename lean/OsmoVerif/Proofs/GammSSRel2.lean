/-
C04 (stableswap invariant), part 13: the relative-form end-to-end statements on a pool whose scaled reserves are
all at least 1.
-/
import OsmoVerif.Proofs.GammSSRel

set_option linter.unusedSimpArgs false

namespace OsmoVerif.GammMath.SS
open OsmoVerif.Num OsmoVerif.MathM OsmoVerif.Gen OsmoVerif.Spec

theorem validLiquidity_length {as : List SSAsset} (h : validLiquidity as = .ok ()) : as.length ≤ 8 := by
  unfold validLiquidity at h
  split at h
  · cases h
  · split at h
    · cases h
    · rename_i h2
      have e : Gen.GammMath.MaxNumOfAssetsInPool = 8 := by decide
      rw [e] at h2
      omega

theorem one_le_xq {c : SSAsset} (hsf : 0 < c.sf) (h : c.sf ≤ c.amount) : 1 ≤ xq c := by
  unfold xq
  have : (0 : ℚ) < c.sf := by exact_mod_cast hsf
  rw [one_le_div this]
  exact_mod_cast h

/-- PARTIAL, relative form, exact-in: on a pool whose scaled reserves are all ≥ 1 the invariant loses at most the
fraction `(15 + n/2)·10^-36 ≤ 18·10^-36`. -/
theorem ssSwapOut_invariant_rel {p p' : SSPool} {dIn dOut : String} {amt spread out : Int}
    (hnd : NodupDenoms p.assets) (hamt : 0 ≤ amt) (hs : 0 ≤ spread)
    (hvalid : ∀ a ∈ p.assets, a.sf ≤ a.amount)
    (h : ssSwapOut p [(dIn, amt)] dOut spread = .ok (out, p')) :
    ssInvariant p * (1 - 18 * eps) ≤ ssInvariant p' := by
  obtain ⟨hc, hv, hp', _, _⟩ := ssSwapOut_spec h
  obtain ⟨aIn, aOut, _, _, _, _, _, _, hIn, hOut, hne, sfIn, sfOut, sfO, _, _, _, _, _, _, _, _, _, _, _, _⟩ :=
    ssCalcOut_point hamt hs hc
  obtain ⟨aIn', aOut', hIn', hOut', main⟩ := ssSwapOut_invariant_partial hnd hamt hs h
  rw [hIn] at hIn'; rw [hOut] at hOut'
  injection hIn' with hIn'; injection hOut' with hOut'
  subst hIn' hOut'
  have e0 := ssInvariant_two hnd hne hIn hOut
  change ssInvariant p = kq (xq aIn) (xq aOut) (sumSq ((othersOf p dIn dOut).map xq))
    * ((othersOf p dIn dOut).map xq).prod at e0
  rw [kq_symm] at e0
  have hX := one_le_xq sfOut (hvalid _ (findSS_some hOut).1)
  have hY := one_le_xq sfIn (hvalid _ (findSS_some hIn).1)
  have hZ : ∀ z ∈ (othersOf p dIn dOut).map xq, 1 ≤ z := by
    intro z hz
    obtain ⟨c, hc, rfl⟩ := List.mem_map.mp hz
    exact one_le_xq (sfO c hc) (hvalid c (List.mem_filter.mp hc).1)
  have hrel := swapErr_le_rel hX hY hZ
  have hP := prod_nonneg_of_forall (fun z hz => le_trans zero_le_one (hZ z hz))
  -- n ≤ 6
  have hlen : ((othersOf p dIn dOut).length : ℚ) ≤ 6 := by
    have h8 := validLiquidity_length hv
    rw [List.length_map] at h8
    have := (perm_two hnd hne hIn hOut).length_eq
    simp only [List.length_cons] at this
    have : (othersOf p dIn dOut).length ≤ 6 := by unfold othersOf; omega
    exact_mod_cast this
  rw [List.length_map] at hrel
  have hK : 0 ≤ kq (xq aOut) (xq aIn) (sumSq ((othersOf p dIn dOut).map xq)) :=
    kq_nonneg (by linarith) (by linarith) (sumSq_nonneg _)
  have he := eps_pos
  have h18 : swapErr (xq aOut) (xq aIn) ((othersOf p dIn dOut).map xq)
      ≤ 18 * eps * kq (xq aOut) (xq aIn) (sumSq ((othersOf p dIn dOut).map xq)) := by
    refine le_trans hrel (mul_le_mul_of_nonneg_right (mul_le_mul_of_nonneg_right (by linarith) he.le) hK)
  have := mul_le_mul_of_nonneg_right h18 hP
  rw [e0] at main ⊢
  nlinarith

/-- PARTIAL, relative form, exact-out: on a pool whose scaled reserves are all ≥ 1 the invariant loses at most the
fraction `12/(10^18·R_in) + 16·10^-36`, `R_in` the integer in-reserve before the swap. -/
theorem ssSwapIn_invariant_rel {p p' : SSPool} {dIn dOut : String} {amt spread tin : Int}
    (hnd : NodupDenoms p.assets) (hamt : 0 ≤ amt) (hs : 0 ≤ spread) (hs1 : spread < P18)
    (hvalid : ∀ a ∈ p.assets, a.sf ≤ a.amount)
    (h : ssSwapIn p [(dOut, amt)] dIn spread = .ok (tin, p')) :
    ∃ aIn, findSS p.assets dIn = some aIn ∧
      ssInvariant p * (1 - 12 / (10 ^ 18 * (aIn.amount : ℚ)) - 16 * eps) ≤ ssInvariant p' := by
  obtain ⟨hc, hv, hp', _, _⟩ := ssSwapIn_spec h
  obtain ⟨aIn, aOut, _, _, _, _, _, _, hIn, hOut, hne, sfIn, sfOut, sfO, _, _, _, _, _, _, amIn, _, _, _, _⟩ :=
    ssCalcIn_point hs hs1 hc
  obtain ⟨aIn', aOut', hIn', hOut', main⟩ := ssSwapIn_invariant_partial hnd hamt hs hs1 h
  rw [hIn] at hIn'; rw [hOut] at hOut'
  injection hIn' with hIn'; injection hOut' with hOut'
  subst hIn' hOut'
  refine ⟨aIn, hIn, ?_⟩
  have e0 := ssInvariant_two hnd hne hIn hOut
  change ssInvariant p = kq (xq aIn) (xq aOut) (sumSq ((othersOf p dIn dOut).map xq))
    * ((othersOf p dIn dOut).map xq).prod at e0
  have hX := one_le_xq sfIn (hvalid _ (findSS_some hIn).1)
  have hY := one_le_xq sfOut (hvalid _ (findSS_some hOut).1)
  have hZ : ∀ z ∈ (othersOf p dIn dOut).map xq, 1 ≤ z := by
    intro z hz
    obtain ⟨c, hc, rfl⟩ := List.mem_map.mp hz
    exact one_le_xq (sfO c hc) (hvalid c (List.mem_filter.mp hc).1)
  have sfq : (0 : ℚ) < aIn.sf := by exact_mod_cast sfIn
  have amq : (0 : ℚ) < aIn.amount := by exact_mod_cast amIn
  have hd : (0 : ℚ) ≤ 1 / (10 ^ 18 * (aIn.sf : ℚ)) := by positivity
  have hrel := swapInErr_le_rel hX hY hd hZ
  have hP := prod_nonneg_of_forall (fun z hz => le_trans zero_le_one (hZ z hz))
  have hlen : ((othersOf p dIn dOut).length : ℚ) ≤ 6 := by
    have h8 := validLiquidity_length hv
    rw [List.length_map] at h8
    have := (perm_two hnd hne hIn hOut).length_eq
    simp only [List.length_cons] at this
    have : (othersOf p dIn dOut).length ≤ 6 := by unfold othersOf; omega
    exact_mod_cast this
  rw [List.length_map] at hrel
  have hK : 0 ≤ kq (xq aIn) (xq aOut) (sumSq ((othersOf p dIn dOut).map xq)) :=
    kq_nonneg (by linarith) (by linarith) (sumSq_nonneg _)
  have he := eps_pos
  have edx : 1 / (10 ^ 18 * (aIn.sf : ℚ)) / xq aIn = 1 / (10 ^ 18 * (aIn.amount : ℚ)) := by
    unfold xq; field_simp
  rw [edx] at hrel
  have h16 : swapInErr (xq aIn) (xq aOut) (1 / (10 ^ 18 * (aIn.sf : ℚ))) ((othersOf p dIn dOut).map xq)
      ≤ (12 * (1 / (10 ^ 18 * (aIn.amount : ℚ))) + 16 * eps)
          * kq (xq aIn) (xq aOut) (sumSq ((othersOf p dIn dOut).map xq)) := by
    refine le_trans hrel (mul_le_mul_of_nonneg_right ?_ hK)
    have : (13 + ((othersOf p dIn dOut).length : ℚ) / 2) * eps ≤ 16 * eps :=
      mul_le_mul_of_nonneg_right (by linarith) he.le
    linarith
  have := mul_le_mul_of_nonneg_right h16 hP
  rw [e0] at main ⊢
  have e12 : 12 / (10 ^ 18 * (aIn.amount : ℚ)) = 12 * (1 / (10 ^ 18 * (aIn.amount : ℚ))) := by ring
  rw [e12]
  nlinarith

end OsmoVerif.GammMath.SS
