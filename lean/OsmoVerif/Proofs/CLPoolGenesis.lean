/-
x/concentrated-liquidity genesis over `Model/CLPoolGenesis.lean`: on every pool satisfying the C07 book-keeping
invariant whose positions are stored in ascending id order — a NEW reachable-state invariant proved here — export →
import is the identity.  Core only.
-/
import OsmoVerif.Proofs.CLBookMono
import OsmoVerif.Model.CLPoolGenesis
namespace OsmoVerif.CLBook
open OsmoVerif.CLPool

/-- the position list is in ascending id order (what a KV store keyed by position id gives for free). -/
def IdSorted (ps : List Position) : Prop := (ps.map (·.id)).Pairwise (· < ·)

theorem map_id_upd (ps : List Position) (id : Nat) (g : Position → Position) (hg : ∀ q, (g q).id = q.id) :
    (ps.map fun q => if q.id = id then g q else q).map (·.id) = ps.map (·.id) := by
  rw [List.map_map]
  apply List.map_congr_left
  intro q _
  simp only [Function.comp]
  split
  · exact hg q
  · rfl

theorem idSorted_append {ps : List Position} {x : Position} (h : IdSorted ps) (hx : ∀ q ∈ ps, q.id < x.id) :
    IdSorted (ps ++ [x]) := by
  unfold IdSorted at *
  rw [List.map_append]
  refine List.pairwise_append.mpr ⟨h, by simp, ?_⟩
  intro a ha b hb
  simp only [List.map_cons, List.map_nil, List.mem_singleton] at hb
  obtain ⟨q, hq, e⟩ := List.mem_map.mp ha
  rw [hb, ← e]; exact hx q hq

theorem idSorted_filter {ps : List Position} (h : IdSorted ps) (f : Position → Bool) : IdSorted (ps.filter f) := by
  unfold IdSorted at *
  exact List.Pairwise.sublist ((List.filter_sublist).map _) h

theorem idSorted_create {p : Pool} {owner : String} {lower upper a0 a1 m0 m1 : Int}
    {p' : Pool} {id : Nat} {r0 r1 liq l' u' : Int} (hc : InvCore p) (hs : IdSorted p.positions)
    (h : createPositionMin p owner lower upper a0 a1 m0 m1 = some (p', id, r0, r1, liq, l', u')) :
    IdSorted p'.positions := by
  obtain ⟨p2, p3, le, ue, _, _, _, _, _, _, _, hpos, _, _, _, hupd, hp'⟩ := createPositionMin_some h
  have hnew : ∀ q ∈ p2.positions, q.id ≠ p.nextId := by
    intro q hq
    rw [hpos] at hq
    have := hc.pos.idsLt q hq
    omega
  obtain ⟨_, e3, _, _⟩ := updatePosition_new hnew hupd
  rw [hp', e3]
  simp only
  rw [hpos]
  exact idSorted_append hs (fun q hq => hc.pos.idsLt q hq)

theorem idSorted_withdraw {p : Pool} {owner : String} {id : Nat} {req : Int} {p' : Pool} {o0 o1 : Int}
    (hs : IdSorted p.positions) (h : withdrawPosition p owner id req = some (p', o0, o1)) : IdSorted p'.positions := by
  obtain ⟨pos, p1, a0, a1, le, ue, hfind, _, _, _, hupd, hpos, _⟩ := withdrawPosition_some h
  obtain ⟨_, e1, _, _⟩ := updatePosition_old hfind hupd
  have h1 : IdSorted p1.positions := by
    rw [e1]
    unfold IdSorted
    simp only
    rw [map_id_upd p.positions id (fun q => { q with liq := pos.liq + -req }) (fun _ => rfl)]
    exact hs
  rw [hpos]
  split
  · exact idSorted_filter h1 _
  · exact h1

theorem idSorted_apply {p p' : Pool} {op : Op} (hc : InvCore p) (hs : IdSorted p.positions) (h : apply p op = some p') :
    IdSorted p'.positions := by
  cases op with
  | create o l u a0 a1 =>
    simp only [apply, Option.map_eq_some_iff] at h
    obtain ⟨⟨p1, id, r0, r1, liq, l', u'⟩, h1, e⟩ := h
    subst e
    exact idSorted_create hc hs h1
  | withdraw o id liq =>
    simp only [apply, Option.map_eq_some_iff] at h
    obtain ⟨⟨p1, o0, o1⟩, h1, e⟩ := h
    subst e
    exact idSorted_withdraw hs h1
  | add o id a0 a1 =>
    simp only [apply, Option.map_eq_some_iff] at h
    obtain ⟨⟨p2, nid, r0, r1⟩, h1, e⟩ := h
    subst e
    obtain ⟨pos, p1, w0, w1, liq, l', u', hw, hcr⟩ := addToPosition_some h1
    exact idSorted_create (withdraw_inv hc hw).1 (idSorted_withdraw hs hw) hcr
  | transfer s id n =>
    simp only [apply] at h
    obtain ⟨pos, _, _, e⟩ := transferPosition_some h
    rw [e]
    unfold IdSorted
    simp only
    rw [map_id_upd p.positions id (fun q => { q with owner := n }) (fun _ => rfl)]
    exact hs
  | swap og zfo spec =>
    simp only [apply, Option.map_eq_some_iff] at h
    obtain ⟨⟨p1, ain, aout, fee⟩, h1, e⟩ := h
    subst e
    obtain ⟨_, _, _, _, _, _, _, _, hp, _⟩ := swap_some h1
    rw [hp]; exact hs

theorem idSorted_step {p : Pool} (op : Op) (hc : InvCore p) (hs : IdSorted p.positions) : IdSorted (step p op).positions := by
  unfold step
  cases h : apply p op with
  | none => exact hs
  | some p' => exact idSorted_apply hc hs h

theorem idSorted_run : ∀ (ops : List Op) {p : Pool}, InvCore p → IdSorted p.positions → IdSorted (run p ops).positions
  | [], _, _, hs => hs
  | op :: ops, _, hc, hs => idSorted_run ops (step_core op hc) (idSorted_step op hc hs)

/-! ## export → import -/

theorem sortPosById_sorted : ∀ {ps : List Position}, IdSorted ps → sortPosById ps = ps
  | [], _ => rfl
  | q :: qs, h => by
    unfold IdSorted at h
    simp only [List.map_cons] at h
    have hp := List.pairwise_cons.mp h
    simp only [sortPosById, sortPosById_sorted (ps := qs) hp.2]
    cases qs with
    | nil => rfl
    | cons r rs =>
      have : q.id ≤ r.id := Nat.le_of_lt (hp.1 r.id (by simp))
      simp only [insertPosById, if_pos this]

theorem putPos_last {pre : List Position} {x : Position} (h : ∀ q ∈ pre, q.id < x.id) : putPos pre x = pre ++ [x] := by
  induction pre with
  | nil => rfl
  | cons q qs ih =>
    have h1 := h q List.mem_cons_self
    simp only [putPos, if_neg (show ¬ x.id < q.id by omega), if_neg (show ¬ x.id = q.id by omega),
      ih (fun y hy => h y (List.mem_cons_of_mem _ hy)), List.cons_append]

theorem foldl_putPos : ∀ (l pre : List Position), IdSorted (pre ++ l) → l.foldl putPos pre = pre ++ l
  | [], pre, _ => by simp
  | x :: xs, pre, h => by
    have hx : ∀ q ∈ pre, q.id < x.id := by
      intro q hq
      unfold IdSorted at h
      rw [List.map_append] at h
      exact (List.pairwise_append.mp h).2.2 q.id (List.mem_map_of_mem hq) x.id (by simp)
    rw [List.foldl_cons, putPos_last hx, foldl_putPos xs (pre ++ [x]) (by simpa [List.append_assoc] using h)]
    simp [List.append_assoc]

theorem putTick_last {pre : List TickInfo} {x : TickInfo} (h : ∀ t ∈ pre, t.tick < x.tick) : putTick pre x = pre ++ [x] := by
  induction pre with
  | nil => rfl
  | cons t ts ih =>
    have h1 := h t List.mem_cons_self
    simp only [putTick, if_neg (show ¬ x.tick < t.tick by omega), if_neg (show ¬ x.tick = t.tick by omega),
      ih (fun y hy => h y (List.mem_cons_of_mem _ hy)), List.cons_append]

theorem foldl_putTick : ∀ (l pre : List TickInfo), Sorted (pre ++ l) → l.foldl putTick pre = pre ++ l
  | [], pre, _ => by simp
  | x :: xs, pre, h => by
    have hx : ∀ t ∈ pre, t.tick < x.tick := by
      intro t ht
      exact (List.pairwise_append.mp h).2.2 t ht x List.mem_cons_self
    rw [List.foldl_cons, putTick_last hx, foldl_putTick xs (pre ++ [x]) (by simpa [List.append_assoc] using h)]
    simp [List.append_assoc]

/-- **export → import of a concentrated pool is the identity.** -/
theorem exportImport_eq {p : Pool} (hc : InvCore p) (hs : IdSorted p.positions) : exportImport p = p := by
  unfold exportImport initGenesis exportGenesis freshOf
  simp only [sortPosById_sorted hs, foldl_putTick p.ticks [] (by simpa using hc.sorted),
    foldl_putPos p.positions [] (by simpa using hs), List.nil_append]

end OsmoVerif.CLBook
