/- C11 over the staking model: the reported supply (bank supply + offset) along every history — unchanged by every
superfluid call, lowered by exactly the burnt amount by a validator slash.  Core only. -/
import OsmoVerif.Proofs.SuperfluidStkRun

namespace OsmoVerif.Superfluid
open OsmoVerif.Num

theorem tot_superfluidDelegateS {s s' : SState} {sender id val : Nat} (hc : superfluidDelegateS s sender id val = .ok s') :
    tot s'.b = tot s.b := by
  obtain ⟨l, s3, amt, _, _, _, _, _, _, _, h7, _, _, h10⟩ := superfluidDelegateS_ok hc
  rw [(mintS_bank h10).tot]
  show tot s3 = tot s.b
  rw [tot_createSynth h7]
  exact tot_getOrCreateAcc s.b _

theorem tot_undelegateCommonS {s s' : SState} {sender id : Nat} {key : AccKey} (hc : undelegateCommonS s sender id = .ok (s', key)) :
    tot s'.b = tot s.b := by
  obtain ⟨l, s2, amt, _, _, _, _, h3, _, h5⟩ := undelegateCommonS_ok hc
  rw [(burnS_bank h5).tot]
  show tot s2 = tot s.b
  rw [tot_deleteSynth h3]; rfl

theorem tot_superfluidUndelegateS {s s' : SState} {sender id : Nat} (hc : superfluidUndelegateS s sender id = .ok s') :
    tot s'.b = tot s.b := by
  obtain ⟨s1, key, b', h1, hb, hs'⟩ := superfluidUndelegateS_ok hc
  subst hs'
  show tot b' = tot s.b
  rw [tot_createSynth hb, tot_undelegateCommonS h1]

theorem tot_addedState (b : State) (id : Nat) (l : Lock) (a : Int) : tot (addedState b id l a) = tot b := by
  unfold addedState; split <;> rfl

theorem tot_addTokensToLockS {s s' : SState} {sender id : Nat} {a : Int} (hc : addTokensToLockS s sender id a = .ok s') :
    tot s'.b = tot s.b := by
  obtain ⟨l, _, _, _, _, hh⟩ := addTokensToLockS_ok hc
  rw [(increaseHookS_bank hh).tot]
  exact tot_addedState _ _ _ _

theorem tot_undelegateAndUnbondS {s s' : SState} {id sender nid : Nat} {amount : Int}
    (hc : superfluidUndelegateAndUnbondLockS s id sender amount = .ok (s', nid)) : tot s'.b = tot s.b := by
  unfold superfluidUndelegateAndUnbondLockS at hc
  split at hc
  · cases hc
  · split at hc
    · cases hc
    · split at hc
      · cases hc
      · split at hc
        · cases hc
        · split at hc
          · cases hc
          · split at hc
            · cases hc
            · rename_i s1 hu
              split at hc
              · cases hc
              · rename_i s2 nid' hb
                have t2 : tot s2 = tot s.b := by rw [tot_unbondLock hb, tot_superfluidUndelegateS hu]
                split at hc
                · split at hc
                  · cases hc
                  · injection hc with hc
                    injection hc with hc _
                    subst hc; exact t2
                · split at hc
                  · cases hc
                  · split at hc
                    · cases hc
                    · rename_i s3 hd
                      split at hc
                      · cases hc
                      · rename_i s4 hdel
                        split at hc
                        · cases hc
                        · rename_i s5 hcs
                          injection hc with hc
                          injection hc with hc _
                          subst hc
                          show tot s5 = tot s.b
                          rw [tot_createSynth hcs, tot_superfluidDelegateS (s := { s1 with b := s3 }) hdel]
                          show tot s3 = tot s.b
                          rw [tot_deleteSynth hd, t2]

theorem tot_epochS {s s' : SState} {ups : List (Nat × Int × Int × Bool)} (h : Inv s.b) (hc : epochS s ups = .ok s') :
    tot s'.b = tot s.b := by
  obtain ⟨b1, full, h1, hb, _, _⟩ := epochS_ok hc
  rw [hb.tot, tot_updateMults h.mult0 h1]

theorem tot_epochOS {s s' : SState} {ups : List (Nat × Int × Int × Bool)} {order : List AccKey} (h : Inv s.b)
    (hc : epochOS s ups order = .ok s') : tot s'.b = tot s.b := by
  obtain ⟨_, b1, full, h1, hb, _, _⟩ := epochOS_ok hc
  rw [hb.tot, tot_updateMults h.mult0 h1]

theorem tot_slashS {s s' : SState} {val : Nat} {p fr : Int} {skip : List Nat} {burn : Int} (h : Inv s.b)
    (hc : slashS s val p fr skip = .ok (s', burn)) : tot s'.b = tot s.b - burn ∧ 0 ≤ burn := by
  rcases slashS_ok h hc with ⟨e0, e⟩ | ⟨_, hv, a, ea, b1, _, f1, e⟩
  · subst e; subst e0; exact ⟨by omega, Int.le_refl _⟩
  · subst e
    have hb := burnAmount_bounds a (s.k.val val).tokens
    constructor
    · show b1.supply - burn + b1.offset = s.b.supply + s.b.offset - burn
      rw [f1.bank.1, f1.bank.2]; omega
    · -- the burnt amount is never negative, whatever the validator's tokens
      rw [ea]; unfold burnAmount; dsimp only; split <;> omega

theorem tot_slashRefillS {s s' : SState} {val : Nat} {p fr : Int} {skip : List Nat} {refill : List (Nat × Int)} {burn : Int}
    (h : Inv s.b) (hc : slashRefillS s val p fr skip refill = .ok (s', burn)) : tot s'.b = tot s.b - burn ∧ 0 ≤ burn := by
  obtain ⟨_, _, a, ea, b1, _, f1, hh⟩ := slashRefillS_ok h hc
  constructor
  · rw [(refillHooks_bank _ _ _ hh).tot]
    show b1.supply - burn + b1.offset = s.b.supply + s.b.offset - burn
    rw [f1.bank.1, f1.bank.2]; omega
  · rw [ea]; unfold burnAmount; dsimp only; split <;> omega

/-- is the call a validator slash (alone, or taken together with the top-ups of the locks it empties)? -/
def isSlash : OpS → Bool
  | .slash .. => true
  | .slashRefill .. => true
  | _ => false

/-- the amount a call burns from the bank supply: what `Slash` returns, 0 for every other call (and for a failed one). -/
def burntBy (s : SState) : OpS → Int
  | .slash v p f x =>
    match slashS s v p f x with
    | .ok r => r.2
    | .error _ => 0
  | .slashRefill v p f x t =>
    match slashRefillS s v p f x t with
    | .ok r => r.2
    | .error _ => 0
  | _ => 0

/-- **every successful call leaves bank supply + offset unchanged, except a validator slash, which lowers it by the
burnt amount.** -/
theorem tot_applyOpS {s s' : SState} {op : OpS} (h : Inv s.b) (hc : applyOpS s op = .ok s') :
    tot s'.b = tot s.b - burntBy s op := by
  cases op with
  | slash v p f x =>
    unfold applyOpS at hc
    obtain ⟨q, hq, hqs⟩ := map_ok hc
    subst hqs
    obtain ⟨r, hr, hqr⟩ := map_ok (show (slashS s v p f x).map _ = .ok q from hq)
    subst hqr
    have := (tot_slashS h (show slashS s v p f x = .ok (r.1, r.2) from hr)).1
    show tot r.1.b = tot s.b - burntBy s (.slash v p f x)
    have e : burntBy s (.slash v p f x) = r.2 := by
      show (match slashS s v p f x with | .ok r => r.2 | .error _ => 0) = r.2
      rw [hr]
    rw [e]; exact this
  | epochO ups order =>
    unfold applyOpS at hc
    obtain ⟨q, hq, hqs⟩ := map_ok hc
    subst hqs
    obtain ⟨r, hr, hqr⟩ := map_ok (show (epochOS s ups order).map _ = .ok q from hq)
    subst hqr
    show tot r.b = tot s.b - 0
    rw [tot_epochOS h hr]; omega
  | slashRefill v p f x t =>
    unfold applyOpS at hc
    obtain ⟨q, hq, hqs⟩ := map_ok hc
    subst hqs
    obtain ⟨r, hr, hqr⟩ := map_ok (show (slashRefillS s v p f x t).map _ = .ok q from hq)
    subst hqr
    have := (tot_slashRefillS h (show slashRefillS s v p f x t = .ok (r.1, r.2) from hr)).1
    show tot r.1.b = tot s.b - burntBy s (.slashRefill v p f x t)
    have e : burntBy s (.slashRefill v p f x t) = r.2 := by
      show (match slashRefillS s v p f x t with | .ok r => r.2 | .error _ => 0) = r.2
      rw [hr]
    rw [e]; exact this
  | base op =>
    show tot s'.b = tot s.b - 0
    rw [Int.sub_zero]
    by_cases hf : ledgerFree op = true
    · obtain ⟨h1, _⟩ := applyOpS_ledgerFree hf hc
      exact tot_applyOp h h1
    · unfold applyOpS at hc
      obtain ⟨q, hq, hqs⟩ := map_ok hc
      subst hqs
      cases op with
      | addToLock snd id a =>
        obtain ⟨r, hr, hqr⟩ := map_ok (show (addTokensToLockS s snd id a).map _ = .ok q from hq)
        subst hqr; exact tot_addTokensToLockS hr
      | delegate snd id v =>
        obtain ⟨r, hr, hqr⟩ := map_ok (show (superfluidDelegateS s snd id v).map _ = .ok q from hq)
        subst hqr; exact tot_superfluidDelegateS hr
      | undelegate snd id =>
        obtain ⟨r, hr, hqr⟩ := map_ok (show (superfluidUndelegateS s snd id).map _ = .ok q from hq)
        subst hqr; exact tot_superfluidUndelegateS hr
      | undelegateAndUnbond snd id a =>
        obtain ⟨r, hr, hqr⟩ := map_ok (show (superfluidUndelegateAndUnbondLockS s id snd a).map _ = .ok q from hq)
        subst hqr
        exact tot_undelegateAndUnbondS (show superfluidUndelegateAndUnbondLockS s id snd a = .ok (r.1, r.2) from hr)
      | epoch ups =>
        obtain ⟨r, hr, hqr⟩ := map_ok (show (epochS s ups).map _ = .ok q from hq)
        subst hqr; exact tot_epochS h hr
      | lock _ _ _ _ _ => exact absurd rfl hf
      | unbond _ _ => exact absurd rfl hf
      | beginUnlock _ _ _ => exact absurd rfl hf
      | withdraw _ => exact absurd rfl hf
      | endBlock => exact absurd rfl hf
      | advance _ => exact absurd rfl hf

/-- total burnt by the validator slashes of a history. -/
def burntAlong : SState → List OpS → Int
  | _, [] => 0
  | s, op :: r => (match applyOpS s op with | .ok _ => burntBy s op | .error _ => 0) + burntAlong (stepS s op) r

theorem tot_runS : ∀ (ops : List OpS) (s : SState), Inv s.b → tot (runS s ops).b = tot s.b - burntAlong s ops
  | [], s, _ => by show tot s.b = tot s.b - 0; omega
  | op :: r, s, h => by
    show tot (runS (stepS s op) r).b = tot s.b - burntAlong s (op :: r)
    rw [tot_runS r (stepS s op) (inv_stepS op h)]
    have e : burntAlong s (op :: r) =
        (match applyOpS s op with | .ok _ => burntBy s op | .error _ => 0) + burntAlong (stepS s op) r := rfl
    rw [e]
    cases hs : applyOpS s op with
    | error e =>
      have : stepS s op = s := by unfold stepS; rw [hs]
      rw [this]; dsimp only; omega
    | ok s' =>
      have : stepS s op = s' := by unfold stepS; rw [hs]
      rw [this, tot_applyOpS h hs]; dsimp only; omega

theorem burntAlong_noSlash : ∀ (ops : List OpS) (s : SState), (∀ op, op ∈ ops → isSlash op = false) → burntAlong s ops = 0
  | [], _, _ => rfl
  | op :: r, s, h => by
    have e : burntAlong s (op :: r) =
        (match applyOpS s op with | .ok _ => burntBy s op | .error _ => 0) + burntAlong (stepS s op) r := rfl
    rw [e, burntAlong_noSlash r (stepS s op) (fun o ho => h o (List.mem_cons_of_mem _ ho))]
    have h1 : burntBy s op = 0 := by
      have := h op (List.mem_cons_self ..)
      cases op with
      | slash _ _ _ _ => cases this
      | slashRefill _ _ _ _ _ => cases this
      | base _ => rfl
      | epochO _ _ => rfl
    rw [h1]
    split <;> rfl

end OsmoVerif.Superfluid
