/- One gauge in one epoch: case analysis of `distributeGauge`, the per-gauge invariant
(valid coins, distributed ≤ coins) and its preservation by create / top-up / distribution.  Core only. -/
import OsmoVerif.Proofs.IncentivesShare

namespace OsmoVerif.Incentives

/-- per-gauge invariant. -/
structure GInv (g : Gauge) : Prop where
  vc : validCoins g.coins = true
  vd : validCoins g.distributed = true
  le : ∀ d, amountOf g.distributed d ≤ amountOf g.coins d

theorem remainEpochs_pos {g : Gauge} {e : Int} (h : remainEpochs g = some e) : 1 ≤ e := by
  unfold remainEpochs at h
  split at h
  · cases h; omega
  · split at h
    · cases h; omega
    · cases h

theorem lockSum_nonneg (ls : List Lock) : 0 ≤ lockSum ls := by
  induction ls with
  | nil => simp [lockSum]
  | cons l ls ih => simp only [lockSum]; omega

/-- the outcomes of `distributeGauge` that write the gauge record. -/
theorem distributeGauge_written {thr : MinVal} {locks : List Lock} {g : Gauge} {total : Coins} {pays : List Pay}
    (h : distributeGauge thr locks g = some (some (total, pays))) :
    ∃ remain e, subCoins g.coins g.distributed = some remain ∧ remainEpochs g = some e ∧
      (gaugeLocks g locks).isEmpty = false ∧
      (((remain.isEmpty = true ∨ isSpam remain = true) ∧ total = [] ∧ pays = []) ∨
       (remain.isEmpty = false ∧ isSpam remain = false ∧ 0 < lockSum (gaugeLocks g locks) ∧
        pays = lockPays (minFilter thr) (minFilter (thr.after remain)) remain (lockSum (gaugeLocks g locks) * e) (gaugeLocks g locks) ∧
        total = sumPays pays)) := by
  unfold distributeGauge at h
  split at h
  · cases h
  · rename_i remain hrem
    split at h
    · cases h
    · rename_i e he
      refine ⟨remain, e, hrem, he, ?_⟩
      simp only at h
      by_cases h1 : (gaugeLocks g locks).isEmpty = true
      · rw [if_pos h1] at h; cases h
      · rw [if_neg h1] at h
        refine ⟨by simpa using h1, ?_⟩
        by_cases h2 : remain.isEmpty = true
        · rw [if_pos h2] at h
          injection h with h; injection h with h; injection h with ha hb
          exact Or.inl ⟨Or.inl h2, ha.symm, hb.symm⟩
        · rw [if_neg h2] at h
          by_cases h3 : isSpam remain = true
          · rw [if_pos h3] at h
            injection h with h; injection h with h; injection h with ha hb
            exact Or.inl ⟨Or.inr h3, ha.symm, hb.symm⟩
          · rw [if_neg h3] at h
            by_cases h4 : lockSum (gaugeLocks g locks) = 0
            · rw [if_pos h4] at h; cases h
            · rw [if_neg h4] at h
              injection h with h; injection h with h; injection h with ha hb
              have := lockSum_nonneg (gaugeLocks g locks)
              exact Or.inr ⟨by simpa using h2, by simpa using h3, by omega, hb.symm, by rw [← ha, hb]⟩

/-- the outcome that leaves the record untouched: no qualifying lock (or an all-zero lock sum). -/
theorem distributeGauge_untouched {thr : MinVal} {locks : List Lock} {g : Gauge}
    (h : distributeGauge thr locks g = some none) :
    (gaugeLocks g locks).isEmpty = true ∨ lockSum (gaugeLocks g locks) = 0 := by
  unfold distributeGauge at h
  split at h
  · cases h
  · split at h
    · cases h
    · simp only at h
      by_cases h1 : (gaugeLocks g locks).isEmpty = true
      · exact Or.inl h1
      · rw [if_neg h1] at h
        split at h
        · cases h
        · split at h
          · cases h
          · split at h
            · rename_i h4; exact Or.inr h4
            · cases h

/-- with at least one qualifying lock the record IS written (lock amounts are positive in reality; here: lock sum ≠ 0). -/
theorem distributeGauge_writes {thr : MinVal} {locks : List Lock} {g : Gauge} {r : Option (Coins × List Pay)}
    (h : distributeGauge thr locks g = some r) (hl : (gaugeLocks g locks).isEmpty = false)
    (hs : lockSum (gaugeLocks g locks) ≠ 0) : ∃ total pays, r = some (total, pays) := by
  cases r with
  | some tp => exact ⟨tp.1, tp.2, rfl⟩
  | none =>
    rcases distributeGauge_untouched h with h' | h'
    · rw [hl] at h'; cases h'
    · exact absurd h' hs

/-- **the total a gauge pays in one epoch is covered by what it still holds.** -/
theorem distributeGauge_total {thr : MinVal} {locks : List Lock} {g : Gauge} {total : Coins} {pays : List Pay}
    (hg : GInv g) (h : distributeGauge thr locks g = some (some (total, pays))) :
    validCoins total = true ∧ (∀ p ∈ pays, validCoins p.coins = true) ∧ (∀ d, amountOf total d = paysAmt pays d) ∧
    ∀ d, 0 ≤ amountOf total d ∧ amountOf g.distributed d + amountOf total d ≤ amountOf g.coins d := by
  obtain ⟨remain, e, hrem, he, _, hcase⟩ := distributeGauge_written h
  obtain ⟨hrv, hra⟩ := subCoins_spec hg.vc hg.vd hrem
  rcases hcase with ⟨_, ht, hp⟩ | ⟨_, _, hS, hp, ht⟩
  · subst ht; subst hp
    refine ⟨rfl, fun p hp => absurd hp List.not_mem_nil, fun d => rfl, fun d => ?_⟩
    have := hg.le d
    simp only [amountOf]; omega
  · have hpv : ∀ p ∈ pays, validCoins p.coins = true := by rw [hp]; exact lockPays_valid _ _ hrv _ _
    refine ⟨by rw [ht]; exact valid_sumPays hpv, hpv, fun d => by rw [ht, amountOf_sumPays], fun d => ?_⟩
    rw [ht, amountOf_sumPays, hp, paysAmt_lockPays]
    obtain ⟨h0, h1⟩ := locksAmt_le_remain (minFilter thr) (minFilter (thr.after remain)) hrv (gaugeLocks g locks) hS (remainEpochs_pos he) d
    have := hra d
    omega

theorem GInv_postDistribute {thr : MinVal} {locks : List Lock} {g : Gauge} {total : Coins} {pays : List Pay}
    (hg : GInv g) (h : distributeGauge thr locks g = some (some (total, pays))) : GInv (g.postDistribute total) := by
  obtain ⟨hv, _, _, hb⟩ := distributeGauge_total hg h
  refine ⟨hg.vc, valid_addCoins hg.vd hv, fun d => ?_⟩
  show amountOf (addCoins g.distributed total) d ≤ amountOf g.coins d
  rw [amountOf_addCoins]
  exact (hb d).2

theorem GInv_new {id : Nat} {perp : Bool} {denom : Denom} {dur : Int} {coins : Coins} {start : Int} {n : Nat}
    (hc : validCoins coins = true) :
    GInv { id := id, perpetual := perp, denom := denom, duration := dur, coins := coins, distributed := [],
           start := start, numEpochs := n, filled := 0 } :=
  ⟨hc, rfl, fun d => by simpa [amountOf] using amountOf_nonneg hc d⟩

theorem GInv_topup {g : Gauge} {coins : Coins} (hg : GInv g) (hc : validCoins coins = true) :
    GInv { g with coins := addCoins g.coins coins } := by
  refine ⟨valid_addCoins hg.vc hc, hg.vd, fun d => ?_⟩
  show amountOf g.distributed d ≤ amountOf (addCoins g.coins coins) d
  rw [amountOf_addCoins]
  have := hg.le d
  have := amountOf_nonneg hc d
  omega

end OsmoVerif.Incentives
