/- The minimum-value filter of `distributeInternal` with its per-`Distribute` cache (`minFilter`, `MinVal.after`)
coincides, for every consistent cache state and non-negative quotes, with the cache-free clause of the property
(`worthMinimum`, `clausePays`): a cached quote is compared like a fresh one, the negative sentinel stands exactly for
"no route / no quote" (repository fixes af3cbe6371, d4c28ad126).  Core only. -/
import OsmoVerif.Proofs.IncentivesEpoch

namespace OsmoVerif.Incentives

/-- THE CLAUSE of the property: an amount is paid iff the denom has a route whose quote of the configured minimum
succeeds and the amount is worth at least that converted minimum; no route (or no quote): "not valuable at all". -/
def worthMinimum (q : Quotes) : Filter := fun d a =>
  match assoc q d with
  | some (some v) => decide (v ≤ a)
  | _ => false

theorem missValue_of_quote {m : MinVal} {d : Denom} {v : Int} (hq : assoc m.quotes d = some (some v)) :
    m.missValue d = v := by
  unfold MinVal.missValue; rw [hq]

/-- quotes are amounts of coins (`CalcOutAmtGivenIn` returns an `sdk.Coin`): never negative. -/
def QuotesNonneg (q : Quotes) : Prop := ∀ d v, assoc q d = some (some v) → 0 ≤ v

/-- **the cached filter IS the clause**, for every cache state of the call: a cached quote is compared like the
fresh one (also a zero quote), the negative sentinel stands exactly for "no route / no quote". -/
theorem minFilter_eq_worthMinimum {m : MinVal} (hc : CacheOK m) (hn : QuotesNonneg m.quotes) :
    minFilter m = worthMinimum m.quotes := by
  funext d a
  unfold minFilter worthMinimum
  by_cases hb : d = Gen.Incentives.BaseCoinUnit
  · rw [if_pos hb]
    cases assoc m.quotes d with
    | none => rfl
    | some o => cases o <;> rfl
  · rw [if_neg hb]
    cases hcd : assoc m.cache d with
    | none =>
      simp only
      cases assoc m.quotes d with
      | none => rfl
      | some o => cases o <;> rfl
    | some c =>
      have hcv := hc d c hcd
      simp only
      cases hq : assoc m.quotes d with
      | none =>
        have : c = noRouteSentinel := by rw [hcv]; unfold MinVal.missValue; rw [hq]
        subst this; simp [noRouteSentinel]
      | some o =>
        cases o with
        | none =>
          have : c = noRouteSentinel := by rw [hcv]; unfold MinVal.missValue; rw [hq]
          subst this; simp [noRouteSentinel]
        | some v =>
          have : c = v := by rw [hcv, missValue_of_quote hq]
          subst this
          have := hn d c hq
          simp only [if_neg (by omega : ¬ c < 0)]

/-! ### the cache-free payout of the property's clause -/

theorem lockCoins_congr {f f' : Filter} (h : f = f') (remain : Coins) (den amt : Int) :
    lockCoins f remain den amt = lockCoins f' remain den amt := by rw [h]

/-- what a gauge queues according to the property's clause with value filter `f`: every qualifying lock its floor
shares worth the minimum (nothing when the gauge is empty, spam-skipped or has no qualifying lock). -/
def clausePays (f : Filter) (locks : List Lock) (g : Gauge) : List Pay :=
  match subCoins g.coins g.distributed, remainEpochs g with
  | some remain, some e =>
    let ls := gaugeLocks g locks
    if ls.isEmpty ∨ remain.isEmpty ∨ isSpam remain ∨ lockSum ls = 0 then []
    else ls.filterMap (payOf f remain (lockSum ls * e))
  | _, _ => []

/-- a gauge queues exactly the clause's pays, whatever the cache holds. -/
theorem gaugePays_eq_clausePays {m : MinVal} (hc : CacheOK m) (hn : QuotesNonneg m.quotes) (locks : List Lock) (g : Gauge) :
    gaugePays m locks g = clausePays (worthMinimum m.quotes) locks g := by
  unfold gaugePays clausePays
  have h1 := minFilter_eq_worthMinimum hc hn
  have h2 : ∀ r, minFilter (m.after r) = worthMinimum m.quotes := fun r => by
    have := minFilter_eq_worthMinimum (CacheOK_after hc r) (by rw [MinVal.after_quotes]; exact hn)
    rw [MinVal.after_quotes] at this; exact this
  unfold distributeGauge
  cases hs : subCoins g.coins g.distributed with
  | none => rfl
  | some remain =>
    simp only
    cases he : remainEpochs g with
    | none => rfl
    | some e =>
      simp only
      by_cases c1 : (gaugeLocks g locks).isEmpty = true
      · simp [c1]
      · by_cases c2 : remain.isEmpty = true
        · simp [c1, c2]
        · by_cases c3 : isSpam remain = true
          · simp [c1, c2, c3]
          · by_cases c4 : lockSum (gaugeLocks g locks) = 0
            · simp [c1, c2, c3, c4]
            · simp only [c1, c2, c3, c4, if_false, Bool.false_eq_true, or_self]
              rw [h1, h2, lockPays_same_eq_filterMap]

/-- the send queue of a `Distribute` call is the clause's pays of the gauges, in order. -/
theorem snapPays_eq_clausePays {m : MinVal} (hc : CacheOK m) (hn : QuotesNonneg m.quotes) (locks : List Lock)
    (snap : List Gauge) : snapPays m locks snap = snap.flatMap (clausePays (worthMinimum m.quotes) locks) := by
  induction snap generalizing m with
  | nil => rfl
  | cons g gs ih =>
    have hc' := CacheOK_afterGauge hc locks g
    have hn' : QuotesNonneg (m.afterGauge locks g).quotes := by rw [MinVal.afterGauge_quotes]; exact hn
    simp only [snapPays, List.flatMap_cons, gaugePays_eq_clausePays hc hn locks g]
    congr 1
    have := ih hc' hn'
    rw [MinVal.afterGauge_quotes] at this
    exact this

/-- `distributeGauge` fails only on a broken record (distributed > coins, or no epochs left): never because of a quote. -/
theorem distributeGauge_none_iff (m : MinVal) (locks : List Lock) (g : Gauge) :
    distributeGauge m locks g = none ↔ subCoins g.coins g.distributed = none ∨ remainEpochs g = none := by
  unfold distributeGauge
  cases hs : subCoins g.coins g.distributed with
  | none => simp
  | some remain =>
    cases he : remainEpochs g with
    | none => simp
    | some e =>
      simp only
      constructor
      · intro h
        split at h; · cases h
        split at h; · cases h
        split at h; · cases h
        split at h <;> cases h
      · rintro (h | h) <;> cases h

end OsmoVerif.Incentives
