/- The minimum-value filter of `distributeInternal` with its per-`Distribute` cache (`minFilter`, `MinVal.after`):
what it decides for a denom with a non-zero quote, without value, and with a ZERO quote (the sentinel quirk), and
the cache-free clause of the property (`worthMinimum`, `clausePays`) it coincides with when no quote is zero.
Core only. -/
import OsmoVerif.Proofs.IncentivesEpoch

namespace OsmoVerif.Incentives

/-- THE CLAUSE of the property: an amount is paid iff the denom has a route whose quote of the configured minimum
succeeds and the amount is worth at least that converted minimum; no route (or no quote): "not valuable at all". -/
def worthMinimum (q : Quotes) : Filter := fun d a =>
  match assoc q d with
  | some (some v) => decide (v ≤ a)
  | _ => false

theorem missValue_of_quote {m : MinVal} {d : Denom} {v : Int} (hq : assoc m.quotes d = some (some v)) :
    m.missValue d = v := by
  unfold MinVal.missValue; rw [hq]

/-- a denom whose quote is NOT zero (or the minimum-value denom itself): the filter is the clause, whatever the
cache holds. -/
theorem minFilter_clause {m : MinVal} (hc : CacheOK m) {d : Denom} {v : Int} (hq : assoc m.quotes d = some (some v))
    (hv : d = Gen.Incentives.BaseCoinUnit ∨ v ≠ 0) (a : Int) : minFilter m d a = decide (v ≤ a) := by
  unfold minFilter
  by_cases hb : d = Gen.Incentives.BaseCoinUnit
  · rw [if_pos hb, hq]
  · rw [if_neg hb]
    cases hcd : assoc m.cache d with
    | none => simp only [hq]
    | some c =>
      have hcv : c = v := by rw [hc d c hcd, missValue_of_quote hq]
      have hv' : v ≠ 0 := by rcases hv with h | h; exact absurd h hb; exact h
      subst hcv
      simp only [if_neg hv']

/-- no route, or a failing quote: never paid ("not valuable at all"). -/
theorem minFilter_no_value {m : MinVal} (hc : CacheOK m) {d : Denom}
    (hq : assoc m.quotes d = none ∨ assoc m.quotes d = some none) (a : Int) : minFilter m d a = false := by
  have hmv : m.missValue d = 0 := by unfold MinVal.missValue; rcases hq with h | h <;> rw [h]
  unfold minFilter
  by_cases hb : d = Gen.Incentives.BaseCoinUnit
  · rw [if_pos hb]; rcases hq with h | h <;> rw [h]
  · rw [if_neg hb]
    cases hcd : assoc m.cache d with
    | none => rcases hq with h | h <;> simp only [h]
    | some c =>
      have : c = 0 := by rw [hc d c hcd, hmv]
      subst this; simp

/-- THE QUIRK: a non-base denom whose quote is ZERO passes the filter only on the cache miss. -/
theorem minFilter_zero_quote {m : MinVal} (hc : CacheOK m) {d : Denom} (hb : d ≠ Gen.Incentives.BaseCoinUnit)
    (hq : assoc m.quotes d = some (some 0)) (a : Int) :
    minFilter m d a = ((assoc m.cache d).isNone && decide (0 ≤ a)) := by
  unfold minFilter
  rw [if_neg hb]
  cases hcd : assoc m.cache d with
  | none => simp only [hq, Option.isNone_none, Bool.true_and]
  | some c =>
    have : c = 0 := by rw [hc d c hcd, missValue_of_quote hq]
    subst this; simp

/-- no non-base denom is quoted at zero. -/
def NoZeroQuote (q : Quotes) : Prop := ∀ d, d ≠ Gen.Incentives.BaseCoinUnit → assoc q d ≠ some (some 0)

/-- without a zero quote the cached filter IS the clause, for every cache state of the call. -/
theorem minFilter_eq_worthMinimum {m : MinVal} (hc : CacheOK m) (hz : NoZeroQuote m.quotes) :
    minFilter m = worthMinimum m.quotes := by
  funext d a
  unfold worthMinimum
  cases hq : assoc m.quotes d with
  | none => simp only; exact minFilter_no_value hc (Or.inl hq) a
  | some o =>
    cases o with
    | none => simp only; exact minFilter_no_value hc (Or.inr hq) a
    | some v =>
      simp only
      refine minFilter_clause hc hq ?_ a
      by_cases hb : d = Gen.Incentives.BaseCoinUnit
      · exact Or.inl hb
      · right; intro hv; subst hv; exact hz d hb hq

/-! ### the cache after the first lock -/

theorem after_fold_keeps (mv : Denom → Int) (remain : Coins) (cache : Cache) {d : Denom} (h : (assoc cache d).isSome = true) :
    (assoc (remain.foldl (fun cache c =>
      if c.1 = Gen.Incentives.BaseCoinUnit ∨ (assoc cache c.1).isSome then cache else cache ++ [(c.1, mv c.1)]) cache) d).isSome = true := by
  induction remain generalizing cache with
  | nil => exact h
  | cons x t ih =>
    simp only [List.foldl_cons]
    apply ih
    split
    · exact h
    · cases hd : assoc cache d with
      | none => rw [hd] at h; cases h
      | some c => rw [assoc_append_some hd]; rfl

theorem after_fold_mem (mv : Denom → Int) (remain : Coins) (cache : Cache) {d : Denom} (hb : d ≠ Gen.Incentives.BaseCoinUnit)
    (hm : d ∈ remain.map (·.1)) :
    (assoc (remain.foldl (fun cache c =>
      if c.1 = Gen.Incentives.BaseCoinUnit ∨ (assoc cache c.1).isSome then cache else cache ++ [(c.1, mv c.1)]) cache) d).isSome = true := by
  induction remain generalizing cache with
  | nil => cases hm
  | cons x t ih =>
    simp only [List.foldl_cons]
    simp only [List.map_cons, List.mem_cons] at hm
    rcases hm with rfl | hm
    · apply after_fold_keeps
      split
      · rename_i h
        rcases h with h | h
        · exact absurd h hb
        · exact h
      · rename_i h
        have hn : assoc cache x.1 = none := by
          cases hh : assoc cache x.1 with
          | none => rfl
          | some c => exact absurd (Or.inr (by rw [hh]; rfl)) h
        rw [assoc_append_none hn, if_pos rfl]; rfl
    · exact ih _ hm

/-- after the first lock of a gauge every non-base denom of the gauge's remaining coins is cached. -/
theorem after_cached (m : MinVal) (remain : Coins) {d : Denom} (hb : d ≠ Gen.Incentives.BaseCoinUnit)
    (hm : d ∈ remain.map (·.1)) : (assoc (m.after remain).cache d).isSome = true :=
  after_fold_mem m.missValue remain m.cache hb hm

/-- THE QUIRK, for every input: once a gauge's first lock went through the coin loop, a remaining denom quoted at
ZERO never passes the filter again — not for the later locks of this gauge, nor (the cache only grows) later. -/
theorem minFilter_after_zero_quote {m : MinVal} (hc : CacheOK m) (remain : Coins) {d : Denom}
    (hb : d ≠ Gen.Incentives.BaseCoinUnit) (hq : assoc m.quotes d = some (some 0)) (hm : d ∈ remain.map (·.1)) (a : Int) :
    minFilter (m.after remain) d a = false := by
  rw [minFilter_zero_quote (CacheOK_after hc remain) hb (by rw [MinVal.after_quotes]; exact hq)]
  have := after_cached m remain hb hm
  cases h : assoc (m.after remain).cache d with
  | none => rw [h] at this; cases this
  | some c => rfl

/-! ### the cache-free payout of the property's clause -/

theorem lockCoins_congr {f f' : Filter} (h : f = f') (remain : Coins) (den amt : Int) :
    lockCoins f remain den amt = lockCoins f' remain den amt := by rw [h]

/-- what a gauge queues according to the property's clause with value filter `f`: every qualifying lock its floor
shares worth the minimum (nothing when the gauge is empty, spam-skipped or has no qualifying lock). -/
def clausePays (f : Filter) (locks : List Lock) (g : Gauge) : List Pay :=
  match subCoins g.coins g.distributed, remainEpochs g with
  | some remain, some e =>
    let ls := gaugeLocks g locks
    if ls.isEmpty ∨ remain.isEmpty ∨ isSpam remain ∨ lockSum ls = 0 then []
    else ls.filterMap (payOf f remain (lockSum ls * e))
  | _, _ => []

/-- without a zero quote a gauge that does not fail queues exactly the clause's pays. -/
theorem gaugePays_eq_clausePays {m : MinVal} (hc : CacheOK m) (hz : NoZeroQuote m.quotes) (locks : List Lock) (g : Gauge)
    (hne : distributeGauge m locks g ≠ none) : gaugePays m locks g = clausePays (worthMinimum m.quotes) locks g := by
  unfold gaugePays clausePays
  have h1 := minFilter_eq_worthMinimum hc hz
  have h2 : minFilter (m.after (match subCoins g.coins g.distributed with | some r => r | none => [])) = worthMinimum m.quotes := by
    have := minFilter_eq_worthMinimum (CacheOK_after hc (match subCoins g.coins g.distributed with | some r => r | none => []))
      (by rw [MinVal.after_quotes]; exact hz)
    rw [MinVal.after_quotes] at this; exact this
  unfold distributeGauge at hne ⊢
  cases hs : subCoins g.coins g.distributed with
  | none => rw [hs] at hne
  | some remain =>
    rw [hs] at hne h2
    simp only at hne h2 ⊢
    cases he : remainEpochs g with
    | none => rw [he] at hne
    | some e =>
      rw [he] at hne
      simp only at hne ⊢
      by_cases c1 : (gaugeLocks g locks).isEmpty = true
      · simp [c1]
      · by_cases c2 : remain.isEmpty = true
        · simp [c1, c2]
        · by_cases c3 : isSpam remain = true
          · simp [c1, c2, c3]
          · by_cases c4 : lockSum (gaugeLocks g locks) = 0
            · simp [c1, c2, c3, c4]
            · by_cases c5 : m.fails remain = true
              · simp only [c1, c2, c3, c4, c5, if_false, if_true, Bool.false_eq_true] at hne
                exact absurd rfl hne
              · simp only [c1, c2, c3, c4, c5, if_false, Bool.false_eq_true, or_self]
                rw [h1, h2, lockPays_same_eq_filterMap]

/-- without a zero quote the send queue of a successful `Distribute` is the clause's pays of the gauges, in order. -/
theorem snapPays_eq_clausePays {m : MinVal} (hc : CacheOK m) (hz : NoZeroQuote m.quotes) {locks : List Lock}
    {snap store : List Gauge} {info : Info} {r : List Gauge × Info}
    (h : distributeLoop m locks snap store info = some r) :
    snapPays m locks snap = snap.flatMap (clausePays (worthMinimum m.quotes) locks) := by
  induction snap generalizing store info m with
  | nil => rfl
  | cons g gs ih =>
    simp only [distributeLoop] at h
    have hne : distributeGauge m locks g ≠ none := by
      intro hh; rw [hh] at h; cases h
    have hc' := CacheOK_afterGauge hc locks g
    have hz' : NoZeroQuote (m.afterGauge locks g).quotes := by rw [MinVal.afterGauge_quotes]; exact hz
    simp only [snapPays, List.flatMap_cons, gaugePays_eq_clausePays hc hz locks g hne]
    congr 1
    cases hd : distributeGauge m locks g with
    | none => exact absurd hd hne
    | some rr =>
      rw [hd] at h
      cases rr with
      | none => have := ih hc' hz' h; rw [MinVal.afterGauge_quotes] at this; exact this
      | some tp => have := ih hc' hz' h; rw [MinVal.afterGauge_quotes] at this; exact this

end OsmoVerif.Incentives
