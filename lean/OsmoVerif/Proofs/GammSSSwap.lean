/-
C04 (stableswap invariant), part 5: what the exact-in swap (`calcOutAmtGivenIn`, `SwapOutAmtGivenIn`) runs the
solver on, step by step, and the rational meaning of every scaling / descaling step.
-/
import OsmoVerif.Proofs.GammSSPool

set_option linter.unusedSimpArgs false

namespace OsmoVerif.GammMath.SS
open OsmoVerif.Num OsmoVerif.MathM OsmoVerif.Gen OsmoVerif.Spec

theorem P18_mul_Pdiff : P18 * Pdiff = P36 := by decide

/-! ### `DivIntByU64ToBigDec` -/

theorem divIntByU64_down {i u r : Int} (h : divIntByU64 i u Gen.GammMath.RoundDown = .ok r) :
    u ≠ 0 ∧ r = (i * P36).tdiv u := by
  unfold divIntByU64 at h
  split at h
  · cases h
  · rename_i hu
    rw [if_neg (by decide), if_pos rfl] at h
    have := pn_ok h
    unfold BigDec.quoInt at this
    rw [if_neg hu] at this
    injection this with this
    rw [Int.mul_assoc, P18_mul_Pdiff] at this
    exact ⟨hu, this.symm⟩

theorem divIntByU64_up {i u r : Int} (h : divIntByU64 i u Gen.GammMath.RoundUp = .ok r) :
    u ≠ 0 ∧ BigDec.quoRoundUp (i * P36) (u * P36) = some r := by
  unfold divIntByU64 at h
  split at h
  · cases h
  · rename_i hu
    rw [if_pos rfl] at h
    have := pn_ok h
    rw [Int.mul_assoc, P18_mul_Pdiff] at this
    exact ⟨hu, this⟩

/-- FULL: RoundDown scaling of a non-negative amount is the 36-decimal floor of `i/u`. -/
theorem scaled_down_rq {i u r : Int} (hu : 0 < u) (hi : 0 ≤ i) (hr : r = (i * P36).tdiv u) :
    rq r ≤ (i : ℚ) / u ∧ (i : ℚ) / u < rq r + eps ∧ 0 ≤ r := by
  obtain ⟨t1, t2, t3⟩ := tdiv_floor hu (Int.mul_nonneg hi (Int.le_of_lt P36_pos))
  rw [← hr] at t1 t2 t3
  have huq : (0 : ℚ) < u := by exact_mod_cast hu
  have q1 : (r : ℚ) * u ≤ i * 10 ^ 36 := by rw [← P36_cast]; exact_mod_cast t1
  have q2 : (i : ℚ) * 10 ^ 36 < (r + 1) * u := by rw [← P36_cast]; exact_mod_cast t2
  unfold rq eps
  refine ⟨?_, ?_, t3⟩
  · rw [div_le_div_iff₀ (by positivity) huq]; exact q1
  · have : (r : ℚ) / 10 ^ 36 + 1 / 10 ^ 36 = ((r : ℚ) + 1) / 10 ^ 36 := by ring
    rw [this, div_lt_div_iff₀ huq (by positivity)]; exact q2

/-! ### `scaledSortedPoolReserves` -/

theorem validSFs_spec {as : List SSAsset} (h : validSFs as = true) : ∀ c ∈ as, 0 < c.sf := by
  unfold validSFs at h
  intro c hc
  have := List.all_eq_true.mp h c hc
  simp only [decide_eq_true_eq] at this
  exact this.1

theorem scaledReserves_spec {p : SSPool} {d1 d2 : String} {dir : Nat} {rs : List Int}
    (h : scaledReserves p d1 d2 dir = .ok rs) :
    ∃ a b r1 r2 rem, findSS p.assets d1 = some a ∧ findSS p.assets d2 = some b ∧ d1 ≠ d2 ∧
      0 < a.sf ∧ 0 < b.sf ∧ (∀ c ∈ p.assets.filter (fun c => c.denom ≠ d1 ∧ c.denom ≠ d2), 0 < c.sf) ∧
      rs = r1 :: r2 :: rem ∧ divIntByU64 a.amount a.sf dir = .ok r1 ∧ divIntByU64 b.amount b.sf dir = .ok r2 ∧
      List.Forall₂ (fun c r => divIntByU64 c.amount c.sf dir = .ok r)
        (p.assets.filter fun c => c.denom ≠ d1 ∧ c.denom ≠ d2) rem := by
  unfold scaledReserves at h
  split at h
  · rename_i a b ha hb
    split at h
    · cases h
    · rename_i hne
      dsimp only at h
      split at h
      · cases h
      · rename_i hv
        have hv' : validSFs (a :: b :: p.assets.filter fun c => c.denom ≠ d1 ∧ c.denom ≠ d2) = true := by
          simpa using hv
        have hsf := validSFs_spec hv'
        have hf := mapM_ok_forall₂ _ _ _ h
        cases hf with
        | cons h1 hf =>
          cases hf with
          | cons h2 hf =>
            exact ⟨a, b, _, _, _, ha, hb, hne, hsf a (by simp), hsf b (by simp),
              fun c hc => hsf c (List.mem_cons_of_mem _ (List.mem_cons_of_mem _ hc)), rfl, h1, h2, hf⟩
  · cases h

/-! ### `sumSquares` -/

theorem sumSquares_go_rq : ∀ (rs : List Int) (acc w : Int),
    rs.foldlM (fun acc r => (BigDec.mul r r).bind (BigDec.add acc)) acc = some w →
      |rq w - (rq acc + sumSq (rs.map rq))| ≤ rs.length * (eps / 2) := by
  intro rs
  induction rs with
  | nil =>
    intro acc w h
    simp only [List.foldlM_nil, pure] at h
    injection h with h; subst h
    simp [sumSq]
  | cons r rs ih =>
    intro acc w h
    rw [List.foldlM_cons] at h
    cases h1 : BigDec.mul r r with
    | none => simp [h1] at h
    | some r2 =>
      cases h2 : BigDec.add acc r2 with
      | none => simp [h1, h2] at h
      | some acc' =>
        simp only [h1, h2, Option.bind_eq_bind, Option.bind_some, bind] at h
        have a := abs_le.mp (ih acc' w h)
        have m := abs_le.mp (BigDec_mul_rq h1)
        have e := BigDec_add_rq h2
        rw [List.map_cons, sumSq_cons, List.length_cons]
        push_cast
        rw [abs_le]
        constructor <;> nlinarith

/-- FULL: `w` (the rounded sum of squares of the other scaled reserves) against the exact sum of squares of the
same scaled values: at most half a raw unit per asset. -/
theorem sumSquares_rq {rs : List Int} {w : Int} (h : sumSquares rs = some w) :
    |rq w - sumSq (rs.map rq)| ≤ rs.length * (eps / 2) := by
  have := sumSquares_go_rq rs 0 w h
  rwa [rq_zero, zero_add] at this

/-! ### the pieces of `calcOutAmtGivenIn` -/

theorem scaleCoin_found {p : SSPool} {d : String} {a : SSAsset} (amt : Int) (dir : Nat)
    (h : findSS p.assets d = some a) : scaleCoin p d amt dir = divIntByU64 amt a.sf dir := by
  unfold scaleCoin; rw [h]

theorem descale_found {p : SSPool} {d : String} {a : SSAsset} {x r : Int} (h : findSS p.assets d = some a)
    (hd : descale p d x = some r) : r = (x * a.sf).tdiv Pdiff := by
  unfold descale at hd
  rw [h] at hd
  cases hm : BigDec.mulInt x a.sf with
  | none => simp [hm] at hd
  | some m =>
    simp only [hm, Option.bind_some] at hd
    unfold BigDec.dec at hd
    injection hd with hd
    rw [← hd, BigDec_mulInt_spec hm]

/-- half-even chop is below every multiple at or above its argument. -/
theorem chopRound36_le {n q : Int} (h : n ≤ q * P36) : chopRound P36 n ≤ q := by
  obtain ⟨_, b, _⟩ := chopRound_isHalfEven P36 n P36_pos P36_even
  generalize chopRound P36 n = r at *
  rw [P36_val] at *
  omega

/-- FULL: with a non-negative spread factor the amount entering the curve is at most the scaled token-in
(`tokenIn·(1 − spread)`, half-even), and it is non-negative for spread ≤ 1. -/
theorem ammIn_le {spread tin ammIn : Int} (hs : 0 ≤ spread) (ht : 0 ≤ tin)
    (h : ((oneMinus spread).bind fun om => BigDec.mul tin om) = some ammIn) : ammIn ≤ tin := by
  unfold oneMinus at h
  cases ho : Dec.sub P18 spread with
  | none => simp [ho] at h
  | some om =>
    simp only [ho, Option.map_some, Option.bind_some] at h
    have hom := Dec_sub_spec ho
    unfold BigDec.mul at h
    rw [(chk_some h).1]
    apply chopRound36_le
    have : om * Pdiff ≤ P36 := by
      rw [hom, ← P18_mul_Pdiff]
      exact Int.mul_le_mul_of_nonneg_right (by omega) (Int.le_of_lt Pdiff_pos)
    exact Int.mul_le_mul_of_nonneg_left this ht

/-- everything `Pool.CalcOutAmtGivenIn` computes on the way to `out`. -/
theorem ssCalcOut_spec {p : SSPool} {dIn dOut : String} {amt spread out : Int}
    (h : ssCalcOut p [(dIn, amt)] dOut spread = .ok out) :
    ∃ aIn aOut y0 x0 rem w tin ammIn xOut dd,
      findSS p.assets dIn = some aIn ∧ findSS p.assets dOut = some aOut ∧ dIn ≠ dOut ∧
      0 < aIn.sf ∧ 0 < aOut.sf ∧
      (∀ c ∈ p.assets.filter (fun c => c.denom ≠ dIn ∧ c.denom ≠ dOut), 0 < c.sf) ∧
      y0 = (aIn.amount * P36).tdiv aIn.sf ∧ x0 = (aOut.amount * P36).tdiv aOut.sf ∧
      List.Forall₂ (fun c r => r = (c.amount * P36).tdiv c.sf)
        (p.assets.filter fun c => c.denom ≠ dIn ∧ c.denom ≠ dOut) rem ∧
      sumSquares rem = some w ∧
      tin = (amt * P36).tdiv aIn.sf ∧
      ((oneMinus spread).bind fun om => BigDec.mul tin om) = some ammIn ∧
      solveCfmmMulti x0 y0 w ammIn = some xOut ∧
      dd = (xOut * aOut.sf).tdiv Pdiff ∧ outTrunc dd = .ok out := by
  unfold ssCalcOut at h
  simp only at h
  cases hd : ssOutDec p dIn amt dOut spread with
  | error e => simp [hd, bind, Except.bind] at h
  | ok dd =>
    simp only [hd, bind, Except.bind] at h
    unfold ssOutDec at hd
    cases hrs : scaledReserves p dIn dOut Gen.GammMath.RoundDown with
    | error e => simp [hrs, bind, Except.bind] at hd
    | ok rs =>
      obtain ⟨aIn, aOut, y0, x0, rem, hIn, hOut, hne, sfIn, sfOut, sfO, ers, hy0, hx0, hrem⟩ :=
        scaledReserves_spec hrs
      subst ers
      simp only [hrs, bind, Except.bind] at hd
      rw [scaleCoin_found amt _ hIn] at hd
      cases htin : divIntByU64 amt aIn.sf Gen.GammMath.RoundDown with
      | error e => simp [htin] at hd
      | ok tin =>
        simp only [htin] at hd
        cases hamm : ((oneMinus spread).bind fun om => BigDec.mul tin om) with
        | none => simp [hamm, pn] at hd
        | some ammIn =>
          simp only [hamm, pn] at hd
          cases hsol : solveCfmm x0 y0 rem ammIn with
          | none => simp [hsol] at hd
          | some xOut =>
            simp only [hsol] at hd
            have hdd := pn_ok hd
            unfold solveCfmm at hsol
            cases hw : sumSquares rem with
            | none => simp [hw] at hsol
            | some w =>
              simp only [hw, Option.bind_some] at hsol
              refine ⟨aIn, aOut, y0, x0, rem, w, tin, ammIn, xOut, dd, hIn, hOut, hne, sfIn, sfOut, sfO,
                (divIntByU64_down hy0).2, (divIntByU64_down hx0).2, ?_, hw, (divIntByU64_down htin).2, hamm, hsol,
                descale_found hOut hdd, h⟩
              exact hrem.imp fun _ _ hcr => (divIntByU64_down hcr).2

/-- `SwapOutAmtGivenIn`: the new reserves. -/
theorem ssSwapOut_spec {p p' : SSPool} {dIn dOut : String} {amt spread out : Int}
    (h : ssSwapOut p [(dIn, amt)] dOut spread = .ok (out, p')) :
    ssCalcOut p [(dIn, amt)] dOut spread = .ok out ∧
    validLiquidity (p.assets.map fun a => { a with amount := a.amount + amountOf [(dIn, amt)] a.denom }) = .ok () ∧
    p'.assets = p.assets.map (fun a =>
      { a with amount := a.amount + amountOf [(dIn, amt)] a.denom - amountOf [(dOut, out)] a.denom }) ∧
    p'.totalShares = p.totalShares ∧
    ∀ a ∈ p.assets, 0 < a.amount + amountOf [(dIn, amt)] a.denom - amountOf [(dOut, out)] a.denom := by
  unfold ssSwapOut at h
  split at h
  · cases h
  · cases ha : ssAddLiq p [(dIn, amt)] with
    | error e => simp [ha, bind, Except.bind] at h
    | ok post =>
      simp only [ha, bind, Except.bind] at h
      cases hv : validLiquidity post with
      | error e => simp [hv] at h
      | ok u =>
        simp only [hv] at h
        cases hc : ssCalcOut p [(dIn, amt)] dOut spread with
        | error e => simp [hc] at h
        | ok o =>
          simp only [hc] at h
          cases hs : ssSubLiq post [(dOut, o)] with
          | error e => simp [hs] at h
          | ok as' =>
            simp only [hs, pure, Except.pure] at h
            injection h with h
            injection h with h1 h2
            subst h1
            have hpost := ssAddLiq_spec ha
            obtain ⟨e1, e2⟩ := ssSubLiq_spec hs
            subst hpost
            refine ⟨rfl, hv, ?_, ?_, ?_⟩
            · rw [← h2]; simp only; rw [e1, List.map_map]; rfl
            · rw [← h2]
            · intro a ha
              exact e2 _ (List.mem_map.mpr ⟨a, ha, rfl⟩)

end OsmoVerif.GammMath.SS
