/- The accumulator model refines the ghost ledger (Spec/AccumLedger): `Refines` is preserved by every
admissible op issued through a fresh handle.  Core only. -/
import OsmoVerif.Proofs.AccumInv

namespace OsmoVerif.Accum
open OsmoVerif.Num OsmoVerif.Spec

theorem getTotalRewards_amt {h : Handle} {p : Record} {tot : DecCoins} (hv : sorted h.value = true)
    (hs : sorted p.snap = true) (ht : getTotalRewards h p = some tot) :
    ∃ diff, sub h.value p.snap = some diff ∧ sorted diff = true ∧
      (∀ d, amt diff d = amt h.value d - amt p.snap d) ∧
      (∀ d, amt tot d = amt p.unclaimed d + hev p.shares (amt h.value d - amt p.snap d)) := by
  unfold getTotalRewards at ht
  split at ht
  · cases ht
  · next diff hdiff =>
    split at ht
    · cases ht
    · next acc hacc =>
      have hsd := sub_sorted hv hs hdiff
      refine ⟨diff, hdiff, hsd, fun d => sub_amt hdiff d, fun d => ?_⟩
      rw [add_amt _ _ _ d ht, mulDec_amt hsd hacc, sub_amt hdiff]

theorem amtMap_all_zero (f : Int → Int) {cs : List (String × Int)} (h : cs.all (fun e => decide (f e.2 = 0)) = true) (d : String) :
    amtMap f cs d = 0 := by
  induction cs with
  | nil => rfl
  | cons c t ih =>
    obtain ⟨e, x⟩ := c
    simp only [List.all_cons, Bool.and_eq_true, decide_eq_true_eq] at h
    simp only [amtMap, ih h.2, h.1]; split <;> rfl

/-- rounding error of one settlement: at most half a unit, zero when the settlement is exact. -/
theorem settle_err {st : Store} {a pos : String} {c : Content} {p : Record} {tot : DecCoins}
    (h1 : alookup st.accs a = some c) (h2 : st.getPos a pos = some p)
    (hv : sorted c.value = true) (hs : sorted p.snap = true)
    (ht : getTotalRewards (fresh a c) p = some tot) (d : String) :
    let x := amt c.value d - amt p.snap d
    let m := hev p.shares x
    amt tot d = amt p.unclaimed d + m ∧
    ((inexactStep st a pos = 0 ∧ m * P18 = x * p.shares) ∨
     (inexactStep st a pos = 1 ∧ 2 * (x * p.shares - m * P18) ≤ P18 ∧ -P18 ≤ 2 * (x * p.shares - m * P18))) := by
  obtain ⟨diff, hdiff, hsd, hamt, htot⟩ := getTotalRewards_amt (h := fresh a c) hv hs ht
  refine ⟨htot d, ?_⟩
  have hhe := hev_isHalfEven p.shares (amt c.value d - amt p.snap d)
  have hstep : inexactStep st a pos = if diff.all (fun e => decide ((e.2 * p.shares) % P18 = 0)) then 0 else 1 := by
    unfold inexactStep
    rw [h1, h2]
    simp only
    rw [show sub c.value p.snap = some diff from hdiff]
  by_cases hall : diff.all (fun e => decide ((e.2 * p.shares) % P18 = 0)) = true
  · left
    rw [hstep, if_pos hall]
    refine ⟨rfl, ?_⟩
    have h0 := amtMap_all_zero (fun x => (x * p.shares) % P18) hall d
    rw [amtMap_sorted _ (by simp) hsd, hamt d] at h0
    have h0' : ((amt c.value d - amt p.snap d) * p.shares) % P18 = 0 := h0
    obtain ⟨q, hq⟩ := Int.dvd_of_emod_eq_zero h0'
    rw [Int.mul_comm P18 q] at hq
    rw [hq] at hhe ⊢
    rw [hhe.exact P18_pos]
  · right
    rw [hstep, if_neg hall]
    exact ⟨rfl, hhe.1, hhe.2.1⟩

theorem valueOf_eq {st : Store} {a : String} {c : Content} (h1 : alookup st.accs a = some c) (d : String) :
    valueOf st a d = amt c.value d := by unfold valueOf; rw [h1]

theorem sharesOf_eq {st : Store} {a pos : String} {p : Record} (h2 : st.getPos a pos = some p) :
    sharesOf st a pos = p.shares := by unfold sharesOf; rw [h2]

theorem snapOf_eq {st : Store} {a pos : String} {p : Record} (h2 : st.getPos a pos = some p) (d : String) :
    snapOf st a pos d = amt p.snap d := by unfold snapOf; rw [h2]

theorem ivAmt_eq {st : Store} {a : String} {c : Content} (h1 : alookup st.accs a = some c) (iv : Option DecCoins) (d : String) :
    ivAmt st a iv d = amt (ivOr iv (fresh a c)) d := by
  cases iv with
  | none => exact valueOf_eq h1 d
  | some v => rfl

theorem payout_eq {st : Store} {a pos : String} {c : Content} {p : Record} {tot : DecCoins}
    (h1 : alookup st.accs a = some c) (h2 : st.getPos a pos = some p)
    (ht : getTotalRewards (fresh a c) p = some tot) (d : String) : payout st a pos d = amt tot d := by
  unfold payout getAccumulator
  rw [h1, h2]
  simp only [Option.map_some]
  rw [show getTotalRewards ⟨a, c.value, c.total⟩ p = some tot from ht]

/-- the per-position statement of `Refines`. -/
def Bound (p : Record) (c : Content) (l : LPos) (d : String) : Prop :=
  2 * (amt p.unclaimed d * P18 + (amt c.value d - amt p.snap d) * p.shares - (l.earned d - l.paid d * P18)) ≤ l.inexact * P18 ∧
  -((l.inexact * P18 : Int)) ≤ 2 * (amt p.unclaimed d * P18 + (amt c.value d - amt p.snap d) * p.shares - (l.earned d - l.paid d * P18))

theorem refines_iff (st : Store) (L : Ledger) :
    Refines st L ↔ ∀ acc pos p c, st.getPos acc pos = some p → alookup st.accs acc = some c → ∀ d, Bound p c (L acc pos) d :=
  Iff.rfl

theorem set_ne {L : Ledger} {a pos a' q : String} {v : LPos} (h : (a', q) ≠ (a, pos)) : L.set a pos v a' q = L a' q := by
  unfold Ledger.set
  rw [if_neg]
  intro ⟨h1, h2⟩; exact h (by rw [h1, h2])

theorem set_eq {L : Ledger} {a pos : String} {v : LPos} : L.set a pos v a pos = v := by
  unfold Ledger.set; rw [if_pos ⟨rfl, rfl⟩]

/-- generic step for ops that touch one position and leave every accumulator VALUE unchanged. -/
theorem refines_posop {st : Store} {L : Ledger} (hR : Refines st L) {a pos : String}
    {accs' : List (String × Content)} {poss' : List ((String × String) × Record)} {l' : LPos}
    (haccs : ∀ a' c', alookup accs' a' = some c' → ∃ c0, alookup st.accs a' = some c0 ∧ c0.value = c'.value)
    (hposs : ∀ a' q, (a', q) ≠ (a, pos) → alookup poss' (a', q) = alookup st.poss (a', q))
    (htarget : ∀ p' c', alookup poss' (a, pos) = some p' → alookup accs' a = some c' → ∀ d, Bound p' c' l' d) :
    Refines ⟨accs', poss'⟩ (L.set a pos l') := by
  rw [refines_iff]
  intro a' q p' c' hp' hc' d
  by_cases hk : (a', q) = (a, pos)
  · obtain ⟨rfl, rfl⟩ := Prod.mk.inj hk
    rw [set_eq]
    exact htarget p' c' hp' hc' d
  · rw [set_ne hk]
    obtain ⟨c0, hc0, hval⟩ := haccs a' c' hc'
    have hp0 : st.getPos a' q = some p' := by
      have := hposs a' q hk
      simp only [Store.getPos] at hp' ⊢
      rw [← this]; exact hp'
    have := (refines_iff st L).mp hR a' q p' c0 hp0 hc0 d
    unfold Bound at this ⊢
    rw [← hval]; exact this

theorem accs_aset_value {st : Store} {a : String} {c : Content} (h1 : alookup st.accs a = some c) (t : Int) :
    ∀ a' c', alookup (aset st.accs a ⟨c.value, t⟩) a' = some c' → ∃ c0, alookup st.accs a' = some c0 ∧ c0.value = c'.value := by
  intro a' c' h
  rw [alookup_aset] at h
  by_cases e : a = a'
  · rw [if_pos e] at h; cases h; subst e; exact ⟨c, h1, rfl⟩
  · rw [if_neg e] at h; exact ⟨c', h, rfl⟩

theorem accs_same_value (st : Store) :
    ∀ a' c', alookup st.accs a' = some c' → ∃ c0, alookup st.accs a' = some c0 ∧ c0.value = c'.value :=
  fun _ c' h => ⟨c', h, rfl⟩

theorem poss_aset_ne {st : Store} {a pos : String} (r : Record) :
    ∀ a' q, (a', q) ≠ (a, pos) → alookup (aset st.poss (a, pos) r) (a', q) = alookup st.poss (a', q) := by
  intro a' q h; rw [alookup_aset, if_neg (fun e => h e.symm)]

theorem poss_adel_ne {st : Store} {a pos : String} :
    ∀ a' q, (a', q) ≠ (a, pos) → alookup (adel st.poss (a, pos)) (a', q) = alookup st.poss (a', q) := by
  intro a' q h; rw [alookup_adel, if_neg (fun e => h e.symm)]

theorem target_aset {st : Store} {a pos : String} {r p' : Record} (h : alookup (aset st.poss (a, pos) r) (a, pos) = some p') : p' = r := by
  rw [alookup_aset, if_pos rfl] at h; cases h; rfl

theorem target_accs {st : Store} {a : String} {c c' : Content} {t : Int}
    (h : alookup (aset st.accs a ⟨c.value, t⟩) a = some c') : c'.value = c.value := by
  rw [alookup_aset, if_pos rfl] at h; cases h; rfl

/-- arithmetic core shared by settlement and claim. -/
theorem settle_arith {U x s m E Pd N k : Int} {T : Int}
    (hold : 2 * (U * P18 + x * s - (E - Pd * P18)) ≤ N ∧ -N ≤ 2 * (U * P18 + x * s - (E - Pd * P18)))
    (herr : (k = 0 ∧ m * P18 = x * s) ∨ (k = 1 ∧ 2 * (x * s - m * P18) ≤ P18 ∧ -P18 ≤ 2 * (x * s - m * P18)))
    (hT : T = (U + m) * P18 - (E - Pd * P18)) :
    2 * T ≤ N + k * P18 ∧ -(N + k * P18) ≤ 2 * T := by
  rw [Int.add_mul] at hT
  generalize U * P18 = a1 at *
  generalize x * s = a2 at *
  generalize m * P18 = a3 at *
  generalize Pd * P18 = a4 at *
  rcases herr with ⟨rfl, h⟩ | ⟨rfl, h1, h2⟩
  · simp only [Int.zero_mul]; omega
  · simp only [Int.one_mul]; omega

theorem refines_succ {st st' : Store} {op : Op} {L : Ledger} (hI : Inv st) (hR : Refines st L)
    (hok : (stepFresh st op).2 = .ok ()) (h : Succ st op st') : Refines st' (ledgerStep st op L) := by
  have hL : ledgerStep st op L = ledgerOk st op L := by
    unfold ledgerStep
    rw [if_neg (by rw [hok]; simp)]
  rw [hL]
  cases h with
  | make h1 h2 =>
    rename_i a
    simp only [ledgerOk]
    rw [refines_iff]
    intro a' q p' c' hp' hc' d
    have hp0 : st.getPos a' q = some p' := hp'
    obtain ⟨c0, hc0⟩ := hI.owner a' q p' hp0
    have hne : a ≠ a' := fun e => by rw [← e, h1] at hc0; cases hc0
    have hc1 : alookup st.accs a' = some c' := by
      have : alookup (aset st.accs a ⟨[], 0⟩) a' = some c' := hc'
      rwa [alookup_aset, if_neg hne] at this
    exact (refines_iff st L).mp hR a' q p' c' hp0 hc1 d
  | grow h1 h2 =>
    rename_i a g c v
    simp only [ledgerOk]
    rw [refines_iff]
    intro a' q p' c' hp' hc' d
    have hp0 : st.getPos a' q = some p' := hp'
    have hc2 : alookup (aset st.accs a ⟨v, c.total⟩) a' = some c' := hc'
    rw [alookup_aset] at hc2
    by_cases e : a = a'
    · subst e
      rw [if_pos rfl] at hc2; cases hc2
      have := (refines_iff st L).mp hR a q p' c hp0 h1 d
      unfold Bound at this ⊢
      simp only [if_pos]
      rw [add_amt _ _ _ d h2, sharesOf_eq hp0]
      have e1 : (amt c.value d + amt g d - amt p'.snap d) * p'.shares =
          (amt c.value d - amt p'.snap d) * p'.shares + amt g d * p'.shares := by
        rw [← Int.add_mul]; congr 1; omega
      rw [e1]
      generalize (amt c.value d - amt p'.snap d) * p'.shares = t1 at *
      generalize amt g d * p'.shares = t2 at *
      generalize amt p'.unclaimed d * P18 = t3 at *
      generalize (L a q).paid d * P18 = t4 at *
      omega
    · rw [if_neg e] at hc2
      have := (refines_iff st L).mp hR a' q p' c' hp0 hc2 d
      unfold Bound at this ⊢
      simp only [if_neg (fun (x : a' = a) => e x.symm)]
      exact this
  | newPos h1 =>
    rename_i a pos sh iv opt c
    simp only [ledgerOk]
    refine refines_posop hR (accs_aset_value h1 _) (poss_aset_ne _) ?_
    intro p' c' hp' hc' d
    rw [target_aset hp']
    unfold Bound
    simp only [target_accs hc', valueOf_eq h1, ivAmt_eq h1, amt]
    omega
  | settle hop h1 h2 h3 h4 =>
    rename_i a pos delta iv c p tot
    have hLs : ledgerOk st op L = L.settle st a pos delta iv := by
      cases op with
      | addPos a' pos' n iv' =>
        simp only [settleOf, Option.some.injEq, Prod.mk.injEq] at hop; obtain ⟨rfl, rfl, rfl, rfl⟩ := hop; rfl
      | remPos a' pos' n iv' =>
        simp only [settleOf, Option.some.injEq, Prod.mk.injEq] at hop; obtain ⟨rfl, rfl, rfl, rfl⟩ := hop; rfl
      | updPos a' pos' n iv' =>
        simp only [settleOf, Option.some.injEq, Prod.mk.injEq] at hop; obtain ⟨rfl, rfl, rfl, rfl⟩ := hop; rfl
      | _ => simp [settleOf] at hop
    rw [hLs]
    unfold Ledger.settle
    refine refines_posop hR (accs_aset_value h1 _) (poss_aset_ne _) ?_
    intro p' c' hp' hc' d
    rw [target_aset hp']
    have hold := (refines_iff st L).mp hR a pos p c h2 h1 d
    obtain ⟨htot, herr⟩ := settle_err h1 h2 (hI.srtA a c h1) (hI.srtP a pos p h2).1 h3 d
    unfold Bound at hold ⊢
    simp only [target_accs hc', valueOf_eq h1, ivAmt_eq h1, sharesOf_eq h2, htot]
    have hk : ((((L a pos).inexact + inexactStep st a pos : Nat) : Int)) * P18 =
        ((L a pos).inexact : Int) * P18 + (inexactStep st a pos : Int) * P18 := by
      rw [Int.natCast_add, Int.add_mul]
    rw [hk]
    refine settle_arith (m := hev p.shares (amt c.value d - amt p.snap d)) hold ?_ ?_
    · rcases herr with ⟨e0, e1⟩ | ⟨e0, e1⟩
      · left; exact ⟨by rw [e0]; rfl, e1⟩
      · right; exact ⟨by rw [e0]; rfl, e1⟩
    · generalize (amt c.value d - amt (ivOr iv (fresh a c)) d) * (p.shares + delta) = W
      omega
  | setInt h1 h2 =>
    rename_i a pos iv c p
    simp only [ledgerOk]
    refine refines_posop hR (accs_same_value st) (poss_aset_ne _) ?_
    intro p' c' hp' hc' d
    rw [target_aset hp']
    have hcc : c' = c := by rw [h1] at hc'; cases hc'; rfl
    subst hcc
    have hold := (refines_iff st L).mp hR a pos p c' h2 h1 d
    unfold Bound at hold ⊢
    simp only [snapOf_eq h2, sharesOf_eq h2]
    rw [Int.sub_mul] at hold ⊢
    rw [Int.sub_mul (amt p.snap d)]
    generalize amt c'.value d * p.shares = t1 at *
    generalize amt p.snap d * p.shares = t2 at *
    generalize amt iv d * p.shares = t3 at *
    generalize amt p.unclaimed d * P18 = t4 at *
    generalize (L a pos).paid d * P18 = t5 at *
    omega
  | addUnclaimed h1 h2 h3 =>
    rename_i a pos am c p u
    simp only [ledgerOk]
    refine refines_posop hR (accs_same_value st) (poss_aset_ne _) ?_
    intro p' c' hp' hc' d
    rw [target_aset hp']
    have hcc : c' = c := by rw [h1] at hc'; cases hc'; rfl
    subst hcc
    have hold := (refines_iff st L).mp hR a pos p c' h2 h1 d
    unfold Bound at hold ⊢
    simp only [add_amt _ _ _ d h3]
    rw [Int.add_mul]
    generalize (amt c'.value d - amt p.snap d) * p.shares = t1 at *
    generalize amt am d * P18 = t3 at *
    generalize amt p.unclaimed d * P18 = t4 at *
    generalize (L a pos).paid d * P18 = t5 at *
    omega
  | claim h1 h2 h3 h4 =>
    rename_i a pos c p tot tc dust
    simp only [ledgerOk]
    by_cases hz : p.shares = 0
    · rw [if_pos hz]
      refine refines_posop hR (accs_same_value st) poss_adel_ne ?_
      intro p' c' hp' _ d
      rw [alookup_adel, if_pos rfl] at hp'; cases hp'
    · rw [if_neg hz]
      refine refines_posop hR (accs_same_value st) (poss_aset_ne _) ?_
      intro p' c' hp' hc' d
      rw [target_aset hp']
      have hcc : c' = c := by rw [h1] at hc'; cases hc'; rfl
      subst hcc
      have hold := (refines_iff st L).mp hR a pos p c' h2 h1 d
      obtain ⟨htot, herr⟩ := settle_err h1 h2 (hI.srtA a c' h1) (hI.srtP a pos p h2).1 h3 d
      unfold Bound at hold ⊢
      simp only [payout_eq h1 h2 h3, htot, amt]
      have hk : ((((L a pos).inexact + inexactStep st a pos : Nat) : Int)) * P18 =
          ((L a pos).inexact : Int) * P18 + (inexactStep st a pos : Int) * P18 := by
        rw [Int.natCast_add, Int.add_mul]
      rw [hk]
      refine settle_arith (m := hev p.shares (amt c'.value d - amt p.snap d)) hold ?_ ?_
      · rcases herr with ⟨e0, e1⟩ | ⟨e0, e1⟩
        · left; exact ⟨by rw [e0]; rfl, e1⟩
        · right; exact ⟨by rw [e0]; rfl, e1⟩
      · rw [Int.add_mul, Int.add_mul, Int.sub_self, Int.zero_mul]
        generalize (L a pos).paid d * P18 = t5
        generalize amt p.unclaimed d * P18 = t4
        omega
  | delete h1 h2 h3 h4 =>
    rename_i a pos c p tot tc dust
    simp only [ledgerOk]
    refine refines_posop hR (accs_aset_value h1 _) ?_ ?_
    · intro a' q hne
      rw [alookup_adel, if_neg (fun e => hne e.symm)]
      split
      · exact poss_adel_ne a' q hne
      · exact poss_aset_ne _ a' q hne
    · intro p' c' hp' _ d
      rw [alookup_adel, if_pos rfl] at hp'; cases hp'

theorem refines_step {st : Store} {L : Ledger} (hI : Inv st) (hR : Refines st L) (op : Op) :
    Refines (stepTx st op) (if (stepFresh st op).2 = .panic then L else ledgerStep st op L) := by
  rcases step_cases hI.nosep op with ⟨hne, h⟩ | ⟨hok, h⟩
  · rw [h]
    have : ledgerStep st op L = L := by unfold ledgerStep; rw [if_pos hne]
    rw [this]; split <;> exact hR
  · rw [if_neg (by rw [hok]; simp)]
    exact refines_succ hI hR hok h

theorem refines_run : ∀ (ops : List Op) (st : Store) (L : Ledger), Inv st → Refines st L → disciplined st ops = true →
    Refines (run st ops) (ledgerRun st L ops) := by
  intro ops
  induction ops with
  | nil => intro st L _ h _; exact h
  | cons op t ih =>
    intro st L hI hR hd
    simp only [disciplined, Bool.and_eq_true] at hd
    exact ih _ _ (inv_step hI hd.1) (refines_step hI hR op) hd.2

theorem refines_empty : Refines Store.empty Ledger.init := by
  intro a q p c h; cases h

end OsmoVerif.Accum
