/-
C08 (incentives, histories) helpers, part 3: the position uptime records — what `updOne`
(`initOrUpdatePositionUptimeAccumulators`, one accumulator) and `claimOne` (`updateAccumAndClaimRewards`) do when they
succeed, as equations per denom; growth inside / outside per accumulator (`insideAll`, `outsideAll`).  Core only.
-/
import OsmoVerif.Proofs.CLIncHist2

namespace OsmoVerif.CLIncP
open OsmoVerif.Num OsmoVerif.CL OsmoVerif.CLPool OsmoVerif.CLFees OsmoVerif.CLInc OsmoVerif.CLFeesP OsmoVerif.CLBook
open OsmoVerif.Accum (amt sorted hev)

/-! ## record list -/

theorem getURec_setURec (recs : List URec) (r : URec) (x : Nat) :
    getURec (setURec recs r) x = if x = r.id then (getURec recs x).map (fun _ => r) else getURec recs x := by
  unfold getURec setURec
  induction recs with
  | nil => simp
  | cons o os ih =>
    simp only [List.map_cons, List.find?_cons]
    by_cases ho : o.id = r.id
    · simp only [ho, ↓reduceIte]
      by_cases hx : x = r.id
      · subst hx; simp
      · have : ¬ r.id = x := fun e => hx e.symm
        simp only [this, decide_false, hx, ↓reduceIte]
        simpa [hx] using ih
    · simp only [ho, ↓reduceIte]
      by_cases hox : o.id = x
      · have : ¬ x = r.id := by omega
        simp [hox, this]
      · simp only [hox, decide_false]
        exact ih

theorem getURec_append (recs : List URec) (r : URec) (x : Nat) :
    getURec (recs ++ [r]) x = match getURec recs x with
      | some v => some v
      | none => if r.id = x then some r else none := by
  unfold getURec
  rw [List.find?_append]
  cases h : List.find? (fun y => decide (y.id = x)) recs with
  | some v => simp
  | none => simp only [Option.none_or, List.find?_cons, List.find?_nil]; by_cases e : r.id = x <;> simp [e]

theorem getURec_del (recs : List URec) (id x : Nat) :
    getURec (recs.filter (·.id ≠ id)) x = if x = id then none else getURec recs x := by
  unfold getURec
  induction recs with
  | nil => simp
  | cons o os ih =>
    by_cases ho : o.id = id
    · have : ¬ (decide (o.id ≠ id) = true) := by simp [ho]
      rw [List.filter_cons, if_neg this, ih]
      by_cases hx : x = id
      · simp [hx]
      · have : ¬ o.id = x := by omega
        simp [hx, this]
    · have : decide (o.id ≠ id) = true := by simp [ho]
      rw [List.filter_cons, if_pos this]
      simp only [List.find?_cons]
      by_cases hox : o.id = x
      · have : ¬ x = id := by omega
        simp [hox, this]
      · simp only [hox, decide_false]
        exact ih

theorem getURec_id {recs : List URec} {x : Nat} {r : URec} (h : getURec recs x = some r) : r.id = x := by
  unfold getURec at h
  have := List.find?_some h
  simpa using this

/-! ## the reward formula -/

/-- `accum.GetTotalRewards` per denom: `unclaimed + round₁₈((value − snapshot) × shares)`. -/
theorem uRewards_spec {value snap unclaimed tot : DC} {shares : Int}
    (hv : sorted value = true) (hs : sorted snap = true) (hu : sorted unclaimed = true)
    (h : uRewards value shares snap unclaimed = some tot) :
    sorted tot = true ∧ ∀ d, amt tot d = amt unclaimed d + hev shares (amt value d - amt snap d) ∧ 0 ≤ amt value d - amt snap d := by
  unfold uRewards at h
  simp only [Option.bind_eq_some_iff] at h
  obtain ⟨diff, hdiff, acc, hacc, htot⟩ := h
  have hsd := Accum.sub_sorted hv hs hdiff
  refine ⟨Accum.add_sorted _ _ _ hu (Accum.mulDec_sorted hacc) htot, fun d => ⟨?_, ?_⟩⟩
  · rw [Accum.add_amt _ _ _ d htot, Accum.mulDec_amt hsd hacc d, Accum.sub_amt hdiff d]
  · rw [← Accum.sub_amt hdiff d]; exact sub_amt_nonneg hdiff d

/-! ## one accumulator of `initOrUpdatePositionUptimeAccumulators` -/

theorem updOne_new {a a' : UAcc} {id : Nat} {nl dl : Int} {ins outs : DC} (hn : getURec a.recs id = none)
    (h : updOne a id nl dl ins outs = some a') :
    0 < dl ∧ a'.value = a.value ∧ a'.total = a.total + nl ∧ a'.recs = a.recs ++ [⟨id, nl, ins, []⟩] := by
  unfold updOne at h
  rw [hn] at h
  simp only at h
  split at h
  · cases h
  · simp only [Option.map_eq_some_iff] at h
    obtain ⟨tot, htot, e⟩ := h
    subst e
    exact ⟨by omega, rfl, Accum.decAdd_some htot, rfl⟩

theorem updOne_old_spec {a a' : UAcc} {id : Nat} {nl dl : Int} {ins outs : DC} {r : URec} (hr : getURec a.recs id = some r)
    (h : updOne a id nl dl ins outs = some a') :
    ∃ snap1 rewards, Accum.add r.snap outs = some snap1 ∧ uRewards a.value r.shares snap1 r.unclaimed = some rewards ∧
      dl ≠ 0 ∧ (dl < 0 → -dl ≤ r.shares) ∧ a'.value = a.value ∧ a'.total = a.total + dl ∧
      a'.recs = setURec a.recs ⟨id, r.shares + dl, ins, rewards⟩ := by
  unfold updOne at h
  rw [hr] at h
  simp only [Option.bind_eq_some_iff] at h
  obtain ⟨snap1, hs1, h⟩ := h
  split at h
  · cases h
  · rename_i hd0
    split at h
    · cases h
    · rename_i hneg
      simp only [Option.bind_eq_some_iff, Option.map_eq_some_iff] at h
      obtain ⟨rewards, hrew, sh, hsh, tot, htot, e⟩ := h
      subst e
      refine ⟨snap1, rewards, hs1, hrew, hd0, fun hlt => by omega, rfl, Accum.decAdd_some htot, ?_⟩
      rw [Accum.decAdd_some hsh]

/-! ## one accumulator of a claim -/

theorem claimOne_none {a a' : UAcc} {id : Nat} {outs : DC} {coins : Coins} (hn : getURec a.recs id = none)
    (h : claimOne a id outs = some (a', coins)) : a' = a ∧ coins = [] := by
  unfold claimOne at h
  rw [hn] at h
  simp only [Option.some.injEq, Prod.mk.injEq] at h
  exact ⟨h.1.symm, h.2.symm⟩

theorem claimOne_some {a a' : UAcc} {id : Nat} {outs : DC} {coins : Coins} {r : URec} (hr : getURec a.recs id = some r)
    (h : claimOne a id outs = some (a', coins)) :
    ∃ snap1 total dust, Accum.add r.snap outs = some snap1 ∧ uRewards a.value r.shares snap1 r.unclaimed = some total ∧
      Accum.truncateDecimal total = some (coins, dust) ∧ a'.value = a.value ∧ a'.total = a.total ∧
      ((r.shares = 0 ∧ a'.recs = a.recs.filter (·.id ≠ id)) ∨
       (r.shares ≠ 0 ∧ ∃ ins n, Accum.safeSub a.value outs = some (ins, n) ∧ a'.recs = setURec a.recs ⟨id, r.shares, ins, []⟩)) := by
  unfold claimOne at h
  rw [hr] at h
  simp only [Option.bind_eq_some_iff] at h
  obtain ⟨snap1, hs1, total, htot, ⟨coins', dust⟩, htr, h⟩ := h
  simp only at h
  split at h
  · rename_i hz
    simp only [Option.some.injEq, Prod.mk.injEq] at h
    obtain ⟨e1, e2⟩ := h
    subst e1; subst e2
    exact ⟨snap1, total, dust, hs1, htot, htr, rfl, rfl, Or.inl ⟨hz, rfl⟩⟩
  · rename_i hz
    simp only [Option.map_eq_some_iff, Prod.mk.injEq] at h
    obtain ⟨⟨ins, n⟩, hsafe, e1, e2⟩ := h
    simp only at e1 e2
    subst e1; subst e2
    exact ⟨snap1, total, dust, hs1, htot, htr, rfl, rfl, Or.inr ⟨hz, ins, n, hsafe, rfl⟩⟩

/-! ## growth inside / outside, all six -/

/-- tracker `k` of tick `t` (empty when not stored). -/
def trAt (i : Inc) (t : Int) (k : Nat) : DC := ((getTr i.trackers t).bind (·[k]?)).getD []

/-- uptime growth inside `[l, u)` of accumulator `k` in denom `d`, at current tick `cur`. -/
def insU (i : Inc) (cur : Int) (k : Nat) (d : String) (l u : Int) : Int :=
  insideI cur (amt (valAt i.accs k) d) (amt (trAt i l k) d) (amt (trAt i u k) d) l u

theorem tickTr_stored {i : Inc} {cur t : Int} {v : List DC} (h : getTr i.trackers t = some v) : tickTr i cur t = v := by
  unfold tickTr; rw [h]

theorem trAt_of {i : Inc} {t : Int} {k : Nat} {tl : List DC} {v : DC} (h : getTr i.trackers t = some tl) (hk : tl[k]? = some v) :
    trAt i t k = v := by
  unfold trAt; rw [h]; simp only [Option.bind_some, hk, Option.getD_some]

theorem insideOne_sorted {cur l u : Int} {g lo up v : DC} (hg : sorted g = true) (hlo : sorted lo = true) (hup : sorted up = true)
    (h : insideOne cur l u g lo up = some v) : sorted v = true := by
  unfold insideOne at h
  split at h
  · simp only [Option.map_eq_some_iff] at h
    obtain ⟨⟨r, n⟩, hr, e⟩ := h
    simp only at e; subst e
    exact safeSub_sorted hlo hup hr
  · split at h
    · simp only [Option.bind_eq_some_iff, Option.map_eq_some_iff] at h
      obtain ⟨x, hx, ⟨r, n⟩, hr, e⟩ := h
      simp only at e; subst e
      exact safeSub_sorted (Accum.sub_sorted hg hup hx) hlo hr
    · simp only [Option.map_eq_some_iff] at h
      obtain ⟨⟨r, n⟩, hr, e⟩ := h
      simp only at e; subst e
      exact safeSub_sorted hup hlo hr

/-- with both boundary ticks stored, `insideAll` is `insideOne` per accumulator, i.e. `insU`. -/
theorem insideAll_spec {i : Inc} {cur l u : Int} {ins : List DC} {tl tu : List DC} (hlu : l < u)
    (hl : getTr i.trackers l = some tl) (hu : getTr i.trackers u = some tu)
    (h : insideAll i cur l u = some ins) :
    ins.length = i.accs.length ∧ tl.length = i.accs.length ∧ tu.length = i.accs.length ∧
    ∀ (k : Nat) (a : UAcc), i.accs[k]? = some a → ∃ v lo up, ins[k]? = some v ∧ tl[k]? = some lo ∧ tu[k]? = some up ∧
      insideOne cur l u a.value lo up = some v ∧ ∀ d, amt v d = insU i cur k d l u := by
  unfold insideAll at h
  rw [tickTr_stored hl, tickTr_stored hu] at h
  obtain ⟨l1, l2, l3⟩ := zip3With_length h
  have hlen : (accValues i).length = i.accs.length := by unfold accValues; simp
  refine ⟨by omega, by omega, by omega, fun k a ha => ?_⟩
  have hk : k < ins.length := by have := lt_of_getElem? ha; omega
  obtain ⟨v, hv⟩ := getElem?_of_lt hk
  obtain ⟨g, lo, up, hg, hlo, hup, hone⟩ := zip3With_get h k v hv
  have hg' : g = a.value := by
    unfold accValues at hg
    rw [List.getElem?_map, ha] at hg
    simp only [Option.map_some, Option.some.injEq] at hg
    exact hg.symm
  subst hg'
  refine ⟨v, lo, up, hv, hlo, hup, hone, fun d => ?_⟩
  rw [insideOne_amt hlu hone d]
  unfold insU
  rw [valAt_of ha, trAt_of hl hlo, trAt_of hu hup]

theorem outsideAll_spec {i : Inc} {cur l u : Int} {outs : List DC} {tl tu : List DC} (hlu : l < u)
    (hl : getTr i.trackers l = some tl) (hu : getTr i.trackers u = some tu)
    (h : outsideAll i cur l u = some outs) :
    outs.length = i.accs.length ∧ tl.length = i.accs.length ∧ tu.length = i.accs.length ∧
    ∀ (k : Nat) (a : UAcc), i.accs[k]? = some a → ∃ v lo up o, tl[k]? = some lo ∧ tu[k]? = some up ∧
      insideOne cur l u a.value lo up = some v ∧ outs[k]? = some o ∧ Accum.sub a.value v = some o ∧
      ∀ d, amt o d = amt a.value d - insU i cur k d l u := by
  unfold outsideAll at h
  simp only [Option.bind_eq_some_iff] at h
  obtain ⟨ins, hins, hz⟩ := h
  obtain ⟨l1, l2, l3, hget⟩ := insideAll_spec hlu hl hu hins
  obtain ⟨z1, z2⟩ := zip2With_length hz
  have hlen : (accValues i).length = i.accs.length := by unfold accValues; simp
  refine ⟨by omega, l2, l3, fun k a ha => ?_⟩
  obtain ⟨v, lo, up, hv, hlo, hup, hone, hamt⟩ := hget k a ha
  have hg : (accValues i)[k]? = some a.value := by
    unfold accValues; rw [List.getElem?_map, ha]; rfl
  obtain ⟨o, ho, hsub⟩ := zip2With_get hz k a.value v hg hv
  exact ⟨v, lo, up, o, hlo, hup, hone, ho, hsub, fun d => by rw [Accum.sub_amt hsub d, hamt d]⟩

end OsmoVerif.CLIncP
