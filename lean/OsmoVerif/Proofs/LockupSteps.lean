/- Every keeper-level step of the lockup model preserves the invariant and has a numeric effect summary. -/
import OsmoVerif.Proofs.LockupEff
namespace OsmoVerif.Lockup

theorem singleCoin_mk {l : Lock} {dn : Denom} {a : Int} (hc : l.coins = [(dn, a)]) (ha : 0 < a) (hdn : dn ≠ "") :
    SingleCoin l := ⟨dn, a, hc, ha, hdn⟩

/-- `CreateLockNoSend` on a state whose module account has just received the coins (`modBal`), the account balances
being `B`: sent by the owner (`CreateLock`) or minted (`clLock`). -/
theorem createLockNoSend_ok {t : Int} {force : Bool} {s s' : State} {B : List ((Addr × Denom) × Int)} {owner : Addr}
    {dn : Denom} {a duration : Int} {id : Nat}
    (h : Inv s) (hd : 0 < duration) (ha : 0 < a) (hdn : dn ≠ "")
    (hB : ∀ o dn', isCLDenom dn' = false →
      aget B (o, dn') = aget s.bal (o, dn') - (if owner = o ∧ dn = dn' then a else 0))
    (hBcl : ∀ o dn', isCLDenom dn' = true → aget B (o, dn') ≤ aget s.bal (o, dn'))
    (hs : createLockNoSend { s with bal := B, modBal := aadd s.modBal dn a } owner [(dn, a)] duration = some (s', id)) :
    Inv s' ∧ Eff t force s s' ∧ id = s.lastLockId + 1 ∧
      getLock s' id = some ⟨s.lastLockId + 1, owner, duration, none, [(dn, a)], ""⟩ := by
  unfold createLockNoSend at hs
  simp only [Option.bind_eq_bind, lockInternal, accIncreaseCoins, List.foldl_cons, List.foldl_nil, addLockRefs,
    accIncrease, setLock] at hs
  generalize hnl : Lock.mk (s.lastLockId + 1) owner duration none [(dn, a)] "" = nl at hs ⊢
  have hnid : nl.id = s.lastLockId + 1 := by rw [← hnl]
  cases h2 : addRefsL s.refs (indexKeys nl) (s.lastLockId + 1) with
  | none => rw [h2] at hs; cases hs
  | some r =>
    rw [h2] at hs
    simp only [Option.map_some, Option.bind_some, Option.some.injEq, Prod.mk.injEq] at hs
    obtain ⟨rfl, rfl⟩ := hs
    have hfresh : ∀ x ∈ s.locks, x.id ≠ nl.id := by
      intro x hx; have := h.idle x hx; omega
    have hget : getLockL s.locks nl.id = none := by
      cases hg : getLockL s.locks nl.id with
      | none => rfl
      | some x => have := getLockL_some hg; exact absurd this.2 (hfresh x this.1)
    have hp := put_setLockL nl h.nodup
    rw [hget] at hp
    have hcoins : nl.coins = [(dn, a)] := by rw [← hnl]
    have hown : nl.owner = owner := by rw [← hnl]
    have hdur : nl.duration = duration := by rw [← hnl]
    have hend : nl.endTime = none := by rw [← hnl]
    have heff : Eff t force s
        { bal := B, modBal := aadd s.modBal dn a, locks := setLockL s.locks nl,
          lastLockId := s.lastLockId + 1, refs := r, accum := aadd s.accum (dn, duration) a, forceAllowed := s.forceAllowed } := by
      refine ⟨fun f => f nl, ⟨?_, ?_, ?_, ?_, ?_, ?_, ?_, ?_, frzD_put_fresh h.idle h.nodup hp (by rw [hnid]; omega) (Or.inl hend)⟩⟩
      · intro f; have := hp.sum f; simp only at this ⊢; omega
      · intro dn'; simp only [aget_aadd, amt_single dn dn' a nl hcoins]
      · intro dn' _ d; simp only [accSumGE_aadd, fDur, amt_single dn dn' a nl hcoins, hdur]
        split <;> split <;> simp_all
      · intro o dn' hcl; simp only [hB o dn' hcl, fOwner, amt_single dn dn' a nl hcoins, hown]
        split <;> split <;> simp_all
      · intro o dn' hcl; exact hBcl o dn' hcl
      · intro _ o dn'; simp only [fUnm, amt_single dn dn' a nl hcoins]
        split
        · split <;> omega
        · omega
      · simp only; omega
      · rfl
    refine ⟨invG_of_eff h heff hp.nodup ?_ ?_ ?_ ?_ ?_, heff, rfl, ?_⟩
    · intro l hl
      rcases (hp.mem l).mp hl with e | ⟨e, _⟩
      · subst e; simp only; omega
      · have := h.idle l e; simp only; omega
    · intro l hl
      rcases (hp.mem l).mp hl with e | ⟨e, _⟩
      · subst e; exact singleCoin_mk hcoins ha hdn
      · exact h.single l e
    · intro l hl
      rcases (hp.mem l).mp hl with e | ⟨e, _⟩
      · subst e; omega
      · exact h.durpos l e
    · have h2' : addRefsL (delRefsL s.refs [] nl.id) (indexKeys nl) nl.id = some r := by
        rw [delRefsL_nil, hnid]; exact h2
      exact nodup_put_reindex h.refsNodup h2'
    · have h2' : addRefsL (delRefsL s.refs [] nl.id) (indexKeys nl) nl.id = some r := by
        rw [delRefsL_nil, hnid]; exact h2
      exact refsOK_put_reindex h.refsOK hp (Or.inl rfl)
        (fun k hk => absurd hk (refsOK_none_of_fresh h.refsOK hfresh k)) h2'
    · have := getLockL_of_mem hp.nodup ((hp.mem nl).mpr (Or.inl rfl))
      rw [hnid] at this
      exact this

theorem createLock_ok {t : Int} {force : Bool} {s s' : State} {owner : Addr} {dn : Denom} {a duration : Int} {id : Nat}
    (h : Inv s) (hd : 0 < duration) (hs : createLock s owner [(dn, a)] duration = some (s', id)) :
    Inv s' ∧ Eff t force s s' := by
  unfold createLock at hs
  simp only [sendToModule, List.foldlM_cons, List.foldlM_nil, Option.bind_eq_bind, Option.pure_def] at hs
  cases h1 : sendCoinToModule s owner dn a with
  | none => rw [h1] at hs; cases hs
  | some s1 =>
    rw [h1] at hs
    obtain ⟨hdn, ha, rfl⟩ := sendCoinToModule_some h1
    simp only [Option.bind_some] at hs
    obtain ⟨i, e, _⟩ := createLockNoSend_ok (t := t) (force := force) h hd ha hdn
      (by intro o dn' _; simp only [aget_aadd, Prod.mk.injEq]; split <;> omega)
      (by intro o dn' _; simp only [aget_aadd]; split <;> omega) hs
    exact ⟨i, e⟩

/-- structural part of the invariant after a put. -/
theorem put_struct {o : Option Nat} {s : State} {L' : List Lock} {old : Option Lock} {new : Lock} {last' : Nat}
    (h : InvG o s) (hp : Put s.locks L' old new) (hs : SingleCoin new) (hd : 0 < new.duration)
    (hid : new.id ≤ last') (hlast : s.lastLockId ≤ last') :
    (∀ x ∈ L', x.id ≤ last') ∧ (∀ x ∈ L', SingleCoin x) ∧ (∀ x ∈ L', 0 < x.duration) := by
  refine ⟨?_, ?_, ?_⟩ <;> intro x hx <;> rcases (hp.mem x).mp hx with e | ⟨e, _⟩
  · subst e; exact hid
  · exact Nat.le_trans (h.idle x e) hlast
  · subst e; exact hs
  · exact h.single x e
  · subst e; exact hd
  · exact h.durpos x e

theorem getLock_mem {s : State} {id : Nat} {l : Lock} (h : getLock s id = some l) : l ∈ s.locks ∧ l.id = id :=
  getLockL_some h

theorem addCoin_single {dn : Denom} {a0 a : Int} (h0 : 0 < a0) (ha : 0 < a) :
    addCoin [(dn, a0)] dn a = [(dn, a0 + a)] := by
  simp only [addCoin, if_true]
  rw [if_neg (by omega)]

theorem addTokens_ok {t : Int} {force : Bool} {s s' : State} {owner : Addr} {dn : Denom} {a a0 : Int} {id : Nat} {l : Lock}
    (h : Inv s) (hg : getLock s id = some l) (hc : l.coins = [(dn, a0)])
    (hs : addTokensToLockByID s id owner dn a = some s') : Inv s' ∧ Eff t force s s' := by
  obtain ⟨hl, hlid⟩ := getLock_mem hg
  unfold addTokensToLockByID at hs
  simp only [hg, Option.bind_eq_bind, Option.bind_some] at hs
  split at hs
  · cases hs
  · rename_i hown
    have hown : l.owner = owner := by simpa using hown
    cases h1 : sendCoinToModule s owner dn a with
    | none => rw [h1] at hs; cases hs
    | some s1 =>
      rw [h1] at hs
      obtain ⟨hdn, ha, rfl⟩ := sendCoinToModule_some h1
      obtain ⟨dn1, a1, hc1, ha0, _⟩ := h.single l hl
      rw [hc] at hc1; injection hc1 with hc1 _; injection hc1 with e1 e2; subst e1; subst e2
      simp only [Option.bind_some, lockInternal, accIncreaseCoins, List.foldl_cons, List.foldl_nil,
        accIncrease, setLock, hc, addCoin_single ha0 ha, Option.some.injEq] at hs
      generalize hnl : Lock.mk l.id l.owner l.duration l.endTime [(dn, a0 + a)] l.rewardReceiver = nl at hs
      subst hs
      have hp := put_setLockL nl h.nodup
      have hnid : nl.id = l.id := by rw [← hnl]
      rw [hnid, getLockL_of_mem h.nodup hl] at hp
      have hcoins : nl.coins = [(dn, a0 + a)] := by rw [← hnl]
      have hown' : nl.owner = l.owner := by rw [← hnl]
      have hdur : nl.duration = l.duration := by rw [← hnl]
      have hend : nl.endTime = l.endTime := by rw [← hnl]
      have heff : Eff t force s
          { bal := aadd s.bal (owner, dn) (-a), modBal := aadd s.modBal dn a, locks := setLockL s.locks nl,
            lastLockId := s.lastLockId, refs := s.refs, accum := aadd (aadd s.accum (dn, l.duration) a) ("", 0) a,
            forceAllowed := s.forceAllowed } := by
        refine ⟨fun f => f nl - f l, ⟨?_, ?_, ?_, ?_, ?_, ?_, ?_, ?_, frzD_put_same h.idle h.nodup hp hl hnid hown'
          (fun e he => ⟨by rw [hend]; exact he, hdur⟩) (fun he => Or.inl (by rw [hend]; exact he))⟩⟩
        · intro f; have := hp.sum f; simp only at this ⊢; omega
        · intro dn'; simp only [aget_aadd, amt_single dn dn' _ nl hcoins, amt_single dn dn' _ l hc]
          split <;> omega
        · intro dn' hdn' d
          simp only [accSumGE_aadd, fDur, amt_single dn dn' _ nl hcoins, amt_single dn dn' _ l hc, hdur]
          have : ¬ ("" = dn' ∧ d ≤ 0) := fun e => hdn' e.1.symm
          rw [if_neg this]
          split <;> split <;> simp_all <;> omega
        · intro o dn' _
          simp only [aget_aadd, fOwner, amt_single dn dn' _ nl hcoins, amt_single dn dn' _ l hc, hown', Prod.mk.injEq, ← hown]
          split <;> split <;> simp_all <;> omega
        · intro o dn' _; simp only [aget_aadd]; split <;> omega
        · intro _ o dn'
          simp only [fUnm, matured, amt_single dn dn' _ nl hcoins, amt_single dn dn' _ l hc, hown', hend]
          repeat' split
          all_goals omega
        · exact Nat.le_refl _
        · rfl
      obtain ⟨s1, s2, s3⟩ := put_struct (last' := s.lastLockId) h hp (singleCoin_mk hcoins (by omega) hdn)
        (by rw [hdur]; exact h.durpos l hl) (by rw [hnid]; exact h.idle l hl) (Nat.le_refl _)
      refine ⟨invG_of_eff h heff hp.nodup s1 s2 s3 h.refsNodup ?_, heff⟩
      exact refsOK_put_same h.refsOK h.nodup hp hl hnid.symm
        (indexKeys_congr hown' hdur hend (by rw [hcoins, hc]; rfl))

theorem sub_single {dn : Denom} {a0 b : Int} (_hb : 0 < b) (hlt : b < a0) :
    Coins.sub [(dn, a0)] [(dn, b)] = some [(dn, a0 - b)] := by
  simp only [Coins.sub, List.foldl_cons, List.foldl_nil, addCoin, if_true]
  have h1 : ¬ (a0 + -b = 0) := by omega
  simp only [if_neg h1, List.any_cons, List.any_nil, Bool.or_false, decide_eq_true_eq]
  rw [if_neg (by omega)]
  congr 2

theorem getLock_of_put {L L' : List Lock} {old : Option Lock} {new : Lock} (hp : Put L L' old new) :
    getLockL L' new.id = some new :=
  getLockL_of_mem hp.nodup ((hp.mem new).mpr (Or.inl rfl))

theorem splitLock_ok {t : Int} {force fsplit : Bool} {s s1 : State} {dn : Denom} {a0 b : Int} {l nl : Lock}
    (h : Inv s) (hl : l ∈ s.locks) (hc : l.coins = [(dn, a0)]) (hb : 0 < b) (hlt : b < a0) (hfs : fsplit = true → force = true)
    (hs : splitLock s l [(dn, b)] fsplit = some (s1, nl)) :
    InvG (some nl.id) s1 ∧ Eff t force s s1 ∧ getLock s1 nl.id = some nl ∧ nl.endTime = l.endTime ∧
      nl.duration = l.duration ∧ nl.owner = l.owner ∧ nl.coins = [(dn, b)] ∧ nl.id ≠ l.id := by
  unfold splitLock at hs
  split at hs
  · cases hs
  · rename_i hcond
    have hcond : l.endTime = none ∨ force = true := by
      cases hfb : fsplit
      · left
        simp only [hfb, Bool.not_false, Bool.true_and, Lock.isUnlocking, Bool.not_eq_true, Option.isSome_eq_false_iff,
          Option.isNone_iff_eq_none] at hcond
        exact hcond
      · exact Or.inr (hfs hfb)
    simp only [hc, sub_single hb hlt, setLock, Option.some.injEq, Prod.mk.injEq] at hs
    obtain ⟨rfl, rfl⟩ := hs
    obtain ⟨dn1, a1, hc1, ha0, hdn⟩ := h.single l hl
    rw [hc] at hc1; injection hc1 with hc1 _; injection hc1 with e1 e2; subst e1; subst e2
    generalize hlr : Lock.mk l.id l.owner l.duration l.endTime [(dn, a0 - b)] l.rewardReceiver = lr
    generalize hnl : Lock.mk (s.lastLockId + 1) l.owner l.duration l.endTime [(dn, b)]
      (if l.owner = l.rewardReceiver then "" else l.rewardReceiver) = nl
    have hp1 := put_setLockL lr h.nodup
    have hlrid : lr.id = l.id := by rw [← hlr]
    rw [hlrid, getLockL_of_mem h.nodup hl] at hp1
    have hfresh : ∀ x ∈ setLockL s.locks lr, x.id ≠ nl.id := by
      intro x hx
      have hnid : nl.id = s.lastLockId + 1 := by rw [← hnl]
      rcases (hp1.mem x).mp hx with e | ⟨e, _⟩
      · subst e; have := h.idle l hl; omega
      · have := h.idle x e; omega
    have hget : getLockL (setLockL s.locks lr) nl.id = none := by
      cases hg : getLockL (setLockL s.locks lr) nl.id with
      | none => rfl
      | some x => have := getLockL_some hg; exact absurd this.2 (hfresh x this.1)
    have hp2 := put_setLockL nl hp1.nodup
    rw [hget] at hp2
    have hlrc : lr.coins = [(dn, a0 - b)] := by rw [← hlr]
    have hnlc : nl.coins = [(dn, b)] := by rw [← hnl]
    have e1 : lr.owner = l.owner := by rw [← hlr]
    have e2 : lr.duration = l.duration := by rw [← hlr]
    have e3 : lr.endTime = l.endTime := by rw [← hlr]
    have f1 : nl.owner = l.owner := by rw [← hnl]
    have f2 : nl.duration = l.duration := by rw [← hnl]
    have f3 : nl.endTime = l.endTime := by rw [← hnl]
    have f4 : nl.id = s.lastLockId + 1 := by rw [← hnl]
    have heff : Eff t force s
        { bal := s.bal, modBal := s.modBal, locks := setLockL (setLockL s.locks lr) nl, lastLockId := s.lastLockId + 1,
          refs := s.refs, accum := s.accum, forceAllowed := s.forceAllowed } := by
      have hidle1 : ∀ x ∈ setLockL s.locks lr, x.id ≤ s.lastLockId := by
        intro x hx
        rcases (hp1.mem x).mp hx with e | ⟨e, _⟩
        · subst e; rw [hlrid]; exact h.idle l hl
        · exact h.idle x e
      have hfz : FrzD t force s.locks s.lastLockId (setLockL (setLockL s.locks lr) nl) :=
        FrzD.trans (Nat.le_refl _)
          (frzD_put_same h.idle h.nodup hp1 hl hlrid e1 (fun e he => ⟨by rw [e3]; exact he, e2⟩)
            (fun he => Or.inl (by rw [e3]; exact he)))
          (frzD_put_fresh hidle1 hp1.nodup hp2 (by rw [f4]; omega)
            (by rcases hcond with hc0 | hc0
                · exact Or.inl (by rw [f3]; exact hc0)
                · exact Or.inr (Or.inr hc0)))
      refine ⟨fun f => f lr - f l + f nl, ⟨?_, ?_, ?_, ?_, ?_, ?_, ?_, ?_, hfz⟩⟩
      · intro f; have a := hp1.sum f; have b := hp2.sum f; simp only at a b ⊢; omega
      · intro dn'; simp only [amt_single dn dn' _ lr hlrc, amt_single dn dn' _ nl hnlc, amt_single dn dn' _ l hc]
        split <;> omega
      · intro dn' _ d
        simp only [fDur, amt_single dn dn' _ lr hlrc, amt_single dn dn' _ nl hnlc, amt_single dn dn' _ l hc, e2, f2]
        repeat' split
        all_goals omega
      · intro o dn' _
        simp only [fOwner, amt_single dn dn' _ lr hlrc, amt_single dn dn' _ nl hnlc, amt_single dn dn' _ l hc, e1, f1]
        repeat' split
        all_goals omega
      · intro o dn' _; exact Int.le_refl _
      · intro _ o dn'
        simp only [fUnm, matured, amt_single dn dn' _ lr hlrc, amt_single dn dn' _ nl hnlc, amt_single dn dn' _ l hc, e1, f1, e3, f3]
        repeat' split
        all_goals omega
      · simp only; omega
      · rfl
    have hne : nl.id ≠ l.id := by have := h.idle l hl; omega
    refine ⟨?_, heff, ?_, f3, f2, f1, hnlc, hne⟩
    · have hr1 : RefsOK none s.refs (setLockL s.locks lr) :=
        refsOK_put_same h.refsOK h.nodup hp1 hl hlrid.symm (indexKeys_congr e1 e2 e3 (by rw [hlrc, hc]; rfl))
      have hr2 := refsOK_put_orphan hr1 hp2 hfresh
      refine invG_of_eff h heff hp2.nodup ?_ ?_ ?_ h.refsNodup hr2
      all_goals
        intro x hx
        rcases (hp2.mem x).mp hx with e | ⟨e, _⟩
      · subst e; simp only; omega
      · rcases (hp1.mem x).mp e with e' | ⟨e', _⟩
        · subst e'; have := h.idle l hl; simp only; omega
        · have := h.idle x e'; simp only; omega
      · subst e; exact singleCoin_mk hnlc hb hdn
      · rcases (hp1.mem x).mp e with e' | ⟨e', _⟩
        · subst e'; exact singleCoin_mk hlrc (by omega) hdn
        · exact h.single x e'
      · subst e; rw [f2]; exact h.durpos l hl
      · rcases (hp1.mem x).mp e with e' | ⟨e', _⟩
        · subst e'; rw [e2]; exact h.durpos l hl
        · exact h.durpos x e'
    · exact getLock_of_put hp2

theorem beginUnlockCore_ok {t : Int} {force : Bool} {o : Option Nat} {s s' : State} {l1 : Lock} {rid : Nat}
    (h : InvG o s) (ho : o = none ∨ o = some l1.id) (hl : l1 ∈ s.locks) (hend : l1.endTime = none)
    (hs : beginUnlockCore t s l1 = some (s', rid)) :
    Inv s' ∧ Eff t force s s' ∧ rid = l1.id ∧ ∃ l2, getLock s' l1.id = some l2 ∧ l2.endTime = some (t + l1.duration) ∧
      l2.duration = l1.duration ∧ l2.owner = l1.owner ∧ l2.coins = l1.coins := by
  unfold beginUnlockCore at hs
  simp only [deleteLockRefs, setLock, addLockRefs] at hs
  generalize hl2 : Lock.mk l1.id l1.owner l1.duration (some (t + l1.duration)) l1.coins l1.rewardReceiver = l2 at hs
  have g1 : l2.id = l1.id := by rw [← hl2]
  have g2 : l2.owner = l1.owner := by rw [← hl2]
  have g3 : l2.duration = l1.duration := by rw [← hl2]
  have g4 : l2.endTime = some (t + l1.duration) := by rw [← hl2]
  have g5 : l2.coins = l1.coins := by rw [← hl2]
  cases h2 : addRefsL (delRefsL s.refs (List.map (RefKey.mk false) (lockRefKeys l1)) l1.id) (indexKeys l2) l1.id with
  | none => rw [h2] at hs; cases hs
  | some r =>
    rw [h2] at hs
    simp only [Option.map_some, Option.some.injEq, Prod.mk.injEq] at hs
    obtain ⟨rfl, rfl⟩ := hs
    have hp := put_setLockL l2 h.nodup
    rw [g1, getLockL_of_mem h.nodup hl] at hp
    obtain ⟨dn, a0, hc, ha0, hdn⟩ := h.single l1 hl
    have hc2 : l2.coins = [(dn, a0)] := by rw [g5, hc]
    have hdp := h.durpos l1 hl
    have heff : Eff t force s
        { bal := s.bal, modBal := s.modBal, locks := setLockL s.locks l2, lastLockId := s.lastLockId, refs := r,
          accum := s.accum, forceAllowed := s.forceAllowed } := by
      refine ⟨fun f => f l2 - f l1, ⟨?_, ?_, ?_, ?_, ?_, ?_, ?_, ?_, frzD_put_same h.idle h.nodup hp hl g1 g2
        (fun e he => by rw [hend] at he; cases he) (fun _ => Or.inr ⟨by rw [g4, g3], by rw [g3]; exact hdp⟩)⟩⟩
      · intro f; have a := hp.sum f; simp only at a ⊢; omega
      · intro dn'; simp only [amt_single dn dn' _ l2 hc2, amt_single dn dn' _ l1 hc]; omega
      · intro dn' _ d; simp only [fDur, amt_single dn dn' _ l2 hc2, amt_single dn dn' _ l1 hc, g3]; omega
      · intro o dn' _; simp only [fOwner, amt_single dn dn' _ l2 hc2, amt_single dn dn' _ l1 hc, g2]; omega
      · intro o dn' _; exact Int.le_refl _
      · intro _ o dn'
        have hm : (decide (t + l1.duration ≤ t)) = false := by simp; omega
        simp only [fUnm, matured, amt_single dn dn' _ l2 hc2, amt_single dn dn' _ l1 hc, g2, g4, hend, hm]; omega
      · exact Nat.le_refl _
      · rfl
    obtain ⟨s1, s2, s3⟩ := put_struct (last' := s.lastLockId) h hp (singleCoin_mk hc2 ha0 hdn)
        (by rw [g3]; exact hdp) (by rw [g1]; exact h.idle l1 hl) (Nat.le_refl _)
    have hks : ∀ k, (k, l2.id) ∈ s.refs → k ∈ List.map (RefKey.mk false) (lockRefKeys l1) := by
      intro k hk
      rw [g1] at hk
      have := refsOK_covered h.refsOK h.nodup hl hk
      simpa [Lock.isUnlocking, hend] using this
    have h2' : addRefsL (delRefsL s.refs (List.map (RefKey.mk false) (lockRefKeys l1)) l2.id) (indexKeys l2) l2.id = some r := by
      rw [g1]; exact h2
    refine ⟨invG_of_eff h heff hp.nodup s1 s2 s3 (nodup_put_reindex h.refsNodup h2') ?_, heff, rfl, l2, ?_, g4, g3, g2, g5⟩
    · exact refsOK_put_reindex h.refsOK hp (by rw [g1]; exact ho) hks h2'
    · have := getLock_of_put hp; rw [g1] at this; exact this

theorem unlockInternal_ok {t : Int} {force : Bool} {o : Option Nat} {s s' : State} {l : Lock}
    (h : InvG o s) (ho : o = none ∨ o = some l.id) (hl : l ∈ s.locks) (hunl : l.isUnlocking = true)
    (hm : force = false → matured t l = true) (hs : unlockInternal s l = some s') :
    Inv s' ∧ Eff t force s s' ∧ (∀ x, x ∈ s'.locks ↔ (x ∈ s.locks ∧ x.id ≠ l.id)) := by
  obtain ⟨dn, a0, hc, ha0, hdn⟩ := h.single l hl
  have hd := del_deleteLockL h.nodup hl
  -- the two ways the coin leaves the module account: paid out to the owner, or (CL shares) burned
  have key : ∀ B : List ((Addr × Denom) × Int),
      (∀ o dn', isCLDenom dn' = false → aget B (o, dn') = aget s.bal (o, dn') + (if l.owner = o ∧ dn = dn' then a0 else 0)) →
      (∀ o dn', isCLDenom dn' = true → aget B (o, dn') ≤ aget s.bal (o, dn')) →
      s' = { bal := B, modBal := aadd s.modBal dn (-a0), locks := deleteLockL s.locks l.id,
             lastLockId := s.lastLockId, refs := delRefsL s.refs (List.map (RefKey.mk true) (lockRefKeys l)) l.id,
             accum := aadd s.accum (dn, l.duration) (-a0), forceAllowed := s.forceAllowed } →
      Inv s' ∧ Eff t force s s' ∧ (∀ x, x ∈ s'.locks ↔ (x ∈ s.locks ∧ x.id ≠ l.id)) := by
    intro B hB hBcl hs'
    subst hs'
    have heff : Eff t force s
        { bal := B, modBal := aadd s.modBal dn (-a0), locks := deleteLockL s.locks l.id,
          lastLockId := s.lastLockId, refs := delRefsL s.refs (List.map (RefKey.mk true) (lockRefKeys l)) l.id,
          accum := aadd s.accum (dn, l.duration) (-a0), forceAllowed := s.forceAllowed } := by
      refine ⟨fun f => - f l, ⟨?_, ?_, ?_, ?_, ?_, ?_, ?_, ?_, frzD_del h.idle h.nodup hd hl hm⟩⟩
      · intro f; have a := hd.sum f; simp only at a ⊢; omega
      · intro dn'; simp only [aget_aadd, amt_single dn dn' _ l hc]; split <;> omega
      · intro dn' _ d; simp only [accSumGE_aadd, fDur, amt_single dn dn' _ l hc]
        repeat' split
        all_goals simp_all
      · intro o dn' hcl; simp only [hB o dn' hcl, fOwner, amt_single dn dn' _ l hc]
        repeat' split
        all_goals simp_all
      · intro o dn' hcl; exact hBcl o dn' hcl
      · intro hf o dn'
        simp only [fUnm, hm hf]
        simp
      · exact Nat.le_refl _
      · rfl
    refine ⟨invG_of_eff h heff hd.nodup ?_ ?_ ?_ (nodup_delRefsL _ _ h.refsNodup) ?_, heff, hd.mem⟩
    · intro x hx; exact h.idle x ((hd.mem x).mp hx).1
    · intro x hx; exact h.single x ((hd.mem x).mp hx).1
    · intro x hx; exact h.durpos x ((hd.mem x).mp hx).1
    · refine refsOK_del h.refsOK hd ho ?_
      intro k hk
      have := refsOK_covered h.refsOK h.nodup hl hk
      rw [hunl] at this; exact this
  unfold unlockInternal at hs
  by_cases hcl : isCLDenom dn = true
  · -- CL shares: burned
    simp only [hc, burnCLShares, List.foldlM_cons, List.foldlM_nil, hcl, if_true, Option.bind_eq_bind, Option.pure_def,
      List.filter_cons, Bool.not_true, Bool.false_eq_true, if_false, List.filter_nil, List.isEmpty_nil] at hs
    cases h1 : burnCoinFromModule s dn a0 with
    | none => rw [h1] at hs; cases hs
    | some s1 =>
      rw [h1] at hs
      have := burnCoinFromModule_some h1
      subst this
      simp only [Option.bind_some, deleteLock, deleteLockRefs, accDecreaseCoins, accIncrease, List.foldl_cons, List.foldl_nil,
        Option.some.injEq] at hs
      refine key s.bal ?_ (fun o dn' _ => Int.le_refl _) hs.symm
      intro o dn' hcl'
      have : dn ≠ dn' := by intro e; rw [e] at hcl; rw [hcl] at hcl'; cases hcl'
      rw [if_neg (fun e => this e.2)]; omega
  · -- anything else: paid out to the owner
    have hcl : isCLDenom dn = false := by simpa using hcl
    simp only [hc, burnCLShares, List.foldlM_cons, List.foldlM_nil, hcl, Bool.false_eq_true, if_false, Option.bind_eq_bind,
      Option.pure_def, Option.bind_some, List.filter_cons, Bool.not_false, if_true, List.filter_nil, List.isEmpty_cons,
      sendFromModule] at hs
    cases h1 : sendCoinFromModule s l.owner dn a0 with
    | none => rw [h1] at hs; cases hs
    | some s1 =>
      rw [h1] at hs
      have := sendCoinFromModule_some h1
      subst this
      simp only [Option.bind_some, deleteLock, deleteLockRefs, accDecreaseCoins, accIncrease, List.foldl_cons, List.foldl_nil,
        Option.some.injEq] at hs
      refine key (aadd s.bal (l.owner, dn) a0) ?_ ?_ hs.symm
      · intro o dn' _; simp only [aget_aadd, Prod.mk.injEq]
      · intro o dn' hcl'
        have : dn ≠ dn' := by intro e; rw [e] at hcl; rw [hcl] at hcl'; cases hcl'
        simp only [aget_aadd, Prod.mk.injEq]
        rw [if_neg (fun e => this e.2)]; omega

theorem extend_ok {t : Int} {force : Bool} {s s' : State} {owner : Addr} {id : Nat} {nd : Int}
    (h : Inv s) (hnd : 0 < nd) (hs : extendLockup s id owner nd = some s') : Inv s' ∧ Eff t force s s' := by
  unfold extendLockup at hs
  cases hg : getLock s id with
  | none => simp [hg] at hs
  | some l =>
    obtain ⟨hl, hlid⟩ := getLock_mem hg
    obtain ⟨dn, a0, hc, ha0, hdn⟩ := h.single l hl
    simp only [hg, Option.bind_eq_bind, Option.bind_some] at hs
    split at hs
    · cases hs
    · split at hs
      · cases hs
      · rename_i hunl
        have hne : nd ≠ 0 := by omega
        simp only [hne, ne_eq, not_false_eq_true, if_true] at hs
        split at hs
        · simp at hs
        · rename_i hlt
          simp only [hc, List.foldl_cons, List.foldl_nil, accIncrease, deleteLockRefs, Option.bind_some, addLockRefs, setLock] at hs
          generalize hl2 : Lock.mk l.id l.owner nd l.endTime [(dn, a0)] l.rewardReceiver = l2 at hs
          have g1 : l2.id = l.id := by rw [← hl2]
          have g2 : l2.owner = l.owner := by rw [← hl2]
          have g3 : l2.duration = nd := by rw [← hl2]
          have g4 : l2.endTime = l.endTime := by rw [← hl2]
          have g5 : l2.coins = [(dn, a0)] := by rw [← hl2]
          cases h2 : addRefsL (delRefsL s.refs (List.map (RefKey.mk l.isUnlocking) (lockRefKeys l)) l.id) (indexKeys l2) l.id with
          | none => rw [h2] at hs; cases hs
          | some r =>
            rw [h2] at hs
            simp only [Option.map_some, Option.bind_some, Option.some.injEq] at hs
            subst hs
            have hp := put_setLockL l2 h.nodup
            rw [g1, getLockL_of_mem h.nodup hl] at hp
            have heff : Eff t force s
                { bal := s.bal, modBal := s.modBal, locks := setLockL s.locks l2, lastLockId := s.lastLockId, refs := r,
                  accum := aadd (aadd s.accum (dn, l.duration) (-a0)) (dn, nd) a0, forceAllowed := s.forceAllowed } := by
              have hend0 : l.endTime = none := by
                simp only [Lock.isUnlocking, Bool.not_eq_true, Option.isSome_eq_false_iff, Option.isNone_iff_eq_none] at hunl
                exact hunl
              refine ⟨fun f => f l2 - f l, ⟨?_, ?_, ?_, ?_, ?_, ?_, ?_, ?_, frzD_put_same h.idle h.nodup hp hl g1 g2
                (fun e he => by rw [hend0] at he; cases he) (fun he => Or.inl (by rw [g4]; exact he))⟩⟩
              · intro f; have a := hp.sum f; simp only at a ⊢; omega
              · intro dn'; simp only [amt_single dn dn' _ l2 g5, amt_single dn dn' _ l hc]; omega
              · intro dn' _ d
                simp only [accSumGE_aadd, fDur, amt_single dn dn' _ l2 g5, amt_single dn dn' _ l hc, g3]
                repeat' split
                all_goals simp_all
                all_goals omega
              · intro o dn' _; simp only [fOwner, amt_single dn dn' _ l2 g5, amt_single dn dn' _ l hc, g2]; omega
              · intro o dn' _; exact Int.le_refl _
              · intro _ o dn'
                simp only [fUnm, matured, amt_single dn dn' _ l2 g5, amt_single dn dn' _ l hc, g2, g4]; omega
              · exact Nat.le_refl _
              · rfl
            obtain ⟨s1, s2, s3⟩ := put_struct (last' := s.lastLockId) h hp (singleCoin_mk g5 ha0 hdn)
                (by rw [g3]; exact hnd) (by rw [g1]; exact h.idle l hl) (Nat.le_refl _)
            have hks : ∀ k, (k, l2.id) ∈ s.refs → k ∈ List.map (RefKey.mk l.isUnlocking) (lockRefKeys l) := by
              intro k hk
              rw [g1] at hk
              exact refsOK_covered h.refsOK h.nodup hl hk
            have h2' : addRefsL (delRefsL s.refs (List.map (RefKey.mk l.isUnlocking) (lockRefKeys l)) l2.id) (indexKeys l2) l2.id = some r := by
              rw [g1]; exact h2
            exact ⟨invG_of_eff h heff hp.nodup s1 s2 s3 (nodup_put_reindex h.refsNodup h2')
              (refsOK_put_reindex h.refsOK hp (Or.inl rfl) hks h2'), heff⟩

theorem setRewardReceiver_ok {t : Int} {force : Bool} {s s' : State} {owner recv : Addr} {id : Nat}
    (h : Inv s) (hs : setRewardReceiver s id owner recv = some s') : Inv s' ∧ Eff t force s s' := by
  unfold setRewardReceiver at hs
  cases hg : getLock s id with
  | none => simp [hg] at hs
  | some l =>
    obtain ⟨hl, hlid⟩ := getLock_mem hg
    obtain ⟨dn, a0, hc, ha0, hdn⟩ := h.single l hl
    simp only [hg, Option.bind_eq_bind, Option.bind_some] at hs
    generalize (if l.owner = recv then "" else recv) = recv' at hs
    split at hs
    · cases hs
    · split at hs
      · cases hs
      · simp only [setLock, Option.some.injEq] at hs
        generalize hl2 : Lock.mk l.id l.owner l.duration l.endTime l.coins recv' = l2 at hs
        have g1 : l2.id = l.id := by rw [← hl2]
        have g2 : l2.owner = l.owner := by rw [← hl2]
        have g3 : l2.duration = l.duration := by rw [← hl2]
        have g4 : l2.endTime = l.endTime := by rw [← hl2]
        have g5 : l2.coins = [(dn, a0)] := by rw [← hl2]; exact hc
        subst hs
        have hp := put_setLockL l2 h.nodup
        rw [g1, getLockL_of_mem h.nodup hl] at hp
        have heff : Eff t force s
            { bal := s.bal, modBal := s.modBal, locks := setLockL s.locks l2, lastLockId := s.lastLockId, refs := s.refs,
              accum := s.accum, forceAllowed := s.forceAllowed } := by
          refine ⟨fun f => f l2 - f l, ⟨?_, ?_, ?_, ?_, ?_, ?_, ?_, ?_, frzD_put_same h.idle h.nodup hp hl g1 g2
            (fun e he => ⟨by rw [g4]; exact he, g3⟩) (fun he => Or.inl (by rw [g4]; exact he))⟩⟩
          · intro f; have a := hp.sum f; simp only at a ⊢; omega
          · intro dn'; simp only [amt_single dn dn' _ l2 g5, amt_single dn dn' _ l hc]; omega
          · intro dn' _ d; simp only [fDur, amt_single dn dn' _ l2 g5, amt_single dn dn' _ l hc, g3]; omega
          · intro o dn' _; simp only [fOwner, amt_single dn dn' _ l2 g5, amt_single dn dn' _ l hc, g2]; omega
          · intro o dn' _; exact Int.le_refl _
          · intro _ o dn'
            simp only [fUnm, matured, amt_single dn dn' _ l2 g5, amt_single dn dn' _ l hc, g2, g4]; omega
          · exact Nat.le_refl _
          · rfl
        obtain ⟨s1, s2, s3⟩ := put_struct (last' := s.lastLockId) h hp (singleCoin_mk g5 ha0 hdn)
            (by rw [g3]; exact h.durpos l hl) (by rw [g1]; exact h.idle l hl) (Nat.le_refl _)
        exact ⟨invG_of_eff h heff hp.nodup s1 s2 s3 h.refsNodup
          (refsOK_put_same h.refsOK h.nodup hp hl g1.symm (indexKeys_congr g2 g3 g4 (by rw [g5, hc]))), heff⟩
end OsmoVerif.Lockup
