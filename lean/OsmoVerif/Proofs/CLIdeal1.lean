/-
C03, same-amount comparison, part 1: the model's swap loop against the ideal curve walk of Spec/CLCurve.lean.
* `specAhead`, `Kof`: the model's tick iterator and liquidity in the units of the spec;
* `exactIn_eq_capIn`, `exactOut_eq_capOut`: the exact per-step amounts of Proofs/CLRoundQ.lean are the bucket capacities
  of the spec between the step's start and end price;
* `WF_of_LA`: on a state satisfying the C07 invariants the ideal walk is well-formed (non-negative liquidity in every
  bucket ahead, positive tick prices ordered in swap direction);
* `swapLoop_walk`: the run of the loop is a walk along the ideal curve: the sum of the steps' exact amounts out IS the ideal
  amount out for the sum of their exact amounts in (`WalkEq`).
-/
import OsmoVerif.Proofs.CLLimit4
import OsmoVerif.Spec.CLCurve

namespace OsmoVerif.CLIdeal
open OsmoVerif.CLPool OsmoVerif.CLBook OsmoVerif.CLSolv OsmoVerif.CL OsmoVerif.Num OsmoVerif.Tick OsmoVerif.Gen
open OsmoVerif.Spec OsmoVerif.Props OsmoVerif.CLLimit OsmoVerif.Spec.CLCurve

/-- raw liquidity in the units of the spec. -/
def Kof (liq : Int) : ℚ := (liq : ℚ) * 10 ^ 36

/-- the tick iterator in the units of the spec: (sqrt price of the tick, net liquidity·10^36). -/
def specAhead (ahead : Ticks) : List (ℚ × ℚ) := ahead.map fun t => ((sqrtAt t.1 : ℚ), (t.2 : ℚ) * 10 ^ 36)

theorem specAhead_cons (nt net : Int) (rest : Ticks) :
    specAhead ((nt, net) :: rest) = ((sqrtAt nt : ℚ), (net : ℚ) * 10 ^ 36) :: specAhead rest := rfl

/-! ## the exact step amounts are the spec's capacities -/

theorem exactIn_eq_capIn {zfo : Bool} {liq sp next : Int} (hsp : 0 < sp) (hn : 0 < next)
    (hd : if zfo then next ≤ sp else sp ≤ next) :
    exactIn zfo liq next sp = capIn zfo (Kof liq) sp next := by
  unfold exactIn capIn Kof
  cases zfo
  · simp only [Bool.false_eq_true, ↓reduceIte] at hd ⊢
    unfold exact1 amt1
    rw [show ((next - sp).natAbs : Int) = next - sp by omega]
    push_cast
    rw [div_eq_div_iff (by norm_num) (by norm_num)]
    ring
  · simp only [↓reduceIte] at hd ⊢
    rw [exact0_sorted hd]
    unfold amt0
    ring

theorem exactOut_eq_capOut {zfo : Bool} {liq sp next : Int} (hsp : 0 < sp) (hn : 0 < next)
    (hd : if zfo then next ≤ sp else sp ≤ next) :
    exactOut zfo liq next sp = capOut zfo (Kof liq) sp next := by
  unfold exactOut capOut Kof
  cases zfo
  · simp only [Bool.false_eq_true, ↓reduceIte] at hd ⊢
    rw [exact0_comm, exact0_sorted hd]
    unfold amt0
    ring
  · simp only [↓reduceIte] at hd ⊢
    unfold exact1 amt1
    rw [show ((next - sp).natAbs : Int) = sp - next by omega]
    push_cast
    rw [div_eq_div_iff (by norm_num) (by norm_num)]
    ring

/-- the exact amounts of a run of good steps are non-negative. -/
theorem sumExact_nonneg {ogi zfo : Bool} {limit : Int} :
    ∀ (tr : List StepRec), (∀ e ∈ tr, RecGoodL ogi zfo limit e) → 0 ≤ sumExactIn zfo tr ∧ 0 ≤ sumExactOut zfo tr
  | [], _ => by simp [sumExactIn, sumExactOut]
  | e :: tr, h => by
    obtain ⟨a, b⟩ := sumExact_nonneg tr (fun e he => h e (List.mem_cons_of_mem _ he))
    obtain ⟨⟨⟨hl, _⟩, hsp, hn, _⟩, _, _⟩ := h e List.mem_cons_self
    have q0 : (0 : ℚ) ≤ exact0 e.st.pool.liquidity e.res.sqrtPriceNext e.st.pool.sqrtPrice := by
      unfold exact0
      have hnum : (0 : Int) ≤ ((e.res.sqrtPriceNext - e.st.pool.sqrtPrice).natAbs : Int) * e.st.pool.liquidity * 10 ^ 36 :=
        Int.mul_nonneg (Int.mul_nonneg (Int.natCast_nonneg _) hl) (by norm_num)
      have hden : (0 : Int) ≤ e.res.sqrtPriceNext * e.st.pool.sqrtPrice := Int.le_of_lt (Int.mul_pos hn hsp)
      exact div_nonneg (by exact_mod_cast hnum) (by exact_mod_cast hden)
    have q1 : (0 : ℚ) ≤ exact1 e.st.pool.liquidity e.res.sqrtPriceNext e.st.pool.sqrtPrice := by
      unfold exact1
      have hnum : (0 : Int) ≤ ((e.res.sqrtPriceNext - e.st.pool.sqrtPrice).natAbs : Int) * e.st.pool.liquidity :=
        Int.mul_nonneg (Int.natCast_nonneg _) hl
      exact div_nonneg (by exact_mod_cast hnum) (by norm_num)
    unfold sumExactIn sumExactOut exactIn exactOut
    cases zfo
    · simp only [Bool.false_eq_true, ↓reduceIte]; constructor <;> linarith
    · simp only [↓reduceIte]; constructor <;> linarith

/-! ## well-formedness of the walk on states satisfying the C07 invariants -/

/-- crossing the next initialised tick re-establishes "liquidity = active liquidity, iterator = ticks ahead". -/
theorem LA_cross {zfo : Bool} {spacing : Int} {tl : Ticks} {ps : List Position} {pool : PoolSt} {nt net : Int}
    {rest : Ticks} (hok : TicksOK spacing tl ps) (hla : LA zfo tl ps pool ((nt, net) :: rest)) (s : Int) :
    LA zfo tl ps ⟨s, if zfo then nt - 1 else nt, pool.liquidity + (if zfo then -net else net)⟩ rest := by
  obtain ⟨hliq, hahead⟩ := hla
  have hused : ∀ t, Used ps t → ∃ x ∈ tl, x.1 = t := hok.used
  cases zfo
  · simp only [Bool.false_eq_true, ↓reduceIte]
    rw [ticksAhead_up] at hahead
    obtain ⟨f1, f2, f3, f4⟩ := filter_up_head hok.sorted hahead.symm
    refine ⟨?_, ?_⟩
    · have hnet : net = netAt ps nt := hok.net _ f1
      show pool.liquidity + net = activeAt ps nt
      rw [activeAt_step hok.range nt, ← hnet, hliq]
      have : activeAt ps pool.tick = activeAt ps (nt - 1) := by
        apply activeAt_same_bucket
        intro t ht
        obtain ⟨y, hy, e⟩ := hused t ht
        have := f3 y hy
        simp only at f2 this
        omega
      rw [this]
    · show rest = ticksAhead false tl nt
      rw [ticksAhead_up]; exact f4
  · simp only [↓reduceIte]
    rw [ticksAhead_down] at hahead
    have hsd : tl.reverse.Pairwise (fun a b => a.1 > b.1) := by
      rw [List.pairwise_reverse]; exact hok.sorted
    obtain ⟨f1, f2, f3, f4⟩ := filter_down_head hsd hahead.symm
    have f1' := List.mem_reverse.mp f1
    refine ⟨?_, ?_⟩
    · have hstep := activeAt_step hok.range nt
      have hnet : net = netAt ps nt := hok.net _ f1'
      rw [← hnet] at hstep
      have : activeAt ps pool.tick = activeAt ps nt := by
        apply activeAt_same_bucket
        intro t ht
        obtain ⟨y, hy, e⟩ := hused t ht
        have := f3 y (List.mem_reverse.mpr hy)
        simp only at f2 this
        omega
      show pool.liquidity + -net = activeAt ps (nt - 1)
      rw [hliq, this]
      omega
    · show rest = ticksAhead true tl (nt - 1)
      rw [ticksAhead_down]; exact f4

theorem liq_nonneg_of_LA {zfo : Bool} {spacing : Int} {tl : Ticks} {ps : List Position} {pool : PoolSt} {ahead : Ticks}
    (hok : TicksOK spacing tl ps) (hla : LA zfo tl ps pool ahead) : 0 ≤ pool.liquidity := by
  rw [hla.1]
  apply sumBy_nonneg
  intro q hq
  have := hok.liqPos q hq
  simp only [onPos, actW]; split <;> omega

theorem Kof_nonneg {liq : Int} (h : 0 ≤ liq) : 0 ≤ Kof liq := by
  unfold Kof
  have : (0 : ℚ) ≤ liq := by exact_mod_cast h
  positivity

theorem Kof_cross (zfo : Bool) (liq net : Int) :
    Kof (liq + (if zfo then -net else net)) = crossK zfo (Kof liq) ((net : ℚ) * 10 ^ 36) := by
  unfold Kof crossK
  cases zfo
  · simp only [Bool.false_eq_true, ↓reduceIte]; push_cast; ring
  · simp only [↓reduceIte]; push_cast; ring

/-- on a state satisfying the C07 invariants the ideal walk over the ticks ahead is well-formed. -/
theorem WF_of_LA {zfo : Bool} {spacing : Int} {tl : Ticks} {ps : List Position} (hok : TicksOK spacing tl ps) :
    ∀ (ahead : Ticks) (pool : PoolSt), Agree spacing pool.sqrtPrice pool.tick → 0 < pool.sqrtPrice →
      LA zfo tl ps pool ahead → WF zfo (specAhead ahead) (Kof pool.liquidity) pool.sqrtPrice
  | [], pool, _, hpos, hla => by
    show 0 ≤ Kof pool.liquidity ∧ (0 : ℚ) < pool.sqrtPrice
    exact ⟨Kof_nonneg (liq_nonneg_of_LA hok hla), by exact_mod_cast hpos⟩
  | (nt, net) :: rest, pool, ha, hpos, hla => by
    have hmem : (nt, net) ∈ tl := by
      have hahead := hla.2
      cases zfo
      · rw [ticksAhead_up] at hahead
        exact (filter_up_head hok.sorted hahead.symm).1
      · rw [ticksAhead_down] at hahead
        have hsd : tl.reverse.Pairwise (fun a b => a.1 > b.1) := by
          rw [List.pairwise_reverse]; exact hok.sorted
        exact List.mem_reverse.mp (filter_down_head hsd hahead.symm).1
    obtain ⟨s, hs⟩ := tts_total (hok.bounds _ hmem).1 (hok.bounds _ hmem).2
    have hspos := tts_pos hs
    have hdir : if zfo then s ≤ pool.sqrtPrice else pool.sqrtPrice ≤ s := by
      have hahead := hla.2
      cases zfo
      · rw [ticksAhead_up] at hahead
        obtain ⟨f1, f2, _, _⟩ := filter_up_head hok.sorted hahead.symm
        simp only [Bool.false_eq_true, ↓reduceIte]
        exact (ha nt s (hok.aligned _ f1) hs).2 f2
      · rw [ticksAhead_down] at hahead
        have hsd : tl.reverse.Pairwise (fun a b => a.1 > b.1) := by
          rw [List.pairwise_reverse]; exact hok.sorted
        obtain ⟨f1, f2, _, _⟩ := filter_down_head hsd hahead.symm
        simp only [↓reduceIte]
        exact (ha nt s (hok.aligned _ (List.mem_reverse.mp f1)) hs).1 f2
    have hla' := LA_cross hok hla s
    have ha' : Agree spacing s (if zfo then nt - 1 else nt) := by
      cases zfo
      · exact (agreeAll_cross hs).1.agree _
      · exact (agreeAll_cross hs).2.agree _
    have ih := WF_of_LA hok rest ⟨s, if zfo then nt - 1 else nt, pool.liquidity + (if zfo then -net else net)⟩ ha' hspos hla'
    rw [specAhead_cons, sqrtAt_of hs]
    refine ⟨Kof_nonneg (liq_nonneg_of_LA hok hla), by exact_mod_cast hpos, by exact_mod_cast hspos, ?_, ?_⟩
    · cases zfo
      · simp only [Bool.false_eq_true, ↓reduceIte] at hdir ⊢; exact_mod_cast hdir
      · simp only [↓reduceIte] at hdir ⊢; exact_mod_cast hdir
    · rw [← Kof_cross]; exact ih

/-! ## the loop as a walk along the ideal curve -/

/-- the walk property of a trace from the state (`ahead`, `liq`, `sp`): the exact amounts of the steps add up to a point
of the ideal curve. -/
def WalkEq (zfo : Bool) (ahead : Ticks) (liq sp : Int) (tr : List StepRec) : Prop :=
  sumExactOut zfo tr = idealOut zfo (specAhead ahead) (Kof liq) (sp : ℚ) (sumExactIn zfo tr)

theorem swapLoop_walk {og zfo : Bool} {spf limit spacing : Int} {tl : Ticks} {ps : List Position}
    (hok : TicksOK spacing tl ps) (hspf : SpfOK spf) :
    ∀ (fuel : Nat) (st : SwapSt) (ahead : Ticks) (s c : Nat) (st' : SwapSt) (s' c' : Nat),
      swapLoop og zfo spf limit fuel st ahead s c = some (st', s', c') →
      Agree spacing st.pool.sqrtPrice st.pool.tick → 0 < st.pool.sqrtPrice → LA zfo tl ps st.pool ahead →
      LimSide zfo limit st.pool.sqrtPrice →
      WF zfo (specAhead ahead) (Kof st.pool.liquidity) st.pool.sqrtPrice →
      ∃ tr, Run og zfo spf limit st tr st' ∧ s' = s + tr.length ∧ (∀ e ∈ tr, RecGoodL og zfo limit e) ∧
        EndsOK og zfo spf limit st' ∧ WalkEq zfo ahead st.pool.liquidity st.pool.sqrtPrice tr := by
  intro fuel
  induction fuel with
  | zero => intro st ahead s c st' s' c' h; cases h
  | succ fuel ih =>
    intro st ahead s c st' s' c' h ha hpos hla hside hwf
    unfold swapLoop at h
    split at h
    · rename_i hcond
      cases hb : loopBody og zfo spf limit st ahead with
      | none => rw [hb] at h; cases h
      | some res =>
        obtain ⟨st1, ahead1, c1⟩ := res
        rw [hb] at h
        simp only at h
        cases ahead with
        | nil => rw [loopBody_nil] at hb; cases hb
        | cons x rest =>
          obtain ⟨nt, net⟩ := x
          obtain ⟨b1, b2, b3, b4, target, r, htgt, hstep, hadv, hgood, hsT, hfin⟩ :=
            body_good_lim hok hspf hside hb hcond.1 ha hpos hla
          have hrec : RecGoodL og zfo limit ⟨st, target, r⟩ := ⟨hgood, hside, hsT⟩
          -- the shape of the step: crossing or staying
          obtain ⟨nextSp, r2, hsp2, _, hr2, hcase⟩ := loopBody_spec hb
          have hnext : r.sqrtPriceNext = st1.pool.sqrtPrice := hadv.1.symm
          obtain ⟨⟨hliq, _⟩, _, hnpos, hdirs⟩ := hgood
          have hdn : if zfo then r.sqrtPriceNext ≤ st.pool.sqrtPrice else st.pool.sqrtPrice ≤ r.sqrtPriceNext := by
            cases zfo
            · simp only [Bool.false_eq_true, ↓reduceIte] at hdirs ⊢; exact hdirs.2
            · simp only [↓reduceIte] at hdirs ⊢; exact hdirs.2.2.2
          have eIn := exactIn_eq_capIn (liq := st.pool.liquidity) hpos hnpos hdn
          have eOut := exactOut_eq_capOut (liq := st.pool.liquidity) hpos hnpos hdn
          have hsq : sqrtAt nt = nextSp := sqrtAt_of hsp2
          rw [specAhead_cons, hsq] at hwf
          obtain ⟨wK, wP, ws, wd, wr⟩ := hwf
          -- the remaining walk and its well-formedness
          have hwf1 : WF zfo (specAhead ahead1) (Kof st1.pool.liquidity) st1.pool.sqrtPrice := by
            rcases hcase with ⟨_, e1, _, e3, e4⟩ | ⟨_, _, hg, e4, e5, _⟩
            · have hl := Dec.add_some e3
              rw [e4, hl, ← e1, Kof_cross]; exact wr
            · rw [e4, e5, specAhead_cons, hsq]
              refine ⟨wK, by exact_mod_cast b2, ws, ?_, wr⟩
              cases zfo
              · simp only [Bool.false_eq_true, ↓reduceIte] at hg ⊢
                have : st1.pool.sqrtPrice ≤ nextSp := by omega
                exact_mod_cast this
              · simp only [↓reduceIte] at hg ⊢
                have : nextSp ≤ st1.pool.sqrtPrice := by omega
                exact_mod_cast this
          -- the walk of the tail
          have tail : ∀ tr, WalkEq zfo ahead1 st1.pool.liquidity st1.pool.sqrtPrice tr →
              (∀ e ∈ tr, RecGoodL og zfo limit e) →
              WalkEq zfo ((nt, net) :: rest) st.pool.liquidity st.pool.sqrtPrice (⟨st, target, r⟩ :: tr) := by
            intro tr hw hg
            have hnn := (sumExact_nonneg tr hg).1
            unfold WalkEq at hw ⊢
            unfold sumExactIn sumExactOut
            simp only
            rw [eIn, eOut, specAhead_cons, hsq]
            rcases hcase with ⟨_, e1, _, e3, e4⟩ | ⟨_, hne, hg2, e4, e5, _⟩
            · -- crossing
              have hl := Dec.add_some e3
              have en : (r.sqrtPriceNext : ℚ) = (nextSp : ℚ) := by rw [hnext, ← e1]
              rw [en]
              rw [idealOut_cross (specAhead rest) wK wP ws wd (by linarith)]
              rw [e4, hl, ← e1, Kof_cross] at hw
              rw [hw]
              congr 2
              ring
            · -- staying in the bucket
              have hb' : Between zfo (st.pool.sqrtPrice : ℚ) (r.sqrtPriceNext : ℚ) (nextSp : ℚ) := by
                unfold Between
                rw [hnext]
                cases zfo
                · simp only [Bool.false_eq_true, ↓reduceIte] at hg2 hdn ⊢
                  rw [hnext] at hdn
                  exact ⟨by exact_mod_cast hdn, by exact_mod_cast (by omega : st1.pool.sqrtPrice ≤ nextSp)⟩
                · simp only [↓reduceIte] at hg2 hdn ⊢
                  rw [hnext] at hdn
                  exact ⟨by exact_mod_cast (by omega : nextSp ≤ st1.pool.sqrtPrice), by exact_mod_cast hdn⟩
              rw [idealOut_stay (specAhead rest) wK wP ws (by exact_mod_cast hnpos) hb' hnn]
              rw [e4, e5, specAhead_cons, hsq, ← hnext] at hw
              rw [hw]
          rcases b4 with hs1 | hle
          · obtain ⟨tr, hrun, hlen, hall, hend, hw⟩ := ih _ _ _ _ _ _ _ h b1 b2 b3 hs1 hwf1
            refine ⟨⟨st, target, r⟩ :: tr, Run.cons hcond.1 htgt hstep hadv hrun, ?_, ?_, hend, tail tr hw hall⟩
            · rw [List.length_cons]; omega
            · intro e he
              rcases List.mem_cons.mp he with rfl | he
              · exact hrec
              · exact hall e he
          · obtain ⟨e1, e2⟩ := swapLoop_stop fuel (by omega) h
            subst e1
            have hw0 : WalkEq zfo ahead1 st'.pool.liquidity st'.pool.sqrtPrice [] := by
              unfold WalkEq
              simp only [sumExactIn, sumExactOut]
              exact (idealOut_nonpos _ _ _ _ (le_refl _)).symm
            refine ⟨[⟨st, target, r⟩], Run.cons hcond.1 htgt hstep hadv (Run.nil _), by simp [e2], ?_, ?_,
              tail [] hw0 (fun e he => by cases he)⟩
            · intro e he
              rcases List.mem_cons.mp he with rfl | he
              · exact hrec
              · cases he
            · rcases hfin with hin | hcons
              · left
                unfold LimSide at hsT ⊢
                rw [hadv.1]
                cases zfo
                · simp only [Bool.false_eq_true, ↓reduceIte] at hin hsT ⊢; omega
                · simp only [↓reduceIte] at hin hsT ⊢; omega
              · exact Or.inr hcons
    · injection h with h
      injection h with h1 h2
      injection h2 with h2 _
      subst h1
      refine ⟨[], Run.nil _, by simp [h2], ?_, Or.inl hside, ?_⟩
      · intro e he; cases he
      · unfold WalkEq
        simp only [sumExactIn, sumExactOut]
        exact (idealOut_nonpos _ _ _ _ (le_refl _)).symm

end OsmoVerif.CLIdeal
