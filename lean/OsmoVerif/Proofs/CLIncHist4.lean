/-
C08 (incentives, histories) helpers, part 4: the stages of the position operations on the incentive state, per accumulator
index: `updPosition` (new record / settled record), `claimAll` (claimed record re-based to the growth inside now),
`redeposit` (values grow by the forfeited amount per unit of liquidity).  Core only.
-/
import OsmoVerif.Proofs.CLIncHist3

namespace OsmoVerif.CLIncP
open OsmoVerif.Num OsmoVerif.CL OsmoVerif.CLPool OsmoVerif.CLFees OsmoVerif.CLInc OsmoVerif.CLFeesP OsmoVerif.CLBook
open OsmoVerif.Accum (amt sorted hev)

/-! ## effect of a claim on one accumulator -/

theorem truncateDecimal_nonneg {cs : DC} {tc : Coins} {dust : DC} (h : Accum.truncateDecimal cs = some (tc, dust)) (d : String) :
    0 ≤ amt cs d :=
  amt_nonneg_of_all (Accum.truncGo_spec cs [] [] tc dust h).2.2 d

/-- a claim on accumulator `a` for a position with a record holding shares: the record is re-based (snapshot := growth
inside now `X`, nothing unclaimed), the scaled coins are the integer part of `unclaimed + round₁₈((X − snapshot) × shares)`. -/
theorem claimOne_eff {a a' : UAcc} {id : Nat} {o : DC} {scaled : Coins} {r : URec} {X : String → Int}
    (hr : getURec a.recs id = some r) (hsh : r.shares ≠ 0)
    (hv : sorted a.value = true) (hs : sorted r.snap = true) (hu : sorted r.unclaimed = true) (ho : sorted o = true)
    (hX : ∀ d, amt o d = amt a.value d - X d)
    (h : claimOne a id o = some (a', scaled)) :
    ∃ total ins, getURec a'.recs id = some ⟨id, r.shares, ins, []⟩ ∧ (∀ x, x ≠ id → getURec a'.recs x = getURec a.recs x) ∧
      sorted ins = true ∧ (∀ d, amt ins d = X d) ∧ a'.value = a.value ∧ a'.total = a.total ∧
      (∀ d, amt total d = amt r.unclaimed d + hev r.shares (X d - amt r.snap d) ∧ 0 ≤ X d - amt r.snap d ∧
        amt scaled d = (amt total d).tdiv P18 ∧ 0 ≤ amt total d) := by
  obtain ⟨snap1, total, dust, hs1, htot, htr, ev, et, hcase⟩ := claimOne_some hr h
  have hss1 : sorted snap1 = true := Accum.add_sorted _ _ _ hs ho hs1
  obtain ⟨hst, hamt⟩ := uRewards_spec hv hss1 hu htot
  rcases hcase with ⟨hz, _⟩ | ⟨_, ins, n, hsafe, erecs⟩
  · exact absurd hz hsh
  · have hid := getURec_id hr
    refine ⟨total, ins, ?_, ?_, safeSub_sorted hv ho hsafe, fun d => ?_, ev, et, fun d => ?_⟩
    · rw [erecs, getURec_setURec, if_pos rfl, hr]; rfl
    · intro x hx; rw [erecs, getURec_setURec, if_neg hx]
    · rw [safeSub_amt hsafe d, hX d]; omega
    · have h1 := hamt d
      rw [Accum.add_amt _ _ _ d hs1, hX d] at h1
      have e : amt a.value d - (amt r.snap d + (amt a.value d - X d)) = X d - amt r.snap d := by omega
      rw [e] at h1
      exact ⟨h1.1, h1.2, (Accum.truncateDecimal_spec hst htr d).1, truncateDecimal_nonneg htr d⟩

/-- settling an existing record in `updOne` (liquidity change `dl`): unclaimed := `unclaimed + round₁₈((X − snapshot) × shares)`,
snapshot := growth inside now. -/
theorem updOne_eff {a a' : UAcc} {id : Nat} {nl dl : Int} {ins o : DC} {r : URec} {X : String → Int}
    (hr : getURec a.recs id = some r)
    (hv : sorted a.value = true) (hs : sorted r.snap = true) (hu : sorted r.unclaimed = true) (ho : sorted o = true)
    (hX : ∀ d, amt o d = amt a.value d - X d)
    (h : updOne a id nl dl ins o = some a') :
    ∃ rewards, getURec a'.recs id = some ⟨id, r.shares + dl, ins, rewards⟩ ∧ (∀ x, x ≠ id → getURec a'.recs x = getURec a.recs x) ∧
      sorted rewards = true ∧ a'.value = a.value ∧ a'.total = a.total + dl ∧ dl ≠ 0 ∧ (dl < 0 → -dl ≤ r.shares) ∧
      (∀ d, amt rewards d = amt r.unclaimed d + hev r.shares (X d - amt r.snap d) ∧ 0 ≤ X d - amt r.snap d) := by
  obtain ⟨snap1, rewards, hs1, hrew, hd0, hneg, ev, et, erecs⟩ := updOne_old_spec hr h
  have hss1 : sorted snap1 = true := Accum.add_sorted _ _ _ hs ho hs1
  obtain ⟨hst, hamt⟩ := uRewards_spec hv hss1 hu hrew
  refine ⟨rewards, ?_, ?_, hst, ev, et, hd0, hneg, fun d => ?_⟩
  · rw [erecs, getURec_setURec, if_pos rfl, hr]; rfl
  · intro x hx; rw [erecs, getURec_setURec, if_neg hx]
  · have h1 := hamt d
    rw [Accum.add_amt _ _ _ d hs1, hX d] at h1
    have e : amt a.value d - (amt r.snap d + (amt a.value d - X d)) = X d - amt r.snap d := by omega
    rw [e] at h1
    exact h1

/-! ## the claim loop, per index -/

theorem claimLoop_get {factor age : Int} {id : Nat} :
    ∀ {accs : List UAcc} {outs : List DC} {ups : List Int} {accs' : List UAcc} {coll forf : Coins} {byUp : List Coins},
      claimLoop factor age id accs outs ups = some (accs', coll, forf, byUp) →
      accs'.length = accs.length ∧ outs.length = accs.length ∧ ups.length = accs.length ∧ byUp.length = accs.length ∧
      ∀ (k : Nat) (a : UAcc), accs[k]? = some a → ∃ (a' : UAcc) (o : DC) (up : Int) (scaled down : Coins),
        accs'[k]? = some a' ∧ outs[k]? = some o ∧ ups[k]? = some up ∧ claimOne a id o = some (a', scaled) ∧
        scaleDownCoins factor scaled = some down ∧
        byUp[k]? = some (if (getURec a.recs id).isSome ∧ age < up then scaled else [])
  | [], [], [], accs', coll, forf, byUp, h => by
    simp only [claimLoop, Option.some.injEq, Prod.mk.injEq] at h
    obtain ⟨e1, _, _, e4⟩ := h
    subst e1; subst e4
    exact ⟨rfl, rfl, rfl, rfl, fun k a ha => by simp at ha⟩
  | a0 :: as, o0 :: os, u0 :: us, accs', coll, forf, byUp, h => by
    simp only [claimLoop, Option.bind_eq_some_iff] at h
    obtain ⟨⟨a0', scaled0⟩, hc0, down0, hd0, ⟨as', coll0, forf0, byUp0⟩, hrest, h⟩ := h
    simp only at h hd0
    obtain ⟨l1, l2, l3, l4, hget⟩ := claimLoop_get hrest
    have key : accs' = a0' :: as' ∧ byUp = (if (getURec a0.recs id).isSome ∧ age < u0 then scaled0 else []) :: byUp0 := by
      split at h
      · rename_i hc
        simp only [Option.map_eq_some_iff, Prod.mk.injEq] at h
        obtain ⟨_, _, e1, _, _, e4⟩ := h
        exact ⟨e1.symm, by rw [← e4, if_pos hc]⟩
      · rename_i hc
        simp only [Option.map_eq_some_iff, Prod.mk.injEq] at h
        obtain ⟨_, _, e1, _, _, e4⟩ := h
        exact ⟨e1.symm, by rw [← e4, if_neg hc]⟩
    obtain ⟨e1, e4⟩ := key
    subst e1; subst e4
    refine ⟨by simp [l1], by simp [l2], by simp [l3], by simp [l4], fun k a ha => ?_⟩
    cases k with
    | zero =>
      simp only [List.getElem?_cons_zero, Option.some.injEq] at ha
      subst ha
      exact ⟨a0', o0, u0, scaled0, down0, by simp, by simp, by simp, hc0, hd0, by simp⟩
    | succ k =>
      simp only [List.getElem?_cons_succ] at ha ⊢
      exact hget k a ha
  | [], [], _ :: _, _, _, _, _, h => by simp [claimLoop] at h
  | [], _ :: _, _, _, _, _, _, h => by simp [claimLoop] at h
  | _ :: _, [], _, _, _, _, _, h => by simp [claimLoop] at h
  | _ :: _, _ :: _, [], _, _, _, _, h => by simp [claimLoop] at h

/-! ## `claimAll` -/

/-- the DecCoins of the incentive state that must be in normal form for the amount equations. -/
structure SortedInc (i : Inc) : Prop where
  vals : ∀ a ∈ i.accs, sorted a.value = true
  recs : ∀ a ∈ i.accs, ∀ id r, getURec a.recs id = some r → sorted r.snap = true ∧ sorted r.unclaimed = true
  trs : ∀ t tl, getTr i.trackers t = some tl → ∀ v ∈ tl, sorted v = true

theorem mem_of_getElem? {α} {l : List α} {k : Nat} {a : α} (h : l[k]? = some a) : a ∈ l := List.mem_of_getElem? h

theorem outsideAll_sorted {i : Inc} {cur l u : Int} {outs : List DC} {tl tu : List DC} (hlu : l < u) (hs : SortedInc i)
    (hl : getTr i.trackers l = some tl) (hu : getTr i.trackers u = some tu)
    (h : outsideAll i cur l u = some outs) :
    ∀ (k : Nat) (a : UAcc), i.accs[k]? = some a → ∃ o, outs[k]? = some o ∧ sorted o = true ∧
      ∀ d, amt o d = amt a.value d - insU i cur k d l u := by
  obtain ⟨_, _, _, hget⟩ := outsideAll_spec hlu hl hu h
  intro k a ha
  obtain ⟨v, lo, up, o, hlo, hup, hone, ho, hsub, hamt⟩ := hget k a ha
  have hva := hs.vals a (mem_of_getElem? ha)
  have hsv := insideOne_sorted hva (hs.trs l tl hl lo (mem_of_getElem? hlo)) (hs.trs u tu hu up (mem_of_getElem? hup)) hone
  exact ⟨o, ho, Accum.sub_sorted hva hsv hsub, hamt⟩

theorem insideAll_sorted {i : Inc} {cur l u : Int} {ins : List DC} {tl tu : List DC} (hlu : l < u) (hs : SortedInc i)
    (hl : getTr i.trackers l = some tl) (hu : getTr i.trackers u = some tu)
    (h : insideAll i cur l u = some ins) :
    ∀ (k : Nat) (a : UAcc), i.accs[k]? = some a → ∃ v, ins[k]? = some v ∧ sorted v = true ∧
      ∀ d, amt v d = insU i cur k d l u := by
  obtain ⟨_, _, _, hget⟩ := insideAll_spec hlu hl hu h
  intro k a ha
  obtain ⟨v, lo, up, hv, hlo, hup, hone, hamt⟩ := hget k a ha
  have hva := hs.vals a (mem_of_getElem? ha)
  exact ⟨v, hv, insideOne_sorted hva (hs.trs l tl hl lo (mem_of_getElem? hlo)) (hs.trs u tu hu up (mem_of_getElem? hup)) hone, hamt⟩

/-- `claimAll`, per accumulator index. -/
theorem claimAll_stage {i i2 : Inc} {cur l u : Int} {id : Nat} {coll forf : Coins} {byUp : List Coins} {tl tu : List DC}
    (hlu : l < u) (hs : SortedInc i) (hl : getTr i.trackers l = some tl) (hu : getTr i.trackers u = some tu)
    (h : claimAll i cur l u id = some (i2, coll, forf, byUp)) :
    i2 = { i with accs := i2.accs } ∧ i2.accs.length = i.accs.length ∧
    ∃ joinT, (i.join.find? (·.1 = id)).map (·.2) = some joinT ∧ 0 ≤ i.now - joinT ∧
      claimLoop i.factor (i.now - joinT) id i.accs ((outsideAll i cur l u).getD []) uptimesNs = some (i2.accs, coll, forf, byUp) ∧
      ∀ (k : Nat) (a : UAcc), i.accs[k]? = some a → ∃ (a' : UAcc) (o : DC) (up : Int) (scaled down : Coins),
        i2.accs[k]? = some a' ∧ uptimesNs[k]? = some up ∧ sorted o = true ∧ (∀ d, amt o d = amt a.value d - insU i cur k d l u) ∧
        claimOne a id o = some (a', scaled) ∧ scaleDownCoins i.factor scaled = some down ∧
        byUp[k]? = some (if (getURec a.recs id).isSome ∧ i.now - joinT < up then scaled else []) := by
  unfold claimAll at h
  simp only [Option.bind_eq_some_iff] at h
  obtain ⟨joinT, hj, h⟩ := h
  split at h
  · cases h
  · rename_i hage
    simp only [Option.bind_eq_some_iff, Option.map_eq_some_iff, Prod.mk.injEq] at h
    obtain ⟨outs, houts, ⟨accs, c, f, b⟩, hloop, e1, e2, e3, e4⟩ := h
    subst e1; subst e2; subst e3; subst e4
    obtain ⟨l1, _, _, _, hget⟩ := claimLoop_get hloop
    refine ⟨rfl, l1, joinT, hj, by omega, by rw [houts]; exact hloop, fun k a ha => ?_⟩
    obtain ⟨a', o, up, scaled, down, h1, h2, h3, h4, h5, h6⟩ := hget k a ha
    obtain ⟨o', ho', hso, hamt⟩ := outsideAll_sorted hlu hs hl hu houts k a ha
    rw [h2] at ho'; injection ho' with ho'; subst ho'
    exact ⟨a', o, up, scaled, down, h1, h3, hso, hamt, h4, h5, h6⟩

/-! ## `updPosition` -/

theorem updPosition_stage {i i3 : Inc} {cur l u : Int} {id : Nat} {nl dl : Int} {tl tu : List DC}
    (hlu : l < u) (hs : SortedInc i) (hl : getTr i.trackers l = some tl) (hu : getTr i.trackers u = some tu)
    (h : updPosition i cur l u id nl dl = some i3) :
    i3 = { i with accs := i3.accs } ∧ i3.accs.length = i.accs.length ∧
    ∀ (k : Nat) (a : UAcc), i.accs[k]? = some a → ∃ (a' : UAcc) (ins o : DC),
      i3.accs[k]? = some a' ∧ sorted ins = true ∧ (∀ d, amt ins d = insU i cur k d l u) ∧
      sorted o = true ∧ (∀ d, amt o d = amt a.value d - insU i cur k d l u) ∧ updOne a id nl dl ins o = some a' := by
  unfold updPosition at h
  simp only [Option.bind_eq_some_iff, Option.map_eq_some_iff] at h
  obtain ⟨ins, hins, outs, houts, accs, hupd, e⟩ := h
  subst e
  obtain ⟨l1, _, _, hget⟩ := updAll_get hupd
  refine ⟨rfl, l1, fun k a ha => ?_⟩
  obtain ⟨a', iv, ov, h1, h2, h3, h4⟩ := hget k a ha
  obtain ⟨v, hv, hsv, hamtv⟩ := insideAll_sorted hlu hs hl hu hins k a ha
  obtain ⟨o, ho, hso, hamto⟩ := outsideAll_sorted hlu hs hl hu houts k a ha
  rw [h2] at hv; injection hv with hv; subst hv
  rw [h3] at ho; injection ho with ho; subst ho
  exact ⟨a', iv, ov, h1, hsv, hamtv, hso, hamto, h4⟩

/-! ## `redeposit` -/

theorem redepositFold_spec (liq : Int) (hl : 0 < liq) :
    ∀ (cs : Coins) (acc r : DC),
      cs.foldlM (fun (acc : DC) (c : String × Int) =>
          (Dec.quoTruncate (c.2 * P18) liq).bind fun per => if per < 0 then none else Accum.add acc [(c.1, per)]) acc = some r →
      (∀ c ∈ cs, 0 ≤ c.2) →
      (sorted acc = true → sorted r = true) ∧ ∀ d, amt acc d ≤ amt r d ∧ (amt r d - amt acc d) * liq ≤ amt cs d * (P18 * P18) := by
  intro cs
  induction cs with
  | nil =>
    intro acc r h _
    simp only [List.foldlM, pure, Option.some.injEq] at h
    subst h
    exact ⟨id, fun d => ⟨Int.le_refl _, by simp [amt]⟩⟩
  | cons c t ih =>
    intro acc r h hnn
    simp only [List.foldlM, bind, Option.bind_eq_some_iff] at h
    obtain ⟨acc1, ⟨per, hper, hstep⟩, hrest⟩ := h
    split at hstep
    · cases hstep
    · rename_i hp0
      have hc0 := hnn c List.mem_cons_self
      obtain ⟨i1, i2⟩ := ih acc1 r hrest (fun x hx => hnn x (List.mem_cons_of_mem _ hx))
      obtain ⟨q0, q1⟩ := quoTruncate_le (Int.mul_nonneg hc0 (Int.le_of_lt P18_pos)) hl hper
      refine ⟨fun hs => i1 (Accum.add_sorted _ _ _ hs (Accum.sorted_single _ _) hstep), fun d => ?_⟩
      have hamt := Accum.add_amt _ _ _ d hstep
      have hsingle : amt [(c.1, per)] d = if c.1 = d then per else 0 := by
        simp only [Accum.amt]; split <;> omega
      rw [hsingle] at hamt
      obtain ⟨j1, j2⟩ := i2 d
      obtain ⟨e, x⟩ := c
      simp only [amt] at hamt hc0 q1 ⊢
      by_cases hd : e = d
      · rw [if_pos hd] at hamt ⊢
        refine ⟨by omega, ?_⟩
        have e1 : amt r d - amt acc d = (amt r d - amt acc1 d) + per := by omega
        rw [e1, Int.add_mul, Int.add_mul]
        have : x * P18 * P18 = x * (P18 * P18) := Int.mul_assoc _ _ _
        omega
      · rw [if_neg hd] at hamt ⊢
        have e1 : amt acc1 d = amt acc d := by omega
        rw [e1] at j1 j2
        rw [Int.zero_add]
        exact ⟨j1, j2⟩

theorem redepositLoop_get {liq : Int} (hl : 0 < liq) :
    ∀ {accs : List UAcc} {byUp : List Coins} {accs' : List UAcc}, redepositLoop liq accs byUp = some accs' →
      (∀ cs ∈ byUp, ∀ c ∈ cs, 0 ≤ c.2) →
      accs'.length = accs.length ∧ byUp.length = accs.length ∧
      ∀ (k : Nat) (a : UAcc), accs[k]? = some a → ∃ (a' : UAcc) (cs : Coins), accs'[k]? = some a' ∧ byUp[k]? = some cs ∧
        a'.recs = a.recs ∧ a'.total = a.total ∧ (sorted a.value = true → sorted a'.value = true) ∧
        ∀ d, amt a.value d ≤ amt a'.value d ∧ (amt a'.value d - amt a.value d) * liq ≤ amt cs d * (P18 * P18)
  | [], [], accs', h, _ => by
    simp only [redepositLoop, Option.some.injEq] at h; subst h
    exact ⟨rfl, rfl, fun k a ha => by simp at ha⟩
  | a0 :: as, c0 :: cs, accs', h, hnn => by
    simp only [redepositLoop, Option.bind_eq_some_iff, Option.map_eq_some_iff] at h
    obtain ⟨a0', h0, rest, hrest, e⟩ := h
    subst e
    obtain ⟨l1, l2, hget⟩ := redepositLoop_get hl hrest (fun x hx => hnn x (List.mem_cons_of_mem _ hx))
    refine ⟨by simp [l1], by simp [l2], fun k a ha => ?_⟩
    cases k with
    | zero =>
      simp only [List.getElem?_cons_zero, Option.some.injEq] at ha
      subst ha
      refine ⟨a0', c0, by simp, by simp, ?_⟩
      split at h0
      · rename_i hemp
        injection h0 with h0; subst h0
        refine ⟨rfl, rfl, id, fun d => ⟨Int.le_refl _, ?_⟩⟩
        have : c0 = [] := by simpa using hemp
        subst this
        simp [amt]
      · simp only [Option.bind_eq_some_iff, Option.map_eq_some_iff] at h0
        obtain ⟨toAdd, hfold, v, hv, e⟩ := h0
        subst e
        obtain ⟨f1, f2⟩ := redepositFold_spec liq hl c0 [] toAdd hfold (hnn c0 List.mem_cons_self)
        refine ⟨rfl, rfl, fun hs => Accum.add_sorted _ _ _ hs (f1 rfl) hv, fun d => ?_⟩
        have := Accum.add_amt _ _ _ d hv
        obtain ⟨g1, g2⟩ := f2 d
        have z : amt ([] : DC) d = 0 := rfl
        simp only
        rw [z] at g1 g2
        rw [this]
        have e : ∀ x y : Int, x + y - x = y - 0 := by intros; omega
        rw [e]
        exact ⟨by omega, g2⟩
    | succ k =>
      simp only [List.getElem?_cons_succ] at ha ⊢
      exact hget k a ha
  | [], _ :: _, _, h, _ => by simp [redepositLoop] at h
  | _ :: _, [], _, h, _ => by simp [redepositLoop] at h

end OsmoVerif.CLIncP
