/-
C03, same-amount comparison, part 2 (exact-in, upper side): the exact amount in along the path actually taken is at most
the amount consumed NET of the spread factor, step by step — a step that reaches its target charges at least
`spf/(1−spf)` of its amount in, a step that does not reach it moves the price no further than the remaining amount after
the spread factor pays for (`next0In_exact_le`, `next1In_exact_le`) — and the whole `computeSwap` is a walk along the ideal
curve of Spec/CLCurve.lean.
-/
import OsmoVerif.Proofs.CLIdeal1
import OsmoVerif.Proofs.CLLimit6

namespace OsmoVerif.CLIdeal
open OsmoVerif.CLPool OsmoVerif.CLBook OsmoVerif.CLSolv OsmoVerif.CL OsmoVerif.Num OsmoVerif.Tick OsmoVerif.Gen
open OsmoVerif.Spec OsmoVerif.Props OsmoVerif.CLLimit OsmoVerif.Spec.CLCurve

/-- `GetNextSqrtPriceFromAmount1InRoundingDown` does not move the price further than the amount pays for. -/
theorem next1In_exact_le {sp liq amt x : Int} (h : nextSqrtPriceAmount1In sp liq amt = some x)
    (hl : 0 ≤ liq) (ha : 0 ≤ amt) : (x - sp) * liq ≤ amt * P18 := by
  rw [nextSqrtPriceAmount1In_eq] at h
  obtain ⟨q, hq, hx⟩ := Option.bind_eq_some_iff.mp h
  have ex := C12.add_exact hx
  have hlpos : 0 < liq := by
    rcases Int.lt_or_le 0 liq with hp | hz
    · exact hp
    · have e0 : liq = 0 := by omega
      subst e0
      unfold BigDec.quoTruncateDec at hq
      simp at hq
  have tq := quoTruncateDec_trunc_pos hlpos hq
  have := (trunc_nonneg_le hlpos (Int.mul_nonneg ha P18_nonneg) tq).2
  rw [ex]
  have e : (q + sp - sp) * liq = q * liq := by ring
  omega

/-- one exact-in step: the exact amount in between its start and end price, times 10^18, is at most what the step
consumed (amount in + spread charge) times `10^18 − spf`. -/
theorem stepOutGivenIn_exact_le_net {zfo : Bool} {spf sp target liq remaining : Int} {r : StepResult}
    (hl : 0 ≤ liq) (hsp : 0 < sp) (ht : 0 < target) (hs0 : 0 ≤ spf) (hs1 : spf < P18) (hrem : 0 ≤ remaining)
    (hdn : if zfo then r.sqrtPriceNext ≤ sp else sp ≤ r.sqrtPriceNext)
    (h : stepOutGivenIn zfo spf sp target liq remaining = some r) :
    exactIn zfo liq r.sqrtPriceNext sp * 10 ^ 18 ≤ ((r.amountSpecified + r.spreadCharge : Int) : ℚ) * (10 ^ 18 - spf) := by
  obtain ⟨hn, hge, ⟨k, k0, ek⟩, _, _, c0, cz, cr, cn⟩ := stepOutGivenIn_curve hl hsp ht hs0 hs1 hrem h
  have qge : exactIn zfo liq r.sqrtPriceNext sp ≤ (r.amountSpecified : ℚ) := (inGe_iff hn hsp).mp hge
  have a0 : 0 ≤ r.amountSpecified := by rw [ek]; exact Int.mul_nonneg k0 P18_nonneg
  have qa0 : (0 : ℚ) ≤ r.amountSpecified := by exact_mod_cast a0
  have qc0 : (0 : ℚ) ≤ r.spreadCharge := by exact_mod_cast c0
  have qs0 : (0 : ℚ) ≤ spf := by exact_mod_cast hs0
  have qs1 : (spf : ℚ) < 10 ^ 18 := by
    have : ((spf : Int) : ℚ) < ((P18 : Int) : ℚ) := Int.cast_lt.mpr hs1
    rw [P18_cast] at this; exact this
  by_cases hreach : target = r.sqrtPriceNext
  · have hc := cr hreach
    have qc : (r.amountSpecified : ℚ) * spf ≤ r.spreadCharge * (10 ^ 18 - spf) := by
      have : ((r.amountSpecified * spf : Int) : ℚ) ≤ ((r.spreadCharge * (P18 - spf) : Int) : ℚ) := Int.cast_le.mpr hc
      push_cast at this; rw [P18_cast] at this; exact this
    push_cast
    nlinarith
  · rcases Int.lt_or_le 0 spf with hpos | hz
    · have hc := cn hreach hpos
      -- the not-reached branch: the next price was computed from the remaining amount after the spread factor
      obtain ⟨x, y, amtIn0, oneMinus, _, _, _, _, _, h0, hone, hnext⟩ := stepOutGivenIn_decomp h
      subst hone
      have hcb : ¬ remaining * (P18 - spf) ≥ amtIn0 := by
        intro hc'
        rw [if_pos hc'] at hnext
        injection hnext with e; exact hreach e
      rw [if_neg hcb] at hnext
      have hamt : 0 ≤ remaining * (P18 - spf) := Int.mul_nonneg hrem (by omega)
      have esum : r.amountSpecified + r.spreadCharge = remaining := by omega
      rw [esum]
      cases zfo
      · simp only [Bool.false_eq_true, ↓reduceIte] at hnext hdn ⊢
        have k1 := next1In_exact_le hnext hl hamt
        unfold exactIn
        simp only [Bool.false_eq_true, ↓reduceIte]
        unfold exact1
        rw [show ((r.sqrtPriceNext - sp).natAbs : Int) = r.sqrtPriceNext - sp by omega]
        have : (((r.sqrtPriceNext - sp) * liq : Int) : ℚ) ≤ ((remaining * (P18 - spf) * P18 : Int) : ℚ) := Int.cast_le.mpr k1
        push_cast at this ⊢
        rw [P18_cast] at this
        rw [div_mul_eq_mul_div, div_le_iff₀ (by norm_num)]
        nlinarith
      · simp only [↓reduceIte] at hnext hdn ⊢
        obtain ⟨l, hlb, hnx⟩ := Option.bind_eq_some_iff.mp hnext
        have el := C12.fromDec_exact hlb
        subst el
        have hlpos : 0 < liq := by
          rcases Int.lt_or_le 0 liq with hp | hz
          · exact hp
          · have e0 : liq = 0 := by omega
            subst e0
            unfold deltaIn at h0
            simp only [↓reduceIte] at h0
            have := amount0_roundUp_zero_liq ht hsp h0
            omega
        have k1 := next0In_exact_le hnx (Int.mul_pos hlpos Pdiff_pos) hsp hamt
        unfold exactIn
        simp only [↓reduceIte]
        rw [exact0_sorted hdn]
        have qn : (0 : ℚ) < r.sqrtPriceNext := by exact_mod_cast hn
        have qs : (0 : ℚ) < sp := by exact_mod_cast hsp
        have : (((sp - r.sqrtPriceNext) * (liq * Pdiff) * P36 : Int) : ℚ) ≤
            ((remaining * (P18 - spf) * (r.sqrtPriceNext * sp) : Int) : ℚ) := Int.cast_le.mpr k1
        push_cast at this ⊢
        rw [Pdiff_cast, P36_cast, P18_cast] at this
        rw [div_mul_eq_mul_div, div_le_iff₀ (by positivity)]
        nlinarith
    · have e0 : spf = 0 := by omega
      have hc := cz e0
      rw [hc, e0]
      push_cast
      nlinarith

/-- summed over a run of an exact-in swap. -/
theorem run_exact_le_net {zfo : Bool} {spf limit : Int} {st st' : SwapSt} {tr : List StepRec}
    (hs0 : 0 ≤ spf) (hs1 : spf < P18) (h : Run true zfo spf limit st tr st')
    (hall : ∀ e ∈ tr, RecGoodL true zfo limit e) :
    sumExactIn zfo tr * 10 ^ 18 ≤ ((sumIn true tr + sumCharge tr : Int) : ℚ) * (10 ^ 18 - spf) := by
  have hmem := h.mem
  clear h
  induction tr with
  | nil => simp [sumExactIn, sumIn, sumCharge]
  | cons e tr ih =>
    have i := ih (fun e he => hall e (List.mem_cons_of_mem _ he)) (fun e he => hmem e (List.mem_cons_of_mem _ he))
    obtain ⟨⟨⟨hliq, _⟩, hsp, hn, hdirs⟩, _, _⟩ := hall e List.mem_cons_self
    obtain ⟨hrem, _, hstep⟩ := hmem e List.mem_cons_self
    unfold stepOf at hstep
    simp only [↓reduceIte] at hstep
    have ht : 0 < e.target := by
      cases zfo
      · simp only [Bool.false_eq_true, ↓reduceIte] at hdirs; omega
      · simp only [↓reduceIte] at hdirs; omega
    have hdn : if zfo then e.res.sqrtPriceNext ≤ e.st.pool.sqrtPrice else e.st.pool.sqrtPrice ≤ e.res.sqrtPriceNext := by
      cases zfo
      · simp only [Bool.false_eq_true, ↓reduceIte] at hdirs ⊢; exact hdirs.2
      · simp only [↓reduceIte] at hdirs ⊢; exact hdirs.2.2.2
    have b := stepOutGivenIn_exact_le_net hliq hsp ht hs0 hs1 (by omega) hdn hstep
    unfold sumExactIn sumIn sumCharge StepRec.amtIn
    simp only [↓reduceIte]
    push_cast at b i ⊢
    linarith

/-! ## `computeSwap` as a walk -/

/-- every swap computed with any price limit on a state satisfying the C07 invariants: the run, its per-step facts, and
the walk property against the ideal curve from the pool's state. -/
theorem computeSwap_walk {p : Pool} (hinv : Inv p) (hspf : SpfOK p.spf) {ogi zfo : Bool} {pl specified : Int}
    {r : SwapOut}
    (h : computeSwap ogi zfo p.spf pl ⟨p.sqrtPrice, p.tick, p.liquidity⟩ (tickList p) specified = some r) :
    ∃ (limit : Int) (tr : List StepRec) (st' : SwapSt),
      sqrtPriceLimit pl zfo = some limit ∧
      (if zfo then CL.MinSqrtPriceBigDec ≤ limit ∧ limit ≤ p.sqrtPrice
        else p.sqrtPrice ≤ limit ∧ limit ≤ CL.MaxSqrtPriceBigDec) ∧
      Run ogi zfo p.spf limit
        { remaining := specified * P18, calculated := 0, pool := ⟨p.sqrtPrice, p.tick, p.liquidity⟩, spreadTotal := 0,
          noProgress := 0 } tr st' ∧
      tr.length = r.steps ∧ r.pool = st'.pool ∧ 0 ≤ st'.remaining ∧ r.spreadRewards = sumCharge tr ∧
      IsCeil (sumIn ogi tr + sumCharge tr) P18 r.amountIn ∧ IsTrunc (sumOut ogi tr) P18 r.amountOut ∧
      (if ogi then sumIn ogi tr + sumCharge tr = specified * P18 - st'.remaining
        else sumOut ogi tr = specified * P18 - st'.remaining) ∧
      ¬ (st'.remaining > 1 ∧ st'.pool.sqrtPrice ≠ limit) ∧
      ((∀ e ∈ tr, RecGoodL ogi zfo limit e) ∧ EndsOK ogi zfo p.spf limit st' ∧
        WalkEq zfo (ticksAhead zfo (tickList p) p.tick) p.liquidity p.sqrtPrice tr) := by
  apply computeSwap_run_with_valid (Q := fun limit tr st' => (∀ e ∈ tr, RecGoodL ogi zfo limit e) ∧
    EndsOK ogi zfo p.spf limit st' ∧ WalkEq zfo (ticksAhead zfo (tickList p) p.tick) p.liquidity p.sqrtPrice tr) h
  intro limit st' s' c' hlim hv hl
  have hside0 : LimSide zfo limit p.sqrtPrice := by
    unfold LimSide
    cases zfo
    · simp only [Bool.false_eq_true, ↓reduceIte] at hv ⊢; exact hv.1
    · simp only [↓reduceIte] at hv ⊢; exact hv.2
  by_cases hne : p.positions = []
  · have hticks : tickList p = [] := by
      unfold tickList
      cases ht : p.ticks with
      | nil => rfl
      | cons x xs =>
        obtain ⟨q, hq, _⟩ := (hinv.core.stored x.tick).mp ⟨x, by rw [ht]; exact List.mem_cons_self, rfl⟩
        rw [hne] at hq; cases hq
    have hah : ticksAhead zfo (tickList p) p.tick = [] := by rw [hticks]; cases zfo <;> rfl
    rw [hah] at hl ⊢
    obtain ⟨e1, e2⟩ := swapLoop_nil_ahead _ hl
    subst e1
    refine ⟨[], Run.nil _, by simp [e2], ?_, Or.inl hside0, ?_⟩
    · intro e he; cases he
    · unfold WalkEq
      simp only [sumExactIn, sumExactOut]
      exact (idealOut_nonpos _ _ _ _ (le_refl _)).symm
  · have hok := ticksOK_of_core hinv.core
    have hla : LA zfo (tickList p) p.positions ⟨p.sqrtPrice, p.tick, p.liquidity⟩ (ticksAhead zfo (tickList p) p.tick) :=
      ⟨hinv.active, rfl⟩
    have hwf := WF_of_LA hok (ticksAhead zfo (tickList p) p.tick) ⟨p.sqrtPrice, p.tick, p.liquidity⟩
      (hinv.price.2 hne).1 (hinv.price.2 hne).2 hla
    obtain ⟨tr, a, b, c, d, e⟩ := swapLoop_walk hok hspf _ _ _ _ _ _ _ _ hl
      (hinv.price.2 hne).1 (hinv.price.2 hne).2 hla hside0 hwf
    exact ⟨tr, a, b, c, d, e⟩

end OsmoVerif.CLIdeal
