/-
C08 (incentives, histories) helpers, part 9: the remaining messages (transfer, swap, spread-reward collect, incentive record
creation, time advance, sync, incentive collect), `applyI_facts`, and the induction over histories: `IncInv` on every reachable
state, growth inside over a history = growth at the start + the accumulator growth of the messages that happened while the
current tick was in range.  Core only.
-/
import OsmoVerif.Proofs.CLIncHist8

namespace OsmoVerif.CLIncP
open OsmoVerif.Num OsmoVerif.CL OsmoVerif.CLPool OsmoVerif.CLFees OsmoVerif.CLInc OsmoVerif.CLFeesP OsmoVerif.CLBook
open OsmoVerif.Accum (amt sorted hev)
open OsmoVerif.Gen

theorem transferI_facts {s s' : Full} {sender : String} {id : Nat} {newOwner : String}
    (hi : IncInv s) (hf' : FullInv s'.fees) {evs : List Ev} (sf : StepFacts s.fees s'.fees evs)
    (h : CLInc.transferPosition s sender id newOwner = some s') : IStepFacts s s' := by
  unfold CLInc.transferPosition at h
  simp only [Option.map_eq_some_iff] at h
  obtain ⟨f', hfe, e⟩ := h
  subst e
  obtain ⟨_, eacc, _, _, et, epos⟩ := transfer_facts hi.fees.pool.core hi.fees.acc hfe
  simp only [CLFees.transferPosition, Option.map_eq_some_iff] at hfe
  obtain ⟨p', hp, e⟩ := hfe
  obtain ⟨_, _, _, _, en, _, _, _, _, _⟩ := transfer_inv hi.fees.pool.core hp
  have en' : f'.pool.nextId = s.fees.pool.nextId := by rw [← e]; exact en
  have hmem : ∀ q' ∈ f'.pool.positions, ∃ q ∈ s.fees.pool.positions, q.id = q'.id ∧ q.lower = q'.lower ∧ q.upper = q'.upper ∧ q.liq = q'.liq := by
    intro q' hq'
    rw [epos] at hq'
    obtain ⟨q, hq, e⟩ := List.mem_map.mp hq'
    subst e
    refine ⟨q, hq, ?_⟩
    split <;> exact ⟨rfl, rfl, rfl, rfl⟩
  have hc' := hf'.pool.core
  simp only at hc' hf' sf ⊢
  have hpart : IncPart f' s.inc := by
    refine hi.inc.congr_fees hmem en' (fun t ht => ?_) (by rw [eacc])
    obtain ⟨q, hq, hused⟩ := (hi.fees.pool.core.stored t).mp ht
    refine (hc'.stored t).mpr ?_
    have : (if q.id = id then { q with owner := newOwner } else q) ∈ f'.pool.positions := by
      rw [epos]; exact List.mem_map.mpr ⟨q, hq, rfl⟩
    refine ⟨_, this, ?_⟩
    split <;> exact hused
  refine ⟨⟨hf', hpart⟩, sf.nextId, sf.desc, fun k d => by rw [dVal_self], ?_⟩
  exact inside_of_keep hi.fees.pool.core sf.desc (fun _ _ => et) (fun _ _ _ _ _ => ⟨rfl, rfl⟩)

theorem collectSpreadI_facts {s s' : Full} {sender : String} {id : Nat} {c0 c1 : Int}
    (hi : IncInv s) (hf' : FullInv s'.fees) {evs : List Ev} (sf : StepFacts s.fees s'.fees evs)
    (h : CLInc.collectSpread s sender id = some (s', c0, c1)) : IStepFacts s s' := by
  unfold CLInc.collectSpread at h
  simp only [Option.map_eq_some_iff, Prod.mk.injEq] at h
  obtain ⟨⟨f', d0, d1⟩, hfe, e, _, _⟩ := h
  subst e
  obtain ⟨_, hpool, _, _, _, _, _, _, _, _, _, _, _, _, _, ets, _⟩ := collect_facts hi.fees.pool.core hi.fees.acc hfe
  simp only at hf' sf ⊢
  have hpart : IncPart f' s.inc :=
    hi.inc.congr_fees (fun q' hq' => ⟨q', by rw [← hpool]; exact hq', rfl, rfl, rfl, rfl⟩) (by rw [hpool]) (fun t ht => by rw [hpool]; exact ht) ets
  refine ⟨⟨hf', hpart⟩, sf.nextId, sf.desc, fun k d => by rw [dVal_self], ?_⟩
  exact inside_of_keep hi.fees.pool.core sf.desc (fun _ _ => by rw [hpool]) (fun _ _ _ _ _ => ⟨rfl, rfl⟩)

/-- a step of the incentive state alone (the fee layer is untouched): values grew, trackers kept. -/
theorem incOnly_facts {s : Full} {i' : Inc} (hi : IncInv s) (hp' : IncPart s.fees i')
    (htr : i'.trackers = s.inc.trackers) (hg : ∀ k d, 0 ≤ dVal s.inc i' k d) : IStepFacts s { s with inc := i' } := by
  refine ⟨⟨hi.fees, hp'⟩, Nat.le_refl _, fun q' hq' => Or.inl ⟨q', hq', rfl, rfl, rfl⟩, hg, ?_⟩
  exact inside_of_keep hi.fees.pool.core (fun q' hq' => Or.inl ⟨q', hq', rfl, rfl, rfl⟩) (fun _ _ => rfl)
    (fun _ _ _ _ _ => by simp only; rw [htr]; exact ⟨rfl, rfl⟩)

theorem syncNowI_facts {s s' : Full} (hi : IncInv s) (h : syncNow s = some s') : IStepFacts s s' := by
  unfold syncNow at h
  simp only [Option.map_eq_some_iff] at h
  obtain ⟨i1, hsync, e⟩ := h
  subst e
  obtain ⟨hp1, t1, _, _, _, _, _, _, hg, _⟩ := sync_part hi.inc hsync
  exact incOnly_facts hi hp1 t1 hg

theorem advanceI_facts {s : Full} (hi : IncInv s) (ns : Int) : IStepFacts s (CLInc.advance s ns) := by
  unfold CLInc.advance
  refine incOnly_facts hi ?_ rfl (fun k d => by simp only [dVal]; omega)
  exact ⟨hi.inc.len, hi.inc.accs, hi.inc.stored, hi.inc.trOK, hi.inc.trTicks, hi.inc.recsOK, hi.inc.factor, hi.inc.joinIds, hi.inc.joined⟩

theorem createIncentiveI_facts {s s' : Full} {id : Nat} {denom : String} {amount rate start : Int} {uptime : Nat}
    (hi : IncInv s) (h : createIncentive s id denom amount rate start uptime = some s') : IStepFacts s s' := by
  unfold createIncentive at h
  split at h
  · cases h
  · rename_i ha
    split at h
    · cases h
    · split at h
      · cases h
      · rename_i hr
        split at h
        · cases h
        · simp only [Option.bind_eq_some_iff, Option.map_eq_some_iff] at h
          obtain ⟨i1, hsync, b, _, e⟩ := h
          subst e
          obtain ⟨hp1, t1, _, _, _, _, _, _, hg, _⟩ := sync_part hi.inc hsync
          have hP := P18_pos
          have hamt : 0 ≤ amount * P18 := Int.mul_nonneg (by omega) (by omega)
          refine incOnly_facts hi ?_ t1 (fun k d => ?_)
          · exact ⟨hp1.len, hp1.accs, hp1.stored, hp1.trOK, hp1.trTicks,
              recsOK_insert ⟨by simp only; omega, by simp only; exact hamt⟩ hp1.recsOK, hp1.factor, hp1.joinIds, hp1.joined⟩
          · have := hg k d
            simp only [dVal] at this ⊢
            exact this

theorem collectIncentivesI_facts {s s' : Full} {sender : String} {id : Nat} {c f : Coins}
    (hi : IncInv s) (h : collectIncentives s sender id = some (s', c, f)) : IStepFacts s s' := by
  unfold collectIncentives at h
  simp only [Option.bind_eq_some_iff] at h
  obtain ⟨pos, hfind, h⟩ := h
  split at h
  · cases h
  · simp only [Option.bind_eq_some_iff, Option.map_eq_some_iff, Prod.mk.injEq] at h
    obtain ⟨i1, hsync, ⟨i2, coll, forf, byUp⟩, hclaim, b, _, e, _, _⟩ := h
    subst e
    obtain ⟨hmem, hid⟩ := find_id hfind
    obtain ⟨hp1, t1, _, _, _, _, _, g1, hg, _⟩ := sync_part hi.inc hsync
    rw [← hid] at hclaim
    obtain ⟨e2c, joinT, _, _, _, hpart, chain⟩ := claimI_stage hi.fees hp1 hmem hclaim
    refine incOnly_facts hi (hpart b) (by show i2.trackers = _; rw [e2c]; exact t1) (fun k d => ?_)
    rcases Nat.lt_or_ge k 6 with hk | hk
    · obtain ⟨⟨a1, a2, _, _, _, _, _, _, ha1, ha2, _, _, _, _, _, _, _, _, _, _, _, ev, _⟩⟩ := chain k hk
      have := hg k d
      simp only [dVal] at this ⊢
      rw [valAt_of ha2, ev, ← valAt_of ha1]; exact this
    · rw [dVal_ge6 hi.inc.len (hpart b).len hk]

/-! ## swap -/

theorem getTr_k {f : Fees} {i : Inc} (hp : IncPart f i) {t : Int} (h : (getTr i.trackers t).isSome) {k : Nat} (hk : k < 6) :
    ∃ tl v, getTr i.trackers t = some tl ∧ tl[k]? = some v := by
  obtain ⟨tl, htl⟩ := Option.isSome_iff_exists.mp h
  obtain ⟨v, hv⟩ := getElem?_of_lt (l := tl) (k := k) (by rw [(hp.trOK t tl htl).1]; exact hk)
  exact ⟨tl, v, htl, hv⟩

theorem swapI_facts {s s' : Full} {og zfo : Bool} {spec ain aout fee : Int}
    (hi : IncInv s) (hf' : FullInv s'.fees) {evs : List Ev} (sf : StepFacts s.fees s'.fees evs)
    (h : CLInc.swap s og zfo spec = some (s', ain, aout, fee)) : IStepFacts s s' := by
  unfold CLInc.swap at h
  simp only [Option.bind_eq_some_iff] at h
  obtain ⟨⟨f', ai, ao, fe⟩, hfe, trs, htr, h⟩ := h
  simp only at h
  obtain ⟨hpl, _, _, _, _, _, _, _, ets, _⟩ := swap_spec hfe
  obtain ⟨_, epos, enext, _, _, eticks⟩ := swap_core hi.fees.pool.core hpl
  have htok := swap_traceOK hi.fees.pool hi.fees.spf hfe htr
  have hcong : ∀ {i : Inc}, IncPart s.fees i → IncPart f' i := fun hp =>
    hp.congr_fees (fun q' hq' => ⟨q', by rw [← epos]; exact hq', rfl, rfl, rfl, rfl⟩) enext (fun t ht => by rw [eticks]; exact ht) ets
  -- growth inside along the trace, for a state `i1` whose trackers are flipped into `trk`
  have key : ∀ (i1 : Inc) (trk : List (Int × List DC)), IncPart s.fees i1 → flipTicks (accValues i1) trs i1.trackers = some trk →
      ∀ q ∈ s.fees.pool.positions, ∀ k d, k < 6 →
        insU { i1 with trackers := trk } f'.pool.tick k d q.lower q.upper = insU i1 s.fees.pool.tick k d q.lower q.upper := by
    intro i1 trk hp1 hflip q hq k d hk
    obtain ⟨t1, t2⟩ := stored_tick_pairs hi.fees.pool.core hq
    obtain ⟨s1, s2⟩ := hp1.stored q hq
    obtain ⟨tl0, ol, gl, kl⟩ := getTr_k hp1 s1 hk
    obtain ⟨tu0, ou, gu, ku⟩ := getTr_k hp1 s2 hk
    obtain ⟨a1, ha1, _⟩ := hp1.get hk
    have hG : (accValues i1)[k]? = some a1.value := by unfold accValues; rw [List.getElem?_map, ha1]; rfl
    obtain ⟨tl1, tu1, ol', ou', g1, g2, k1, k2, e⟩ :=
      flipTicks_inside (hi.fees.pool.core.pos.range q hq) t1 t2 (accValues i1) k a1.value hG d trs _ _ _ _ tl0 tu0 ol ou htok hflip gl gu kl ku
    unfold insU
    rw [trAt_of (i := { i1 with trackers := trk }) g1 k1, trAt_of (i := { i1 with trackers := trk }) g2 k2, trAt_of gl kl, trAt_of gu ku]
    show insideI f'.pool.tick (amt (valAt i1.accs k) d) _ _ _ _ = _
    rw [valAt_of ha1]
    exact e
  split at h
  · -- no tick crossed: the incentive state is untouched, the tick moves inside its bucket
    rename_i hall
    simp only [Option.some.injEq, Prod.mk.injEq] at h
    obtain ⟨e1, _⟩ := h
    subst e1
    simp only at hf' sf ⊢
    refine ⟨⟨hf', hcong hi.inc⟩, sf.nextId, sf.desc, fun k d => by rw [dVal_self], ?_⟩
    intro q hq q' _ _ k d
    rw [dVal_self]
    have hz : (if q.lower ≤ s.fees.pool.tick ∧ s.fees.pool.tick < q.upper then (0 : Int) else 0) = 0 := by split <;> rfl
    rw [hz, Int.add_zero]
    rcases Nat.lt_or_ge k 6 with hk | hk
    · have := key s.inc s.inc.trackers hi.inc (flipTicks_none trs _ hall) q hq k d hk
      exact this
    · unfold insU trAt
      rw [valAt_ge _ (by rw [hi.inc.len]; exact hk)]
      have hnone : ∀ t, ((getTr s.inc.trackers t).bind (·[k]?)).getD [] = ([] : DC) := by
        intro t
        cases hg : getTr s.inc.trackers t with
        | none => rfl
        | some tl =>
          simp only [Option.bind_some]
          rw [List.getElem?_eq_none (by rw [(hi.inc.trOK t tl hg).1]; exact hk)]; rfl
      rw [hnone, hnone]
      simp [insideI, belowI, aboveI, amt]
  · simp only [Option.bind_eq_some_iff, Option.map_eq_some_iff, Prod.mk.injEq] at h
    obtain ⟨i1, hsync, trk, hflip, e1, _⟩ := h
    subst e1
    simp only at hf' sf ⊢
    obtain ⟨hp1, t1, _, _, _, _, _, g1, hg, _⟩ := sync_part hi.inc hsync
    have hvs : ∀ v ∈ accValues i1, sorted v = true := by
      intro v hv
      obtain ⟨a, ha, e⟩ := accValues_get v hv
      subst e; exact (hp1.accs a ha).sortedV
    have hvl : (accValues i1).length = 6 := by unfold accValues; rw [List.length_map, hp1.len]
    obtain ⟨r1, r2⟩ := flipTicks_ok hvl hvs trs _ _ hflip hp1.trOK
    have hpart : IncPart s.fees { i1 with trackers := trk } :=
      ⟨hp1.len, hp1.accs, fun q hq => by
          obtain ⟨a, b⟩ := hp1.stored q hq
          exact ⟨by show (getTr trk _).isSome = true; rw [r2]; exact a, by show (getTr trk _).isSome = true; rw [r2]; exact b⟩,
        r1, fun t ht => hp1.trTicks t (by rw [← r2]; exact ht), hp1.recsOK, hp1.factor, hp1.joinIds, hp1.joined⟩
    have hdv : ∀ k d, dVal s.inc { i1 with trackers := trk } k d = dVal s.inc i1 k d := fun k d => rfl
    refine ⟨⟨hf', hcong hpart⟩, sf.nextId, sf.desc, fun k d => by rw [hdv]; exact hg k d, ?_⟩
    intro q hq q' _ _ k d
    rw [hdv]
    rcases Nat.lt_or_ge k 6 with hk | hk
    · rw [key i1 trk hp1 hflip q hq k d hk]
      exact insU_step (hi.fees.pool.core.pos.range q hq) k d (by rw [t1]) (by rw [t1])
    · rw [dVal_ge6 hi.inc.len hp1.len hk]
      have hz : (if q.lower ≤ s.fees.pool.tick ∧ s.fees.pool.tick < q.upper then (0 : Int) else 0) = 0 := by split <;> rfl
      rw [hz, Int.add_zero]
      unfold insU trAt
      show insideI _ (amt (valAt i1.accs k) d) (amt (((getTr trk q.lower).bind (·[k]?)).getD []) d) (amt (((getTr trk q.upper).bind (·[k]?)).getD []) d) _ _ = _
      rw [valAt_ge _ (by rw [hp1.len]; exact hk), valAt_ge _ (by rw [hi.inc.len]; exact hk)]
      have hnone : ∀ (trs : List (Int × List DC)), (∀ t tl, getTr trs t = some tl → tl.length = 6 ∧ ∀ v ∈ tl, sorted v = true) →
          ∀ t, ((getTr trs t).bind (·[k]?)).getD [] = ([] : DC) := by
        intro trs hok t
        cases hg : getTr trs t with
        | none => rfl
        | some tl =>
          simp only [Option.bind_some]
          rw [List.getElem?_eq_none (by rw [(hok t tl hg).1]; exact hk)]; rfl
      rw [hnone trk r1, hnone trk r1, hnone _ hi.inc.trOK, hnone _ hi.inc.trOK]
      simp [insideI, belowI, aboveI, amt]

/-! ## every message -/

theorem applyI_facts {s s' : Full} {op : IOp} (hi : IncInv s) (h : applyI s op = some s') : IStepFacts s s' := by
  have hfee := applyI_fees h
  cases op with
  | fee fop =>
    simp only [IOp.toFee] at hfee
    obtain ⟨hf', sf⟩ := apply_facts hi.fees hfee
    cases fop with
    | create o l u a0 a1 =>
      simp only [applyI, Option.map_eq_some_iff] at h
      obtain ⟨⟨s1, id, x0, x1, liq, lo, up⟩, h, e⟩ := h
      simp only at e; subst e
      exact createI_facts hi hf' sf h
    | withdraw o id liq =>
      simp only [applyI, Option.map_eq_some_iff] at h
      obtain ⟨⟨s1, o0, o1⟩, h, e⟩ := h
      simp only at e; subst e
      exact withdrawI_facts hi hf' sf h
    | add o id a0 a1 =>
      simp only [applyI, Option.map_eq_some_iff] at h
      obtain ⟨⟨s2, nid, x0, x1⟩, h, e⟩ := h
      simp only at e; subst e
      exact addI_facts hi hf' h
    | transfer sd id n => exact transferI_facts hi hf' sf h
    | swap og zfo spec =>
      simp only [applyI, Option.map_eq_some_iff] at h
      obtain ⟨⟨s1, ain, aout, fee⟩, h, e⟩ := h
      simp only at e; subst e
      exact swapI_facts hi hf' sf h
    | collect sd id =>
      simp only [applyI, Option.map_eq_some_iff] at h
      obtain ⟨⟨s1, c0, c1⟩, h, e⟩ := h
      simp only at e; subst e
      exact collectSpreadI_facts hi hf' sf h
  | incentive id d a r st u => exact createIncentiveI_facts hi h
  | advance ns =>
    simp only [applyI, Option.some.injEq] at h
    subst h
    exact advanceI_facts hi ns
  | sync => exact syncNowI_facts hi h
  | icollect sd id =>
    simp only [applyI, Option.map_eq_some_iff] at h
    obtain ⟨⟨s1, c, f⟩, h, e⟩ := h
    simp only at e; subst e
    exact collectIncentivesI_facts hi h

theorem stepI_cases (s : Full) (op : IOp) : stepI s op = s ∨ ∃ s', applyI s op = some s' ∧ stepI s op = s' := by
  unfold stepI
  cases h : applyI s op with
  | none => exact Or.inl rfl
  | some s' => exact Or.inr ⟨s', rfl, rfl⟩

theorem stepI_facts {s : Full} (op : IOp) (hi : IncInv s) : IStepFacts s (stepI s op) := by
  rcases stepI_cases s op with h | ⟨s', h, e⟩
  · rw [h]; exact IStepFacts.refl hi
  · rw [e]; exact applyI_facts hi h

theorem runI_inv {s : Full} (ops : List IOp) (hi : IncInv s) : IncInv (runI s ops) := by
  induction ops generalizing s with
  | nil => exact hi
  | cons op ops ih => exact ih (stepI_facts op hi).inv

/-! ## growth inside over a history -/

/-- an emission / re-deposit event: the tick before the message and the growth of every accumulator value. -/
abbrev EvI := Int × (Nat → String → Int)

def evSumI (k : Nat) (d : String) (l u : Int) : List EvI → Int
  | [] => 0
  | e :: es => (if l ≤ e.1 ∧ e.1 < u then e.2 k d else 0) + evSumI k d l u es

/-- the events of a history: one per message, at the tick the pool had before it (failed messages change nothing). -/
def histI (s : Full) : List IOp → List EvI
  | [] => []
  | op :: ops => (s.fees.pool.tick, dVal s.inc (stepI s op).inc) :: histI (stepI s op) ops

theorem runI_desc {s : Full} (ops : List IOp) (hi : IncInv s) :
    s.fees.pool.nextId ≤ (runI s ops).fees.pool.nextId ∧
    ∀ q' ∈ (runI s ops).fees.pool.positions,
      (∃ q ∈ s.fees.pool.positions, q.id = q'.id ∧ q.lower = q'.lower ∧ q.upper = q'.upper) ∨ s.fees.pool.nextId ≤ q'.id := by
  induction ops generalizing s with
  | nil => exact ⟨Nat.le_refl _, fun q' hq' => Or.inl ⟨q', hq', rfl, rfl, rfl⟩⟩
  | cons op ops ih =>
    have sf := stepI_facts op hi
    obtain ⟨n1, d1⟩ := ih sf.inv
    refine ⟨Nat.le_trans sf.nextId n1, fun q' hq' => ?_⟩
    rcases d1 q' hq' with ⟨q1, hq1, a0, a1, a2⟩ | hge
    · rcases sf.desc q1 hq1 with ⟨q, hq, b0, b1, b2⟩ | hge
      · exact Or.inl ⟨q, hq, by rw [b0, a0], by rw [b1, a1], by rw [b2, a2]⟩
      · exact Or.inr (by omega)
    · exact Or.inr (by have := sf.nextId; omega)

theorem runI_inside {s : Full} (ops : List IOp) (hi : IncInv s) :
    ∀ q ∈ s.fees.pool.positions, ∀ q' ∈ (runI s ops).fees.pool.positions, q'.id = q.id →
      q'.lower = q.lower ∧ q'.upper = q.upper ∧
      ∀ k d, insU (runI s ops).inc (runI s ops).fees.pool.tick k d q.lower q.upper =
        insU s.inc s.fees.pool.tick k d q.lower q.upper + evSumI k d q.lower q.upper (histI s ops) := by
  induction ops generalizing s with
  | nil =>
    intro q hq q' hq' hid
    have : q' = q := mem_eq_of_id hi.fees.pool.core.pos.uniq hq' hq hid
    subst this
    exact ⟨rfl, rfl, fun k d => by simp [runI, histI, evSumI]⟩
  | cons op ops ih =>
    intro q hq q' hq' hid
    have sf := stepI_facts op hi
    have hlt := hi.fees.pool.core.pos.idsLt q hq
    obtain ⟨_, d1⟩ := runI_desc ops sf.inv
    rcases d1 q' hq' with ⟨q1, hq1, a0, a1, a2⟩ | hge
    · have e1 : q1.id = q.id := by rw [a0, hid]
      obtain ⟨hr1, hr2⟩ := same_range hi.fees.pool.core sf.desc hq hq1 e1
      obtain ⟨r1, r2, r3⟩ := ih sf.inv q1 hq1 q' hq' a0.symm
      rw [hr1] at r1; rw [hr2] at r2
      refine ⟨r1, r2, fun k d => ?_⟩
      have s1 := sf.inside q hq q1 hq1 e1 k d
      have s2 := r3 k d
      rw [hr1, hr2] at s2
      show insU (runI (stepI s op) ops).inc (runI (stepI s op) ops).fees.pool.tick k d q.lower q.upper = _
      rw [s2, s1]
      simp only [histI, evSumI]; omega
    · have := sf.nextId; omega

end OsmoVerif.CLIncP
