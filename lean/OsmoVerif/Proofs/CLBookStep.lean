/-
C07 helpers, part 7: the invariants at the level of `step` / `run`: core (ticks, positions, ids, empty pool),
price/tick agreement, active liquidity, identity of position records.  Core only.
-/
import OsmoVerif.Proofs.CLBookSwap

namespace OsmoVerif.CLBook
open OsmoVerif.CLPool OsmoVerif.CL OsmoVerif.Num OsmoVerif.Tick OsmoVerif.Gen

/-! ## computeSwap / execSwap -/

theorem guard_some_bind {α} (c : Prop) [Decidable c] (f : Unit → Option α) (x : α) :
    ((if c then none else some ()) : Option Unit).bind f = some x ↔ ¬ c ∧ f () = some x := by
  split <;> simp [*]

theorem computeSwap_spec {og zfo : Bool} {spf priceLimit : Int} {pool : PoolSt} {ticks : Ticks} {specified : Int} {r : SwapOut}
    (h : computeSwap og zfo spf priceLimit pool ticks specified = some r) :
    ∃ limit st steps crossed, sqrtPriceLimit priceLimit zfo = some limit ∧
      swapLoop og zfo spf limit (2 * ticks.length + CL.swapNoProgressLimit + 8)
        { remaining := specified * P18, calculated := 0, pool := pool, spreadTotal := 0, noProgress := 0 }
        (ticksAhead zfo ticks pool.tick) 0 0 = some (st, steps, crossed) ∧ r.pool = st.pool := by
  unfold computeSwap at h
  have key : ∀ limit, ((swapLoop og zfo spf limit (2 * ticks.length + CL.swapNoProgressLimit + 8)
        { remaining := specified * P18, calculated := 0, pool := pool, spreadTotal := 0, noProgress := 0 }
        (ticksAhead zfo ticks pool.tick) 0 0).bind fun x =>
          if x.1.remaining < 0 then none else
          if og = true then
            (Dec.sub (specified * P18) x.1.remaining).bind fun used =>
              ((Dec.ceil used).bind Dec.truncateInt).bind fun ain =>
                (Dec.truncateInt x.1.calculated).bind fun aout =>
                  some ({ amountIn := ain, amountOut := aout, spreadRewards := x.1.spreadTotal,
                          pool := x.1.pool, steps := x.2.1, crossed := x.2.2 } : SwapOut)
          else
            ((Dec.ceil x.1.calculated).bind Dec.truncateInt).bind fun ain =>
              (Dec.sub (specified * P18) x.1.remaining).bind fun got =>
                (Dec.truncateInt got).bind fun aout =>
                  some ({ amountIn := ain, amountOut := aout, spreadRewards := x.1.spreadTotal,
                          pool := x.1.pool, steps := x.2.1, crossed := x.2.2 } : SwapOut)) = some r →
      ∃ st steps crossed, swapLoop og zfo spf limit (2 * ticks.length + CL.swapNoProgressLimit + 8)
        { remaining := specified * P18, calculated := 0, pool := pool, spreadTotal := 0, noProgress := 0 }
        (ticksAhead zfo ticks pool.tick) 0 0 = some (st, steps, crossed) ∧ r.pool = st.pool := by
    intro limit h
    simp only [Option.bind_eq_some_iff, ite_none_eq_some] at h
    obtain ⟨⟨st, steps, crossed⟩, hloop, _, h⟩ := h
    refine ⟨st, steps, crossed, hloop, ?_⟩
    cases og
    · simp only [Bool.false_eq_true, ↓reduceIte, Option.bind_eq_some_iff, Option.some.injEq] at h
      obtain ⟨_, _, _, _, _, _, h⟩ := h
      rw [← h]
    · simp only [↓reduceIte, Option.bind_eq_some_iff, Option.some.injEq] at h
      obtain ⟨_, _, _, _, _, _, h⟩ := h
      rw [← h]
  simp only [Option.bind_eq_bind] at h
  rw [Option.bind_eq_some_iff] at h
  obtain ⟨limit, hl, h⟩ := h
  cases zfo
  · simp only [Bool.false_eq_true, ↓reduceIte, guard_some_bind] at h
    obtain ⟨st, steps, crossed, h1, h2⟩ := key limit h.2
    exact ⟨limit, st, steps, crossed, hl, h1, h2⟩
  · simp only [↓reduceIte, guard_some_bind] at h
    obtain ⟨st, steps, crossed, h1, h2⟩ := key limit h.2
    exact ⟨limit, st, steps, crossed, hl, h1, h2⟩

theorem execSwap_spec {og zfo : Bool} {spf : Int} {pool : PoolSt} {ticks : Ticks} {specified : Int} {r : SwapOut} {fee : Int}
    (h : execSwap og zfo spf pool ticks specified = some (r, fee)) :
    computeSwap og zfo spf (execPriceLimit zfo) pool ticks specified = some r := by
  unfold execSwap at h
  simp only [Option.bind_eq_bind, Option.bind_eq_some_iff] at h
  obtain ⟨r', hr, h⟩ := h
  split at h
  · cases h
  · split at h
    · cases h
    · simp only [Option.bind_eq_some_iff, ite_none_eq_some, Option.some.injEq, Prod.mk.injEq] at h
      obtain ⟨_, _, _, h1, _⟩ := h
      rw [← h1]; exact hr

/-! ## price/tick agreement and the monotone-run assumption -/

/-- clause (c) in its grid form: the spacing is positive and, when the pool has positions, the current sqrt
price is positive and, together with the current tick, classifies every tick on the spacing grid consistently. -/
def InvPrice (p : Pool) : Prop :=
  0 < p.spacing ∧ (p.positions ≠ [] → Agree p.spacing p.sqrtPrice p.tick ∧ 0 < p.sqrtPrice)

/-- the tick list a swap iterates over. -/
def tickList (p : Pool) : Ticks := p.ticks.map fun t => (t.tick, t.net)

/-- no iteration of this swap's loop moves the sqrt price against the direction of the swap. -/
def SwapMono (p : Pool) (og zfo : Bool) (spec : Int) : Prop :=
  ∀ limit, sqrtPriceLimit (execPriceLimit zfo) zfo = some limit →
    MonoRun og zfo p.spf limit (2 * (tickList p).length + CL.swapNoProgressLimit + 8)
      { remaining := spec * P18, calculated := 0, pool := ⟨p.sqrtPrice, p.tick, p.liquidity⟩, spreadTotal := 0,
        noProgress := 0 }
      (ticksAhead zfo (tickList p) p.tick)

/-- `SwapMono` for every swap of the history, evaluated in the state the swap is applied to. -/
def HistoryMono (p : Pool) : List Op → Prop
  | [] => True
  | op :: ops =>
    (match op with
     | .swap og zfo spec => SwapMono p og zfo spec
     | _ => True) ∧ HistoryMono (step p op) ops

theorem swap_loop_of_some {p : Pool} {og zfo : Bool} {spec : Int} {p' : Pool} {ain aout fee : Int}
    (h : CLPool.swap p og zfo spec = some (p', ain, aout, fee)) :
    ∃ limit st steps crossed, sqrtPriceLimit (execPriceLimit zfo) zfo = some limit ∧
      swapLoop og zfo p.spf limit (2 * (tickList p).length + CL.swapNoProgressLimit + 8)
        { remaining := spec * P18, calculated := 0, pool := ⟨p.sqrtPrice, p.tick, p.liquidity⟩, spreadTotal := 0,
          noProgress := 0 }
        (ticksAhead zfo (tickList p) p.tick) 0 0 = some (st, steps, crossed) ∧
      p'.sqrtPrice = st.pool.sqrtPrice ∧ p'.tick = st.pool.tick ∧ p'.liquidity = st.pool.liquidity := by
  obtain ⟨r, f, _, hex, e1, e2, e3, _⟩ := swap_some h
  obtain ⟨limit, st, steps, crossed, hl, hloop, hp⟩ := computeSwap_spec (execSwap_spec hex)
  exact ⟨limit, st, steps, crossed, hl, hloop, by rw [e1, hp], by rw [e2, hp], by rw [e3, hp]⟩

theorem swap_price {p : Pool} {og zfo : Bool} {spec : Int} {p' : Pool} {ain aout fee : Int}
    (hp : InvPrice p) (h : CLPool.swap p og zfo spec = some (p', ain, aout, fee)) : InvPrice p' := by
  obtain ⟨r, f, hne, _, _, _, _, _, ep, _, es, _⟩ := swap_some h
  obtain ⟨limit, st, steps, crossed, _, hloop, e1, e2, _⟩ := swap_loop_of_some h
  refine ⟨by rw [es]; exact hp.1, fun _ => ?_⟩
  rw [es, e1, e2]
  exact ⟨swapLoop_agree _ _ _ _ _ _ _ _ hloop (hp.2 hne).1, swapLoop_pos _ _ _ _ _ _ _ _ hloop (hp.2 hne).2⟩

theorem swap_active {p : Pool} {og zfo : Bool} {spec : Int} {p' : Pool} {ain aout fee : Int}
    (hc : InvCore p) (hp : InvPrice p) (ha : InvActive p) (hm : SwapMono p og zfo spec)
    (h : CLPool.swap p og zfo spec = some (p', ain, aout, fee)) : InvActive p' := by
  obtain ⟨r, f, hne, _, _, _, _, _, ep, _, _, _⟩ := swap_some h
  obtain ⟨limit, st, steps, crossed, hl, hloop, _, e2, e3⟩ := swap_loop_of_some h
  unfold InvActive
  rw [e3, e2, ep]
  exact swapLoop_LA (ticksOK_of_core hc) _ _ _ _ _ _ _ _ hloop (hm limit hl) (hp.2 hne).1 ⟨ha, rfl⟩

/-! ## step -/

theorem step_cases (p : Pool) (op : Op) :
    step p op = p ∨ ∃ p', apply p op = some p' ∧ step p op = p' := by
  unfold step
  cases h : apply p op with
  | none => exact Or.inl rfl
  | some p' => exact Or.inr ⟨p', rfl, rfl⟩

/-- a failed operation is a no-op. -/
theorem failed_op_noop {p : Pool} {op : Op} (h : apply p op = none) : step p op = p := by
  unfold step; rw [h]

/-- everything the invariants need to know about one successful operation. -/
theorem apply_inv {p p' : Pool} {op : Op} (hc : InvCore p) (h : apply p op = some p') :
    InvCore p' ∧ p'.spacing = p.spacing ∧ p'.spf = p.spf ∧ p.nextId ≤ p'.nextId ∧
    (InvPrice p → InvPrice p') ∧
    (InvPrice p → InvActive p → (∀ og zfo spec, op = .swap og zfo spec → SwapMono p og zfo spec) → InvActive p') := by
  cases op with
  | create o l u a0 a1 =>
    simp only [apply, Option.map_eq_some_iff] at h
    obtain ⟨⟨p1, id, r0, r1, liq, l', u'⟩, h, e⟩ := h
    simp only at e; subst e
    obtain ⟨c, a, _, n, s, f, ne, k1, k2⟩ := create_inv hc h
    refine ⟨c, s, f, n, ?_, fun _ ha _ => a ha⟩
    intro hp
    refine ⟨by rw [s]; exact hp.1, fun _ => ?_⟩
    rw [s]
    by_cases hnil : p.positions = []
    · exact ⟨agree_of_roundDown hp.1 (k2 hnil), pos_of_roundDown (k2 hnil)⟩
    · rw [(k1 hnil).1, (k1 hnil).2]; exact hp.2 hnil
  | withdraw o id liq =>
    simp only [apply, Option.map_eq_some_iff] at h
    obtain ⟨⟨p1, o0, o1⟩, h, e⟩ := h
    simp only at e; subst e
    obtain ⟨c, a, _, n, s, f, k1, k2⟩ := withdraw_inv hc h
    refine ⟨c, s, f, by omega, ?_, fun _ ha _ => a ha⟩
    intro hp
    refine ⟨by rw [s]; exact hp.1, fun hne => ?_⟩
    have hne0 : p.positions ≠ [] := by
      intro hnil
      cases hps : p1.positions with
      | nil => exact hne hps
      | cons q qs =>
        obtain ⟨q0, hq0, _⟩ := k2 q (by rw [hps]; exact List.mem_cons_self)
        rw [hnil] at hq0; cases hq0
    rw [s, (k1 hne).1, (k1 hne).2]; exact hp.2 hne0
  | add o id a0 a1 =>
    simp only [apply, Option.map_eq_some_iff] at h
    obtain ⟨⟨p2, nid, r0, r1⟩, h, e⟩ := h
    simp only at e; subst e
    obtain ⟨pos, p1, w0, w1, liq, l', u', hw, hcr⟩ := addToPosition_some h
    obtain ⟨c1, a1', _, n1, s1, f1, k1, k2⟩ := withdraw_inv hc hw
    obtain ⟨c2, a2, _, n2, s2, f2, ne2, j1, j2⟩ := create_inv c1 hcr
    refine ⟨c2, by rw [s2, s1], by rw [f2, f1], by omega, ?_, fun _ ha _ => a2 (a1' ha)⟩
    intro hp
    refine ⟨by rw [s2, s1]; exact hp.1, fun _ => ?_⟩
    rw [s2]
    by_cases hnil : p1.positions = []
    · exact ⟨agree_of_roundDown (by rw [s1]; exact hp.1) (j2 hnil), pos_of_roundDown (j2 hnil)⟩
    · have hne0 : p.positions ≠ [] := by
        intro hn
        cases hps : p1.positions with
        | nil => exact hnil hps
        | cons q qs =>
          obtain ⟨q0, hq0, _⟩ := k2 q (by rw [hps]; exact List.mem_cons_self)
          rw [hn] at hq0; cases hq0
      rw [(j1 hnil).1, (j1 hnil).2, s1, (k1 hnil).1, (k1 hnil).2]; exact hp.2 hne0
  | transfer sd id no =>
    simp only [apply] at h
    obtain ⟨c, a, ep, _, n, s, f, e1, e2, k⟩ := transfer_inv hc h
    refine ⟨c, s, f, by omega, ?_, fun _ ha _ => a ha⟩
    intro hp
    refine ⟨by rw [s]; exact hp.1, fun hne => ?_⟩
    have hne0 : p.positions ≠ [] := by
      intro hnil; rw [ep, hnil] at hne; exact hne rfl
    rw [s, e1, e2]; exact hp.2 hne0
  | swap og zfo spec =>
    simp only [apply, Option.map_eq_some_iff] at h
    obtain ⟨⟨p1, ain, aout, fee⟩, h, e⟩ := h
    simp only at e; subst e
    obtain ⟨c, _, n, s, f, _⟩ := swap_core hc h
    exact ⟨c, s, f, by omega, fun hp => swap_price hp h, fun hp ha hm => swap_active hc hp ha (hm _ _ _ rfl) h⟩

theorem step_core {p : Pool} (op : Op) (hc : InvCore p) : InvCore (step p op) := by
  rcases step_cases p op with h | ⟨p', h, e⟩
  · rw [h]; exact hc
  · rw [e]; exact (apply_inv hc h).1

theorem step_price {p : Pool} (op : Op) (hc : InvCore p) (hp : InvPrice p) : InvPrice (step p op) := by
  rcases step_cases p op with h | ⟨p', h, e⟩
  · rw [h]; exact hp
  · rw [e]; exact (apply_inv hc h).2.2.2.2.1 hp

theorem step_active {p : Pool} (op : Op) (hc : InvCore p) (hp : InvPrice p) (ha : InvActive p)
    (hm : ∀ og zfo spec, op = .swap og zfo spec → SwapMono p og zfo spec) : InvActive (step p op) := by
  rcases step_cases p op with h | ⟨p', h, e⟩
  · rw [h]; exact ha
  · rw [e]; exact (apply_inv hc h).2.2.2.2.2 hp ha hm

theorem initPool_price {s : Int} (f : Int) (hs : 0 < s) : InvPrice (initPool s f) :=
  ⟨hs, fun hne => absurd rfl hne⟩

/-! ## run -/

theorem run_core {p : Pool} (ops : List Op) (hc : InvCore p) : InvCore (run p ops) := by
  induction ops generalizing p with
  | nil => exact hc
  | cons op ops ih => exact ih (step_core op hc)

theorem run_price {p : Pool} (ops : List Op) (hc : InvCore p) (hp : InvPrice p) : InvPrice (run p ops) := by
  induction ops generalizing p with
  | nil => exact hp
  | cons op ops ih => exact ih (step_core op hc) (step_price op hc hp)

theorem run_active {p : Pool} (ops : List Op) (hc : InvCore p) (hp : InvPrice p) (ha : InvActive p)
    (hm : HistoryMono p ops) : InvActive (run p ops) := by
  induction ops generalizing p with
  | nil => exact ha
  | cons op ops ih =>
    refine ih (step_core op hc) (step_price op hc hp) (step_active op hc hp ha ?_) hm.2
    intro og zfo spec e
    subst e
    exact hm.1

/-! ## identity of position records -/

theorem apply_desc {p p' : Pool} {op : Op} (hc : InvCore p) (h : apply p op = some p') :
    ∀ q' ∈ p'.positions,
      (∃ q ∈ p.positions, q.id = q'.id ∧ q.lower = q'.lower ∧ q.upper = q'.upper ∧
        (q.owner = q'.owner ∨ ∃ newOwner, op = .transfer q.owner q.id newOwner ∧ q'.owner = newOwner)) ∨
      p.nextId ≤ q'.id := by
  have weaken : Desc p.positions p.nextId p'.positions → ∀ q' ∈ p'.positions,
      (∃ q ∈ p.positions, q.id = q'.id ∧ q.lower = q'.lower ∧ q.upper = q'.upper ∧
        (q.owner = q'.owner ∨ ∃ newOwner, op = .transfer q.owner q.id newOwner ∧ q'.owner = newOwner)) ∨
      p.nextId ≤ q'.id := by
    intro hd q' hq'
    rcases hd q' hq' with ⟨q, hq, e0, e1, e2, e3⟩ | hge
    · exact Or.inl ⟨q, hq, e0, e2, e3, Or.inl e1⟩
    · exact Or.inr hge
  cases op with
  | create o l u a0 a1 =>
    simp only [apply, Option.map_eq_some_iff] at h
    obtain ⟨⟨p1, id, r0, r1, liq, l', u'⟩, h, e⟩ := h
    simp only at e; subst e
    exact weaken (create_inv hc h).2.2.1
  | withdraw o id liq =>
    simp only [apply, Option.map_eq_some_iff] at h
    obtain ⟨⟨p1, o0, o1⟩, h, e⟩ := h
    simp only at e; subst e
    exact weaken (withdraw_inv hc h).2.2.1
  | add o id a0 a1 =>
    simp only [apply, Option.map_eq_some_iff] at h
    obtain ⟨⟨p2, nid, r0, r1⟩, h, e⟩ := h
    simp only at e; subst e
    exact weaken (add_inv hc h).2.2.1
  | transfer sd id no =>
    simp only [apply] at h
    obtain ⟨_, _, ep, ⟨pos, hpos, hid, hown⟩, _⟩ := transfer_inv hc h
    intro q' hq'
    rw [ep] at hq'
    obtain ⟨q, hq, e⟩ := List.mem_map.mp hq'
    subst e
    refine Or.inl ⟨q, hq, ?_⟩
    split
    · rename_i hqid
      refine ⟨rfl, rfl, rfl, Or.inr ⟨no, ?_, rfl⟩⟩
      have : q = pos := mem_eq_of_id hc.pos.uniq hq hpos (by rw [hqid, hid])
      rw [this, hown, hid]
    · exact ⟨rfl, rfl, rfl, Or.inl rfl⟩
  | swap og zfo spec =>
    simp only [apply, Option.map_eq_some_iff] at h
    obtain ⟨⟨p1, ain, aout, fee⟩, h, e⟩ := h
    simp only at e; subst e
    have ep := (swap_core hc h).2.1
    exact weaken (by rw [ep]; exact Desc.refl _ _)

end OsmoVerif.CLBook
