/- C11, stake tracking between refreshes at any exchange rate: along any sequence of `mintOsmoTokensAndDelegate` /
`forceUndelegateAndBurnOsmoTokens` calls (what delegate / undelegate / add-to-lock / undelegate-and-unbond and the
refresh do to the staking module), an account's exact stake follows the amounts minted for it and requested to be burnt
from it, up to `1 + ρ` tokens per call on its validator. -/
import OsmoVerif.Proofs.SuperfluidRefreshEpoch

namespace OsmoVerif.Superfluid
open OsmoVerif.Num OsmoVerif.Spec

/-- one call into the staking module. -/
inductive StkEv
  | mint (a : Int) (key : AccKey)
  | burn (a : Int) (key : AccKey)

def StkEv.key : StkEv → AccKey
  | .mint _ k => k
  | .burn _ k => k

def applyEv (s : SState) : StkEv → Except Err SState
  | .mint a key => mintS s a key
  | .burn a key => burnS s a key

/-- run the calls; a failed call ends the run (the surrounding message fails). -/
def runEv : SState → List StkEv → Except Err SState
  | s, [] => .ok s
  | s, ev :: r =>
    match applyEv s ev with
    | .error e => .error e
    | .ok s1 => runEv s1 r

/-- the states the calls go through. -/
def evStates : SState → List StkEv → List SState
  | s, [] => [s]
  | s, ev :: r =>
    s :: (match applyEv s ev with
          | .ok s1 => evStates s1 r
          | .error _ => [])

/-- what the calls nominally do to account `k`'s stake: `+a` for a mint for `k`, `−a` for a burn requested from `k`
(a burn from an account without delegation record is a no-op of the code: `ErrNoDelegation ⇒ nil`). -/
def evNom (k : AccKey) (s : SState) : StkEv → Int
  | .mint a key => if key = k then a else 0
  | .burn a key => if key = k ∧ (s.k.dsh k).isSome then -a else 0

def nomAlong (k : AccKey) : SState → List StkEv → Int
  | _, [] => 0
  | s, ev :: r =>
    evNom k s ev +
    (match applyEv s ev with
     | .ok s1 => nomAlong k s1 r
     | .error _ => 0)

/-- the number of calls on validator `v`. -/
def callsOn (v : Nat) : List StkEv → Nat
  | [] => 0
  | ev :: r => (if ev.key.2 = v then 1 else 0) + callsOn v r

/-- validator `v` has tokens and shares, at most `p/q` tokens per raw share. -/
def healthyRB (p q : Int) (v : Nat) (st : SState) : Bool :=
  decide (0 < (st.k.val v).tokens ∧ 0 < (st.k.val v).shares ∧ (st.k.val v).tokens * q ≤ p * (st.k.val v).shares)

structure HealthyR (p q : Int) (v : Nat) (st : SState) : Prop where
  T : 0 < (st.k.val v).tokens
  S : 0 < (st.k.val v).shares
  rate : (st.k.val v).tokens * q ≤ p * (st.k.val v).shares

theorem healthyR_of_B {p q : Int} {v : Nat} {st : SState} (h : healthyRB p q v st = true) : HealthyR p q v st := by
  unfold healthyRB at h
  obtain ⟨a, b, c⟩ := of_decide_eq_true h
  exact ⟨a, b, c⟩

theorem HealthyR.rateQ_le {p q : Int} {v : Nat} {st : SState} (h : HealthyR p q v st) (hq : 0 < q) :
    0 < rateQ st.k v ∧ rateQ st.k v ≤ (p : ℚ) / q := by
  have hSq : (0 : ℚ) < ((st.k.val v).shares : ℚ) := by exact_mod_cast h.S
  have hTq : (0 : ℚ) < ((st.k.val v).tokens : ℚ) := by exact_mod_cast h.T
  have hqq : (0 : ℚ) < (q : ℚ) := by exact_mod_cast hq
  have c : (((st.k.val v).tokens * q : Int) : ℚ) ≤ ((p * (st.k.val v).shares : Int) : ℚ) := by exact_mod_cast h.rate
  push_cast at c
  unfold rateQ
  refine ⟨div_pos hTq hSq, ?_⟩
  rw [div_le_div_iff₀ hSq hqq]
  exact c

/-- **one call, seen by account `k`**: the share invariant of `k`'s validator is kept, and `k`'s exact stake moves by the
nominal amount up to `[−ρ − ½·10⁻¹⁸, ρ + 1]` if the call is on `k`'s validator — not at all otherwise. -/
theorem applyEv_stake {s s' : SState} {ev : StkEv} {k : AccKey} {p q : Int} (hI : ShareInvV s.k k.2) (hq : 0 < q)
    (hH : HealthyR p q k.2 s) (hc : applyEv s ev = .ok s') :
    ShareInvV s'.k k.2 ∧
    -((if ev.key.2 = k.2 then 1 else 0 : Nat) : ℚ) * ((p : ℚ) / q + uQ / 2) ≤
      stakeQ s'.k k - stakeQ s.k k - (evNom k s ev : ℚ) ∧
    stakeQ s'.k k - stakeQ s.k k - (evNom k s ev : ℚ) ≤
      ((if ev.key.2 = k.2 then 1 else 0 : Nat) : ℚ) * ((p : ℚ) / q + 1) := by
  obtain ⟨hr0, hr1⟩ := hH.rateQ_le hq
  have hu := uQ_pos
  have hρ : (0 : ℚ) < (p : ℚ) / q := lt_of_lt_of_le hr0 hr1
  have hT := hH.T
  have hS := hH.S
  cases ev with
  | mint a key =>
    have hm : mintS s a key = .ok s' := hc
    obtain ⟨f1, f2⟩ := mintS_frame hm
    have hnom : evNom k s (.mint a key) = (if key = k then a else 0) := rfl
    rw [hnom]
    show ShareInvV s'.k k.2 ∧ -((if key.2 = k.2 then 1 else 0 : Nat) : ℚ) * _ ≤ _ ∧ _ ≤ ((if key.2 = k.2 then 1 else 0 : Nat) : ℚ) * _
    by_cases hv : key.2 = k.2
    · have hT' : 0 < (s.k.val key.2).tokens := by rw [hv]; exact hT
      have hS' : 0 < (s.k.val key.2).shares := by rw [hv]; exact hS
      have hI' := shareInvV_mintS (v := k.2) hI (fun _ => ⟨hT', hS'⟩) hm
      rw [if_pos hv]
      by_cases hk : key = k
      · subst hk
        obtain ⟨m1, m2⟩ := mintS_stakeQ_own hT hS (hI.1 key rfl) hI.le hm
        rw [if_pos rfl]
        refine ⟨hI', ?_, ?_⟩ <;> push_cast <;> linarith
      · have hdS : shOf s.k k ≤ (s.k.val key.2).shares := by rw [hv]; exact hI.le
        obtain ⟨m1, m2⟩ := mintS_stakeQ_other (fun h => hk h.symm) hv.symm hT' hS' (hI.1 k rfl) hdS hm
        rw [hv] at m2
        rw [if_neg hk]
        refine ⟨hI', ?_, ?_⟩ <;> push_cast <;> linarith
    · have e1 : shOf s'.k k = shOf s.k k := shOf_frame f1 k (fun h => hv (by rw [h]))
      have e2 : s'.k.val k.2 = s.k.val k.2 := f2 k.2 (fun h => hv h.symm)
      have hk : key ≠ k := fun h => hv (by rw [h])
      rw [if_neg hv, if_neg hk, stakeQ_frame e1 e2]
      refine ⟨hI.frame hv (shOf_frame f1) f2, ?_, ?_⟩ <;> simp
  | burn a key =>
    have hb : burnS s a key = .ok s' := hc
    obtain ⟨f1, f2⟩ := burnS_frame hb
    have hnom : evNom k s (.burn a key) = (if key = k ∧ (s.k.dsh k).isSome then -a else 0) := rfl
    rw [hnom]
    show ShareInvV s'.k k.2 ∧ -((if key.2 = k.2 then 1 else 0 : Nat) : ℚ) * _ ≤ _ ∧ _ ≤ ((if key.2 = k.2 then 1 else 0 : Nat) : ℚ) * _
    by_cases hv : key.2 = k.2
    · have hT' : 0 < (s.k.val key.2).tokens := by rw [hv]; exact hT
      have hS' : 0 < (s.k.val key.2).shares := by rw [hv]; exact hS
      have hI' := shareInvV_burnS (v := k.2) hI (fun _ => ⟨hT', hS'⟩) hb
      rw [if_pos hv]
      cases hd : s.k.dsh key with
      | none =>
        -- no delegation record: nothing happens
        rcases (burnS_ok hb).2 with ⟨_, hs'⟩ | ⟨d0, _, _, _, _, hd0, _⟩
        · subst hs'
          have : ¬ (key = k ∧ (s'.k.dsh k).isSome = true) := by
            rintro ⟨h1, h2⟩; subst h1; rw [hd] at h2; cases h2
          rw [if_neg this]
          refine ⟨hI, ?_, ?_⟩ <;> push_cast <;> simp <;> linarith
        · rw [hd] at hd0; cases hd0
      | some d =>
        by_cases hk : key = k
        · subst hk
          have hd0 : 0 ≤ d := by have := hI.1 key rfl; rw [shOf_of_some hd] at this; exact this
          have hdS : d ≤ (s.k.val key.2).shares := by have := hI.le (key := key); rw [shOf_of_some hd] at this; exact this
          obtain ⟨b1, b2, _, b4, b5, _⟩ := burnS_stakeQ_own hT hS hd hd0 hdS hb
          have hf := (fracQ_bounds b4 b5).2
          have : (key = key ∧ (s.k.dsh key).isSome = true) := ⟨rfl, by rw [hd]; rfl⟩
          rw [if_pos this]
          refine ⟨hI', ?_, ?_⟩ <;> push_cast <;> linarith
        · have hsum : shOf s.k k + d ≤ (s.k.val key.2).shares := by
            have := hI.le2 (k1 := key) (k2 := k) hk hv
            rw [shOf_of_some hd] at this
            rw [hv]; omega
          obtain ⟨b1, b2, b3, _⟩ := burnS_stakeQ_other (fun h => hk h.symm) hv.symm hT' hS' hd (hI.1 k rfl) hsum hb
          have : ¬ (key = k ∧ (s.k.dsh k).isSome = true) := fun h => hk h.1
          rw [if_neg this]
          refine ⟨hI', ?_, ?_⟩ <;> push_cast <;> linarith
    · have e1 : shOf s'.k k = shOf s.k k := shOf_frame f1 k (fun h => hv (by rw [h]))
      have e2 : s'.k.val k.2 = s.k.val k.2 := f2 k.2 (fun h => hv h.symm)
      have hk : ¬ (key = k ∧ (s.k.dsh k).isSome = true) := fun h => hv (by rw [h.1])
      rw [if_neg hv, if_neg hk, stakeQ_frame e1 e2]
      refine ⟨hI.frame hv (shOf_frame f1) f2, ?_, ?_⟩ <;> simp

theorem nomAlong_cons {k : AccKey} {s s1 : SState} {ev : StkEv} {r : List StkEv} (h1 : applyEv s ev = .ok s1) :
    nomAlong k s (ev :: r) = evNom k s ev + nomAlong k s1 r := by
  show evNom k s ev + (match applyEv s ev with | .ok s1 => nomAlong k s1 r | .error _ => 0) = _
  rw [h1]

theorem evStates_cons {s s1 : SState} {ev : StkEv} {r : List StkEv} (h1 : applyEv s ev = .ok s1) :
    evStates s (ev :: r) = s :: evStates s1 r := by
  conv_lhs => unfold evStates
  rw [h1]

theorem evStates_self (s : SState) (l : List StkEv) : s ∈ evStates s l := by
  cases l with
  | nil => simp [evStates]
  | cons x r => simp [evStates]

/-- **STAKE TRACKING BETWEEN REFRESHES, any exchange rate** (the induction over the calls): along any sequence of
successful mint / burn calls, on a validator that stays healthy (tokens, shares, at most `ρ = p/q` tokens per raw share),
account `k`'s exact stake moves by the nominal amount — what was minted for it minus what was asked to be burnt from it —
up to `ρ + 1` tokens (down: `ρ + ½·10⁻¹⁸`) per CALL on its validator since the start (the last refresh). -/
theorem runEv_stake {k : AccKey} {p q : Int} (hq : 0 < q) :
    ∀ (evs : List StkEv) (s s' : SState), runEv s evs = .ok s' → ShareInvV s.k k.2 →
      (∀ st, st ∈ evStates s evs → HealthyR p q k.2 st) →
      ShareInvV s'.k k.2 ∧
      -(callsOn k.2 evs : ℚ) * ((p : ℚ) / q + uQ / 2) ≤ stakeQ s'.k k - stakeQ s.k k - (nomAlong k s evs : ℚ) ∧
      stakeQ s'.k k - stakeQ s.k k - (nomAlong k s evs : ℚ) ≤ (callsOn k.2 evs : ℚ) * ((p : ℚ) / q + 1)
  | [], s, s', hc, hI, _ => by
    unfold runEv at hc; injection hc with hc; subst hc
    simp [callsOn, nomAlong, hI]
  | ev :: r, s, s', hc, hI, hH => by
    unfold runEv at hc
    split at hc
    · cases hc
    · rename_i s1 h1
      obtain ⟨i1, a1, a2⟩ := applyEv_stake hI hq (hH s (evStates_self _ _)) h1
      have hH' : ∀ st, st ∈ evStates s1 r → HealthyR p q k.2 st := by
        intro st hst; apply hH; rw [evStates_cons h1]; exact List.mem_cons_of_mem _ hst
      obtain ⟨i2, b1, b2⟩ := runEv_stake hq r s1 s' hc i1 hH'
      rw [nomAlong_cons h1]
      have hcalls : (callsOn k.2 (ev :: r) : ℚ) = ((if ev.key.2 = k.2 then 1 else 0 : Nat) : ℚ) + (callsOn k.2 r : ℚ) := by
        show (((if ev.key.2 = k.2 then 1 else 0) + callsOn k.2 r : Nat) : ℚ) = _
        push_cast; rfl
      rw [hcalls]
      push_cast at a1 a2 ⊢
      refine ⟨i2, ?_, ?_⟩ <;> linarith

end OsmoVerif.Superfluid
