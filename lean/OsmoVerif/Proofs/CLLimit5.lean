/-
C03 with a caller-supplied price limit, part 5: executed swaps and estimates with the SAME limit.
The model fixes the limit of executed swaps to `GetPriceLimit` (`CL.execSwap`, `CL.execSwapS`, `CLPool.swap`: what the
messages pass).  `swapOutAmtGivenIn` / `swapInAmtGivenOut` themselves take the limit as a parameter; `execSwapL` /
`swapL` below are that code path with the limit exposed (spec-level readings; `execSwapL_default`, `swapL_default`: with
`GetPriceLimit` they ARE the model's functions).  An executed swap runs the loop with the accumulator update
(`computeSwapS`), an estimate without (`computeSwap`); the update can only fail (`computeSwapS_some`).
Core only.
-/
import OsmoVerif.Proofs.CLBookStep
import OsmoVerif.Proofs.CLRound4

namespace OsmoVerif.CLLimit
open OsmoVerif.CLPool OsmoVerif.CLBook OsmoVerif.CL OsmoVerif.Num OsmoVerif.Gen

theorem loopBodyS_some {scale : Int} {og zfo : Bool} {spf limit : Int} {st : SwapSt} {ahead : Ticks}
    {x : SwapSt × Ticks × Bool} (h : loopBodyS scale og zfo spf limit st ahead = some x) :
    loopBody og zfo spf limit st ahead = some x := by
  unfold loopBodyS at h
  obtain ⟨c, _, h1⟩ := Option.bind_eq_some_iff.mp h
  obtain ⟨_, _, h2⟩ := Option.bind_eq_some_iff.mp h1
  exact h2

theorem swapLoopS_some {scale : Int} {og zfo : Bool} {spf limit : Int} :
    ∀ (fuel : Nat) (st : SwapSt) (ahead : Ticks) (s c : Nat) (x : SwapSt × Nat × Nat),
      swapLoopS scale og zfo spf limit fuel st ahead s c = some x → swapLoop og zfo spf limit fuel st ahead s c = some x := by
  intro fuel
  induction fuel with
  | zero => intro st ahead s c x h; cases h
  | succ fuel ih =>
    intro st ahead s c x h
    unfold swapLoopS at h
    unfold swapLoop
    split at h
    · rename_i hc
      rw [if_pos hc]
      cases hb : loopBodyS scale og zfo spf limit st ahead with
      | none => rw [hb] at h; cases h
      | some y =>
        obtain ⟨st1, ahead1, c1⟩ := y
        rw [hb] at h
        rw [loopBodyS_some hb]
        exact ih _ _ _ _ _ h
    · rename_i hc
      rw [if_neg hc]; exact h

theorem computeSwapS_eq (scale : Int) (ogi zfo : Bool) (spf pl : Int) (pool : PoolSt) (ticks : Ticks) (specified : Int) :
    computeSwapS scale ogi zfo spf pl pool ticks specified =
    (sqrtPriceLimit pl zfo).bind fun limit =>
    (if zfo then (if limit > pool.sqrtPrice ∨ limit < CL.MinSqrtPriceBigDec then none else some ())
      else (if limit < pool.sqrtPrice ∨ limit > CL.MaxSqrtPriceBigDec then none else some ())).bind fun _ =>
    (swapLoopS scale ogi zfo spf limit (2 * ticks.length + CL.swapNoProgressLimit + 8)
      { remaining := specified * P18, calculated := 0, pool := pool, spreadTotal := 0, noProgress := 0 }
      (ticksAhead zfo ticks pool.tick) 0 0).bind fun x =>
    finishSwap ogi specified x.1 x.2.1 x.2.2 := by
  unfold computeSwapS finishSwap
  cases ogi <;> cases zfo <;> rfl

/-- the accumulator update of an executed swap can only fail: when `computeSwapS` succeeds, `computeSwap` with the same
price limit returns the same result. -/
theorem computeSwapS_some {scale : Int} {ogi zfo : Bool} {spf pl : Int} {pool : PoolSt} {ticks : Ticks} {specified : Int}
    {r : SwapOut} (h : computeSwapS scale ogi zfo spf pl pool ticks specified = some r) :
    computeSwap ogi zfo spf pl pool ticks specified = some r := by
  rw [computeSwapS_eq] at h
  rw [computeSwap_eq]
  obtain ⟨limit, hlim, h1⟩ := Option.bind_eq_some_iff.mp h
  obtain ⟨u, hval, h2⟩ := Option.bind_eq_some_iff.mp h1
  obtain ⟨x, hx, h3⟩ := Option.bind_eq_some_iff.mp h2
  rw [hlim, Option.bind_some, hval, Option.bind_some, swapLoopS_some _ _ _ _ _ _ hx, Option.bind_some]
  exact h3

/-- validation of the limit, as a proposition. -/
def ValidLimit (zfo : Bool) (limit sp : Int) : Prop :=
  if zfo then CL.MinSqrtPriceBigDec ≤ limit ∧ limit ≤ sp else sp ≤ limit ∧ limit ≤ CL.MaxSqrtPriceBigDec

/-- a price limit whose sqrt price is undefined or does not pass `ValidateSqrtPrice` fails both loops. -/
theorem invalid_limit_none {scale : Int} {ogi zfo : Bool} {spf pl : Int} {pool : PoolSt} {ticks : Ticks} {specified : Int}
    (hbad : ∀ limit, sqrtPriceLimit pl zfo = some limit → ¬ ValidLimit zfo limit pool.sqrtPrice) :
    computeSwap ogi zfo spf pl pool ticks specified = none ∧
    computeSwapS scale ogi zfo spf pl pool ticks specified = none := by
  rw [computeSwap_eq, computeSwapS_eq]
  cases hl : sqrtPriceLimit pl zfo with
  | none => exact ⟨rfl, rfl⟩
  | some limit =>
    have hb := hbad limit hl
    unfold ValidLimit at hb
    simp only [Option.bind_some]
    cases zfo
    · simp only [Bool.false_eq_true, ↓reduceIte] at hb ⊢
      rw [if_pos (by omega)]
      exact ⟨rfl, rfl⟩
    · simp only [↓reduceIte] at hb ⊢
      rw [if_pos (by omega)]
      exact ⟨rfl, rfl⟩

/-- and conversely a successful swap had a valid limit. -/
theorem valid_of_some {ogi zfo : Bool} {spf pl : Int} {pool : PoolSt} {ticks : Ticks} {specified : Int} {r : SwapOut}
    (h : computeSwap ogi zfo spf pl pool ticks specified = some r) :
    ∃ limit, sqrtPriceLimit pl zfo = some limit ∧ ValidLimit zfo limit pool.sqrtPrice := by
  obtain ⟨limit, _, _, hl, hv, _⟩ := computeSwap_run h
  exact ⟨limit, hl, hv⟩

/-! ## the executed swap with the limit as a parameter -/

/-- `swapOutAmtGivenIn` / `swapInAmtGivenOut` up to the bank transfers, with the caller's price limit. -/
def execSwapL (scale : Int) (ogi zfo : Bool) (spf pl : Int) (pool : PoolSt) (ticks : Ticks) (specified : Int) :
    Option (SwapOut × Int) :=
  (computeSwapS scale ogi zfo spf pl pool ticks specified).bind fun r =>
    if ogi ∧ r.amountOut ≤ 0 then none
    else if ¬ ogi ∧ r.amountIn ≤ 0 then none
    else ((Dec.ceil r.spreadRewards).bind Dec.truncateInt).bind fun fee =>
      if r.pool.liquidity < 0 ∨ r.pool.sqrtPrice < 0 ∨ r.pool.tick < CL.MinCurrentTick ∨ r.pool.tick > CL.MaxTick then none
      else some (r, fee)

/-- the estimate with the caller's price limit. -/
def estimateSwapL (ogi zfo : Bool) (spf pl : Int) (pool : PoolSt) (ticks : Ticks) (specified : Int) : Option Int :=
  (computeSwap ogi zfo spf pl pool ticks specified).map fun r => if ogi then r.amountOut else r.amountIn

theorem execSwap_unfold (ogi zfo : Bool) (spf : Int) (pool : PoolSt) (ticks : Ticks) (specified : Int) :
    execSwap ogi zfo spf pool ticks specified =
    (computeSwap ogi zfo spf (execPriceLimit zfo) pool ticks specified).bind fun r =>
      if ogi ∧ r.amountOut ≤ 0 then none
      else if ¬ ogi ∧ r.amountIn ≤ 0 then none
      else ((Dec.ceil r.spreadRewards).bind Dec.truncateInt).bind fun fee =>
        if r.pool.liquidity < 0 ∨ r.pool.sqrtPrice < 0 ∨ r.pool.tick < CL.MinCurrentTick ∨ r.pool.tick > CL.MaxTick then none
        else some (r, fee) := by
  unfold execSwap
  cases ogi <;> rfl

/-- with `GetPriceLimit` this is the model's executed swap. -/
theorem execSwapL_default (scale : Int) (ogi zfo : Bool) (spf : Int) (pool : PoolSt) (ticks : Ticks) (specified : Int) :
    execSwapL scale ogi zfo spf (execPriceLimit zfo) pool ticks specified =
      execSwapS scale ogi zfo spf pool ticks specified := by
  unfold execSwapL execSwapS
  cases hc : computeSwapS scale ogi zfo spf (execPriceLimit zfo) pool ticks specified with
  | none => rfl
  | some r =>
    simp only [Option.bind_some]
    rw [execSwap_unfold, computeSwapS_some hc, Option.bind_some]

theorem estimateSwapL_default (ogi zfo : Bool) (spf : Int) (pool : PoolSt) (ticks : Ticks) (specified : Int) :
    estimateSwapL ogi zfo spf 0 pool ticks specified = estimateSwap ogi zfo spf pool ticks specified := rfl

/-- executed = estimated, for equal limits. -/
theorem execSwapL_estimate {scale : Int} {ogi zfo : Bool} {spf pl : Int} {pool : PoolSt} {ticks : Ticks} {specified : Int}
    {r : SwapOut} {fee : Int} (h : execSwapL scale ogi zfo spf pl pool ticks specified = some (r, fee)) :
    computeSwap ogi zfo spf pl pool ticks specified = some r ∧
    estimateSwapL ogi zfo spf pl pool ticks specified = some (if ogi then r.amountOut else r.amountIn) := by
  unfold execSwapL at h
  obtain ⟨r', hr', h2⟩ := Option.bind_eq_some_iff.mp h
  have e : r' = r := by
    split at h2
    · cases h2
    · split at h2
      · cases h2
      · obtain ⟨fee', -, h3⟩ := Option.bind_eq_some_iff.mp h2
        split at h3
        · cases h3
        · cases h3; rfl
  subst e
  have := computeSwapS_some hr'
  refine ⟨this, ?_⟩
  unfold estimateSwapL
  rw [this]; rfl

/-- `SwapExactAmountIn/Out` on the pool's own state, with the caller's price limit (`CLPool.swap` with the limit exposed). -/
def swapL (p : Pool) (ogi zfo : Bool) (pl specified : Int) : Option (Pool × Int × Int × Int) := do
  if p.positions.isEmpty then none else pure ()
  let (r, fee) ← execSwapL p.scale ogi zfo p.spf pl ⟨p.sqrtPrice, p.tick, p.liquidity⟩ (p.ticks.map fun t => (t.tick, t.net)) specified
  let toPool := r.amountIn - fee
  if toPool ≤ 0 ∨ r.amountOut ≤ 0 then none else pure ()
  let p1 : Pool := { p with sqrtPrice := r.pool.sqrtPrice, tick := r.pool.tick, liquidity := r.pool.liquidity }
  if zfo then
    if p1.bal1 < r.amountOut then none
    else some ({ p1 with bal0 := p1.bal0 + toPool, fee0 := p1.fee0 + fee, bal1 := p1.bal1 - r.amountOut }, r.amountIn, r.amountOut, fee)
  else
    if p1.bal0 < r.amountOut then none
    else some ({ p1 with bal1 := p1.bal1 + toPool, fee1 := p1.fee1 + fee, bal0 := p1.bal0 - r.amountOut }, r.amountIn, r.amountOut, fee)

theorem swapL_default (p : Pool) (ogi zfo : Bool) (specified : Int) :
    swapL p ogi zfo (execPriceLimit zfo) specified = CLPool.swap p ogi zfo specified := by
  unfold swapL CLPool.swap
  rw [execSwapL_default]

/-- a swap with an invalid limit is rejected (the state machine keeps the state on `none`). -/
theorem swapL_invalid_none {p : Pool} {ogi zfo : Bool} {pl specified : Int}
    (hbad : ∀ limit, sqrtPriceLimit pl zfo = some limit → ¬ ValidLimit zfo limit p.sqrtPrice) :
    swapL p ogi zfo pl specified = none ∧
    execSwapL p.scale ogi zfo p.spf pl ⟨p.sqrtPrice, p.tick, p.liquidity⟩ (tickList p) specified = none ∧
    estimateSwapL ogi zfo p.spf pl ⟨p.sqrtPrice, p.tick, p.liquidity⟩ (tickList p) specified = none := by
  obtain ⟨h1, h2⟩ := invalid_limit_none (scale := p.scale) (ogi := ogi) (spf := p.spf)
    (pool := ⟨p.sqrtPrice, p.tick, p.liquidity⟩) (ticks := tickList p) (specified := specified) hbad
  have e : execSwapL p.scale ogi zfo p.spf pl ⟨p.sqrtPrice, p.tick, p.liquidity⟩ (tickList p) specified = none := by
    unfold execSwapL; rw [h2]; rfl
  refine ⟨?_, e, by unfold estimateSwapL; rw [h1]; rfl⟩
  unfold swapL
  unfold tickList at e
  rw [e]
  by_cases hpe : p.positions.isEmpty = true <;> simp [hpe]

end OsmoVerif.CLLimit
