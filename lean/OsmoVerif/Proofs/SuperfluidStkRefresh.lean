/- C11 over the staking model: the epoch refresh of an intermediary account WITHOUT delegation record (its stake
was force-undelegated to zero at an earlier epoch) re-creates the delegation, and how far the share arithmetic can
leave the new stake from the minted amount.  Core only. -/
import OsmoVerif.Proofs.SuperfluidStkSupply

namespace OsmoVerif.Superfluid
open OsmoVerif.Num

theorem chkDec_some' {x r : Int} (h : chkDec x = some r) : r = x := chkDec_eq h

/-- floor facts of a truncated quotient of a non-negative number. -/
theorem tdiv_floor_nonneg {n d : Int} (hd : 0 < d) (hn : 0 ≤ n) : n.tdiv d * d ≤ n ∧ n < n.tdiv d * d + d ∧ 0 ≤ n.tdiv d := by
  obtain ⟨e, hp, _⟩ := tdiv_tmod_spec n d hd
  have hp := hp hn
  exact ⟨by omega, by omega, Int.tdiv_nonneg hn (by omega)⟩

/-- `SharesFromTokens`: the issued shares are the floor of `shares · amount / tokens`. -/
theorem sharesFromTokens_floor {v : Val} {a n : Int} (hT : 0 < v.tokens) (hS : 0 ≤ v.shares) (ha : 0 ≤ a)
    (h : v.sharesFromTokens a = some n) : n * v.tokens ≤ v.shares * a ∧ v.shares * a < n * v.tokens + v.tokens ∧ 0 ≤ n := by
  unfold Val.sharesFromTokens at h
  split at h
  · cases h
  · rename_i m hm
    have em : m = v.shares * a := by
      unfold Dec.mulInt at hm; exact chkDec_eq hm
    unfold Dec.quoInt at h
    split at h
    · cases h
    · injection h with h
      subst h; subst em
      exact tdiv_floor_nonneg hT (Int.mul_nonneg hS ha)

/-- `AddTokensFromDel` on a validator that has tokens and shares. -/
theorem addTokensFromDel_ok {v v' : Val} {a issued : Int} (hT : 0 < v.tokens) (hS : 0 < v.shares)
    (h : v.addTokensFromDel a = some (v', issued)) :
    v.sharesFromTokens a = some issued ∧ v'.tokens = v.tokens + a ∧ v'.shares = v.shares + issued := by
  unfold Val.addTokensFromDel at h
  dsimp only at h
  rw [if_neg (by omega), if_neg (by omega)] at h
  split at h
  · cases h
  · rename_i i hi
    split at h
    · rename_i t s ht hs
      injection h with h
      injection h with e1 e2
      subst e2
      refine ⟨hi, ?_, ?_⟩
      · rw [← e1]; exact chkInt_eq ht
      · rw [← e1]; unfold Dec.add at hs; exact chkDec_eq hs
    · cases h

/-- one refresh step for an account that HAS NO DELEGATION RECORD and whose expected amount is `e > 0`, on a healthy
validator (it has tokens and shares, the new totals stay in range and below `2⁶³` power units): the refresh mints exactly `e`, offsets exactly
`e`, and re-creates the delegation with the shares `AddTokensFromDel` issues for `e` tokens. -/
theorem refreshOneS_missing {s s' : SState} {key : AccKey} {e : Int} {v' : Val} {issued : Int}
    (hv : key.2 ∈ s.b.validators) (hn : s.k.dsh key = none) (he : expectedDelegation s.b key = .ok e) (hpos : 0 < e)
    (hT : 0 < (s.k.val key.2).tokens) (hadd : (s.k.val key.2).addTokensFromDel e = some (v', issued))
    (hrange : chkDec issued = some issued) (hpow : powerOverflows v'.tokens = false)
    (hc : refreshOneS s key = .ok s') :
    s'.k.dsh key = some issued ∧ s'.k.val key.2 = v' ∧ s'.b.supply = s.b.supply + e ∧ s'.b.offset = s.b.offset - e ∧
    (∀ k', k' ≠ key → s'.k.dsh k' = s.k.dsh k') := by
  have hcur : currentS s key = some 0 := by unfold currentS; rw [hn]
  have hmint : mintS s (e - 0) key =
      .ok { b := { s.b with supply := s.b.supply + (e - 0), offset := s.b.offset - (e - 0) },
            k := setDsh (setVal s.k key.2 v') key (some issued) } := by
    unfold mintS
    rw [if_neg (by simpa using hv), if_neg (by omega)]
    dsimp only
    rw [if_neg (by omega)]
    rw [Int.sub_zero, hadd]
    dsimp only
    rw [if_neg (by rw [hpow]; exact Bool.false_ne_true)]
    rw [hn]
    dsimp only
    have : Dec.add 0 issued = some issued := by unfold Dec.add; rw [Int.zero_add]; exact hrange
    rw [this]
  unfold refreshOneS at hc
  rw [if_neg (by simpa using hv), hcur] at hc
  dsimp only at hc
  rw [he] at hc
  dsimp only at hc
  rw [if_pos (by omega), hmint] at hc
  dsimp only at hc
  injection hc with hc
  subst hc
  refine ⟨?_, ?_, ?_, ?_, ?_⟩
  · simp [setDsh, updK]
  · simp [setDsh, setVal, upd]
  · show s.b.supply + (e - 0) = s.b.supply + e; omega
  · show s.b.offset - (e - 0) = s.b.offset - e; omega
  · intro k' hk'
    simp [setDsh, setVal, updK, hk']

/-- **the stake of a re-created delegation**: with `T, S > 0` the validator's tokens and shares before, `e` the minted
amount and `n = ⌊S·e / T⌋` the issued shares, the exact token worth `n·(T+e)/(S+n)` of the new delegation is at most
`e` and misses it by less than `T/(S+n)` tokens (`S` counts 10⁻¹⁸ shares: less than 10⁻¹⁸ tokens per unit of the
exchange rate) — as cross-multiplied integers. -/
theorem recreated_stake_bounds {T S e n : Int} (_hT : 0 < T) (_hS : 0 < S) (_he : 0 ≤ e)
    (h1 : n * T ≤ S * e) (h2 : S * e < n * T + T) :
    n * (T + e) ≤ e * (S + n) ∧ e * (S + n) < n * (T + e) + T := by
  have a1 : n * (T + e) = n * T + n * e := Int.mul_add ..
  have a2 : e * (S + n) = S * e + n * e := by rw [Int.mul_add, Int.mul_comm e S, Int.mul_comm e n]
  rw [a1, a2]
  constructor <;> omega

/-- at exchange rate one (`S = T·10¹⁸`) the issued shares are `e·10¹⁸` and the new stake is exactly `e`. -/
theorem recreated_stake_exact_at_rate_one {T e n : Int} (hT : 0 < T) (h1 : n * T ≤ T * P18 * e) (h2 : T * P18 * e < n * T + T) :
    n = e * P18 := by
  have hp : T * P18 * e = (e * P18) * T := by
    rw [Int.mul_assoc, Int.mul_comm T, Int.mul_comm P18 e]
  rw [hp] at h1 h2
  -- n·T ≤ q·T < (n+1)·T  ⇒  n = q
  have l1 : n ≤ e * P18 := Int.le_of_mul_le_mul_right h1 hT
  have l2 : e * P18 < n + 1 := by
    have : e * P18 * T < (n + 1) * T := by rw [Int.add_mul]; omega
    exact Int.lt_of_mul_lt_mul_right this (Int.le_of_lt hT)
  omega

end OsmoVerif.Superfluid
