/-
C08 (incentives, histories) helpers, part 22: emission accounting per incentive record.
* the elapsed time of a sync is exactly (now − last) · 10⁹ raw Dec seconds (`elapsed_exact`);
* one record in one sync: remaining' = max(remaining − ⌊elapsed · rate / 10¹⁸⌋, 0) when it qualifies, unchanged otherwise
  (`passRec`, `emitOne_rem`);
* the record list after a sync is the image of the list before under `syncRec`, minus the exhausted records
  (`sync_records_exact`).
Core only.
-/
import OsmoVerif.Proofs.CLIncHist21

namespace OsmoVerif.CLIncP
open OsmoVerif.Num OsmoVerif.CL OsmoVerif.CLPool OsmoVerif.CLFees OsmoVerif.CLInc OsmoVerif.CLFeesP OsmoVerif.CLBook
open OsmoVerif.Accum (amt sorted hev)
open OsmoVerif.Gen

/-! ## elapsed time -/

theorem chopRound_mul_P18 (y : Int) : chopRound P18 (y * P18) = y := by
  have hP : P18 = 1000000000000000000 := by decide
  unfold chopRound
  split
  · rename_i hneg
    unfold chopRoundNonneg
    have e : -(y * P18) = (-y) * P18 := by rw [Int.neg_mul]
    rw [e]
    have h1 : ((-y) * P18).tmod P18 = 0 := Int.mul_tmod_left _ _
    have h2 : ((-y) * P18).tdiv P18 = -y := Int.mul_tdiv_cancel _ (by omega)
    simp only [h1, ↓reduceIte, h2]; omega
  · unfold chopRoundNonneg
    have h1 : (y * P18).tmod P18 = 0 := Int.mul_tmod_left _ _
    have h2 : (y * P18).tdiv P18 = y := Int.mul_tdiv_cancel _ (by omega)
    simp only [h1, ↓reduceIte, h2]

/-- `NewDec(ns).Quo(NewDec(10⁹))`: exact, `ns · 10⁹` raw units (10⁻¹⁸ s). -/
theorem elapsed_exact {x el : Int} (h : Dec.quo (x * P18) (1000000000 * P18) = some el) : el = x * 1000000000 := by
  have hP : P18 = 1000000000000000000 := by decide
  unfold Dec.quo at h
  rw [if_neg (by rw [hP]; decide)] at h
  unfold chkDec at h
  split at h
  · injection h with h
    rw [← h]
    have e : x * P18 * (P18 * P18) = (x * 1000000000 * P18) * (1000000000 * P18) := by
      rw [hP]
      rw [Int.mul_assoc, Int.mul_assoc, Int.mul_assoc]
      congr 1
    rw [e, Int.mul_tdiv_cancel _ (by rw [hP]; decide), chopRound_mul_P18]
  · cases h

def elapsedOf (i : Inc) : Option Int := Dec.quo ((i.now - i.last) * P18) (1000000000 * P18)

/-- after any successful sync the clock is now. -/
theorem sync_last_now {i i1 : Inc} {liq : Int} (h : sync i liq = some i1) : i1.last = i1.now := by
  unfold sync at h
  simp only [Option.bind_eq_some_iff] at h
  obtain ⟨el, hel, h⟩ := h
  split at h
  · rename_i hz
    injection h with h; subst h
    have := elapsed_exact hel
    rw [hz] at this
    omega
  · split at h
    · cases h
    · simp only [Option.map_eq_some_iff] at h
      obtain ⟨x, _, e⟩ := h
      subst e; rfl

theorem sync_idem {i : Inc} {liq : Int} (h : i.last = i.now) : sync i liq = some i := by
  unfold sync
  rw [h, Int.sub_self, Int.zero_mul]
  have : Dec.quo 0 (1000000000 * P18) = some 0 := by decide
  rw [this]
  simp

/-! ## one record -/

/-- tokens (raw) a record emits for `el` raw seconds: `LegacyDec.MulTruncate`. -/
def emitted (el : Int) (r : IncRec) : Int := (el * r.rate).tdiv P18

/-- one record in the pass of uptime index `u`. -/
def passRec (now el liq factor : Int) (u : Nat) (r : IncRec) : IncRec :=
  match emitOne now el liq factor u r with
  | some (some (_, rem)) => { r with remaining := rem }
  | _ => r

theorem passRec_other {now el liq factor : Int} {u : Nat} {r : IncRec} (h : r.uptime ≠ u) : passRec now el liq factor u r = r := by
  unfold passRec emitOne
  rw [if_pos (Or.inr h)]

theorem passRec_fields (now el liq factor : Int) (u : Nat) (r : IncRec) :
    (passRec now el liq factor u r).id = r.id ∧ (passRec now el liq factor u r).uptime = r.uptime ∧
    (passRec now el liq factor u r).denom = r.denom ∧ (passRec now el liq factor u r).rate = r.rate ∧
    (passRec now el liq factor u r).start = r.start := by
  unfold passRec
  split <;> exact ⟨rfl, rfl, rfl, rfl, rfl⟩

/-- a processed record: the new remaining amount. -/
theorem emitOne_rem {now el liq factor : Int} {u : Nat} {r : IncRec} {perLiq rem : Int}
    (h : emitOne now el liq factor u r = some (some (perLiq, rem))) :
    r.start < now ∧ r.uptime = u ∧ Dec.mulTruncate el r.rate = some (emitted el r) ∧
    rem = (if emitted el r ≤ r.remaining then r.remaining - emitted el r else 0) := by
  unfold emitOne at h
  split at h
  · cases h
  · rename_i hc
    simp only [not_or, Decidable.not_not] at hc
    cases h1 : Dec.mulTruncate el r.rate with
    | none => rw [h1] at h; cases h
    | some em =>
      rw [h1] at h
      simp only at h
      have hem : em = emitted el r := by
        unfold Dec.mulTruncate chkDec chopTrunc at h1
        split at h1
        · injection h1 with h1; exact h1.symm
        · cases h1
      cases h2 : Dec.mulTruncate em factor with
      | none => rw [h2] at h; cases h
      | some scaled =>
        rw [h2] at h
        simp only [Option.bind_eq_some_iff] at h
        obtain ⟨p1, _, h⟩ := h
        split at h
        · rename_i hle
          simp only [Option.map_eq_some_iff, Option.some.injEq, Prod.mk.injEq] at h
          obtain ⟨rm, hrm, _, e2⟩ := h
          subst e2
          refine ⟨hc.1, hc.2, by rw [hem], ?_⟩
          rw [← hem, if_pos hle]
          exact Accum.decSub_some hrm
        · rename_i hgt
          cases h3 : Dec.mulTruncate r.remaining factor with
          | none => rw [h3] at h; cases h
          | some remScaled =>
            rw [h3] at h
            simp only [Option.map_eq_some_iff, Option.some.injEq, Prod.mk.injEq] at h
            obtain ⟨p2, _, _, e2⟩ := h
            subst e2
            refine ⟨hc.1, hc.2, by rw [hem], ?_⟩
            rw [← hem, if_neg hgt]

/-- the record loop of one pass is a map over the records. -/
theorem emitLoop_map {now el liq factor : Int} {u : Nat} :
    ∀ (recs : List IncRec) (add0 add : DC) (recs' : List IncRec),
      emitLoop now el liq factor u recs add0 = some (add, recs') → recs' = recs.map (passRec now el liq factor u) := by
  intro recs
  induction recs with
  | nil =>
    intro add0 add recs' h
    simp only [emitLoop, Option.some.injEq, Prod.mk.injEq] at h
    rw [← h.2]; rfl
  | cons r rest ih =>
    intro add0 add recs' h
    unfold emitLoop at h
    simp only [Option.bind_eq_some_iff] at h
    obtain ⟨res, hres, h⟩ := h
    cases res with
    | none =>
      simp only [Option.map_eq_some_iff, Prod.mk.injEq] at h
      obtain ⟨⟨a, rs⟩, hloop, _, e2⟩ := h
      simp only at e2; subst e2
      rw [ih add0 a rs hloop, List.map_cons]
      congr 1
      unfold passRec; rw [hres]
    | some pr =>
      obtain ⟨perLiq, rem⟩ := pr
      simp only at h
      split at h
      · cases h
      · simp only [Option.bind_eq_some_iff, Option.map_eq_some_iff, Prod.mk.injEq] at h
        obtain ⟨add1, _, ⟨a, rs⟩, hloop, _, e2⟩ := h
        simp only at e2; subst e2
        rw [ih add1 a rs hloop, List.map_cons]
        congr 1
        unfold passRec; rw [hres]

/-- all passes over a record: only the pass of its own uptime acts. -/
def allPass (now el liq factor : Int) (us : List Nat) (r : IncRec) : IncRec :=
  us.foldl (fun x u => passRec now el liq factor u x) r

theorem emitAll_map {now el liq factor : Int} :
    ∀ (us : List Nat) (accs : List UAcc) (recs : List IncRec) (accs' : List UAcc) (recs' : List IncRec),
      emitAll now el liq factor us accs recs = some (accs', recs') → recs' = recs.map (allPass now el liq factor us) := by
  intro us
  induction us with
  | nil =>
    intro accs recs accs' recs' h
    simp only [emitAll, Option.some.injEq, Prod.mk.injEq] at h
    rw [← h.2]
    exact (List.map_id' recs).symm
  | cons u us ih =>
    intro accs recs accs' recs' h
    simp only [emitAll, Option.bind_eq_some_iff] at h
    obtain ⟨⟨toAdd, recs1⟩, hloop, a, _, v, _, hrest⟩ := h
    simp only at hrest
    rw [ih _ recs1 accs' recs' hrest, emitLoop_map recs [] toAdd recs1 hloop, List.map_map]
    apply List.map_congr_left
    intro r _
    rfl

theorem allPass_of_not_mem {now el liq factor : Int} : ∀ (us : List Nat) (r : IncRec), r.uptime ∉ us → allPass now el liq factor us r = r := by
  intro us
  induction us with
  | nil => intro r _; rfl
  | cons u us ih =>
    intro r hn
    simp only [List.mem_cons, not_or] at hn
    simp only [allPass, List.foldl_cons]
    rw [passRec_other hn.1]
    exact ih r hn.2

theorem allPass_six (now el liq factor : Int) (r : IncRec) :
    allPass now el liq factor [0, 1, 2, 3, 4, 5] r = if r.uptime < 6 then passRec now el liq factor r.uptime r else r := by
  have key : ∀ (pre post : List Nat) (u : Nat), r.uptime = u → u ∉ pre → u ∉ post →
      allPass now el liq factor (pre ++ u :: post) r = passRec now el liq factor u r := by
    intro pre post u hu hpre hpost
    unfold allPass
    rw [List.foldl_append, List.foldl_cons]
    have h1 : List.foldl (fun x u => passRec now el liq factor u x) r pre = r := allPass_of_not_mem pre r (by rw [hu]; exact hpre)
    rw [h1]
    have h2 := allPass_of_not_mem (now := now) (el := el) (liq := liq) (factor := factor) post (passRec now el liq factor u r)
      (by rw [(passRec_fields now el liq factor u r).2.1, hu]; exact hpost)
    exact h2
  split
  · rename_i hlt
    have : r.uptime = 0 ∨ r.uptime = 1 ∨ r.uptime = 2 ∨ r.uptime = 3 ∨ r.uptime = 4 ∨ r.uptime = 5 := by omega
    rcases this with h | h | h | h | h | h
    · rw [h]; exact key [] [1, 2, 3, 4, 5] 0 h (by simp) (by simp)
    · rw [h]; exact key [0] [2, 3, 4, 5] 1 h (by simp) (by simp)
    · rw [h]; exact key [0, 1] [3, 4, 5] 2 h (by simp) (by simp)
    · rw [h]; exact key [0, 1, 2] [4, 5] 3 h (by simp) (by simp)
    · rw [h]; exact key [0, 1, 2, 3] [5] 4 h (by simp) (by simp)
    · rw [h]; exact key [0, 1, 2, 3, 4] [] 5 h (by simp) (by simp)
  · rename_i hge
    exact allPass_of_not_mem _ r (by simp only [List.mem_cons, List.mem_nil_iff, or_false]; omega)

/-! ## the record list after a sync -/

/-- what an effective sync (time elapsed, at least one unit of liquidity) does to a record, before exhausted records are dropped;
the identity otherwise: **time that passes without active liquidity, or no time at all, does not consume the record**. -/
def syncRec (i : Inc) (liq : Int) (r : IncRec) : IncRec :=
  match elapsedOf i with
  | some el => if el = 0 ∨ liq < P18 then r else if r.uptime < 6 then passRec i.now el liq i.factor r.uptime r else r
  | none => r

theorem syncRec_no_liquidity {i : Inc} {liq : Int} (hl : liq < P18) (r : IncRec) : syncRec i liq r = r := by
  unfold syncRec
  split
  · rw [if_pos (Or.inr hl)]
  · rfl

theorem sync_records_exact {i i1 : Inc} {liq : Int} (hpos : ∀ r ∈ i.records, 0 < r.remaining) (h : sync i liq = some i1) :
    i1.records = (i.records.map (syncRec i liq)).filter (fun r => r.remaining > 0) := by
  unfold sync at h
  simp only [Option.bind_eq_some_iff] at h
  obtain ⟨el, hel, h⟩ := h
  have hE : elapsedOf i = some el := hel
  have hid : ∀ (p : el = 0 ∨ liq < P18), (i.records.map (syncRec i liq)).filter (fun r => r.remaining > 0) = i.records.filter (fun r => r.remaining > 0) := by
    intro p
    have : i.records.map (syncRec i liq) = i.records := by
      rw [List.map_congr_left (g := id)]
      · simp
      · intro r _
        unfold syncRec; rw [hE]; simp only [if_pos p, id]
    rw [this]
  have hall : i.records.filter (fun r => r.remaining > 0) = i.records := by
    apply List.filter_eq_self.mpr
    intro r hr
    simpa using hpos r hr
  split at h
  · rename_i hz
    injection h with h; subst h
    rw [hid (Or.inl hz), hall]
  · rename_i hz
    split at h
    · cases h
    · simp only [Option.map_eq_some_iff] at h
      obtain ⟨⟨accs, recs⟩, hx, e⟩ := h
      subst e
      simp only
      split at hx
      · rename_i hl
        simp only [Option.some.injEq, Prod.mk.injEq] at hx
        rw [← hx.2, hid (Or.inr hl)]
      · rename_i hl
        rw [emitAll_map _ _ _ _ _ hx]
        congr 1
        apply List.map_congr_left
        intro r _
        unfold syncRec
        rw [hE]
        simp only
        rw [if_neg (by intro c; rcases c with c | c; exact hz c; exact hl c), allPass_six]

end OsmoVerif.CLIncP
