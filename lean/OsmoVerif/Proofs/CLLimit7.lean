/-
C03 with a caller-supplied price limit, part 7: exact-out, one-for-zero.  Whether `GetNextSqrtPriceFromAmount0OutRoundingUp`
can end beyond its target at all is not decided (no instance found in 1.3·10^5 random trials); if it does, then only by
ROUNDING: the exact token0 amount between the target (hence the limit) and the end price is below `priceSlackOut0`
(≈ 10^-6 + liquidity·10^-24 raw units at sqrt prices ≥ 10^-6).
-/
import OsmoVerif.Proofs.CLIdeal4

namespace OsmoVerif.CLLimit
open OsmoVerif.CLPool OsmoVerif.CLBook OsmoVerif.CLSolv OsmoVerif.CL OsmoVerif.Num OsmoVerif.Tick OsmoVerif.Gen
open OsmoVerif.Spec OsmoVerif.Props OsmoVerif.CLIdeal

theorem stepInGivenOut_ofz_pass_bound {spf sp target liq remainingOut : Int} {r : StepResult}
    (hl : 0 ≤ liq) (hsp : 0 < sp) (hrem : 0 ≤ remainingOut) (hdir : sp ≤ target)
    (h : stepInGivenOut false spf sp target liq remainingOut = some r) (hpass : target < r.sqrtPriceNext) :
    exact0 liq target r.sqrtPriceNext < priceSlackOut0 liq sp r.sqrtPriceNext := by
  have ht : 0 < target := by omega
  have hn : 0 < r.sqrtPriceNext := by omega
  obtain ⟨x, y, out0, _, _, _, _, _, h0, hnext⟩ := stepInGivenOut_decomp h
  have hcb : ¬ remainingOut * Pdiff ≥ out0 := by
    intro hc
    rw [if_pos hc] at hnext
    injection hnext with e; omega
  rw [if_neg hcb] at hnext
  simp only [Bool.false_eq_true, ↓reduceIte] at hnext
  obtain ⟨l, hlb, hnx⟩ := Option.bind_eq_some_iff.mp hnext
  have el := C12.fromDec_exact hlb
  subst el
  unfold deltaOut at h0
  simp only [Bool.false_eq_true, ↓reduceIte] at h0
  have hlpos : 0 < liq := by
    rcases Int.lt_or_le 0 liq with hp | hz
    · exact hp
    · have e0 : liq = 0 := by omega
      subst e0
      have := amount0_roundDown_zero_liq ht hsp h0
      have : 0 ≤ remainingOut * Pdiff := Int.mul_nonneg hrem Pdiff_nonneg
      omega
  have k := next0Out_exact_lt hnx (Int.mul_pos hlpos Pdiff_pos) hsp hrem hn (by omega)
  -- the request is below the exact amount up to the target
  have hrp : 0 ≤ remainingOut * Pdiff := Int.mul_nonneg hrem Pdiff_nonneg
  have tr : IsTrunc (remainingOut * Pdiff) Pdiff remainingOut :=
    ⟨fun _ => ⟨Int.le_refl _, by rw [Int.add_mul]; have := Pdiff_pos; omega⟩, fun hneg => absurd hneg (by omega)⟩
  have hle := (le0_of_roundDown ht hsp hl h0 hrp (by omega) tr).1
  have q1 : (remainingOut : ℚ) ≤ exact0 liq target sp := (le0_iff ht hsp).mp hle
  -- the exact amount up to the end price is below the request plus the slack
  have qn : (0 : ℚ) < r.sqrtPriceNext := by exact_mod_cast hn
  have qsp : (0 : ℚ) < sp := by exact_mod_cast hsp
  have hns : (0 : ℚ) < (sp : ℚ) * r.sqrtPriceNext := by positivity
  have qk : ((r.sqrtPriceNext : ℚ) - sp) * ((liq : ℚ) * 10 ^ 18) * 10 ^ 18 <
      (remainingOut : ℚ) * ((r.sqrtPriceNext : ℚ) * sp) + 10 ^ 18 * (10 ^ 36 + (liq : ℚ) * 10 ^ 18 + r.sqrtPriceNext) := by
    have : (((r.sqrtPriceNext - sp) * (liq * Pdiff) * P18 : Int) : ℚ) <
        ((remainingOut * (r.sqrtPriceNext * sp) + P18 * (P36 + liq * Pdiff + r.sqrtPriceNext) : Int) : ℚ) :=
      Int.cast_lt.mpr k
    push_cast at this
    rw [P36_cast, Pdiff_cast, P18_cast] at this
    exact this
  have q2 : exact0 liq sp r.sqrtPriceNext < (remainingOut : ℚ) + priceSlackOut0 liq sp r.sqrtPriceNext := by
    rw [exact0_sorted (by omega : sp ≤ r.sqrtPriceNext)]
    unfold priceSlackOut0
    have e : (remainingOut : ℚ) +
        10 ^ 36 * (10 ^ 36 + (liq : ℚ) * 10 ^ 18 + r.sqrtPriceNext) / ((sp : ℚ) * r.sqrtPriceNext) / 10 ^ 18 =
        ((remainingOut : ℚ) * ((sp : ℚ) * r.sqrtPriceNext) + 10 ^ 18 * (10 ^ 36 + (liq : ℚ) * 10 ^ 18 + r.sqrtPriceNext)) /
          ((sp : ℚ) * r.sqrtPriceNext) := by
      field_simp
    rw [e, div_lt_div_iff_of_pos_right hns]
    nlinarith
  have q3 := exact0_add (liq := liq) hsp hdir (le_of_lt hpass)
  rw [exact0_comm liq target sp] at q1
  linarith

/-- along a run of an exact-out one-for-zero swap: a step that ends beyond the LIMIT does so by rounding only. -/
theorem run_pass_bound_out_ofz {spf limit : Int} {st st' : SwapSt} {tr : List StepRec}
    (h : Run false false spf limit st tr st') (hall : ∀ e ∈ tr, RecGoodL false false limit e) :
    ∀ e ∈ tr, limit < e.res.sqrtPriceNext →
      exact0 e.st.pool.liquidity limit e.res.sqrtPriceNext <
        priceSlackOut0 e.st.pool.liquidity e.st.pool.sqrtPrice e.res.sqrtPriceNext := by
  intro e he hpass
  obtain ⟨⟨⟨hliq, _⟩, hsp, hn, hdirs⟩, hsS, hsT⟩ := hall e he
  obtain ⟨hrem, _, hstep⟩ := h.mem e he
  unfold stepOf at hstep
  simp only [Bool.false_eq_true, ↓reduceIte] at hstep hdirs
  unfold LimSide at hsT hsS
  simp only [Bool.false_eq_true, ↓reduceIte] at hsT hsS
  have b := stepInGivenOut_ofz_pass_bound hliq hsp (by omega) hdirs.1 hstep (by omega)
  have ht : 0 < e.target := by omega
  have a := exact0_add (liq := e.st.pool.liquidity) ht hsT (le_of_lt hpass)
  have n := exact0_nonneg hliq ht hsT
  linarith

end OsmoVerif.CLLimit
