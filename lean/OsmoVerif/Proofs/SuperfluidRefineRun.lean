/- C11, refinement of the rate-one ledger model by the staking model, part 4: every call, every slash-free history. -/
import OsmoVerif.Proofs.SuperfluidRefineOps

namespace OsmoVerif.Superfluid
open OsmoVerif.Num OsmoVerif.Spec

/-! ## the lockup-only calls leave the bank supply and the validator set alone -/

structure SupVal (b b' : State) : Prop where
  sup : b'.supply = b.supply
  vals : b'.validators = b.validators

theorem SupVal.refl (b : State) : SupVal b b := ⟨rfl, rfl⟩
theorem SupVal.trans {a b c : State} (h1 : SupVal a b) (h2 : SupVal b c) : SupVal a c :=
  ⟨h2.sup.trans h1.sup, h2.vals.trans h1.vals⟩

theorem supVal_createLock {b b' : State} {o d : Nat} {a du : Int} {sg : Bool} {id : Nat}
    (h : createLock b o d a du sg = .ok (b', id)) : SupVal b b' := by
  unfold createLock at h
  split at h
  · cases h
  · injection h with h; injection h with h _; subst h; exact ⟨rfl, rfl⟩

theorem supVal_beginUnlock {b b' : State} {id nid : Nat} {c : Option Int} (h : beginUnlock b id c = .ok (b', nid)) : SupVal b b' := by
  obtain ⟨_, _, _, hcase⟩ := beginUnlock_ok h
  rcases hcase with ⟨_, _, e⟩ | ⟨_, _, _, _, _, _, e⟩ <;> subst e <;> exact ⟨rfl, rfl⟩

theorem supVal_unlockMatured {b b' : State} {id : Nat} (h : unlockMatured b id = .ok b') : SupVal b b' := by
  unfold unlockMatured at h
  split at h
  · cases h
  · split at h
    · cases h
    · split at h
      · cases h
      · injection h with h; subst h; exact ⟨rfl, rfl⟩

theorem supVal_deleteSynth {b b' : State} {id : Nat} {kind : SKind} {key : AccKey} (h : deleteSynth b id kind key = .ok b') :
    SupVal b b' := by
  obtain ⟨c1, c2, _⟩ := deleteSynth_bank h; exact ⟨c1, c2⟩

theorem supVal_deleteSynths {id : Nat} : ∀ (xs : List Synth) (b b' : State), deleteSynths b id xs = .ok b' → SupVal b b'
  | [], b, b', h => by unfold deleteSynths at h; injection h with h; subst h; exact SupVal.refl _
  | x :: r, b, b', h => by
    unfold deleteSynths at h
    split at h
    · cases h
    · rename_i b1 h1
      exact (supVal_deleteSynth h1).trans (supVal_deleteSynths r b1 b' h)

theorem supVal_sweepSynths : ∀ (n : Nat) (b b' : State), sweepSynths b n = .ok b' → SupVal b b'
  | 0, b, b', h => by unfold sweepSynths at h; injection h with h; subst h; exact SupVal.refl _
  | n + 1, b, b', h => by
    unfold sweepSynths at h
    split at h
    · cases h
    · rename_i b1 h1
      exact (supVal_sweepSynths n b b1 h1).trans (supVal_deleteSynths _ b1 b' h)

theorem supVal_sweepLocks : ∀ (n : Nat) (b b' : State), sweepLocks b n = .ok b' → SupVal b b'
  | 0, b, b', h => by unfold sweepLocks at h; injection h with h; subst h; exact SupVal.refl _
  | n + 1, b, b', h => by
    unfold sweepLocks at h
    split at h
    · cases h
    · rename_i b1 h1
      have i1 := supVal_sweepLocks n b b1 h1
      split at h
      · injection h with h; subst h; exact i1
      · split at h
        · injection h with h; subst h; exact i1
        · split at h
          · split at h
            · cases h
            · rename_i b2 h2
              injection h with h; subst h
              exact i1.trans (supVal_unlockMatured h2)
          · injection h with h; subst h; exact i1

theorem supVal_ledgerFree {b b' : State} {op : Op} (hf : ledgerFree op = true) (h : applyOp b op = .ok b') : SupVal b b' := by
  unfold applyOp at h
  obtain ⟨p, hp, hps⟩ := map_ok h
  subst hps
  cases op with
  | lock o d a du sg =>
    obtain ⟨r, hr, hpr⟩ := map_ok (show (createLock b o d a du sg).map _ = .ok p from hp)
    subst hpr
    exact supVal_createLock (id := r.2) hr
  | unbond snd id =>
    obtain ⟨r, hr, hpr⟩ := map_ok (show (superfluidUnbondLock b id snd).map _ = .ok p from hp)
    subst hpr
    unfold superfluidUnbondLock at hr
    split at hr
    · cases hr
    · rename_i b1 nid h1
      injection hr with hr; subst hr
      obtain ⟨_, _, _, _, _, _, hbu⟩ := unbondLock_ok h1
      exact supVal_beginUnlock hbu
  | beginUnlock snd id c =>
    obtain ⟨r, hr, hpr⟩ := map_ok (show (msgBeginUnlocking b snd id c).map _ = .ok p from hp)
    subst hpr
    unfold msgBeginUnlocking at hr
    split at hr
    · cases hr
    · split at hr
      · cases hr
      · split at hr
        · cases hr
        · exact supVal_beginUnlock (nid := r.2) hr
  | withdraw id =>
    obtain ⟨r, hr, hpr⟩ := map_ok (show (withdraw b id).map _ = .ok p from hp)
    subst hpr
    unfold withdraw at hr
    split at hr
    · cases hr
    · rename_i b1 h1
      exact (supVal_sweepSynths _ b b1 h1).trans (supVal_unlockMatured hr)
  | endBlock =>
    obtain ⟨r, hr, hpr⟩ := map_ok (show (endBlock b).map _ = .ok p from hp)
    subst hpr
    unfold endBlock at hr
    split at hr
    · cases hr
    · rename_i b1 h1
      exact (supVal_sweepSynths _ b b1 h1).trans (supVal_sweepLocks _ b1 _ hr)
  | advance dt =>
    obtain ⟨r, hr, hpr⟩ := map_ok (show (advance b dt).map _ = .ok p from hp)
    subst hpr
    unfold advance at hr
    split at hr
    · cases hr
    · injection hr with hr; subst hr; exact ⟨rfl, rfl⟩
  | addToLock _ _ _ => cases hf
  | delegate _ _ _ => cases hf
  | undelegate _ _ => cases hf
  | undelegateAndUnbond _ _ _ => cases hf
  | epoch _ => cases hf

/-- the lockup-only calls commute with replacing the ledger. -/
theorem applyOpId_setD_ledgerFree (f : AccKey → Option Int) (b : State) {op : Op} (hf : ledgerFree op = true) :
    applyOpId (setD f b) op = (applyOpId b op).map (fun r => (setD f r.1, r.2)) := by
  cases op with
  | lock o d a du sg =>
    show (createLock (setD f b) o d a du sg).map _ = ((createLock b o d a du sg).map _).map _
    rw [createLock_setD]; cases createLock b o d a du sg <;> rfl
  | unbond snd id =>
    show (superfluidUnbondLock (setD f b) id snd).map _ = ((superfluidUnbondLock b id snd).map _).map _
    rw [superfluidUnbondLock_setD]; cases superfluidUnbondLock b id snd <;> rfl
  | beginUnlock snd id c =>
    show (msgBeginUnlocking (setD f b) snd id c).map _ = ((msgBeginUnlocking b snd id c).map _).map _
    rw [msgBeginUnlocking_setD]; cases msgBeginUnlocking b snd id c <;> rfl
  | withdraw id =>
    show (withdraw (setD f b) id).map _ = ((withdraw b id).map _).map _
    rw [withdraw_setD]; cases withdraw b id <;> rfl
  | endBlock =>
    show (endBlock (setD f b)).map _ = ((endBlock b).map _).map _
    rw [endBlock_setD]; cases endBlock b <;> rfl
  | advance dt =>
    show (advance (setD f b) dt).map _ = ((advance b dt).map _).map _
    rw [advance_setD]; cases advance b dt <;> rfl
  | addToLock _ _ _ => cases hf
  | delegate _ _ _ => cases hf
  | undelegate _ _ => cases hf
  | undelegateAndUnbond _ _ _ => cases hf
  | epoch _ => cases hf

/-! ## every call -/

/-- the arithmetic room one call needs (nothing for the calls that do not mint). -/
def Fits (l : State) : Op → Prop
  | .delegate _ id _ => FitsDelegate l id
  | .addToLock _ id a => ∀ lk, l.locks id = some lk → FitsHook l id lk.denom a
  | .undelegateAndUnbond _ id a => FitsUU l id a
  | .epoch ups => FitsEpoch l ups
  | _ => True

/-- the relation between the outcomes of one call in the two models: related states, the same returned lock id. -/
def RefinesId (r : SState × Option Nat) (r' : State × Option Nat) : Prop := Refines r.1 r'.1 ∧ r.2 = r'.2

theorem simR_map {α β α' β' : Type} {rel : α → β → Prop} {rel' : α' → β' → Prop} {x : Except Err α} {y : Except Err β}
    {f : α → α'} {g : β → β'} (h : SimR rel x y) (hfg : ∀ a b, rel a b → rel' (f a) (g b)) :
    SimR rel' (x.map f) (y.map g) := by
  cases x <;> cases y <;> first | exact h.elim | trivial | exact hfg _ _ h

/-- **every call corresponds.**  From a state satisfying the refinement invariant (and the lockup invariant), with room
for what the call mints, the call in the staking model and the call in the ledger model on the abstracted state both
succeed — with related states and the same returned lock id — or both fail. -/
theorem applyOpIdS_sim {s : SState} {op : Op} (hR : ROs s) (hI : Inv s.b) (hfit : Fits (absL s) op) :
    SimR RefinesId (applyOpIdS s (.base op)) (applyOpId (absL s) op) := by
  by_cases hf : ledgerFree op = true
  · rw [show absL s = setD (ledgerOf s.k) s.b from rfl, applyOpId_setD_ledgerFree _ _ hf]
    have hS : applyOpIdS s (.base op) = (applyOpId s.b op).map (fun r => ({ s with b := r.1 }, r.2)) := by
      cases op with
      | lock o d a du sg => show (createLock s.b o d a du sg).map _ = ((createLock s.b o d a du sg).map _).map _; cases createLock s.b o d a du sg <;> rfl
      | unbond snd id => show (superfluidUnbondLock s.b id snd).map _ = ((superfluidUnbondLock s.b id snd).map _).map _; cases superfluidUnbondLock s.b id snd <;> rfl
      | beginUnlock snd id c => show (msgBeginUnlocking s.b snd id c).map _ = ((msgBeginUnlocking s.b snd id c).map _).map _; cases msgBeginUnlocking s.b snd id c <;> rfl
      | withdraw id => show (withdraw s.b id).map _ = ((withdraw s.b id).map _).map _; cases withdraw s.b id <;> rfl
      | endBlock => show (endBlock s.b).map _ = ((endBlock s.b).map _).map _; cases endBlock s.b <;> rfl
      | advance dt => show (advance s.b dt).map _ = ((advance s.b dt).map _).map _; cases advance s.b dt <;> rfl
      | addToLock _ _ _ => cases hf
      | delegate _ _ _ => cases hf
      | undelegate _ _ => cases hf
      | undelegateAndUnbond _ _ _ => cases hf
      | epoch _ => cases hf
    rw [hS]
    cases hr : applyOpId s.b op with
    | error e => trivial
    | ok r =>
      have hap : applyOp s.b op = .ok r.1 := by unfold applyOp; rw [hr]; rfl
      have hsv := supVal_ledgerFree hf hap
      exact ⟨⟨rfl, ROs_withB hR hsv.sup hsv.vals⟩, rfl⟩
  · cases op with
    | addToLock snd id a =>
      exact simR_map (addTokensToLockS_sim (snd := snd) hR hfit) (fun _ _ h => ⟨h, rfl⟩)
    | delegate snd id v =>
      exact simR_map (superfluidDelegateS_sim (snd := snd) (v := v) hR hfit) (fun _ _ h => ⟨h, rfl⟩)
    | undelegate snd id =>
      exact simR_map (superfluidUndelegateS_sim (snd := snd) (id := id) hR) (fun _ _ h => ⟨h, rfl⟩)
    | undelegateAndUnbond snd id a =>
      exact simR_map (undelegateAndUnbondS_sim (snd := snd) hR hfit) (fun _ _ h => ⟨h.1, by rw [h.2]⟩)
    | epoch ups =>
      exact simR_map (epochS_sim hR hI hfit) (fun _ _ h => ⟨h, rfl⟩)
    | lock _ _ _ _ _ => exact absurd rfl hf
    | unbond _ _ => exact absurd rfl hf
    | beginUnlock _ _ _ => exact absurd rfl hf
    | withdraw _ => exact absurd rfl hf
    | endBlock => exact absurd rfl hf
    | advance _ => exact absurd rfl hf

theorem inv_absL {s : SState} (h : Inv s.b) : Inv (absL s) := h.ledger_frame (ledgerOf s.k) s.b.supply s.b.offset

/-- one step (a failed call is a no-op in both models). -/
theorem stepS_sim {s : SState} {op : Op} (hR : ROs s) (hI : Inv s.b) (hfit : Fits (absL s) op) :
    absL (stepS s (.base op)) = step (absL s) op ∧ ROs (stepS s (.base op)) := by
  have h := applyOpIdS_sim hR hI hfit
  unfold stepS step applyOpS applyOp
  cases hs : applyOpIdS s (.base op) with
  | error e =>
    cases hl : applyOpId (absL s) op with
    | error e' => exact ⟨rfl, hR⟩
    | ok r' => rw [hs, hl] at h; exact h.elim
  | ok r =>
    cases hl : applyOpId (absL s) op with
    | error e' => rw [hs, hl] at h; exact h.elim
    | ok r' =>
      rw [hs, hl] at h
      obtain ⟨⟨h1, h2⟩, _⟩ := h
      exact ⟨h1.symm, h2⟩

/-- room for every call of a history, along the LEDGER model's run. -/
def FitsAlong : State → List Op → Prop
  | _, [] => True
  | l, op :: r => Fits l op ∧ FitsAlong (step l op) r

/-- **the staking model refines the ledger model at exchange rate one**, along every slash-free history with room. -/
theorem runS_sim : ∀ (ops : List Op) (s : SState), ROs s → Inv s.b → FitsAlong (absL s) ops →
    absL (runS s (ops.map OpS.base)) = run (absL s) ops ∧ ROs (runS s (ops.map OpS.base))
  | [], s, hR, _, _ => ⟨rfl, hR⟩
  | op :: r, s, hR, hI, hfit => by
    obtain ⟨h1, h2⟩ := stepS_sim hR hI hfit.1
    have hI' : Inv (stepS s (.base op)).b := inv_stepS _ hI
    have := runS_sim r (stepS s (.base op)) h2 hI' (by rw [h1]; exact hfit.2)
    show absL (runS (stepS s (.base op)) (r.map OpS.base)) = run (step (absL s) op) r ∧ _
    rw [← h1]
    exact this

end OsmoVerif.Superfluid
