/-
Every message of Model/GammKeeper is a `Good` transition; invariants over whole histories; explicit per-hop
accounting of the router.  Core only.
-/
import OsmoVerif.Proofs.GammKeeper
namespace OsmoVerif.Gamm
open OsmoVerif.Ledger OsmoVerif.Ledger.Bank

/-- the users whose balances a message may move: its sender, and the recipient of a direct send. -/
def Msg.touches (m : Msg) (v : Nat) : Prop :=
  v = m.sender ∨ (match m with
    | .bankSend _ to _ _ => to = .user v
    | _ => False)

theorem step_facts {s s' : State} {m : Msg} (h : step s m = some s') : StepFacts m.touches s s' := by
  cases m with
  | createPool u k liq => exact (createPool_good h).facts fun v hv => Or.inl hv
  | joinPool u id sh maxs mth => exact (joinPool_good h).facts fun v hv => Or.inl hv
  | joinSwapExternAmountIn u id d a ms mth => exact (joinSwapExternAmountIn_good h).facts fun v hv => Or.inl hv
  | joinSwapShareAmountOut u id d sh mx mth => exact (joinSwapShareAmountOut_good h).facts fun v hv => Or.inl hv
  | exitPool u id sh mins mth =>
    simp only [step, Option.map_eq_some_iff] at h
    obtain ⟨⟨s1, cs⟩, h1, h2⟩ := h
    subst h2
    exact (exitPool_good h1).facts fun v hv => Or.inl hv
  | exitSwapShareAmountIn u id d sh mn mth ms =>
    simp only [step, Option.map_eq_some_iff] at h
    obtain ⟨⟨s1, t⟩, h1, h2⟩ := h
    subst h2
    exact (exitSwapShareAmountIn_good h1).facts fun v hv => Or.inl hv
  | exitSwapExternAmountOut u id d a mth => exact (exitSwapExternAmountOut_good h).facts fun v hv => Or.inl hv
  | swapExactAmountIn u d a mn hops =>
    simp only [step, Option.map_eq_some_iff] at h
    obtain ⟨⟨s1, t⟩, h1, h2⟩ := h
    subst h2
    exact (routeExactAmountIn_good h1).facts fun v hv => Or.inl hv
  | swapExactAmountOut u mx d a hops =>
    simp only [step, Option.map_eq_some_iff] at h
    obtain ⟨⟨s1, t⟩, h1, h2⟩ := h
    subst h2
    exact (routeExactAmountOut_good h1).facts fun v hv => Or.inl hv
  | bankSend u to d a =>
    have := bankSend_facts h
    exact ⟨this.inv, this.tok, fun v hv d => this.others v (fun hu => hv (by
      cases hu with
      | inl h0 => exact Or.inl h0
      | inr h0 => exact Or.inr h0)) d, this.clean⟩

/-- only a direct send changes the donation ledger. -/
theorem step_donated {s s' : State} {m : Msg} (h : step s m = some s')
    (hm : ∀ u to d a, m ≠ .bankSend u to d a) : s'.donated = s.donated := by
  cases m with
  | createPool u k liq => exact (createPool_good h).don
  | joinPool u id sh maxs mth => exact (joinPool_good h).don
  | joinSwapExternAmountIn u id d a ms mth => exact (joinSwapExternAmountIn_good h).don
  | joinSwapShareAmountOut u id d sh mx mth => exact (joinSwapShareAmountOut_good h).don
  | exitPool u id sh mins mth =>
    simp only [step, Option.map_eq_some_iff] at h
    obtain ⟨⟨s1, cs⟩, h1, h2⟩ := h
    subst h2
    exact (exitPool_good h1).don
  | exitSwapShareAmountIn u id d sh mn mth ms =>
    simp only [step, Option.map_eq_some_iff] at h
    obtain ⟨⟨s1, t⟩, h1, h2⟩ := h
    subst h2
    exact (exitSwapShareAmountIn_good h1).don
  | exitSwapExternAmountOut u id d a mth => exact (exitSwapExternAmountOut_good h).don
  | swapExactAmountIn u d a mn hops =>
    simp only [step, Option.map_eq_some_iff] at h
    obtain ⟨⟨s1, t⟩, h1, h2⟩ := h
    subst h2
    exact (routeExactAmountIn_good h1).don
  | swapExactAmountOut u mx d a hops =>
    simp only [step, Option.map_eq_some_iff] at h
    obtain ⟨⟨s1, t⟩, h1, h2⟩ := h
    subst h2
    exact (routeExactAmountOut_good h1).don
  | bankSend u to d a => exact absurd rfl (hm u to d a)

theorem apply_inv (s : State) (m : Msg) (hinv : Inv s) : Inv (apply s m) := by
  unfold apply
  cases h : step s m with
  | none => exact hinv
  | some s' => exact (step_facts h).inv hinv

theorem applyOp_inv (s : State) (o : Op) (hinv : Inv s) : Inv (applyOp s o) := by
  cases o with
  | msg m => exact apply_inv s m hinv
  | fund u n a =>
    simp only [applyOp]
    cases h : fund s u (.tok n) a with
    | none => exact hinv
    | some s' => exact fund_inv h hinv
  | setParams p => exact ⟨hinv.wf, hinv.bank, hinv.shares, hinv.sup⟩

theorem runOps_inv : ∀ (ops : List Op) (s : State), Inv s → Inv (runOps s ops)
  | [], _, h => h
  | o :: os, s, h => runOps_inv os _ (applyOp_inv s o h)

theorem init_inv (n : Nat) : Inv { nextPoolId := n } :=
  ⟨fun _ _ => rfl, fun _ _ _ => rfl, fun _ => rfl, fun _ => rfl⟩

/-! ## explicit per-hop accounting -/

theorem calcTakerFee_spec {ex : Bool} {amt f after fee : Int} (h : calcTakerFee ex amt f = some (after, fee)) :
    (ex = true → after + fee = amt) ∧ (ex = false → after = amt + fee) := by
  unfold calcTakerFee at h
  split at h
  · rename_i hex
    unfold calcTakerFeeExactIn at h
    simp only [Option.bind_eq_bind, Option.bind_eq_some_iff] at h
    obtain ⟨_, _, _, _, af, _, h⟩ := h
    injection h with h; injection h with h1 h2; subst h1; subst h2
    exact ⟨fun _ => by omega, fun hc => by rw [hex] at hc; cases hc⟩
  · rename_i hex
    unfold calcTakerFeeExactOut at h
    simp only [Option.bind_eq_bind, Option.bind_eq_some_iff] at h
    obtain ⟨_, _, _, _, _, _, af, _, h⟩ := h
    injection h with h; injection h with h1 h2; subst h1; subst h2
    exact ⟨fun hc => absurd hc hex, fun _ => by omega⟩

/-- `chargeTakerFee` moves exactly `fee ≥ 0` of the token-in denom from the sender to the fee collector and
nothing else; exact-in: `after + fee = amt`; exact-out: `after = amt + fee`. -/
theorem chargeTakerFee_spec {s s' : State} {u : Nat} {din dout : Denom} {amt after fee : Int} {ex : Bool}
    (h : chargeTakerFee s u din amt dout ex = some (s', after, fee)) :
    0 ≤ fee ∧ (ex = true → after + fee = amt) ∧ (ex = false → after = amt + fee) ∧ s'.pools = s.pools ∧
    ∀ a d, s'.bal a d = s.bal a d - (if a = .user u ∧ d = din then fee else 0)
                                 + (if a = .feeCollector ∧ d = din then fee else 0) := by
  unfold chargeTakerFee at h
  split at h
  · injection h with h; injection h with h1 h2; injection h2 with h2 h3; subst h1; subst h2; subst h3
    exact ⟨by omega, fun _ => by omega, fun _ => by omega, rfl, fun a d => by split <;> split <;> omega⟩
  · split at h
    · cases h
    · rename_i af fe hcalc
      obtain ⟨c1, c2⟩ := calcTakerFee_spec hcalc
      split at h
      · cases h
      · split at h
        · injection h with h; injection h with h1 h2; injection h2 with h2 h3; subst h1; subst h2; subst h3
          rename_i hz; 
          exact ⟨by omega, c1, c2, rfl, fun a d => by rw [hz]; split <;> split <;> omega⟩
        · split at h
          · cases h
          · rename_i b hb
            injection h with h; injection h with h1 h2; injection h2 with h2 h3; subst h1; subst h2; subst h3
            refine ⟨by omega, c1, c2, rfl, fun a d => ?_⟩
            show b.balance a d = _
            rw [send_balance hb]
            simp only [State.bal]
            grind

/-- gamm `SwapExactAmountIn`: exactly `a` of `din` goes from the sender to the pool account and exactly `out` of
`dout` from the pool account to the sender; nothing else moves. -/
theorem gammSwapIn_spec {s s' : State} {u id : Nat} {din dout : Denom} {a minOut out : Int} {math : Option Int}
    (h : gammSwapIn s u id din a dout minOut math = some (s', out)) :
    din ≠ dout ∧ 0 < a ∧ 0 < out ∧ minOut ≤ out ∧ math = some out ∧
    ∀ ac d, s'.bal ac d = s.bal ac d - (if ac = .user u ∧ d = din then a else 0) + (if ac = .pool id ∧ d = din then a else 0)
                               - (if ac = .pool id ∧ d = dout then out else 0) + (if ac = .user u ∧ d = dout then out else 0) := by
  unfold gammSwapIn at h
  simp only [Option.bind_eq_bind, Option.bind_eq_some_iff, require_eq_some, decide_eq_true_eq] at h
  obtain ⟨p, hp, _, hne, o, hm, ⟨p', ok⟩, hrec, _, hpos, _, hmin, s1, happ, h⟩ := h
  injection h with h; injection h with h1 h2; subst h1; subst h2
  unfold applySwap at happ
  simp only [Option.bind_eq_bind, Option.bind_eq_some_iff] at happ
  obtain ⟨b1, hb1, b2, hb2, happ⟩ := happ
  injection happ with happ; subst happ
  refine ⟨hne, (send_pos hb1).1, hpos, hmin, hm, fun ac d => ?_⟩
  show b2.balance ac d = _
  rw [send_balance hb2, send_balance hb1]
  simp only [State.bal]
  grind

theorem gammSwapOut_spec {s s' : State} {u id : Nat} {din dout : Denom} {b maxIn a : Int} {math : Option Int}
    (h : gammSwapOut s u id din maxIn dout b math = some (s', a)) :
    din ≠ dout ∧ 0 < a ∧ a ≤ maxIn ∧ 0 < b ∧ math = some a ∧
    ∀ ac d, s'.bal ac d = s.bal ac d - (if ac = .user u ∧ d = din then a else 0) + (if ac = .pool id ∧ d = din then a else 0)
                               - (if ac = .pool id ∧ d = dout then b else 0) + (if ac = .user u ∧ d = dout then b else 0) := by
  unfold gammSwapOut at h
  simp only [Option.bind_eq_bind, Option.bind_eq_some_iff, require_eq_some, decide_eq_true_eq] at h
  obtain ⟨p, hp, _, hne, _, _, a', hm, ⟨p', ok⟩, hrec, _, hpos, _, hmax, s1, happ, h⟩ := h
  injection h with h; injection h with h1 h2; subst h1; subst h2
  unfold applySwap at happ
  simp only [Option.bind_eq_bind, Option.bind_eq_some_iff] at happ
  obtain ⟨b1, hb1, b2, hb2, happ⟩ := happ
  injection happ with happ; subst happ
  refine ⟨hne, hpos, hmax, (send_pos hb2).1, hm, fun ac d => ?_⟩
  show b2.balance ac d = _
  rw [send_balance hb2, send_balance hb1]
  simp only [State.bal]
  grind

/-- One exact-in hop through the router: the sender pays exactly `amt` of the token-in denom; `after` of it is in the
pool account, `fee` in the taker-fee collector, `after + fee = amt`; the sender receives exactly `out` of the
token-out denom from the pool account; no other balance changes. -/
theorem hopIn_accounting {s s' : State} {u : Nat} {din : Denom} {amt minOut out : Int} {h : HopIn}
    (hh : hopIn s u din amt h minOut = some (s', out)) :
    ∃ after fee, after + fee = amt ∧ 0 ≤ fee ∧ 0 < after ∧ din ≠ h.dout ∧ 0 < out ∧
      ∀ ac d, s'.bal ac d = s.bal ac d
        - (if ac = .user u ∧ d = din then amt else 0)
        + (if ac = .pool h.pool ∧ d = din then after else 0)
        + (if ac = .feeCollector ∧ d = din then fee else 0)
        - (if ac = .pool h.pool ∧ d = h.dout then out else 0)
        + (if ac = .user u ∧ d = h.dout then out else 0) := by
  unfold hopIn at hh
  simp only [Option.bind_eq_bind, Option.bind_eq_some_iff] at hh
  obtain ⟨_, _, ⟨s1, after, fee⟩, hfee, hswap⟩ := hh
  obtain ⟨f1, f2, _, _, f5⟩ := chargeTakerFee_spec hfee
  obtain ⟨g1, g2, g3, _, _, g6⟩ := gammSwapIn_spec hswap
  refine ⟨after, fee, f2 rfl, f1, g2, g1, g3, fun ac d => ?_⟩
  rw [g6 ac d, f5 ac d]
  have := f2 rfl
  grind

/-- One exact-out hop: the sender pays `a + fee` of the token-in denom (`a` to the pool account, `fee` to the
collector) and receives exactly the requested `tout` from the pool account. -/
theorem hopOut_accounting {s s' : State} {u : Nat} {h : HopOut} {maxIn paid : Int} {tout : Denom × Int}
    (hh : hopOut s u h maxIn tout = some (s', paid)) :
    ∃ a fee, paid = a + fee ∧ 0 ≤ fee ∧ 0 < a ∧ a ≤ maxIn ∧ h.din ≠ tout.1 ∧ 0 < tout.2 ∧
      ∀ ac d, s'.bal ac d = s.bal ac d
        - (if ac = .user u ∧ d = h.din then paid else 0)
        + (if ac = .pool h.pool ∧ d = h.din then a else 0)
        + (if ac = .feeCollector ∧ d = h.din then fee else 0)
        - (if ac = .pool h.pool ∧ d = tout.1 then tout.2 else 0)
        + (if ac = .user u ∧ d = tout.1 then tout.2 else 0) := by
  unfold hopOut at hh
  simp only [Option.bind_eq_bind, Option.bind_eq_some_iff] at hh
  obtain ⟨⟨s1, a⟩, hswap, ⟨s2, af, fee⟩, hfee, hh⟩ := hh
  injection hh with hh; injection hh with h1 h2; subst h1; subst h2
  obtain ⟨g1, g2, g3, g4, _, g6⟩ := gammSwapOut_spec hswap
  obtain ⟨f1, _, f3, _, f5⟩ := chargeTakerFee_spec hfee
  refine ⟨a, fee, f3 rfl, f1, g2, g3, g1, g4, fun ac d => ?_⟩
  rw [f5 ac d, g6 ac d]
  have := f3 rfl
  grind
end OsmoVerif.Gamm
