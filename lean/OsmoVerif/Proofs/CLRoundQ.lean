/-
C03 helpers, part 6: the exact curve amounts as rational numbers and their sums over a run.
-/
import OsmoVerif.Proofs.CLRound5
import Mathlib.Algebra.Order.Field.Basic
import Mathlib.Data.Rat.Cast.Order

namespace OsmoVerif.CL
open OsmoVerif.Num OsmoVerif.Gen OsmoVerif.Spec OsmoVerif.Props

/-- exact token0 amount `L·|p − q|/(p·q)` between raw sqrt prices `p q` with raw liquidity `liq`,
in raw 18-decimal units. -/
def exact0 (liq p q : Int) : ℚ := (((p - q).natAbs : Int) * liq * 10 ^ 36 : Int) / ((p * q : Int) : ℚ)
/-- exact token1 amount `L·|p − q|`, in raw 18-decimal units. -/
def exact1 (liq p q : Int) : ℚ := (((p - q).natAbs : Int) * liq : Int) / ((10 ^ 36 : Int) : ℚ)

def exactIn (zfo : Bool) (liq p q : Int) : ℚ := if zfo then exact0 liq p q else exact1 liq p q
def exactOut (zfo : Bool) (liq p q : Int) : ℚ := if zfo then exact1 liq p q else exact0 liq p q

theorem ge0_iff {liq p q amt : Int} (hp : 0 < p) (hq : 0 < q) : Ge0 liq p q amt ↔ exact0 liq p q ≤ (amt : ℚ) := by
  have hpq : (0 : ℚ) < ((p * q : Int) : ℚ) := by exact_mod_cast Int.mul_pos hp hq
  unfold Ge0 exact0
  rw [div_le_iff₀ hpq]
  constructor
  · intro h; exact_mod_cast h
  · intro h; exact_mod_cast h

theorem le0_iff {liq p q amt : Int} (hp : 0 < p) (hq : 0 < q) : Le0 liq p q amt ↔ (amt : ℚ) ≤ exact0 liq p q := by
  have hpq : (0 : ℚ) < ((p * q : Int) : ℚ) := by exact_mod_cast Int.mul_pos hp hq
  unfold Le0 exact0
  rw [le_div_iff₀ hpq]
  constructor
  · intro h; exact_mod_cast h
  · intro h; exact_mod_cast h

theorem ge1_iff {liq p q amt : Int} : Ge1 liq p q amt ↔ exact1 liq p q ≤ (amt : ℚ) := by
  have hpq : (0 : ℚ) < ((10 ^ 36 : Int) : ℚ) := by norm_num
  unfold Ge1 exact1
  rw [div_le_iff₀ hpq]
  constructor
  · intro h; exact_mod_cast h
  · intro h; exact_mod_cast h

theorem le1_iff {liq p q amt : Int} : Le1 liq p q amt ↔ (amt : ℚ) ≤ exact1 liq p q := by
  have hpq : (0 : ℚ) < ((10 ^ 36 : Int) : ℚ) := by norm_num
  unfold Le1 exact1
  rw [le_div_iff₀ hpq]
  constructor
  · intro h; exact_mod_cast h
  · intro h; exact_mod_cast h

theorem inGe_iff {zfo : Bool} {liq p q amt : Int} (hp : 0 < p) (hq : 0 < q) :
    InGe zfo liq p q amt ↔ exactIn zfo liq p q ≤ (amt : ℚ) := by
  unfold InGe exactIn
  cases zfo
  · simpa using ge1_iff
  · simpa using ge0_iff hp hq

theorem outLe_iff {zfo : Bool} {liq p q amt : Int} (hp : 0 < p) (hq : 0 < q) :
    OutLe zfo liq p q amt ↔ (amt : ℚ) ≤ exactOut zfo liq p q := by
  unfold OutLe exactOut
  cases zfo
  · simpa using le0_iff hp hq
  · simpa using le1_iff

/-- Σ over the steps taken of the exact amounts of each step's bucket. -/
def sumExactIn (zfo : Bool) : List StepRec → ℚ
  | [] => 0
  | e :: tr => exactIn zfo e.st.pool.liquidity e.res.sqrtPriceNext e.st.pool.sqrtPrice + sumExactIn zfo tr
def sumExactOut (zfo : Bool) : List StepRec → ℚ
  | [] => 0
  | e :: tr => exactOut zfo e.st.pool.liquidity e.res.sqrtPriceNext e.st.pool.sqrtPrice + sumExactOut zfo tr

theorem sums_vs_exact {ogi zfo : Bool} :
    ∀ (tr : List StepRec),
      (∀ e ∈ tr, 0 < e.st.pool.sqrtPrice ∧ 0 < e.res.sqrtPriceNext ∧
        InGe zfo e.st.pool.liquidity e.res.sqrtPriceNext e.st.pool.sqrtPrice (e.amtIn ogi) ∧
        OutLe zfo e.st.pool.liquidity e.res.sqrtPriceNext e.st.pool.sqrtPrice (e.amtOut ogi)) →
      sumExactIn zfo tr ≤ (sumIn ogi tr : ℚ) ∧ (sumOut ogi tr : ℚ) ≤ sumExactOut zfo tr
  | [], _ => by simp [sumExactIn, sumExactOut, sumIn, sumOut]
  | e :: tr, h => by
    obtain ⟨a, b⟩ := sums_vs_exact tr (fun e he => h e (List.mem_cons_of_mem _ he))
    obtain ⟨hp, hn, hi, ho⟩ := h e List.mem_cons_self
    have hi' := (inGe_iff hn hp).mp hi
    have ho' := (outLe_iff hn hp).mp ho
    unfold sumExactIn sumExactOut sumIn sumOut
    push_cast
    exact ⟨add_le_add hi' a, add_le_add ho' b⟩

end OsmoVerif.CL
