/- Helper lemmas for C04: the balancer swap formulas (`CalcOutAmtGivenIn`, `CalcInAmtGivenOut`): exactness of the
Dec products with integer operands, the final Int conversions, the place of the spread factor, domain guards. -/
import OsmoVerif.Proofs.GammMathLp
import OsmoVerif.Props.C13

namespace OsmoVerif.GammMath
open OsmoVerif.Num OsmoVerif.MathM OsmoVerif.Gen OsmoVerif.Spec

theorem P18_val : P18 = 1000000000000000000 := by decide

/-- half-even chop of an exact multiple is exact. -/
theorem chopRound_mul_exact (q : Int) : chopRound P18 (q * P18) = q :=
  IsHalfEven.exact P18_pos (chopRound_isHalfEven P18 (q * P18) P18_pos P18_even)

/-- half-even chop is above every multiple at or below its argument … -/
theorem chopRound_ge {n q : Int} (h : q * P18 ≤ n) : q ≤ chopRound P18 n := by
  obtain ⟨a, _, _⟩ := chopRound_isHalfEven P18 n P18_pos P18_even
  generalize chopRound P18 n = r at *
  rw [P18_val] at *
  omega

/-- … and below every multiple at or above it. -/
theorem chopRound_le {n q : Int} (h : n ≤ q * P18) : chopRound P18 n ≤ q := by
  obtain ⟨_, b, _⟩ := chopRound_isHalfEven P18 n P18_pos P18_even
  generalize chopRound P18 n = r at *
  rw [P18_val] at *
  omega

/-- a Dec times an integer-valued Dec is exact: `a.Mul(n.ToLegacyDec()) = a·n`. -/
theorem Dec_mul_toDec {a n r : Int} (h : Dec.mul a (toDec n) = some r) : r = a * n := by
  unfold Dec.mul at h
  have := chkDec_some h
  rw [this]
  have : a * toDec n = (a * n) * P18 := by unfold toDec; rw [Int.mul_assoc]
  rw [this]; exact chopRound_mul_exact _

theorem Dec_toDec_mul {a n r : Int} (h : Dec.mul (toDec n) a = some r) : r = n * a := by
  unfold Dec.mul at h
  have := chkDec_some h
  rw [this]
  have : toDec n * a = (n * a) * P18 := by unfold toDec; rw [Int.mul_assoc, Int.mul_comm P18 a, Int.mul_assoc]
  rw [this]; exact chopRound_mul_exact _

theorem Dec_sub_spec {a b r : Int} (h : Dec.sub a b = some r) : r = a - b := chkDec_some h
theorem Dec_add_spec {a b r : Int} (h : Dec.add a b = some r) : r = a + b := chkDec_some h

/-- `Dec.quo` by a positive divisor of a numerator that is at least `q` times the divisor. -/
theorem Dec_quo_ge {a b r q : Int} (h : Dec.quo a b = some r) (hb : 0 < b) (hq : q * b ≤ a) : q * P18 ≤ r := by
  unfold Dec.quo at h
  rw [if_neg (by omega)] at h
  rw [chkDec_some h]
  apply chopRound_ge
  -- (a·P18²) tdiv b ≥ q·P18²
  have hP : (0 : Int) < P18 * P18 := Int.mul_pos P18_pos P18_pos
  have h1 : q * P18 * P18 * b ≤ a * (P18 * P18) := by nlinarith
  have : q * P18 * P18 ≤ (a * (P18 * P18)).tdiv b := by
    by_contra hc
    have hlt : (a * (P18 * P18)).tdiv b + 1 ≤ q * P18 * P18 := by omega
    by_cases hn : 0 ≤ a * (P18 * P18)
    · obtain ⟨_, c, _⟩ := tdiv_floor hb hn
      have : ((a * (P18 * P18)).tdiv b + 1) * b ≤ q * P18 * P18 * b := Int.mul_le_mul_of_nonneg_right hlt (by omega)
      omega
    · -- negative numerator: truncation rounds up, so tdiv·b ≥ numerator
      obtain ⟨e, _, hneg⟩ := tdiv_tmod_spec (a * (P18 * P18)) b hb
      have hneg := hneg (by omega)
      have : ((a * (P18 * P18)).tdiv b + 1) * b ≤ q * P18 * P18 * b := Int.mul_le_mul_of_nonneg_right hlt (by omega)
      rw [Int.add_mul] at this
      omega
  exact this

/-- `Dec.quo` of a non-positive numerator by a non-zero divisor of the other sign or of a zero numerator
is non-positive: a non-negative numerator over a negative divisor. -/
theorem Dec_quo_nonpos {a b r : Int} (h : Dec.quo a b = some r) (ha : 0 ≤ a) (hb : b < 0) : r ≤ 0 := by
  unfold Dec.quo at h
  rw [if_neg (by omega)] at h
  rw [chkDec_some h]
  have : (a * (P18 * P18)).tdiv b ≤ 0 := by
    have hn : 0 ≤ a * (P18 * P18) := Int.mul_nonneg ha (Int.le_of_lt (Int.mul_pos P18_pos P18_pos))
    have := Int.tdiv_nonneg hn (show (0 : Int) ≤ -b by omega)
    rw [Int.tdiv_neg] at this
    omega
  have := chopRound_le (n := (a * (P18 * P18)).tdiv b) (q := 0) (by omega)
  exact this

/-- `solveConstantFunctionInvariant` with an integer-valued unknown balance: the result is EXACTLY
`(1 − Pow(before/after, wFixed/wUnknown)) · balanceUnknown`. -/
theorem solveCFI_spec {bB bA wF n wU r : Int} (h : solveCFI bB bA wF (toDec n) wU = some r) :
    ∃ wr y pw, Dec.quo wF wU = some wr ∧ Dec.quo bB bA = some y ∧ pow y wr = some pw ∧ r = (P18 - pw) * n := by
  unfold solveCFI at h
  cases h1 : Dec.quo wF wU with
  | none => simp [h1] at h
  | some wr =>
    cases h2 : Dec.quo bB bA with
    | none => simp [h1, h2] at h
    | some y =>
      cases h3 : pow y wr with
      | none => simp [h1, h2, h3] at h
      | some pw =>
        cases h4 : Dec.sub P18 pw with
        | none => simp [h1, h2, h3, h4] at h
        | some par =>
          simp only [h1, h2, h3, h4, Option.bind_eq_bind, Option.bind_some, bind] at h
          exact ⟨wr, y, pw, rfl, rfl, h3, by rw [Dec_mul_toDec h, Dec_sub_spec h4]⟩

/-- the base of a successful `pow` is inside (0, 2). -/
theorem pow_some_domain {b e r : Int} (h : pow b e = some r) : 0 < b ∧ b < 2 * P18 := by
  by_contra hc
  have : b ≤ 0 ∨ b ≥ 2 * P18 := by omega
  rw [Props.C13.pow_domain this] at h; cases h

/-- exact-in: only `tokenIn·(1 − spread)` enters the curve (the product is exact, nothing is rounded). -/
theorem balAmountInAfterFee_spec {amt spread af : Int} (h : balAmountInAfterFee amt spread = some af) :
    af = amt * (P18 - spread) := by
  unfold balAmountInAfterFee at h
  cases ho : Dec.sub P18 spread with
  | none => simp [ho] at h
  | some om =>
    simp only [ho, Option.bind_some] at h
    rw [Dec_toDec_mul h, Dec_sub_spec ho]

/-- `TruncateInt` + positivity: the integer paid out never exceeds the Dec amount. -/
theorem outTrunc_spec {d t : Int} (h : outTrunc d = .ok t) : 0 < t ∧ t * P18 ≤ d ∧ d < (t + 1) * P18 := by
  unfold outTrunc at h
  cases ht : Dec.truncateInt d with
  | none => simp [ht, pn, bind, Except.bind] at h
  | some t' =>
    simp only [ht, pn, bind, Except.bind] at h
    split at h
    · rename_i hpos
      injection h with h; subst h
      have hv := Dec_truncateInt_spec ht
      have hd : 0 ≤ d := by
        by_contra hc
        have : d.tdiv P18 ≤ 0 := by
          have := Int.tdiv_nonneg (show (0 : Int) ≤ -d by omega) (Int.le_of_lt P18_pos)
          rw [Int.neg_tdiv] at this; omega
        omega
      obtain ⟨a, b, _⟩ := tdiv_floor P18_pos hd
      rw [hv]; exact ⟨by omega, a, b⟩
    · cases h

/-- `Ceil().TruncateInt()` + positivity: the integer charged is never below the Dec amount. -/
theorem inCeil_spec {d t : Int} (h : inCeil d = .ok t) : 0 < t ∧ d ≤ t * P18 ∧ (t - 1) * P18 < d := by
  unfold inCeil at h
  cases hc : Dec.ceil d with
  | none => simp [hc, pn, bind, Except.bind] at h
  | some c =>
    cases ht : Dec.truncateInt c with
    | none => simp [hc, ht, pn, bind, Except.bind] at h
    | some t' =>
      simp only [hc, ht, pn, bind, Except.bind] at h
      split at h
      · rename_i hpos
        injection h with h; subst h
        have hv := Dec_truncateInt_spec ht
        by_cases hd : 0 ≤ d
        · obtain ⟨k, hk, hk1, hk2, _⟩ := Dec_ceil_spec hc hd
          have : t' = k := by rw [hv, hk]; exact Int.mul_tdiv_cancel _ (by decide)
          subst this
          exact ⟨hpos, hk1, hk2⟩
        · -- a negative Dec has a non-positive ceiling
          exfalso
          unfold Dec.ceil at hc
          have hcv := chkDec_some hc
          obtain ⟨e, _, hneg⟩ := tdiv_tmod_spec d P18 P18_pos
          have hneg := hneg (by omega)
          have hq : d.tdiv P18 ≤ 0 := by
            have := Int.tdiv_nonneg (show (0 : Int) ≤ -d by omega) (Int.le_of_lt P18_pos)
            rw [Int.neg_tdiv] at this; omega
          rw [if_pos hneg.2] at hcv
          rw [hv, hcv, Int.mul_tdiv_cancel _ (by decide)] at hpos
          omega
      · cases h

end OsmoVerif.GammMath
