/-
`Exp2` returns a value on its whole domain: no bit-length panic in the polynomial loop, the denominator is
non-zero (it is ≥ 0.6499 by the real-valued analysis), the final `Quo` fits.
-/
import OsmoVerif.Proofs.MathExp2b
import OsmoVerif.Proofs.MathLogTotal

namespace OsmoVerif.MathM
open OsmoVerif.Num OsmoVerif.Gen OsmoVerif.Spec Real

/-- crude magnitude of a half-even product: `|round(a·b/10^36)|·10^36 ≤ |a·b| + 10^36`. -/
theorem chopRound_abs_le (n : Int) : |chopRound P36 n| * P36 ≤ |n| + P36 := by
  obtain ⟨h1, h2, _⟩ := chopRound_isHalfEven P36 n P36_pos P36_even
  have hP := P36_pos
  set q := chopRound P36 n
  have e : |q| * P36 = |q * P36| := by rw [abs_mul, abs_of_pos hP]
  rw [e]
  rcases abs_cases (q * P36) with ⟨e1, _⟩ | ⟨e1, _⟩ <;> rcases abs_cases n with ⟨e2, _⟩ | ⟨e2, _⟩ <;>
    rw [e1, e2] <;> omega

theorem bigMul_total {a b A : Int} (hab : |a * b| ≤ A * P36) (hA : A ≤ 4000 * P36) :
    ∃ c, BigDec.mul a b = some c ∧ |c| ≤ A + 1 := by
  have hP := P36_pos
  have hc := chopRound_abs_le (a * b)
  have hbound : |chopRound P36 (a * b)| ≤ A + 1 := by
    have h3 : |chopRound P36 (a * b)| * P36 ≤ (A + 1) * P36 := by rw [Int.add_mul]; omega
    exact le_of_mul_le_mul_right h3 hP
  refine ⟨_, ?_, hbound⟩
  unfold BigDec.mul
  apply chk_of_abs_le
  omega

theorem bigAdd_total {a b : Int} (h : |a| + |b| ≤ 5000 * P36) : BigDec.add a b = some (a + b) := by
  unfold BigDec.add
  apply chk_of_abs_le
  have := abs_add_le a b
  omega

theorem exp2Loop_total {x : Int} (hx : |x| ≤ P36) :
    ∀ (ns ds : List Int) (xe h p : Int) (k : Nat), ns.length = ds.length → k + ns.length ≤ 8 →
      (∀ n ∈ ns, |n| ≤ P36) → (∀ d ∈ ds, |d| ≤ P36) →
      |xe| ≤ P36 + k → |h| ≤ (2 * k + 2) * P36 → |p| ≤ (2 * k + 2) * P36 →
      ∃ h' p', exp2Loop x ns ds xe h p = some (h', p') ∧ |h'| ≤ 18 * P36 := by
  intro ns
  induction ns with
  | nil =>
    intro ds xe h p k hlen hk _ _ _ hh _
    cases ds with
    | nil =>
      have hP := P36_pos
      have hk8 : (k : Int) ≤ 8 := by simp only [List.length_nil] at hk; omega
      refine ⟨h, p, rfl, ?_⟩
      have : (2 * (k : Int) + 2) * P36 ≤ 18 * P36 := Int.mul_le_mul_of_nonneg_right (by omega) (by omega)
      omega
    | cons d ds => simp at hlen
  | cons n ns ih =>
    intro ds xe h p k hlen hk hns hds hxe hh hp
    cases ds with
    | nil => simp at hlen
    | cons d ds =>
      have hP := P36_pos
      have hPbig : (10 : Int) ≤ P36 := by decide +kernel
      simp only [List.length_cons] at hk hlen
      have hk7 : (k : Int) ≤ 7 := by omega
      have hn1 : |n| ≤ P36 := hns n (List.mem_cons_self ..)
      have hd1 : |d| ≤ P36 := hds d (List.mem_cons_self ..)
      -- new power
      have m1 : |xe * x| ≤ (P36 + k) * P36 := by
        rw [abs_mul]; exact mul_le_mul hxe hx (abs_nonneg _) (by omega)
      obtain ⟨xe', hm, hxe'⟩ := bigMul_total m1 (by nlinarith)
      -- the two products
      have m2 : |n * xe'| ≤ (P36 + k + 1) * P36 := by
        rw [abs_mul, Int.mul_comm]; exact mul_le_mul hxe' hn1 (abs_nonneg _) (by omega)
      have m3 : |d * xe'| ≤ (P36 + k + 1) * P36 := by
        rw [abs_mul, Int.mul_comm]; exact mul_le_mul hxe' hd1 (abs_nonneg _) (by omega)
      obtain ⟨tn, htn, htn'⟩ := bigMul_total m2 (by nlinarith)
      obtain ⟨td, htd, htd'⟩ := bigMul_total m3 (by nlinarith)
      have hkP : (2 * (k : Int) + 2) * P36 ≤ 16 * P36 := Int.mul_le_mul_of_nonneg_right (by omega) (by omega)
      have ah := bigAdd_total (a := h) (b := tn) (by omega)
      have ap := bigAdd_total (a := p) (b := td) (by omega)
      have e2 : (2 * ((k + 1 : Nat) : Int) + 2) * P36 = (2 * (k : Int) + 2) * P36 + 2 * P36 := by push_cast; ring
      have hh' : |h + tn| ≤ (2 * ((k + 1 : Nat) : Int) + 2) * P36 := by
        have := abs_add_le h tn; rw [e2]; omega
      have hp' : |p + td| ≤ (2 * ((k + 1 : Nat) : Int) + 2) * P36 := by
        have := abs_add_le p td; rw [e2]; omega
      obtain ⟨h', p', hl, hb⟩ := ih ds xe' (h + tn) (p + td) (k + 1) (by omega) (by omega)
        (fun n hn => hns n (List.mem_cons_of_mem _ hn)) (fun d hd => hds d (List.mem_cons_of_mem _ hd))
        (by push_cast; omega) hh' hp'
      refine ⟨h', p', ?_, hb⟩
      unfold exp2Loop
      simp only [bind, Option.bind_some, hm, htn, htd, ah, ap]
      exact hl

theorem exp2Coeffs_int_le :
    (∀ n ∈ Osmomath.exp2Num.tail, |n| ≤ P36) ∧ (∀ d ∈ Osmomath.exp2Den.tail, |d| ≤ P36) := by
  constructor
  · intro n hn
    simp only [Osmomath.exp2Num, List.tail_cons, List.mem_cons, List.not_mem_nil, or_false] at hn
    rcases hn with rfl | rfl | rfl | rfl | rfl | rfl <;> decide +kernel
  · intro n hn
    simp only [Osmomath.exp2Den, List.tail_cons, List.mem_cons, List.not_mem_nil, or_false] at hn
    rcases hn with rfl | rfl | rfl | rfl | rfl | rfl <;> decide +kernel

/-- `exp2Rational` returns on the whole of [0,1]. -/
theorem exp2Rational_total {x : Int} (h0 : 0 ≤ x) (h1 : x ≤ P36) : ∃ r, exp2Rational x = some r := by
  have hP := P36_pos
  rcases Int.lt_or_eq_of_le h0 with hpos | rfl
  · rcases Int.lt_or_eq_of_le h1 with hlt | rfl
    · obtain ⟨cn, cd⟩ := exp2Coeffs_int_le
      have hxabs : |x| ≤ P36 := by rw [abs_of_pos hpos]; omega
      obtain ⟨hh, pp, hl, hhb⟩ := exp2Loop_total hxabs Osmomath.exp2Num.tail Osmomath.exp2Den.tail P36
        1000000000000000000000044212244679434 1000000000000000000000000000000000000 0 (by decide) (by decide)
        cn cd (by simp [abs_of_pos hP]) (by decide +kernel) (by decide +kernel)
      -- denominator ≥ 0.6499 by the real analysis
      have hX0 : 0 ≤ bval x := (bval_pos hpos).le
      have hX1 : bval x ≤ 1 := by
        have : (x : ℝ) < ((P36 : Int) : ℝ) := by exact_mod_cast hlt
        rw [P36_cast] at this
        unfold bval; rw [div_le_one (by positivity)]; linarith
      obtain ⟨rn, rd⟩ := exp2Coeffs_le_one
      have hone : bval P36 = 1 := by unfold bval; rw [P36_cast]; field_simp
      have L := exp2Loop_real hX0 hX1 Osmomath.exp2Num.tail Osmomath.exp2Den.tail 0 P36
        1000000000000000000000044212244679434 1000000000000000000000000000000000000 hh pp 1
        (bval 1000000000000000000000044212244679434) (bval 1000000000000000000000000000000000000) 0 0 rn rd
        (by rw [hone]; norm_num) (by norm_num) (by norm_num) hl
      have hE : exp2Err 0 Osmomath.exp2Num.tail.length = 27 / 2 / 10 ^ 36 := by
        simp only [Osmomath.exp2Num, List.tail_cons, List.length_cons, List.length_nil, exp2Err]
        norm_num
      rw [hE] at L
      have hPQ : exp2LoopR (bval x) Osmomath.exp2Num.tail Osmomath.exp2Den.tail 1
          (bval 1000000000000000000000044212244679434) (bval 1000000000000000000000000000000000000) =
          exp2PQ (bval x) := rfl
      rw [hPQ] at L
      obtain ⟨_, _, bB1, _⟩ := exp2PQ_bounds hX0 hX1
      obtain ⟨Lb1, _⟩ := abs_le.mp L.2
      have hppr : (0.64 : ℝ) ≤ bval pp := by
        have : (27 : ℝ) / 2 / 10 ^ 36 ≤ 0.0001 := by norm_num
        linarith
      -- back to integers: pp ≥ 0.64·10^36
      have hppi : 64 * P36 ≤ 100 * pp := by
        have h2 : (64 : ℝ) * 10 ^ 36 ≤ 100 * (pp : ℝ) := by
          unfold bval at hppr
          rw [le_div_iff₀ (by positivity)] at hppr
          linarith
        have : ((64 * P36 : Int) : ℝ) ≤ ((100 * pp : Int) : ℝ) := by push_cast; rw [P36_cast]; exact h2
        exact_mod_cast this
      have hpp0 : 0 < pp := by omega
      -- the final Quo fits
      have hq : ∃ r, BigDec.quo hh pp = some r := by
        unfold BigDec.quo
        rw [if_neg (by omega)]
        refine ⟨_, chk_of_abs_le ?_⟩
        have hPP : 0 < P36 * P36 := by positivity
        have htr := isTrunc_abs_lt hpp0 (tdiv_isTrunc (hh * (P36 * P36)) pp hpp0)
        set t := (hh * (P36 * P36)).tdiv pp
        -- |t|·pp < |hh|·P36² + pp ≤ 18·P36³ + pp
        have h4 : |t| * pp ≤ |hh| * (P36 * P36) + pp := by
          have e1 : |t| * pp = |t * pp| := by rw [abs_mul, abs_of_pos hpp0]
          have e2 : |hh| * (P36 * P36) = |hh * (P36 * P36)| := by rw [abs_mul, abs_of_pos hPP]
          rw [e1, e2]
          have := abs_sub_abs_le_abs_sub (t * pp) (hh * (P36 * P36))
          have e3 : |t * pp - hh * (P36 * P36)| = |hh * (P36 * P36) - t * pp| := abs_sub_comm _ _
          omega
        have h5 : |t| ≤ 30 * P36 * P36 := by
          by_contra hc
          have : (30 * P36 * P36 + 1) * pp ≤ |t| * pp := Int.mul_le_mul_of_nonneg_right (by omega) (by omega)
          have h6 : |hh| * (P36 * P36) ≤ (18 * P36) * (P36 * P36) :=
            Int.mul_le_mul_of_nonneg_right hhb (by omega)
          nlinarith
        have hc := chopRound_abs_le t
        have h7 : |chopRound P36 t| * P36 ≤ (30 * P36 + 1) * P36 := by nlinarith
        have := le_of_mul_le_mul_right h7 hP
        omega
      obtain ⟨r, hr⟩ := hq
      refine ⟨r, ?_⟩
      unfold exp2Rational
      rw [if_neg (by omega), if_neg (by omega), if_neg (by omega)]
      show (exp2Loop x Osmomath.exp2Num.tail Osmomath.exp2Den.tail P36
        1000000000000000000000044212244679434 1000000000000000000000000000000000000).bind _ = _
      rw [hl]; exact hr
    · exact ⟨2 * P36, by decide +kernel⟩
  · exact ⟨P36, by decide +kernel⟩

end OsmoVerif.MathM
