/- helper lemmas for C19: export/import of the sum tree, the epoch timers and the accumulator store. Core only
(on top of the C15/C16/C17 proof files). -/
import OsmoVerif.Model.Det
import OsmoVerif.Proofs.SumTreeInsert
import OsmoVerif.Proofs.EpochsHistory

namespace OsmoVerif.Det
open List OsmoVerif.Spec

/-! ### sorted map: re-inserting an ascending list reproduces it -/

theorem insert_last (pre : SortedMap.SMap) (k : SortedMap.Key) (v : Int) (h : ∀ e ∈ pre, e.1 < k) :
    SortedMap.insert pre k v = pre ++ [(k, v)] := by
  induction pre with
  | nil => rfl
  | cons e r ih =>
    obtain ⟨q, w⟩ := e
    have hq : q < k := h (q, w) (List.mem_cons_self)
    have h1 : q ≠ k := SumTree.klt_ne hq
    have h2 : ¬ k < q := SumTree.klt_asymm hq
    simp only [SortedMap.insert, h1, h2, if_false, List.cons_append]
    rw [ih (fun e he => h e (List.mem_cons_of_mem _ he))]

theorem foldl_insert_sorted (suf : SortedMap.SMap) : ∀ (pre : SortedMap.SMap),
    (pre ++ suf).Pairwise (fun a b => a.1 < b.1) →
    suf.foldl (fun a kv => SortedMap.insert a kv.1 kv.2) pre = pre ++ suf := by
  induction suf with
  | nil => intro pre _; simp
  | cons e rest ih =>
    intro pre hs
    obtain ⟨k, v⟩ := e
    have hlt : ∀ x ∈ pre, x.1 < k := by
      intro x hx
      have := List.pairwise_append.mp hs
      exact this.2.2 x hx (k, v) List.mem_cons_self
    simp only [List.foldl_cons]
    rw [insert_last pre k v hlt]
    have : (pre ++ [(k, v)]) ++ rest = pre ++ (k, v) :: rest := by simp
    rw [ih (pre ++ [(k, v)]) (by rw [this]; exact hs), this]

/-- every leaf list of a well-formed tree (sorted, starting with the empty-key sentinel) is reproduced by inserting
its entries, in order, into the map of a new tree -/
theorem reinsert_good (l : SortedMap.SMap) (hs : l.Pairwise (fun a b => a.1 < b.1)) (v : Int) (rest : SortedMap.SMap)
    (hl : l = ([], v) :: rest) :
    l.foldl (fun a kv => SortedMap.insert a kv.1 kv.2) [([], 0)] = l := by
  subst hl
  simp only [List.foldl_cons, SortedMap.insert, if_true]
  exact foldl_insert_sorted rest [([], v)] hs

/-! ### sum tree -/

theorem foldlM_set_wf (xs : List (SumTree.Key × Int)) : ∀ {st : SumTree.Store}, SumTree.WF st →
    ∃ s', xs.foldlM (fun s kv => SumTree.set s (SumTree.Ptr.of kv.1) kv.2) st = some s' ∧ SumTree.WF s' ∧
      SumTree.abs s' = xs.foldl (fun a kv => SortedMap.insert a kv.1 kv.2) (SumTree.abs st) ∧ s'.m = st.m := by
  induction xs with
  | nil => intro st h; exact ⟨st, rfl, h, rfl, rfl⟩
  | cons kv rest ih =>
    intro st h
    obtain ⟨s1, h1, hw1, ha1, hm1⟩ := SumTree.set_wf h (SumTree.Ptr.of kv.1) kv.2
    obtain ⟨s2, h2, hw2, ha2, hm2⟩ := ih hw1
    refine ⟨s2, ?_, hw2, ?_, by rw [hm2, hm1]⟩
    · simp only [List.foldlM_cons, h1, bind, Option.bind]; exact h2
    · rw [ha2, ha1]; rfl

/-! ### epoch timers -/

def setH (h : Int) (e : Epochs.EpochInfo) : Epochs.EpochInfo := { e with currentEpochStartHeight := h }

theorem insertTimer_last (e : Epochs.EpochInfo) (l : List Epochs.EpochInfo) (h : ∀ x ∈ l, x.identifier < e.identifier) :
    Epochs.insertTimer e l = l ++ [e] := by
  induction l with
  | nil => rfl
  | cons x r ih =>
    have hx := h x List.mem_cons_self
    have : ¬ e.identifier < x.identifier := String.lt_asymm hx
    simp only [Epochs.insertTimer, this, if_false, List.cons_append]
    rw [ih (fun y hy => h y (List.mem_cons_of_mem _ hy))]

theorem any_id_false (e : Epochs.EpochInfo) (l : List Epochs.EpochInfo) (h : ∀ x ∈ l, x.identifier < e.identifier) :
    l.any (fun x => x.identifier == e.identifier) = false := by
  rw [List.any_eq_false]
  intro x hx
  have := String.ne_of_lt (h x hx)
  simpa using this

theorem epochsImport_aux (ctxT ctxH : Int) (subs : List Epochs.Store) (g : List Epochs.EpochInfo) :
    ∀ (pre : List Epochs.EpochInfo),
    (pre ++ g).Pairwise (fun a b => a.identifier < b.identifier) →
    (∀ e ∈ g, Epochs.validate e = true ∧ e.startTime ≠ 0) →
    g.foldlM (fun st e => Epochs.addEpochInfo ctxT ctxH e st) { timers := pre, subs := subs } =
      some { timers := pre ++ g.map (setH ctxH), subs := subs } := by
  induction g with
  | nil => intro pre _ _; simp
  | cons e rest ih =>
    intro pre hs hv
    have hlt : ∀ x ∈ pre, x.identifier < e.identifier := by
      intro x hx
      exact (List.pairwise_append.mp hs).2.2 x hx e List.mem_cons_self
    obtain ⟨hval, hst⟩ := hv e List.mem_cons_self
    have hstep : Epochs.addEpochInfo ctxT ctxH e { timers := pre, subs := subs } =
        some { timers := pre ++ [setH ctxH e], subs := subs } := by
      unfold Epochs.addEpochInfo
      simp only [hval, Bool.not_true, Bool.false_eq_true, if_false, any_id_false e pre hlt, hst]
      have : ∀ x ∈ pre, x.identifier < (setH ctxH e).identifier := hlt
      rw [show ({ e with currentEpochStartHeight := ctxH } : Epochs.EpochInfo) = setH ctxH e from rfl,
        insertTimer_last _ _ this]
    simp only [List.foldlM_cons, hstep, bind, Option.bind]
    have happ : (pre ++ [setH ctxH e]) ++ rest = pre ++ setH ctxH e :: rest := by simp
    have hs' : ((pre ++ [setH ctxH e]) ++ rest).Pairwise (fun a b => a.identifier < b.identifier) := by
      rw [happ]
      have h0 := List.pairwise_append.mp hs
      refine List.pairwise_append.mpr ⟨h0.1, ?_, ?_⟩
      · have := h0.2.1
        rw [List.pairwise_cons] at this ⊢
        exact ⟨fun y hy => this.1 y hy, this.2⟩
      · intro x hx y hy
        rcases List.mem_cons.mp hy with rfl | hy
        · exact hlt x hx
        · exact h0.2.2 x hx y (List.mem_cons_of_mem _ hy)
    rw [ih (pre ++ [setH ctxH e]) hs' (fun x hx => hv x (List.mem_cons_of_mem _ hx))]
    simp

/-! ### accumulator store -/

theorem aset_new {κ α : Type} [DecidableEq κ] (l : List (κ × α)) (q : κ) (v : α) (h : q ∉ l.map Prod.fst) :
    Accum.aset l q v = l ++ [(q, v)] := by
  induction l with
  | nil => rfl
  | cons e r ih =>
    obtain ⟨k, w⟩ := e
    simp only [List.map_cons, List.mem_cons, not_or] at h
    have : ¬ k = q := fun e => h.1 e.symm
    simp only [Accum.aset, this, if_false, List.cons_append]
    rw [ih h.2]

theorem foldl_aset {κ α : Type} [DecidableEq κ] (l : List (κ × α)) : ∀ (pre : List (κ × α)),
    ((pre ++ l).map Prod.fst).Nodup → l.foldl (fun acc kv => Accum.aset acc kv.1 kv.2) pre = pre ++ l := by
  induction l with
  | nil => intro pre _; simp
  | cons e r ih =>
    intro pre hn
    obtain ⟨k, v⟩ := e
    have hk : k ∉ pre.map Prod.fst := by
      rw [List.map_append, List.nodup_append] at hn
      intro hc
      exact hn.2.2 k hc k (by simp) rfl
    simp only [List.foldl_cons]
    rw [aset_new pre k v hk]
    have : (pre ++ [(k, v)]) ++ r = pre ++ (k, v) :: r := by simp
    rw [ih (pre ++ [(k, v)]) (by rw [this]; exact hn), this]

end OsmoVerif.Det
