/- C17: invariants of every reachable state (induction over the history). -/
import OsmoVerif.Proofs.EpochsHistory
namespace OsmoVerif.Epochs

structure Inv (s : State) (tr : List Signal) : Prop where
  distinct : Distinct s.timers
  traceIds : ∀ sig ∈ tr, ∃ e ∈ s.timers, e.identifier = sig.timer
  grid : ∀ e ∈ s.timers, OnGrid e
  pos : ∀ e ∈ s.timers, EpochPos e
  sigs : ∀ e ∈ s.timers, sigsFor e.identifier tr = canon (sigCount e)

theorem distinct_map_pureStep (t h : Int) (l : List EpochInfo) (hd : Distinct l) : Distinct (l.map (pureStep t h)) := by
  unfold Distinct at *
  rw [List.pairwise_map]
  exact hd.imp (fun hne => by rw [pureStep_identifier, pureStep_identifier]; exact hne)

theorem distinct_stepBlock (s : State) (b : Block) (hd : Distinct s.timers) : Distinct (stepBlock s b).timers := by
  rcases stepBlock_cases s b with ⟨_, h, _⟩ | ⟨_, h, _, _⟩
  · rw [h]; exact hd
  · rw [h]; exact distinct_map_pureStep _ _ _ hd

theorem inv_block (s : State) (tr : List Signal) (b : Block) (hi : Inv s tr) :
    Inv (stepBlock s b) (tr ++ committedSignals s b) := by
  rcases stepBlock_cases s b with ⟨_, h, hs⟩ | ⟨_, h, _, hs⟩
  · rw [h, hs, List.append_nil]; exact hi
  · have hmem : ∀ x ∈ (stepBlock s b).timers, ∃ e ∈ s.timers, x = pureStep b.t b.h e := by
      intro x hx; rw [h] at hx
      obtain ⟨e, he, rfl⟩ := List.mem_map.1 hx
      exact ⟨e, he, rfl⟩
    have hmem' : ∀ e ∈ s.timers, pureStep b.t b.h e ∈ (stepBlock s b).timers := by
      intro e he; rw [h]; exact List.mem_map.2 ⟨e, he, rfl⟩
    refine ⟨distinct_stepBlock s b hi.distinct, ?_, ?_, ?_, ?_⟩
    · intro sig hsig
      rcases List.mem_append.1 hsig with hsig | hsig
      · obtain ⟨e, he, hid⟩ := hi.traceIds sig hsig
        exact ⟨_, hmem' e he, by rw [pureStep_identifier]; exact hid⟩
      · rw [hs] at hsig
        obtain ⟨y, hy, hsy⟩ := List.mem_flatMap.1 hsig
        exact ⟨_, hmem' y hy, by rw [pureStep_identifier]; exact (pureSignals_timer _ y sig hsy).symm⟩
    · intro x hx; obtain ⟨e, he, rfl⟩ := hmem x hx; exact pureStep_onGrid _ _ _ (hi.grid e he)
    · intro x hx; obtain ⟨e, he, rfl⟩ := hmem x hx; exact pureStep_epochPos _ _ _ (hi.pos e he)
    · intro x hx; obtain ⟨e, he, rfl⟩ := hmem x hx
      rw [pureStep_identifier, sigsFor_append, hi.sigs e he, hs, sigsFor_flatMap _ _ hi.distinct e he]
      exact canon_step _ _ _ (hi.pos e he)

theorem inv_add (s s' : State) (tr : List Signal) (ctxT ctxH : Int) (e : EpochInfo) (hi : Inv s tr)
    (hf : e.epochCountingStarted = false) (ha : addEpochInfo ctxT ctxH e s = some s') : Inv s' tr := by
  obtain ⟨e', hid, hst, _, _, _, _, _, hne, _, htim, _⟩ := addEpochInfo_some ha
  have hf' : e'.epochCountingStarted = false := by rw [hst]; exact hf
  have hne' : ∀ x ∈ s.timers, x.identifier ≠ e'.identifier := by rw [hid]; exact hne
  have hmem : ∀ x ∈ s'.timers, x = e' ∨ x ∈ s.timers := by
    intro x hx; rw [htim] at hx; exact (mem_insertTimer _ _ _).1 hx
  refine ⟨?_, ?_, ?_, ?_, ?_⟩
  · rw [htim]; exact distinct_insertTimer _ _ hi.distinct hne'
  · intro sig hsig
    obtain ⟨x, hx, hxid⟩ := hi.traceIds sig hsig
    exact ⟨x, by rw [htim]; exact (mem_insertTimer _ _ _).2 (Or.inr hx), hxid⟩
  · intro x hx
    rcases hmem x hx with rfl | hx
    · intro h; rw [hf'] at h; cases h
    · exact hi.grid x hx
  · intro x hx
    rcases hmem x hx with rfl | hx
    · intro h; rw [hf'] at h; cases h
    · exact hi.pos x hx
  · intro x hx
    rcases hmem x hx with rfl | hx
    · rw [sigsFor_eq_nil]
      · simp [sigCount, hf', canon]
      · intro sig hsig hsid
        obtain ⟨y, hy, hyid⟩ := hi.traceIds sig hsig
        exact hne' y hy (hyid.trans hsid)
    · exact hi.sigs x hx

theorem reach_inv {s : State} {tr : List Signal} (h : Reach s tr) : Inv s tr := by
  induction h with
  | init k =>
    refine ⟨?_, ?_, ?_, ?_, ?_⟩ <;> simp [initState, Distinct]
  | add ctxT ctxH e _ hf ha ih => exact inv_add _ _ _ _ _ _ ih hf ha
  | block b _ ih => exact inv_block _ _ _ ih

/-- with non-decreasing block times, a counting timer's start time is never after the last block time -/
theorem reachMono_started_le {s : State} {T : Int} (h : ReachMono s T) :
    ∀ e ∈ s.timers, e.epochCountingStarted = true → e.startTime ≤ T := by
  induction h with
  | init k T => simp [initState]
  | add ctxT ctxH e _ hf ha ih =>
    obtain ⟨e', _, hst, _, _, _, _, _, _, _, htim, _⟩ := addEpochInfo_some ha
    intro x hx
    rw [htim] at hx
    rcases (mem_insertTimer _ _ _).1 hx with rfl | hx
    · intro h; rw [hst, hf] at h; cases h
    · exact ih x hx
  | @block s0 T0 b _ hT ih =>
    intro x hx
    rcases stepBlock_cases s0 b with ⟨_, h, _⟩ | ⟨_, h, _, _⟩
    · rw [h] at hx; intro hs; have := ih x hx hs; omega
    · rw [h] at hx
      obtain ⟨e, he, rfl⟩ := List.mem_map.1 hx
      exact pureStep_started_start_le _ _ _ _ hT (ih e he)

end OsmoVerif.Epochs
