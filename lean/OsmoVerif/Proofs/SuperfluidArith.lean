/- C11: the OSMO value of an amount of shares (`GetSuperfluidOSMOTokens`) in closed form, its sign and its
distance from the exact product; what one iteration of the epoch refresh does. Core only. -/
import OsmoVerif.Proofs.NumLemmas
import OsmoVerif.Proofs.SuperfluidOps2

namespace OsmoVerif.Superfluid
open OsmoVerif.Num OsmoVerif.Spec

/-- `n / 10^18` rounded to the nearest integer, ties to even (`LegacyDec.RoundInt` of the raw value `n`). -/
def rnd (n : Int) : Int := chopRound P18 n

/-- `GetSuperfluidOSMOTokens` for a non-zero multiplier `m` (raw Dec), risk factor `rf` (raw Dec), amount `x`:
`R − round(R·rf)` with `R = round(m·x)`. -/
def value (m rf x : Int) : Int := rnd (m * x) - rnd (rnd (m * x) * rf)

theorem rnd_spec (n : Int) : IsHalfEven n P18 (rnd n) := chopRound_isHalfEven P18 n P18_pos P18_even

theorem rnd_mul_exact (k : Int) : rnd (k * P18) = k := (rnd_spec (k * P18)).exact P18_pos

theorem P18_lit : P18 = 1000000000000000000 := by decide

theorem rnd_nonneg {n : Int} (h : 0 ≤ n) : 0 ≤ rnd n := chopRound_nonneg P18_pos h

/-- rounding never overshoots an integer bound: `n ≤ R·10^18 → round(n/10^18) ≤ R`. -/
theorem rnd_le {n R : Int} (h : n ≤ R * P18) : rnd n ≤ R := by
  obtain ⟨_, b, _⟩ := rnd_spec n
  rw [P18_lit] at *
  omega

/-- the successful result of `osmoTokens` in closed form. -/
theorem osmoTokens_eq {s : State} {d : Nat} {x v : Int} (h : osmoTokens s d x = .ok v) :
    v = if s.mult d = 0 then 0 else value (s.mult d) s.riskFactor x := by
  unfold osmoTokens at h
  split at h
  · rename_i h0
    injection h with h
    rw [if_pos h0]; exact h.symm
  · rename_i h0
    rw [if_neg h0]
    split at h
    · cases h
    · rename_i dd hd
      split at h
      · cases h
      · split at h
        · cases h
        · rename_i r hr
          have e1 : dd = s.mult d * x := by
            unfold Dec.mul at hd
            rw [chkDec_eq hd]
            have : s.mult d * (x * P18) = (s.mult d * x) * P18 := by rw [Int.mul_assoc]
            rw [this]
            exact rnd_mul_exact _
          have e2 : r = rnd (s.mult d * x) := by
            unfold Dec.roundInt at hr
            rw [chkInt_eq hr, e1]; rfl
          unfold riskAdjusted at h
          split at h
          · cases h
          · rename_i mm hm
            split at h
            · cases h
            · rename_i r2 hr2
              split at h
              · cases h
              · rename_i vv hv
                injection h with h
                have e3 : mm = r * s.riskFactor := by
                  unfold Dec.mul at hm
                  rw [chkDec_eq hm]
                  have : r * P18 * s.riskFactor = (r * s.riskFactor) * P18 := by
                    rw [Int.mul_assoc, Int.mul_comm P18, ← Int.mul_assoc]
                  rw [this]
                  exact rnd_mul_exact _
                have e4 : r2 = rnd (r * s.riskFactor) := by
                  unfold Dec.roundInt at hr2
                  rw [chkInt_eq hr2, e3]; rfl
                rw [← h, chkInt_eq hv, e4, e2]
                rfl

theorem value_nonneg {m rf x : Int} (hm : 0 ≤ m) (hx : 0 ≤ x) (_h0 : 0 ≤ rf) (h1 : rf ≤ P18) : 0 ≤ value m rf x := by
  unfold value
  have hR : 0 ≤ rnd (m * x) := rnd_nonneg (Int.mul_nonneg hm hx)
  have : rnd (rnd (m * x) * rf) ≤ rnd (m * x) := rnd_le (Int.mul_le_mul_of_nonneg_left h1 hR)
  omega

theorem osmoTokens_nonneg {s : State} (h : Inv s) {d : Nat} {x v : Int} (hx : 0 ≤ x) (hv : osmoTokens s d x = .ok v) :
    0 ≤ v := by
  rw [osmoTokens_eq hv]
  split
  · omega
  · exact value_nonneg (h.mult0 d) hx h.rf0 h.rf1

/-- the value is within one base unit of the exact product `m·x·(1 − rf)`; everything scaled by `10^36`. -/
theorem value_within_one_unit {m rf x : Int} (h0 : 0 ≤ rf) (h1 : rf ≤ P18) :
    value m rf x * (P18 * P18) - m * x * (P18 - rf) ≤ P18 * P18 ∧
    -(P18 * P18) ≤ value m rf x * (P18 * P18) - m * x * (P18 - rf) := by
  unfold value
  obtain ⟨a1, b1, _⟩ := rnd_spec (m * x)
  obtain ⟨a2, b2, _⟩ := rnd_spec (rnd (m * x) * rf)
  generalize rnd (m * x) = R at *
  generalize rnd (R * rf) = r2 at *
  generalize m * x = mx at *
  -- e1 = mx − R·P, e2 = R·rf − r2·P, |2 e1| ≤ P, |2 e2| ≤ P
  -- (R − r2)·P·P − mx·(P − rf) = −e1·(P − rf) + e2·P
  have key : (R - r2) * (P18 * P18) - mx * (P18 - rf) = (R * rf - r2 * P18) * P18 - (mx - R * P18) * (P18 - rf) := by
    simp only [Int.sub_mul, Int.mul_sub, Int.mul_assoc, Int.mul_comm rf P18]
    omega
  rw [key]
  have hw0 : 0 ≤ P18 - rf := by omega
  have hw1 : P18 - rf ≤ P18 := by omega
  -- bound the mixed product (mx − R·P)·(P − rf) by (P/2)·P in absolute value
  have u1 : 2 * ((mx - R * P18) * (P18 - rf)) ≤ P18 * P18 := by
    have := Int.mul_le_mul_of_nonneg_right a1 hw0
    have h2 : P18 * (P18 - rf) ≤ P18 * P18 := Int.mul_le_mul_of_nonneg_left hw1 (by decide)
    rw [Int.mul_assoc] at this
    omega
  have u2 : -(P18 * P18) ≤ 2 * ((mx - R * P18) * (P18 - rf)) := by
    have := Int.mul_le_mul_of_nonneg_right b1 hw0
    have h2 : P18 * (P18 - rf) ≤ P18 * P18 := Int.mul_le_mul_of_nonneg_left hw1 (by decide)
    rw [Int.mul_assoc, Int.neg_mul] at this
    omega
  have v1 : 2 * ((R * rf - r2 * P18) * P18) ≤ P18 * P18 := by
    have := Int.mul_le_mul_of_nonneg_right a2 (by decide : (0 : Int) ≤ P18)
    rw [Int.mul_assoc] at this
    omega
  have v2 : -(P18 * P18) ≤ 2 * ((R * rf - r2 * P18) * P18) := by
    have := Int.mul_le_mul_of_nonneg_right b2 (by decide : (0 : Int) ≤ P18)
    rw [Int.mul_assoc, Int.neg_mul] at this
    omega
  constructor <;> omega

/-! ## the epoch refresh -/

/-- the expected delegation does not look at the ledger. -/
theorem expectedDelegation_congr {s s' : State} {k : AccKey} (hm : s'.mult = s.mult) (ha : s'.assets = s.assets)
    (hr : s'.riskFactor = s.riskFactor) (hu : s'.unbondingTime = s.unbondingTime) (hc : s'.accum = s.accum) :
    expectedDelegation s' k = expectedDelegation s k := by
  unfold expectedDelegation osmoTokens
  rw [hm, ha, hr, hu, hc]

/-- what the refresh of one account leaves alone. -/
structure SameButLedger (s s' : State) : Prop where
  mult : s'.mult = s.mult
  assets : s'.assets = s.assets
  rf : s'.riskFactor = s.riskFactor
  ub : s'.unbondingTime = s.unbondingTime
  accum : s'.accum = s.accum
  vals : s'.validators = s.validators
  locks : s'.locks = s.locks
  conns : s'.conns = s.conns
  last : s'.lastLockId = s.lastLockId
  accs : s'.accs = s.accs
  synths : s'.synths = s.synths
  now : s'.now = s.now

theorem SameButLedger.refl (s : State) : SameButLedger s s := ⟨rfl, rfl, rfl, rfl, rfl, rfl, rfl, rfl, rfl, rfl, rfl, rfl⟩
theorem SameButLedger.trans {a b c : State} (h1 : SameButLedger a b) (h2 : SameButLedger b c) : SameButLedger a c :=
  ⟨h2.mult.trans h1.mult, h2.assets.trans h1.assets, h2.rf.trans h1.rf, h2.ub.trans h1.ub, h2.accum.trans h1.accum,
   h2.vals.trans h1.vals, h2.locks.trans h1.locks, h2.conns.trans h1.conns, h2.last.trans h1.last, h2.accs.trans h1.accs,
   h2.synths.trans h1.synths, h2.now.trans h1.now⟩

theorem delegated_upd (s : State) (k k' : AccKey) (v : Option Int) :
    (match (updK s.deleg k v) k' with | some x => x | none => 0) =
      if k' = k then (match v with | some x => x | none => 0) else delegated s k' := by
  unfold delegated
  simp only [updK]
  by_cases e : k' = k
  · simp only [e, if_true]
  · simp only [e, if_false]; rfl

theorem mint_ledger {s s' : State} {a : Int} {k : AccKey} (hc : mintAndDelegate s a k = .ok s') :
    SameButLedger s s' ∧ ∀ k', delegated s' k' = if k' = k then delegated s k + a else delegated s k' := by
  obtain ⟨_, _, hs'⟩ := mintAndDelegate_ok hc
  subst hs'
  refine ⟨⟨rfl, rfl, rfl, rfl, rfl, rfl, rfl, rfl, rfl, rfl, rfl, rfl⟩, ?_⟩
  intro k'
  exact delegated_upd s k k' _

theorem burn_ledger {s s' : State} {a : Int} {k : AccKey} (hc : forceUndelegateAndBurn s a k = .ok s') :
    SameButLedger s s' ∧
    ((s.deleg k = none ∧ s' = s) ∨
     (0 ≤ a ∧ a ≤ delegated s k ∧ ∀ k', delegated s' k' = if k' = k then delegated s k - a else delegated s k')) := by
  rcases forceUndelegateAndBurn_ok hc with ⟨hn, hs'⟩ | ⟨sh, hd, h0, h1, hs'⟩
  · subst hs'; exact ⟨SameButLedger.refl _, Or.inl ⟨hn, rfl⟩⟩
  · subst hs'
    have hsh : delegated s k = sh := by unfold delegated; rw [hd]
    refine ⟨⟨rfl, rfl, rfl, rfl, rfl, rfl, rfl, rfl, rfl, rfl, rfl, rfl⟩, Or.inr ⟨h0, by omega, ?_⟩⟩
    intro k'
    refine (delegated_upd s k k' _).trans ?_
    by_cases e : k' = k
    · simp only [e, if_true, hsh]
      split
      · rename_i x hx
        split at hx
        · cases hx
        · injection hx with hx; omega
      · rename_i hx
        split at hx
        · omega
        · cases hx
    · simp only [e, if_false]

theorem delegated_nonneg_of {s : State} {k : AccKey} (h : ∀ x, s.deleg k = some x → 0 ≤ x) : 0 ≤ delegated s k := by
  unfold delegated
  split
  · rename_i x hx; exact h x hx
  · omega

/-- one iteration of the refresh: afterwards the account's stake is the expected amount, nobody else's stake
moved. -/
theorem refreshOne_spec {s s' : State} {k : AccKey} (h : Inv s) (hv : k.2 ∈ s.validators)
    (hc : refreshOne s k = .ok s') :
    SameButLedger s s' ∧ expectedDelegation s k = .ok (delegated s' k) ∧ ∀ k', k' ≠ k → delegated s' k' = delegated s k' := by
  unfold refreshOne at hc
  rw [if_neg (by simpa using hv)] at hc
  split at hc
  · cases hc
  · rename_i refreshed he
    have hnn : 0 ≤ refreshed := by
      unfold expectedDelegation at he
      refine osmoTokens_nonneg h ?_ he
      rw [h.accumEq]; exact sumConn_nonneg h k _
    split at hc
    · rename_i hgt
      -- mint and delegate the difference: cannot fail here
      cases hm : mintAndDelegate s (refreshed - delegated s k) k with
      | error e =>
        unfold mintAndDelegate at hm
        rw [if_neg (by simpa using hv), if_neg (by omega)] at hm
        cases hm
      | ok s2 =>
        rw [hm] at hc
        injection hc with hc; subst hc
        obtain ⟨f, g⟩ := mint_ledger hm
        refine ⟨f, ?_, fun k' hk' => by rw [g k', if_neg hk']⟩
        rw [g k, if_pos rfl, he]
        congr 1; omega
    · rename_i hngt
      split at hc
      · rename_i hlt
        cases hm : forceUndelegateAndBurn s (delegated s k - refreshed) k with
        | error e =>
          -- the undelegation cannot fail: the stake covers the difference
          unfold forceUndelegateAndBurn at hm
          rw [if_neg (by simpa using hv)] at hm
          cases hd : s.deleg k with
          | none =>
            have hz : delegated s k = 0 := by unfold delegated; rw [hd]
            omega
          | some sh =>
            rw [hd] at hm
            dsimp only at hm
            have hsh : delegated s k = sh := by unfold delegated; rw [hd]
            rw [if_neg (by omega), if_neg (by omega)] at hm
            cases hm
        | ok s2 =>
          rw [hm] at hc
          injection hc with hc; subst hc
          obtain ⟨f, g⟩ := burn_ledger hm
          rcases g with ⟨hn, _⟩ | ⟨_, _, g⟩
          · have hz : delegated s k = 0 := by unfold delegated; rw [hn]
            omega
          · refine ⟨f, ?_, fun k' hk' => by rw [g k', if_neg hk']⟩
            rw [g k, if_pos rfl, he]
            congr 1; omega
      · injection hc with hc; subst hc
        refine ⟨SameButLedger.refl _, ?_, fun _ _ => rfl⟩
        rw [he]; congr 1; omega

theorem SameButLedger.inv {s s' : State} (f : SameButLedger s s') : expectedDelegation s' = expectedDelegation s := by
  funext k
  exact expectedDelegation_congr f.mult f.assets f.rf f.ub f.accum

/-- the whole refresh: every listed account with an existing validator ends at its expected amount. -/
theorem refreshAll_spec : ∀ (accs : List (AccKey × Nat)) (s s' : State), Inv s → refreshAll s accs = .ok s' →
    SameButLedger s s' ∧
    (∀ k g, (k, g) ∈ accs → k.2 ∈ s.validators → expectedDelegation s k = .ok (delegated s' k)) ∧
    (∀ k, (∀ g, (k, g) ∉ accs) → delegated s' k = delegated s k)
  | [], s, s', _, hc => by
    unfold refreshAll at hc; injection hc with hc; subst hc
    exact ⟨SameButLedger.refl _, ⟨fun _ _ hm _ => (by cases hm), fun _ _ => rfl⟩⟩
  | (k0, g0) :: r, s, s', h, hc => by
    unfold refreshAll at hc
    split at hc
    · cases hc
    · rename_i s1 h1
      have i1 := inv_refreshOne h h1
      obtain ⟨f2, e2, o2⟩ := refreshAll_spec r s1 s' i1 hc
      by_cases hv : k0.2 ∈ s.validators
      · obtain ⟨f1, e1, o1⟩ := refreshOne_spec h hv h1
        refine ⟨f1.trans f2, ?_, ?_⟩
        · intro k g hm hkv
          -- either refreshed later in the list, or only at the head
          by_cases hin : ∃ g', (k, g') ∈ r
          · obtain ⟨g', hg'⟩ := hin
            have := e2 k g' hg' (by rw [f1.vals]; exact hkv)
            rw [f1.inv] at this
            exact this
          · have hnot : ∀ g', (k, g') ∉ r := fun g' hg' => hin ⟨g', hg'⟩
            rw [o2 k hnot]
            rcases List.mem_cons.mp hm with heq | hr
            · injection heq with hk _
              subst hk
              exact e1
            · exact absurd hr (hnot g)
        · intro k hk
          have hk0 : k ≠ k0 := fun e => hk g0 (by rw [e]; exact List.mem_cons_self)
          rw [o2 k (fun g hg => hk g (List.mem_cons_of_mem _ hg)), o1 k hk0]
      · -- validator gone: the iteration is skipped
        have hs1 : s1 = s := by
          unfold refreshOne at h1
          rw [if_pos (by simpa using hv)] at h1
          injection h1 with h1; exact h1.symm
        subst hs1
        refine ⟨f2, ?_, ?_⟩
        · intro k g hm hkv
          rcases List.mem_cons.mp hm with heq | hr
          · injection heq with hk _
            subst hk
            exact absurd hkv hv
          · exact e2 k g hr hkv
        · intro k hk
          exact o2 k (fun g hg => hk g (List.mem_cons_of_mem _ hg))

end OsmoVerif.Superfluid
