/-
C19 / x/concentrated-liquidity genesis: **`FullWF` is a reachable-state invariant.**  From the order invariants `FeeOrd` / `IncOrd`
(new: Proofs/CLFullGenesisOrd*), the position-id order (`IdSorted`, Proofs/CLPoolGenesis) and the existence clauses of the C07/C08
invariant `IncInv`: two strictly ascending key lists with the same members are equal.  Core only.
-/
import OsmoVerif.Proofs.CLFullGenesisOrd
import OsmoVerif.Proofs.CLFullGenesisReach

namespace OsmoVerif.CLIncP
open OsmoVerif.Num OsmoVerif.CL OsmoVerif.CLPool OsmoVerif.CLFees OsmoVerif.CLInc OsmoVerif.CLFeesP OsmoVerif.CLBook

theorem int_sorted_ext : ∀ {l m : List Int}, l.Pairwise (· < ·) → m.Pairwise (· < ·) → (∀ x, x ∈ l ↔ x ∈ m) → l = m
  | [], [], _, _, _ => rfl
  | [], b :: _, _, _, h => by have := (h b).mpr List.mem_cons_self; cases this
  | a :: _, [], _, _, h => by have := (h a).mp List.mem_cons_self; cases this
  | a :: l', b :: m', hl, hm, h => by
    rw [List.pairwise_cons] at hl hm
    have hab : a = b := by
      have h1 := (h a).mp List.mem_cons_self
      have h2 := (h b).mpr List.mem_cons_self
      rcases List.mem_cons.mp h1 with e | e
      · exact e
      · rcases List.mem_cons.mp h2 with e2 | e2
        · exact e2.symm
        · have := hm.1 a e; have := hl.1 b e2; omega
    subst hab
    congr 1
    refine int_sorted_ext hl.2 hm.2 (fun x => ⟨fun hx => ?_, fun hx => ?_⟩)
    · rcases List.mem_cons.mp ((h x).mp (List.mem_cons_of_mem _ hx)) with e | e
      · have := hl.1 x hx; omega
      · exact e
    · rcases List.mem_cons.mp ((h x).mpr (List.mem_cons_of_mem _ hx)) with e | e
      · have := hm.1 x hx; omega
      · exact e

theorem nat_sorted_ext {l m : List Nat} (hl : l.Pairwise (· < ·)) (hm : m.Pairwise (· < ·)) (h : ∀ x, x ∈ l ↔ x ∈ m) : l = m := by
  have hl' : (l.map (fun n : Nat => (n : Int))).Pairwise (· < ·) := by
    rw [List.pairwise_map]; exact hl.imp (fun h => by omega)
  have hm' : (m.map (fun n : Nat => (n : Int))).Pairwise (· < ·) := by
    rw [List.pairwise_map]; exact hm.imp (fun h => by omega)
  have := int_sorted_ext hl' hm' (fun x => by
    constructor
    · intro hx
      obtain ⟨n, hn, rfl⟩ := List.mem_map.mp hx
      exact List.mem_map_of_mem ((h n).mp hn)
    · intro hx
      obtain ⟨n, hn, rfl⟩ := List.mem_map.mp hx
      exact List.mem_map_of_mem ((h n).mpr hn))
  exact List.map_injective_iff.mpr (fun a b hab => by simpa using hab) this

theorem mem_of_getOut {outs : List (Int × V2)} {t : Int} (h : (getOut outs t).isSome = true) : t ∈ outs.map (·.1) := by
  unfold getOut at h
  cases hf : outs.find? (·.1 = t) with
  | none => rw [hf] at h; cases h
  | some e =>
    have h1 := List.mem_of_find?_eq_some hf
    have h2 : e.1 = t := by simpa using List.find?_some hf
    rw [← h2]; exact List.mem_map_of_mem h1

theorem getTr_of_mem {trs : List (Int × List DC)} {e : Int × List DC} (h : e ∈ trs) : (getTr trs e.1).isSome = true := by
  unfold getTr
  rw [Option.isSome_map, List.find?_isSome]
  exact ⟨e, h, by simp⟩

theorem mem_of_getTr {trs : List (Int × List DC)} {t : Int} (h : (getTr trs t).isSome = true) : t ∈ trs.map (·.1) := by
  unfold getTr at h
  cases hf : trs.find? (·.1 = t) with
  | none => rw [hf] at h; cases h
  | some e =>
    have h1 := List.mem_of_find?_eq_some hf
    have h2 : e.1 = t := by simpa using List.find?_some hf
    rw [← h2]; exact List.mem_map_of_mem h1

theorem tickKeys_iff_stored (ticks : List TickInfo) (t : Int) : t ∈ ticks.map (·.tick) ↔ Stored ticks t := by
  constructor
  · intro h; obtain ⟨x, hx, e⟩ := List.mem_map.mp h; exact ⟨x, hx, e⟩
  · intro ⟨x, hx, e⟩; rw [← e]; exact List.mem_map_of_mem hx

theorem live_iff (s : Full) (id : Nat) : live s id = true ↔ id ∈ s.fees.pool.positions.map (·.id) := by
  unfold live
  rw [List.any_eq_true]
  constructor
  · intro ⟨q, hq, e⟩; rw [← of_decide_eq_true e]; exact List.mem_map_of_mem hq
  · intro h; obtain ⟨q, hq, e⟩ := List.mem_map.mp h; exact ⟨q, hq, by simp [e]⟩

/-- **the store shape from the invariants** -/
theorem fullWF_of {s : Full} (hi : IncInv s) (hp : IdSorted s.fees.pool.positions) (hf : FeeOrd s.fees) (ho : IncOrd s) : FullWF s := by
  have hcore := hi.fees.pool.core
  have hticks : (s.fees.pool.ticks.map (·.tick)).Pairwise (· < ·) := List.pairwise_map.mpr hcore.sorted
  have hposIds : (s.fees.pool.positions.map (·.id)).Pairwise (· < ·) := hp
  refine ⟨hp, hcore.sorted, ?_, ?_, ?_, ?_, ?_, ho.recsWeak⟩
  · -- growth-outside entries: exactly on the stored ticks
    refine int_sorted_ext hf.outsSorted hticks (fun k => ?_)
    rw [tickKeys_iff_stored]
    constructor
    · intro hk; obtain ⟨e, he, rfl⟩ := List.mem_map.mp hk; exact hf.outsStored e he
    · intro hk
      obtain ⟨q, hq, hb⟩ := (hcore.stored k).mp hk
      have := hi.fees.acc.stored q hq
      rcases hb with hb | hb
      · rw [← hb]; exact mem_of_getOut this.1
      · rw [← hb]; exact mem_of_getOut this.2
  · -- uptime trackers: exactly on the stored ticks
    refine int_sorted_ext ho.trSorted hticks (fun k => ?_)
    rw [tickKeys_iff_stored]
    constructor
    · intro hk; obtain ⟨e, he, rfl⟩ := List.mem_map.mp hk; exact hi.inc.trTicks e.1 (getTr_of_mem he)
    · intro hk
      obtain ⟨q, hq, hb⟩ := (hcore.stored k).mp hk
      have := hi.inc.stored q hq
      rcases hb with hb | hb
      · rw [← hb]; exact mem_of_getTr this.1
      · rw [← hb]; exact mem_of_getTr this.2
  · -- spread-reward records: exactly one per live position
    refine nat_sorted_ext hf.recsSorted hposIds (fun k => ?_)
    constructor
    · intro hk
      obtain ⟨r, hr, rfl⟩ := List.mem_map.mp hk
      obtain ⟨q, hq, e⟩ := hf.recsLive r hr
      rw [← e]; exact List.mem_map_of_mem hq
    · intro hk
      obtain ⟨q, hq, rfl⟩ := List.mem_map.mp hk
      obtain ⟨r, hr, _, hid⟩ := hi.fees.acc.recs q hq
      obtain ⟨hm, _⟩ := mem_of_getRec hr
      rw [← hid]; exact List.mem_map_of_mem hm
  · -- uptime records of the live positions
    intro a ha
    have hs : ((a.recs.filter (fun r => live s r.id)).map (·.id)).Pairwise (· < ·) :=
      List.Pairwise.sublist ((List.filter_sublist).map _) (ho.urSorted a ha)
    refine nat_sorted_ext hs hposIds (fun k => ?_)
    constructor
    · intro hk
      obtain ⟨r, hr, rfl⟩ := List.mem_map.mp hk
      exact (live_iff s r.id).mp (List.mem_filter.mp hr).2
    · intro hk
      obtain ⟨q, hq, rfl⟩ := List.mem_map.mp hk
      obtain ⟨r, hr, _⟩ := (hi.inc.accs a ha).recs q hq
      unfold getURec at hr
      have h1 := List.mem_of_find?_eq_some hr
      have h2 : r.id = q.id := by simpa using List.find?_some hr
      rw [← h2]
      exact List.mem_map_of_mem (List.mem_filter.mpr ⟨h1, by rw [h2]; exact live_of_mem hq⟩)
  · -- join times of the live positions
    have hs : ((s.inc.join.filter (fun e => live s e.1)).map (·.1)).Pairwise (· < ·) :=
      List.Pairwise.sublist ((List.filter_sublist).map _) ho.joinSorted
    refine nat_sorted_ext hs hposIds (fun k => ?_)
    constructor
    · intro hk
      obtain ⟨e, he, rfl⟩ := List.mem_map.mp hk
      exact (live_iff s e.1).mp (List.mem_filter.mp he).2
    · intro hk
      obtain ⟨q, hq, rfl⟩ := List.mem_map.mp hk
      have hj := hi.inc.joined q hq
      cases hf' : s.inc.join.find? (·.1 = q.id) with
      | none => rw [hf'] at hj; cases hj
      | some e =>
        have h1 := List.mem_of_find?_eq_some hf'
        have h2 : e.1 = q.id := by simpa using List.find?_some hf'
        rw [← h2]
        exact List.mem_map_of_mem (List.mem_filter.mpr ⟨h1, by rw [h2]; exact live_of_mem hq⟩)

/-- everything the store shape needs, as ONE invariant of the layered model -/
structure GenInv (s : Full) : Prop where
  inv : IncInv s
  pos : IdSorted s.fees.pool.positions
  fee : FeeOrd s.fees
  inc : IncOrd s

theorem genInv_apply {s s' : Full} {op : IOp} (h : GenInv s) (ha : applyI s op = some s') : GenInv s' := by
  have hi' : IncInv s' := (applyI_facts h.inv ha).inv
  have hfees := applyI_fees ha
  refine ⟨hi', ?_, ?_, incOrd_apply h.inv h.inc ha⟩
  · cases hop : op.toFee with
    | none => rw [hop] at hfees; simp only at hfees; rw [hfees]; exact h.pos
    | some fop =>
      rw [hop] at hfees
      simp only at hfees
      have hpool := applyF_pool hfees
      cases hb : fop.toBook with
      | none => rw [hb] at hpool; simp only at hpool; rw [hpool]; exact h.pos
      | some b => rw [hb] at hpool; simp only at hpool; exact idSorted_apply h.inv.fees.pool.core h.pos hpool
  · cases hop : op.toFee with
    | none => rw [hop] at hfees; simp only at hfees; rw [hfees]; exact h.fee
    | some fop => rw [hop] at hfees; simp only at hfees; exact feeOrd_apply h.inv.fees h.fee hfees

theorem genInv_step {s : Full} (h : GenInv s) (op : IOp) : GenInv (stepI s op) := by
  unfold stepI
  cases ha : applyI s op with
  | none => exact h
  | some s' => exact genInv_apply h ha

theorem genInv_run : ∀ (ops : List IOp) {s : Full}, GenInv s → GenInv (runI s ops)
  | [], _, h => h
  | op :: ops, _, h => genInv_run ops (genInv_step h op)

theorem GenInv.wf {s : Full} (h : GenInv s) : FullWF s := fullWF_of h.inv h.pos h.fee h.inc

end OsmoVerif.CLIncP
