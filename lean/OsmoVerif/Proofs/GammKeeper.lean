/-
Lemmas about Model/GammKeeper: the invariants of property C02, the RECORD-update lemmas, the three keeper
building blocks and every message.  Core only.
-/
import OsmoVerif.Model.GammKeeper
import OsmoVerif.Proofs.GammLedger

namespace OsmoVerif.Gamm
open OsmoVerif.Ledger OsmoVerif.Ledger.Bank

/-- Σ over ALL accounts of the balances of denom `d`. -/
def State.total (s : State) (d : Denom) : Int := s.bank.total d

/-- pool ids not yet handed out have no record. -/
def WF (s : State) : Prop := ∀ id, s.nextPoolId ≤ id → getPool s.pools id = none
/-- as long as the trace stayed inside the pool-math contract (`clean`): every pool ACCOUNT holds exactly the
reserves the pool RECORD reports plus what was sent to it directly (also for ids without a record: reserve 0). -/
def BankOK (s : State) : Prop := s.clean = true → ∀ id d, s.bal (.pool id) d = s.reserve id d + s.don id d
/-- circulating supply of every share denom = total shares of the pool record (0 without a record). -/
def SharesOK (s : State) : Prop := ∀ id, s.supply (.share id) = s.shares id
/-- the supply the bank reports is the sum of all balances. -/
def SupplyOK (s : State) : Prop := ∀ d, s.supply d = s.total d

structure Inv (s : State) : Prop where
  wf : WF s
  bank : BankOK s
  shares : SharesOK s
  sup : SupplyOK s

/-- what one (part of a) message by the users `U` does to the ledger. -/
structure Good (U : Nat → Prop) (s s' : State) : Prop where
  inv : Inv s → Inv s'
  tok : ∀ n, s'.supply (.tok n) = s.supply (.tok n)
  others : ∀ v, ¬ U v → ∀ d, s'.bal (.user v) d = s.bal (.user v) d
  clean : s'.clean = true → s.clean = true
  don : s'.donated = s.donated

theorem Good.refl (U : Nat → Prop) (s : State) : Good U s s := ⟨id, fun _ => rfl, fun _ _ _ => rfl, id, rfl⟩

theorem Good.trans {U : Nat → Prop} {s s' s'' : State} (h1 : Good U s s') (h2 : Good U s' s'') : Good U s s'' :=
  ⟨fun h => h2.inv (h1.inv h), fun n => (h2.tok n).trans (h1.tok n),
   fun v hv d => (h2.others v hv d).trans (h1.others v hv d), fun h => h1.clean (h2.clean h), h2.don.trans h1.don⟩

/-! ## pool table -/

theorem getPool_setPool (ps : List (Nat × Pool)) (id id' : Nat) (p : Pool) :
    getPool (setPool ps id p) id' = if id = id' then some p else getPool ps id' := by
  induction ps with
  | nil => simp only [setPool, getPool]
  | cons h t ih =>
    obtain ⟨i, q⟩ := h
    simp only [setPool]
    split
    · rename_i h0; subst h0; simp only [getPool]; grind
    · simp only [getPool, ih]; grind

theorem Pool.res_setRes (p : Pool) (d d' : Denom) (v : Int) :
    (p.setRes d v).res d' = if d = d' then v else p.res d' := by
  simp only [Pool.setRes, Pool.res, aget_aset]

/-! ## RECORD updates -/

theorem recSwap_spec {p p' : Pool} {din dout : Denom} {a b : Int} {ok : Bool}
    (h : recSwap p din a dout b = some (p', ok)) (hne : din ≠ dout) :
    p'.totalShares = p.totalShares ∧ p'.kind = p.kind ∧
    (ok = true → ∀ d, p'.res d = p.res d + (if d = din then a else 0) - (if d = dout then b else 0)) := by
  unfold recSwap at h
  split at h
  · cases h
  · simp only at h
    split at h
    · split at h
      · cases h
      · injection h with h
        injection h with h1 h2
        subst h1; subst h2
        refine ⟨?_, ?_, ?_⟩
        · split <;> split <;> rfl
        · split <;> split <;> rfl
        · intro hok d
          simp only [Bool.and_eq_true, Bool.not_eq_eq_eq_not, Bool.not_true, decide_eq_false_iff_not] at hok
          rw [if_neg hok.2, if_neg hok.1]
          simp only [Pool.res_setRes]
          grind
    · split at h
      · cases h
      · injection h with h
        injection h with h1 h2
        subst h1; subst h2
        refine ⟨rfl, rfl, ?_⟩
        intro _ d
        simp only [Pool.res_setRes]
        grind

theorem Pool.has_setRes (p : Pool) (d d' : Denom) (v : Int) :
    (p.setRes d v).has d' = (decide (d = d') || p.has d') := by
  simp only [Pool.setRes, Pool.has, afind_aset]
  grind

theorem recAddCoins_spec : ∀ (cs : Coins) {p p' : Pool}, recAddCoins p cs = some p' →
    p'.totalShares = p.totalShares ∧ p'.kind = p.kind ∧ ∀ d, p'.res d = p.res d + sumOf cs d
  | [], p, p', h => by
    simp only [recAddCoins] at h; injection h with h; subst h
    exact ⟨rfl, rfl, fun d => by simp only [sumOf]; omega⟩
  | (d0, a) :: cs, p, p', h => by
    simp only [recAddCoins] at h
    split at h
    · obtain ⟨h1, h2, h3⟩ := recAddCoins_spec cs h
      refine ⟨h1, h2, fun d => ?_⟩
      rw [h3 d, Pool.res_setRes]
      simp only [sumOf]
      grind
    · cases h

theorem recJoin_spec {cs : Coins} {p p' : Pool} {n : Int} (h : recJoin p cs n = some p') :
    p'.totalShares = p.totalShares + n ∧ p'.kind = p.kind ∧ ∀ d, p'.res d = p.res d + sumOf cs d := by
  unfold recJoin at h
  cases h1 : recAddCoins p cs with
  | none => rw [h1] at h; cases h
  | some q =>
    rw [h1] at h
    simp only [Option.map_some] at h
    injection h with h; subst h
    obtain ⟨a1, a2, a3⟩ := recAddCoins_spec cs h1
    exact ⟨by simp only [a1], a2, a3⟩

theorem recSubCoins_spec : ∀ (cs : Coins) {p p' : Pool} {ok : Bool}, recSubCoins p cs = some (p', ok) →
    p'.totalShares = p.totalShares ∧ p'.kind = p.kind ∧ (ok = true → ∀ d, p'.res d = p.res d - sumOf cs d)
  | [], p, p', ok, h => by
    simp only [recSubCoins] at h; injection h with h; injection h with h1 h2; subst h1; subst h2
    exact ⟨rfl, rfl, fun _ d => by simp only [sumOf]; omega⟩
  | (d0, a) :: cs, p, p', ok, h => by
    simp only [recSubCoins] at h
    split at h
    · cases h
    · split at h
      · split at h
        · cases h
        · split at h
          · cases h1 : recSubCoins p cs with
            | none => rw [h1] at h; cases h
            | some r =>
              rw [h1] at h
              simp only [Option.map_some] at h
              injection h with h; injection h with h2 h3
              subst h2; subst h3
              obtain ⟨b1, b2, _⟩ := recSubCoins_spec cs (p := p) (p' := r.1) (ok := r.2) (by rw [h1])
              exact ⟨b1, b2, fun hf => by cases hf⟩
          · obtain ⟨b1, b2, b3⟩ := recSubCoins_spec cs h
            refine ⟨b1, b2, fun hok d => ?_⟩
            rw [b3 hok d, Pool.res_setRes]
            simp only [sumOf]
            grind
      · split at h
        · cases h
        · obtain ⟨b1, b2, b3⟩ := recSubCoins_spec cs h
          refine ⟨b1, b2, fun hok d => ?_⟩
          rw [b3 hok d, Pool.res_setRes]
          simp only [sumOf]
          grind

theorem recExit_spec {cs : Coins} {p p' : Pool} {n : Int} {ok : Bool} (h : recExit p cs n = some (p', ok)) :
    p'.totalShares = p.totalShares - n ∧ p'.kind = p.kind ∧ (ok = true → ∀ d, p'.res d = p.res d - sumOf cs d) := by
  unfold recExit at h
  cases h1 : recSubCoins p cs with
  | none => rw [h1] at h; cases h
  | some r =>
    rw [h1] at h
    simp only [Option.map_some] at h
    injection h with h; injection h with h2 h3
    subst h2; subst h3
    obtain ⟨a1, a2, a3⟩ := recSubCoins_spec cs (p := p) (p' := r.1) (ok := r.2) (by rw [h1])
    exact ⟨by simp only [a1], a2, a3⟩

/-! ## the generic one-pool transition and the keeper building blocks -/

theorem reserve_setPool (s : State) (B : GBank) (id id' : Nat) (p' : Pool) (c : Bool) (d : Denom) :
    ({ s with bank := B, pools := setPool s.pools id p', clean := c } : State).reserve id' d =
      if id = id' then p'.res d else s.reserve id' d := by
  simp only [State.reserve, getPool_setPool]
  by_cases h : id = id'
  · simp only [h, if_true]
  · simp only [h, if_false]

theorem shares_setPool (s : State) (B : GBank) (id id' : Nat) (p' : Pool) (c : Bool) :
    ({ s with bank := B, pools := setPool s.pools id p', clean := c } : State).shares id' =
      if id = id' then p'.totalShares else s.shares id' := by
  simp only [State.shares, getPool_setPool]
  by_cases h : id = id'
  · simp only [h, if_true]
  · simp only [h, if_false]

/-- generic transition that touches one pool: the bank changes by a net flow `δ` into the pool account, the share
supply by the change of the record's total shares, the record by `δ` (when the trace is inside the contract). -/
theorem poolStep_good {s : State} {u id : Nat} {p p' : Pool} {B : GBank} {ok : Bool} (δ : Denom → Int)
    (hp : getPool s.pools id = some p)
    (hsupTok : ∀ n, B.supply (.tok n) = s.bank.supply (.tok n))
    (hsupShare : ∀ id', B.supply (.share id') = s.bank.supply (.share id') + (if id' = id then p'.totalShares - p.totalShares else 0))
    (htot : ∀ d, B.total d - B.supply d = s.bank.total d - s.bank.supply d)
    (hothers : ∀ v, v ≠ u → ∀ d, B.balance (.user v) d = s.bank.balance (.user v) d)
    (hpools : ∀ id' d, B.balance (.pool id') d = s.bank.balance (.pool id') d + (if id' = id then δ d else 0))
    (hres : ok = true → ∀ d, p'.res d = p.res d + δ d) :
    Good (· = u) s { s with bank := B, pools := setPool s.pools id p', clean := s.clean && ok } := by
  refine ⟨fun hinv => ⟨?_, ?_, ?_, ?_⟩, ?_, ?_, fun hc => (by simpa using hc : s.clean = true ∧ ok = true).1, rfl⟩
  · intro id' hid'
    show getPool (setPool s.pools id p') id' = none
    rw [getPool_setPool]
    have := hinv.wf id' hid'
    split
    · rename_i h0; subst h0; rw [hp] at this; cases this
    · exact this
  · intro hc id' d
    have hc' : s.clean = true ∧ ok = true := by simpa using hc
    have h0 := hinv.bank hc'.1 id' d
    rw [reserve_setPool]
    show B.balance (.pool id') d = _ + s.don id' d
    rw [hpools id' d]
    simp only [State.bal] at h0
    rw [h0]
    have hr : s.reserve id d = p.res d := by simp only [State.reserve, hp]
    have := hres hc'.2 d
    grind
  · intro id'
    rw [shares_setPool]
    show B.supply (.share id') = _
    rw [hsupShare id']
    have h0 := hinv.shares id'
    simp only [State.supply] at h0
    have hr : s.shares id = p.totalShares := by simp only [State.shares, hp]
    grind
  · intro d
    have h0 := hinv.sup d
    simp only [State.supply, State.total] at h0 ⊢
    have := htot d
    omega
  · intro n; exact hsupTok n
  · intro v hv d; exact hothers v hv d
theorem applySwap_good {s s' : State} {u id : Nat} {p p' : Pool} {din dout : Denom} {a b : Int} {ok : Bool}
    (hp : getPool s.pools id = some p)
    (hsh : p'.totalShares = p.totalShares)
    (hres : ok = true → ∀ d, p'.res d = p.res d + (if d = din then a else 0) - (if d = dout then b else 0))
    (h : applySwap s u id p' din a dout b ok = some s') : Good (· = u) s s' := by
  unfold applySwap at h
  simp only [Option.bind_eq_bind, Option.bind_eq_some_iff] at h
  obtain ⟨b1, h1, b2, h2, h⟩ := h
  injection h with h; subst h
  refine poolStep_good (fun d => (if d = din then a else 0) - (if d = dout then b else 0)) hp ?_ ?_ ?_ ?_ ?_ ?_
  · intro n; rw [send_supply h2, send_supply h1]
  · intro id'; rw [send_supply h2, send_supply h1, hsh]; split <;> omega
  · intro d; rw [send_supply h2, send_supply h1, send_total h2, send_total h1]
  · intro v hv d; rw [send_balance h2, send_balance h1]; grind
  · intro id' d; rw [send_balance h2, send_balance h1]; grind
  · intro hok d; rw [hres hok d]; omega

theorem applyJoin_good {s s' : State} {u id : Nat} {p p' : Pool} {coins : Coins} {n : Int} {ok : Bool}
    (hp : getPool s.pools id = some p)
    (hsh : p'.totalShares = p.totalShares + n)
    (hres : ok = true → ∀ d, p'.res d = p.res d + sumOf coins d)
    (h : applyJoin s u id p' n coins ok = some s') : Good (· = u) s s' := by
  unfold applyJoin at h
  simp only [Option.bind_eq_bind, Option.bind_eq_some_iff] at h
  obtain ⟨b1, h1, b2, h2, h⟩ := h
  injection h with h; subst h
  refine poolStep_good (fun d => sumOf coins d) hp ?_ ?_ ?_ ?_ ?_ ?_
  · intro m; rw [mint_supply h2, sendCoins_supply _ h1]; simp [shareDenom]
  · intro id'; rw [mint_supply h2, sendCoins_supply _ h1, hsh]; simp only [shareDenom]; grind
  · intro d; rw [mint_supply h2, mint_total h2, sendCoins_supply _ h1, sendCoins_total _ h1]; omega
  · intro v hv d; rw [mint_balance h2, sendCoins_balance _ h1]; grind
  · intro id' d; rw [mint_balance h2, sendCoins_balance _ h1]; grind
  · exact hres

theorem applyExit_good {s s' : State} {u id : Nat} {p p' : Pool} {coins : Coins} {n : Int} {ok : Bool}
    (hp : getPool s.pools id = some p)
    (hsh : p'.totalShares = p.totalShares - n)
    (hres : ok = true → ∀ d, p'.res d = p.res d - sumOf coins d)
    (h : applyExit s u id p' n coins ok = some s') : Good (· = u) s s' := by
  unfold applyExit at h
  simp only [Option.bind_eq_bind, Option.bind_eq_some_iff] at h
  obtain ⟨b1, h1, b2, h2, h⟩ := h
  injection h with h; subst h
  refine poolStep_good (fun d => - sumOf coins d) hp ?_ ?_ ?_ ?_ ?_ ?_
  · intro m; rw [burn_supply h2, sendCoins_supply _ h1]; simp [shareDenom]
  · intro id'; rw [burn_supply h2, sendCoins_supply _ h1, hsh]; simp only [shareDenom]; grind
  · intro d; rw [burn_supply h2, burn_total h2, sendCoins_supply _ h1, sendCoins_total _ h1]; omega
  · intro v hv d; rw [burn_balance h2, sendCoins_balance _ h1]; grind
  · intro id' d; rw [burn_balance h2, sendCoins_balance _ h1]; grind
  · intro hok d; rw [hres hok d]; omega

/-! ## swaps inside x/gamm -/

@[simp] theorem require_eq_some (c : Bool) (x : Unit) : require c = some x ↔ c = true := by
  unfold require; cases c <;> simp

theorem gammSwapIn_good {s s' : State} {u id : Nat} {din dout : Denom} {a minOut out : Int} {math : Option Int}
    (h : gammSwapIn s u id din a dout minOut math = some (s', out)) : Good (· = u) s s' := by
  unfold gammSwapIn at h
  simp only [Option.bind_eq_bind, Option.bind_eq_some_iff, require_eq_some, decide_eq_true_eq] at h
  obtain ⟨p, hp, _, hne, o, _, ⟨p', ok⟩, hrec, _, _, _, _, s1, happ, h⟩ := h
  injection h with h; injection h with h1 h2; subst h1
  obtain ⟨r1, _, r3⟩ := recSwap_spec hrec hne
  exact applySwap_good hp r1 r3 happ

theorem gammSwapOut_good {s s' : State} {u id : Nat} {din dout : Denom} {b maxIn a : Int} {math : Option Int}
    (h : gammSwapOut s u id din maxIn dout b math = some (s', a)) : Good (· = u) s s' := by
  unfold gammSwapOut at h
  simp only [Option.bind_eq_bind, Option.bind_eq_some_iff, require_eq_some, decide_eq_true_eq] at h
  obtain ⟨p, hp, _, hne, _, _, a', _, ⟨p', ok⟩, hrec, _, _, _, _, s1, happ, h⟩ := h
  injection h with h; injection h with h1 h2; subst h1
  obtain ⟨r1, _, r3⟩ := recSwap_spec hrec hne
  exact applySwap_good hp r1 r3 happ

/-! ## taker fee and the router -/

/-- a transition that only moves coins between non-pool accounts. -/
theorem bankStep_good {s : State} {U : Nat → Prop} {B : GBank}
    (hsup : ∀ d, B.supply d = s.bank.supply d)
    (htot : ∀ d, B.total d = s.bank.total d)
    (hpools : ∀ id d, B.balance (.pool id) d = s.bank.balance (.pool id) d)
    (hothers : ∀ v, ¬ U v → ∀ d, B.balance (.user v) d = s.bank.balance (.user v) d) :
    Good U s { s with bank := B } := by
  refine ⟨fun hinv => ⟨hinv.wf, ?_, ?_, ?_⟩, fun n => hsup _, hothers, id, rfl⟩
  · intro hc id d
    have := hinv.bank hc id d
    simp only [State.bal] at this ⊢
    show B.balance _ _ = _
    rw [hpools]; exact this
  · intro id
    have := hinv.shares id
    simp only [State.supply] at this ⊢
    show B.supply _ = _
    rw [hsup]; exact this
  · intro d
    have := hinv.sup d
    simp only [State.supply, State.total] at this ⊢
    show B.supply _ = B.total _
    rw [hsup, htot]; exact this

theorem chargeTakerFee_good {s s' : State} {u : Nat} {din dout : Denom} {amt after fee : Int} {ex : Bool}
    (h : chargeTakerFee s u din amt dout ex = some (s', after, fee)) : Good (· = u) s s' := by
  unfold chargeTakerFee at h
  split at h
  · injection h with h; injection h with h1 _; subst h1; exact Good.refl _ _
  · split at h
    · cases h
    · split at h
      · cases h
      · split at h
        · injection h with h; injection h with h1 _; subst h1; exact Good.refl _ _
        · split at h
          · cases h
          · rename_i b hb
            injection h with h; injection h with h1 _; subst h1
            refine bankStep_good (send_supply hb) (send_total hb) ?_ ?_
            · intro id d; rw [send_balance hb]; grind
            · intro v hv d; rw [send_balance hb]; grind
theorem hopIn_good {s s' : State} {u : Nat} {din : Denom} {amt minOut out : Int} {h : HopIn}
    (hh : hopIn s u din amt h minOut = some (s', out)) : Good (· = u) s s' := by
  unfold hopIn at hh
  simp only [Option.bind_eq_bind, Option.bind_eq_some_iff] at hh
  obtain ⟨_, _, ⟨s1, after, fee⟩, hfee, hswap⟩ := hh
  exact (chargeTakerFee_good hfee).trans (gammSwapIn_good hswap)

theorem routeInLoop_good {u : Nat} {minOut : Int} : ∀ (hops : List HopIn) {s s' : State} {din : Denom} {amt out : Int},
    routeInLoop s u din amt minOut hops = some (s', out) → Good (· = u) s s'
  | [], s, s', din, amt, out, h => by
    simp only [routeInLoop] at h; injection h with h; injection h with h1 _; subst h1; exact Good.refl _ _
  | [hp], s, s', din, amt, out, h => by
    simp only [routeInLoop] at h; exact hopIn_good h
  | hp :: h2 :: hs, s, s', din, amt, out, h => by
    simp only [routeInLoop, Option.bind_eq_bind, Option.bind_eq_some_iff] at h
    obtain ⟨⟨s1, o1⟩, h1, hrest⟩ := h
    exact (hopIn_good h1).trans (routeInLoop_good (h2 :: hs) hrest)

theorem routeExactAmountIn_good {s s' : State} {u : Nat} {din : Denom} {amt minOut out : Int} {hops : List HopIn}
    (h : routeExactAmountIn s u din amt minOut hops = some (s', out)) : Good (· = u) s s' := by
  unfold routeExactAmountIn at h
  split at h
  · cases h
  · exact routeInLoop_good hops h

theorem hopOut_good {s s' : State} {u : Nat} {h : HopOut} {maxIn after : Int} {tout : Denom × Int}
    (hh : hopOut s u h maxIn tout = some (s', after)) : Good (· = u) s s' := by
  unfold hopOut at hh
  simp only [Option.bind_eq_bind, Option.bind_eq_some_iff] at hh
  obtain ⟨⟨s1, a⟩, hswap, ⟨s2, af, fee⟩, hfee, hh⟩ := hh
  injection hh with hh; injection hh with h1 _; subst h1
  exact (gammSwapOut_good hswap).trans (chargeTakerFee_good hfee)

theorem routeOutLoop_good {u : Nat} {final : Denom × Int} : ∀ (hops : List HopOut) (es : List Int) {s s' : State} {a : Int},
    routeOutLoop s u final hops es = some (s', a) → Good (· = u) s s'
  | [], _, s, s', a, h => by
    simp only [routeOutLoop] at h; injection h with h; injection h with h1 _; subst h1; exact Good.refl _ _
  | _ :: _, [], s, s', a, h => by simp only [routeOutLoop] at h; cases h
  | hp :: hs, e :: es, s, s', a, h => by
    simp only [routeOutLoop, Option.bind_eq_bind, Option.bind_eq_some_iff] at h
    obtain ⟨⟨s1, a1⟩, h1, ⟨s2, a2⟩, h2, h⟩ := h
    injection h with h; injection h with h3 _; subst h3
    exact (hopOut_good h1).trans (routeOutLoop_good hs es h2)

theorem routeExactAmountOut_good {s s' : State} {u : Nat} {dout : Denom} {maxIn amtOut a : Int} {hops : List HopOut}
    (h : routeExactAmountOut s u maxIn dout amtOut hops = some (s', a)) : Good (· = u) s s' := by
  unfold routeExactAmountOut at h
  simp only [Option.bind_eq_bind, Option.bind_eq_some_iff] at h
  obtain ⟨_, _, ins, _, h⟩ := h
  split at h
  · cases h
  · exact routeOutLoop_good hops _ h

/-! ## liquidity messages -/

theorem joinPool_good {s s' : State} {u id : Nat} {shareOut : Int} {maxs : Coins} {math : Option (Int × Coins)}
    (h : joinPool s u id shareOut maxs math = some s') : Good (· = u) s s' := by
  unfold joinPool at h
  simp only [Option.bind_eq_bind, Option.bind_eq_some_iff, require_eq_some] at h
  obtain ⟨p, hp, needed, _, _, _, ⟨sh, joined⟩, _, p', hrec, happ⟩ := h
  obtain ⟨r1, _, r3⟩ := recJoin_spec hrec
  refine applyJoin_good hp r1 ?_ happ
  intro hok d
  have : joined = needed := by simpa using hok
  rw [r3 d, this]

theorem joinSwapExternAmountIn_good {s s' : State} {u id : Nat} {din : Denom} {amt minShares : Int} {math : Option Int}
    (h : joinSwapExternAmountIn s u id din amt minShares math = some s') : Good (· = u) s s' := by
  unfold joinSwapExternAmountIn at h
  simp only [Option.bind_eq_bind, Option.bind_eq_some_iff, require_eq_some] at h
  obtain ⟨p, hp, sh, _, p', hrec, _, _, _, _, happ⟩ := h
  obtain ⟨r1, _, r3⟩ := recJoin_spec hrec
  exact applyJoin_good hp r1 (fun _ => r3) happ

theorem joinSwapShareAmountOut_good {s s' : State} {u id : Nat} {din : Denom} {shareOut maxIn : Int} {math : Option Int}
    (h : joinSwapShareAmountOut s u id din shareOut maxIn math = some s') : Good (· = u) s s' := by
  unfold joinSwapShareAmountOut at h
  simp only [Option.bind_eq_bind, Option.bind_eq_some_iff, require_eq_some] at h
  obtain ⟨p, hp, _, _, tin, _, _, _, _, _, p', hrec, happ⟩ := h
  obtain ⟨r1, _, r3⟩ := recJoin_spec hrec
  exact applyJoin_good hp r1 (fun _ => r3) happ

theorem exitPool_good {s s' : State} {u id : Nat} {shareIn : Int} {mins cs : Coins} {math : Option Coins}
    (h : exitPool s u id shareIn mins math = some (s', cs)) : Good (· = u) s s' := by
  unfold exitPool at h
  simp only [Option.bind_eq_bind, Option.bind_eq_some_iff, require_eq_some] at h
  obtain ⟨p, hp, _, _, _, _, ec, _, ⟨p', ok⟩, hrec, _, _, s1, happ, h⟩ := h
  injection h with h; injection h with h1 _; subst h1
  obtain ⟨r1, _, r3⟩ := recExit_spec hrec
  exact applyExit_good hp r1 r3 happ

theorem exitSwapLoop_good {u id : Nat} {dout : Denom} : ∀ (cs : Coins) (ms : List (Option Int)) {s s' : State} {acc t : Int},
    exitSwapLoop s u id dout acc cs ms = some (s', t) → Good (· = u) s s'
  | [], _, s, s', acc, t, h => by
    simp only [exitSwapLoop] at h; injection h with h; injection h with h1 _; subst h1; exact Good.refl _ _
  | (d, a) :: cs, ms, s, s', acc, t, h => by
    simp only [exitSwapLoop] at h
    split at h
    · exact exitSwapLoop_good cs ms h
    · split at h
      · cases h
      · simp only [Option.bind_eq_bind, Option.bind_eq_some_iff] at h
        obtain ⟨⟨s1, o⟩, h1, h2⟩ := h
        exact (gammSwapIn_good h1).trans (exitSwapLoop_good cs _ h2)

theorem exitSwapShareAmountIn_good {s s' : State} {u id : Nat} {dout : Denom} {shareIn minOut t : Int}
    {math : Option Coins} {maths : List (Option Int)}
    (h : exitSwapShareAmountIn s u id dout shareIn minOut math maths = some (s', t)) : Good (· = u) s s' := by
  unfold exitSwapShareAmountIn at h
  simp only [Option.bind_eq_bind, Option.bind_eq_some_iff, require_eq_some] at h
  obtain ⟨⟨s1, ec⟩, h1, ⟨s2, tot⟩, h2, _, _, h⟩ := h
  injection h with h; injection h with h3 _; subst h3
  exact (exitPool_good h1).trans (exitSwapLoop_good _ _ h2)

theorem exitSwapExternAmountOut_good {s s' : State} {u id : Nat} {dout : Denom} {amtOut : Int} {math : Option Int}
    (h : exitSwapExternAmountOut s u id dout amtOut math = some s') : Good (· = u) s s' := by
  unfold exitSwapExternAmountOut at h
  simp only [Option.bind_eq_bind, Option.bind_eq_some_iff, require_eq_some] at h
  obtain ⟨p, hp, _, _, sh, _, _, _, ⟨p', ok⟩, hrec, happ⟩ := h
  obtain ⟨r1, _, r3⟩ := recExit_spec hrec
  refine applyExit_good hp r1 ?_ happ
  intro hok d
  rw [r3 hok d]
  split
  · rename_i h0; subst h0; simp only [sumOf]; split <;> omega
  · rfl

/-! ## pool creation, direct sends, funding -/

theorem Good.mono {U V : Nat → Prop} {s s' : State} (h : Good U s s') (hUV : ∀ v, U v → V v) : Good V s s' :=
  ⟨h.inv, h.tok, fun v hv d => h.others v (fun hu => hv (hUV v hu)) d, h.clean, h.don⟩

theorem aget_eq_sumOf : ∀ (cs : Coins), denomsNodup cs = true → ∀ d, aget cs d = sumOf cs d
  | [], _, d => rfl
  | (d0, a) :: cs, h, d => by
    simp only [denomsNodup, Bool.and_eq_true, Bool.not_eq_eq_eq_not, Bool.not_true] at h
    simp only [aget, sumOf]
    split
    · rename_i h0; subst h0
      have : sumOf cs d0 = 0 := by
        have h1 := h.1
        clear h
        induction cs with
        | nil => rfl
        | cons c cs ih =>
          simp only [List.any_cons, Bool.or_eq_false_iff, decide_eq_false_iff_not] at h1
          simp only [sumOf]
          rw [if_neg h1.1, ih h1.2]; omega
      omega
    · rw [aget_eq_sumOf cs h.2 d]; omega

theorem reserve_of_pools {s s' : State} {id : Nat} {p' : Pool} (h : s'.pools = setPool s.pools id p') (id' : Nat) (d : Denom) :
    s'.reserve id' d = if id = id' then p'.res d else s.reserve id' d := by
  simp only [State.reserve, h, getPool_setPool]
  by_cases h : id = id'
  · simp only [h, if_true]
  · simp only [h, if_false]

theorem shares_of_pools {s s' : State} {id : Nat} {p' : Pool} (h : s'.pools = setPool s.pools id p') (id' : Nat) :
    s'.shares id' = if id = id' then p'.totalShares else s.shares id' := by
  simp only [State.shares, h, getPool_setPool]
  by_cases h : id = id'
  · simp only [h, if_true]
  · simp only [h, if_false]

theorem createPool_good {s s' : State} {u : Nat} {kind : Kind} {liq : Coins}
    (h : createPool s u kind liq = some s') : Good (· = u) s s' := by
  unfold createPool at h
  simp only [Option.bind_eq_bind, Option.bind_eq_some_iff, require_eq_some] at h
  obtain ⟨_, hv, b1, h1, b2, h2, b3, h3, h⟩ := h
  injection h with h; subst h
  have hnd : denomsNodup liq = true := by
    simp only [validLiquidity, Bool.and_eq_true] at hv; exact hv.2
  refine ⟨fun hinv => ⟨?_, ?_, ?_, ?_⟩, ?_, ?_, id, rfl⟩
  · intro id' hid'
    show getPool (setPool s.pools s.nextPoolId _) id' = none
    rw [getPool_setPool]
    have hid'' : s.nextPoolId + 1 ≤ id' := hid'
    rw [if_neg (by omega)]
    exact hinv.wf id' (by omega)
  · intro hc id' d
    have hc' : s.clean = true := hc
    have h0 := hinv.bank hc' id' d
    have hnone := hinv.wf s.nextPoolId (Nat.le_refl _)
    have hr0 : s.reserve s.nextPoolId d = 0 := by simp only [State.reserve, hnone]
    rw [reserve_of_pools (s := s) (id := s.nextPoolId) rfl]
    show b3.balance _ _ = _ + s.don id' d
    simp only [State.bal] at h0
    rw [sendCoins_balance _ h3, sendCoins_balance _ h2, mint_balance h1]
    by_cases hid : s.nextPoolId = id'
    · subst hid
      simp only [if_true, Pool.res, aget_eq_sumOf liq hnd]
      grind
    · simp only [hid, if_false]
      grind
  · intro id'
    have h0 := hinv.shares id'
    have hnone := hinv.wf s.nextPoolId (Nat.le_refl _)
    have hr0 : s.shares s.nextPoolId = 0 := by simp only [State.shares, hnone]
    rw [shares_of_pools (s := s) (id := s.nextPoolId) rfl]
    show b3.supply _ = _
    simp only [State.supply] at h0
    rw [sendCoins_supply _ h3, sendCoins_supply _ h2, mint_supply h1]
    by_cases hid : s.nextPoolId = id'
    · subst hid
      simp only [if_true, shareDenom]
      omega
    · simp only [hid, if_false, shareDenom, Denom.share.injEq]
      omega
  · intro d
    have h0 := hinv.sup d
    simp only [State.supply, State.total] at h0 ⊢
    show b3.supply _ = b3.total _
    rw [sendCoins_supply _ h3, sendCoins_supply _ h2, mint_supply h1, sendCoins_total _ h3, sendCoins_total _ h2, mint_total h1]
    omega
  · intro n
    show b3.supply _ = _
    rw [sendCoins_supply _ h3, sendCoins_supply _ h2, mint_supply h1]
    simp [shareDenom, State.supply]
  · intro v hv d
    show b3.balance _ _ = _
    rw [sendCoins_balance _ h3, sendCoins_balance _ h2, mint_balance h1]
    simp only [State.bal]
    grind

/-- facts about one whole message (`U` = users whose balances may move). -/
structure StepFacts (U : Nat → Prop) (s s' : State) : Prop where
  inv : Inv s → Inv s'
  tok : ∀ n, s'.supply (.tok n) = s.supply (.tok n)
  others : ∀ v, ¬ U v → ∀ d, s'.bal (.user v) d = s.bal (.user v) d
  clean : s'.clean = true → s.clean = true

theorem Good.facts {U V : Nat → Prop} {s s' : State} (h : Good U s s') (hUV : ∀ v, U v → V v) : StepFacts V s s' :=
  ⟨h.inv, h.tok, fun v hv d => h.others v (fun hu => hv (hUV v hu)) d, h.clean⟩

theorem bankSend_facts {s s' : State} {u : Nat} {to : Acct} {d : Denom} {amt : Int}
    (h : bankSend s u to d amt = some s') : StepFacts (fun v => v = u ∨ to = .user v) s s' := by
  unfold bankSend at h
  simp only [Option.bind_eq_bind, Option.bind_eq_some_iff] at h
  obtain ⟨b, hb, h⟩ := h
  injection h with h; subst h
  refine ⟨fun hinv => ⟨hinv.wf, ?_, ?_, ?_⟩, ?_, ?_, id⟩
  · intro hc id' d'
    have h0 := hinv.bank hc id' d'
    simp only [State.bal, State.reserve, State.don] at h0 ⊢
    show b.balance _ _ = _ + aget _ (id', d')
    rw [send_balance hb]
    cases to with
    | pool id =>
      simp only [aget_aset, Prod.mk.injEq]
      grind
    | user v => simp only; grind
    | feeCollector => simp only; grind
    | communityPool => simp only; grind
  · intro id'
    have h0 := hinv.shares id'
    simp only [State.supply, State.shares] at h0 ⊢
    show b.supply _ = _
    rw [send_supply hb]; exact h0
  · intro d'
    have h0 := hinv.sup d'
    simp only [State.supply, State.total] at h0 ⊢
    show b.supply _ = b.total _
    rw [send_supply hb, send_total hb]; exact h0
  · intro n; show b.supply _ = _; rw [send_supply hb]; rfl
  · intro v hv d'
    show b.balance _ _ = _
    rw [send_balance hb]
    simp only [State.bal]
    grind

/-- a direct send to a pool address is recorded as a donation of exactly that amount; any other send is not. -/
theorem bankSend_donated {s s' : State} {u : Nat} {to : Acct} {d : Denom} {amt : Int}
    (h : bankSend s u to d amt = some s') (id : Nat) (d' : Denom) :
    s'.don id d' = s.don id d' + (if to = .pool id ∧ d = d' then amt else 0) := by
  unfold bankSend at h
  simp only [Option.bind_eq_bind, Option.bind_eq_some_iff] at h
  obtain ⟨b, hb, h⟩ := h
  injection h with h; subst h
  simp only [State.don]
  cases to with
  | pool id0 => simp only [aget_aset, Prod.mk.injEq, Acct.pool.injEq]; grind
  | user v => simp only [reduceCtorEq, false_and, if_false]; omega
  | feeCollector => simp only [reduceCtorEq, false_and, if_false]; omega
  | communityPool => simp only [reduceCtorEq, false_and, if_false]; omega

/-- minting TOKEN coins to a user keeps the invariants. -/
theorem fund_inv {s s' : State} {u : Nat} {n : String} {amt : Int}
    (h : fund s u (.tok n) amt = some s') (hinv : Inv s) : Inv s' := by
  unfold fund at h
  cases hb : s.bank.mint (.user u) (.tok n) amt with
  | none => rw [hb] at h; cases h
  | some b =>
    rw [hb] at h
    simp only [Option.map_some] at h
    injection h with h; subst h
    refine ⟨hinv.wf, ?_, ?_, ?_⟩
    · intro hc id d
      have h0 := hinv.bank hc id d
      simp only [State.bal] at h0 ⊢
      show b.balance _ _ = _
      show _ = s.reserve id d + s.don id d
      rw [mint_balance hb]
      simp only [reduceCtorEq, false_and, if_false]
      omega
    · intro id
      have h0 := hinv.shares id
      simp only [State.supply] at h0 ⊢
      show b.supply _ = s.shares id
      rw [mint_supply hb]
      simp only [reduceCtorEq, if_false]
      omega
    · intro d
      have h0 := hinv.sup d
      simp only [State.supply, State.total] at h0 ⊢
      show b.supply _ = b.total _
      rw [mint_supply hb, mint_total hb]; omega
