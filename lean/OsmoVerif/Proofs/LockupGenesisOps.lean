/-
`Sim` is a bisimulation: every keeper function / message of `Model/Lockup.lean`, run on equivalent states,
fails on both or succeeds on both with equivalent states and the same returned value.  Core only.
-/
import OsmoVerif.Proofs.LockupGenesisSim
namespace OsmoVerif.Lockup

theorem createLockNoSend_sim {s1 t1 : State} (h1 : Sim s1 t1) (o : Addr) (c : Coins) (d : Int) :
    SimO (createLockNoSend s1 o c d) (createLockNoSend t1 o c d) := by
  unfold createLockNoSend
  simp only [Option.bind_eq_bind]
  rw [h1.last]
  apply ORel.bind (addLockRefs_sim (lockInternal_sim h1 _ _) _)
  intro s3 t3 h3
  exact ⟨⟨h3.bal, h3.modBal, rfl, h3.allowed, h3.nodup, h3.locks, h3.refs, h3.accum⟩, rfl⟩

theorem createLock_sim {s t : State} (h : Sim s t) (o : Addr) (c : Coins) (d : Int) :
    SimO (createLock s o c d) (createLock t o c d) := by
  unfold createLock
  simp only [Option.bind_eq_bind]
  apply ORel.bind (sendToModule_sim h o c)
  intro s1 t1 h1
  exact createLockNoSend_sim h1 o c d

theorem addTokensToLockByID_sim {s t : State} (h : Sim s t) (id : Nat) (o : Addr) (dn : Denom) (a : Int) :
    SimS (addTokensToLockByID s id o dn a) (addTokensToLockByID t id o dn a) := by
  unfold addTokensToLockByID
  simp only [Option.bind_eq_bind]
  rw [getLock_sim h]
  cases getLock t id with
  | none => trivial
  | some l =>
    simp only [Option.bind_some]
    split
    · trivial
    · apply ORel.bind (sendCoinToModule_sim h o dn a)
      intro s1 t1 h1
      exact accIncrease_sim (lockInternal_sim h1 _ _) _ _ _

theorem msgLockTokens_sim {s t : State} (h : Sim s t) (o : Addr) (c : Coins) (d : Int) :
    SimO (msgLockTokens s o c d) (msgLockTokens t o c d) := by
  unfold msgLockTokens
  split
  · trivial
  · split
    · split
      · trivial
      · unfold qOwnerDenomDurationNotUnlocking
        rw [idsWhere_sim h]
        split
        · exact ORel.map (addTokensToLockByID_sim h _ _ _ _) (fun _ _ hx => ⟨hx, rfl⟩)
        · exact createLock_sim h _ _ _
    · trivial

theorem splitLock_sim {s t : State} (h : Sim s t) (l : Lock) (c : Coins) (f : Bool) :
    SimO (splitLock s l c f) (splitLock t l c f) := by
  unfold splitLock
  split
  · trivial
  · split
    · trivial
    · rename_i rest _
      have h1 := setLock_sim h { l with coins := rest }
      have e : s.lastLockId = t.lastLockId := h.last
      simp only [setLock] at h1 ⊢
      rw [e]
      refine ⟨?_, rfl⟩
      exact setLock_sim (s := { s with locks := setLockL s.locks { l with coins := rest }, lastLockId := t.lastLockId + 1 })
        (t := { t with locks := setLockL t.locks { l with coins := rest }, lastLockId := t.lastLockId + 1 })
        ⟨h1.bal, h1.modBal, rfl, h1.allowed, h1.nodup, h1.locks, h1.refs, h1.accum⟩ _

theorem beginUnlockCore_sim {s t : State} (h : Sim s t) (tm : Int) (l : Lock) :
    SimO (beginUnlockCore tm s l) (beginUnlockCore tm t l) := by
  unfold beginUnlockCore
  have h4 := addLockRefs_sim (setLock_sim (deleteLockRefs_sim h false l) { l with endTime := some (tm + l.duration) })
    { l with endTime := some (tm + l.duration) }
  revert h4
  simp only []
  cases addLockRefs (setLock (deleteLockRefs s false l) { l with endTime := some (tm + l.duration) })
      { l with endTime := some (tm + l.duration) } <;>
    cases addLockRefs (setLock (deleteLockRefs t false l) { l with endTime := some (tm + l.duration) })
      { l with endTime := some (tm + l.duration) } <;> intro h4
  · trivial
  · exact h4.elim
  · exact h4.elim
  · exact ⟨h4, rfl⟩

theorem beginUnlockInternal_sim {s t : State} (h : Sim s t) (tm : Int) (l : Lock) (c : Coins) :
    SimO (beginUnlockInternal tm s l c) (beginUnlockInternal tm t l c) := by
  unfold beginUnlockInternal
  split
  · trivial
  · split
    · trivial
    · split
      · have h1 := splitLock_sim h l c false
        revert h1
        cases splitLock s l c false <;> cases splitLock t l c false <;> intro h1
        · trivial
        · exact h1.elim
        · exact h1.elim
        · rename_i p q
          obtain ⟨s1, l1⟩ := p
          obtain ⟨t1, l2⟩ := q
          obtain ⟨hs, hl⟩ := h1
          simp only at hl
          subst hl
          exact beginUnlockCore_sim hs tm l1
      · exact beginUnlockCore_sim h tm l

theorem beginUnlock_sim {s t : State} (h : Sim s t) (tm : Int) (id : Nat) (c : Coins) :
    SimO (beginUnlock tm s id c) (beginUnlock tm t id c) := by
  unfold beginUnlock
  simp only [Option.bind_eq_bind]
  rw [getLock_sim h]
  cases getLock t id with
  | none => trivial
  | some l => exact beginUnlockInternal_sim h tm l c

theorem msgBeginUnlocking_sim {s t : State} (h : Sim s t) (tm : Int) (o : Addr) (id : Nat) (c : Coins) :
    SimO (msgBeginUnlocking tm s o id c) (msgBeginUnlocking tm t o id c) := by
  unfold msgBeginUnlocking
  rw [getLock_sim h]
  split
  · trivial
  · split
    · trivial
    · split
      · trivial
      · split
        · trivial
        · split
          · trivial
          · exact beginUnlock_sim h tm id c

theorem msgBeginUnlockingAll_sim {s t : State} (h : Sim s t) (tm : Int) (o : Addr) :
    SimS (msgBeginUnlockingAll tm s o) (msgBeginUnlockingAll tm t o) := by
  unfold msgBeginUnlockingAll
  rw [idsWhere_sim h]
  exact foldlM_sim _ (fun _ _ id h' => ORel.map (beginUnlock_sim h' tm id []) (fun _ _ hx => hx.1)) _ h

theorem unlockInternal_sim {s t : State} (h : Sim s t) (l : Lock) :
    SimS (unlockInternal s l) (unlockInternal t l) := by
  unfold unlockInternal
  simp only [Option.bind_eq_bind]
  apply ORel.bind (R := Sim) (burnCLShares_sim h _)
  intro s0 t0 h0
  apply ORel.bind (R := Sim)
  · split
    · exact h0
    · exact sendFromModule_sim h0 _ _
  · intro s1 t1 h1
    exact accDecreaseCoins_sim (deleteLockRefs_sim (deleteLock_sim h1 _) _ _) _ _

theorem unlockMaturedLock_sim {s t : State} (h : Sim s t) (tm : Int) (id : Nat) :
    SimS (unlockMaturedLock tm s id) (unlockMaturedLock tm t id) := by
  unfold unlockMaturedLock
  simp only [Option.bind_eq_bind]
  rw [getLock_sim h]
  cases getLock t id with
  | none => trivial
  | some l =>
    simp only [Option.bind_some]
    split
    · trivial
    · split
      · trivial
      · exact unlockInternal_sim h l

/-- key order of `LockIteratorBeforeTime`: (end time, lock id). -/
def maturedLE (a b : Option Int × Nat) : Bool :=
  match a.1, b.1 with
  | none, none => decide (a.2 ≤ b.2)
  | none, some _ => true
  | some _, none => false
  | some x, some y => decide (x < y ∨ (x = y ∧ a.2 ≤ b.2))

theorem maturedEntries_sim {s t : State} (h : Sim s t) (tm : Int) : maturedEntries tm s = maturedEntries tm t := by
  unfold maturedEntries
  apply isortBy_perm_eq _ _ _ _ (h.refs.filterMap _)
  · rintro ⟨a1, a2⟩ ⟨b1, b2⟩
    cases a1 <;> cases b1 <;> simp <;> omega
  · rintro ⟨a1, a2⟩ ⟨b1, b2⟩ ⟨c1, c2⟩
    cases a1 <;> cases b1 <;> cases c1 <;> simp <;> omega
  · rintro ⟨a1, a2⟩ ⟨b1, b2⟩
    cases a1 <;> cases b1 <;> simp <;> omega

theorem withdrawMaturedLocks_sim {s t : State} (h : Sim s t) (tm : Int) (n : Nat) :
    SimS (withdrawMaturedLocks tm s n) (withdrawMaturedLocks tm t n) := by
  unfold withdrawMaturedLocks
  rw [maturedEntries_sim h]
  exact foldlM_sim _ (fun _ _ id h' => unlockMaturedLock_sim h' tm id) _ h

theorem extendLockup_sim {s t : State} (h : Sim s t) (id : Nat) (o : Addr) (d : Int) :
    SimS (extendLockup s id o d) (extendLockup t id o d) := by
  unfold extendLockup
  simp only [Option.bind_eq_bind]
  rw [getLock_sim h]
  cases getLock t id with
  | none => trivial
  | some l =>
    simp only [Option.bind_some]
    split
    · trivial
    · split
      · trivial
      · apply ORel.bind (R := fun (p q : State × Lock) => Sim p.1 q.1 ∧ p.2 = q.2)
        · split
          · split
            · trivial
            · refine ⟨?_, rfl⟩
              dsimp only
              exact foldl_sim (fun s (c : Denom × Int) => accIncrease (accIncrease s c.1 l.duration (-c.2)) c.1 d c.2)
                (fun _ _ c h' => accIncrease_sim (accIncrease_sim h' _ _ _) _ _ _) _ (deleteLockRefs_sim h _ _)
          · exact ⟨deleteLockRefs_sim h _ _, rfl⟩
        · rintro ⟨s2, l2⟩ ⟨t2, l2'⟩ ⟨h2, e⟩
          simp only at e h2
          subst e
          apply ORel.bind (addLockRefs_sim h2 l2)
          intro s3 t3 h3
          exact setLock_sim h3 l2

theorem msgExtendLockup_sim {s t : State} (h : Sim s t) (o : Addr) (id : Nat) (d : Int) :
    SimS (msgExtendLockup s o id d) (msgExtendLockup t o id d) := by
  unfold msgExtendLockup
  split
  · trivial
  · split
    · trivial
    · exact extendLockup_sim h id o d

theorem setRewardReceiver_sim {s t : State} (h : Sim s t) (id : Nat) (o r : Addr) :
    SimS (setRewardReceiver s id o r) (setRewardReceiver t id o r) := by
  unfold setRewardReceiver
  simp only [Option.bind_eq_bind]
  rw [getLock_sim h]
  cases getLock t id with
  | none => trivial
  | some l =>
    simp only [Option.bind_some]
    repeat' split
    all_goals first | trivial | exact setLock_sim h _

theorem forceUnlock_sim {s t : State} (h : Sim s t) (tm : Int) (l : Lock) :
    SimS (forceUnlock tm s l) (forceUnlock tm t l) := by
  unfold forceUnlock
  simp only [Option.bind_eq_bind]
  apply ORel.bind (R := Sim)
  · split
    · exact ORel.map (beginUnlock_sim h tm l.id []) (fun _ _ hx => hx.1)
    · exact h
  · intro s1 t1 h1
    rw [getLock_sim h1]
    cases getLock t1 l.id with
    | none => trivial
    | some l' => exact unlockInternal_sim h1 l'

theorem msgForceUnlock_sim {s t : State} (h : Sim s t) (tm : Int) (o : Addr) (id : Nat) (c : Coins) :
    SimS (msgForceUnlock tm s o id c) (msgForceUnlock tm t o id c) := by
  unfold msgForceUnlock
  rw [getLock_sim h, h.allowed]
  split
  · trivial
  · split
    · trivial
    · split
      · trivial
      · split
        · trivial
        · split
          · trivial
          · split
            · trivial
            · split
              · have h1 := splitLock_sim h ‹Lock› c true
                revert h1
                cases splitLock s ‹Lock› c true <;> cases splitLock t ‹Lock› c true <;> intro h1
                · trivial
                · exact h1.elim
                · exact h1.elim
                · rename_i p q
                  obtain ⟨s1, l1⟩ := p
                  obtain ⟨t1, l2⟩ := q
                  obtain ⟨hs, hl⟩ := h1
                  simp only at hl
                  subst hl
                  exact forceUnlock_sim hs tm l1
              · exact forceUnlock_sim h tm _

theorem addToLockGuarded_sim {s t : State} (h : Sim s t) (id : Nat) (o : Addr) (dn : Denom) (a : Int) :
    SimS (addToLockGuarded s id o dn a) (addToLockGuarded t id o dn a) := by
  unfold addToLockGuarded
  rw [getLock_sim h]
  split
  · trivial
  · split
    · trivial
    · exact addTokensToLockByID_sim h _ _ _ _

theorem clLock_sim {s t : State} (h : Sim s t) (tm : Int) (o : Addr) (dn : Denom) (a d : Int) (u : Bool) :
    SimO (clLock tm s o dn a d u) (clLock tm t o dn a d u) := by
  unfold clLock
  split
  · trivial
  · split
    · trivial
    · apply ORel.bind (mintCoinToModule_sim h dn a)
      intro s1 t1 h1
      apply ORel.bind (createLockNoSend_sim h1 o [(dn, a)] d)
      intro p q hpq
      obtain ⟨hs2, hid⟩ := hpq
      split
      · rw [hid]; exact beginUnlock_sim hs2 tm _ _
      · exact ⟨hs2, hid⟩

/-- every operation: both fail, or both succeed with equivalent states and the same returned lock id. -/
theorem applyOp_sim {s t : State} (h : Sim s t) (tm : Int) (op : Op) : SimO (applyOp tm s op) (applyOp tm t op) := by
  cases op with
  | lockTokens o c d => exact msgLockTokens_sim h o c d
  | addToLock id o dn a => exact ORel.map (addToLockGuarded_sim h id o dn a) (fun _ _ hx => ⟨hx, rfl⟩)
  | extend o id d => exact ORel.map (msgExtendLockup_sim h o id d) (fun _ _ hx => ⟨hx, rfl⟩)
  | beginUnlock o id c => exact msgBeginUnlocking_sim h tm o id c
  | beginUnlockAll o => exact ORel.map (msgBeginUnlockingAll_sim h tm o) (fun _ _ hx => ⟨hx, rfl⟩)
  | unlockMatured id => exact ORel.map (unlockMaturedLock_sim h tm id) (fun _ _ hx => ⟨hx, rfl⟩)
  | withdrawMatured n => exact ORel.map (withdrawMaturedLocks_sim h tm n) (fun _ _ hx => ⟨hx, rfl⟩)
  | setRewardReceiver o id r => exact ORel.map (setRewardReceiver_sim h id o r) (fun _ _ hx => ⟨hx, rfl⟩)
  | forceUnlock o id c => exact ORel.map (msgForceUnlock_sim h tm o id c) (fun _ _ hx => ⟨hx, rfl⟩)
  | clLock o dn a d u => exact clLock_sim h tm o dn a d u

theorem step_sim {s t : State} (h : Sim s t) (tm : Int) (op : Op) :
    Sim (step tm s op).1 (step tm t op).1 ∧ (step tm s op).2 = (step tm t op).2 := by
  have := applyOp_sim h tm op
  unfold step
  revert this
  cases applyOp tm s op <;> cases applyOp tm t op <;> intro this
  · exact ⟨h, rfl⟩
  · exact this.elim
  · exact this.elim
  · obtain ⟨h1, h2⟩ := this
    exact ⟨h1, by simp only [h2]⟩

theorem run_sim : ∀ (hist : List (Int × Op)) {s t : State}, Sim s t → Sim (run s hist) (run t hist)
  | [], _, _, h => h
  | (tm, op) :: rest, _, _, h => run_sim rest (step_sim h tm op).1

end OsmoVerif.Lockup
