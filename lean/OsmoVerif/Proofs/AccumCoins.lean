/- DecCoins lemmas for Model/Accum: per-denom amounts (`amt`) of add/neg/sub/mulDec/truncateDecimal,
and preservation of the sdk ordering invariant (`sorted`).  Core only. -/
import OsmoVerif.Model.Accum
import OsmoVerif.Proofs.NumLemmas

namespace OsmoVerif.Accum
open OsmoVerif.Num OsmoVerif.Spec

/-- Σ f(amount) over the entries carrying denom `d`. -/
def amtMap (f : Int → Int) : List (String × Int) → String → Int
  | [], _ => 0
  | (e, x) :: t, d => (if e = d then f x else 0) + amtMap f t d

theorem str_lt_of_not {a b : String} (h1 : ¬ a < b) (h2 : ¬ a = b) : b < a := by
  rcases Decidable.em (b < a) with h | h
  · exact h
  · exact absurd (String.le_antisymm (String.not_lt.mp h) (String.not_lt.mp h1)) h2

theorem decAdd_some {x y s : Int} (h : Dec.add x y = some s) : s = x + y := by
  unfold Dec.add chkDec at h; split at h
  · cases h; rfl
  · cases h
theorem decSub_some {x y s : Int} (h : Dec.sub x y = some s) : s = x - y := by
  unfold Dec.sub chkDec at h; split at h
  · cases h; rfl
  · cases h
theorem decMul_some {x y s : Int} (h : Dec.mul x y = some s) : s = chopRound P18 (x * y) := by
  unfold Dec.mul chkDec at h; split at h
  · cases h; rfl
  · cases h
theorem decTrunc_some {x q : Int} (h : Dec.truncateInt x = some q) : q = x.tdiv P18 := by
  unfold Dec.truncateInt chkInt at h; split at h
  · cases h; rfl
  · cases h

/-! ### amt basics -/
theorem amt_removeZero (cs : DecCoins) (d : String) : amt (removeZero cs) d = amt cs d := by
  induction cs with
  | nil => rfl
  | cons c t ih =>
    obtain ⟨e, x⟩ := c
    unfold removeZero at ih ⊢
    rw [List.filter_cons]
    split
    · simp only [amt, ih]
    · next h =>
      have hx : x = 0 := by simpa using h
      subst hx; simp only [amt, ih]; split <;> omega

theorem amt_of_all_lt {t : List (String × Int)} {e : String} (h : t.all (fun c => decide (e < c.1)) = true) :
    amt t e = 0 := by
  induction t with
  | nil => rfl
  | cons c t ih =>
    obtain ⟨e', x⟩ := c
    simp only [List.all_cons, Bool.and_eq_true, decide_eq_true_eq] at h
    have hne : ¬ e' = e := fun hh => String.lt_irrefl e (hh ▸ h.1)
    simp only [amt, if_neg hne, ih h.2, Int.zero_add]

theorem amtMap_of_all_lt (f : Int → Int) {t : List (String × Int)} {e : String}
    (h : t.all (fun c => decide (e < c.1)) = true) : amtMap f t e = 0 := by
  induction t with
  | nil => rfl
  | cons c t ih =>
    obtain ⟨e', x⟩ := c
    simp only [List.all_cons, Bool.and_eq_true, decide_eq_true_eq] at h
    have hne : ¬ e' = e := fun hh => String.lt_irrefl e (hh ▸ h.1)
    simp only [amtMap, if_neg hne, ih h.2, Int.zero_add]

/-- on a sorted list the per-entry image is the image of the amount (`f 0 = 0`). -/
theorem amtMap_sorted (f : Int → Int) (f0 : f 0 = 0) {cs : List (String × Int)} (hs : sorted cs = true) (d : String) :
    amtMap f cs d = f (amt cs d) := by
  induction cs with
  | nil => simp [amtMap, amt, f0]
  | cons c t ih =>
    obtain ⟨e, x⟩ := c
    simp only [sorted, Bool.and_eq_true] at hs
    by_cases he : e = d
    · subst he
      simp only [amtMap, amt, ↓reduceIte, amtMap_of_all_lt f hs.1, amt_of_all_lt hs.1, Int.add_zero]
    · simp only [amtMap, amt, if_neg he, Int.zero_add, ih hs.2]

theorem amt_neg (cs : DecCoins) (d : String) : amt (neg cs) d = - amt cs d := by
  induction cs with
  | nil => rfl
  | cons c t ih =>
    obtain ⟨e, x⟩ := c
    show (if e = d then -x else 0) + amt (neg t) d = _
    rw [ih]; simp only [amt]; split <;> omega

theorem all_neg (p : String → Bool) (cs : DecCoins) : (neg cs).all (fun c => p c.1) = cs.all (fun c => p c.1) := by
  induction cs with
  | nil => rfl
  | cons c t ih => simp only [neg, List.map_cons, List.all_cons] at *; rw [ih]

theorem sorted_neg (cs : DecCoins) : sorted (neg cs) = sorted cs := by
  induction cs with
  | nil => rfl
  | cons c t ih =>
    obtain ⟨e, x⟩ := c
    show ((neg t).all (fun c => decide (e < c.1)) && sorted (neg t)) = _
    rw [all_neg (fun s => decide (e < s)), ih]; rfl

theorem all_removeZero {p : String × Int → Bool} {cs : DecCoins} (h : cs.all p = true) : (removeZero cs).all p = true := by
  simp only [List.all_eq_true] at *
  intro c hc
  exact h c (List.mem_filter.mp hc).1

theorem sorted_removeZero {cs : DecCoins} (h : sorted cs = true) : sorted (removeZero cs) = true := by
  induction cs with
  | nil => rfl
  | cons c t ih =>
    obtain ⟨e, x⟩ := c
    simp only [sorted, Bool.and_eq_true] at h
    unfold removeZero at *
    by_cases hx : x = 0
    · have : decide ((e, x).2 ≠ 0) = false := by simpa using hx
      rw [List.filter_cons_of_neg (by simpa using hx)]
      exact ih h.2
    · rw [List.filter_cons_of_pos (by simpa using hx)]
      simp only [sorted, Bool.and_eq_true]
      exact ⟨all_removeZero h.1, ih h.2⟩

/-! ### add -/
theorem addAux_amt {da : String} {xa : Int} {ta : DecCoins} {addTa : DecCoins → Option DecCoins}
    (hTa : ∀ b r d, addTa b = some r → amt r d = amt ta d + amt b d) :
    ∀ b r d, addAux da xa ta addTa b = some r → amt r d = amt ((da, xa) :: ta) d + amt b d := by
  intro b
  induction b with
  | nil =>
    intro r d h
    simp only [addAux, Option.some.injEq] at h
    subst h; rw [amt_removeZero]; simp [amt]
  | cons c tb ih =>
    obtain ⟨db, xb⟩ := c
    intro r d h
    unfold addAux at h
    split at h
    · -- da < db
      cases hr : addTa ((db, xb) :: tb) with
      | none => rw [hr] at h; cases h
      | some r' =>
        rw [hr] at h; simp only [Option.map_some, Option.some.injEq] at h
        have := hTa _ _ d hr
        subst h
        split
        · next hz => subst hz; simp only [amt] at *; rw [this]; split <;> omega
        · simp only [amt] at *; rw [this]; omega
    · split at h
      · next heq =>
        subst heq
        cases hs : Dec.add xa xb with
        | none => rw [hs] at h; cases h
        | some s =>
          rw [hs] at h
          simp only at h
          cases hr : addTa tb with
          | none => rw [hr] at h; cases h
          | some r' =>
            rw [hr] at h; simp only [Option.map_some, Option.some.injEq] at h
            have := hTa _ _ d hr
            have hs' := decAdd_some hs
            subst h
            split
            · next hz => simp only [amt] at *; rw [this]; split <;> omega
            · simp only [amt] at *; rw [this]; split <;> omega
      · cases hr : addAux da xa ta addTa tb with
        | none => rw [hr] at h; cases h
        | some r' =>
          rw [hr] at h; simp only [Option.map_some, Option.some.injEq] at h
          have := ih _ d hr
          subst h
          split
          · next hz => subst hz; simp only [amt] at *; rw [this]; split <;> omega
          · simp only [amt] at *; rw [this]; omega

theorem add_amt : ∀ (a b r : DecCoins) (d : String), add a b = some r → amt r d = amt a d + amt b d := by
  intro a
  induction a with
  | nil =>
    intro b r d h
    simp only [add, Option.some.injEq] at h
    subst h; rw [amt_removeZero]; simp [amt]
  | cons c ta ih =>
    obtain ⟨da, xa⟩ := c
    intro b r d h
    exact addAux_amt (fun b r d => ih b r d) b r d h

/-- every denom of a sum comes from one of the operands. -/
theorem addAux_all {p : String → Bool} {da : String} {xa : Int} {ta : DecCoins} {addTa : DecCoins → Option DecCoins}
    (hTa : ∀ b r, ta.all (fun c => p c.1) = true → b.all (fun c => p c.1) = true → addTa b = some r →
      r.all (fun c => p c.1) = true) :
    ∀ b r, (((da, xa) :: ta) : DecCoins).all (fun c => p c.1) = true → b.all (fun c => p c.1) = true →
      addAux da xa ta addTa b = some r → r.all (fun c => p c.1) = true := by
  intro b
  induction b with
  | nil =>
    intro r ha _ h
    simp only [addAux, Option.some.injEq] at h
    subst h; exact all_removeZero ha
  | cons c tb ih =>
    obtain ⟨db, xb⟩ := c
    intro r ha hb h
    have ha' := ha
    simp only [List.all_cons, Bool.and_eq_true] at ha' hb
    unfold addAux at h
    split at h
    · cases hr : addTa ((db, xb) :: tb) with
      | none => rw [hr] at h; cases h
      | some r' =>
        rw [hr] at h; simp only [Option.map_some, Option.some.injEq] at h
        have := hTa _ _ ha'.2 (by simp only [List.all_cons, Bool.and_eq_true]; exact hb) hr
        subst h
        split
        · exact this
        · simp only [List.all_cons, Bool.and_eq_true]; exact ⟨ha'.1, this⟩
    · split at h
      · cases hs : Dec.add xa xb with
        | none => rw [hs] at h; cases h
        | some s =>
          rw [hs] at h
          simp only at h
          cases hr : addTa tb with
          | none => rw [hr] at h; cases h
          | some r' =>
            rw [hr] at h; simp only [Option.map_some, Option.some.injEq] at h
            have := hTa _ _ ha'.2 hb.2 hr
            subst h
            split
            · exact this
            · simp only [List.all_cons, Bool.and_eq_true]; exact ⟨ha'.1, this⟩
      · cases hr : addAux da xa ta addTa tb with
        | none => rw [hr] at h; cases h
        | some r' =>
          rw [hr] at h; simp only [Option.map_some, Option.some.injEq] at h
          have := ih _ ha hb.2 hr
          subst h
          split
          · exact this
          · simp only [List.all_cons, Bool.and_eq_true]; exact ⟨hb.1, this⟩

theorem add_all {p : String → Bool} : ∀ (a b r : DecCoins), a.all (fun c => p c.1) = true → b.all (fun c => p c.1) = true →
    add a b = some r → r.all (fun c => p c.1) = true := by
  intro a
  induction a with
  | nil =>
    intro b r _ hb h
    simp only [add, Option.some.injEq] at h
    subst h; exact all_removeZero hb
  | cons c ta ih =>
    obtain ⟨da, xa⟩ := c
    intro b r ha hb h
    exact addAux_all (fun b r h1 h2 h3 => ih b r h1 h2 h3) b r ha hb h

theorem all_lt_trans {e e' : String} (h : e < e') {t : DecCoins} (ht : t.all (fun c => decide (e' < c.1)) = true) :
    t.all (fun c => decide (e < c.1)) = true := by
  simp only [List.all_eq_true, decide_eq_true_eq] at *
  intro c hc; exact String.lt_trans h (ht c hc)

theorem addAux_sorted {da : String} {xa : Int} {ta : DecCoins} {addTa : DecCoins → Option DecCoins}
    (hAll : ∀ (p : String → Bool) b r, ta.all (fun c => p c.1) = true → b.all (fun c => p c.1) = true → addTa b = some r →
      r.all (fun c => p c.1) = true)
    (hTa : ∀ b r, sorted b = true → addTa b = some r → sorted r = true)
    (hsa : sorted ((da, xa) :: ta) = true) :
    ∀ b r, sorted b = true → addAux da xa ta addTa b = some r → sorted r = true := by
  intro b
  induction b with
  | nil =>
    intro r _ h
    simp only [addAux, Option.some.injEq] at h
    subst h; exact sorted_removeZero hsa
  | cons c tb ih =>
    obtain ⟨db, xb⟩ := c
    intro r hsb h
    have hsa' := hsa
    simp only [sorted, Bool.and_eq_true] at hsa' hsb
    unfold addAux at h
    split at h
    · next hlt =>
      cases hr : addTa ((db, xb) :: tb) with
      | none => rw [hr] at h; cases h
      | some r' =>
        rw [hr] at h; simp only [Option.map_some, Option.some.injEq] at h
        have hs := hTa _ _ (by simp only [sorted, Bool.and_eq_true]; exact hsb) hr
        subst h
        split
        · exact hs
        · simp only [sorted, Bool.and_eq_true]
          refine ⟨hAll (fun s => decide (da < s)) _ _ hsa'.1 ?_ hr, hs⟩
          simp only [List.all_cons, Bool.and_eq_true, decide_eq_true_eq]
          exact ⟨hlt, all_lt_trans hlt hsb.1⟩
    · split at h
      · next heq =>
        subst heq
        cases hs : Dec.add xa xb with
        | none => rw [hs] at h; cases h
        | some s =>
          rw [hs] at h
          simp only at h
          cases hr : addTa tb with
          | none => rw [hr] at h; cases h
          | some r' =>
            rw [hr] at h; simp only [Option.map_some, Option.some.injEq] at h
            have hs := hTa _ _ hsb.2 hr
            subst h
            split
            · exact hs
            · simp only [sorted, Bool.and_eq_true]
              exact ⟨hAll (fun s => decide (da < s)) _ _ hsa'.1 hsb.1 hr, hs⟩
      · next hnlt hne =>
        have hgt : db < da := str_lt_of_not hnlt hne
        cases hr : addAux da xa ta addTa tb with
        | none => rw [hr] at h; cases h
        | some r' =>
          rw [hr] at h; simp only [Option.map_some, Option.some.injEq] at h
          have hs := ih _ hsb.2 hr
          subst h
          split
          · exact hs
          · simp only [sorted, Bool.and_eq_true]
            refine ⟨addAux_all (p := fun s => decide (db < s)) (fun b r h1 h2 h3 => hAll (fun s => decide (db < s)) b r h1 h2 h3) _ _ ?_ hsb.1 hr, hs⟩
            simp only [List.all_cons, Bool.and_eq_true, decide_eq_true_eq]
            exact ⟨hgt, all_lt_trans hgt hsa'.1⟩

theorem add_sorted : ∀ (a b r : DecCoins), sorted a = true → sorted b = true → add a b = some r → sorted r = true := by
  intro a
  induction a with
  | nil =>
    intro b r _ hb h
    simp only [add, Option.some.injEq] at h
    subst h; exact sorted_removeZero hb
  | cons c ta ih =>
    obtain ⟨da, xa⟩ := c
    intro b r ha hb h
    have ha' := ha
    simp only [sorted, Bool.and_eq_true] at ha'
    exact addAux_sorted (fun p b r h1 h2 h3 => add_all ta b r h1 h2 h3) (fun b r h1 h2 => ih b r ha'.2 h1 h2) ha b r hb h

/-! ### sub -/
theorem sub_amt {a b r : DecCoins} (h : sub a b = some r) (d : String) : amt r d = amt a d - amt b d := by
  unfold sub at h
  split at h
  · cases h
  · next r' hr =>
    split at h
    · cases h
    · cases h
      rw [add_amt _ _ _ d hr, amt_neg]; omega

theorem sub_sorted {a b r : DecCoins} (ha : sorted a = true) (hb : sorted b = true) (h : sub a b = some r) : sorted r = true := by
  unfold sub at h
  split at h
  · cases h
  · next r' hr =>
    split at h
    · cases h
    · cases h
      exact add_sorted _ _ _ ha (by rw [sorted_neg]; exact hb) hr

/-! ### mulDec -/
/-- the value `LegacyDec.Mul` returns (when in range): half-even chop of the raw product. -/
def hev (s x : Int) : Int := chopRound P18 (x * s)

theorem hev_zero (s : Int) : hev s 0 = 0 := by
  unfold hev; rw [Int.zero_mul]; decide

theorem sorted_single (d : String) (p : Int) : sorted [(d, p)] = true := rfl

theorem mulDecGo_spec (s : Int) : ∀ (cs res r : DecCoins), mulDecGo s res cs = some r →
    (∀ d, amt r d = amt res d + amtMap (hev s) cs d) ∧ (sorted res = true → sorted r = true) := by
  intro cs
  induction cs with
  | nil =>
    intro res r h
    simp only [mulDecGo, Option.some.injEq] at h
    subst h; exact ⟨fun d => by simp [amtMap], id⟩
  | cons c t ih =>
    obtain ⟨e, x⟩ := c
    intro res r h
    unfold mulDecGo at h
    split at h
    · cases h
    · next p hp =>
      have hp' := decMul_some hp
      split at h
      · next hz =>
        obtain ⟨h1, h2⟩ := ih _ _ h
        refine ⟨fun d => ?_, h2⟩
        rw [h1 d]; simp only [amtMap]
        have : hev s x = 0 := by unfold hev; rw [← hp']; exact hz
        rw [this]; split <;> omega
      · split at h
        · cases h
        · next res' hres =>
          obtain ⟨h1, h2⟩ := ih _ _ h
          refine ⟨fun d => ?_, fun hs => h2 (add_sorted _ _ _ hs (sorted_single e p) hres)⟩
          rw [h1 d, add_amt _ _ _ d hres]; simp only [amtMap, amt]
          have : hev s x = p := by unfold hev; exact hp'.symm
          rw [this]; omega

theorem mulDec_amt {cs r : DecCoins} {s : Int} (hs : sorted cs = true) (h : mulDec cs s = some r) (d : String) :
    amt r d = hev s (amt cs d) := by
  have := (mulDecGo_spec s cs [] r h).1 d
  rw [this, amtMap_sorted _ (hev_zero s) hs]; simp [amt]

theorem mulDec_sorted {cs r : DecCoins} {s : Int} (h : mulDec cs s = some r) : sorted r = true :=
  (mulDecGo_spec s cs [] r h).2 rfl

theorem hev_isHalfEven (s x : Int) : IsHalfEven (x * s) P18 (hev s x) :=
  chopRound_isHalfEven _ _ P18_pos P18_even

/-! ### truncateDecimal -/
theorem coinsAdd_amt : ∀ (tc : List (String × Int)) (d : String) (t : Int) (r : List (String × Int)) (e : String),
    coinsAdd tc d t = some r → amt r e = amt tc e + (if d = e then t else 0) := by
  intro tc
  induction tc with
  | nil => intro d t r e h; simp only [coinsAdd, Option.some.injEq] at h; subst h; simp [amt]
  | cons c rest ih =>
    obtain ⟨e', y⟩ := c
    intro d t r e h
    unfold coinsAdd at h
    split at h
    · cases h; simp only [amt]; omega
    · split at h
      · next heq =>
        subst heq
        unfold chkInt at h
        split at h
        · simp only [Option.map_some, Option.some.injEq] at h; subst h; simp only [amt]; split <;> omega
        · cases h
      · cases hr : coinsAdd rest d t with
        | none => rw [hr] at h; cases h
        | some r' =>
          rw [hr] at h; simp only [Option.map_some, Option.some.injEq] at h
          subst h; simp only [amt]; rw [ih _ _ _ e hr]; omega

def fracPart (x : Int) : Int := x - x.tdiv P18 * P18

theorem truncGo_spec : ∀ (cs : DecCoins) (tc : List (String × Int)) (cc : DecCoins) (tc' : List (String × Int)) (cc' : DecCoins),
    truncGo tc cc cs = some (tc', cc') →
    (∀ d, amt tc' d = amt tc d + amtMap (fun x => x.tdiv P18) cs d) ∧
    (∀ d, amt cc' d = amt cc d + amtMap fracPart cs d) ∧
    (∀ c ∈ cs, 0 ≤ c.2) := by
  intro cs
  induction cs with
  | nil =>
    intro tc cc tc' cc' h
    simp only [truncGo, Option.some.injEq, Prod.mk.injEq] at h
    obtain ⟨rfl, rfl⟩ := h
    exact ⟨fun d => by simp [amtMap], fun d => by simp [amtMap], fun c hc => by cases hc⟩
  | cons c t ih =>
    obtain ⟨e, x⟩ := c
    intro tc cc tc' cc' h
    unfold truncGo at h
    split at h
    · cases h
    · next q hq =>
      have hq' := decTrunc_some hq
      split at h
      · cases h
      · next ch hch =>
        have hch' := decSub_some hch
        split at h
        · cases h
        · next hnn =>
          split at h
          · cases h
          · next tcn htc =>
            split at h
            · cases h
            · next ccn hcc =>
              obtain ⟨h1, h2, h3⟩ := ih _ _ _ _ h
              have hx : 0 ≤ x := by
                have := (tdiv_tmod_spec x P18 P18_pos).1
                have hm := (tdiv_tmod_spec x P18 P18_pos).2.2
                rcases Int.lt_or_le x 0 with hneg | hpos
                · exfalso
                  have := hm hneg
                  have hP : 0 < P18 := P18_pos
                  rw [← hq'] at *
                  -- q*P18 + tmod = x ; ch = x - q*P18 = tmod ≤ 0, q ≥ 0, ch ≥ 0 → ch = 0, q*P18 = x < 0 impossible
                  have hq0 : 0 ≤ q := by omega
                  have : 0 ≤ q * P18 := Int.mul_nonneg hq0 (by omega)
                  omega
                · exact hpos
              refine ⟨fun d => ?_, fun d => ?_, ?_⟩
              · rw [h1 d]; simp only [amtMap]
                split at htc
                · next hz => cases htc; rw [← hq', hz]; split <;> omega
                · rw [coinsAdd_amt _ _ _ _ d htc, ← hq']; omega
              · rw [h2 d]; simp only [amtMap, fracPart]
                split at hcc
                · next hz => cases hcc; rw [← hq', ← hch', hz]; split <;> omega
                · rw [add_amt _ _ _ d hcc, ← hq', ← hch']; simp only [amt]; omega
              · intro c hc
                rcases List.mem_cons.mp hc with rfl | hc
                · exact hx
                · exact h3 c hc

theorem fracPart_zero : fracPart 0 = 0 := by decide

/-- `TruncateDecimal` on a sorted set: per denom the integer part (toward zero = floor, all
amounts being non-negative) and the exact remainder. -/
theorem truncateDecimal_spec {cs : DecCoins} {tc : List (String × Int)} {dust : DecCoins} (hs : sorted cs = true)
    (h : truncateDecimal cs = some (tc, dust)) (d : String) :
    amt tc d = (amt cs d).tdiv P18 ∧ amt dust d = amt cs d - (amt cs d).tdiv P18 * P18 ∧
    amt tc d * P18 + amt dust d = amt cs d := by
  obtain ⟨h1, h2, _⟩ := truncGo_spec cs [] [] tc dust h
  have e1 := h1 d
  have e2 := h2 d
  rw [amtMap_sorted _ (by decide) hs] at e1
  rw [amtMap_sorted _ fracPart_zero hs] at e2
  simp only [amt, Int.zero_add] at e1 e2
  unfold fracPart at e2
  refine ⟨e1, e2, ?_⟩
  rw [e1, e2]; omega

end OsmoVerif.Accum
