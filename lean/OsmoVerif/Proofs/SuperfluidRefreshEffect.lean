/- C11, refresh at an exchange rate ≠ 1: what `mintOsmoTokensAndDelegate` / `forceUndelegateAndBurnOsmoTokens` do to the
staking state (the validator, the account's own delegation, nothing else), when the burn is accepted, and the share
invariant "the delegations of distinct accounts of a validator together hold at most the validator's shares". -/
import OsmoVerif.Proofs.SuperfluidRefreshStep

namespace OsmoVerif.Superfluid
open OsmoVerif.Num OsmoVerif.Spec

/-- the raw shares of an account's delegation (0 without a record). -/
def shOf (k : Stk) (key : AccKey) : Int :=
  match k.dsh key with
  | some x => x
  | none => 0

theorem shOf_of_some {k : Stk} {key : AccKey} {d : Int} (h : k.dsh key = some d) : shOf k key = d := by
  unfold shOf; rw [h]

/-! ## frames: only the account's own record and its validator change -/

theorem mintS_frame {s s' : SState} {a : Int} {key : AccKey} (h : mintS s a key = .ok s') :
    (∀ k', k' ≠ key → s'.k.dsh k' = s.k.dsh k') ∧ (∀ j, j ≠ key.2 → s'.k.val j = s.k.val j) := by
  obtain ⟨_, _, _, v', issued, d', _, _, hs'⟩ := mintS_ok h
  subst hs'
  constructor
  · intro k' hk'; simp [setDsh, setVal, updK, hk']
  · intro j hj; simp [setDsh, setVal, upd, hj]

theorem burnS_frame {s s' : SState} {a : Int} {key : AccKey} (h : burnS s a key = .ok s') :
    (∀ k', k' ≠ key → s'.k.dsh k' = s.k.dsh k') ∧ (∀ j, j ≠ key.2 → s'.k.val j = s.k.val j) := by
  rcases (burnS_ok h).2 with ⟨_, hs'⟩ | ⟨d, sh, d', v', got, _, _, _, _, _, _, hs'⟩
  · subst hs'; exact ⟨fun _ _ => rfl, fun _ _ => rfl⟩
  · subst hs'
    constructor
    · intro k' hk'; simp [setDsh, setVal, updK, hk']
    · intro j hj; simp [setDsh, setVal, upd, hj]

/-! ## effects -/

/-- **mint + delegate `a` tokens** on a validator with `T, S > 0`: `i = ⌊S·a/T⌋` shares are issued to the account. -/
theorem mintS_effect {s s' : SState} {a : Int} {key : AccKey}
    (hT : 0 < (s.k.val key.2).tokens) (hS : 0 < (s.k.val key.2).shares) (h : mintS s a key = .ok s') :
    ∃ i, i * (s.k.val key.2).tokens ≤ (s.k.val key.2).shares * a ∧
      (s.k.val key.2).shares * a < i * (s.k.val key.2).tokens + (s.k.val key.2).tokens ∧ 0 ≤ i ∧ 0 < a ∧
      s'.k.val key.2 = { tokens := (s.k.val key.2).tokens + a, shares := (s.k.val key.2).shares + i } ∧
      s'.k.dsh key = some (shOf s.k key + i) ∧
      s'.b = { s.b with supply := s.b.supply + a, offset := s.b.offset - a } := by
  obtain ⟨_, ha, _, v', issued, d', hadd, hd, hs'⟩ := mintS_ok h
  obtain ⟨a1, a2, a3⟩ := addTokensFromDel_ok hT hS hadd
  obtain ⟨b1, b2, b3⟩ := sharesFromTokens_floor hT (Int.le_of_lt hS) (Int.le_of_lt ha) a1
  have ed : d' = shOf s.k key + issued := by unfold Dec.add at hd; exact chkDec_eq hd
  subst hs'
  refine ⟨issued, b1, b2, b3, ha, ?_, ?_, rfl⟩
  · have : (setDsh (setVal s.k key.2 v') key (some d')).val key.2 = v' := by simp [setDsh, setVal, upd]
    rw [this]
    cases v' with
    | mk t sh => simp only at a2 a3; rw [a2, a3]
  · simp [setDsh, updK, ed]

/-- **force-undelegate + burn `a` requested tokens** from an account with a record of `d` shares (`0 ≤ d ≤ S`) on a
validator with `T, S > 0`: `sh = ⌊S·a/T⌋ ≤ d` shares are removed, `got ≤ a` tokens are paid out and burnt (the last share
of the validator takes all remaining tokens; otherwise `got = ⌊TokensFromShares(sh)⌋`). -/
theorem burnS_effect {s s' : SState} {a d : Int} {key : AccKey}
    (hT : 0 < (s.k.val key.2).tokens) (hS : 0 < (s.k.val key.2).shares) (hd : s.k.dsh key = some d)
    (h : burnS s a key = .ok s') :
    ∃ sh got, sh * (s.k.val key.2).tokens ≤ (s.k.val key.2).shares * a ∧
      (s.k.val key.2).shares * a < sh * (s.k.val key.2).tokens + (s.k.val key.2).tokens ∧ 0 ≤ sh ∧ sh ≤ d ∧ 0 ≤ a ∧
      s'.k.dsh key = (if d - sh = 0 then none else some (d - sh)) ∧
      s'.b = { s.b with supply := s.b.supply - got, offset := s.b.offset + got } ∧
      (((s.k.val key.2).shares - sh = 0 ∧ s'.k.val key.2 = { tokens := 0, shares := 0 } ∧ got = (s.k.val key.2).tokens) ∨
       ((s.k.val key.2).shares - sh ≠ 0 ∧
        s'.k.val key.2 = { tokens := (s.k.val key.2).tokens - got, shares := (s.k.val key.2).shares - sh } ∧
        got ≤ (s.k.val key.2).tokens ∧ 0 ≤ got ∧
        ∃ q tfs, q * (s.k.val key.2).shares ≤ sh * (s.k.val key.2).tokens * (P18 * P18) ∧
          sh * (s.k.val key.2).tokens * (P18 * P18) < q * (s.k.val key.2).shares + (s.k.val key.2).shares ∧
          IsHalfEven q P18 tfs ∧ got * P18 ≤ tfs ∧ tfs < got * P18 + P18)) := by
  rcases (burnS_ok h).2 with ⟨hn, _⟩ | ⟨d0, sh, d', v', got, hd0, ha, hval, hle, hsub, hrem, hs'⟩
  · rw [hd] at hn; cases hn
  · rw [hd] at hd0; injection hd0 with hd0; subst hd0
    obtain ⟨f1, f2, f3, f4, _⟩ := validateUnbondAmount_ok hT (Int.le_of_lt hS) ha hval
    have ed : d' = d - sh := by unfold Dec.sub at hsub; exact chkDec_eq hsub
    subst hs'
    have hvv : (setDsh (setVal s.k key.2 v') key (if d' = 0 then none else some d')).val key.2 = v' := by
      simp [setDsh, setVal, upd]
    refine ⟨sh, got, f1, f2, f3, f4, ha, ?_, rfl, ?_⟩
    · simp [setDsh, updK, ed]
    · rw [hvv]
      rcases removeDelShares_spec hrem with ⟨r1, r2, r3⟩ | ⟨r1, r2, r3, r4⟩
      · exact Or.inl ⟨r1, r2, r3⟩
      · obtain ⟨t, ht, g1, g2, g3⟩ := stakeTrunc_spec (Int.le_of_lt hT) hS f3 r2
        obtain ⟨q, q1, q2, hr, _, _⟩ := tokensFromShares_spec (Int.le_of_lt hT) hS f3 ht
        exact Or.inr ⟨r1, r3, r4, g3, q, t, q1, q2, hr, g1, g2⟩

/-- **when the burn is accepted**: for an account with `d` shares (`0 ≤ d ≤ S`), `S` a valid `Dec`, `a ≤ T` a valid
`Int`: `burnS` succeeds as soon as `S·a` is a valid `Dec` and the shares for `a` tokens do not exceed the delegation. -/
theorem burnS_accepts {s : SState} {a d : Int} {key : AccKey} (hv : key.2 ∈ s.b.validators)
    (hT : 0 < (s.k.val key.2).tokens) (hS : 0 < (s.k.val key.2).shares) (hd : s.k.dsh key = some d) (_hd0 : 0 ≤ d)
    (hdS : d ≤ (s.k.val key.2).shares) (hSr : (s.k.val key.2).shares ≤ decUpper) (ha : 0 ≤ a) (ha2 : a < I256)
    (hr : (s.k.val key.2).shares * a ≤ decUpper)
    (hacc : (s.k.val key.2).shares * a < (d + 1) * (s.k.val key.2).tokens) :
    ∃ s', burnS s a key = .ok s' := by
  obtain ⟨sh, hsh⟩ := validateUnbondAmount_some (d := d) hT (Int.le_of_lt hS) ha hr hacc
  obtain ⟨f1, f2, f3, f4, _⟩ := validateUnbondAmount_ok hT (Int.le_of_lt hS) ha hsh
  obtain ⟨r, hrr⟩ := removeDelShares_some (Int.le_of_lt hT) hS f3 (by omega) hSr f1 hr ha2
  unfold burnS
  rw [if_neg (by simpa using hv), hd]
  dsimp only
  rw [if_neg (by omega), hsh]
  dsimp only
  rw [if_neg (by omega)]
  unfold Dec.sub
  rw [chkDec_of_range (by omega) (by omega), hrr]
  exact ⟨_, rfl⟩

/-- **… and exactly when it is rejected**: with a delegation record of `d` shares the burn of `a ≥ 0` tokens is
an error — "invalid shares amount", only logged by the refresh — whenever the shares for `a` tokens exceed the
delegation, `S·a ≥ (d+1)·T`; and a non-panic error of `burnS` on a healthy validator is this one. -/
theorem burnS_rejects {s s' : SState} {a d : Int} {key : AccKey}
    (hT : 0 < (s.k.val key.2).tokens) (hS : 0 < (s.k.val key.2).shares) (hd : s.k.dsh key = some d) (ha : 0 ≤ a)
    (hrej : (d + 1) * (s.k.val key.2).tokens ≤ (s.k.val key.2).shares * a) : burnS s a key ≠ .ok s' := by
  intro h
  rcases (burnS_ok h).2 with ⟨hn, _⟩ | ⟨d0, sh, d', v', got, hd0, _, hval, _⟩
  · rw [hd] at hn; cases hn
  · rw [hd] at hd0; injection hd0 with hd0; subst hd0
    exact validateUnbondAmount_rejects hT (Int.le_of_lt hS) ha hrej hval

theorem burnS_error_is_rejection {s : SState} {a d : Int} {key : AccKey} {err : Err} (hv : key.2 ∈ s.b.validators)
    (hT : 0 < (s.k.val key.2).tokens) (hS : 0 < (s.k.val key.2).shares) (hd : s.k.dsh key = some d) (hd0 : 0 ≤ d)
    (hdS : d ≤ (s.k.val key.2).shares) (hSr : (s.k.val key.2).shares ≤ decUpper) (ha : 0 ≤ a) (ha2 : a < I256)
    (h : burnS s a key = .error err) (hne : err ≠ .panic) :
    (d + 1) * (s.k.val key.2).tokens ≤ (s.k.val key.2).shares * a := by
  by_contra hacc
  -- `S·a` in range: otherwise `ValidateUnbondAmount` panics
  have hr : (s.k.val key.2).shares * a ≤ decUpper := by
    by_contra hh
    apply hne
    unfold burnS at h
    rw [if_neg (by simpa using hv), hd] at h
    dsimp only at h
    rw [if_neg (by omega)] at h
    have : validateUnbondAmount (s.k.val key.2) d a = .error .panic := by
      unfold validateUnbondAmount
      rw [if_neg (by omega)]
      unfold Val.sharesFromTokens Dec.mulInt chkDec
      rw [if_neg (by omega)]
    rw [this] at h
    injection h with h
    exact h.symm
  obtain ⟨s', hs'⟩ := burnS_accepts hv hT hS hd hd0 hdS hSr ha ha2 hr (by omega)
  rw [hs'] at h; cases h

theorem powLimit_lt_I256 : powLimit < I256 := by decide

/-- **mint + delegate never fails on a healthy validator inside the 256-bit range whose tokens stay below `2⁶³` power
units.** -/
theorem mintS_accepts {s : SState} {a : Int} {key : AccKey} (hv : key.2 ∈ s.b.validators) (ha : 0 < a)
    (hT : 0 < (s.k.val key.2).tokens) (hS : 0 < (s.k.val key.2).shares)
    (hd0 : 0 ≤ shOf s.k key) (hdS : shOf s.k key ≤ (s.k.val key.2).shares)
    (hTr : (s.k.val key.2).tokens + a < powLimit) (hSr : (s.k.val key.2).shares * (a + 1) ≤ decUpper) :
    ∃ s', mintS s a key = .ok s' := by
  have hTr' : (s.k.val key.2).tokens + a < I256 := by have := powLimit_lt_I256; omega
  have hSa : (s.k.val key.2).shares * a ≤ decUpper := by
    rw [Int.mul_add, Int.mul_one] at hSr; omega
  have hn0 : 0 ≤ (s.k.val key.2).shares * a := Int.mul_nonneg (Int.le_of_lt hS) (Int.le_of_lt ha)
  obtain ⟨f1, f2, f3⟩ := tdiv_floor_nonneg hT hn0
  have hle : ((s.k.val key.2).shares * a).tdiv (s.k.val key.2).tokens ≤ (s.k.val key.2).shares * a := by
    have := Int.mul_le_mul_of_nonneg_left (show 1 ≤ (s.k.val key.2).tokens by omega) f3
    rw [Int.mul_one] at this
    omega
  have hadd : ∃ v' i, (s.k.val key.2).addTokensFromDel a = some (v', i) ∧ v'.tokens = (s.k.val key.2).tokens + a ∧
      0 ≤ i ∧ i ≤ (s.k.val key.2).shares * a := by
    unfold Val.addTokensFromDel
    dsimp only
    rw [if_neg (by omega), if_neg (by omega)]
    unfold Val.sharesFromTokens Dec.mulInt
    rw [chkDec_of_range hn0 hSa]
    dsimp only
    unfold Dec.quoInt
    rw [if_neg (by omega)]
    dsimp only
    unfold Dec.add
    rw [chkInt_of_range (by omega) hTr', chkDec_of_range (by omega) (by rw [Int.mul_add, Int.mul_one] at hSr; omega)]
    exact ⟨_, _, rfl, rfl, f3, hle⟩
  obtain ⟨v', i, hadd, hv't, hi0, hi1⟩ := hadd
  have hpow : ¬ (powerOverflows v'.tokens = true) := by
    rw [powerOverflows_iff, hv't]; omega
  unfold mintS
  rw [if_neg (by simpa using hv), if_neg (by omega)]
  dsimp only
  rw [if_neg (by omega), hadd]
  dsimp only
  rw [if_neg hpow]
  cases hk : s.k.dsh key with
  | none =>
    have e : shOf s.k key = 0 := by unfold shOf; rw [hk]
    dsimp only
    unfold Dec.add
    rw [chkDec_of_range (by omega) (by rw [Int.mul_add, Int.mul_one] at hSr; omega)]
    exact ⟨_, rfl⟩
  | some x =>
    have e : shOf s.k key = x := shOf_of_some hk
    dsimp only
    unfold Dec.add
    rw [chkDec_of_range (by omega) (by rw [Int.mul_add, Int.mul_one] at hSr; omega)]
    exact ⟨_, rfl⟩

/-! ## the share invariant -/

def sumSh (k : Stk) : List AccKey → Int
  | [] => 0
  | x :: r => shOf k x + sumSh k r

/-- for validator `v`: every delegation of an account of `v` holds a non-negative number of shares, and the delegations
of DISTINCT intermediary accounts of `v` together hold at most `v`'s `DelegatorShares` (the rest belongs to other
delegators). -/
def ShareInvV (k : Stk) (v : Nat) : Prop :=
  (∀ key : AccKey, key.2 = v → 0 ≤ shOf k key) ∧
  ∀ (L : List AccKey), L.Nodup → (∀ x, x ∈ L → x.2 = v) → sumSh k L ≤ (k.val v).shares

/-- … for every validator. -/
def ShareInv (k : Stk) : Prop := ∀ v, ShareInvV k v

theorem ShareInvV.le {k : Stk} {key : AccKey} (h : ShareInvV k key.2) : shOf k key ≤ (k.val key.2).shares := by
  have := h.2 [key] (by simp) (by intro x hx; simp only [List.mem_singleton] at hx; rw [hx])
  simpa [sumSh] using this

theorem ShareInvV.le2 {k : Stk} {k1 k2 : AccKey} (h : ShareInvV k k2.2) (hne : k1 ≠ k2) (hv : k1.2 = k2.2) :
    shOf k k1 + shOf k k2 ≤ (k.val k2.2).shares := by
  have := h.2 [k1, k2] (by simp [hne]) (by
    intro x hx
    simp only [List.mem_cons, List.not_mem_nil, or_false] at hx
    rcases hx with hx | hx
    · rw [hx, hv]
    · rw [hx])
  simpa [sumSh] using this

theorem sumSh_congr {k k' : Stk} : ∀ (L : List AccKey), (∀ x, x ∈ L → shOf k' x = shOf k x) → sumSh k' L = sumSh k L
  | [], _ => rfl
  | x :: r, h => by
    unfold sumSh
    rw [h x (List.mem_cons_self ..), sumSh_congr r (fun y hy => h y (List.mem_cons_of_mem _ hy))]

/-- changing one account's shares by `δ` changes the sum over a duplicate-free list by `δ` if the account is listed. -/
theorem sumSh_update {k k' : Stk} {key : AccKey} {δ : Int} (hkey : shOf k' key = shOf k key + δ)
    (hoth : ∀ x, x ≠ key → shOf k' x = shOf k x) :
    ∀ (L : List AccKey), L.Nodup → sumSh k' L = sumSh k L + (if key ∈ L then δ else 0)
  | [], _ => by simp [sumSh]
  | x :: r, hnd => by
    have hnd' := List.nodup_cons.mp hnd
    unfold sumSh
    rw [sumSh_update hkey hoth r hnd'.2]
    by_cases hx : x = key
    · subst hx
      rw [hkey, if_neg hnd'.1, if_pos (List.mem_cons_self ..)]
      omega
    · rw [hoth x hx]
      by_cases hm : key ∈ r
      · rw [if_pos hm, if_pos (List.mem_cons_of_mem _ hm)]; omega
      · rw [if_neg hm, if_neg (by
          intro hc
          rcases List.mem_cons.mp hc with hc | hc
          · exact hx hc.symm
          · exact hm hc)]
        omega

theorem shOf_ite {k : Stk} {key : AccKey} {x : Int} (h : k.dsh key = (if x = 0 then none else some x)) : shOf k key = x := by
  unfold shOf; rw [h]
  split <;> simp_all

theorem shOf_frame {k k' : Stk} {key : AccKey} (h : ∀ x : AccKey, x ≠ key → k'.dsh x = k.dsh x) :
    ∀ x, x ≠ key → shOf k' x = shOf k x := by
  intro x hx; unfold shOf; rw [h x hx]

/-- a change at ANOTHER validator leaves `v`'s invariant alone. -/
theorem ShareInvV.frame {k k' : Stk} {key : AccKey} {v : Nat} (h : ShareInvV k v) (hv : key.2 ≠ v)
    (hoth : ∀ x, x ≠ key → shOf k' x = shOf k x) (hvoth : ∀ j, j ≠ key.2 → k'.val j = k.val j) : ShareInvV k' v := by
  have hk : ∀ x : AccKey, x.2 = v → shOf k' x = shOf k x := by
    intro x hx; apply hoth; intro hc; rw [hc] at hx; exact hv hx
  constructor
  · intro x hx; rw [hk x hx]; exact h.1 x hx
  · intro L hnd hL
    rw [sumSh_congr L (fun x hx => hk x (hL x hx)), hvoth v (fun hc => hv hc.symm)]
    exact h.2 L hnd hL

/-- the invariant of the account's own validator is preserved by one change of the account's shares and the validator's
shares by the same `δ` (`δ ≥ −` the account's shares). -/
theorem ShareInvV.step {k k' : Stk} {key : AccKey} {δ : Int} (h : ShareInvV k key.2)
    (hkey : shOf k' key = shOf k key + δ) (hδ : 0 ≤ shOf k key + δ)
    (hoth : ∀ x, x ≠ key → shOf k' x = shOf k x)
    (hval : (k'.val key.2).shares = (k.val key.2).shares + δ) :
    ShareInvV k' key.2 := by
  constructor
  · intro x hxv
    by_cases hx : x = key
    · subst hx; rw [hkey]; exact hδ
    · rw [hoth x hx]; exact h.1 x hxv
  · intro L hnd hL
    rw [sumSh_update hkey hoth L hnd, hval]
    by_cases hm : key ∈ L
    · rw [if_pos hm]; have := h.2 L hnd hL; omega
    · rw [if_neg hm]
      by_cases hδ0 : 0 ≤ δ
      · have := h.2 L hnd hL; omega
      · -- a removal: count the account in
        have := h.2 (key :: L) (List.nodup_cons.mpr ⟨hm, hnd⟩) (by
          intro x hx
          rcases List.mem_cons.mp hx with hx | hx
          · rw [hx]
          · exact hL x hx)
        unfold sumSh at this
        omega

theorem shareInvV_mintS {s s' : SState} {a : Int} {key : AccKey} {v : Nat} (hI : ShareInvV s.k v)
    (hH : key.2 = v → 0 < (s.k.val key.2).tokens ∧ 0 < (s.k.val key.2).shares) (h : mintS s a key = .ok s') :
    ShareInvV s'.k v := by
  obtain ⟨f1, f2⟩ := mintS_frame h
  by_cases hv : key.2 = v
  · obtain ⟨hT, hS⟩ := hH hv
    subst hv
    obtain ⟨i, _, _, hi, _, hv', hd, _⟩ := mintS_effect hT hS h
    exact hI.step (δ := i) (by rw [shOf_of_some hd]) (by have := hI.1 key rfl; omega) (shOf_frame f1) (by rw [hv'])
  · exact hI.frame hv (shOf_frame f1) f2

theorem shareInvV_burnS {s s' : SState} {a : Int} {key : AccKey} {v : Nat} (hI : ShareInvV s.k v)
    (hH : key.2 = v → 0 < (s.k.val key.2).tokens ∧ 0 < (s.k.val key.2).shares) (h : burnS s a key = .ok s') :
    ShareInvV s'.k v := by
  obtain ⟨f1, f2⟩ := burnS_frame h
  by_cases hv : key.2 = v
  · obtain ⟨hT, hS⟩ := hH hv
    subst hv
    cases hd : s.k.dsh key with
    | none =>
      rcases (burnS_ok h).2 with ⟨_, hs'⟩ | ⟨d0, _, _, _, _, hd0, _⟩
      · subst hs'; exact hI
      · rw [hd] at hd0; cases hd0
    | some d =>
      obtain ⟨sh, got, _, _, h0, hle, _, hdd, _, hvv⟩ := burnS_effect hT hS hd h
      have e1 : shOf s.k key = d := shOf_of_some hd
      refine hI.step (δ := -sh) (by rw [shOf_ite hdd, e1]; omega) (by rw [e1]; omega) (shOf_frame f1) ?_
      rcases hvv with ⟨r1, r2, _⟩ | ⟨_, r2, _⟩
      · rw [r2]; show (0 : Int) = _; omega
      · rw [r2]; show _ - sh = _; omega
  · exact hI.frame hv (shOf_frame f1) f2


/-! ## what the marker primitives leave alone -/

theorem createSynth_bank {b b' : State} {id : Nat} {kind : SKind} {key : AccKey} (h : createSynth b id kind key = .ok b') :
    b'.supply = b.supply ∧ b'.validators = b.validators ∧ b'.mult = b.mult ∧ b'.assets = b.assets ∧
    b'.riskFactor = b.riskFactor := by
  obtain ⟨_, _, _, _, _, e⟩ := createSynth_ok h
  subst e; exact ⟨rfl, rfl, rfl, rfl, rfl⟩

theorem deleteSynth_bank {b b' : State} {id : Nat} {kind : SKind} {key : AccKey} (h : deleteSynth b id kind key = .ok b') :
    b'.supply = b.supply ∧ b'.validators = b.validators ∧ b'.mult = b.mult ∧ b'.assets = b.assets ∧
    b'.riskFactor = b.riskFactor := by
  obtain ⟨_, _, _, _, e⟩ := deleteSynth_ok h
  subst e; exact ⟨rfl, rfl, rfl, rfl, rfl⟩

theorem getOrCreateAcc_bank (b : State) (key : AccKey) :
    (getOrCreateAcc b key).supply = b.supply ∧ (getOrCreateAcc b key).validators = b.validators ∧
    (getOrCreateAcc b key).mult = b.mult ∧ (getOrCreateAcc b key).assets = b.assets ∧
    (getOrCreateAcc b key).riskFactor = b.riskFactor := by
  unfold getOrCreateAcc
  split <;> exact ⟨rfl, rfl, rfl, rfl, rfl⟩

theorem osmoTokens_congr {b b' : State} (hm : b'.mult = b.mult) (ha : b'.assets = b.assets) (hr : b'.riskFactor = b.riskFactor)
    (d : Nat) (x : Int) : osmoTokens b' d x = osmoTokens b d x := by
  unfold osmoTokens; rw [hm, ha, hr]

end OsmoVerif.Superfluid
