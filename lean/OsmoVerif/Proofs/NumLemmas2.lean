/- Sign-general quotient lemmas. Core only. -/
import OsmoVerif.Proofs.NumLemmas

namespace OsmoVerif.Num
open OsmoVerif.Spec

/-- numerator of `n / b` after moving the sign of `b` into it: `n/b = sgnMul b n / |b|`. -/
def sgnMul (b n : Int) : Int := if b < 0 then -n else n

theorem sgnMul_of_neg {b : Int} (n : Int) (h : b < 0) : sgnMul b n = -n := by unfold sgnMul; rw [if_pos h]
theorem sgnMul_of_pos {b : Int} (n : Int) (h : 0 < b) : sgnMul b n = n := by
  unfold sgnMul; rw [if_neg (by omega)]

theorem tdiv_general_isTrunc (n b : Int) (hb : b ≠ 0) :
    IsTrunc (sgnMul b n) (b.natAbs : Int) (n.tdiv b) := by
  rcases Int.lt_or_le b 0 with h | h
  · rw [sgnMul_of_neg n h]
    have e : (b.natAbs : Int) = -b := by omega
    rw [e]
    have : n.tdiv b = (-n).tdiv (-b) := by rw [Int.neg_tdiv, Int.tdiv_neg, Int.neg_neg]
    rw [this]
    exact tdiv_isTrunc (-n) (-b) (by omega)
  · rw [sgnMul_of_pos n (by omega)]
    have e : (b.natAbs : Int) = b := by omega
    rw [e]
    exact tdiv_isTrunc n b (by omega)

theorem incRemDiv_isCeil (n b : Int) (hb : b ≠ 0) :
    IsCeil (sgnMul b n) (b.natAbs : Int) (incRemDiv (n.tmod b) b (n.tdiv b)) := by
  unfold incRemDiv IsCeil
  rcases Int.lt_or_le b 0 with h | h
  · rw [sgnMul_of_neg n h]
    have e : (b.natAbs : Int) = -b := by omega
    rw [e]
    have hs : b.sign = -1 := Int.sign_eq_neg_one_of_neg h
    obtain ⟨e1, hp, hn⟩ := tdiv_tmod_spec (-n) (-b) (by omega)
    have t1 : (-n).tdiv (-b) = n.tdiv b := by rw [Int.neg_tdiv, Int.tdiv_neg, Int.neg_neg]
    have t2 : (-n).tmod (-b) = -(n.tmod b) := by rw [Int.tmod_neg, Int.neg_tmod]
    rw [t1, t2] at e1
    rw [t2] at hp hn
    generalize n.tdiv b = q at *
    generalize n.tmod b = r at *
    rw [hs]
    rcases Int.lt_trichotomy r 0 with hr | hr | hr
    · have : r.sign = -1 := Int.sign_eq_neg_one_of_neg hr
      rw [if_pos ⟨by omega, this⟩, Int.sub_mul, Int.add_mul]
      have := hp; have := hn; omega
    · subst hr
      rw [if_neg (by simp), Int.sub_mul]
      omega
    · have : r.sign = 1 := Int.sign_eq_one_of_pos hr
      rw [if_neg (by omega), Int.sub_mul]
      have := hp; have := hn; omega
  · have hpos : 0 < b := by omega
    rw [sgnMul_of_pos n hpos]
    have e : (b.natAbs : Int) = b := by omega
    rw [e]
    have hs : b.sign = 1 := Int.sign_eq_one_of_pos hpos
    obtain ⟨e1, hp, hn⟩ := tdiv_tmod_spec n b hpos
    generalize n.tdiv b = q at *
    generalize n.tmod b = r at *
    rw [hs]
    rcases Int.lt_trichotomy r 0 with hr | hr | hr
    · have : r.sign = -1 := Int.sign_eq_neg_one_of_neg hr
      rw [if_neg (by omega), Int.sub_mul]
      have := hp; have := hn; omega
    · subst hr
      rw [if_neg (by simp), Int.sub_mul]
      omega
    · have : r.sign = 1 := Int.sign_eq_one_of_pos hr
      rw [if_pos ⟨by omega, this⟩, Int.sub_mul, Int.add_mul]
      have := hp; have := hn; omega

end OsmoVerif.Num
