/-
C03 with a caller-supplied price limit, part 3 (the loop).  Generalises Proofs/CLCurveReach.lean from the
execution/estimate limit to ANY sqrt-price limit that passes `ValidateSqrtPrice`: by induction over the loop
iterations, from the C07 invariants,
* every step starts on the swap side of the limit (`LimSide`), its target — the next initialised tick's sqrt price
  clamped by the limit — lies between the current price and that tick's price, and the side conditions `StepOK` hold;
* a step may end BEYOND a target that is the limit (the loop's overshoot guard only looks at the tick's price):
  then nothing (more than one raw unit) remains and the loop stops — so only the LAST step can pass the limit.
`StepGoodL` is `CLSolv.StepGood` without "the step does not pass its target".
-/
import OsmoVerif.Proofs.CLLimit2

namespace OsmoVerif.CLLimit
open OsmoVerif.CLPool OsmoVerif.CLBook OsmoVerif.CLSolv OsmoVerif.CL OsmoVerif.Num OsmoVerif.Tick OsmoVerif.Gen
open OsmoVerif.Spec OsmoVerif.Props

/-- the sqrt price `sp` has not passed the limit: at or above it going down, at or below it going up. -/
def LimSide (zfo : Bool) (limit sp : Int) : Prop := if zfo then limit ≤ sp else sp ≤ limit

/-- what the C07 invariants give for one step of a swap with an arbitrary valid limit. -/
def StepGoodL (og zfo : Bool) (sp target liq next : Int) : Prop :=
  StepOK og zfo sp target liq ∧ 0 < sp ∧ 0 < next ∧
  (if zfo then 1000000000000000000000000000000 ≤ target ∧ target ≤ sp ∧
      1000000000000000000000000000000 ≤ next ∧ next ≤ sp
    else sp ≤ target ∧ sp ≤ next)

/-- `StepGoodL` for a recorded step, which moreover starts on the swap side of the limit and whose target does not
lie beyond the limit. -/
def RecGoodL (og zfo : Bool) (limit : Int) (e : StepRec) : Prop :=
  StepGoodL og zfo e.st.pool.sqrtPrice e.target e.st.pool.liquidity e.res.sqrtPriceNext ∧
  LimSide zfo limit e.st.pool.sqrtPrice ∧ LimSide zfo limit e.target

theorem RecGoodL.ok {og zfo : Bool} {limit : Int} {e : StepRec} (h : RecGoodL og zfo limit e) :
    StepOK og zfo e.st.pool.sqrtPrice e.target e.st.pool.liquidity := h.1.1

/-- the stronger property of the execution-limit theorems implies this one. -/
theorem StepGoodL.of_good {og zfo : Bool} {sp target liq next : Int} (h : StepGood og zfo sp target liq next) :
    StepGoodL og zfo sp target liq next := by
  obtain ⟨a, b, c, d⟩ := h
  refine ⟨a, b, c, ?_⟩
  cases zfo
  · simp only [Bool.false_eq_true, ↓reduceIte] at d ⊢; omega
  · simp only [↓reduceIte] at d ⊢; omega

/-! ## the target with an arbitrary limit -/

theorem target_facts_lim {zfo : Bool} {limit spacing : Int} {tl : Ticks} {ps : List Position} {pool : PoolSt}
    {nt net : Int} {rest : Ticks} {nextSp : Int}
    (hok : TicksOK spacing tl ps) (hside : LimSide zfo limit pool.sqrtPrice)
    (ha : Agree spacing pool.sqrtPrice pool.tick) (hla : LA zfo tl ps pool ((nt, net) :: rest))
    (hsp : tickToSqrtPrice nt = some nextSp) :
    (if zfo then 1000000000000000000000000000000 ≤ nextSp ∧ nextSp ≤ targetOf zfo limit nextSp ∧
        limit ≤ targetOf zfo limit nextSp ∧ targetOf zfo limit nextSp ≤ pool.sqrtPrice
      else pool.sqrtPrice ≤ targetOf zfo limit nextSp ∧ targetOf zfo limit nextSp ≤ nextSp ∧
        targetOf zfo limit nextSp ≤ limit) ∧
    (nt, net) ∈ tl ∧
    (if zfo then nt ≤ pool.tick ∧ ∀ y ∈ tl, y.1 ≤ pool.tick → y.1 ≤ nt
      else nt > pool.tick ∧ ∀ y ∈ tl, y.1 > pool.tick → nt ≤ y.1) := by
  have hahead := hla.2
  unfold LimSide at hside
  unfold targetOf
  cases zfo
  · rw [ticksAhead_up] at hahead
    obtain ⟨f1, f2, f3, _⟩ := filter_up_head hok.sorted hahead.symm
    have hdir := (ha nt nextSp (hok.aligned _ f1) hsp).2 f2
    simp only [Bool.false_eq_true, ↓reduceIte] at hside ⊢
    refine ⟨?_, f1, f2, f3⟩
    split <;> omega
  · rw [ticksAhead_down] at hahead
    have hsd : tl.reverse.Pairwise (fun a b => a.1 > b.1) := by
      rw [List.pairwise_reverse]; exact hok.sorted
    obtain ⟨f1, f2, f3, _⟩ := filter_down_head hsd hahead.symm
    have f1' := List.mem_reverse.mp f1
    have hmin := tts_mono C14Mono.regime_boundary_step.2 hsp (hok.bounds _ f1').1
    have hdir := (ha nt nextSp (hok.aligned _ f1') hsp).1 f2
    simp only [↓reduceIte] at hside ⊢
    refine ⟨?_, f1', f2, fun y hy => f3 y (List.mem_reverse.mpr hy)⟩
    split <;> omega

/-! ## one iteration never moves against the swap direction, whatever the limit -/

theorem body_mono_lim {og zfo : Bool} {spf limit : Int} {st st' : SwapSt} {nt net : Int} {rest ahead' : Ticks} {c : Bool}
    (hb : BodyRel og zfo spf limit st nt net rest st' ahead' c) (hspf : SpfOK spf)
    (hrem : st.remaining > 1) (hliq : 0 ≤ st.pool.liquidity) (hpos : 0 < st.pool.sqrtPrice)
    (htarget : ∀ nextSp, tickToSqrtPrice nt = some nextSp →
      (if zfo then 1000000000000000000000000000000 ≤ st.pool.sqrtPrice ∧ targetOf zfo limit nextSp ≤ st.pool.sqrtPrice
       else st.pool.sqrtPrice ≤ targetOf zfo limit nextSp)) :
    (if zfo then st'.pool.sqrtPrice ≤ st.pool.sqrtPrice else st.pool.sqrtPrice ≤ st'.pool.sqrtPrice) := by
  have hpos' := body_pos hb hpos
  obtain ⟨nextSp, r, hsp, hstep, hr, _⟩ := hb
  have ht2 := htarget nextSp hsp
  unfold targetOf at ht2
  rw [← hr] at hpos' ⊢
  obtain ⟨hs0, hs1⟩ := hspf
  cases og
  · -- in given out
    simp only [Bool.false_eq_true, ↓reduceIte] at hstep
    obtain ⟨remBig, hrb, hcase⟩ := CLBook.stepInGivenOut_next hstep
    have erb : remBig = st.remaining * Pdiff := by
      unfold BigDec.fromDec at hrb; injection hrb with hrb; exact hrb.symm
    rcases hcase with h | ⟨hz, h⟩ | ⟨hz, l, hl, h⟩
    · rw [h]; cases zfo
      · simpa using ht2
      · simp only [↓reduceIte] at ht2 ⊢; exact ht2.2
    · subst hz
      simp only [↓reduceIte]
      refine next1Out_le h hliq ?_
      rw [erb]; exact Int.mul_nonneg (by omega) (Int.le_of_lt Pdiff_pos)
    · subst hz
      simp only [Bool.false_eq_true, ↓reduceIte]
      have el : l = st.pool.liquidity * Pdiff := by
        unfold BigDec.fromDec at hl; injection hl with hl; exact hl.symm
      have := next0Out_ge h (by rw [el]; exact Int.mul_nonneg hliq (Int.le_of_lt Pdiff_pos)) hpos (by omega)
      omega
  · -- out given in
    simp only [↓reduceIte] at hstep
    obtain ⟨oneMinus, hom, hcase⟩ := CLBook.stepOutGivenIn_next hstep
    have eom := Dec.sub_some hom
    have hamt : 1000000000000 ≤ st.remaining * oneMinus := by
      have : (2 : Int) * 500000000000 ≤ st.remaining * oneMinus :=
        Int.mul_le_mul (by omega) (by rw [eom, P18_val] at *; omega) (by omega) (by omega)
      omega
    rcases hcase with h | ⟨hz, l, hl, h⟩ | ⟨hz, h⟩
    · rw [h]; cases zfo
      · simpa using ht2
      · simp only [↓reduceIte] at ht2 ⊢; exact ht2.2
    · subst hz
      simp only [↓reduceIte] at ht2 ⊢
      have el : l = st.pool.liquidity * Pdiff := by
        unfold BigDec.fromDec at hl; injection hl with hl; exact hl.symm
      exact next0In_le h (by rw [el]; exact Int.mul_nonneg hliq (Int.le_of_lt Pdiff_pos)) (by omega) hamt
    · subst hz
      simp only [Bool.false_eq_true, ↓reduceIte]
      exact next1In_ge h hliq (by omega)

/-! ## buckets with liquidity lie at sqrt prices ≥ 10^-6 -/

theorem floor_of_liq_pos {spacing : Int} {tl : Ticks} {ps : List Position} {sp tick liq : Int}
    (hok : TicksOK spacing tl ps) (ha : Agree spacing sp tick) (hliq : liq = activeAt ps tick) (hpos : 0 < liq) :
    1000000000000000000000000000000 ≤ sp := by
  have hex : ∃ q ∈ ps, q.lower ≤ tick ∧ tick < q.upper := by
    apply Classical.byContradiction
    intro hno
    have : activeAt ps tick = 0 := by
      unfold activeAt
      apply sumBy_eq_zero
      intro q hq
      simp only [onPos, actW]
      split
      · rename_i hin; exact absurd ⟨q, hq, hin⟩ hno
      · rfl
    omega
  obtain ⟨q, hq, hlo, _⟩ := hex
  obtain ⟨aL, ⟨xL, hxL, eL⟩, sL, hsL⟩ := used_tick_facts hok ⟨q, hq, Or.inl rfl⟩
  have h1 := (ha q.lower sL aL hsL).1 hlo
  have h2 := tts_mono C14Mono.regime_boundary_step.2 hsL (by rw [← eL]; exact (hok.bounds xL hxL).1)
  omega

/-- an in-given-out step in an empty bucket goes straight to the target. -/
theorem stepInGivenOut_zero_liq {zfo : Bool} {spf sp target rem : Int} {r : StepResult}
    (hsp : 0 < sp) (ht : 0 < target) (hrem : 0 ≤ rem)
    (h : stepInGivenOut zfo spf sp target 0 rem = some r) : r.sqrtPriceNext = target := by
  obtain ⟨x, y, out0, -, -, -, -, -, h0, hn⟩ := stepInGivenOut_decomp h
  have := deltaOut_zero_liq ht hsp h0
  subst this
  have hrl : 0 ≤ rem * Pdiff := Int.mul_nonneg hrem Pdiff_nonneg
  rw [if_pos hrl] at hn
  injection hn with e; exact e.symm

/-! ## one iteration -/

theorem body_good_lim {og zfo : Bool} {spf limit spacing : Int} {tl : Ticks} {ps : List Position}
    {st st1 : SwapSt} {nt net : Int} {rest ahead1 : Ticks} {c : Bool}
    (hok : TicksOK spacing tl ps) (hspf : SpfOK spf) (hside : LimSide zfo limit st.pool.sqrtPrice)
    (hb : loopBody og zfo spf limit st ((nt, net) :: rest) = some (st1, ahead1, c))
    (hrem : st.remaining > 1) (ha : Agree spacing st.pool.sqrtPrice st.pool.tick) (hpos : 0 < st.pool.sqrtPrice)
    (hla : LA zfo tl ps st.pool ((nt, net) :: rest)) :
    Agree spacing st1.pool.sqrtPrice st1.pool.tick ∧ 0 < st1.pool.sqrtPrice ∧ LA zfo tl ps st1.pool ahead1 ∧
    (LimSide zfo limit st1.pool.sqrtPrice ∨ st1.remaining ≤ 1) ∧
    ∃ target r, TargetFrom zfo limit target ∧
      stepOf og zfo spf st.pool.sqrtPrice target st.pool.liquidity st.remaining = some r ∧
      Advances og st r st1 ∧ StepGoodL og zfo st.pool.sqrtPrice target st.pool.liquidity r.sqrtPriceNext ∧
      LimSide zfo limit target ∧
      -- the step ended within its target, or consumed what remained
      ((if zfo then target ≤ r.sqrtPriceNext else r.sqrtPriceNext ≤ target) ∨
        (st1.remaining ≤ 1 ∧ (og = true → st1.remaining ≤ 0 ∧ (spf = 0 → st1.remaining < 0)))) := by
  have hrel := loopBody_spec hb
  have hliq : 0 ≤ st.pool.liquidity := by
    rw [hla.1]
    apply sumBy_nonneg
    intro q hq
    have := hok.liqPos q hq
    simp only [onPos, actW]; split <;> omega
  have hfloor : 0 < st.pool.liquidity → 1000000000000000000000000000000 ≤ st.pool.sqrtPrice :=
    fun hp => floor_of_liq_pos hok ha hla.1 hp
  have hmono : (if zfo then st1.pool.sqrtPrice ≤ st.pool.sqrtPrice else st.pool.sqrtPrice ≤ st1.pool.sqrtPrice) := by
    refine body_mono_lim hrel hspf hrem hliq hpos ?_
    intro nextSp hsp
    obtain ⟨t1, _, _⟩ := target_facts_lim hok hside ha hla hsp
    cases zfo
    · simp only [Bool.false_eq_true, ↓reduceIte] at t1 ⊢; exact t1.1
    · simp only [↓reduceIte] at t1 ⊢; exact ⟨by omega, t1.2.2.2⟩
  have hagree := body_agree hrel ha
  have hpos1 := body_pos hrel hpos
  have hla1 := body_LA hok hrel ha hla hmono
  obtain ⟨nextTick, net', rest', nextSp, r, hcons, hsp, hstep, hadv⟩ := loopBody_decomp hb
  have ent : nt = nextTick := by injection hcons with h1 _; injection h1
  subst ent
  obtain ⟨nextSp2, r2, hsp2, hstep2, hr2, hcase⟩ := hrel
  have ens : nextSp2 = nextSp := by rw [hsp] at hsp2; injection hsp2 with e; exact e.symm
  subst ens
  have er : r2 = r := by
    unfold stepOf targetOf at hstep
    rw [hstep] at hstep2; injection hstep2 with e; exact e.symm
  subst er
  obtain ⟨t1, _, _⟩ := target_facts_lim hok hside ha hla hsp
  -- the guard: the step did not pass the tick's sqrt price
  have hguard : if zfo then nextSp2 ≤ st1.pool.sqrtPrice else st1.pool.sqrtPrice ≤ nextSp2 := by
    rcases hcase with ⟨_, e1, _, _, _⟩ | ⟨_, _, hg, _, _, _⟩
    · cases zfo
      · simp only [Bool.false_eq_true, ↓reduceIte]; omega
      · simp only [↓reduceIte]; omega
    · cases zfo
      · simp only [Bool.false_eq_true, ↓reduceIte] at hg ⊢; omega
      · simp only [↓reduceIte] at hg ⊢; omega
  have hgoodL : StepGoodL og zfo st.pool.sqrtPrice (targetOf zfo limit nextSp2) st.pool.liquidity r2.sqrtPriceNext := by
    rw [hr2]
    refine ⟨⟨hliq, fun _ => ?_⟩, hpos, hpos1, ?_⟩
    · cases zfo
      · simp only [Bool.false_eq_true, ↓reduceIte] at t1 ⊢; exact t1.1
      · simp only [↓reduceIte] at t1 ⊢; exact t1.2.2.2
    · cases zfo
      · simp only [Bool.false_eq_true, ↓reduceIte] at t1 hmono ⊢; exact ⟨t1.1, hmono⟩
      · simp only [↓reduceIte] at t1 hmono hguard ⊢; exact ⟨by omega, t1.2.2.2, by omega, hmono⟩
  have hsideT : LimSide zfo limit (targetOf zfo limit nextSp2) := by
    unfold LimSide
    cases zfo
    · simp only [Bool.false_eq_true, ↓reduceIte] at t1 ⊢; exact t1.2.2
    · simp only [↓reduceIte] at t1 ⊢; exact t1.2.2.1
  have htpos : 0 < targetOf zfo limit nextSp2 := by
    cases zfo
    · simp only [Bool.false_eq_true, ↓reduceIte] at t1; omega
    · simp only [↓reduceIte] at t1; omega
  obtain ⟨hs0, hs1⟩ := spfOK_lt hspf
  -- within the target, or everything consumed
  have hfin : (if zfo then targetOf zfo limit nextSp2 ≤ r2.sqrtPriceNext else r2.sqrtPriceNext ≤ targetOf zfo limit nextSp2) ∨
      (st1.remaining ≤ 1 ∧ (og = true → st1.remaining ≤ 0 ∧ (spf = 0 → st1.remaining < 0))) := by
    by_cases hin : (if zfo then targetOf zfo limit nextSp2 ≤ r2.sqrtPriceNext else r2.sqrtPriceNext ≤ targetOf zfo limit nextSp2)
    · exact Or.inl hin
    · right
      obtain ⟨_, _, a3⟩ := hadv
      unfold stepOf at hstep
      cases og
      · simp only [Bool.false_eq_true, ↓reduceIte] at hstep a3
        refine ⟨?_, fun h => absurd h (by decide)⟩
        cases zfo
        · simp only [Bool.false_eq_true, ↓reduceIte] at hin t1
          rcases Int.lt_or_le 0 st.pool.liquidity with hp | hz
          · have := stepInGivenOut_ofz_pass hliq (hfloor hp) (by omega) t1.1 hstep (by omega)
            omega
          · have e0 : st.pool.liquidity = 0 := by omega
            rw [e0] at hstep
            have := stepInGivenOut_zero_liq hpos htpos (by omega) hstep
            omega
        · simp only [↓reduceIte] at hin t1
          have := stepInGivenOut_zfo_nopass hliq hpos htpos (by omega) t1.2.2.2 hstep
          omega
      · simp only [↓reduceIte] at hstep a3
        have hdir : if zfo then targetOf zfo limit nextSp2 ≤ st.pool.sqrtPrice
            else st.pool.sqrtPrice ≤ targetOf zfo limit nextSp2 := by
          cases zfo
          · simp only [Bool.false_eq_true, ↓reduceIte] at t1 ⊢; exact t1.1
          · simp only [↓reduceIte] at t1 ⊢; exact t1.2.2.2
        have hpass : if zfo then r2.sqrtPriceNext < targetOf zfo limit nextSp2
            else targetOf zfo limit nextSp2 < r2.sqrtPriceNext := by
          cases zfo
          · simp only [Bool.false_eq_true, ↓reduceIte] at hin ⊢; omega
          · simp only [↓reduceIte] at hin ⊢; omega
        obtain ⟨p1, p2⟩ := stepOutGivenIn_pass hliq hpos htpos hs0 hs1 (by omega) hdir hstep hpass
        have hle : st1.remaining ≤ 0 := by
          rcases Int.lt_or_le 0 spf with hp | hz
          · have := p1 hp; omega
          · have := p2 (by omega); omega
        exact ⟨by omega, fun _ => ⟨hle, fun hz => by have := p2 hz; omega⟩⟩
  refine ⟨hagree, hpos1, hla1, ?_, targetOf zfo limit nextSp2, r2, ⟨nt, nextSp2, hsp, rfl⟩, hstep, hadv, hgoodL,
    hsideT, hfin⟩
  rcases hfin with hin | ⟨hle, _⟩
  · left
    unfold LimSide at hsideT ⊢
    rw [← hr2]
    cases zfo
    · simp only [Bool.false_eq_true, ↓reduceIte] at hin hsideT ⊢; omega
    · simp only [↓reduceIte] at hin hsideT ⊢; omega
  · exact Or.inr hle

/-! ## the whole loop -/

theorem swapLoop_stop {og zfo : Bool} {spf limit : Int} (fuel : Nat) {st st' : SwapSt} {ahead : Ticks} {s c s' c' : Nat}
    (hstop : ¬ (st.remaining > 1 ∧ st.pool.sqrtPrice ≠ limit))
    (h : swapLoop og zfo spf limit fuel st ahead s c = some (st', s', c')) : st' = st ∧ s' = s := by
  cases fuel with
  | zero => cases h
  | succ fuel =>
    unfold swapLoop at h
    rw [if_neg hstop] at h
    injection h with h
    injection h with h1 h2
    injection h2 with h2 _
    exact ⟨h1.symm, h2.symm⟩

/-- how a run ends with respect to the limit: the final price has not passed it, or the last step consumed what
remained (exact-in: everything; with a zero spread factor even more, which `computeSwap` rejects). -/
def EndsOK (og zfo : Bool) (spf limit : Int) (st' : SwapSt) : Prop :=
  LimSide zfo limit st'.pool.sqrtPrice ∨
    (st'.remaining ≤ 1 ∧ (og = true → st'.remaining ≤ 0 ∧ (spf = 0 → st'.remaining < 0)))

theorem swapLoop_run_good_lim {og zfo : Bool} {spf limit spacing : Int} {tl : Ticks} {ps : List Position}
    (hok : TicksOK spacing tl ps) (hspf : SpfOK spf) :
    ∀ (fuel : Nat) (st : SwapSt) (ahead : Ticks) (s c : Nat) (st' : SwapSt) (s' c' : Nat),
      swapLoop og zfo spf limit fuel st ahead s c = some (st', s', c') →
      Agree spacing st.pool.sqrtPrice st.pool.tick → 0 < st.pool.sqrtPrice → LA zfo tl ps st.pool ahead →
      LimSide zfo limit st.pool.sqrtPrice →
      ∃ tr, Run og zfo spf limit st tr st' ∧ s' = s + tr.length ∧ (∀ e ∈ tr, RecGoodL og zfo limit e) ∧
        EndsOK og zfo spf limit st' := by
  intro fuel
  induction fuel with
  | zero => intro st ahead s c st' s' c' h; cases h
  | succ fuel ih =>
    intro st ahead s c st' s' c' h ha hpos hla hside
    unfold swapLoop at h
    split at h
    · rename_i hcond
      cases hb : loopBody og zfo spf limit st ahead with
      | none => rw [hb] at h; cases h
      | some res =>
        obtain ⟨st1, ahead1, c1⟩ := res
        rw [hb] at h
        simp only at h
        cases ahead with
        | nil => rw [loopBody_nil] at hb; cases hb
        | cons x rest =>
          obtain ⟨nt, net⟩ := x
          obtain ⟨b1, b2, b3, b4, target, r, htgt, hstep, hadv, hgood, hsT, hfin⟩ :=
            body_good_lim hok hspf hside hb hcond.1 ha hpos hla
          have hrec : RecGoodL og zfo limit ⟨st, target, r⟩ := ⟨hgood, hside, hsT⟩
          rcases b4 with hs1 | hle
          · obtain ⟨tr, hrun, hlen, hall, hend⟩ := ih _ _ _ _ _ _ _ h b1 b2 b3 hs1
            refine ⟨⟨st, target, r⟩ :: tr, Run.cons hcond.1 htgt hstep hadv hrun, ?_, ?_, hend⟩
            · rw [List.length_cons]; omega
            · intro e he
              rcases List.mem_cons.mp he with rfl | he
              · exact hrec
              · exact hall e he
          · obtain ⟨e1, e2⟩ := swapLoop_stop fuel (by omega) h
            subst e1
            refine ⟨[⟨st, target, r⟩], Run.cons hcond.1 htgt hstep hadv (Run.nil _), by simp [e2], ?_, ?_⟩
            · intro e he
              rcases List.mem_cons.mp he with rfl | he
              · exact hrec
              · cases he
            · rcases hfin with hin | hcons
              · left
                unfold LimSide at hsT ⊢
                rw [hadv.1]
                cases zfo
                · simp only [Bool.false_eq_true, ↓reduceIte] at hin hsT ⊢; omega
                · simp only [↓reduceIte] at hin hsT ⊢; omega
              · exact Or.inr hcons
    · injection h with h
      injection h with h1 h2
      injection h2 with h2 _
      subst h1
      refine ⟨[], Run.nil _, by simp [h2], ?_, Or.inl hside⟩
      intro e he; cases he

/-! ## `computeSwap` with any price limit -/

/-- `CLSolv.computeSwap_run_with`, the callback also receiving the validation of the limit. -/
theorem computeSwap_run_with_valid {Q : Int → List StepRec → SwapSt → Prop} {ogi zfo : Bool} {spf pl : Int} {pool : PoolSt}
    {ticks : Ticks} {specified : Int} {r : SwapOut} (h : computeSwap ogi zfo spf pl pool ticks specified = some r)
    (hloop : ∀ limit st' s' c', sqrtPriceLimit pl zfo = some limit →
      (if zfo then CL.MinSqrtPriceBigDec ≤ limit ∧ limit ≤ pool.sqrtPrice
        else pool.sqrtPrice ≤ limit ∧ limit ≤ CL.MaxSqrtPriceBigDec) →
      swapLoop ogi zfo spf limit (2 * ticks.length + CL.swapNoProgressLimit + 8)
        { remaining := specified * P18, calculated := 0, pool := pool, spreadTotal := 0, noProgress := 0 }
        (ticksAhead zfo ticks pool.tick) 0 0 = some (st', s', c') →
      ∃ tr, Run ogi zfo spf limit
        { remaining := specified * P18, calculated := 0, pool := pool, spreadTotal := 0, noProgress := 0 } tr st' ∧
        s' = 0 + tr.length ∧ Q limit tr st') :
    ∃ (limit : Int) (tr : List StepRec) (st' : SwapSt),
      sqrtPriceLimit pl zfo = some limit ∧
      (if zfo then CL.MinSqrtPriceBigDec ≤ limit ∧ limit ≤ pool.sqrtPrice
        else pool.sqrtPrice ≤ limit ∧ limit ≤ CL.MaxSqrtPriceBigDec) ∧
      Run ogi zfo spf limit
        { remaining := specified * P18, calculated := 0, pool := pool, spreadTotal := 0, noProgress := 0 } tr st' ∧
      tr.length = r.steps ∧ r.pool = st'.pool ∧ 0 ≤ st'.remaining ∧ r.spreadRewards = sumCharge tr ∧
      IsCeil (sumIn ogi tr + sumCharge tr) P18 r.amountIn ∧ IsTrunc (sumOut ogi tr) P18 r.amountOut ∧
      (if ogi then sumIn ogi tr + sumCharge tr = specified * P18 - st'.remaining
        else sumOut ogi tr = specified * P18 - st'.remaining) ∧
      ¬ (st'.remaining > 1 ∧ st'.pool.sqrtPrice ≠ limit) ∧ Q limit tr st' := by
  rw [computeSwap_eq] at h
  obtain ⟨limit, hlim, h1⟩ := Option.bind_eq_some_iff.mp h
  obtain ⟨u, hval, h2⟩ := Option.bind_eq_some_iff.mp h1
  have hv : if zfo then CL.MinSqrtPriceBigDec ≤ limit ∧ limit ≤ pool.sqrtPrice
      else pool.sqrtPrice ≤ limit ∧ limit ≤ CL.MaxSqrtPriceBigDec := by
    cases zfo
    · rw [if_neg (by decide)] at hval ⊢
      have := (CL.ite_none_eq_some hval).1
      omega
    · rw [if_pos rfl] at hval ⊢
      have := (CL.ite_none_eq_some hval).1
      omega
  obtain ⟨x, hx, h3⟩ := Option.bind_eq_some_iff.mp h2
  clear h h1 h2
  obtain ⟨st', steps, crossed⟩ := x
  obtain ⟨tr, hrun, hlen, hq⟩ := hloop limit st' steps crossed hlim hv hx
  obtain ⟨_, _, _, hstop⟩ := swapLoop_run _ hx
  obtain ⟨s1, s2⟩ := hrun.sums
  refine ⟨limit, tr, st', hlim, hv, hrun, ?_⟩
  unfold finishSwap at h3
  obtain ⟨hneg, h4⟩ := CL.ite_none_eq_some h3
  simp only at hneg h4 s1 s2
  cases ogi
  · rw [if_neg (by decide)] at h4 s2 ⊢
    obtain ⟨ain, hain, h5⟩ := Option.bind_eq_some_iff.mp h4
    obtain ⟨got, hgot, h6⟩ := Option.bind_eq_some_iff.mp h5
    obtain ⟨aout, haout, h7⟩ := Option.bind_eq_some_iff.mp h6
    cases h7
    have eg := dec_sub_exact hgot
    have c1 := dec_ceil_truncateInt_ceil hain
    have c2 := dec_truncateInt_trunc haout
    have e1 : st'.calculated = sumIn false tr + sumCharge tr := by omega
    have e2 : got = sumOut false tr := by omega
    rw [e1] at c1; rw [e2] at c2
    exact ⟨by simp only; omega, rfl, by omega, by simp only; omega, c1, c2, by omega, hstop, hq⟩
  · rw [if_pos rfl] at h4 s2 ⊢
    obtain ⟨used, hused, h5⟩ := Option.bind_eq_some_iff.mp h4
    obtain ⟨ain, hain, h6⟩ := Option.bind_eq_some_iff.mp h5
    obtain ⟨aout, haout, h7⟩ := Option.bind_eq_some_iff.mp h6
    cases h7
    have eg := dec_sub_exact hused
    have c1 := dec_ceil_truncateInt_ceil hain
    have c2 := dec_truncateInt_trunc haout
    have e1 : used = sumIn true tr + sumCharge tr := by omega
    have e2 : st'.calculated = sumOut true tr := by omega
    rw [e1] at c1; rw [e2] at c2
    exact ⟨by simp only; omega, rfl, by omega, by simp only; omega, c1, c2, by omega, hstop, hq⟩

/-- every swap computed with ANY price limit on a pool state that satisfies the C07 invariants is a run all of whose
steps are `RecGoodL`; the run ends within the limit or with nothing left. -/
theorem computeSwap_run_good_lim {p : Pool} (hinv : Inv p) (hspf : SpfOK p.spf) {ogi zfo : Bool} {pl specified : Int}
    {r : SwapOut}
    (h : computeSwap ogi zfo p.spf pl ⟨p.sqrtPrice, p.tick, p.liquidity⟩ (tickList p) specified = some r) :
    ∃ (limit : Int) (tr : List StepRec) (st' : SwapSt),
      sqrtPriceLimit pl zfo = some limit ∧
      (if zfo then CL.MinSqrtPriceBigDec ≤ limit ∧ limit ≤ p.sqrtPrice
        else p.sqrtPrice ≤ limit ∧ limit ≤ CL.MaxSqrtPriceBigDec) ∧
      Run ogi zfo p.spf limit
        { remaining := specified * P18, calculated := 0, pool := ⟨p.sqrtPrice, p.tick, p.liquidity⟩, spreadTotal := 0,
          noProgress := 0 } tr st' ∧
      tr.length = r.steps ∧ r.pool = st'.pool ∧ 0 ≤ st'.remaining ∧ r.spreadRewards = sumCharge tr ∧
      IsCeil (sumIn ogi tr + sumCharge tr) P18 r.amountIn ∧ IsTrunc (sumOut ogi tr) P18 r.amountOut ∧
      (if ogi then sumIn ogi tr + sumCharge tr = specified * P18 - st'.remaining
        else sumOut ogi tr = specified * P18 - st'.remaining) ∧
      ¬ (st'.remaining > 1 ∧ st'.pool.sqrtPrice ≠ limit) ∧
      ((∀ e ∈ tr, RecGoodL ogi zfo limit e) ∧ EndsOK ogi zfo p.spf limit st') := by
  apply computeSwap_run_with_valid (Q := fun limit tr st' => (∀ e ∈ tr, RecGoodL ogi zfo limit e) ∧
    EndsOK ogi zfo p.spf limit st') h
  intro limit st' s' c' hlim hv hl
  have hside0 : LimSide zfo limit p.sqrtPrice := by
    unfold LimSide
    cases zfo
    · simp only [Bool.false_eq_true, ↓reduceIte] at hv ⊢; exact hv.1
    · simp only [↓reduceIte] at hv ⊢; exact hv.2
  by_cases hne : p.positions = []
  · have hticks : tickList p = [] := by
      unfold tickList
      cases ht : p.ticks with
      | nil => rfl
      | cons x xs =>
        obtain ⟨q, hq, _⟩ := (hinv.core.stored x.tick).mp ⟨x, by rw [ht]; exact List.mem_cons_self, rfl⟩
        rw [hne] at hq; cases hq
    have hah : ticksAhead zfo (tickList p) p.tick = [] := by rw [hticks]; cases zfo <;> rfl
    rw [hah] at hl
    obtain ⟨e1, e2⟩ := swapLoop_nil_ahead _ hl
    subst e1
    refine ⟨[], Run.nil _, by simp [e2], ?_, Or.inl hside0⟩
    intro e he; cases he
  · obtain ⟨tr, a, b, c, d⟩ := swapLoop_run_good_lim (ticksOK_of_core hinv.core) hspf _ _ _ _ _ _ _ _ hl
      (hinv.price.2 hne).1 (hinv.price.2 hne).2 ⟨hinv.active, rfl⟩ hside0
    exact ⟨tr, a, b, c, d⟩

end OsmoVerif.CLLimit
