/-
C08 (incentives, histories) helpers, part 1: the stores of the uptime layer.
* the tracker store (`getTr` after `insertTr` / `initTr` / `syncTrackers` / a flip);
* lock-step lists (`zip2With`, `zip3With`, `updAll`) read at an index;
* DecCoins normal form is kept by the operations used (`sorted`).
Core only.
-/
import OsmoVerif.Proofs.CLIncHist

namespace OsmoVerif.CLIncP
open OsmoVerif.Num OsmoVerif.CL OsmoVerif.CLPool OsmoVerif.CLFees OsmoVerif.CLInc OsmoVerif.CLFeesP OsmoVerif.CLBook
open OsmoVerif.Accum (amt sorted)

/-! ## DecCoins -/

theorem safeSub_sorted {a b r : DC} {n : Bool} (ha : sorted a = true) (hb : sorted b = true)
    (h : Accum.safeSub a b = some (r, n)) : sorted r = true := by
  unfold Accum.safeSub at h
  simp only [Option.map_eq_some_iff, Prod.mk.injEq] at h
  obtain ⟨x, hx, e, _⟩ := h
  subst e
  exact Accum.add_sorted _ _ _ ha (by rw [Accum.sorted_neg]; exact hb) hx

theorem sub_nonneg {a b r : DC} (h : Accum.sub a b = some r) : ∀ c ∈ r, 0 ≤ c.2 := by
  unfold Accum.sub at h
  split at h
  · cases h
  · split at h
    · cases h
    · rename_i hn
      injection h with h; subst h
      intro c hc
      simp only [Accum.anyNeg, List.any_eq_true, not_exists, not_and, decide_eq_true_eq] at hn
      have := hn c hc
      omega

theorem amt_nonneg_of_all {r : DC} (h : ∀ c ∈ r, 0 ≤ c.2) (d : String) : 0 ≤ amt r d := by
  induction r with
  | nil => simp [amt]
  | cons c t ih =>
    obtain ⟨e, x⟩ := c
    simp only [amt]
    have h1 := h (e, x) List.mem_cons_self
    have h2 := ih (fun c hc => h c (List.mem_cons_of_mem _ hc))
    simp only at h1
    split <;> omega

theorem sub_amt_nonneg {a b r : DC} (h : Accum.sub a b = some r) (d : String) : 0 ≤ amt r d :=
  amt_nonneg_of_all (sub_nonneg h) d

/-! ## the tracker store -/

theorem getTr_insertTr (trs : List (Int × List DC)) (t x : Int) (v : List DC) :
    getTr (insertTr trs t v) x = if x = t then some v else getTr trs x := by
  induction trs with
  | nil => unfold getTr insertTr; by_cases h : x = t <;> simp [h, eq_comm]
  | cons o os ih =>
    unfold insertTr
    by_cases h1 : t < o.1
    · rw [if_pos h1]
      unfold getTr
      by_cases h : x = t
      · subst h; simp
      · have : ¬ t = x := by omega
        simp [this, h]
    · rw [if_neg h1]
      by_cases h2 : t = o.1
      · rw [if_pos h2]
        unfold getTr
        by_cases h : x = t
        · subst h; simp
        · have h3 : ¬ t = x := by omega
          have h4 : ¬ o.1 = x := by omega
          simp [h, h3, h4]
      · rw [if_neg h2]
        unfold getTr at ih ⊢
        simp only [List.find?_cons]
        by_cases h : x = t
        · subst h
          have : ¬ o.1 = x := by omega
          simp only [this, decide_false, ↓reduceIte]
          simpa using ih
        · by_cases hox : o.1 = x
          · simp [hox, h]
          · simp only [hox, decide_false, h, ↓reduceIte]
            simpa [h] using ih

/-- `initTr` stores the tick (initial convention) and keeps every stored value. -/
theorem getTr_initTr (i : Inc) (cur t x : Int) :
    getTr (initTr i cur t).trackers x = if x = t then some (tickTr i cur t) else getTr i.trackers x := by
  unfold initTr tickTr
  cases h : getTr i.trackers t with
  | some v =>
    simp only
    by_cases hx : x = t
    · subst hx; simp [h]
    · simp [hx]
  | none =>
    simp only
    rw [getTr_insertTr]

theorem initTr_frame (i : Inc) (cur t : Int) :
    (initTr i cur t).accs = i.accs ∧ (initTr i cur t).records = i.records ∧ (initTr i cur t).last = i.last ∧
    (initTr i cur t).now = i.now ∧ (initTr i cur t).factor = i.factor ∧ (initTr i cur t).authorized = i.authorized ∧
    (initTr i cur t).join = i.join ∧ (initTr i cur t).bal = i.bal ∧ (initTr i cur t).nextRec = i.nextRec := by
  unfold initTr; split <;> exact ⟨rfl, rfl, rfl, rfl, rfl, rfl, rfl, rfl, rfl⟩

theorem getTr_syncTrackers (trs : List (Int × List DC)) (ticks : List TickInfo) (x : Int) :
    getTr (syncTrackers trs ticks) x = if ticks.any (·.tick = x) = true then getTr trs x else none := by
  unfold getTr syncTrackers
  induction trs with
  | nil => simp
  | cons o os ih =>
    by_cases ho : o.1 = x
    · by_cases hk : ticks.any (·.tick = x) = true
      · have hk' : ticks.any (·.tick = o.1) = true := by rw [ho]; exact hk
        rw [List.filter_cons, if_pos hk', if_pos hk]
        simp only [List.find?_cons, ho, decide_true]
      · have hk' : ¬ ticks.any (·.tick = o.1) = true := by rw [ho]; exact hk
        rw [List.filter_cons, if_neg hk', ih, if_neg hk, if_neg hk]
    · by_cases hk : ticks.any (·.tick = o.1) = true
      · rw [List.filter_cons, if_pos hk]
        simp only [List.find?_cons, ho, decide_false]
        exact ih
      · rw [List.filter_cons, if_neg hk, ih]
        simp only [List.find?_cons, ho, decide_false]

/-! ## lock-step lists -/

theorem zip2With_length {α β δ} {f : α → β → Option δ} :
    ∀ {as : List α} {bs : List β} {cs : List δ}, zip2With f as bs = some cs → as.length = cs.length ∧ bs.length = cs.length
  | [], [], cs, h => by simp only [zip2With, Option.some.injEq] at h; subst h; exact ⟨rfl, rfl⟩
  | [], _ :: _, cs, h => by simp [zip2With] at h
  | _ :: _, [], cs, h => by simp [zip2With] at h
  | x :: xs, y :: ys, cs, h => by
    simp only [zip2With, Option.bind_eq_some_iff, Option.map_eq_some_iff] at h
    obtain ⟨c0, _, rest, hrest, e⟩ := h
    subst e
    obtain ⟨h1, h2⟩ := zip2With_length hrest
    simp only [List.length_cons]; omega

theorem zip3With_length {α β γ δ} {f : α → β → γ → Option δ} :
    ∀ {as : List α} {bs : List β} {cs : List γ} {ds : List δ}, zip3With f as bs cs = some ds →
      as.length = ds.length ∧ bs.length = ds.length ∧ cs.length = ds.length
  | [], [], [], ds, h => by simp only [zip3With, Option.some.injEq] at h; subst h; exact ⟨rfl, rfl, rfl⟩
  | x :: xs, y :: ys, z :: zs, ds, h => by
    simp only [zip3With, Option.bind_eq_some_iff, Option.map_eq_some_iff] at h
    obtain ⟨c0, _, rest, hrest, e⟩ := h
    subst e
    obtain ⟨h1, h2, h3⟩ := zip3With_length hrest
    simp only [List.length_cons]; omega
  | [], [], _ :: _, ds, h => by simp [zip3With] at h
  | [], _ :: _, _, ds, h => by simp [zip3With] at h
  | _ :: _, [], _, ds, h => by simp [zip3With] at h
  | _ :: _, _ :: _, [], ds, h => by simp [zip3With] at h

theorem zip3With_get {α β γ δ} {f : α → β → γ → Option δ} :
    ∀ {as : List α} {bs : List β} {cs : List γ} {ds : List δ}, zip3With f as bs cs = some ds →
      ∀ (k : Nat) (d : δ), ds[k]? = some d → ∃ a b c, as[k]? = some a ∧ bs[k]? = some b ∧ cs[k]? = some c ∧ f a b c = some d
  | [], [], [], ds, h, k, d, hd => by simp only [zip3With, Option.some.injEq] at h; subst h; simp at hd
  | x :: xs, y :: ys, z :: zs, ds, h, k, d, hd => by
    simp only [zip3With, Option.bind_eq_some_iff, Option.map_eq_some_iff] at h
    obtain ⟨c0, hc0, rest, hrest, e⟩ := h
    subst e
    cases k with
    | zero =>
      simp only [List.getElem?_cons_zero, Option.some.injEq] at hd
      subst hd
      exact ⟨x, y, z, by simp, by simp, by simp, hc0⟩
    | succ k =>
      simp only [List.getElem?_cons_succ] at hd ⊢
      exact zip3With_get hrest k d hd
  | [], [], _ :: _, ds, h, _, _, _ => by simp [zip3With] at h
  | [], _ :: _, _, ds, h, _, _, _ => by simp [zip3With] at h
  | _ :: _, [], _, ds, h, _, _, _ => by simp [zip3With] at h
  | _ :: _, _ :: _, [], ds, h, _, _, _ => by simp [zip3With] at h

/-- reading the result of `zip2With` at an index (converse direction of `zip2With_get`). -/
theorem zip2With_get' {α β δ} {f : α → β → Option δ} :
    ∀ {as : List α} {bs : List β} {cs : List δ}, zip2With f as bs = some cs →
      ∀ (k : Nat) (c : δ), cs[k]? = some c → ∃ a b, as[k]? = some a ∧ bs[k]? = some b ∧ f a b = some c
  | [], [], cs, h, k, c, hc => by simp only [zip2With, Option.some.injEq] at h; subst h; simp at hc
  | [], _ :: _, cs, h, _, _, _ => by simp [zip2With] at h
  | _ :: _, [], cs, h, _, _, _ => by simp [zip2With] at h
  | x :: xs, y :: ys, cs, h, k, c, hc => by
    simp only [zip2With, Option.bind_eq_some_iff, Option.map_eq_some_iff] at h
    obtain ⟨c0, hc0, rest, hrest, e⟩ := h
    subst e
    cases k with
    | zero =>
      simp only [List.getElem?_cons_zero, Option.some.injEq] at hc
      subst hc
      exact ⟨x, y, by simp, by simp, hc0⟩
    | succ k =>
      simp only [List.getElem?_cons_succ] at hc ⊢
      exact zip2With_get' hrest k c hc

theorem getElem?_of_lt {α} {l : List α} {k : Nat} (h : k < l.length) : ∃ a, l[k]? = some a :=
  ⟨l[k], List.getElem?_eq_getElem h⟩

theorem lt_of_getElem? {α} {l : List α} {k : Nat} {a : α} (h : l[k]? = some a) : k < l.length := by
  rcases Nat.lt_or_ge k l.length with h1 | h1
  · exact h1
  · rw [List.getElem?_eq_none h1] at h; cases h

theorem updAll_get {id : Nat} {nl dl : Int} :
    ∀ {accs : List UAcc} {ins outs : List DC} {accs' : List UAcc}, updAll id nl dl accs ins outs = some accs' →
      accs'.length = accs.length ∧ ins.length = accs.length ∧ outs.length = accs.length ∧
      ∀ (k : Nat) (a : UAcc), accs[k]? = some a → ∃ a' i o, accs'[k]? = some a' ∧ ins[k]? = some i ∧ outs[k]? = some o ∧
        updOne a id nl dl i o = some a'
  | [], [], [], accs', h => by
    simp only [updAll, Option.some.injEq] at h; subst h
    exact ⟨rfl, rfl, rfl, fun k a ha => by simp at ha⟩
  | a0 :: as, i0 :: is, o0 :: os, accs', h => by
    simp only [updAll, Option.bind_eq_some_iff, Option.map_eq_some_iff] at h
    obtain ⟨a0', h0, rest, hrest, e⟩ := h
    subst e
    obtain ⟨l1, l2, l3, hget⟩ := updAll_get hrest
    refine ⟨by simp [l1], by simp [l2], by simp [l3], fun k a ha => ?_⟩
    cases k with
    | zero =>
      simp only [List.getElem?_cons_zero, Option.some.injEq] at ha
      subst ha
      exact ⟨a0', i0, o0, by simp, by simp, by simp, h0⟩
    | succ k =>
      simp only [List.getElem?_cons_succ] at ha ⊢
      exact hget k a ha
  | [], [], _ :: _, _, h => by simp [updAll] at h
  | [], _ :: _, _, _, h => by simp [updAll] at h
  | _ :: _, [], _, _, h => by simp [updAll] at h
  | _ :: _, _ :: _, [], _, h => by simp [updAll] at h

theorem getElem?_setAt {α} : ∀ (l : List α) (n k : Nat) (v : α),
    (setAt l n v)[k]? = if k = n ∧ n < l.length then some v else l[k]?
  | [], n, k, v => by simp [setAt]
  | x :: xs, 0, k, v => by
    cases k with
    | zero => simp [setAt]
    | succ k => simp [setAt]
  | x :: xs, n + 1, k, v => by
    cases k with
    | zero => simp [setAt]
    | succ k =>
      simp only [setAt, List.getElem?_cons_succ, getElem?_setAt xs n k v, List.length_cons]
      by_cases h : k = n ∧ n < xs.length
      · rw [if_pos h, if_pos ⟨by omega, by omega⟩]
      · rw [if_neg h, if_neg (by omega)]

theorem length_setAt {α} : ∀ (l : List α) (n : Nat) (v : α), (setAt l n v).length = l.length
  | [], _, _ => rfl
  | _ :: _, 0, _ => rfl
  | x :: xs, n + 1, v => by simp only [setAt, List.length_cons, length_setAt xs n v]

end OsmoVerif.CLIncP
