/-
C08 (incentives, histories) helpers, part 14: the incentive address balance (`Coins.Add`, the bank send `coinsSubAll`) per
denom on sorted coin sets; the entitlement potential of the SUM bound.  Core only.
-/
import OsmoVerif.Proofs.CLIncHist13

namespace OsmoVerif.CLIncP
open OsmoVerif.Num OsmoVerif.CL OsmoVerif.CLPool OsmoVerif.CLFees OsmoVerif.CLInc OsmoVerif.CLFeesP OsmoVerif.CLBook
open OsmoVerif.Accum (amt sorted hev)
open OsmoVerif.Gen

/-! ## `Coins.Add` keeps the set sorted -/

theorem coinsAdd_all {p : String → Bool} : ∀ (tc : Coins) (d : String) (t : Int) (r : Coins),
    Accum.coinsAdd tc d t = some r → tc.all (fun c => p c.1) = true → p d = true → r.all (fun c => p c.1) = true := by
  intro tc
  induction tc with
  | nil =>
    intro d t r h _ hd
    simp only [Accum.coinsAdd, Option.some.injEq] at h; subst h
    simp [hd]
  | cons x rest ih =>
    obtain ⟨e, y⟩ := x
    intro d t r h hall hd
    simp only [List.all_cons, Bool.and_eq_true] at hall
    unfold Accum.coinsAdd at h
    split at h
    · injection h with h; subst h
      simp only [List.all_cons, Bool.and_eq_true]
      exact ⟨hd, hall.1, hall.2⟩
    · split at h
      · unfold chkInt at h
        split at h
        · simp only [Option.map_some, Option.some.injEq] at h; subst h
          simp only [List.all_cons, Bool.and_eq_true]
          exact ⟨hall.1, hall.2⟩
        · cases h
      · simp only [Option.map_eq_some_iff] at h
        obtain ⟨r', hr', e'⟩ := h
        subst e'
        simp only [List.all_cons, Bool.and_eq_true]
        exact ⟨hall.1, ih d t r' hr' hall.2 hd⟩

theorem coinsAdd_sorted : ∀ (tc : Coins) (d : String) (t : Int) (r : Coins),
    Accum.coinsAdd tc d t = some r → sorted tc = true → sorted r = true := by
  intro tc
  induction tc with
  | nil =>
    intro d t r h _
    simp only [Accum.coinsAdd, Option.some.injEq] at h; subst h; rfl
  | cons x rest ih =>
    obtain ⟨e, y⟩ := x
    intro d t r h hs
    simp only [sorted, Bool.and_eq_true] at hs
    unfold Accum.coinsAdd at h
    split at h
    · rename_i hlt
      injection h with h; subst h
      simp only [sorted, Bool.and_eq_true, List.all_cons, decide_eq_true_eq]
      exact ⟨⟨hlt, Accum.all_lt_trans hlt hs.1⟩, hs.1, hs.2⟩
    · split at h
      · unfold chkInt at h
        split at h
        · simp only [Option.map_some, Option.some.injEq] at h; subst h
          simp only [sorted, Bool.and_eq_true]
          exact hs
        · cases h
      · rename_i h1 h2
        simp only [Option.map_eq_some_iff] at h
        obtain ⟨r', hr', e'⟩ := h
        subst e'
        simp only [sorted, Bool.and_eq_true]
        have hlt : e < d := Accum.str_lt_of_not h1 h2
        exact ⟨coinsAdd_all (p := fun s => decide (e < s)) rest d t r' hr' hs.1 (by simpa using hlt), ih d t r' hr' hs.2⟩

/-! ## the bank send -/

theorem map_sub_all (p : String → Bool) (bal : Coins) (d : String) (x : Int) :
    (bal.map fun c => if c.1 = d then (c.1, c.2 - x) else c).all (fun c => p c.1) = bal.all (fun c => p c.1) := by
  induction bal with
  | nil => rfl
  | cons c t ih =>
    simp only [List.map_cons, List.all_cons, ih]
    split <;> rfl

theorem map_sub_sorted (bal : Coins) (d : String) (x : Int) :
    sorted (bal.map fun c => if c.1 = d then (c.1, c.2 - x) else c) = sorted bal := by
  induction bal with
  | nil => rfl
  | cons c t ih =>
    obtain ⟨e, y⟩ := c
    simp only [List.map_cons]
    have : ∀ (z : String × Int), z.1 = e → sorted (z :: (t.map fun c => if c.1 = d then (c.1, c.2 - x) else c)) = sorted ((e, y) :: t) := by
      intro z hz
      obtain ⟨e', y'⟩ := z
      simp only at hz; subst hz
      simp only [sorted]
      rw [map_sub_all (fun s => decide (e' < s)), ih]
    split
    · exact this _ rfl
    · exact this _ rfl

theorem map_sub_id_of_all_lt {t : Coins} {d : String} (x : Int) (h : t.all (fun c => decide (d < c.1)) = true) :
    (t.map fun c => if c.1 = d then (c.1, c.2 - x) else c) = t := by
  induction t with
  | nil => rfl
  | cons c t ih =>
    simp only [List.all_cons, Bool.and_eq_true, decide_eq_true_eq] at h
    have hne : ¬ c.1 = d := fun hh => String.lt_irrefl d (hh ▸ h.1)
    simp only [List.map_cons, if_neg hne, ih h.2]

theorem map_sub_amt {bal : Coins} (hs : sorted bal = true) (d : String) (x : Int) (e : String) :
    amt (bal.map fun c => if c.1 = d then (c.1, c.2 - x) else c) e =
      amt bal e - (if d = e ∧ bal.any (fun c => c.1 = d) then x else 0) := by
  induction bal with
  | nil => simp [amt]
  | cons c t ih =>
    obtain ⟨e0, y⟩ := c
    simp only [sorted, Bool.and_eq_true] at hs
    simp only [List.map_cons, List.any_cons]
    by_cases h0 : e0 = d
    · subst h0
      rw [if_pos rfl, map_sub_id_of_all_lt x hs.1]
      simp only [amt, decide_true, Bool.true_or, and_true]
      split <;> omega
    · rw [if_neg h0]
      simp only [amt, ih hs.2]
      have : decide (e0 = d) = false := by simpa using h0
      simp only [this, Bool.false_or]
      omega

theorem any_of_amt_pos {bal : Coins} {d : String} (h : 0 < amt bal d) : bal.any (fun c => c.1 = d) = true := by
  induction bal with
  | nil => simp [amt] at h
  | cons c t ih =>
    obtain ⟨e, y⟩ := c
    simp only [List.any_cons, Bool.or_eq_true, decide_eq_true_eq]
    by_cases he : e = d
    · exact Or.inl he
    · simp only [amt, if_neg he, Int.zero_add] at h
      exact Or.inr (ih h)

/-- the bank send out of a sorted balance, per denom. -/
theorem coinsSubAll_spec : ∀ (cs bal b' : Coins), sorted bal = true → (∀ c ∈ cs, 0 ≤ c.2) → coinsSubAll bal cs = some b' →
    sorted b' = true ∧ ∀ e, amt b' e = amt bal e - amt cs e := by
  intro cs
  induction cs with
  | nil =>
    intro bal b' hs _ h
    simp only [coinsSubAll, Option.some.injEq] at h; subst h
    exact ⟨hs, fun e => by simp [amt]⟩
  | cons c t ih =>
    obtain ⟨d, x⟩ := c
    intro bal b' hs hnn h
    have hx : 0 ≤ x := hnn (d, x) List.mem_cons_self
    unfold coinsSubAll at h
    split at h
    · cases h
    · rename_i hcov
      unfold coinAmt at hcov
      have hs1 : sorted ((bal.map fun c => if c.1 = d then (c.1, c.2 - x) else c).filter fun c => c.2 ≠ 0) = true := by
        have := Accum.sorted_removeZero (cs := bal.map fun c => if c.1 = d then (c.1, c.2 - x) else c) (by rw [map_sub_sorted]; exact hs)
        exact this
      obtain ⟨r1, r2⟩ := ih _ b' hs1 (fun c hc => hnn c (List.mem_cons_of_mem _ hc)) h
      refine ⟨r1, fun e => ?_⟩
      rw [r2 e]
      have hrz : amt ((bal.map fun c => if c.1 = d then (c.1, c.2 - x) else c).filter fun c => c.2 ≠ 0) e =
          amt (bal.map fun c => if c.1 = d then (c.1, c.2 - x) else c) e := Accum.amt_removeZero _ e
      rw [hrz, map_sub_amt hs d x e]
      simp only [amt]
      by_cases hde : d = e
      · subst hde
        simp only [true_and, ↓reduceIte]
        by_cases hx0 : x = 0
        · subst hx0; split <;> omega
        · have : bal.any (fun c => c.1 = d) = true := any_of_amt_pos (by omega)
          rw [if_pos this]; omega
      · simp only [hde, false_and, ↓reduceIte]; omega

/-! ## the potential -/

/-- exact entitlement (raw × raw units) of position `q` in accumulator `k`, denom `d`:
`unclaimed · 10¹⁸ + (growth inside − snapshot) · shares`. -/
def ent (s : Full) (d : String) (k : Nat) (q : Position) : Int :=
  match getURec (accAt s.inc k).recs q.id with
  | some r => amt r.unclaimed d * P18 + (insU s.inc s.fees.pool.tick k d q.lower q.upper - amt r.snap d) * r.shares
  | none => 0

def entQ (s : Full) (d : String) (q : Position) : Int := sumN six (fun k => ent s d k q)

def Etot (s : Full) (d : String) : Int := sumBy (entQ s d) s.fees.pool.positions

/-- **the SUM invariant of the incentive layer** (`n` counts six half-units per claiming message): per denom,
Σ positions Σ accumulators entitlement + remaining of the records × factor ≤ incentive address balance × 10¹⁸ × factor + n/2 · 10¹⁸. -/
structure SumI (s : Full) (n : Int) : Prop where
  balSorted : sorted s.inc.bal = true
  bound : ∀ d, 2 * Etot s d + 2 * (sumRem d s.inc.records * s.inc.factor) ≤ 2 * (amt s.inc.bal d * P18 * s.inc.factor) + n * P18

theorem SumI.mono {s : Full} {n m : Int} (h : SumI s n) (hnm : n ≤ m) : SumI s m :=
  ⟨h.balSorted, fun d => by
    have := h.bound d
    have hP := P18_pos
    have : n * P18 ≤ m * P18 := Int.mul_le_mul_of_nonneg_right hnm (by omega)
    omega⟩

theorem sumBy_congr' {F G : Position → Int} {ps : List Position} (h : ∀ q ∈ ps, F q = G q) : sumBy F ps = sumBy G ps := by
  induction ps with
  | nil => rfl
  | cons a as ih =>
    simp only [sumBy_cons]
    rw [h a List.mem_cons_self, ih (fun q hq => h q (List.mem_cons_of_mem _ hq))]

theorem sumBy_sumN (F : Nat → Position → Int) (us : List Nat) (ps : List Position) :
    sumBy (fun q => sumN us (fun k => F k q)) ps = sumN us (fun k => sumBy (F k) ps) := by
  induction ps with
  | nil =>
    simp only [sumBy_nil]
    rw [sumN_zero]
  | cons a as ih =>
    simp only [sumBy_cons, ih]
    rw [← sumN_add]

end OsmoVerif.CLIncP
