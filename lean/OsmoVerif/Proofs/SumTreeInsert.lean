/- The insert-only fragment (Set / Increase / Decrease) preserves the invariant and refines the
sorted map, for every fan-out m ≥ 2: induction over the levels for `updateAcc` and `push`. -/
import OsmoVerif.Proofs.SumTreeWF

namespace OsmoVerif.SumTree
open OsmoVerif.Spec

/-! ### small list facts -/

theorem length_setAcc (cs : List Child) (i : Nat) (a : Int) : (setAcc cs i a).length = cs.length := by
  induction cs generalizing i with
  | nil => rfl
  | cons c rest ih => cases i <;> simp [setAcc, ih]

theorem setAcc_head (c : Child) (rest : List Child) (i : Nat) (a : Int) :
    ∃ c' rest', setAcc (c :: rest) i a = c' :: rest' ∧ c'.1 = c.1 := by
  cases i with
  | zero => exact ⟨_, _, rfl, rfl⟩
  | succ i => exact ⟨_, _, rfl, rfl⟩

theorem length_insertAt (cs : List Child) (i : Nat) (c : Child) : (insertAt cs i c).length = cs.length + 1 := by
  induction cs generalizing i with
  | nil => cases i <;> simp [insertAt]
  | cons d rest ih => cases i <;> simp [insertAt, ih]

theorem find_true_mem {cs : List Child} {k : Key} (h : (find cs k).2 = true) : ∃ c ∈ cs, c.1 = k := by
  induction cs with
  | nil => simp [find] at h
  | cons c rest ih =>
    by_cases he : c.1 = k
    · exact ⟨c, List.mem_cons_self, he⟩
    · simp only [find, he, if_false] at h
      by_cases hlt : k < c.1
      · simp [hlt] at h
      · simp only [hlt, if_false] at h
        obtain ⟨d, hd, e⟩ := ih h
        exact ⟨d, List.mem_cons_of_mem _ hd, e⟩

theorem sortedA_summary (lv : Level) : SortedA (summary lv) ↔ SortedA lv := by
  simp [SortedA, summary, List.pairwise_map]

theorem summary_put (lv : Level) (k : Key) (cs : List Child) :
    summary (put lv k cs) = put (summary lv) k (acc cs) := map_put acc lv k cs

theorem good_put {l : List Child} (hg : Good l) (k : Key) (a : Int) : Good (put l k a) := by
  refine ⟨sortedA_put hg.1 k a, ?_⟩
  obtain ⟨v, rest, hl⟩ := hg.2
  subst hl
  simp only [put]
  split
  · next he => exact ⟨a, rest, by rw [← he]⟩
  · simp only [knot_lt_nil, if_false]
    exact ⟨v, _, rfl⟩

theorem key_mem_put {β : Type} {l : List (Key × β)} {k j : Key} {v : β} (h : ∃ n ∈ l, n.1 = j) :
    ∃ n ∈ put l k v, n.1 = j := by
  induction l with
  | nil => obtain ⟨n, hn, _⟩ := h; cases hn
  | cons c rest ih =>
    obtain ⟨q, w⟩ := c
    obtain ⟨n, hn, e⟩ := h
    simp only [put]
    split
    · next he =>
      rcases List.mem_cons.mp hn with hn | hn
      · subst hn; exact ⟨(k, v), List.mem_cons_self, by simp at e; rw [← e, he]⟩
      · exact ⟨n, List.mem_cons_of_mem _ hn, e⟩
    · split
      · exact ⟨n, List.mem_cons_of_mem _ hn, e⟩
      · rcases List.mem_cons.mp hn with hn | hn
        · subst hn; exact ⟨_, List.mem_cons_self, e⟩
        · obtain ⟨n', hn', e'⟩ := ih ⟨n, hn, e⟩
          exact ⟨n', List.mem_cons_of_mem _ hn', e'⟩

theorem put_eq_insert (l : List Child) (k : Key) (v : Int) : put l k v = SortedMap.insert l k v := by
  induction l with
  | nil => rfl
  | cons c rest ih => obtain ⟨q, w⟩ := c; simp only [put, SortedMap.insert, ih]

/-! ### the owner of a key in a level: the last node with key ≤ k -/

theorem exists_owner {β : Type} {k : Key} : ∀ (lv : List (Key × β)) (n0 : Key × β) (rest : List (Key × β)),
    lv = n0 :: rest → SortedA lv → ¬ k < n0.1 →
    ∃ pre p cs post, lv = pre ++ (p, cs) :: post ∧ ¬ k < p ∧ (∀ n ∈ post, k < n.1) := by
  intro lv
  induction lv with
  | nil => intro n0 rest h; cases h
  | cons n rest ih =>
    intro n0 rest0 h hs hle
    cases h
    have hs' := List.pairwise_cons.mp hs
    cases hrest : rest with
    | nil => exact ⟨[], n.1, n.2, [], by simp, hle, by intro x hx; cases hx⟩
    | cons n1 rest1 =>
      subst hrest
      by_cases h1 : k < n1.1
      · refine ⟨[], n.1, n.2, n1 :: rest1, by simp, hle, ?_⟩
        intro x hx
        rcases List.mem_cons.mp hx with hx | hx
        · subst hx; exact h1
        · exact klt_trans h1 ((List.pairwise_cons.mp hs'.2).1 x hx)
      · obtain ⟨pre, p, cs, post, hd, hp, hpost⟩ := ih n1 rest1 rfl hs'.2 h1
        exact ⟨n :: pre, p, cs, post, by rw [hd]; rfl, hp, hpost⟩

theorem pre_lt_of_sorted {β : Type} {pre post : List (Key × β)} {p : Key} {cs : β}
    (hs : SortedA (pre ++ (p, cs) :: post)) : ∀ n ∈ pre, n.1 < p :=
  fun n hn => (List.pairwise_append.mp hs).2.2 n hn (p, cs) List.mem_cons_self

theorem post_gt_of_sorted {β : Type} {pre post : List (Key × β)} {p : Key} {cs : β}
    (hs : SortedA (pre ++ (p, cs) :: post)) : ∀ n ∈ post, p < n.1 :=
  fun n hn => (List.pairwise_cons.mp (List.pairwise_append.mp hs).2.1).1 n hn

theorem parentIn_decomp {pre post : Level} {p k : Key} {cs : List Child} {fl : Bool}
    (hs : SortedA (pre ++ (p, cs) :: post)) (hp : ¬ k < p) (hpost : ∀ n ∈ post, k < n.1) :
    (parentIn (pre ++ (p, cs) :: post) ⟨k, fl⟩).key = p := by
  have hpre := pre_lt_of_sorted hs
  by_cases hpk : p = k
  · subst hpk
    have : has (pre ++ (p, cs) :: post) p = true := by simp [has, get?_mid hpre]
    simp [parentIn, this]
  · have hlt : p < k := by
      rcases klt_tri p k with h | h | h
      · exact h
      · exact absurd h hpk
      · exact absurd h hp
    have hnone : get? (pre ++ (p, cs) :: post) k = none := by
      apply get?_none_of_forall_ne
      intro n hn
      rcases List.mem_append.mp hn with hn | hn
      · exact klt_ne (klt_trans (hpre n hn) hlt)
      · rcases List.mem_cons.mp hn with hn | hn
        · subst hn; exact hpk
        · exact (klt_ne (hpost n hn)).symm
    have hk : k ≠ [] := fun e => knot_lt_nil p (e ▸ hlt)
    have hfilter : (pre ++ (p, cs) :: post).filter (fun n => decide (n.1 < k)) = pre ++ [(p, cs)] := by
      rw [List.filter_append, List.filter_cons_of_pos (by simpa using hlt)]
      have h1 : pre.filter (fun n => decide (n.1 < k)) = pre :=
        List.filter_eq_self.mpr (fun n hn => by simpa using klt_trans (hpre n hn) hlt)
      have h2 : post.filter (fun n => decide (n.1 < k)) = [] :=
        List.filter_eq_nil_iff.mpr (fun n hn => by simpa using klt_asymm (hpost n hn))
      rw [h1, h2]
    simp [parentIn, has, hnone, leftSib, hk, hfilter, Ptr.of]

/-- `Owner lvls pk k`: in the first level of `lvls`, `pk` is the last node key ≤ k. -/
def Owner (lvls : List Level) (pk : Key) (k : Key) : Prop :=
  match lvls with
  | [] => True
  | lv :: _ => ∃ pre cs post, lv = pre ++ (pk, cs) :: post ∧ ¬ k < pk ∧ ∀ n ∈ post, k < n.1

theorem level_head_of_good {m : Nat} {lower : List Child} {lv : Level} (hg : Good lower) (hl : Linked m lower lv) :
    SortedA lv ∧ ∃ n0 rest, lv = n0 :: rest ∧ n0.1 = [] := by
  have hgs := good_summary hg hl
  refine ⟨(sortedA_summary lv).mp hgs.1, ?_⟩
  obtain ⟨v, r, hsum⟩ := hgs.2
  cases lv with
  | nil => simp [summary] at hsum
  | cons n ns =>
    refine ⟨n, ns, rfl, ?_⟩
    simp [summary] at hsum
    exact hsum.1.1

theorem owner_parentPtr {m : Nat} {lower : List Child} {lvls : List Level} (hg : Good lower)
    (hw : WFup m lower lvls) (q : Ptr) : Owner lvls (parentPtr lvls q).key q.key := by
  cases lvls with
  | nil => trivial
  | cons lv up =>
    obtain ⟨hs, n0, rest, hlv, hn0⟩ := level_head_of_good hg hw.1
    obtain ⟨pre, p, cs, post, hd, hp, hpost⟩ :=
      exists_owner (k := q.key) lv n0 rest hlv hs (by rw [hn0]; exact knot_lt_nil _)
    have : (parentIn lv ⟨q.key, q.isNil⟩).key = p := by
      subst hd; exact parentIn_decomp hs hp hpost
    simp only [Owner, parentPtr]
    refine ⟨pre, cs, post, ?_, ?_, hpost⟩
    · rw [show q = ⟨q.key, q.isNil⟩ from rfl, this]; exact hd
    · rw [show q = ⟨q.key, q.isNil⟩ from rfl, this]; exact hp

/-! ### keys of the lower level relative to an owner decomposition -/

theorem flat_post_gt {m : Nat} {k : Key} : ∀ (post : Level), (∀ n ∈ post, NodeOK m n) →
    SortedA (post.map (·.2)).flatten → (∀ n ∈ post, k < n.1) → ∀ x ∈ (post.map (·.2)).flatten, k < x.1 := by
  intro post
  induction post with
  | nil => intro _ _ _ x hx; simp at hx
  | cons nb post' ih =>
    intro hok hs hk x hx
    obtain ⟨cb, rb, hcb, hkb, _⟩ := hok nb List.mem_cons_self
    simp only [List.map_cons, List.flatten_cons, hcb, List.cons_append] at hs hx
    have hkb' : k < cb.1 := hkb ▸ hk nb List.mem_cons_self
    rcases List.mem_cons.mp hx with hx | hx
    · exact hx ▸ hkb'
    · rcases List.mem_append.mp hx with hx' | hx'
      · exact klt_trans hkb' ((List.pairwise_cons.mp hs).1 x hx)
      · exact ih (fun n hn => hok n (List.mem_cons_of_mem _ hn))
          ((List.pairwise_append.mp (List.pairwise_cons.mp hs).2).2.1)
          (fun n hn => hk n (List.mem_cons_of_mem _ hn)) x hx'

/-- everything the proofs need about a level decomposed around the owner `(p, cs)` of `k` -/
theorem owner_facts {m : Nat} {lower : List Child} {pre post : Level} {p k : Key} {cs : List Child}
    (hg : Good lower) (hl : Linked m lower (pre ++ (p, cs) :: post))
    (hp : ¬ k < p) (hpost : ∀ n ∈ post, k < n.1) :
    lower = (pre.map (·.2)).flatten ++ (cs ++ (post.map (·.2)).flatten) ∧
    SortedA cs ∧ (∃ c0 r0, cs = c0 :: r0 ∧ c0.1 = p) ∧
    (∀ x ∈ (pre.map (·.2)).flatten, x.1 < k) ∧
    (∀ x ∈ (post.map (·.2)).flatten, k < x.1) ∧
    (∀ x ∈ (post.map (·.2)).flatten, ∀ c ∈ cs, c.1 < x.1) := by
  have hflat : lower = (pre.map (·.2)).flatten ++ (cs ++ (post.map (·.2)).flatten) := by
    rw [← hl.1]; simp
  have hsl : SortedA ((pre.map (·.2)).flatten ++ (cs ++ (post.map (·.2)).flatten)) := hflat ▸ hg.1
  have hs2 := List.pairwise_append.mp hsl
  have hs3 := List.pairwise_append.mp hs2.2.1
  obtain ⟨c0, r0, hc0, hk0, _⟩ := hl.2 (p, cs) (by simp)
  simp only at hc0 hk0
  refine ⟨hflat, hs3.1, ⟨c0, r0, hc0, hk0.symm⟩, ?_, ?_, ?_⟩
  · intro x hx
    have : x.1 < c0.1 := hs2.2.2 x hx c0 (by rw [hc0]; simp)
    exact klt_le_trans this (hk0 ▸ hp)
  · exact flat_post_gt post (fun n hn => hl.2 n (by simp [hn])) hs3.2.1 hpost
  · intro x hx c hc
    exact hs3.2.2 c hc x hx

theorem put_lower_eq {pre post : Level} {cs : List Child} {k : Key} {a : Int}
    (h1 : ∀ x ∈ (pre.map (·.2)).flatten, x.1 < k) (h2 : ∀ x ∈ (post.map (·.2)).flatten, k < x.1) :
    put ((pre.map (·.2)).flatten ++ (cs ++ (post.map (·.2)).flatten)) k a =
      ((pre ++ (p, put cs k a) :: post).map (·.2)).flatten := by
  rw [put_append_of_lt h1, put_append_of_gt h2]; simp

/-! ### updateAccumulation -/

theorem updateAcc_wf {m : Nat} : ∀ (lvls : List Level) (lower : List Child), Good lower → WFup m lower lvls →
    ∀ (k : Key) (a : Int) (q : Ptr), (∃ c ∈ lower, c.1 = k) → Owner lvls q.key k →
    ∃ lvls', updateAcc lvls q (k, a) = some lvls' ∧ WFup m (put lower k a) lvls' ∧
      lvls'.length = lvls.length := by
  intro lvls
  induction lvls with
  | nil =>
    intro lower _ hw k a q hmem _
    refine ⟨[], rfl, ?_, rfl⟩
    simp only [WFup] at hw ⊢
    obtain ⟨c, hc, hck⟩ := hmem
    cases lower with
    | nil => cases hc
    | cons x xs =>
      have hxs : xs = [] := by simpa using hw
      subst hxs
      have : c = x := by simpa using hc
      subst this
      obtain ⟨q', w⟩ := c
      simp only at hck
      subst hck
      simp [put]
  | cons lv up ih =>
    intro lower hg hw k a q hmem hown
    obtain ⟨hl, hup⟩ := hw
    obtain ⟨pre, cs, post, hlv, hp, hpost⟩ := hown
    subst hlv
    obtain ⟨hs, -⟩ := level_head_of_good hg hl
    have hpre := pre_lt_of_sorted hs
    obtain ⟨hflat, hscs, ⟨c0, r0, hc0, hk0⟩, hA, hB, -⟩ := owner_facts hg hl hp hpost
    have hget : get? (pre ++ (q.key, cs) :: post) q.key = some cs := get?_mid hpre
    -- k lives in cs
    have hkcs : ∃ c ∈ cs, c.1 = k := by
      obtain ⟨c, hc, hck⟩ := hmem
      rw [hflat] at hc
      rcases List.mem_append.mp hc with hc | hc
      · exact absurd hck (klt_ne (hA c hc))
      · rcases List.mem_append.mp hc with hc | hc
        · exact ⟨c, hc, hck⟩
        · exact absurd hck.symm (klt_ne (hB c hc))
    have hfind : (find cs k).2 = true := find_true_of_mem hscs hkcs
    have hcs' : setAcc cs (find cs k).1 a = put cs k a := setAcc_find_eq_put hfind
    have hgs : Good (summary (pre ++ (q.key, cs) :: post)) := good_summary hg hl
    have hmem' : ∃ c ∈ summary (pre ++ (q.key, cs) :: post), c.1 = q.key :=
      ⟨(q.key, acc cs), by simp [summary], rfl⟩
    obtain ⟨up', hup', hwf', hlen'⟩ := ih _ hgs hup q.key (acc (put cs k a)) (parentPtr up q) hmem'
      (owner_parentPtr hgs hup q)
    refine ⟨put (pre ++ (q.key, cs) :: post) q.key (put cs k a) :: up', ?_, ⟨?_, ?_⟩, by simp [hlen']⟩
    · simp only [updateAcc, hget, hfind, if_true, hcs', hup']
    · have hput : put (pre ++ (q.key, cs) :: post) q.key (put cs k a) = pre ++ (q.key, put cs k a) :: post := by
        rw [put_append_of_lt hpre, put_head_same]
      rw [hput]
      constructor
      · rw [hflat]; exact (put_lower_eq hA hB).symm
      · intro n hn
        rcases List.mem_append.mp hn with hn | hn
        · exact hl.2 n (by simp [hn])
        · rcases List.mem_cons.mp hn with hn | hn
          · subst hn
            obtain ⟨_, _, _, _, hlen⟩ := hl.2 (q.key, cs) (by simp)
            obtain ⟨c', r', he, hk'⟩ := setAcc_head c0 r0 (find cs k).1 a
            rw [← hc0, hcs'] at he
            refine ⟨c', r', he, ?_, ?_⟩
            · simp only; rw [hk', hk0]
            · simp only at hlen ⊢; rw [← hcs', length_setAcc]; exact hlen
          · exact hl.2 n (by simp [hn])
    · rw [summary_put]; exact hwf'


/-! ### push -/

theorem push_wf {m : Nat} (hm : 2 ≤ m) : ∀ (lvls : List Level) (lower : List Child), Good lower →
    WFup m lower lvls → lvls ≠ [] → ∀ (k : Key) (a : Int) (q : Ptr), Owner lvls q.key k →
    ∃ lvls', push m lvls q (k, a) = some lvls' ∧ WFup m (put lower k a) lvls' ∧ lvls' ≠ [] := by
  intro lvls
  induction lvls with
  | nil => intro _ _ _ h; exact absurd rfl h
  | cons lv up ih =>
    intro lower hg hw _ k a q hown
    obtain ⟨hl, hup⟩ := hw
    obtain ⟨pre, cs, post, hlv, hp, hpost⟩ := hown
    subst hlv
    obtain ⟨hs, -⟩ := level_head_of_good hg hl
    have hpre := pre_lt_of_sorted hs
    have hpostp := post_gt_of_sorted hs
    obtain ⟨hflat, hscs, ⟨c0, r0, hc0, hk0⟩, hA, hB, hC⟩ := owner_facts hg hl hp hpost
    have hget : get? (pre ++ (q.key, cs) :: post) q.key = some cs := get?_mid hpre
    have hgs : Good (summary (pre ++ (q.key, cs) :: post)) := good_summary hg hl
    have hmem' : ∃ c ∈ summary (pre ++ (q.key, cs) :: post), c.1 = q.key :=
      ⟨(q.key, acc cs), by simp [summary], rfl⟩
    by_cases hfind : (find cs k).2 = true
    · -- existing child: updateAccumulation
      have hmem : ∃ c ∈ lower, c.1 = k := by
        obtain ⟨c, hc, e⟩ := find_true_mem hfind
        exact ⟨c, by rw [hflat]; simp [hc], e⟩
      obtain ⟨lvls', h1, h2, h3⟩ :=
        updateAcc_wf ((pre ++ (q.key, cs) :: post) :: up) lower hg
          (show WFup m lower (_ :: _) from ⟨hl, hup⟩) k a q hmem
          (show Owner (_ :: _) q.key k from ⟨pre, cs, post, rfl, hp, hpost⟩)
      refine ⟨lvls', ?_, h2, ?_⟩
      · rw [push]; simp only [hget, hfind, if_true]; exact h1
      · intro e; rw [e] at h3; simp at h3
    · have hfind' : (find cs k).2 = false := by simpa using hfind
      have hcs' : insertAt cs (find cs k).1 (k, a) = put cs k a := insertAt_find_eq_put hfind'
      have hnotmem : ∀ c ∈ cs, c.1 ≠ k := fun c hc e => hfind (find_true_of_mem hscs ⟨c, hc, e⟩)
      have hkp : c0.1 ≠ k := hnotmem c0 (by rw [hc0]; simp)
      have hput0 : put cs k a = c0 :: put r0 k a := by
        rw [hc0]; obtain ⟨j, w⟩ := c0
        simp only at hk0 hkp
        have : ¬ k < j := hk0 ▸ hp
        simp [put, hkp, this]
      have hlen : (put cs k a).length = cs.length + 1 := by rw [← hcs', length_insertAt]
      have hscs' : SortedA (put cs k a) := sortedA_put hscs k a
      have hlenm : cs.length ≤ m := by
        obtain ⟨_, _, _, _, h⟩ := hl.2 (q.key, cs) (by simp); exact h
      have hpostcs : ∀ n ∈ post, ∀ c ∈ cs, c.1 < n.1 := by
        intro n hn c hc
        obtain ⟨cn, rn, hcn, hkn, _⟩ := hl.2 n (by simp [hn])
        have : cn ∈ (post.map (·.2)).flatten :=
          List.mem_flatten.mpr ⟨n.2, List.mem_map_of_mem hn, by rw [hcn]; simp⟩
        rw [hkn]; exact hC cn this c hc
      by_cases hover : (put cs k a).length > m
      · -- overflow: split at m/2+1
        have hsplit : m / 2 + 1 < (put cs k a).length := by omega
        cases hright : (put cs k a).drop (m / 2 + 1) with
        | nil => rw [List.drop_eq_nil_iff] at hright; omega
        | cons rr rs =>
          have hleft : (put cs k a).take (m / 2 + 1) = c0 :: (put r0 k a).take (m / 2) := by
            rw [hput0]; rfl
          have hrrmem : rr ∈ put r0 k a := by
            have : rr ∈ (put cs k a).drop (m / 2 + 1) := by rw [hright]; simp
            rw [hput0] at this
            exact List.mem_of_mem_drop (by simpa using this)
          have hqr : q.key < rr.1 := by
            have := (List.pairwise_cons.mp (hput0 ▸ hscs')).1 rr hrrmem
            rw [← hk0]; exact this
          have hrpost : ∀ n ∈ post, rr.1 < n.1 := by
            intro n hn
            have : rr ∈ put cs k a := by rw [hput0]; exact List.mem_cons_of_mem _ hrrmem
            rcases mem_put this with h | h
            · rw [h]; exact hpost n hn
            · exact hpostcs n hn rr h
          have hput1 : put (pre ++ (q.key, cs) :: post) rr.1 (rr :: rs) =
              pre ++ (q.key, cs) :: (rr.1, rr :: rs) :: post := by
            rw [put_append_of_lt (fun n hn => klt_trans (hpre n hn) hqr)]
            simp only [put, if_neg (klt_ne hqr), if_neg (klt_asymm hqr)]
            rw [put_of_lt_all hrpost]
          have hput2 : put (pre ++ (q.key, cs) :: (rr.1, rr :: rs) :: post) q.key ((put cs k a).take (m / 2 + 1)) =
              pre ++ (q.key, (put cs k a).take (m / 2 + 1)) :: (rr.1, rr :: rs) :: post := by
            rw [put_append_of_lt hpre, put_head_same]
          have htd : (put cs k a).take (m / 2 + 1) ++ (rr :: rs) = put cs k a := by
            rw [← hright]; exact List.take_append_drop _ _
          have hlinked : Linked m (put lower k a)
              (put (put (pre ++ (q.key, cs) :: post) rr.1 (rr :: rs)) q.key ((put cs k a).take (m / 2 + 1))) := by
            rw [hput1, hput2]
            constructor
            · have e : put cs k a ++ (post.map (·.2)).flatten =
                  (put cs k a).take (m / 2 + 1) ++ ((rr :: rs) ++ (post.map (·.2)).flatten) := by
                rw [← List.append_assoc, htd]
              rw [hflat, put_append_of_lt hA, put_append_of_gt hB, e]; simp
            · intro n hn
              rcases List.mem_append.mp hn with hn | hn
              · exact hl.2 n (by simp [hn])
              · rcases List.mem_cons.mp hn with hn | hn
                · subst hn
                  refine ⟨c0, _, hleft, hk0.symm, ?_⟩
                  simp only [List.length_take]; omega
                · rcases List.mem_cons.mp hn with hn | hn
                  · subst hn
                    refine ⟨rr, rs, rfl, rfl, ?_⟩
                    have := congrArg List.length hright
                    simp only [List.length_drop] at this
                    simp only at this ⊢; omega
                  · exact hl.2 n (by simp [hn])
          cases up with
          | nil =>
            -- new root
            have hlen1 : (summary (pre ++ (q.key, cs) :: post)).length = 1 := hup
            have hpre0 : pre = [] := by
              simp [summary] at hlen1; exact List.eq_nil_of_length_eq_zero (by omega)
            have hpost0 : post = [] := by
              simp [summary] at hlen1; exact List.eq_nil_of_length_eq_zero (by omega)
            subst hpre0 hpost0
            have hq0 : q.key = [] := by
              obtain ⟨v, r, h⟩ := hgs.2
              simp [summary] at h; exact h.1.1
            refine ⟨put (put ([] ++ (q.key, cs) :: []) rr.1 (rr :: rs)) q.key ((put cs k a).take (m / 2 + 1)) ::
              [[([], [(q.key, acc ((put cs k a).take (m / 2 + 1))), (rr.1, acc (rr :: rs))])]], ?_, ⟨hlinked, ?_, ?_⟩, by simp⟩
            · rw [push]
              simp only [hget, hfind', Bool.false_eq_true, if_false, hcs', hover, if_true, hright,
                parentPtr, existsPtr, createIn, Ptr.nil, Bool.not_false]
            · rw [hput1, hput2]
              constructor
              · simp [summary]
              · intro n hn
                have : n = ([], [(q.key, acc ((put cs k a).take (m / 2 + 1))), (rr.1, acc (rr :: rs))]) := by
                  simpa using hn
                subst this
                exact ⟨_, _, rfl, hq0.symm, by simp; omega⟩
            · simp [WFup, summary]
          | cons lvU upU =>
            obtain ⟨par, hpar⟩ : ∃ par, parentPtr (lvU :: upU) q = par := ⟨_, rfl⟩
            obtain ⟨hsU, -⟩ := level_head_of_good hgs hup.1
            have hownU := owner_parentPtr hgs hup q
            rw [hpar] at hownU
            obtain ⟨preU, csU, postU, hlvU, hpU, hpostU⟩ := hownU
            subst hlvU
            have hexists : existsPtr ((preU ++ (par.key, csU) :: postU) :: upU) par = true := by
              simp only [existsPtr, has]
              rw [get?_mid (pre_lt_of_sorted hsU)]; rfl
            have hownR : Owner ((preU ++ (par.key, csU) :: postU) :: upU) par.key rr.1 := by
              refine ⟨preU, csU, postU, rfl, klt_asymm (kle_lt_trans hpU hqr), ?_⟩
              intro n hn
              have hnU : n ∈ preU ++ (par.key, csU) :: postU := by simp [hn]
              obtain ⟨cn, rn, hcn, hkn, _⟩ := hup.1.2 n hnU
              have hcnmem : cn ∈ summary (pre ++ (q.key, cs) :: post) := by
                rw [← hup.1.1]
                exact List.mem_flatten.mpr ⟨n.2, List.mem_map_of_mem hnU, by rw [hcn]; simp⟩
              obtain ⟨x, hx, hxe⟩ := List.mem_map.mp hcnmem
              have hx1 : x.1 = n.1 := by rw [hkn, ← hxe]
              have hqn : q.key < n.1 := hpostU n hn
              rcases List.mem_append.mp hx with hx | hx
              · exact absurd (hx1 ▸ hpre x hx) (klt_asymm hqn)
              · rcases List.mem_cons.mp hx with hx | hx
                · subst hx; exact absurd (hx1 ▸ hqn) (klt_irrefl _)
                · rw [← hx1]; exact hrpost x hx
            obtain ⟨up1, hp1, hw1, _⟩ := ih _ hgs hup (by simp) rr.1 (acc (rr :: rs)) par hownR
            have hg1 := good_put hgs rr.1 (acc (rr :: rs))
            obtain ⟨up2, hu1, hu2, hu3⟩ := updateAcc_wf up1 _ hg1 hw1 q.key (acc ((put cs k a).take (m / 2 + 1)))
              (parentPtr up1 q) (key_mem_put hmem') (owner_parentPtr hg1 hw1 q)
            refine ⟨put (put (pre ++ (q.key, cs) :: post) rr.1 (rr :: rs)) q.key ((put cs k a).take (m / 2 + 1)) :: up2,
              ?_, ⟨hlinked, ?_⟩, by simp⟩
            · rw [push]
              simp only [hget, hfind', Bool.false_eq_true, if_false, hcs', hover, if_true, hright, hpar,
                hexists, Bool.not_true, hp1, hu1]
            · rw [summary_put, summary_put]; exact hu2
      · -- fits
        obtain ⟨up2, hu1, hu2, hu3⟩ := updateAcc_wf up _ hgs hup q.key (acc (put cs k a)) (parentPtr up q)
          hmem' (owner_parentPtr hgs hup q)
        refine ⟨put (pre ++ (q.key, cs) :: post) q.key (put cs k a) :: up2, ?_, ⟨?_, ?_⟩, by simp⟩
        · rw [push]
          simp only [hget, hfind', Bool.false_eq_true, if_false, hcs', hover, hu1]
        · have hput : put (pre ++ (q.key, cs) :: post) q.key (put cs k a) = pre ++ (q.key, put cs k a) :: post := by
            rw [put_append_of_lt hpre, put_head_same]
          rw [hput]
          constructor
          · rw [hflat]; exact (put_lower_eq hA hB).symm
          · intro n hn
            rcases List.mem_append.mp hn with hn | hn
            · exact hl.2 n (by simp [hn])
            · rcases List.mem_cons.mp hn with hn | hn
              · subst hn
                exact ⟨c0, _, hput0, hk0.symm, by simp only; omega⟩
              · exact hl.2 n (by simp [hn])
        · rw [summary_put]; exact hu2


/-! ### Set / Increase / Decrease on the store -/

theorem set_wf {s : Store} (h : WF s) (k : Ptr) (v : Int) :
    ∃ s', set s k v = some s' ∧ WF s' ∧ abs s' = SortedMap.insert (abs s) k.key v ∧ s'.m = s.m := by
  obtain ⟨lvls', hp, hw, hne⟩ := push_wf h.m2 s.levels s.leaves h.good h.up h.nonempty k.key v
    (parentPtr s.levels k) (owner_parentPtr h.good h.up k)
  refine ⟨{ s with leaves := put s.leaves k.key v, levels := lvls' }, ?_, ?_, ?_, rfl⟩
  · simp only [set, hp]
  · exact ⟨h.m2, good_put h.good _ _, hne, hw⟩
  · exact put_eq_insert _ _ _

theorem new_wf {m : Nat} (hm : 2 ≤ m) :
    ∃ s, new m = some s ∧ WF s ∧ abs s = [([], 0)] ∧ s.m = m := by
  refine ⟨⟨m, [([], 0)], [[([], [([], 0)])]]⟩, by simp [new, set, push, parentPtr, Ptr.nil, put], ?_, rfl, rfl⟩
  refine ⟨hm, ⟨by simp [SortedA], 0, [], rfl⟩, by simp, ?_⟩
  refine ⟨⟨by simp, ?_⟩, by simp [summary, WFup]⟩
  intro n hn
  have : n = ([], [([], 0)]) := by simpa using hn
  subst this
  exact ⟨([], 0), [], rfl, rfl, by simp; omega⟩

/-- the insert-only operations (all that production — x/lockup — uses) -/
inductive Op where
  | set (k : Ptr) (v : Int)
  | incr (k : Ptr) (v : Int)
  | decr (k : Ptr) (v : Int)

def applyOp (s : Store) : Op → Option Store
  | .set k v => set s k v
  | .incr k v => increase s k v
  | .decr k v => decrease s k v

/-- the same operation on the reference map -/
def specOp (mp : SortedMap.SMap) : Op → SortedMap.SMap
  | .set k v => SortedMap.insert mp k.key v
  | .incr k v => SortedMap.insert mp k.key (SortedMap.get mp k.key + v)
  | .decr k v => SortedMap.insert mp k.key (SortedMap.get mp k.key - v)

def run : Store → List Op → Option Store
  | s, [] => some s
  | s, op :: ops =>
    match applyOp s op with
    | none => none
    | some s' => run s' ops

theorem applyOp_wf {s : Store} (h : WF s) (op : Op) :
    ∃ s', applyOp s op = some s' ∧ WF s' ∧ abs s' = specOp (abs s) op ∧ s'.m = s.m := by
  cases op with
  | set k v => exact set_wf h k v
  | incr k v =>
    obtain ⟨s', h1, h2, h3, h4⟩ := set_wf h k (get s k.key + v)
    exact ⟨s', h1, h2, by rw [h3, get_correct]; rfl, h4⟩
  | decr k v =>
    obtain ⟨s', h1, h2, h3, h4⟩ := set_wf h k (get s k.key + -v)
    exact ⟨s', h1, h2, by rw [h3, get_correct, ← Int.sub_eq_add_neg]; rfl, h4⟩

theorem run_wf : ∀ (ops : List Op) {s : Store}, WF s →
    ∃ s', run s ops = some s' ∧ WF s' ∧ abs s' = ops.foldl specOp (abs s) ∧ s'.m = s.m := by
  intro ops
  induction ops with
  | nil => intro s h; exact ⟨s, rfl, h, rfl, rfl⟩
  | cons op ops ih =>
    intro s h
    obtain ⟨s1, h1, h2, h3, h4⟩ := applyOp_wf h op
    obtain ⟨s2, g1, g2, g3, g4⟩ := ih h2
    exact ⟨s2, by simp only [run, h1, g1], g2, by rw [g3, h3]; rfl, by rw [g4, h4]⟩

/-! ### removal: what holds unconditionally (the leaf level is always right) -/

theorem del_eq_erase (l : List Child) (k : Key) : del l k = SortedMap.erase l k := by
  induction l with
  | nil => rfl
  | cons c rest ih => obtain ⟨q, w⟩ := c; simp only [del, SortedMap.erase, ih]

theorem erase_absent {l : List Child} {k : Key} (h : get? l k = none) : SortedMap.erase l k = l := by
  induction l with
  | nil => rfl
  | cons c rest ih =>
    obtain ⟨q, w⟩ := c
    simp only [get?] at h
    by_cases hq : q = k
    · simp [hq] at h
    · simp only [hq, if_false] at h
      simp only [SortedMap.erase, hq, if_false, ih h]

theorem remove_abs {s s' : Store} {k : Ptr} (h : remove s k = some s') :
    abs s' = SortedMap.erase (abs s) k.key := by
  unfold remove at h
  split at h
  · split at h
    · cases h
    · cases h; exact del_eq_erase _ _
  · next hn =>
    cases h
    have : get? s.leaves k.key = none := by
      simp only [has] at hn
      cases hg : get? s.leaves k.key with
      | none => rfl
      | some v => simp [hg] at hn
    exact (erase_absent this).symm

end OsmoVerif.SumTree
