/-
C03 helpers, part 8: the OTHER direction of the rounding theorems — how far a within-bucket step can fall short of
the exact curve between its actual start and end sqrt prices.
  amount out  (truncation of the round-down delta):  exact − out < 1 raw unit (token1)  /  1 + loss0 raw units (token0)
  amount in   (ceiling of the round-up delta, a WHOLE number of tokens):  in − exact < 10^18 raw units (token1)
                                                                         /  10^18 + gain0 raw units (token0)
raw unit = 10^-18 token; `loss0 p q = (10^72/(p·q) + 10^36/min p q)/10^18`, `gain0 p q = 10^54/(p·q)` (`p q` raw
36-decimal sqrt prices: both below 2·10^-6 raw units for sqrt prices ≥ 10^-6, the execution floor).
-/
import OsmoVerif.Proofs.CLCurveReach

namespace OsmoVerif.CLSolv
open OsmoVerif.CLPool OsmoVerif.CLBook OsmoVerif.CL OsmoVerif.Num OsmoVerif.Tick OsmoVerif.Gen OsmoVerif.Spec
open OsmoVerif.Props

/-! ## integer level: the two-sided rounding specs of the amount deltas -/

/-- token1 rounded down: `r = ⌊|b−a|·liq / 10^18⌋`, the strict side. -/
theorem amount1_roundDown_lower {liq a b r : Int} (hl : 0 ≤ liq) (h : calcAmount1Delta liq a b false = some r) :
    ((b - a).natAbs : Int) * liq < (r + 1) * P18 := by
  rw [calcAmount1Delta_roundDown_eq] at h
  obtain ⟨d, hd, hr⟩ := Option.bind_eq_some_iff.mp h
  have ed := C12.sub_exact hd
  subst ed
  have hdl : 0 ≤ ((b - a).natAbs : Int) * liq := Int.mul_nonneg (by omega) hl
  exact ((C12.mulTruncateDec_toward_zero hr).1 hdl).2

/-- token1 rounded up: the whole number of tokens `k = ⌈|b−a|·liq / 10^54⌉`, the strict side. -/
theorem amount1_roundUp_upper {liq a b r : Int} (h : calcAmount1Delta liq a b true = some r) :
    ∃ k, r = k * P36 ∧ (k - 1) * (P36 * P18) < ((b - a).natAbs : Int) * liq := by
  rw [calcAmount1Delta_roundUp_eq] at h
  obtain ⟨d, hd, h1⟩ := Option.bind_eq_some_iff.mp h
  obtain ⟨x, hx, hr⟩ := Option.bind_eq_some_iff.mp h1
  have ed := C12.sub_exact hd
  subst ed
  have cx : IsCeil _ _ _ := C12.mulRoundUpDec_ceil hx
  obtain ⟨k, hk, ck⟩ := C12.ceil_ceil hr
  refine ⟨k, hk, ?_⟩
  have h1 : (k - 1) * P36 ≤ x - 1 := by have := ck.1; omega
  have h2 : (k - 1) * P36 * P18 ≤ (x - 1) * P18 := Int.mul_le_mul_of_nonneg_right h1 P18_nonneg
  have h3 := cx.1
  rw [← Int.mul_assoc]
  omega

/-- token0 rounded down (sorted prices): the three nested floors, strict sides. -/
theorem amount0_roundDown_lower_sorted {liq a b r : Int} (ha : 0 < a) (hab : a ≤ b) (hl : 0 ≤ liq)
    (h : calcAmount0Delta liq a b false = some r) :
    ∃ x y, (b - a) * liq < (x + 1) * P18 ∧ x * P36 < (y + 1) * b ∧ y * P36 < (r + 1) * a := by
  rw [calcAmount0Delta_roundDown_eq hab] at h
  obtain ⟨d, hd, h1⟩ := Option.bind_eq_some_iff.mp h
  obtain ⟨x, hx, h2⟩ := Option.bind_eq_some_iff.mp h1
  obtain ⟨y, hy, hr⟩ := Option.bind_eq_some_iff.mp h2
  have hb : 0 < b := by omega
  have ed := C12.sub_exact hd
  subst ed
  have hdl : 0 ≤ (b - a) * liq := Int.mul_nonneg (by omega) hl
  have tx := C12.mulTruncateDec_toward_zero hx
  obtain ⟨x0, _⟩ := trunc_nonneg_le P18_pos hdl tx
  have ty := quoTruncate_trunc_pos hb hy
  obtain ⟨y0, _⟩ := trunc_nonneg_le hb (Int.mul_nonneg x0 P36_nonneg) ty
  have tr := quoTruncate_trunc_pos ha hr
  exact ⟨x, y, (tx.1 hdl).2, (ty.1 (Int.mul_nonneg x0 P36_nonneg)).2, (tr.1 (Int.mul_nonneg y0 P36_nonneg)).2⟩

/-- token0 rounded up (sorted prices): the three nested ceilings, strict sides; the result is `k` whole tokens. -/
theorem amount0_roundUp_upper_sorted {liq a b r : Int} (ha : 0 < a) (hab : a ≤ b)
    (h : calcAmount0Delta liq a b true = some r) :
    ∃ x y k, r = k * P36 ∧ (x - 1) * P18 < (b - a) * liq ∧ (y - 1) * b < x * P36 ∧ (k - 1) * a < y := by
  rw [calcAmount0Delta_roundUp_eq hab] at h
  obtain ⟨d, hd, h1⟩ := Option.bind_eq_some_iff.mp h
  obtain ⟨x, hx, h2⟩ := Option.bind_eq_some_iff.mp h1
  obtain ⟨y, hy, hr⟩ := Option.bind_eq_some_iff.mp h2
  have hb : 0 < b := by omega
  have ed := C12.sub_exact hd
  subst ed
  have cx := C12.mulRoundUpDec_ceil hx
  have cy := quoRoundUpMut_ceil_pos hb hy
  obtain ⟨k, hk, ck⟩ := quoRoundUpNextInt_ceil_pos ha hr
  exact ⟨x, y, k, hk, cx.1, cy.1, ck.1⟩

/-! ## rational level -/

/-- rounding loss of the token0 amount out beyond the final unit, raw 18-decimal units. -/
def loss0 (p q : Int) : ℚ := (10 ^ 72 / ((p : ℚ) * q) + 10 ^ 36 / ((min p q : Int) : ℚ)) / 10 ^ 18
/-- rounding excess of the token0 amount in beyond the whole token, raw 18-decimal units. -/
def gain0 (p q : Int) : ℚ := 10 ^ 54 / ((p : ℚ) * q)

/-- per-step bound on `exact out − out`, raw 18-decimal units. -/
def outLoss (zfo : Bool) (p q : Int) : ℚ := if zfo then 1 else 1 + loss0 p q
/-- per-step bound on `in − exact in`, raw 18-decimal units: one whole token (+ `gain0` for token0). -/
def inGain (zfo : Bool) (p q : Int) : ℚ := if zfo then 10 ^ 18 + gain0 p q else 10 ^ 18

theorem P36_cast : ((P36 : Int) : ℚ) = 10 ^ 36 := by rw [P36_eq]; norm_num
theorem Pdiff_cast : ((Pdiff : Int) : ℚ) = 10 ^ 18 := by rw [Pdiff_eq]; norm_num

theorem exact0_sorted {liq a b : Int} (hab : a ≤ b) :
    exact0 liq a b = ((b : ℚ) - a) * liq * 10 ^ 36 / ((a : ℚ) * b) := by
  unfold exact0
  rw [show ((a - b).natAbs : Int) = b - a by omega]
  push_cast; rfl

theorem exact0_comm (liq p q : Int) : exact0 liq p q = exact0 liq q p := by
  unfold exact0
  rw [show ((p - q).natAbs : Int) = ((q - p).natAbs : Int) by omega, Int.mul_comm p q]

theorem exact1_comm (liq p q : Int) : exact1 liq p q = exact1 liq q p := by
  unfold exact1
  rw [show ((p - q).natAbs : Int) = ((q - p).natAbs : Int) by omega]

theorem loss0_comm (p q : Int) : loss0 p q = loss0 q p := by
  unfold loss0; rw [mul_comm (p : ℚ) q, Int.min_comm]
theorem gain0_comm (p q : Int) : gain0 p q = gain0 q p := by
  unfold gain0; rw [mul_comm (p : ℚ) q]

/-- token0 out, sorted: `exact − (O + 1) < loss0`. -/
theorem out0_lower_sorted {liq a b y O : Int} (ha : 0 < a) (hab : a ≤ b) (hl : 0 ≤ liq)
    (hy : calcAmount0Delta liq a b false = some y) (hO : IsTrunc y Pdiff O) :
    exact0 liq a b - (1 + loss0 a b) < (O : ℚ) := by
  obtain ⟨x, w, h1, h2, h3⟩ := amount0_roundDown_lower_sorted ha hab hl hy
  have y0 := (amount0_roundDown_sorted ha hab hl hy).2
  have h4 : y + 1 ≤ (O + 1) * Pdiff := by have := (hO.1 y0).2; omega
  have hb : 0 < b := by omega
  have qa : (0 : ℚ) < a := by exact_mod_cast ha
  have qb : (0 : ℚ) < b := by exact_mod_cast hb
  have H1 : ((b : ℚ) - a) * liq < (x + 1) * 10 ^ 18 := by
    have : (((b - a) * liq : Int) : ℚ) < (((x + 1) * P18 : Int) : ℚ) := Int.cast_lt.mpr h1
    push_cast at this; rw [P18_cast] at this; exact this
  have H2 : (x : ℚ) * 10 ^ 36 < (w + 1) * b := by
    have : ((x * P36 : Int) : ℚ) < (((w + 1) * b : Int) : ℚ) := Int.cast_lt.mpr h2
    push_cast at this; rw [P36_cast] at this; exact this
  have H3 : (w : ℚ) * 10 ^ 36 < (y + 1) * a := by
    have : ((w * P36 : Int) : ℚ) < (((y + 1) * a : Int) : ℚ) := Int.cast_lt.mpr h3
    push_cast at this; rw [P36_cast] at this; exact this
  have H4 : (y : ℚ) + 1 ≤ (O + 1) * 10 ^ 18 := by
    have : ((y + 1 : Int) : ℚ) ≤ (((O + 1) * Pdiff : Int) : ℚ) := Int.cast_le.mpr h4
    push_cast at this; rw [Pdiff_cast] at this; exact this
  -- multiplied out: D·L·10^54 < (O+1)·10^18·a·b + 10^36·b + 10^72
  have K1 : ((b : ℚ) - a) * liq * 10 ^ 54 < (x + 1) * 10 ^ 18 * 10 ^ 54 := by
    exact mul_lt_mul_of_pos_right H1 (by positivity)
  have K2 : (x : ℚ) * 10 ^ 36 * 10 ^ 36 < (w + 1) * b * 10 ^ 36 := mul_lt_mul_of_pos_right H2 (by positivity)
  have K3 : (w : ℚ) * 10 ^ 36 * b < (y + 1) * a * b := mul_lt_mul_of_pos_right H3 qb
  have K4 : ((y : ℚ) + 1) * (a * b) ≤ (O + 1) * 10 ^ 18 * (a * b) := mul_le_mul_of_nonneg_right H4 (by positivity)
  have key : ((b : ℚ) - a) * liq * 10 ^ 54 < ((O : ℚ) + 1) * 10 ^ 18 * (a * b) + 10 ^ 36 * b + 10 ^ 72 := by
    nlinarith [K1, K2, K3, K4]
  rw [exact0_sorted hab]
  unfold loss0
  rw [show ((min a b : Int) : ℚ) = a by rw [Int.min_eq_left hab]]
  have hab' : (0 : ℚ) < a * b := by positivity
  rw [sub_lt_iff_lt_add, div_lt_iff₀ hab']
  have e : ((O : ℚ) + (1 + (10 ^ 72 / ((a : ℚ) * b) + 10 ^ 36 / a) / 10 ^ 18)) * (a * b) =
      (((O : ℚ) + 1) * 10 ^ 18 * (a * b) + 10 ^ 36 * b + 10 ^ 72) / 10 ^ 18 := by
    field_simp
    ring
  rw [e, lt_div_iff₀ (by positivity)]
  calc ((b : ℚ) - a) * liq * 10 ^ 36 * 10 ^ 18 = ((b : ℚ) - a) * liq * 10 ^ 54 := by ring
    _ < _ := key

/-- token0 in, sorted: `S − exact < 10^18 + gain0` (`S` the 18-decimal ceiling, a whole number of tokens). -/
theorem in0_upper_sorted {liq a b x S : Int} (ha : 0 < a) (hab : a ≤ b)
    (hx : calcAmount0Delta liq a b true = some x) (hS : IsCeil x Pdiff S) :
    (S : ℚ) < exact0 liq a b + (10 ^ 18 + gain0 a b) := by
  obtain ⟨u, w, k, e, h1, h2, h3⟩ := amount0_roundUp_upper_sorted ha hab hx
  subst e
  have eS : S = k * P18 := by
    have : k * P36 = (k * P18) * Pdiff := by rw [P36_eq_mul, Pdiff_eq_P18]; ring
    rw [this] at hS
    exact hS.exact Pdiff_pos
  have hb : 0 < b := by omega
  have qa : (0 : ℚ) < a := by exact_mod_cast ha
  have qb : (0 : ℚ) < b := by exact_mod_cast hb
  have h3' : (k - 1) * a ≤ w - 1 := by omega
  have H1 : ((u : ℚ) - 1) * 10 ^ 18 < ((b : ℚ) - a) * liq := by
    have : (((u - 1) * P18 : Int) : ℚ) < (((b - a) * liq : Int) : ℚ) := Int.cast_lt.mpr h1
    push_cast at this; rw [P18_cast] at this; exact this
  have H2 : ((w : ℚ) - 1) * b < u * 10 ^ 36 := by
    have : (((w - 1) * b : Int) : ℚ) < ((u * P36 : Int) : ℚ) := Int.cast_lt.mpr h2
    push_cast at this; rw [P36_cast] at this; exact this
  have H3 : ((k : ℚ) - 1) * a ≤ w - 1 := by
    have : (((k - 1) * a : Int) : ℚ) ≤ ((w - 1 : Int) : ℚ) := Int.cast_le.mpr h3'
    push_cast at this; exact this
  -- (k−1)·a·b·10^18 < D·L·10^36 + 10^54
  have K3 : ((k : ℚ) - 1) * a * b * 10 ^ 18 ≤ (w - 1) * b * 10 ^ 18 := by
    have := mul_le_mul_of_nonneg_right H3 (le_of_lt qb)
    exact mul_le_mul_of_nonneg_right this (by positivity)
  have K2 : ((w : ℚ) - 1) * b * 10 ^ 18 < u * 10 ^ 36 * 10 ^ 18 := mul_lt_mul_of_pos_right H2 (by positivity)
  have K1 : ((u : ℚ) - 1) * 10 ^ 18 * 10 ^ 36 < ((b : ℚ) - a) * liq * 10 ^ 36 := mul_lt_mul_of_pos_right H1 (by positivity)
  have key : ((k : ℚ) - 1) * 10 ^ 18 * (a * b) < ((b : ℚ) - a) * liq * 10 ^ 36 + 10 ^ 54 := by
    nlinarith [K1, K2, K3]
  rw [exact0_sorted hab, eS]
  unfold gain0
  have hab' : (0 : ℚ) < a * b := by positivity
  have e : ((b : ℚ) - a) * liq * 10 ^ 36 / (a * b) + (10 ^ 18 + 10 ^ 54 / (a * b)) =
      (((b : ℚ) - a) * liq * 10 ^ 36 + 10 ^ 54) / (a * b) + 10 ^ 18 := by
    field_simp
    ring
  rw [e]
  push_cast
  rw [P18_cast, ← sub_lt_iff_lt_add, lt_div_iff₀ hab']
  calc ((k : ℚ) * 10 ^ 18 - 10 ^ 18) * (a * b) = ((k : ℚ) - 1) * 10 ^ 18 * (a * b) := by ring
    _ < _ := key

/-- token1 out: `exact − (O + 1) < 0`. -/
theorem out1_lower {liq p q y O : Int} (hl : 0 ≤ liq)
    (hy : calcAmount1Delta liq p q false = some y) (hO : IsTrunc y Pdiff O) :
    exact1 liq p q - 1 < (O : ℚ) := by
  rw [calcAmount1Delta_comm] at hy
  have h1 := amount1_roundDown_lower hl hy
  have y0 := (amount1_roundDown_abs hl hy).2
  have h4 : y + 1 ≤ (O + 1) * Pdiff := by have := (hO.1 y0).2; omega
  have h5 : (y + 1) * P18 ≤ (O + 1) * Pdiff * P18 := Int.mul_le_mul_of_nonneg_right h4 P18_nonneg
  have h6 : ((p - q).natAbs : Int) * liq < (O + 1) * P36 := by
    rw [P36_eq_mul, ← Pdiff_eq_P18, ← Int.mul_assoc]; rw [Pdiff_eq_P18] at h5 ⊢; omega
  unfold exact1
  rw [sub_lt_iff_lt_add, div_lt_iff₀ (by norm_num)]
  have : ((((p - q).natAbs : Int) * liq : Int) : ℚ) < (((O + 1) * P36 : Int) : ℚ) := Int.cast_lt.mpr h6
  rw [P36_eq] at this
  push_cast at this ⊢
  exact this

/-- token1 in: `S − exact < 10^18`. -/
theorem in1_upper {liq p q x S : Int} (hx : calcAmount1Delta liq p q true = some x) (hS : IsCeil x Pdiff S) :
    (S : ℚ) < exact1 liq p q + 10 ^ 18 := by
  rw [calcAmount1Delta_comm] at hx
  obtain ⟨k, e, h1⟩ := amount1_roundUp_upper hx
  subst e
  have eS : S = k * P18 := by
    have : k * P36 = (k * P18) * Pdiff := by rw [P36_eq_mul, Pdiff_eq_P18]; ring
    rw [this] at hS
    exact hS.exact Pdiff_pos
  unfold exact1
  rw [← sub_lt_iff_lt_add, lt_div_iff₀ (by norm_num)]
  have : (((k - 1) * (P36 * P18) : Int) : ℚ) < ((((p - q).natAbs : Int) * liq : Int) : ℚ) := Int.cast_lt.mpr h1
  rw [eS, P36_eq, P18_eq] at *
  push_cast at this ⊢
  linarith

theorem out0_lower {liq p q y O : Int} (hp : 0 < p) (hq : 0 < q) (hl : 0 ≤ liq)
    (hy : calcAmount0Delta liq p q false = some y) (hO : IsTrunc y Pdiff O) :
    exact0 liq p q - (1 + loss0 p q) < (O : ℚ) := by
  rcases Int.le_total p q with hpq | hpq
  · exact out0_lower_sorted hp hpq hl hy hO
  · rw [calcAmount0Delta_comm] at hy
    rw [exact0_comm, loss0_comm]
    exact out0_lower_sorted hq hpq hl hy hO

theorem in0_upper {liq p q x S : Int} (hp : 0 < p) (hq : 0 < q)
    (hx : calcAmount0Delta liq p q true = some x) (hS : IsCeil x Pdiff S) :
    (S : ℚ) < exact0 liq p q + (10 ^ 18 + gain0 p q) := by
  rcases Int.le_total p q with hpq | hpq
  · exact in0_upper_sorted hp hpq hx hS
  · rw [calcAmount0Delta_comm] at hx
    rw [exact0_comm, gain0_comm]
    exact in0_upper_sorted hq hpq hx hS

/-- amount out of a step (uncapped): less than `outLoss` raw units below the exact curve. -/
theorem outLower_of_deltaOut {zfo : Bool} {liq p q y O : Int} (hp : 0 < p) (hq : 0 < q) (hl : 0 ≤ liq)
    (hy : deltaOut zfo liq p q = some y) (hO : IsTrunc y Pdiff O) :
    exactOut zfo liq p q - outLoss zfo p q < (O : ℚ) := by
  unfold deltaOut at hy; unfold exactOut outLoss
  cases zfo
  · simp only [Bool.false_eq_true, ↓reduceIte] at hy ⊢
    exact out0_lower hp hq hl hy hO
  · simp only [↓reduceIte] at hy ⊢
    exact out1_lower hl hy hO

/-- amount in of a step: less than `inGain` raw units (one whole token + …) above the exact curve. -/
theorem inUpper_of_deltaIn {zfo : Bool} {liq p q x S : Int} (hp : 0 < p) (hq : 0 < q)
    (hx : deltaIn zfo liq p q = some x) (hS : IsCeil x Pdiff S) :
    (S : ℚ) < exactIn zfo liq p q + inGain zfo p q := by
  unfold deltaIn at hx; unfold exactIn inGain
  cases zfo
  · simp only [Bool.false_eq_true, ↓reduceIte] at hx ⊢
    exact in1_upper hx hS
  · simp only [↓reduceIte] at hx ⊢
    exact in0_upper hp hq hx hS

/-! ## the step functions -/

theorem stepOf_in_upper {ogi zfo : Bool} {spf sp target liq rem : Int} {r : StepResult}
    (hsp : 0 < sp) (hn : 0 < r.sqrtPriceNext)
    (h : stepOf ogi zfo spf sp target liq rem = some r) :
    (resIn ogi r : ℚ) < exactIn zfo liq r.sqrtPriceNext sp + inGain zfo r.sqrtPriceNext sp := by
  unfold stepOf at h; unfold resIn
  cases ogi
  · simp only [Bool.false_eq_true, ↓reduceIte] at h ⊢
    obtain ⟨x, y, out0, hx, _, cS, _⟩ := stepInGivenOut_decomp h
    exact inUpper_of_deltaIn hn hsp hx cS
  · simp only [↓reduceIte] at h ⊢
    obtain ⟨x, y, amtIn0, oneMinus, hx, _, cS, _⟩ := stepOutGivenIn_decomp h
    exact inUpper_of_deltaIn hn hsp hx cS

theorem stepOutGivenIn_out_lower {zfo : Bool} {spf sp target liq rem : Int} {r : StepResult}
    (hsp : 0 < sp) (hn : 0 < r.sqrtPriceNext) (hl : 0 ≤ liq)
    (h : stepOutGivenIn zfo spf sp target liq rem = some r) :
    exactOut zfo liq r.sqrtPriceNext sp - outLoss zfo r.sqrtPriceNext sp < (r.amountOther : ℚ) := by
  obtain ⟨x, y, amtIn0, oneMinus, _, hy, _, cO, _⟩ := stepOutGivenIn_decomp h
  exact outLower_of_deltaOut hn hsp hl hy cO

/-- the spread charge computed from an amount in, the other direction:
`c < amountIn·(spf/(1 − spf) + 10^-18) + 1` raw units. -/
theorem spreadChargeFromAmountIn_lt {amountIn spf c : Int} (ha : 0 ≤ amountIn) (hs0 : 0 ≤ spf) (hs1 : spf < P18)
    (h : spreadChargeFromAmountIn amountIn spf = some c) :
    (c : ℚ) < amountIn * ((spf : ℚ) / (10 ^ 18 - spf) + 1 / 10 ^ 18) + 1 := by
  unfold spreadChargeFromAmountIn spfOverOneMinusSpf at h
  obtain ⟨q, hq, hc⟩ := Option.bind_eq_some_iff.mp h
  obtain ⟨one, hone, hq⟩ := Option.bind_eq_some_iff.mp hq
  have e := dec_sub_exact hone
  subst e
  have cq : IsCeil (spf * P18) (P18 - spf) q := C12.dec_quoRoundUp_ceil_nonneg hs0 (by omega) hq
  have cc : IsCeil (amountIn * q) P18 c := C12.dec_mulRoundUp_ceil hc
  have qs : (0 : ℚ) < 10 ^ 18 - spf := by
    have : ((spf : Int) : ℚ) < ((P18 : Int) : ℚ) := Int.cast_lt.mpr hs1
    rw [P18_cast] at this; linarith
  have H1 : ((q : ℚ) - 1) * (10 ^ 18 - spf) < spf * 10 ^ 18 := by
    have : (((q - 1) * (P18 - spf) : Int) : ℚ) < ((spf * P18 : Int) : ℚ) := Int.cast_lt.mpr cq.1
    push_cast at this; rw [P18_cast] at this; exact this
  have H2 : ((c : ℚ) - 1) * 10 ^ 18 < amountIn * q := by
    have : (((c - 1) * P18 : Int) : ℚ) < ((amountIn * q : Int) : ℚ) := Int.cast_lt.mpr cc.1
    push_cast at this; rw [P18_cast] at this; exact this
  have qa : (0 : ℚ) ≤ amountIn := by exact_mod_cast ha
  have H1' : (q : ℚ) < spf * 10 ^ 18 / (10 ^ 18 - spf) + 1 := by
    rw [← sub_lt_iff_lt_add, lt_div_iff₀ qs]; exact H1
  have H3 : (amountIn : ℚ) * q ≤ amountIn * (spf * 10 ^ 18 / (10 ^ 18 - spf) + 1) :=
    mul_le_mul_of_nonneg_left (le_of_lt H1') qa
  have H4 : (c : ℚ) - 1 < amountIn * (spf * 10 ^ 18 / (10 ^ 18 - spf) + 1) / 10 ^ 18 := by
    rw [lt_div_iff₀ (by positivity)]; linarith
  have e : (amountIn : ℚ) * (spf * 10 ^ 18 / (10 ^ 18 - spf) + 1) / 10 ^ 18 =
      amountIn * ((spf : ℚ) / (10 ^ 18 - spf) + 1 / 10 ^ 18) := by
    field_simp
  rw [e] at H4
  linarith

/-! ## sums over a run -/

def sumOutLoss (zfo : Bool) : List StepRec → ℚ
  | [] => 0
  | e :: tr => outLoss zfo e.res.sqrtPriceNext e.st.pool.sqrtPrice + sumOutLoss zfo tr
def sumInGain (zfo : Bool) : List StepRec → ℚ
  | [] => 0
  | e :: tr => inGain zfo e.res.sqrtPriceNext e.st.pool.sqrtPrice + sumInGain zfo tr

/-- the spread-charge rate with its two roundings: `spf/(1 − spf) + 10^-18`. -/
def feeRate (spf : Int) : ℚ := (spf : ℚ) / (10 ^ 18 - spf) + 1 / 10 ^ 18

theorem sums_rounding {ogi zfo : Bool} {spf : Int} (hs0 : 0 ≤ spf) (hs1 : spf < P18) :
    ∀ (tr : List StepRec),
      (∀ e ∈ tr, RecGood ogi zfo e ∧ e.st.remaining > 1 ∧
        stepOf ogi zfo spf e.st.pool.sqrtPrice e.target e.st.pool.liquidity e.st.remaining = some e.res) →
      (sumIn ogi tr : ℚ) ≤ sumExactIn zfo tr + sumInGain zfo tr ∧
      (ogi = true → sumExactOut zfo tr - sumOutLoss zfo tr ≤ (sumOut ogi tr : ℚ)) ∧
      (ogi = false → (sumCharge tr : ℚ) ≤ (sumIn ogi tr : ℚ) * feeRate spf + tr.length)
  | [], _ => by simp [sumIn, sumOut, sumCharge, sumExactIn, sumExactOut, sumInGain, sumOutLoss]
  | e :: tr, h => by
    obtain ⟨i1, i2, i3⟩ := sums_rounding hs0 hs1 tr (fun e he => h e (List.mem_cons_of_mem _ he))
    obtain ⟨⟨hok, hsp, hn, hdir⟩, hrem, hstep⟩ := h e List.mem_cons_self
    have a := stepOf_in_upper hsp hn hstep
    have ht : 0 < e.target := by
      cases zfo
      · simp only [Bool.false_eq_true, ↓reduceIte] at hdir; omega
      · simp only [↓reduceIte] at hdir; omega
    obtain ⟨_, _, ⟨k, k0, ek⟩, _, _, _⟩ := stepOf_curve hok hsp ht hs0 hs1 (by omega) hstep
    refine ⟨?_, ?_, ?_⟩
    · have a' : (e.amtIn ogi : ℚ) < exactIn zfo e.st.pool.liquidity e.res.sqrtPriceNext e.st.pool.sqrtPrice +
          inGain zfo e.res.sqrtPriceNext e.st.pool.sqrtPrice := a
      unfold sumIn sumExactIn sumInGain
      push_cast
      linarith
    · intro ho
      subst ho
      have b := stepOutGivenIn_out_lower hsp hn hok.1 (by simpa [stepOf] using hstep)
      have := i2 rfl
      unfold sumOut sumExactOut sumOutLoss StepRec.amtOut
      simp only [↓reduceIte]
      push_cast
      linarith
    · intro ho
      subst ho
      have hs : stepInGivenOut zfo spf e.st.pool.sqrtPrice e.target e.st.pool.liquidity e.st.remaining = some e.res := by
        simpa [stepOf] using hstep
      obtain ⟨_, _, _, _, _, _, _, hch, _⟩ := stepInGivenOut_decomp hs
      simp only [resIn, Bool.false_eq_true, ↓reduceIte] at ek
      have a0 : 0 ≤ e.res.amountOther := by rw [ek]; exact Int.mul_nonneg k0 P18_nonneg
      have c := spreadChargeFromAmountIn_lt a0 hs0 hs1 hch
      have := i3 rfl
      unfold sumCharge sumIn StepRec.amtIn feeRate
      simp only [Bool.false_eq_true, ↓reduceIte, List.length_cons]
      unfold feeRate at this
      push_cast
      nlinarith [this, c]

/-! ## uniform per-step bounds from a lower bound `m` on the sqrt prices of the path -/

def outLossU (zfo : Bool) (m : Int) : ℚ := if zfo then 1 else 1 + (10 ^ 72 / ((m : ℚ) * m) + 10 ^ 36 / (m : ℚ)) / 10 ^ 18
def inGainU (zfo : Bool) (m : Int) : ℚ := if zfo then 10 ^ 18 + 10 ^ 54 / ((m : ℚ) * m) else 10 ^ 18

theorem outLoss_le {zfo : Bool} {p q m : Int} (hm : 0 < m) (hp : m ≤ p) (hq : m ≤ q) :
    outLoss zfo p q ≤ outLossU zfo m := by
  unfold outLoss outLossU
  cases zfo
  · simp only [Bool.false_eq_true, ↓reduceIte]
    unfold loss0
    have qm : (0 : ℚ) < m := by exact_mod_cast hm
    have qp : (m : ℚ) ≤ p := by exact_mod_cast hp
    have qq : (m : ℚ) ≤ q := by exact_mod_cast hq
    have qmin : (m : ℚ) ≤ ((min p q : Int) : ℚ) := by
      have : m ≤ min p q := by omega
      exact_mod_cast this
    have h1 : (10 : ℚ) ^ 72 / ((p : ℚ) * q) ≤ 10 ^ 72 / ((m : ℚ) * m) :=
      div_le_div_of_nonneg_left (by positivity) (by positivity) (mul_le_mul qp qq (le_of_lt qm) (by linarith))
    have h2 : (10 : ℚ) ^ 36 / ((min p q : Int) : ℚ) ≤ 10 ^ 36 / (m : ℚ) :=
      div_le_div_of_nonneg_left (by positivity) qm qmin
    have : (10 ^ 72 / ((p : ℚ) * q) + 10 ^ 36 / ((min p q : Int) : ℚ)) / 10 ^ 18 ≤
        (10 ^ 72 / ((m : ℚ) * m) + 10 ^ 36 / (m : ℚ)) / 10 ^ 18 :=
      div_le_div_of_nonneg_right (by linarith) (by positivity)
    linarith
  · simp

theorem inGain_le {zfo : Bool} {p q m : Int} (hm : 0 < m) (hp : m ≤ p) (hq : m ≤ q) :
    inGain zfo p q ≤ inGainU zfo m := by
  unfold inGain inGainU
  cases zfo
  · simp
  · simp only [↓reduceIte]
    unfold gain0
    have qm : (0 : ℚ) < m := by exact_mod_cast hm
    have qp : (m : ℚ) ≤ p := by exact_mod_cast hp
    have qq : (m : ℚ) ≤ q := by exact_mod_cast hq
    have h1 : (10 : ℚ) ^ 54 / ((p : ℚ) * q) ≤ 10 ^ 54 / ((m : ℚ) * m) :=
      div_le_div_of_nonneg_left (by positivity) (by positivity) (mul_le_mul qp qq (le_of_lt qm) (by linarith))
    linarith

theorem sums_uniform {zfo : Bool} {m : Int} (hm : 0 < m) :
    ∀ (tr : List StepRec), (∀ e ∈ tr, m ≤ e.st.pool.sqrtPrice ∧ m ≤ e.res.sqrtPriceNext) →
      sumOutLoss zfo tr ≤ tr.length * outLossU zfo m ∧ sumInGain zfo tr ≤ tr.length * inGainU zfo m
  | [], _ => by simp [sumOutLoss, sumInGain]
  | e :: tr, h => by
    obtain ⟨a, b⟩ := sums_uniform hm tr (fun e he => h e (List.mem_cons_of_mem _ he))
    obtain ⟨h1, h2⟩ := h e List.mem_cons_self
    have c := outLoss_le (zfo := zfo) hm h2 h1
    have d := inGain_le (zfo := zfo) hm h2 h1
    unfold sumOutLoss sumInGain
    simp only [List.length_cons]
    push_cast
    constructor <;> linarith

/-- the lowest sqrt price a swap path can visit: the execution floor `10^30` (= 10^-6) going down, the starting
price going up. -/
def pathFloor (zfo : Bool) (P : Int) : Int := if zfo then 1000000000000000000000000000000 else P

theorem run_floor {ogi zfo : Bool} {spf limit : Int} {st st' : SwapSt} {tr : List StepRec}
    (h : Run ogi zfo spf limit st tr st') (hall : ∀ e ∈ tr, RecGood ogi zfo e) :
    ∀ e ∈ tr, pathFloor zfo st.pool.sqrtPrice ≤ e.st.pool.sqrtPrice ∧
      pathFloor zfo st.pool.sqrtPrice ≤ e.res.sqrtPriceNext := by
  induction h with
  | nil st => intro e he; cases he
  | @cons st st1 st2 target r tr hrem htgt hstep hadv hrun ih =>
    intro e he
    have hg := hall _ List.mem_cons_self
    obtain ⟨_, _, _, hdir⟩ := hg
    simp only at hdir
    rcases List.mem_cons.mp he with rfl | he
    · unfold pathFloor
      cases zfo
      · simp only [Bool.false_eq_true, ↓reduceIte] at hdir ⊢; omega
      · simp only [↓reduceIte] at hdir ⊢; omega
    · have := ih (fun e he => hall e (List.mem_cons_of_mem _ he)) e he
      unfold pathFloor at this ⊢
      cases zfo
      · simp only [Bool.false_eq_true, ↓reduceIte] at hdir this ⊢
        rw [hadv.1] at this; omega
      · simp only [↓reduceIte] at this ⊢; exact this

theorem feeRate_nonneg {spf : Int} (hs0 : 0 ≤ spf) (hs1 : spf < P18) : 0 ≤ feeRate spf := by
  unfold feeRate
  have q0 : (0 : ℚ) ≤ spf := by exact_mod_cast hs0
  have qs : (0 : ℚ) < 10 ^ 18 - spf := by
    have : ((spf : Int) : ℚ) < ((P18 : Int) : ℚ) := Int.cast_lt.mpr hs1
    rw [P18_cast] at this; linarith
  have : (0 : ℚ) ≤ (spf : ℚ) / (10 ^ 18 - spf) := div_nonneg q0 (le_of_lt qs)
  positivity

/-! ## the whole swap -/

/-- bounded rounding for a run all of whose steps are `RecGood` (`ain`, `aout` the integer results). -/
theorem rounding_of_run_good {ogi zfo : Bool} {spf limit : Int} {st st' : SwapSt} {tr : List StepRec} {ain aout : Int}
    {steps : Nat} (hs0 : 0 ≤ spf) (hs1 : spf < P18)
    (hrun : Run ogi zfo spf limit st tr st') (hgood : ∀ e ∈ tr, RecGood ogi zfo e) (hlen : tr.length = steps)
    (c1 : IsCeil (sumIn ogi tr + sumCharge tr) P18 ain) (c2 : IsTrunc (sumOut ogi tr) P18 aout) :
    ((ain : ℚ) - 1) * 10 ^ 18 <
      sumExactIn zfo tr + steps * inGainU zfo (pathFloor zfo st.pool.sqrtPrice) + sumCharge tr ∧
    (ogi = true →
      sumExactOut zfo tr - steps * outLossU zfo (pathFloor zfo st.pool.sqrtPrice) - 10 ^ 18 < (aout : ℚ) * 10 ^ 18) ∧
    (ogi = false →
      (sumCharge tr : ℚ) ≤ (sumIn ogi tr : ℚ) * feeRate spf + steps ∧
      ((ain : ℚ) - 1) * 10 ^ 18 <
        (sumExactIn zfo tr + steps * inGainU zfo (pathFloor zfo st.pool.sqrtPrice)) * (1 + feeRate spf) + steps) := by
  have hfr := feeRate_nonneg hs0 hs1
  -- the integer roundings of the totals
  have hin : ((ain : ℚ) - 1) * 10 ^ 18 < (sumIn ogi tr : ℚ) + sumCharge tr := by
    have : (((ain - 1) * P18 : Int) : ℚ) < ((sumIn ogi tr + sumCharge tr : Int) : ℚ) := Int.cast_lt.mpr c1.1
    push_cast at this; rw [P18_cast] at this; exact this
  have hout : (sumOut ogi tr : ℚ) - 10 ^ 18 < (aout : ℚ) * 10 ^ 18 := by
    have hlt : sumOut ogi tr < (aout + 1) * P18 := by
      rcases Int.lt_or_le (sumOut ogi tr) 0 with hneg | hnn
      · have := (c2.2 hneg).2
        rw [Int.add_mul]; have := P18_pos; omega
      · exact (c2.1 hnn).2
    have : ((sumOut ogi tr : Int) : ℚ) < (((aout + 1) * P18 : Int) : ℚ) := Int.cast_lt.mpr hlt
    push_cast at this; rw [P18_cast] at this; linarith
  cases tr with
  | nil =>
    simp only [List.length_nil] at hlen
    rw [← hlen]
    simp only [sumIn, sumOut, sumCharge, sumExactIn, sumExactOut, Int.cast_zero, Nat.cast_zero, zero_mul, add_zero,
      sub_zero, zero_sub] at hin hout ⊢
    refine ⟨hin, fun _ => ?_, fun _ => ⟨le_refl _, hin⟩⟩
    linarith
  | cons e0 tr0 =>
    have hpos : 0 < st.pool.sqrtPrice := by
      have := (hgood e0 List.mem_cons_self).2.1
      have hpath := hrun.path
      simp only [Path] at hpath
      rw [hpath.1] at this; exact this
    have hm : 0 < pathFloor zfo st.pool.sqrtPrice := by
      unfold pathFloor; cases zfo
      · simpa using hpos
      · simp
    have hfloor := run_floor hrun hgood
    obtain ⟨u1, u2⟩ := sums_uniform (zfo := zfo) hm (e0 :: tr0) hfloor
    have hmem := hrun.mem
    obtain ⟨s1, s2, s3⟩ := sums_rounding (ogi := ogi) (zfo := zfo) hs0 hs1 (e0 :: tr0)
      (fun e he => ⟨hgood e he, (hmem e he).1, (hmem e he).2.2⟩)
    rw [hlen] at u1 u2 s3
    refine ⟨by linarith, fun ho => ?_, fun ho => ?_⟩
    · have := s2 ho; linarith
    · have a := s3 ho
      refine ⟨a, ?_⟩
      have b : (sumIn ogi (e0 :: tr0) : ℚ) * (1 + feeRate spf) ≤
          (sumExactIn zfo (e0 :: tr0) + steps * inGainU zfo (pathFloor zfo st.pool.sqrtPrice)) * (1 + feeRate spf) :=
        mul_le_mul_of_nonneg_right (by linarith) (by linarith)
      linarith

/-- Curve comparison AND bounded rounding of a whole swap on a state that satisfies the C07 invariants, for one and
the same run `tr` (`m = pathFloor zfo p.sqrtPrice` = the lowest sqrt price the path can visit, `steps` the number of
loop iterations; all amounts raw 18-decimal, i.e. `10^18` = one token):
* every step `StepOK`; `amountOut·10^18 ≤ Σ exact out`, `Σ exact in ≤ amountIn·10^18`;
* amount in (both kinds): `(amountIn − 1)·10^18 < Σ exact in + steps·inGainU + Σ charges`;
* amount out (exact-in): `Σ exact out − steps·outLossU − 10^18 < amountOut·10^18`;
* exact-out: `Σ charges ≤ Σ in · feeRate + steps`, hence
  `(amountIn − 1)·10^18 < (Σ exact in + steps·inGainU)·(1 + feeRate) + steps`. -/
theorem swap_rounding_bounded_of_inv {p : Pool} (hinv : Inv p) (hspf : SpfOK p.spf) {ogi zfo : Bool}
    {pl specified : Int} {r : SwapOut} (hpl : ExecOrEstimate zfo pl)
    (h : computeSwap ogi zfo p.spf pl ⟨p.sqrtPrice, p.tick, p.liquidity⟩ (tickList p) specified = some r) :
    ∃ (limit : Int) (tr : List StepRec) (st' : SwapSt),
      Run ogi zfo p.spf limit
        { remaining := specified * P18, calculated := 0, pool := ⟨p.sqrtPrice, p.tick, p.liquidity⟩, spreadTotal := 0,
          noProgress := 0 } tr st' ∧
      Path p.sqrtPrice tr r.pool.sqrtPrice ∧ tr.length = r.steps ∧
      (∀ e ∈ tr, StepOK ogi zfo e.st.pool.sqrtPrice e.target e.st.pool.liquidity) ∧
      ((r.amountOut : ℚ) * 10 ^ 18 ≤ sumExactOut zfo tr ∧ sumExactIn zfo tr ≤ (r.amountIn : ℚ) * 10 ^ 18) ∧
      ((r.amountIn : ℚ) - 1) * 10 ^ 18 <
        sumExactIn zfo tr + r.steps * inGainU zfo (pathFloor zfo p.sqrtPrice) + sumCharge tr ∧
      (ogi = true →
        sumExactOut zfo tr - r.steps * outLossU zfo (pathFloor zfo p.sqrtPrice) - 10 ^ 18 < (r.amountOut : ℚ) * 10 ^ 18) ∧
      (ogi = false →
        (sumCharge tr : ℚ) ≤ (sumIn ogi tr : ℚ) * feeRate p.spf + r.steps ∧
        ((r.amountIn : ℚ) - 1) * 10 ^ 18 <
          (sumExactIn zfo tr + r.steps * inGainU zfo (pathFloor zfo p.sqrtPrice)) * (1 + feeRate p.spf) + r.steps) := by
  obtain ⟨limit, tr, st', _, hv, hrun, hlen, hp, _, _, c1, c2, _, hgood⟩ := computeSwap_run_good hinv hspf hpl h
  obtain ⟨hs0, hs1⟩ := spfOK_lt hspf
  have hc := curve_of_run_good hs0 hs1 (fun hpos => limit_pos_of_valid hpos hv) hrun hgood c1 c2
  have hr := rounding_of_run_good hs0 hs1 hrun hgood hlen c1 c2
  simp only at hr
  refine ⟨limit, tr, st', hrun, ?_, hlen, fun e he => (hgood e he).ok, hc, hr⟩
  rw [hp]; exact hrun.path

/-! ## numbers: above the execution floor (sqrt price ≥ 10^-6) the price-dependent terms are below 2·10^-6 raw units -/

theorem outLossU_le {zfo : Bool} {m : Int} (hm : 1000000000000000000000000000000 ≤ m) :
    outLossU zfo m ≤ 1 + 2 / 10 ^ 6 := by
  unfold outLossU
  cases zfo
  · simp only [Bool.false_eq_true, ↓reduceIte]
    have qm : (10 : ℚ) ^ 30 ≤ m := by exact_mod_cast hm
    have q0 : (0 : ℚ) < m := by linarith [show (0 : ℚ) < 10 ^ 30 by positivity]
    have h1 : (10 : ℚ) ^ 72 / ((m : ℚ) * m) ≤ 10 ^ 72 / (10 ^ 30 * 10 ^ 30) :=
      div_le_div_of_nonneg_left (by positivity) (by positivity) (mul_le_mul qm qm (by positivity) (le_of_lt q0))
    have h2 : (10 : ℚ) ^ 36 / (m : ℚ) ≤ 10 ^ 36 / 10 ^ 30 :=
      div_le_div_of_nonneg_left (by positivity) (by positivity) qm
    have h3 : (10 ^ 72 / ((m : ℚ) * m) + 10 ^ 36 / (m : ℚ)) / 10 ^ 18 ≤
        (10 ^ 72 / (10 ^ 30 * 10 ^ 30) + 10 ^ 36 / 10 ^ 30) / 10 ^ 18 :=
      div_le_div_of_nonneg_right (by linarith) (by positivity)
    have h4 : ((10 : ℚ) ^ 72 / (10 ^ 30 * 10 ^ 30) + 10 ^ 36 / 10 ^ 30) / 10 ^ 18 ≤ 2 / 10 ^ 6 := by norm_num
    linarith
  · simp only [↓reduceIte]; norm_num

theorem inGainU_le {zfo : Bool} {m : Int} (hm : 1000000000000000000000000000000 ≤ m) :
    inGainU zfo m ≤ 10 ^ 18 + 1 / 10 ^ 6 := by
  unfold inGainU
  cases zfo
  · simp only [Bool.false_eq_true, ↓reduceIte]; norm_num
  · simp only [↓reduceIte]
    have qm : (10 : ℚ) ^ 30 ≤ m := by exact_mod_cast hm
    have q0 : (0 : ℚ) < m := by linarith [show (0 : ℚ) < 10 ^ 30 by positivity]
    have h1 : (10 : ℚ) ^ 54 / ((m : ℚ) * m) ≤ 10 ^ 54 / (10 ^ 30 * 10 ^ 30) :=
      div_le_div_of_nonneg_left (by positivity) (by positivity) (mul_le_mul qm qm (by positivity) (le_of_lt q0))
    have h4 : ((10 : ℚ) ^ 54 / (10 ^ 30 * 10 ^ 30)) ≤ 1 / 10 ^ 6 := by norm_num
    linarith

end OsmoVerif.CLSolv
