/-
C08 (incentives, histories) helpers, part 25: the records written by `CreatePosition`, exactly (as lists, not only per
denom), so that two positions created one after the other in the same block with the same range and liquidity are twins:
identical records in all six accumulators and the same join time.  Core only.
-/
import OsmoVerif.Proofs.CLIncHist24

namespace OsmoVerif.CLIncP
open OsmoVerif.Num OsmoVerif.CL OsmoVerif.CLPool OsmoVerif.CLFees OsmoVerif.CLInc OsmoVerif.CLFeesP OsmoVerif.CLBook
open OsmoVerif.Accum (amt sorted hev)
open OsmoVerif.Gen

theorem insideAll_congr {i i' : Inc} (cur l u : Int) (hv : accValues i' = accValues i) (ht : i'.trackers = i.trackers) :
    insideAll i' cur l u = insideAll i cur l u := by
  unfold insideAll tickTr initialTr
  rw [hv, ht]

theorem initTr_of_stored {i : Inc} {cur t : Int} (h : (getTr i.trackers t).isSome) : initTr i cur t = i := by
  unfold initTr
  obtain ⟨v, hv⟩ := Option.isSome_iff_exists.mp h
  rw [hv]

/-- the records `CreatePosition` writes: in accumulator `k` the record `⟨id, liquidity, (growth inside now)[k], []⟩`, where the
growth inside list is `GetUptimeGrowthInsideRange` on the synced state with both boundary ticks initialised — and also on the
resulting state. -/
theorem create_record_exact {s s' : Full} {owner : String} {l u a0 a1 m0 m1 : Int} {id : Nat} {x0 x1 liq lo up : Int}
    (hi : IncInv s) (hc' : InvCore s'.fees.pool)
    (h : CLInc.createPositionMin s owner l u a0 a1 m0 m1 = some (s', id, x0, x1, liq, lo, up)) :
    ∃ (i1 : Inc) (ins : List DC), sync s.inc s.fees.pool.liquidity = some i1 ∧
      insideAll (initTr (initTr i1 s'.fees.pool.tick lo) s'.fees.pool.tick up) s'.fees.pool.tick lo up = some ins ∧
      insideAll s'.inc s'.fees.pool.tick lo up = some ins ∧
      (∀ k, k < 6 → ∃ v, ins[k]? = some v ∧ getURec (accAt s'.inc k).recs id = some ⟨id, liq, v, []⟩) ∧
      s'.inc.now = i1.now ∧ s'.inc.last = s'.inc.now ∧ joinOf s'.inc id = some s'.inc.now := by
  obtain ⟨hp', i1x, hsyncx, _, enx, _, _, ejx, elx, _⟩ := createMinI_part hi.fees hc' hi.inc h
  obtain ⟨_, eid, _⟩ := createMin_facts hi.fees.pool.core hi.fees.acc (createMinI_fees h)
  unfold CLInc.createPositionMin at h
  simp only [Option.bind_eq_some_iff, Option.map_eq_some_iff, Prod.mk.injEq] at h
  obtain ⟨⟨f', id2, y0, y1, liq2, lo2, up2⟩, hfe, i1, hsync, i3, hupd, e1, e2, e3, e4, e5, e6, e7⟩ := h
  simp only at e1 e2 e3 e4 e5 e6 e7 hupd
  have e2' := e2.symm; have e5' := e5.symm; have e6' := e6.symm; have e7' := e7.symm
  subst e2'; subst e5'; subst e6'; subst e7'
  subst e1
  rw [hsync] at hsyncx; injection hsyncx with hsyncx; subst hsyncx
  obtain ⟨hp1, _, n1, _, j1, _⟩ := sync_part hi.inc hsync
  unfold updPosition at hupd
  simp only [Option.bind_eq_some_iff, Option.map_eq_some_iff] at hupd
  obtain ⟨ins, hins, outs, houts, accs', hall, e3c⟩ := hupd
  obtain ⟨l1, l2, l3, hget⟩ := updAll_get hall
  obtain ⟨fr_a, _⟩ := initTr_frame (initTr i1 f'.pool.tick lo) f'.pool.tick up
  obtain ⟨gr_a, _⟩ := initTr_frame i1 f'.pool.tick lo
  have hacc2 : (initTr (initTr i1 f'.pool.tick lo) f'.pool.tick up).accs = i1.accs := by rw [fr_a, gr_a]
  -- per index: the new accumulator
  have newAcc : ∀ (k : Nat) (a1 : UAcc), i1.accs[k]? = some a1 → ∃ (a' : UAcc) (v : DC), accs'[k]? = some a' ∧ ins[k]? = some v ∧
      a'.value = a1.value ∧ a'.recs = a1.recs ++ [⟨id, liq, v, []⟩] ∧ getURec a1.recs id = none := by
    intro k a1 ha1
    obtain ⟨a', iv, ov, h1, h2, _, h4⟩ := hget k a1 (by rw [hacc2]; exact ha1)
    have hnone : getURec a1.recs id = none := by
      cases hh : getURec a1.recs id with
      | none => rfl
      | some r => have := (hp1.accs a1 (mem_of_getElem? ha1)).recIds id (by rw [hh]; rfl); omega
    obtain ⟨_, n1', _, n3'⟩ := updOne_new hnone h4
    exact ⟨a', iv, h1, h2, n1', n3', hnone⟩
  have hlen' : accs'.length = 6 := by rw [l1, hacc2, hp1.len]
  have hvals : accValues ({ i3 with join := i3.join ++ [(id, i3.now)] } : Inc) = accValues (initTr (initTr i1 f'.pool.tick lo) f'.pool.tick up) := by
    unfold accValues
    show i3.accs.map _ = _
    rw [← e3c, hacc2]
    show accs'.map _ = i1.accs.map _
    apply List.ext_getElem?
    intro k
    rw [List.getElem?_map, List.getElem?_map]
    rcases Nat.lt_or_ge k i1.accs.length with hk | hk
    · obtain ⟨a1, ha1⟩ := getElem?_of_lt hk
      obtain ⟨a', v, h1, _, h3, _⟩ := newAcc k a1 ha1
      rw [h1, ha1]; simp only [Option.map_some, h3]
    · rw [List.getElem?_eq_none hk, List.getElem?_eq_none (by rw [l1, hacc2]; exact hk)]
  have htr : ({ i3 with join := i3.join ++ [(id, i3.now)] } : Inc).trackers = (initTr (initTr i1 f'.pool.tick lo) f'.pool.tick up).trackers := by
    rw [← e3c]
  have hnow : ({ i3 with join := i3.join ++ [(id, i3.now)] } : Inc).now = i1.now := enx
  refine ⟨i1, ins, hsync, hins, by rw [insideAll_congr _ _ _ hvals htr]; exact hins, fun k hk => ?_, hnow, ?_, ?_⟩
  · obtain ⟨a1, ha1, _⟩ := hp1.get hk
    obtain ⟨a', v, h1, h2, _, h4, hnone⟩ := newAcc k a1 ha1
    refine ⟨v, h2, ?_⟩
    have : accAt ({ i3 with join := i3.join ++ [(id, i3.now)] } : Inc) k = a' := by
      unfold accAt; show (i3.accs[k]?).getD {} = a'; rw [← e3c]; show (accs'[k]?).getD {} = a'; rw [h1]; rfl
    rw [this, h4, getURec_append, hnone]; simp
  · rw [elx, hnow]; exact sync_last_now hsync
  · unfold joinOf
    rw [ejx, find_join_append, hnow]
    cases hg : List.find? (fun e => decide (e.1 = id)) i1.join with
    | some v =>
      exfalso
      have hm := List.mem_of_find?_eq_some hg
      have he := List.find?_some hg
      have := hp1.joinIds v hm
      simp only [decide_eq_true_eq] at he
      omega
    | none => simp

/-- **two positions created one after the other (no time in between) with the same range and resulting liquidity are twins**:
identical records in all six uptime accumulators and the same join time. -/
theorem twins_created {s s1 s2 : Full} {o1 o2 : String} {l1 u1 a0 a1 l2 u2 b0 b1 : Int} {id1 id2 : Nat}
    {x0 x1 y0 y1 liq lo up : Int} (hi : IncInv s) (hi1 : IncInv s1) (hi2 : IncInv s2)
    (h1 : CLInc.createPositionMin s o1 l1 u1 a0 a1 0 0 = some (s1, id1, x0, x1, liq, lo, up))
    (h2 : CLInc.createPositionMin s1 o2 l2 u2 b0 b1 0 0 = some (s2, id2, y0, y1, liq, lo, up)) :
    (∀ k, k < 6 → RecAgree (accAt s2.inc k) id1 id2) ∧ joinOf s2.inc id1 = joinOf s2.inc id2 ∧ id1 ≠ id2 := by
  obtain ⟨i1, ins1, hsync1, _, hin1, hrec1, hn1, hl1, hj1⟩ := create_record_exact hi hi1.fees.pool.core h1
  obtain ⟨i1', ins2, hsync2, hin2m, _, hrec2, hn2, _, hj2⟩ := create_record_exact hi1 hi2.fees.pool.core h2
  -- the second sync is the identity
  rw [sync_idem hl1] at hsync2
  injection hsync2 with hsync2
  subst hsync2
  -- ids
  obtain ⟨_, eid1, _, _, _, epos1, _⟩ := createMin_facts hi.fees.pool.core hi.fees.acc (createMinI_fees h1)
  obtain ⟨_, eid2, _⟩ := createMin_facts hi1.fees.pool.core hi1.fees.acc (createMinI_fees h2)
  obtain ⟨hpool1, _, _, _⟩ := createMin_spec (createMinI_fees h1)
  obtain ⟨_, _, enext1, _, _, _⟩ := create_positions hi.fees.pool.core hpool1
  obtain ⟨hpool2, _, _, _⟩ := createMin_spec (createMinI_fees h2)
  obtain ⟨_, _, _, etick2, _, _⟩ := create_positions hi1.fees.pool.core hpool2
  have hne : id1 ≠ id2 := by rw [eid1, eid2, enext1]; omega
  -- both boundary ticks are stored in s1, so the second creation initialises nothing
  have hnew : (⟨id1, o1, lo, up, liq⟩ : Position) ∈ s1.fees.pool.positions := by rw [epos1]; simp
  obtain ⟨sl, su⟩ := hi1.inc.stored _ hnew
  have hne1 : s1.fees.pool.positions ≠ [] := fun e => by rw [e] at hnew; cases hnew
  have ht2 : s2.fees.pool.tick = s1.fees.pool.tick := etick2 hne1
  simp only at sl su
  rw [ht2, initTr_of_stored sl, initTr_of_stored su, hin1] at hin2m
  injection hin2m with hins
  subst hins
  have fr := createI_frame hi1 hi2.fees.pool.core h2 (x := id1) (by rw [eid1, enext1]; omega)
  refine ⟨fun k hk => ?_, ?_, hne⟩
  · obtain ⟨v1, hv1, hr1⟩ := hrec1 k hk
    obtain ⟨v2, hv2, hr2⟩ := hrec2 k hk
    rw [hv1] at hv2; injection hv2 with hv2; subst hv2
    exact ⟨⟨id1, liq, v1, []⟩, ⟨id2, liq, v1, []⟩, by rw [fr.recs k]; exact hr1, hr2, rfl, rfl, rfl⟩
  · rw [fr.join, hj1, hj2, hn2]

end OsmoVerif.CLIncP
