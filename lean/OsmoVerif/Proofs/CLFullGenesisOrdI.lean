/-
C19 / x/concentrated-liquidity genesis: the ORDER part of the store shape for the incentive layer (`IncOrd`): uptime trackers in
ascending tick order, position records of every uptime accumulator in ascending position-id order, join times in ascending
position-id order, incentive records in (uptime, id) key order.  List-level lemmas for the building blocks of `Model/CLInc.lean`.
Core only.
-/
import OsmoVerif.Proofs.CLFullGenesisOrdF
import OsmoVerif.Proofs.CLFullGenesis
import OsmoVerif.Proofs.CLIncHist25

namespace OsmoVerif.CLIncP
open OsmoVerif.Num OsmoVerif.CL OsmoVerif.CLPool OsmoVerif.CLFees OsmoVerif.CLInc OsmoVerif.CLFeesP OsmoVerif.CLBook

/-! ## uptime trackers -/

theorem mem_insertTr {t : Int} {v : List DC} {e : Int × List DC} : ∀ {trs : List (Int × List DC)}, e ∈ insertTr trs t v → e = (t, v) ∨ e ∈ trs
  | [], h => by simp only [insertTr, List.mem_singleton] at h; exact Or.inl h
  | x :: xs, h => by
    unfold insertTr at h
    split at h
    · rcases List.mem_cons.mp h with h | h
      · exact Or.inl h
      · exact Or.inr h
    · split at h
      · rcases List.mem_cons.mp h with h | h
        · exact Or.inl h
        · exact Or.inr (List.mem_cons_of_mem _ h)
      · rcases List.mem_cons.mp h with h | h
        · exact Or.inr (by rw [h]; exact List.mem_cons_self)
        · rcases mem_insertTr h with h | h
          · exact Or.inl h
          · exact Or.inr (List.mem_cons_of_mem _ h)

theorem insertTr_sorted (t : Int) (v : List DC) : ∀ (trs : List (Int × List DC)), (trs.map (·.1)).Pairwise (· < ·) →
    ((insertTr trs t v).map (·.1)).Pairwise (· < ·)
  | [], _ => by simp [insertTr]
  | x :: xs, h => by
    rw [List.map_cons, List.pairwise_cons] at h
    unfold insertTr
    split
    · rename_i hlt
      simp only [List.map_cons, List.pairwise_cons]
      refine ⟨fun k hk => ?_, h⟩
      rcases List.mem_cons.mp hk with hk | hk
      · rw [hk]; exact hlt
      · have := h.1 k hk; omega
    · split
      · rename_i _ heq
        simp only [List.map_cons, List.pairwise_cons]
        refine ⟨fun k hk => ?_, h.2⟩
        have := h.1 k hk
        omega
      · rename_i hnlt hne
        simp only [List.map_cons, List.pairwise_cons]
        refine ⟨fun k hk => ?_, insertTr_sorted t v xs h.2⟩
        obtain ⟨e, he, rfl⟩ := List.mem_map.mp hk
        rcases mem_insertTr he with he | he
        · rw [he]; simp only; omega
        · exact h.1 e.1 (List.mem_map_of_mem he)

theorem initTr_sorted (i : Inc) (cur t : Int) (h : (i.trackers.map (·.1)).Pairwise (· < ·)) :
    ((initTr i cur t).trackers.map (·.1)).Pairwise (· < ·) := by
  unfold initTr
  split
  · exact h
  · exact insertTr_sorted _ _ _ h

theorem initTr_frameO (i : Inc) (cur t : Int) :
    (initTr i cur t).accs = i.accs ∧ (initTr i cur t).join = i.join ∧ (initTr i cur t).records = i.records := by
  unfold initTr
  split <;> exact ⟨rfl, rfl, rfl⟩

theorem flipTicks_keys (values : List DC) : ∀ (trs : List StepTrace) (tk tk' : List (Int × List DC)),
    flipTicks values trs tk = some tk' → tk'.map (·.1) = tk.map (·.1)
  | [], tk, tk', h => by simp only [flipTicks, Option.some.injEq] at h; rw [h]
  | tr :: rest, tk, tk', h => by
    unfold flipTicks at h
    split at h
    · exact flipTicks_keys values rest tk tk' h
    · simp only [Option.bind_eq_some_iff] at h
      obtain ⟨old, _, new, _, h⟩ := h
      rw [flipTicks_keys values rest _ tk' h, List.map_map]
      apply List.map_congr_left
      intro o _
      simp only [Function.comp]
      split
      · rename_i e; exact e.symm
      · rfl

theorem syncTrackers_sorted {trs : List (Int × List DC)} (ticks : List TickInfo) (h : (trs.map (·.1)).Pairwise (· < ·)) :
    ((syncTrackers trs ticks).map (·.1)).Pairwise (· < ·) :=
  List.Pairwise.sublist ((List.filter_sublist).map _) h

/-! ## position records of the uptime accumulators -/

def uids (a : UAcc) : List Nat := a.recs.map (·.id)

theorem setURec_ids (recs : List URec) (r : URec) : (setURec recs r).map (·.id) = recs.map (·.id) := by
  unfold setURec
  rw [List.map_map]
  apply List.map_congr_left
  intro x _
  simp only [Function.comp]
  split
  · rename_i h; exact h.symm
  · rfl

/-- the record ids of accumulator `a'` are those of `a`, possibly fewer, possibly with `n` appended -/
def URel (n : Nat) (a a' : UAcc) : Prop := (uids a').Sublist (uids a ++ [n])

/-- … possibly fewer -/
def USub (a a' : UAcc) : Prop := (uids a').Sublist (uids a)

theorem USub.refl (a : UAcc) : USub a a := List.Sublist.refl _
theorem USub.trans {a b c : UAcc} (h1 : USub a b) (h2 : USub b c) : USub a c := List.Sublist.trans h2 h1

theorem USub.toRel {n : Nat} {a a' : UAcc} (h : USub a a') : URel n a a' :=
  List.Sublist.trans h (List.sublist_append_left _ _)

theorem updOne_rel {a a' : UAcc} {id : Nat} {nl dl : Int} {ins outs : DC} (h : updOne a id nl dl ins outs = some a') :
    URel id a a' := by
  cases hg : getURec a.recs id with
  | none =>
    obtain ⟨_, _, _, er⟩ := updOne_new hg h
    unfold URel uids
    rw [er, List.map_append]
    exact List.Sublist.refl _
  | some r =>
    obtain ⟨_, _, _, _, _, _, _, _, er⟩ := updOne_old_spec hg h
    apply USub.toRel
    unfold USub uids
    rw [er, setURec_ids]

theorem updAll_rel {id : Nat} {nl dl : Int} : ∀ {accs accs' : List UAcc} {ins outs : List DC},
    updAll id nl dl accs ins outs = some accs' → List.Forall₂ (URel id) accs accs'
  | [], accs', [], [], h => by
    simp only [updAll, Option.some.injEq] at h; subst h; exact List.Forall₂.nil
  | a :: as, accs', i :: is, o :: os, h => by
    simp only [updAll, Option.bind_eq_some_iff, Option.map_eq_some_iff] at h
    obtain ⟨a', ha, as', has, e⟩ := h
    subst e
    exact List.Forall₂.cons (updOne_rel ha) (updAll_rel has)
  | [], _, _ :: _, _, h => by simp [updAll] at h
  | [], _, [], _ :: _, h => by simp [updAll] at h
  | _ :: _, _, [], _, h => by simp [updAll] at h
  | _ :: _, _, _ :: _, [], h => by simp [updAll] at h

theorem claimOne_sub {a a' : UAcc} {id : Nat} {outs : DC} {coins : Coins} (h : claimOne a id outs = some (a', coins)) : USub a a' := by
  unfold claimOne at h
  split at h
  · simp only [Option.some.injEq, Prod.mk.injEq] at h
    rw [← h.1]; exact List.Sublist.refl _
  · simp only [Option.bind_eq_some_iff] at h
    obtain ⟨s1, _, tot, _, ⟨cs, dust⟩, _, h⟩ := h
    simp only at h
    split at h
    · simp only [Option.some.injEq, Prod.mk.injEq] at h
      rw [← h.1]
      unfold USub uids
      exact (List.filter_sublist).map _
    · simp only [Option.map_eq_some_iff, Prod.mk.injEq] at h
      obtain ⟨x, _, e, _⟩ := h
      rw [← e]
      unfold USub uids
      simp only
      rw [setURec_ids]

theorem claimLoop_sub {factor age : Int} {id : Nat} : ∀ {accs accs' : List UAcc} {outs : List DC} {ups : List Int}
    {coll forf : Coins} {byUp : List Coins},
    claimLoop factor age id accs outs ups = some (accs', coll, forf, byUp) → List.Forall₂ USub accs accs'
  | [], accs', [], [], _, _, _, h => by
    simp only [claimLoop, Option.some.injEq, Prod.mk.injEq] at h
    rw [← h.1]; exact List.Forall₂.nil
  | a :: as, accs', o :: os, up :: ups, coll, forf, byUp, h => by
    simp only [claimLoop, Option.bind_eq_some_iff] at h
    obtain ⟨⟨a', scaled⟩, ha, down, _, ⟨as', c1, f1, b1⟩, has, h⟩ := h
    simp only at h
    split at h
    · simp only [Option.map_eq_some_iff, Prod.mk.injEq] at h
      obtain ⟨_, _, e, _⟩ := h
      rw [← e]
      exact List.Forall₂.cons (claimOne_sub ha) (claimLoop_sub has)
    · simp only [Option.map_eq_some_iff, Prod.mk.injEq] at h
      obtain ⟨_, _, e, _⟩ := h
      rw [← e]
      exact List.Forall₂.cons (claimOne_sub ha) (claimLoop_sub has)
  | [], _, _ :: _, _, _, _, _, h => by simp [claimLoop] at h
  | [], _, [], _ :: _, _, _, _, h => by simp [claimLoop] at h
  | _ :: _, _, [], _, _, _, _, h => by simp [claimLoop] at h
  | _ :: _, _, _ :: _, [], _, _, _, h => by simp [claimLoop] at h

theorem redepositLoop_sub {liq : Int} : ∀ {accs accs' : List UAcc} {byUp : List Coins},
    redepositLoop liq accs byUp = some accs' → List.Forall₂ USub accs accs'
  | [], accs', [], h => by
    simp only [redepositLoop, Option.some.injEq] at h; subst h; exact List.Forall₂.nil
  | a :: as, accs', cs :: rest, h => by
    simp only [redepositLoop, Option.bind_eq_some_iff, Option.map_eq_some_iff] at h
    obtain ⟨a', ha, as', has, e⟩ := h
    subst e
    refine List.Forall₂.cons ?_ (redepositLoop_sub has)
    split at ha
    · injection ha with ha; rw [← ha]; exact List.Sublist.refl _
    · simp only [Option.bind_eq_some_iff, Option.map_eq_some_iff] at ha
      obtain ⟨_, _, v, _, e⟩ := ha
      rw [← e]; exact List.Sublist.refl _
  | [], _, _ :: _, h => by simp [redepositLoop] at h
  | _ :: _, _, [], h => by simp [redepositLoop] at h

/-- ids stay ascending along `URel` when everything already stored is below the appended id -/
theorem sorted_of_rel {n : Nat} {a a' : UAcc} (h : URel n a a') (hs : (uids a).Pairwise (· < ·)) (hlt : ∀ x ∈ uids a, x < n) :
    (uids a').Pairwise (· < ·) := by
  refine List.Pairwise.sublist h ?_
  exact List.pairwise_append.mpr ⟨hs, by simp, fun x hx y hy => by simp only [List.mem_singleton] at hy; rw [hy]; exact hlt x hx⟩

theorem forall₂_mem_right {α β : Type} {R : α → β → Prop} : ∀ {l : List α} {m : List β}, List.Forall₂ R l m → ∀ b ∈ m, ∃ a ∈ l, R a b
  | _, _, List.Forall₂.nil, b, hb => by cases hb
  | _, _, List.Forall₂.cons h t, b, hb => by
    rcases List.mem_cons.mp hb with e | hb'
    · exact ⟨_, List.mem_cons_self, by rw [e]; exact h⟩
    · obtain ⟨a, ha, hr⟩ := forall₂_mem_right t b hb'
      exact ⟨a, List.mem_cons_of_mem _ ha, hr⟩

theorem forall₂_trans {α : Type} {R S T : α → α → Prop} (hrs : ∀ a b c, R a b → S b c → T a c) :
    ∀ {l m n : List α}, List.Forall₂ R l m → List.Forall₂ S m n → List.Forall₂ T l n
  | _, _, _, List.Forall₂.nil, List.Forall₂.nil => List.Forall₂.nil
  | _, _, _, List.Forall₂.cons h1 t1, List.Forall₂.cons h2 t2 => List.Forall₂.cons (hrs _ _ _ h1 h2) (forall₂_trans hrs t1 t2)

theorem forall₂_refl {α : Type} {R : α → α → Prop} (hr : ∀ a, R a a) : ∀ (l : List α), List.Forall₂ R l l
  | [] => List.Forall₂.nil
  | a :: as => List.Forall₂.cons (hr a) (forall₂_refl hr as)

/-! ## incentive records -/

/-- weak key order: never a later key before an earlier one -/
def RecsWeak (rs : List IncRec) : Prop := rs.Pairwise (fun a b => ¬ recLt b a)

theorem insertRec_weak (r : IncRec) : ∀ (rs : List IncRec), RecsWeak rs → RecsWeak (insertRec rs r)
  | [], _ => by simp [insertRec, RecsWeak]
  | y :: ys, h => by
    unfold RecsWeak at h ⊢
    rw [List.pairwise_cons] at h
    unfold insertRec
    split
    · rename_i hlt
      refine List.pairwise_cons.mpr ⟨fun z hz => ?_, List.pairwise_cons.mpr h⟩
      rcases List.mem_cons.mp hz with hz | hz
      · rw [hz]; simp only [recLt] at *; omega
      · have := h.1 z hz; simp only [recLt] at *; omega
    · rename_i hnlt
      refine List.pairwise_cons.mpr ⟨fun z hz => ?_, insertRec_weak r ys h.2⟩
      rcases (mem_insertRec).mp hz with hz | hz
      · rw [hz]; exact hnlt
      · exact h.1 z hz

def rkey (r : IncRec) : Nat × Nat := (r.uptime, r.id)

theorem weak_of_keys {rs rs' : List IncRec} (hk : rs'.map rkey = rs.map rkey) (h : RecsWeak rs) : RecsWeak rs' := by
  unfold RecsWeak at *
  have h1 : (rs.map rkey).Pairwise (fun a b => ¬ (b.1 < a.1 ∨ (b.1 = a.1 ∧ b.2 < a.2))) := by
    rw [List.pairwise_map]; exact h
  rw [← hk, List.pairwise_map] at h1
  exact h1

theorem emitLoop_keys {now el liq factor : Int} {u : Nat} : ∀ {rs rs' : List IncRec} {add add' : DC},
    emitLoop now el liq factor u rs add = some (add', rs') → rs'.map rkey = rs.map rkey
  | [], rs', add, add', h => by
    simp only [emitLoop, Option.some.injEq, Prod.mk.injEq] at h
    rw [← h.2]
  | r :: rest, rs', add, add', h => by
    simp only [emitLoop, Option.bind_eq_some_iff] at h
    obtain ⟨res, _, h⟩ := h
    split at h
    · simp only [Option.map_eq_some_iff, Prod.mk.injEq] at h
      obtain ⟨⟨a, rs1⟩, h1, _, e⟩ := h
      rw [← e, List.map_cons, List.map_cons, emitLoop_keys h1]
    · split at h
      · cases h
      · simp only [Option.bind_eq_some_iff, Option.map_eq_some_iff, Prod.mk.injEq] at h
        obtain ⟨add1, _, ⟨a, rs1⟩, h1, _, e⟩ := h
        rw [← e, List.map_cons, List.map_cons, emitLoop_keys h1]
        rfl

theorem emitAll_keys {now el liq factor : Int} : ∀ (us : List Nat) {accs accs' : List UAcc} {rs rs' : List IncRec},
    emitAll now el liq factor us accs rs = some (accs', rs') → rs'.map rkey = rs.map rkey
  | [], _, _, _, _, h => by
    simp only [emitAll, Option.some.injEq, Prod.mk.injEq] at h
    rw [← h.2]
  | u :: us, accs, accs', rs, rs', h => by
    simp only [emitAll, Option.bind_eq_some_iff] at h
    obtain ⟨⟨toAdd, rs1⟩, h1, a, _, v, _, h2⟩ := h
    rw [emitAll_keys us h2, emitLoop_keys h1]

theorem setAt_sub {accs : List UAcc} : ∀ (k : Nat) (a a' : UAcc) (l : List UAcc), l[k]? = some a → a'.recs = a.recs →
    List.Forall₂ USub l (setAt l k a')
  | _, _, _, [], h, _ => by simp at h
  | 0, a, a', x :: xs, h, hr => by
    simp only [List.getElem?_cons_zero, Option.some.injEq] at h
    subst h
    exact List.Forall₂.cons (by unfold USub uids; rw [hr]) (forall₂_refl USub.refl xs)
  | k + 1, a, a', x :: xs, h, hr => by
    simp only [List.getElem?_cons_succ] at h
    exact List.Forall₂.cons (USub.refl x) (setAt_sub (accs := accs) k a a' xs h hr)

theorem emitAll_sub {now el liq factor : Int} : ∀ (us : List Nat) {accs accs' : List UAcc} {rs rs' : List IncRec},
    emitAll now el liq factor us accs rs = some (accs', rs') → List.Forall₂ USub accs accs'
  | [], accs, _, _, _, h => by
    simp only [emitAll, Option.some.injEq, Prod.mk.injEq] at h
    rw [← h.1]; exact forall₂_refl USub.refl accs
  | u :: us, accs, accs', rs, rs', h => by
    simp only [emitAll, Option.bind_eq_some_iff] at h
    obtain ⟨⟨toAdd, rs1⟩, _, a, ha, v, _, h2⟩ := h
    exact forall₂_trans (R := USub) (S := USub) (T := USub) (fun _ _ _ h1 h2 => USub.trans h1 h2)
      (setAt_sub (accs := accs) u a { a with value := v } accs ha rfl) (emitAll_sub us h2)

/-- `sync`: trackers and join times untouched, record ids of every accumulator untouched (or fewer), incentive records keep their keys
(fully emitted ones disappear) -/
theorem sync_ord {i i' : Inc} {liq : Int} (h : sync i liq = some i') :
    i'.trackers = i.trackers ∧ i'.join = i.join ∧ List.Forall₂ USub i.accs i'.accs ∧ (RecsWeak i.records → RecsWeak i'.records) := by
  unfold sync at h
  simp only [Option.bind_eq_some_iff] at h
  obtain ⟨el, _, h⟩ := h
  split at h
  · injection h with h; subst h
    exact ⟨rfl, rfl, forall₂_refl USub.refl _, id⟩
  · split at h
    · cases h
    · simp only [Option.map_eq_some_iff] at h
      obtain ⟨⟨accs, recs⟩, hx, e⟩ := h
      subst e
      split at hx
      · injection hx with hx
        injection hx with h1 h2
        subst h1; subst h2
        refine ⟨rfl, rfl, forall₂_refl USub.refl _, fun hw => ?_⟩
        exact List.Pairwise.sublist List.filter_sublist hw
      · refine ⟨rfl, rfl, emitAll_sub _ hx, fun hw => ?_⟩
        exact List.Pairwise.sublist List.filter_sublist (weak_of_keys (emitAll_keys _ hx) hw)

end OsmoVerif.CLIncP
