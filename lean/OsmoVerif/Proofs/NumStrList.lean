/-
List-of-characters reference codec for `BigDec.String()` / `NewBigDecFromStr` (C12 string round-trip).

`toChars p a` is the character list `BigDec.toStr` produces (sign, integer digits, '.', exactly `p`
fractional digits); `parseU p cs` is `BigDec.fromStr` without the final bit-length check.  Everything here
is about `List Char` only (core lemmas on `Nat.toDigits`, `Nat.ofDigitChars`, `List.splitOn`); the bridge to
the model's `String` functions is `Proofs/NumStrBridge.lean`.
-/
import OsmoVerif.Model.Num
namespace OsmoVerif.NumStr
open OsmoVerif.Num OsmoVerif.Gen

def digitsVal? (cs : List Char) : Option Nat :=
  if cs = [] then none else if cs.all Char.isDigit then some (Nat.ofDigitChars 10 cs 0) else none

def parseAbs (p : Nat) (body : List Char) : Option Nat :=
  match body.splitOn '.' with
  | [ip] => (digitsVal? ip).map (· * 10 ^ p)
  | [ip, fp] =>
    if fp = [] ∨ ip = [] ∨ p < fp.length then none
    else (digitsVal? (ip ++ fp)).map (· * 10 ^ (p - fp.length))
  | _ => none

def signed (neg : Bool) (n : Nat) : Int := if neg then -(n : Int) else (n : Int)

def parseU (p : Nat) (cs : List Char) : Option Int :=
  match cs with
  | [] => none
  | c :: rest =>
    if c = '-' then (if rest = [] then none else (parseAbs p rest).map (signed true))
    else (parseAbs p (c :: rest)).map (signed false)

/-- the `p` fractional digits of `m < 10^p`: zero padding, then the digits of `m`. -/
def fracChars (p m : Nat) : List Char :=
  List.replicate (p - (Nat.toDigits 10 m).length) '0' ++ Nat.toDigits 10 m

/-- unsigned body of `String()`. -/
def absChars (p n : Nat) : List Char :=
  Nat.toDigits 10 (n / 10 ^ p) ++ '.' :: fracChars p (n % 10 ^ p)

def toChars (p : Nat) (a : Int) : List Char :=
  (if a < 0 then ['-'] else []) ++ absChars p a.natAbs

/-! digits -/
theorem toDigits_all (n : Nat) : (Nat.toDigits 10 n).all Char.isDigit = true := by
  rw [List.all_eq_true]; intro c hc
  exact Nat.isDigit_of_mem_toDigits (by decide) (by decide) hc

theorem not_mem_of_all_digits {cs : List Char} (h : cs.all Char.isDigit = true) {c : Char}
    (hc : c.isDigit = false) : c ∉ cs := by
  intro hm
  rw [List.all_eq_true] at h
  rw [h c hm] at hc; cases hc

theorem fracChars_all (p m : Nat) : (fracChars p m).all Char.isDigit = true := by
  unfold fracChars
  rw [List.all_append, toDigits_all, Bool.and_true, List.all_eq_true]
  intro c hc
  rw [List.mem_replicate] at hc
  rw [hc.2]; decide

theorem fracChars_length {p m : Nat} (hp : 0 < p) (hm : m < 10 ^ p) : (fracChars p m).length = p := by
  unfold fracChars
  have := (Nat.length_toDigits_le_iff (b := 10) (n := m) (by decide) hp).2 hm
  rw [List.length_append, List.length_replicate]; omega

theorem fracChars_val (p m init : Nat) :
    Nat.ofDigitChars 10 (fracChars p m) init = 10 ^ (fracChars p m).length * init + m := by
  rw [Nat.ofDigitChars_eq_ofDigitChars_zero]
  congr 1
  unfold fracChars
  rw [Nat.ofDigitChars_append, Nat.ofDigitChars_replicate_zero, Nat.mul_zero, Nat.ofDigitChars_ten_toDigits]

theorem parseAbs_absChars {p : Nat} (hp : 0 < p) (n : Nat) : parseAbs p (absChars p n) = some n := by
  have hpow : 0 < 10 ^ p := Nat.pow_pos (by decide)
  have hm : n % 10 ^ p < 10 ^ p := Nat.mod_lt _ hpow
  have hlen := fracChars_length hp hm
  have hD := toDigits_all (n / 10 ^ p)
  have hF := fracChars_all p (n % 10 ^ p)
  unfold parseAbs absChars
  rw [List.splitOn_append_cons_self_of_not_mem (not_mem_of_all_digits hD (by decide)),
    List.splitOn_eq_singleton (not_mem_of_all_digits hF (by decide))]
  simp only
  have hFne : fracChars p (n % 10 ^ p) ≠ [] := by
    intro h; rw [h] at hlen; simp at hlen; omega
  rw [if_neg (by
    rintro (h | h | h)
    · exact hFne h
    · exact Nat.toDigits_ne_nil h
    · omega)]
  unfold digitsVal?
  rw [if_neg (by simp [Nat.toDigits_ne_nil]), List.all_append, hD, hF, Bool.and_self, if_pos rfl,
    Nat.ofDigitChars_append, Nat.ofDigitChars_ten_toDigits, fracChars_val, hlen, Nat.sub_self, Nat.pow_zero,
    Option.map_some, Nat.mul_one, Nat.div_add_mod]

theorem parseU_toChars {p : Nat} (hp : 0 < p) (a : Int) : parseU p (toChars p a) = some a := by
  unfold toChars
  by_cases ha : a < 0
  · rw [if_pos ha]
    show parseU p ('-' :: absChars p a.natAbs) = some a
    unfold parseU
    simp only [if_true]
    rw [if_neg (by unfold absChars; simp), parseAbs_absChars hp, Option.map_some]
    unfold signed; simp only [if_true]; congr 1; omega
  · rw [if_neg ha, List.nil_append]
    have hne : absChars p a.natAbs ≠ [] := by unfold absChars; simp
    obtain ⟨c, rest, hcr⟩ := List.exists_cons_of_ne_nil hne
    have hcd : c.isDigit = true := by
      have h1 : c ∈ Nat.toDigits 10 (a.natAbs / 10 ^ p) := by
        have hne2 := Nat.toDigits_ne_nil (n := a.natAbs / 10 ^ p) (b := 10)
        obtain ⟨d, r2, h2⟩ := List.exists_cons_of_ne_nil hne2
        unfold absChars at hcr
        rw [h2] at hcr ⊢
        simp only [List.cons_append, List.cons.injEq] at hcr
        rw [hcr.1]; exact List.mem_cons_self
      exact Nat.isDigit_of_mem_toDigits (by decide) (by decide) h1
    have hc : c ≠ '-' := by intro h; rw [h] at hcd; revert hcd; decide
    rw [hcr]
    unfold parseU
    simp only [if_neg hc]
    rw [← hcr, parseAbs_absChars hp, Option.map_some]
    unfold signed; simp only [Bool.false_eq_true, if_false]; congr 1; omega

end OsmoVerif.NumStr
