/-
C08 (incentives, histories) helpers, part 5: the invariant of the incentive layer (`IncPart` / `IncInv`) and its preservation by
`sync` and by `CreatePosition`, together with the growth-inside step fact.  Core only.
-/
import OsmoVerif.Proofs.CLIncHist4

namespace OsmoVerif.CLIncP
open OsmoVerif.Num OsmoVerif.CL OsmoVerif.CLPool OsmoVerif.CLFees OsmoVerif.CLInc OsmoVerif.CLFeesP OsmoVerif.CLBook
open OsmoVerif.Accum (amt sorted hev)

/-- one uptime accumulator against the pool's positions. -/
structure UAccOK (ps : List Position) (nextId : Nat) (tot : Int) (a : UAcc) : Prop where
  /-- every live position has a record holding exactly its liquidity -/
  recs : ∀ q ∈ ps, ∃ r, getURec a.recs q.id = some r ∧ r.shares = q.liq
  /-- no record for an id that was never handed out -/
  recIds : ∀ id, (getURec a.recs id).isSome → id < nextId
  sortedV : sorted a.value = true
  sortedR : ∀ id r, getURec a.recs id = some r → sorted r.snap = true ∧ sorted r.unclaimed = true
  /-- total shares = the spread-reward accumulator's total shares (= Σ liquidity of the live positions, Props/C08) -/
  total : a.total = tot

/-- the incentive-side invariant, relative to the fee layer `f`. -/
structure IncPart (f : Fees) (i : Inc) : Prop where
  len : i.accs.length = 6
  accs : ∀ a ∈ i.accs, UAccOK f.pool.positions f.pool.nextId f.acc.totalShares a
  /-- both boundary ticks of every live position carry uptime trackers -/
  stored : ∀ q ∈ f.pool.positions, (getTr i.trackers q.lower).isSome ∧ (getTr i.trackers q.upper).isSome
  /-- six trackers per tick, in DecCoins normal form -/
  trOK : ∀ t tl, getTr i.trackers t = some tl → tl.length = 6 ∧ ∀ v ∈ tl, sorted v = true
  /-- trackers only on initialised ticks -/
  trTicks : ∀ t, (getTr i.trackers t).isSome → Stored f.pool.ticks t
  /-- incentive records: rates and remaining amounts are non-negative -/
  recsOK : RecsOK i.records
  factor : 0 < i.factor
  /-- join times exist for every live position and only for ids that were handed out -/
  joinIds : ∀ e ∈ i.join, e.1 < f.pool.nextId
  joined : ∀ q ∈ f.pool.positions, (i.join.find? (·.1 = q.id)).isSome

structure IncInv (s : Full) : Prop where
  fees : FullInv s.fees
  inc : IncPart s.fees s.inc

theorem IncPart.sortedInc {f : Fees} {i : Inc} (h : IncPart f i) : SortedInc i :=
  ⟨fun a ha => (h.accs a ha).sortedV, fun a ha id r hr => (h.accs a ha).sortedR id r hr, fun t tl ht => (h.trOK t tl ht).2⟩

/-- accumulator `k`. -/
def accAt (i : Inc) (k : Nat) : UAcc := (i.accs[k]?).getD {}

theorem accAt_of {i : Inc} {k : Nat} {a : UAcc} (h : i.accs[k]? = some a) : accAt i k = a := by
  unfold accAt; rw [h]; rfl

theorem IncPart.get {f : Fees} {i : Inc} (h : IncPart f i) {k : Nat} (hk : k < 6) : ∃ a, i.accs[k]? = some a ∧ a ∈ i.accs := by
  obtain ⟨a, ha⟩ := getElem?_of_lt (l := i.accs) (k := k) (by rw [h.len]; exact hk)
  exact ⟨a, ha, mem_of_getElem? ha⟩

theorem getElem?_of_mem {α} {l : List α} {a : α} (h : a ∈ l) : ∃ k : Nat, l[k]? = some a := by
  obtain ⟨k, hk, e⟩ := List.mem_iff_getElem.mp h
  exact ⟨k, by rw [List.getElem?_eq_getElem hk, e]⟩

/-! ## growth inside under a step that keeps the two boundary trackers -/

theorem insU_step {i i' : Inc} {cur l u : Int} (hlu : l < u) (k : Nat) (d : String)
    (el : getTr i'.trackers l = getTr i.trackers l) (eu : getTr i'.trackers u = getTr i.trackers u) :
    insU i' cur k d l u = insU i cur k d l u + (if l ≤ cur ∧ cur < u then dVal i i' k d else 0) := by
  unfold insU trAt
  rw [el, eu]
  have : amt (valAt i'.accs k) d = amt (valAt i.accs k) d + dVal i i' k d := by unfold dVal; omega
  rw [this, insideI_grow hlu]

theorem dVal_self (i : Inc) (k : Nat) (d : String) : dVal i i k d = 0 := by unfold dVal; omega

theorem dVal_trans (i i1 i2 : Inc) (k : Nat) (d : String) : dVal i i2 k d = dVal i i1 k d + dVal i1 i2 k d := by
  unfold dVal; omega

theorem dVal_of_accs {i i' j j' : Inc} (h1 : j.accs = i.accs) (h2 : j'.accs = i'.accs) (k : Nat) (d : String) :
    dVal j j' k d = dVal i i' k d := by unfold dVal; rw [h1, h2]

/-- per accumulator relation "only the value changed, and it grew". -/
def Grew (a a' : UAcc) : Prop :=
  a'.recs = a.recs ∧ a'.total = a.total ∧ (sorted a.value = true → sorted a'.value = true) ∧ ∀ d, amt a.value d ≤ amt a'.value d

theorem dVal_nonneg_of_grew {i i' : Inc} (hlen : i'.accs.length = i.accs.length)
    (h : ∀ (k : Nat) (a : UAcc), i.accs[k]? = some a → ∃ a' : UAcc, i'.accs[k]? = some a' ∧ Grew a a') (k : Nat) (d : String) :
    0 ≤ dVal i i' k d := by
  unfold dVal
  rcases Nat.lt_or_ge k i.accs.length with hk | hk
  · obtain ⟨a, ha⟩ := getElem?_of_lt hk
    obtain ⟨a', ha', _, _, _, hg⟩ := h k a ha
    rw [valAt_of ha, valAt_of ha']
    have := hg d; omega
  · unfold valAt
    rw [List.getElem?_eq_none hk, List.getElem?_eq_none (by omega)]
    simp

/-- a step that only lets accumulator values grow (and touches nothing the invariant speaks about except records / clock). -/
theorem IncPart.of_grew {f : Fees} {i i' : Inc} (h : IncPart f i) (hlen : i'.accs.length = i.accs.length)
    (hg : ∀ (k : Nat) (a : UAcc), i.accs[k]? = some a → ∃ a' : UAcc, i'.accs[k]? = some a' ∧ Grew a a')
    (htr : i'.trackers = i.trackers) (hrec : RecsOK i'.records) (hfac : i'.factor = i.factor) (hjoin : i'.join = i.join) :
    IncPart f i' := by
  refine ⟨by rw [hlen, h.len], fun a' ha' => ?_, by rw [htr]; exact h.stored, by rw [htr]; exact h.trOK, by rw [htr]; exact h.trTicks,
    hrec, by rw [hfac]; exact h.factor, by rw [hjoin]; exact h.joinIds, by rw [hjoin]; exact h.joined⟩
  obtain ⟨k, hk⟩ := getElem?_of_mem ha'
  have hk' : k < i.accs.length := by have := lt_of_getElem? hk; omega
  obtain ⟨a, ha⟩ := getElem?_of_lt hk'
  obtain ⟨a2, ha2, e1, e2, e3, _⟩ := hg k a ha
  rw [hk] at ha2; injection ha2 with ha2; subst ha2
  have ok := h.accs a (mem_of_getElem? ha)
  exact ⟨by rw [e1]; exact ok.recs, by rw [e1]; exact ok.recIds, e3 ok.sortedV, by rw [e1]; exact ok.sortedR, by rw [e2]; exact ok.total⟩

/-! ## sync -/

theorem sync_part {f : Fees} {i i1 : Inc} {liq : Int} (h : IncPart f i) (hs : sync i liq = some i1) :
    IncPart f i1 ∧ i1.trackers = i.trackers ∧ i1.now = i.now ∧ i1.factor = i.factor ∧ i1.join = i.join ∧ i1.bal = i.bal ∧
    i1.authorized = i.authorized ∧
    (∀ (k : Nat) (a : UAcc), i.accs[k]? = some a → ∃ a' : UAcc, i1.accs[k]? = some a' ∧ Grew a a') ∧
    (∀ k d, 0 ≤ dVal i i1 k d) ∧
    (∀ d, sumN six (dVal i i1 · d) * liq ≤ (sumRem d i.records - sumRem d i1.records) * i.factor) ∧
    (∀ d, sumRem d i1.records ≤ sumRem d i.records) := by
  obtain ⟨e1, e2, e3, e4, e5, e6, e7, e8, hg, hsum, _⟩ := sync_spec h.factor h.recsOK hs
  have hrec := sync_records h.factor h.recsOK hs
  have hg' : ∀ (k : Nat) (a : UAcc), i.accs[k]? = some a → ∃ a' : UAcc, i1.accs[k]? = some a' ∧ Grew a a' := hg
  exact ⟨h.of_grew e8 hg' e1 (hrec "").2.1 e3 e5, e1, e2, e3, e5, e6, e4, hg', dVal_nonneg_of_grew e8 hg', hsum, fun d => (hrec d).1⟩

/-! ## create -/

theorem getTr_initTr_of_isSome {i : Inc} {x : Int} (h : (getTr i.trackers x).isSome) (cur t : Int) :
    getTr (initTr i cur t).trackers x = getTr i.trackers x := by
  rw [getTr_initTr]
  split
  · rename_i e; subst e
    obtain ⟨v, hv⟩ := Option.isSome_iff_exists.mp h
    rw [hv, tickTr_stored hv]
  · rfl

theorem isSome_initTr_self (i : Inc) (cur t : Int) : (getTr (initTr i cur t).trackers t).isSome := by
  rw [getTr_initTr, if_pos rfl]; rfl

theorem accValues_get {i : Inc} : ∀ v ∈ accValues i, ∃ a ∈ i.accs, v = a.value := by
  intro v hv
  unfold accValues at hv
  obtain ⟨a, ha, e⟩ := List.mem_map.mp hv
  exact ⟨a, ha, e.symm⟩

theorem initialTr_ok {f : Fees} {i : Inc} (h : IncPart f i) (cur t : Int) :
    (initialTr i cur t).length = 6 ∧ ∀ v ∈ initialTr i cur t, sorted v = true := by
  unfold initialTr
  split
  · refine ⟨by unfold accValues; rw [List.length_map, h.len], fun v hv => ?_⟩
    obtain ⟨a, ha, e⟩ := accValues_get v hv
    subst e; exact (h.accs a ha).sortedV
  · refine ⟨rfl, fun v hv => ?_⟩
    simp only [List.mem_cons, List.mem_nil_iff, or_false, or_self] at hv
    subst hv; rfl

theorem tickTr_ok {f : Fees} {i : Inc} (h : IncPart f i) (cur t : Int) :
    (tickTr i cur t).length = 6 ∧ ∀ v ∈ tickTr i cur t, sorted v = true := by
  unfold tickTr
  cases hg : getTr i.trackers t with
  | some v => exact h.trOK t v hg
  | none => exact initialTr_ok h cur t

theorem find_join_append (j : List (Nat × Int)) (id x : Nat) (t : Int) :
    ((j ++ [(id, t)]).find? (·.1 = x)) = match j.find? (·.1 = x) with
      | some v => some v
      | none => if id = x then some (id, t) else none := by
  rw [List.find?_append]
  cases h : j.find? (·.1 = x) with
  | some v => simp
  | none => simp only [Option.none_or, List.find?_cons, List.find?_nil]; by_cases e : id = x <;> simp [e]

/-- what `CreatePosition` (with minimum amounts) does on the incentive side. -/
theorem createMinI_part {s s' : Full} {owner : String} {l u a0 a1 m0 m1 : Int} {id : Nat} {x0 x1 liq lo up : Int}
    (hf : FullInv s.fees) (hc' : InvCore s'.fees.pool) (hp : IncPart s.fees s.inc)
    (h : CLInc.createPositionMin s owner l u a0 a1 m0 m1 = some (s', id, x0, x1, liq, lo, up)) :
    IncPart s'.fees s'.inc ∧
    ∃ i1, sync s.inc s.fees.pool.liquidity = some i1 ∧
      s'.inc.records = i1.records ∧ s'.inc.now = i1.now ∧ s'.inc.bal = i1.bal ∧ s'.inc.factor = i1.factor ∧
      s'.inc.join = i1.join ++ [(id, i1.now)] ∧ s'.inc.last = i1.last ∧
      (∀ x, (getTr s.inc.trackers x).isSome → getTr s'.inc.trackers x = getTr s.inc.trackers x) ∧
      (∀ k d, dVal s.inc s'.inc k d = dVal s.inc i1 k d) ∧
      (∀ k, k < 6 → ∃ ins, getURec (accAt s'.inc k).recs id = some ⟨id, liq, ins, []⟩ ∧
        (∀ d, amt ins d = insU s'.inc s'.fees.pool.tick k d lo up)) ∧
      (∀ k x, x ≠ id → getURec (accAt s'.inc k).recs x = getURec (accAt s.inc k).recs x) := by
  have hfee := createMinI_fees h
  obtain ⟨sf, eid, _, _, _, epos, ets⟩ := createMin_facts hf.pool.core hf.acc hfee
  subst eid
  obtain ⟨hpool, _, _, _⟩ := createMin_spec hfee
  obtain ⟨_, _, enext, _, hlu, hliq⟩ := create_positions hf.pool.core hpool
  unfold CLInc.createPositionMin at h
  simp only [Option.bind_eq_some_iff, Option.map_eq_some_iff, Prod.mk.injEq] at h
  obtain ⟨⟨f', id2, y0, y1, liq, lo, up⟩, hfe, i1, hsync, i3, hupd, e1, e2, e3, e4, e5, e6, e7⟩ := h
  simp only at e1 e2 e3 e4 e5 e6 e7 hupd
  have e2' := e2.symm; have e3' := e3.symm; have e4' := e4.symm; have e5' := e5.symm; have e6' := e6.symm; have e7' := e7.symm
  subst e2'; subst e3'; subst e4'; subst e5'; subst e6'; subst e7'
  subst e1
  simp only at hfee sf epos ets enext hc' ⊢
  obtain ⟨hp1, t1, n1, fa1, j1, b1, _, g1, _, _, _⟩ := sync_part hp hsync
  -- the state with both boundary ticks initialised
  let i2 := initTr (initTr i1 f'.pool.tick lo) f'.pool.tick up
  obtain ⟨fr_a, fr_r, fr_l, fr_n, fr_f, fr_au, fr_j, fr_b, fr_nr⟩ := initTr_frame (initTr i1 f'.pool.tick lo) f'.pool.tick up
  obtain ⟨gr_a, gr_r, gr_l, gr_n, gr_f, gr_au, gr_j, gr_b, gr_nr⟩ := initTr_frame i1 f'.pool.tick lo
  have keep : ∀ x, (getTr i1.trackers x).isSome → getTr i2.trackers x = getTr i1.trackers x := by
    intro x hx
    show getTr (initTr (initTr i1 f'.pool.tick lo) f'.pool.tick up).trackers x = _
    rw [getTr_initTr_of_isSome (by rw [getTr_initTr_of_isSome hx]; exact hx), getTr_initTr_of_isSome hx]
  have hlo2 : (getTr i2.trackers lo).isSome := by
    show (getTr (initTr (initTr i1 f'.pool.tick lo) f'.pool.tick up).trackers lo).isSome
    rw [getTr_initTr, if_neg (by omega)]
    exact isSome_initTr_self _ _ _
  have hup2 : (getTr i2.trackers up).isSome := isSome_initTr_self _ _ _
  -- trackers of i2 are well-formed
  have trOK2 : ∀ t tl, getTr i2.trackers t = some tl → tl.length = 6 ∧ ∀ v ∈ tl, sorted v = true := by
    intro t tl ht
    have hmid : IncPart s.fees (initTr i1 f'.pool.tick lo) ∨ True := Or.inr trivial
    -- trackers of the intermediate state
    have trOKm : ∀ t tl, getTr (initTr i1 f'.pool.tick lo).trackers t = some tl → tl.length = 6 ∧ ∀ v ∈ tl, sorted v = true := by
      intro t tl ht
      rw [getTr_initTr] at ht
      split at ht
      · injection ht with ht; subst ht; exact tickTr_ok hp1 _ _
      · exact hp1.trOK t tl ht
    show tl.length = 6 ∧ _
    have ht' : getTr (initTr (initTr i1 f'.pool.tick lo) f'.pool.tick up).trackers t = some tl := ht
    rw [getTr_initTr] at ht'
    split at ht'
    · injection ht' with ht'; subst ht'
      unfold tickTr
      cases hg : getTr (initTr i1 f'.pool.tick lo).trackers up with
      | some v => exact trOKm up v hg
      | none =>
        simp only
        unfold initialTr
        split
        · refine ⟨by unfold accValues; rw [List.length_map, gr_a, hp1.len], fun v hv => ?_⟩
          obtain ⟨a, ha, e⟩ := accValues_get v hv
          rw [gr_a] at ha
          subst e; exact (hp1.accs a ha).sortedV
        · refine ⟨rfl, fun v hv => ?_⟩
          simp only [List.mem_cons, List.mem_nil_iff, or_false, or_self] at hv
          subst hv; rfl
    · exact trOKm t tl ht'
  have hacc2 : i2.accs = i1.accs := by show (initTr _ _ _).accs = _; rw [fr_a, gr_a]
  have hs2 : SortedInc i2 := by
    refine ⟨fun a ha => ?_, fun a ha x r hr => ?_, fun t tl ht => (trOK2 t tl ht).2⟩
    · have : a ∈ i1.accs := by rw [← hacc2]; exact ha
      exact (hp1.accs a this).sortedV
    · have : a ∈ i1.accs := by rw [← hacc2]; exact ha
      exact (hp1.accs a this).sortedR x r hr
  obtain ⟨tl, htl⟩ := Option.isSome_iff_exists.mp hlo2
  obtain ⟨tu, htu⟩ := Option.isSome_iff_exists.mp hup2
  obtain ⟨e3, l3, g3⟩ := updPosition_stage hlu hs2 htl htu hupd
  have e3t : i3.trackers = i2.trackers := by rw [e3]
  -- per index: the new accumulator
  have newAcc : ∀ (k : Nat) (a1 : UAcc), i1.accs[k]? = some a1 → ∃ (a' : UAcc) (ins : DC), i3.accs[k]? = some a' ∧
      a'.value = a1.value ∧ a'.total = a1.total + liq ∧ a'.recs = a1.recs ++ [⟨s.fees.pool.nextId, liq, ins, []⟩] ∧
      sorted ins = true ∧ (∀ d, amt ins d = insU i2 f'.pool.tick k d lo up) ∧ getURec a1.recs s.fees.pool.nextId = none := by
    intro k a1 ha1
    obtain ⟨a', ins, o, h1, h2, h3, _, _, h6⟩ := g3 k a1 (by rw [hacc2]; exact ha1)
    have hnone : getURec a1.recs s.fees.pool.nextId = none := by
      cases hh : getURec a1.recs s.fees.pool.nextId with
      | none => rfl
      | some r => have := (hp1.accs a1 (mem_of_getElem? ha1)).recIds s.fees.pool.nextId (by rw [hh]; rfl); omega
    obtain ⟨_, n1, n2, n3⟩ := updOne_new hnone h6
    exact ⟨a', ins, h1, n1, n2, n3, h2, h3, hnone⟩
  have hlen3 : i3.accs.length = 6 := by rw [l3, hacc2, hp1.len]
  refine ⟨⟨hlen3, fun a' ha' => ?_, fun q hq => ?_, fun t tl ht => trOK2 t tl (by rw [← e3t]; exact ht), fun t ht => ?_,
      by show RecsOK i3.records; rw [e3]; show RecsOK i2.records; show RecsOK (initTr _ _ _).records; rw [fr_r, gr_r]; exact hp1.recsOK,
      by show 0 < i3.factor; rw [e3]; show 0 < (initTr _ _ _).factor; rw [fr_f, gr_f]; exact hp1.factor, fun e he => ?_, fun q hq => ?_⟩,
    i1, hsync, ?_, ?_, ?_, ?_, ?_, ?_, fun x hx => ?_, fun k d => ?_, fun k hk => ?_, fun k x hx => ?_⟩
  · -- accumulators
    obtain ⟨k, hk⟩ := getElem?_of_mem ha'
    have hk' : k < i1.accs.length := by have : k < i3.accs.length := lt_of_getElem? hk; rw [hp1.len]; omega
    obtain ⟨a1, ha1⟩ := getElem?_of_lt hk'
    obtain ⟨a2, ins, h1, h2, h3, h4, h5, _, hnone⟩ := newAcc k a1 ha1
    rw [hk] at h1; injection h1 with h1; subst h1
    have ok := hp1.accs a1 (mem_of_getElem? ha1)
    refine ⟨fun q hq => ?_, fun x hx => ?_, by rw [h2]; exact ok.sortedV, fun x r hr => ?_, by rw [h3, ok.total, ets]⟩
    · rw [epos] at hq
      rcases List.mem_append.mp hq with hq | hq
      · obtain ⟨r, hr, e⟩ := ok.recs q hq
        exact ⟨r, by rw [h4, getURec_append, hr], e⟩
      · simp only [List.mem_singleton] at hq
        subst hq
        exact ⟨⟨s.fees.pool.nextId, liq, ins, []⟩, by rw [h4, getURec_append, hnone]; simp, rfl⟩
    · rw [enext]
      rw [h4, getURec_append] at hx
      cases hg : getURec a1.recs x with
      | some v => have := ok.recIds x (by rw [hg]; rfl); omega
      | none =>
        rw [hg] at hx
        simp only at hx
        split at hx
        · rename_i e; have e' : s.fees.pool.nextId = x := e; omega
        · cases hx
    · rw [h4, getURec_append] at hr
      cases hg : getURec a1.recs x with
      | some v =>
        rw [hg] at hr; injection hr with hr; subst hr
        exact ok.sortedR x v hg
      | none =>
        rw [hg] at hr
        simp only at hr
        split at hr
        · injection hr with hr; subst hr; exact ⟨h5, rfl⟩
        · cases hr
  · -- stored
    show (getTr i3.trackers q.lower).isSome ∧ (getTr i3.trackers q.upper).isSome
    rw [e3t]
    rw [epos] at hq
    rcases List.mem_append.mp hq with hq | hq
    · obtain ⟨s1, s2⟩ := hp1.stored q hq
      exact ⟨by rw [keep _ s1]; exact s1, by rw [keep _ s2]; exact s2⟩
    · simp only [List.mem_singleton] at hq
      subst hq
      exact ⟨hlo2, hup2⟩
  · -- trackers only on initialised ticks
    have ht' : (getTr i2.trackers t).isSome := by rw [← e3t]; exact ht
    have ht'' : (getTr (initTr (initTr i1 f'.pool.tick lo) f'.pool.tick up).trackers t).isSome := ht'
    rw [getTr_initTr] at ht''
    have hnew : (⟨s.fees.pool.nextId, owner, lo, up, liq⟩ : Position) ∈ f'.pool.positions := by rw [epos]; simp
    split at ht''
    · rename_i e; subst e
      exact (hc'.stored _).mpr ⟨_, hnew, Or.inr rfl⟩
    · rw [getTr_initTr] at ht''
      split at ht''
      · rename_i e; subst e
        exact (hc'.stored _).mpr ⟨_, hnew, Or.inl rfl⟩
      · obtain ⟨q, hq, hused⟩ := (hf.pool.core.stored t).mp (hp1.trTicks t ht'')
        exact (hc'.stored t).mpr ⟨q, by rw [epos]; exact List.mem_append_left _ hq, hused⟩
  · -- join ids
    have he' : e ∈ i3.join ++ [(s.fees.pool.nextId, i3.now)] := he
    rw [enext]
    rcases List.mem_append.mp he' with he1 | he1
    · have : i3.join = i1.join := by rw [e3]; show (initTr _ _ _).join = _; rw [fr_j, gr_j]
      rw [this] at he1
      have := hp1.joinIds e he1; omega
    · simp only [List.mem_singleton] at he1
      subst he1; simp only; omega
  · -- joined
    show (List.find? (fun x => decide (x.1 = q.id)) (i3.join ++ [(s.fees.pool.nextId, i3.now)])).isSome
    rw [find_join_append]
    rw [epos] at hq
    have hj3 : i3.join = i1.join := by rw [e3]; show (initTr _ _ _).join = _; rw [fr_j, gr_j]
    rcases List.mem_append.mp hq with hq | hq
    · have := hp1.joined q hq
      rw [hj3]
      obtain ⟨v, hv⟩ := Option.isSome_iff_exists.mp this
      rw [hv]; rfl
    · simp only [List.mem_singleton] at hq
      subst hq
      cases hg : List.find? (fun x => decide (x.1 = s.fees.pool.nextId)) i3.join with
      | some v => rfl
      | none => simp
  · show i3.records = i1.records
    rw [e3]; show (initTr _ _ _).records = _; rw [fr_r, gr_r]
  · show i3.now = i1.now
    rw [e3]; show (initTr _ _ _).now = _; rw [fr_n, gr_n]
  · show i3.bal = i1.bal
    rw [e3]; show (initTr _ _ _).bal = _; rw [fr_b, gr_b]
  · show i3.factor = i1.factor
    rw [e3]; show (initTr _ _ _).factor = _; rw [fr_f, gr_f]
  · show i3.join ++ [(s.fees.pool.nextId, i3.now)] = i1.join ++ [(s.fees.pool.nextId, i1.now)]
    have a : i3.join = i1.join := by rw [e3]; show (initTr _ _ _).join = _; rw [fr_j, gr_j]
    have b : i3.now = i1.now := by rw [e3]; show (initTr _ _ _).now = _; rw [fr_n, gr_n]
    rw [a, b]
  · show i3.last = i1.last
    rw [e3]; show (initTr _ _ _).last = _; rw [fr_l, gr_l]
  · show getTr i3.trackers x = _
    rw [e3t, keep x (by rw [t1]; exact hx), t1]
  · -- values after = values after sync
    unfold dVal
    show amt (valAt i3.accs k) d - _ = _
    have : valAt i3.accs k = valAt i1.accs k := by
      rcases Nat.lt_or_ge k i1.accs.length with hk | hk
      · obtain ⟨a1, ha1⟩ := getElem?_of_lt hk
        obtain ⟨a', ins, h1, h2, _⟩ := newAcc k a1 ha1
        rw [valAt_of h1, valAt_of ha1, h2]
      · unfold valAt
        rw [List.getElem?_eq_none hk, List.getElem?_eq_none (by rw [l3, hacc2]; exact hk)]
    rw [this]
  · -- the new record
    obtain ⟨a1, ha1, _⟩ := hp1.get hk
    obtain ⟨a', ins, h1, h2, h3, h4, h5, h6, hnone⟩ := newAcc k a1 ha1
    refine ⟨ins, ?_, fun d => ?_⟩
    · have : accAt { i3 with join := i3.join ++ [(s.fees.pool.nextId, i3.now)] } k = a' := by unfold accAt; simp only; rw [h1]; rfl
      rw [this, h4, getURec_append, hnone]; simp
    · rw [h6 d]
      unfold insU trAt
      show _ = insideI f'.pool.tick (amt (valAt i3.accs k) d) (amt (((getTr i3.trackers lo).bind (·[k]?)).getD []) d)
        (amt (((getTr i3.trackers up).bind (·[k]?)).getD []) d) lo up
      rw [e3t, valAt_of h1, h2, valAt_of (show i2.accs[k]? = some a1 by rw [hacc2]; exact ha1)]
  · -- other records
    show getURec (accAt i3 k).recs x = getURec (accAt s.inc k).recs x
    rcases Nat.lt_or_ge k 6 with hk | hk
    · obtain ⟨a0, ha0, _⟩ := hp.get hk
      obtain ⟨a1, ha1, ga, _⟩ := g1 k a0 ha0
      obtain ⟨a', ins, h1, h2, h3, h4, h5, h6, hnone⟩ := newAcc k a1 ha1
      rw [accAt_of h1, accAt_of ha0, h4, getURec_append, ga]
      cases hg : getURec a0.recs x with
      | some v => rfl
      | none => simp only; rw [if_neg (fun e => hx e.symm)]
    · unfold accAt
      rw [List.getElem?_eq_none (by rw [hlen3]; exact hk), List.getElem?_eq_none (by rw [hp.len]; exact hk)]

end OsmoVerif.CLIncP
