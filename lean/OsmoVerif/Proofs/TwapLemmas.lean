/- Helper lemmas for C10: interpolation, record lookup, chains, overlap weights, telescoping. -/
import OsmoVerif.Spec.Twap
import Mathlib.Tactic.Ring
import Mathlib.Tactic.Linarith
import Mathlib.Tactic.LinearCombination

namespace OsmoVerif.Twap
open OsmoVerif.Num

/-! ### canonical milliseconds -/

theorem ms_mono {a b : Int} (h : a ≤ b) : canonicalMs a ≤ canonicalMs b := by
  unfold canonicalMs
  exact Int.ediv_le_ediv (by decide) h

/-! ### `Dec` helpers -/

theorem chkDec_some {x y : Int} (h : chkDec x = some y) : y = x := by
  unfold chkDec at h
  split at h
  · exact (Option.some.inj h).symm
  · cases h

theorem mulAdd_some {p dt acc y : Int} (h : (Dec.mulInt p dt).bind (fun x => Dec.add x acc) = some y) :
    y = acc + p * dt := by
  unfold Dec.mulInt Dec.add at h
  cases h1 : chkDec (p * dt) with
  | none => rw [h1] at h; cases h
  | some m =>
    rw [h1] at h
    simp only [Option.bind_some] at h
    have := chkDec_some h1
    have := chkDec_some h
    omega

/-! ### interpolation -/

/-- what `recordWithUpdatedAccumulators` returns when it returns. -/
theorem interp_spec {r r' : TwapRecord} {T : Int} (h : interp r T = some r') :
    r'.time = T ∧ r'.height = r.height ∧ r'.sp0 = r.sp0 ∧ r'.sp1 = r.sp1 ∧
    r'.acc0 = r.acc0 + r.sp0 * (canonicalMs T - canonicalMs r.time) ∧
    r'.acc1 = r.acc1 + r.sp1 * (canonicalMs T - canonicalMs r.time) ∧
    r'.geom = r.geom + logW r * (canonicalMs T - canonicalMs r.time) ∧
    r'.lastErr = (if r.sp0 = 0 ∧ r.time ≠ T then T else r.lastErr) := by
  unfold interp at h
  split at h
  · rename_i heq
    injection h with h
    subst h
    subst heq
    simp
  · rename_i hne
    simp only at h
    split at h
    · rename_i a0 a1 h0 h1
      have e0 := mulAdd_some h0
      have e1 := mulAdd_some h1
      split at h
      · rename_i hz
        injection h with h
        subst h
        have hl : logW r = 0 := by
          unfold logW twapLog
          rw [if_pos hz]
        refine ⟨rfl, rfl, rfl, rfl, e0, e1, ?_, ?_⟩
        · rw [hl, Int.zero_mul, Int.add_zero]
        · rw [if_pos ⟨hz, hne⟩]
      · rename_i hnz
        split at h
        · rename_i g hg
          injection h with h
          subst h
          refine ⟨rfl, rfl, rfl, rfl, e0, e1, ?_, ?_⟩
          · -- geometric accumulator
            cases hl : twapLog r.sp0 with
            | none => rw [hl] at hg; cases hg
            | some l =>
              rw [hl] at hg
              simp only [Option.bind_some] at hg
              have : logW r = l := by unfold logW; rw [hl]
              rw [this]
              exact mulAdd_some hg
          · rw [if_neg (fun hh => hnz hh.1)]
        · cases h
    · cases h

/-! ### chains -/

theorem Chain.tail {r : TwapRecord} {l : List TwapRecord} (h : Chain (r :: l)) : Chain l := by
  cases l with
  | nil => trivial
  | cons r' rs => exact h.2

/-- in a chain every later record has a strictly later time than the head. -/
theorem Chain.head_lt {r : TwapRecord} : ∀ {l : List TwapRecord}, Chain (r :: l) → ∀ x ∈ l, r.time < x.time := by
  intro l
  induction l generalizing r with
  | nil => intro _ x hx; cases hx
  | cons r' rs ih =>
    intro h x hx
    rcases List.mem_cons.mp hx with hx | hx
    · subst hx; exact h.1.lt
    · exact Int.lt_trans h.1.lt (ih h.2 x hx)

/-! ### `getRecordAtOrBeforeTime` -/

theorem recAtOrBefore_cons (r : TwapRecord) (rs : List TwapRecord) (t : Int) :
    recAtOrBefore (r :: rs) t =
      if r.time ≤ t then (match recAtOrBefore rs t with | some x => some x | none => some r) else none := rfl

theorem recAtOrBefore_mem : ∀ {h : List TwapRecord} {t : Int} {r : TwapRecord},
    recAtOrBefore h t = some r → r ∈ h ∧ r.time ≤ t := by
  intro h
  induction h with
  | nil => intro t r hr; cases hr
  | cons a rs ih =>
    intro t r hr
    rw [recAtOrBefore_cons] at hr
    split at hr
    · rename_i hle
      cases hrs : recAtOrBefore rs t with
      | none =>
        rw [hrs] at hr
        injection hr with hr
        subst hr
        exact ⟨List.mem_cons_self, hle⟩
      | some x =>
        rw [hrs] at hr
        injection hr with hr
        subst hr
        exact ⟨List.mem_cons_of_mem _ (ih hrs).1, (ih hrs).2⟩
    · cases hr

/-- the lookup misses exactly when the index is empty or starts after `t`. -/
theorem recAtOrBefore_none_of_head_gt {r : TwapRecord} {rs : List TwapRecord} {t : Int} (h : t < r.time) :
    recAtOrBefore (r :: rs) t = none := by
  rw [recAtOrBefore_cons, if_neg (by omega)]

theorem recAtOrBefore_some_of_head_le {r : TwapRecord} {rs : List TwapRecord} {t : Int} (h : r.time ≤ t) :
    ∃ x, recAtOrBefore (r :: rs) t = some x := by
  rw [recAtOrBefore_cons, if_pos h]
  cases recAtOrBefore rs t with
  | none => exact ⟨r, rfl⟩
  | some x => exact ⟨x, rfl⟩

/-- on a chain the lookup returns the LATEST record at or before `t`. -/
theorem recAtOrBefore_latest : ∀ {h : List TwapRecord} {t : Int} {r : TwapRecord}, Chain h →
    recAtOrBefore h t = some r → ∀ x ∈ h, x.time ≤ t → x.time ≤ r.time := by
  intro h
  induction h with
  | nil => intro t r _ hr; cases hr
  | cons a rs ih =>
    intro t r hc hr x hx hxt
    rw [recAtOrBefore_cons] at hr
    split at hr
    · cases hrs : recAtOrBefore rs t with
      | none =>
        rw [hrs] at hr
        injection hr with hr
        subst hr
        rcases List.mem_cons.mp hx with hx | hx
        · subst hx; exact Int.le_refl _
        · -- x ∈ rs with x.time ≤ t, but the lookup in rs missed: impossible
          cases rs with
          | nil => cases hx
          | cons b bs =>
            have hb : b.time ≤ x.time := by
              rcases List.mem_cons.mp hx with hx | hx
              · subst hx; exact Int.le_refl _
              · exact Int.le_of_lt (Chain.head_lt hc.2 x hx)
            obtain ⟨y, hy⟩ := recAtOrBefore_some_of_head_le (r := b) (rs := bs) (t := t) (by omega)
            rw [hy] at hrs; cases hrs
      | some y =>
        rw [hrs] at hr
        injection hr with hr
        subst hr
        rcases List.mem_cons.mp hx with hx | hx
        · subst hx
          exact Int.le_of_lt (Chain.head_lt hc y (recAtOrBefore_mem hrs).1)
        · exact ih hc.tail hrs x hx hxt
    · cases hr

/-- a record of the chain is found at its own time. -/
theorem recAtOrBefore_self : ∀ {h : List TwapRecord} {r : TwapRecord}, Chain h → r ∈ h →
    recAtOrBefore h r.time = some r := by
  intro h
  induction h with
  | nil => intro r _ hr; cases hr
  | cons a rs ih =>
    intro r hc hr
    rcases List.mem_cons.mp hr with hr | hr
    · subst hr
      rw [recAtOrBefore_cons, if_pos (Int.le_refl _)]
      cases rs with
      | nil => rfl
      | cons b bs => rw [recAtOrBefore_none_of_head_gt hc.1.lt]
    · rw [recAtOrBefore_cons, if_pos (Int.le_of_lt (Chain.head_lt hc r hr)), ih hc.tail hr]

/-- the last record is found at any time at or after it. -/
theorem recAtOrBefore_last : ∀ {h : List TwapRecord} {r : TwapRecord} {t : Int}, Chain h →
    h.getLast? = some r → (∀ x ∈ h, x.time ≤ t) → recAtOrBefore h t = some r := by
  intro h
  induction h with
  | nil => intro r t _ hl; cases hl
  | cons a rs ih =>
    intro r t hc hl ht
    rw [recAtOrBefore_cons, if_pos (ht a List.mem_cons_self)]
    cases rs with
    | nil =>
      simp only [List.getLast?_singleton] at hl
      injection hl with hl
      subst hl; rfl
    | cons b bs =>
      rw [List.getLast?_cons_cons] at hl
      rw [ih hc.2 hl (fun x hx => ht x (List.mem_cons_of_mem _ hx))]

/-! ### overlap weights and telescoping -/

/-- an accumulator `acc` that advances by `sel · Δms` between consecutive records. -/
def AccChain (sel acc : TwapRecord → Int) : List TwapRecord → Prop
  | [] => True
  | [_] => True
  | r :: r' :: rs =>
    (r.time < r'.time ∧ acc r' = acc r + sel r * (canonicalMs r'.time - canonicalMs r.time)) ∧ AccChain sel acc (r' :: rs)

theorem Chain.acc0 : ∀ {h : List TwapRecord}, Chain h → AccChain (·.sp0) (·.acc0) h
  | [], _ => trivial
  | [_], _ => trivial
  | _ :: _ :: _, hc => ⟨⟨hc.1.lt, hc.1.acc0⟩, Chain.acc0 hc.2⟩
theorem Chain.acc1 : ∀ {h : List TwapRecord}, Chain h → AccChain (·.sp1) (·.acc1) h
  | [], _ => trivial
  | [_], _ => trivial
  | _ :: _ :: _, hc => ⟨⟨hc.1.lt, hc.1.acc1⟩, Chain.acc1 hc.2⟩
theorem Chain.geomAcc : ∀ {h : List TwapRecord}, Chain h → AccChain logW (·.geom) h
  | [], _ => trivial
  | [_], _ => trivial
  | _ :: _ :: _, hc => ⟨⟨hc.1.lt, hc.1.geom⟩, Chain.geomAcc hc.2⟩
/-- the clock itself: `sel = 1`, `acc = canonical ms of the record`. -/
theorem Chain.clock : ∀ {h : List TwapRecord}, Chain h → AccChain (fun _ => 1) (fun r => canonicalMs r.time) h
  | [], _ => trivial
  | [_], _ => trivial
  | r :: r' :: _, hc =>
    ⟨⟨hc.1.lt, by show canonicalMs r'.time = canonicalMs r.time + 1 * (canonicalMs r'.time - canonicalMs r.time); omega⟩,
      Chain.clock hc.2⟩

theorem AccChain.head_lt {sel acc : TwapRecord → Int} {r : TwapRecord} :
    ∀ {l : List TwapRecord}, AccChain sel acc (r :: l) → ∀ x ∈ l, r.time < x.time := by
  intro l
  induction l generalizing r with
  | nil => intro _ x hx; cases hx
  | cons r' rs ih =>
    intro h x hx
    rcases List.mem_cons.mp hx with hx | hx
    · subst hx; exact h.1.1
    · exact Int.lt_trans h.1.1 (ih h.2 x hx)

theorem weights_cons_cons (r r' : TwapRecord) (rs : List TwapRecord) (a b : Int) :
    weights (r :: r' :: rs) a b =
      (r, max 0 (min (canonicalMs r'.time) b - max (canonicalMs r.time) a)) :: weights (r' :: rs) a b := rfl

/-- records that start at or after the end of the interval carry no weight. -/
theorem wsum_weights_after {sel acc : TwapRecord → Int} : ∀ {l : List TwapRecord} {a b : Int},
    AccChain sel acc l → (∀ x ∈ l, b ≤ canonicalMs x.time) → wsum sel (weights l a b) = 0 := by
  intro l
  induction l with
  | nil => intro a b _ _; rfl
  | cons r rs ih =>
    intro a b hc hb
    have hr := hb r List.mem_cons_self
    cases rs with
    | nil =>
      show sel r * max 0 (b - max (canonicalMs r.time) a) + 0 = 0
      have : max 0 (b - max (canonicalMs r.time) a) = 0 := by omega
      rw [this]; simp
    | cons r' rs' =>
      rw [weights_cons_cons]
      show sel r * max 0 (min (canonicalMs r'.time) b - max (canonicalMs r.time) a) + wsum sel (weights (r' :: rs') a b) = 0
      rw [ih hc.2 (fun x hx => hb x (List.mem_cons_of_mem _ hx))]
      have : max 0 (min (canonicalMs r'.time) b - max (canonicalMs r.time) a) = 0 := by omega
      rw [this]; simp

/-- the weights do not depend on the interval start once it is at or before every record. -/
theorem weights_start_irrelevant {sel acc : TwapRecord → Int} : ∀ {l : List TwapRecord} {a a' b : Int},
    AccChain sel acc l → (∀ x ∈ l, a ≤ canonicalMs x.time) → (∀ x ∈ l, a' ≤ canonicalMs x.time) →
    weights l a b = weights l a' b := by
  intro l
  induction l with
  | nil => intro a a' b _ _ _; rfl
  | cons r rs ih =>
    intro a a' b hc ha ha'
    have h1 := ha r List.mem_cons_self
    have h2 := ha' r List.mem_cons_self
    cases rs with
    | nil =>
      show [(r, max 0 (b - max (canonicalMs r.time) a))] = [(r, max 0 (b - max (canonicalMs r.time) a'))]
      have : max (canonicalMs r.time) a = max (canonicalMs r.time) a' := by omega
      rw [this]
    | cons r' rs' =>
      rw [weights_cons_cons, weights_cons_cons,
        ih hc.2 (fun x hx => ha x (List.mem_cons_of_mem _ hx)) (fun x hx => ha' x (List.mem_cons_of_mem _ hx))]
      have : max (canonicalMs r.time) a = max (canonicalMs r.time) a' := by omega
      rw [this]

/-- **Telescoping.**  On an accumulator chain, the accumulator interpolated to `e` minus the one
interpolated to `s` (each from the latest record at or before it) is `Σ sel(recordᵢ)·overlapᵢ`. -/
theorem accDiff_eq_wsum {sel acc : TwapRecord → Int} : ∀ {l : List TwapRecord} {s e : Int} {rs re : TwapRecord},
    AccChain sel acc l → s ≤ e → recAtOrBefore l s = some rs → recAtOrBefore l e = some re →
    (acc re + sel re * (canonicalMs e - canonicalMs re.time)) - (acc rs + sel rs * (canonicalMs s - canonicalMs rs.time))
      = wsum sel (weights l (canonicalMs s) (canonicalMs e)) := by
  intro l
  induction l with
  | nil => intro s e rs re _ _ h; cases h
  | cons r tl ih =>
    intro s e rs re hc hse hs he
    have hrs : r.time ≤ s := by
      rw [recAtOrBefore_cons] at hs
      split at hs
      · assumption
      · cases hs
    have mse := ms_mono hse
    have mrs := ms_mono hrs
    cases tl with
    | nil =>
      rw [recAtOrBefore_cons, if_pos hrs] at hs
      rw [recAtOrBefore_cons, if_pos (by omega)] at he
      injection hs with hs; injection he with he
      subst hs; subst he
      show _ = sel r * max 0 (canonicalMs e - max (canonicalMs r.time) (canonicalMs s)) + 0
      have : max 0 (canonicalMs e - max (canonicalMs r.time) (canonicalMs s)) = canonicalMs e - canonicalMs s := by omega
      rw [this]; ring
    | cons r' tl' =>
      have hlt := hc.1.1
      have hacc := hc.1.2
      have mrr := ms_mono (Int.le_of_lt hlt)
      rw [weights_cons_cons]
      show _ = sel r * max 0 (min (canonicalMs r'.time) (canonicalMs e) - max (canonicalMs r.time) (canonicalMs s))
                + wsum sel (weights (r' :: tl') (canonicalMs s) (canonicalMs e))
      rcases Int.lt_or_le s r'.time with hsr | hsr
      · -- the start falls into r's period
        have hs' : r = rs := by
          rw [recAtOrBefore_cons, if_pos hrs, recAtOrBefore_none_of_head_gt hsr] at hs
          exact Option.some.inj hs
        subst hs'
        have msr := ms_mono (Int.le_of_lt hsr)
        rcases Int.lt_or_le e r'.time with her | her
        · -- so does the end
          have he' : r = re := by
            rw [recAtOrBefore_cons, if_pos (by omega), recAtOrBefore_none_of_head_gt her] at he
            exact Option.some.inj he
          subst he'
          have mer := ms_mono (Int.le_of_lt her)
          rw [wsum_weights_after hc.2 (by
            intro x hx
            rcases List.mem_cons.mp hx with hx | hx
            · subst hx; exact mer
            · exact Int.le_trans mer (ms_mono (Int.le_of_lt (AccChain.head_lt hc.2 x hx))))]
          have : max 0 (min (canonicalMs r'.time) (canonicalMs e) - max (canonicalMs r.time) (canonicalMs s))
              = canonicalMs e - canonicalMs s := by omega
          rw [this]; ring
        · -- the end is at or after r'
          obtain ⟨y, hy⟩ := recAtOrBefore_some_of_head_le (r := r') (rs := tl') (t := e) her
          have he' : y = re := by
            rw [recAtOrBefore_cons, if_pos (by omega), hy] at he
            exact Option.some.inj he
          subst he'
          have hself : recAtOrBefore (r' :: tl') r'.time = some r' := by
            rw [recAtOrBefore_cons, if_pos (Int.le_refl _)]
            cases tl' with
            | nil => rfl
            | cons b bs => rw [recAtOrBefore_none_of_head_gt hc.2.1.1]
          have := ih (s := r'.time) (e := e) hc.2 her hself hy
          rw [weights_start_irrelevant (a := canonicalMs r'.time) (a' := canonicalMs s) hc.2 (by
            intro x hx
            rcases List.mem_cons.mp hx with hx | hx
            · subst hx; exact Int.le_refl _
            · exact ms_mono (Int.le_of_lt (AccChain.head_lt hc.2 x hx))) (by
            intro x hx
            rcases List.mem_cons.mp hx with hx | hx
            · subst hx; exact msr
            · exact Int.le_trans msr (ms_mono (Int.le_of_lt (AccChain.head_lt hc.2 x hx))))] at this
          have mer := ms_mono her
          have hw : max 0 (min (canonicalMs r'.time) (canonicalMs e) - max (canonicalMs r.time) (canonicalMs s))
              = canonicalMs r'.time - canonicalMs s := by omega
          rw [hw, ← this]
          linear_combination hacc
      · -- the start is at or after r': both lookups continue in the tail
        obtain ⟨y, hy⟩ := recAtOrBefore_some_of_head_le (r := r') (rs := tl') (t := s) hsr
        obtain ⟨z, hz⟩ := recAtOrBefore_some_of_head_le (r := r') (rs := tl') (t := e) (by omega)
        have hs' : y = rs := by
          rw [recAtOrBefore_cons, if_pos hrs, hy] at hs
          exact Option.some.inj hs
        have he' : z = re := by
          rw [recAtOrBefore_cons, if_pos (by omega), hz] at he
          exact Option.some.inj he
        subst hs'; subst he'
        have msr := ms_mono hsr
        rw [← ih hc.2 hse hy hz]
        have hw : max 0 (min (canonicalMs r'.time) (canonicalMs e) - max (canonicalMs r.time) (canonicalMs s)) = 0 := by omega
        rw [hw]; ring

end OsmoVerif.Twap
