/- Helper lemmas for C04: `MaximalExactRatioJoin` and `CalcExitPool` (cfmm_common/lp.go). -/
import OsmoVerif.Model.Gamm
import OsmoVerif.Proofs.NumLemmas
import Mathlib.Tactic.Linarith

namespace OsmoVerif.GammMath
open OsmoVerif.Num OsmoVerif.MathM OsmoVerif.Gen OsmoVerif.Spec

theorem chkDec_some {x r : Int} (h : chkDec x = some r) : r = x := by
  unfold chkDec at h; split at h
  · exact (Option.some.inj h).symm
  · cases h

theorem chkInt_some {x r : Int} (h : chkInt x = some r) : r = x := by
  unfold chkInt at h; split at h
  · exact (Option.some.inj h).symm
  · cases h

theorem pn_ok {α : Type} {o : Option α} {a : α} (h : pn o = .ok a) : o = some a := by
  cases o with
  | none => cases h
  | some b => unfold pn at h; injection h with h; rw [h]

/-- floor facts of a truncated quotient of a non-negative number. -/
theorem tdiv_floor {n d : Int} (hd : 0 < d) (hn : 0 ≤ n) :
    n.tdiv d * d ≤ n ∧ n < (n.tdiv d + 1) * d ∧ 0 ≤ n.tdiv d := by
  obtain ⟨e, hp, _⟩ := tdiv_tmod_spec n d hd
  have hp := hp hn
  refine ⟨by omega, by rw [Int.add_mul]; omega, Int.tdiv_nonneg hn (by omega)⟩

theorem Dec_truncateInt_spec {a t : Int} (h : Dec.truncateInt a = some t) : t = a.tdiv P18 :=
  chkInt_some h

theorem Dec_mulInt_spec {a b r : Int} (h : Dec.mulInt a b = some r) : r = a * b := chkDec_some h

/-- `Ceil` of a non-negative Dec: the least multiple of 10^18 at or above it. -/
theorem Dec_ceil_spec {a c : Int} (h : Dec.ceil a = some c) (ha : 0 ≤ a) :
    ∃ k : Int, c = k * P18 ∧ a ≤ k * P18 ∧ (k - 1) * P18 < a ∧ 0 ≤ k := by
  unfold Dec.ceil at h
  have := chkDec_some h
  obtain ⟨e, hp, _⟩ := tdiv_tmod_spec a P18 P18_pos
  have hp := hp ha
  have hq : 0 ≤ a.tdiv P18 := Int.tdiv_nonneg ha (by decide)
  generalize a.tdiv P18 = q at *
  generalize a.tmod P18 = r at *
  split at this
  · exact ⟨q, this, by omega, by rw [Int.sub_mul]; omega, hq⟩
  · exact ⟨q + 1, this, by rw [Int.add_mul]; omega, by simp only [Int.add_sub_cancel]; omega, by omega⟩

/-! ### minimum / maximum ratio -/

theorem foldl_min_le_init (rs : List Int) (m : Int) :
    rs.foldl (fun m r => if r < m then r else m) m ≤ m := by
  induction rs generalizing m with
  | nil => exact Int.le_refl _
  | cons r rs ih =>
    simp only [List.foldl_cons]
    split
    · exact Int.le_trans (ih r) (by omega)
    · exact ih m

theorem foldl_min_le_mem (rs : List Int) (m : Int) {r : Int} (hr : r ∈ rs) :
    rs.foldl (fun m r => if r < m then r else m) m ≤ r := by
  induction rs generalizing m with
  | nil => cases hr
  | cons x xs ih =>
    simp only [List.foldl_cons]
    rcases List.mem_cons.mp hr with h | h
    · subst h
      split
      · exact foldl_min_le_init xs r
      · exact Int.le_trans (foldl_min_le_init xs m) (by omega)
    · exact ih _ h

theorem foldl_min_nonneg (rs : List Int) (m : Int) (hm : 0 ≤ m) (h : ∀ r ∈ rs, 0 ≤ r) :
    0 ≤ rs.foldl (fun m r => if r < m then r else m) m := by
  induction rs generalizing m with
  | nil => exact hm
  | cons x xs ih =>
    simp only [List.foldl_cons]
    have hx := h x (List.mem_cons_self ..)
    have hxs : ∀ r ∈ xs, 0 ≤ r := fun r hr => h r (List.mem_cons_of_mem _ hr)
    split
    · exact ih x hx hxs
    · exact ih m hm hxs

theorem minRatio_le_mem {rs : List Int} {r : Int} (hr : r ∈ rs) : minRatio rs ≤ r :=
  foldl_min_le_mem rs _ hr

theorem minRatio_nonneg {rs : List Int} (h : ∀ r ∈ rs, 0 ≤ r) : 0 ≤ minRatio rs :=
  foldl_min_nonneg rs _ (by decide) h

/-! ### the exact-ratio join -/

/-- what the join guarantees for every offered coin `c` with used amount `u`:
* `shares ≤ totalShares · c/res` (cross-multiplied), hence `shares ≤ totalShares · minᵢ(inᵢ/resᵢ)`;
* the tokens used cover the proportional need: `u/res ≥ shares/totalShares`;
* `0 ≤ u ≤ c` (never more than offered). -/
def JoinOK (liq : Coins) (T shares : Int) : Coins → List Int → Prop
  | c :: cs, u :: us =>
    (shares * amountOf liq c.1 ≤ T * c.2 ∧ shares * amountOf liq c.1 ≤ u * T ∧ 0 ≤ u ∧ u ≤ c.2) ∧
      JoinOK liq T shares cs us
  | [], [] => True
  | _, _ => False

/-- every ratio is the floor of `c·10^18 / res`. -/
theorem shareRatios_spec (liq : Coins) :
    ∀ (cs : Coins) (rs : List Int), shareRatios liq cs = some rs →
      (∀ c ∈ cs, 0 < amountOf liq c.1 ∧ 0 ≤ c.2) →
      List.Forall₂ (fun (c : String × Int) r => 0 ≤ r ∧ r * amountOf liq c.1 ≤ c.2 * P18) cs rs := by
  intro cs
  induction cs with
  | nil => intro rs h _; simp [shareRatios] at h; subst h; exact .nil
  | cons c cs ih =>
    intro rs h hpos
    unfold shareRatios at h
    cases hq : Dec.quoInt (toDec c.2) (amountOf liq c.1) with
    | none => simp [hq] at h
    | some r =>
      cases hrest : shareRatios liq cs with
      | none => simp [hq, hrest] at h
      | some rs' =>
        simp only [hq, hrest, Option.bind_eq_bind, Option.bind_some, bind, pure] at h
        injection h with h; subst h
        have hc := hpos c (List.mem_cons_self ..)
        refine .cons ?_ (ih rs' hrest fun c' hc' => hpos c' (List.mem_cons_of_mem _ hc'))
        unfold Dec.quoInt at hq
        rw [if_neg (by omega)] at hq
        injection hq with hq; subst hq
        have hn : 0 ≤ toDec c.2 := Int.mul_nonneg hc.2 (by decide)
        obtain ⟨a, _, b⟩ := tdiv_floor hc.1 hn
        exact ⟨b, a⟩

theorem forall₂_mem_right {α β : Type} {R : α → β → Prop} {l₁ : List α} {l₂ : List β}
    (h : List.Forall₂ R l₁ l₂) {b : β} (hb : b ∈ l₂) : ∃ a, a ∈ l₁ ∧ R a b := by
  induction h with
  | nil => cases hb
  | cons hr _ ih =>
    rcases List.mem_cons.mp hb with h | h
    · subst h; exact ⟨_, List.mem_cons_self .., hr⟩
    · obtain ⟨a, ha, hr⟩ := ih h; exact ⟨a, List.mem_cons_of_mem _ ha, hr⟩

/-- core arithmetic of one coin. `m` = minimal ratio, `r` = this coin's ratio, `s` = shares. -/
theorem join_coin_ok {res c r m T s u : Int} (hres : 0 < res) (hT : 0 ≤ T)
    (hr : r * res ≤ c * P18) (hm0 : 0 ≤ m) (hmr : m ≤ r) (hs : s * P18 ≤ m * T) (hs0 : 0 ≤ s)
    (hu : usedAmount res m r c = some u) :
    s * res ≤ T * c ∧ s * res ≤ u * T ∧ 0 ≤ u ∧ u ≤ c := by
  have hP : (0 : Int) < P18 := P18_pos
  -- m·res ≤ c·P18
  have h1 : m * res ≤ c * P18 := Int.le_trans (Int.mul_le_mul_of_nonneg_right hmr (by omega)) hr
  have hc0 : 0 ≤ c := by
    by_contra hc
    have : c * P18 < 0 := Int.mul_neg_of_neg_of_pos (by omega) hP
    have : 0 ≤ m * res := Int.mul_nonneg hm0 (by omega)
    omega
  -- s·res·P18 ≤ c·T·P18
  have h2 : s * res ≤ T * c := by
    have a : s * P18 * res ≤ m * T * res := Int.mul_le_mul_of_nonneg_right hs (by omega)
    have b : m * res * T ≤ c * P18 * T := Int.mul_le_mul_of_nonneg_right h1 hT
    have : (s * res) * P18 ≤ (T * c) * P18 := by nlinarith
    exact Int.le_of_mul_le_mul_right this hP
  unfold usedAmount at hu
  split at hu
  · injection hu with hu; subst hu
    refine ⟨h2, by rw [Int.mul_comm c T]; exact h2, hc0, Int.le_refl _⟩
  · cases hx : Dec.mulInt m res with
    | none => simp [hx] at hu
    | some x =>
      have hxv := Dec_mulInt_spec hx
      cases hcl : Dec.ceil x with
      | none => simp [hx, hcl] at hu
      | some cl =>
        simp only [hx, hcl, Option.bind_some] at hu
        have hx0 : 0 ≤ x := by rw [hxv]; exact Int.mul_nonneg hm0 (by omega)
        obtain ⟨k, hk, hk1, hk2, hk0⟩ := Dec_ceil_spec hcl hx0
        have hut := Dec_truncateInt_spec hu
        have : u = k := by rw [hut, hk]; exact Int.mul_tdiv_cancel _ (by omega)
        subst this
        refine ⟨h2, ?_, hk0, ?_⟩
        · -- u·P18 ≥ m·res  ⇒  u·T·P18 ≥ m·res·T ≥ s·P18·res
          have a : m * res * T ≤ u * P18 * T := Int.mul_le_mul_of_nonneg_right (by rw [← hxv]; exact hk1) hT
          have b : s * P18 * res ≤ m * T * res := Int.mul_le_mul_of_nonneg_right hs (by omega)
          have : (s * res) * P18 ≤ (u * T) * P18 := by nlinarith
          exact Int.le_of_mul_le_mul_right this hP
        · -- (u-1)·P18 < m·res ≤ c·P18
          have : (u - 1) * P18 < c * P18 := by rw [hxv] at hk2; omega
          have := lt_of_mul_lt_mul_pos hP this
          omega

theorem usedAmounts_ok (liq : Coins) (m T s : Int) (hT : 0 ≤ T) (hm0 : 0 ≤ m) (hs : s * P18 ≤ m * T) (hs0 : 0 ≤ s) :
    ∀ (cs : Coins) (rs us : List Int), usedAmounts liq m cs rs = some us →
      (∀ c ∈ cs, 0 < amountOf liq c.1 ∧ 0 ≤ c.2) →
      List.Forall₂ (fun (c : String × Int) r => 0 ≤ r ∧ r * amountOf liq c.1 ≤ c.2 * P18) cs rs →
      (∀ r ∈ rs, m ≤ r) → JoinOK liq T s cs us := by
  intro cs
  induction cs with
  | nil =>
    intro rs us h _ hf _
    cases hf
    simp [usedAmounts] at h; subst h; trivial
  | cons c cs ih =>
    intro rs us h hpos hf hmin
    cases hf with
    | cons hr hrest =>
      rename_i r rs'
      unfold usedAmounts at h
      cases hu : usedAmount (amountOf liq c.1) m r c.2 with
      | none => simp [hu] at h
      | some u =>
        cases hus : usedAmounts liq m cs rs' with
        | none => simp [hu, hus] at h
        | some us' =>
          simp only [hu, hus, Option.bind_eq_bind, Option.bind_some, bind, pure] at h
          injection h with h; subst h
          have hc := hpos c (List.mem_cons_self ..)
          exact ⟨join_coin_ok hc.1 hT hr.2 hm0 (hmin r (List.mem_cons_self ..)) hs hs0 hu,
            ih rs' us' hus (fun c' hc' => hpos c' (List.mem_cons_of_mem _ hc')) hrest
              (fun r' hr' => hmin r' (List.mem_cons_of_mem _ hr'))⟩

/-- `usedAmounts` with every ratio equal to the minimum is the identity on the offered amounts. -/
theorem joinOK_all_used (liq : Coins) (m T s : Int) (hT : 0 ≤ T) (hm0 : 0 ≤ m) (hs : s * P18 ≤ m * T) (hs0 : 0 ≤ s) :
    ∀ (cs : Coins) (rs : List Int),
      (∀ c ∈ cs, 0 < amountOf liq c.1 ∧ 0 ≤ c.2) →
      List.Forall₂ (fun (c : String × Int) r => 0 ≤ r ∧ r * amountOf liq c.1 ≤ c.2 * P18) cs rs →
      (∀ r ∈ rs, m ≤ r) → JoinOK liq T s cs (cs.map (·.2)) := by
  intro cs
  induction cs with
  | nil => intro rs _ hf _; trivial
  | cons c cs ih =>
    intro rs hpos hf hmin
    cases hf with
    | cons hr hrest =>
      rename_i r rs'
      have hc := hpos c (List.mem_cons_self ..)
      have hu : usedAmount (amountOf liq c.1) m m c.2 = some c.2 := by unfold usedAmount; rw [if_pos rfl]
      -- use the coin lemma with the ratio replaced by the minimum itself (m·res ≤ r·res ≤ c·P18)
      have hm : m * amountOf liq c.1 ≤ c.2 * P18 :=
        Int.le_trans (Int.mul_le_mul_of_nonneg_right (hmin r (List.mem_cons_self ..)) (by omega)) hr.2
      exact ⟨join_coin_ok hc.1 hT hm hm0 (Int.le_refl _) hs hs0 hu,
        ih rs' (fun c' hc' => hpos c' (List.mem_cons_of_mem _ hc')) hrest
          (fun r' hr' => hmin r' (List.mem_cons_of_mem _ hr'))⟩

/-- `MaximalExactRatioJoin`, all inputs. -/
theorem maximalExactRatioJoin_ok {liq : Coins} {T : Int} {tokensIn : Coins} {shares : Int} {used : List Int}
    (h : maximalExactRatioJoin liq T tokensIn = .ok (shares, used))
    (hpos : ∀ c ∈ tokensIn, 0 < amountOf liq c.1 ∧ 0 ≤ c.2) (hT : 0 ≤ T) :
    0 ≤ shares ∧ JoinOK liq T shares tokensIn used := by
  unfold maximalExactRatioJoin at h
  cases hrs : shareRatios liq tokensIn with
  | none => simp [hrs, pn] at h; cases h
  | some rs =>
    have hf := shareRatios_spec liq tokensIn rs hrs hpos
    have hnn : ∀ r ∈ rs, 0 ≤ r := fun r hr => by
      obtain ⟨c, _, hc⟩ := forall₂_mem_right hf hr; exact hc.1
    have hm0 := minRatio_nonneg hnn
    have hmin : ∀ r ∈ rs, minRatio rs ≤ r := fun r hr => minRatio_le_mem hr
    simp only [hrs, pn, bind, Except.bind] at h
    split at h
    · cases h
    · cases hsh : (Dec.mulInt (minRatio rs) T).bind Dec.truncateInt with
      | none => simp [hsh] at h
      | some s =>
        simp only [hsh] at h
        -- s = ⌊minR·T / 10^18⌋
        obtain ⟨hs, hs0⟩ : s * P18 ≤ minRatio rs * T ∧ 0 ≤ s := by
          cases hx : Dec.mulInt (minRatio rs) T with
          | none => simp [hx] at hsh
          | some x =>
            simp only [hx, Option.bind_some] at hsh
            have hxv := Dec_mulInt_spec hx
            have hst := Dec_truncateInt_spec hsh
            have hx0 : 0 ≤ x := by rw [hxv]; exact Int.mul_nonneg hm0 hT
            obtain ⟨a, _, b⟩ := tdiv_floor P18_pos hx0
            rw [hst, ← hxv]; exact ⟨a, b⟩
        split at h
        · injection h with h; injection h with h1 h2; subst h1; subst h2
          exact ⟨hs0, joinOK_all_used liq _ T _ hT hm0 hs hs0 tokensIn rs hpos hf hmin⟩
        · cases hus : usedAmounts liq (minRatio rs) tokensIn rs with
          | none => simp [hus] at h
          | some us =>
            simp only [hus] at h
            injection h with h; injection h with h1 h2; subst h1; subst h2
            exact ⟨hs0, usedAmounts_ok liq _ T _ hT hm0 hs hs0 tokensIn rs _ hus hpos hf hmin⟩

/-- the callers' `IsAnyGT` check can never fire. -/
theorem joinOK_not_anyGT {liq : Coins} {T s : Int} : ∀ {cs : Coins} {us : List Int}, JoinOK liq T s cs us →
    (cs.zip us).any (fun (c, u) => decide (u > c.2)) = false
  | [], [], _ => rfl
  | c :: cs, u :: us, h => by
    simp only [List.zip_cons_cons, List.any_cons, Bool.or_eq_false_iff]
    exact ⟨decide_eq_false (by have := h.1.2.2.2; omega), joinOK_not_anyGT h.2⟩
  | [], _ :: _, h => h.elim
  | _ :: _, [], h => h.elim

/-! ### proportional exit -/

/-- every coin paid out by `exitCoins` comes from one liquidity entry `(d, a)` with
`0 < x < a` and `x·10^18 ≤ ratio·a`. -/
theorem exitCoins_spec (ratio : Int) : ∀ (liq cs : Coins), exitCoins ratio liq = .ok cs →
    ∀ d x, (d, x) ∈ cs → ∃ a, (d, a) ∈ liq ∧ 0 < x ∧ x < a ∧ x = (ratio * a).tdiv P18 := by
  intro liq
  induction liq with
  | nil => intro cs h d x hm; simp [exitCoins, pure, Except.pure] at h; subst h; cases hm
  | cons c liq ih =>
    intro cs h d x hm
    obtain ⟨d0, a0⟩ := c
    unfold exitCoins at h
    cases he : exitAmount ratio a0 with
    | none => simp [he, pn, bind, Except.bind] at h
    | some x0 =>
      simp only [he, pn, bind, Except.bind] at h
      have hx0 : x0 = (ratio * a0).tdiv P18 := by
        unfold exitAmount at he
        cases hx : Dec.mulInt ratio a0 with
        | none => simp [hx] at he
        | some y =>
          simp only [hx, Option.bind_some] at he
          rw [Dec_truncateInt_spec he, Dec_mulInt_spec hx]
      split at h
      · obtain ⟨a, ha, r⟩ := ih cs h d x hm
        exact ⟨a, List.mem_cons_of_mem _ ha, r⟩
      · split at h
        · cases h
        · cases hrest : exitCoins ratio liq with
          | error e => simp [hrest] at h
          | ok rest =>
            simp only [hrest, pure, Except.pure] at h
            injection h with h; subst h
            rcases List.mem_cons.mp hm with hm | hm
            · injection hm with h1 h2; subst h1; subst h2
              exact ⟨a0, List.mem_cons_self .., by omega, by omega, hx0⟩
            · obtain ⟨a, ha, r⟩ := ih rest hrest d x hm
              exact ⟨a, List.mem_cons_of_mem _ ha, r⟩

theorem refundedShares_spec {sh fee r : Int} (h : refundedShares sh fee = some r) : r = (P18 - fee) * sh := by
  unfold refundedShares at h
  split at h
  · cases ho : Dec.sub P18 fee with
    | none => simp [ho] at h
    | some o =>
      simp only [ho, Option.bind_some] at h
      rw [Dec_mulInt_spec h, chkDec_some ho]
  · rename_i hf
    have : fee = 0 := by simpa using hf
    injection h with h; subst h; subst this
    unfold toDec; rw [Int.sub_zero, Int.mul_comm]

end OsmoVerif.GammMath
