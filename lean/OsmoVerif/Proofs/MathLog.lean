/-
`LogBase2` (Model/Math.lean), integer level: closed form of the two normalisation loops, one step of the
300-iteration squaring loop with its rounding inequalities, range of the accumulated result.
No real numbers here (see MathLogReal.lean).
-/
import OsmoVerif.Model.Math
import OsmoVerif.Proofs.NumLemmas
import OsmoVerif.Proofs.MathSigFig2
import Mathlib.Tactic.Linarith
import Mathlib.Tactic.Ring
import Mathlib.Tactic.Positivity

namespace OsmoVerif.MathM
open OsmoVerif.Num OsmoVerif.Gen OsmoVerif.Spec

theorem P36_val : P36 = 10 ^ 36 := by decide +kernel
theorem oneHalf36_val : oneHalf36 = P36 / 2 ^ 1 := by decide +kernel

/-! ### normalisation loops -/

theorem log2NormUp_spec : ∀ (f : Nat) (x y x' y' : Int), 0 < x → log2NormUp f x y = some (x', y') →
    ∃ m : Nat, x' = x * 2 ^ m ∧ y' = y - m * P36 ∧ P36 ≤ x' ∧ (m = 0 ∨ x' < 2 * P36) := by
  intro f
  induction f with
  | zero => intro x y x' y' _ h; cases h
  | succ f ih =>
    intro x y x' y' hx h
    unfold log2NormUp at h
    by_cases hlt : x < P36
    · rw [if_pos hlt] at h
      obtain ⟨y1, hy1, h⟩ := Option.bind_eq_some_iff.mp h
      obtain ⟨rfl, _⟩ := chk_some hy1
      obtain ⟨m, rfl, rfl, h3, h4⟩ := ih _ _ _ _ (by omega) h
      refine ⟨m + 1, by ring, by push_cast; ring, h3, Or.inr ?_⟩
      rcases h4 with rfl | h4
      · simp only [pow_zero, Int.mul_one]; omega
      · exact h4
    · rw [if_neg hlt] at h
      obtain ⟨rfl, rfl⟩ := Prod.mk.inj (Option.some.inj h)
      exact ⟨0, by simp, by simp, by omega, Or.inl rfl⟩

theorem log2NormDown_spec : ∀ (f : Nat) (x y x' y' : Int), P36 ≤ x → log2NormDown f x y = some (x', y') →
    ∃ m : Nat, x' = x / 2 ^ m ∧ y' = y + m * P36 ∧ P36 ≤ x' ∧ x' < 2 * P36 := by
  intro f
  induction f with
  | zero => intro x y x' y' _ h; cases h
  | succ f ih =>
    intro x y x' y' hx h
    unfold log2NormDown at h
    by_cases hge : x ≥ 2 * P36
    · rw [if_pos hge] at h
      obtain ⟨y1, hy1, h⟩ := Option.bind_eq_some_iff.mp h
      obtain ⟨rfl, _⟩ := chk_some hy1
      obtain ⟨m, rfl, rfl, h3, h4⟩ := ih _ _ _ _ (by omega) h
      refine ⟨m + 1, ?_, by push_cast; ring, h3, h4⟩
      rw [Int.ediv_ediv_of_nonneg (by omega), pow_succ, Int.mul_comm]
    · rw [if_neg hge] at h
      obtain ⟨rfl, rfl⟩ := Prod.mk.inj (Option.some.inj h)
      exact ⟨0, by simp, by simp, hx, by omega⟩

/-- result of both normalisation loops: `x2 ∈ [1,2)` is `x` shifted by the binary exponent, `y2` is that exponent. -/
def NormSpec (x x2 y2 : Int) : Prop :=
  P36 ≤ x2 ∧ x2 < 2 * P36 ∧ ∃ m : Nat, (x2 = x * 2 ^ m ∧ y2 = -(m * P36)) ∨ (x2 = x / 2 ^ m ∧ y2 = m * P36)

theorem logBase2_unfold {x r : Int} (h : logBase2 x = some r) :
    0 < x ∧ ∃ x2 y2, NormSpec x x2 y2 ∧ log2Iter Osmomath.maxLog2Iterations x2 y2 oneHalf36 = some r := by
  unfold logBase2 at h
  by_cases hx : x ≤ 0
  · rw [if_pos hx] at h; cases h
  · rw [if_neg hx] at h
    refine ⟨by omega, ?_⟩
    obtain ⟨⟨x1, y1⟩, h1, h⟩ := Option.bind_eq_some_iff.mp h
    obtain ⟨⟨x2, y2⟩, h2, h⟩ := Option.bind_eq_some_iff.mp h
    obtain ⟨m, rfl, rfl, hx1, hm⟩ := log2NormUp_spec _ _ _ _ _ (by omega) h1
    obtain ⟨m', rfl, rfl, hx2, hx2'⟩ := log2NormDown_spec _ _ _ _ _ hx1 h2
    refine ⟨_, _, ⟨hx2, hx2', ?_⟩, h⟩
    rcases hm with rfl | hm
    · exact ⟨m', Or.inr ⟨by simp, by simp⟩⟩
    · -- already below 2: the second loop does nothing
      have hm0 : m' = 0 := by
        by_contra hne
        have h2m : (2 : Int) ≤ 2 ^ m' := by
          calc (2 : Int) = 2 ^ 1 := by norm_num
            _ ≤ 2 ^ m' := pow_le_pow_right₀ (by norm_num) (by omega)
        have hpos : (0 : Int) < 2 ^ m' := by positivity
        have : x * 2 ^ m / 2 ^ m' < P36 := by
          apply Int.ediv_lt_of_lt_mul hpos
          nlinarith [P36_pos]
        omega
      subst hm0
      exact ⟨m, Or.inl ⟨by simp, by simp⟩⟩

/-! ### one iteration of the squaring loop -/

theorem bigMul_self_spec {x x2 : Int} (h : BigDec.mul x x = some x2) : IsHalfEven (x * x) P36 x2 := by
  obtain ⟨rfl, _⟩ := chk_some h
  exact chopRound_isHalfEven P36 _ P36_pos P36_even

/-- one step: either bit 0 (`x' = x²` rounded) or bit 1 (`x' = ⌊x²/2⌋`, `y' = y + b`). -/
theorem log2Iter_step {f : Nat} {x y b r : Int} (h : log2Iter (f + 1) x y b = some r) (hx1 : P36 ≤ x)
    (hx2 : x < 2 * P36) :
    ∃ x' y', log2Iter f x' y' (b / 2) = some r ∧ P36 ≤ x' ∧ x' < 2 * P36 ∧
      ((y' = y ∧ 2 * |x' * P36 - x * x| ≤ P36) ∨ (y' = y + b ∧ 2 * |2 * x' * P36 - x * x| ≤ 3 * P36)) := by
  unfold log2Iter at h
  obtain ⟨x2, hmul, h⟩ := Option.bind_eq_some_iff.mp h
  obtain ⟨a, b', _⟩ := bigMul_self_spec hmul
  have hP := P36_pos
  -- P36 ≤ x2 < 4·P36
  have hsq1 : P36 * P36 ≤ x * x := by nlinarith
  have hsq2 : x * x ≤ (2 * P36 - 1) * (2 * P36 - 1) := by nlinarith
  have hlo : P36 ≤ x2 := by
    by_contra hc
    have : x2 * P36 ≤ (P36 - 1) * P36 := Int.mul_le_mul_of_nonneg_right (by omega) (by omega)
    nlinarith
  by_cases hge : x2 ≥ 2 * P36
  · rw [if_pos hge] at h
    obtain ⟨y1, hy1, h⟩ := Option.bind_eq_some_iff.mp h
    obtain ⟨rfl, _⟩ := chk_some hy1
    have hhi : x2 / 2 < 2 * P36 := by
      by_contra hc
      have : 4 * P36 ≤ x2 := by omega
      have : (4 * P36) * P36 ≤ x2 * P36 := Int.mul_le_mul_of_nonneg_right this (by omega)
      nlinarith
    refine ⟨x2 / 2, y + b, h, by omega, hhi, Or.inr ⟨rfl, ?_⟩⟩
    have hq : 2 * (x2 / 2) ≤ x2 ∧ x2 ≤ 2 * (x2 / 2) + 1 := by omega
    have e : 2 * (x2 / 2) * P36 - x * x = (x2 * P36 - x * x) - (x2 - 2 * (x2 / 2)) * P36 := by ring
    have h01 : 0 ≤ (x2 - 2 * (x2 / 2)) * P36 ∧ (x2 - 2 * (x2 / 2)) * P36 ≤ 1 * P36 :=
      ⟨Int.mul_nonneg (by omega) (by omega), Int.mul_le_mul_of_nonneg_right (by omega) (by omega)⟩
    rw [e]
    rcases abs_cases ((x2 * P36 - x * x) - (x2 - 2 * (x2 / 2)) * P36) with ⟨e1, _⟩ | ⟨e1, _⟩ <;> rw [e1] <;> omega
  · rw [if_neg hge] at h
    refine ⟨x2, y, h, hlo, by omega, Or.inl ⟨rfl, ?_⟩⟩
    rcases abs_cases (x2 * P36 - x * x) with ⟨e1, _⟩ | ⟨e1, _⟩ <;> rw [e1] <;> omega

/-- the accumulated result moves up by at most `2b` from `y` (sum of the remaining bit weights). -/
theorem log2Iter_range : ∀ (f : Nat) (x y b r : Int), 0 ≤ b → log2Iter f x y b = some r → y ≤ r ∧ r ≤ y + 2 * b := by
  intro f
  induction f with
  | zero => intro x y b r hb h; obtain rfl := Option.some.inj h; omega
  | succ f ih =>
    intro x y b r hb h
    unfold log2Iter at h
    obtain ⟨x2, _, h⟩ := Option.bind_eq_some_iff.mp h
    by_cases hge : x2 ≥ 2 * P36
    · rw [if_pos hge] at h
      obtain ⟨y1, hy1, h⟩ := Option.bind_eq_some_iff.mp h
      obtain ⟨rfl, _⟩ := chk_some hy1
      have := ih _ _ _ _ (by omega) h
      omega
    · rw [if_neg hge] at h
      have := ih _ _ _ _ (by omega) h
      omega

end OsmoVerif.MathM
