/-
`Exp2` (osmomath/exp2.go): the arithmetic (rounding) error of the model against the EXACT rational function
`R(X) = P(X)/Q(X)` of the coded coefficients, in reals.  The analytic statement `|R(X) − 2^X| ≤ ε₀` on [0,1]
is NOT proved here (it needs interval arithmetic on a degree-12 polynomial inequality); see
`Props/C13Exp2.lean` where it is an explicit hypothesis.
-/
import OsmoVerif.Proofs.MathLogDerived
import Mathlib.Analysis.SpecialFunctions.Pow.Real

namespace OsmoVerif.MathM
open OsmoVerif.Num OsmoVerif.Gen OsmoVerif.Spec Real

/-- `BigDec.Mul`: within half an ulp of the exact product. -/
theorem bigMul_real {a b c : Int} (h : BigDec.mul a b = some c) :
    |bval c - bval a * bval b| ≤ 1 / 2 / 10 ^ 36 := by
  unfold BigDec.mul at h
  obtain ⟨rfl, _⟩ := chk_some h
  obtain ⟨h1, h2, _⟩ := chopRound_isHalfEven P36 (a * b) P36_pos P36_even
  set q := chopRound P36 (a * b)
  have c1 : (2 : ℝ) * ((a : ℝ) * b - q * 10 ^ 36) ≤ 10 ^ 36 := by
    have : ((2 * (a * b - q * P36) : Int) : ℝ) ≤ ((P36 : Int) : ℝ) := by exact_mod_cast h1
    push_cast at this; rw [P36_cast] at this; exact this
  have c2 : -(10 : ℝ) ^ 36 ≤ 2 * ((a : ℝ) * b - q * 10 ^ 36) := by
    have : ((-P36 : Int) : ℝ) ≤ ((2 * (a * b - q * P36) : Int) : ℝ) := by exact_mod_cast h2
    push_cast at this; rw [P36_cast] at this; exact this
  have e : bval q - bval a * bval b = ((q : ℝ) * 10 ^ 36 - (a : ℝ) * b) / (10 ^ 36 * 10 ^ 36) := by
    unfold bval; field_simp
  rw [e, abs_div, abs_of_pos (by positivity : (0 : ℝ) < 10 ^ 36 * 10 ^ 36), div_le_iff₀ (by positivity)]
  have e2 : (1 : ℝ) / 2 / 10 ^ 36 * (10 ^ 36 * 10 ^ 36) = 10 ^ 36 / 2 := by field_simp
  rw [e2, abs_le]; constructor <;> linarith

theorem bigAdd_real {a b c : Int} (h : BigDec.add a b = some c) : bval c = bval a + bval b := by
  unfold BigDec.add at h
  obtain ⟨rfl, _⟩ := chk_some h
  unfold bval; push_cast; ring

/-- the loop of `exp2ChebyshevRationalApprox` in exact real arithmetic. -/
noncomputable def exp2LoopR (X : ℝ) : List Int → List Int → ℝ → ℝ → ℝ → ℝ × ℝ
  | n :: ns, d :: ds, xe, h, p => exp2LoopR X ns ds (xe * X) (h + bval n * (xe * X)) (p + bval d * (xe * X))
  | _, _, _, h, p => (h, p)

/-- accumulated rounding error of numerator/denominator after `L` more terms when the power of `x` already
carries `k` half-ulps: each term adds `(k+1)/2` ulp (power, coefficient ≤ 1) + `1/2` ulp (product). -/
noncomputable def exp2Err : Nat → Nat → ℝ
  | _, 0 => 0
  | k, L + 1 => ((k + 1 : ℝ) / 2 + 1 / 2) / 10 ^ 36 + exp2Err (k + 1) L

theorem exp2Loop_real {x : Int} (hX0 : 0 ≤ bval x) (hX1 : bval x ≤ 1) :
    ∀ (ns ds : List Int) (k : Nat) (xe h p h' p' : Int) (xr hr pr eh ep : ℝ),
      (∀ n ∈ ns, |bval n| ≤ 1) → (∀ d ∈ ds, |bval d| ≤ 1) →
      |bval xe - xr| ≤ k / 2 / 10 ^ 36 → |bval h - hr| ≤ eh → |bval p - pr| ≤ ep →
      exp2Loop x ns ds xe h p = some (h', p') →
      |bval h' - (exp2LoopR (bval x) ns ds xr hr pr).1| ≤ eh + exp2Err k ns.length ∧
      |bval p' - (exp2LoopR (bval x) ns ds xr hr pr).2| ≤ ep + exp2Err k ns.length := by
  intro ns
  induction ns with
  | nil =>
    intro ds k xe h p h' p' xr hr pr eh ep _ _ _ hh hp hl
    cases ds with
    | nil =>
      unfold exp2Loop at hl
      obtain ⟨rfl, rfl⟩ := Prod.mk.inj (Option.some.inj hl)
      simp only [exp2LoopR, List.length_nil, exp2Err, add_zero]
      exact ⟨hh, hp⟩
    | cons d ds => unfold exp2Loop at hl; cases hl
  | cons n ns ih =>
    intro ds k xe h p h' p' xr hr pr eh ep hns hds hx hh hp hl
    cases ds with
    | nil => unfold exp2Loop at hl; cases hl
    | cons d ds =>
      unfold exp2Loop at hl
      obtain ⟨xe', hxe', hl⟩ := Option.bind_eq_some_iff.mp hl
      obtain ⟨h1, hh1, hl⟩ := Option.bind_eq_some_iff.mp hl
      obtain ⟨p1, hp1, hl⟩ := Option.bind_eq_some_iff.mp hl
      obtain ⟨tn, htn, hh1⟩ := Option.bind_eq_some_iff.mp hh1
      obtain ⟨td, htd, hp1⟩ := Option.bind_eq_some_iff.mp hp1
      have mx := bigMul_real hxe'
      have mn := bigMul_real htn
      have md := bigMul_real htd
      have ah := bigAdd_real hh1
      have ap := bigAdd_real hp1
      have hn1 : |bval n| ≤ 1 := hns n (List.mem_cons_self ..)
      have hd1 : |bval d| ≤ 1 := hds d (List.mem_cons_self ..)
      set X := bval x
      -- new power
      have hx' : |bval xe' - xr * X| ≤ ((k + 1 : Nat) : ℝ) / 2 / 10 ^ 36 := by
        have e : bval xe' - xr * X = (bval xe' - bval xe * X) + (bval xe - xr) * X := by ring
        rw [e]
        have t1 : |(bval xe - xr) * X| ≤ k / 2 / 10 ^ 36 := by
          rw [abs_mul, abs_of_nonneg hX0]
          have := abs_nonneg (bval xe - xr)
          nlinarith
        have := abs_add_le (bval xe' - bval xe * X) ((bval xe - xr) * X)
        push_cast
        have e2 : ((k : ℝ) + 1) / 2 / 10 ^ 36 = k / 2 / 10 ^ 36 + 1 / 2 / 10 ^ 36 := by ring
        linarith
      -- a product coefficient × power
      have term : ∀ (c t : Int), |bval c| ≤ 1 → |bval t - bval c * bval xe'| ≤ 1 / 2 / 10 ^ 36 →
          |bval t - bval c * (xr * X)| ≤ ((k + 1 : ℝ) / 2 + 1 / 2) / 10 ^ 36 := by
        intro c t hc ht
        have e : bval t - bval c * (xr * X) = (bval t - bval c * bval xe') + bval c * (bval xe' - xr * X) := by ring
        rw [e]
        have t1 : |bval c * (bval xe' - xr * X)| ≤ ((k + 1 : Nat) : ℝ) / 2 / 10 ^ 36 := by
          rw [abs_mul]
          have := abs_nonneg (bval xe' - xr * X)
          have := abs_nonneg (bval c)
          nlinarith
        have := abs_add_le (bval t - bval c * bval xe') (bval c * (bval xe' - xr * X))
        push_cast at t1
        have e2 : ((k : ℝ) + 1) / 2 / 10 ^ 36 + 1 / 2 / 10 ^ 36 = ((k + 1 : ℝ) / 2 + 1 / 2) / 10 ^ 36 := by ring
        linarith
      have tn' := term n tn hn1 mn
      have td' := term d td hd1 md
      have hh' : |bval h1 - (hr + bval n * (xr * X))| ≤ eh + ((k + 1 : ℝ) / 2 + 1 / 2) / 10 ^ 36 := by
        rw [ah]
        have e : bval h + bval tn - (hr + bval n * (xr * X)) = (bval h - hr) + (bval tn - bval n * (xr * X)) := by ring
        rw [e]
        have := abs_add_le (bval h - hr) (bval tn - bval n * (xr * X))
        linarith
      have hp' : |bval p1 - (pr + bval d * (xr * X))| ≤ ep + ((k + 1 : ℝ) / 2 + 1 / 2) / 10 ^ 36 := by
        rw [ap]
        have e : bval p + bval td - (pr + bval d * (xr * X)) = (bval p - pr) + (bval td - bval d * (xr * X)) := by ring
        rw [e]
        have := abs_add_le (bval p - pr) (bval td - bval d * (xr * X))
        linarith
      have IH := ih ds (k + 1) xe' h1 p1 h' p' (xr * X) (hr + bval n * (xr * X)) (pr + bval d * (xr * X))
        _ _ (fun n hn => hns n (List.mem_cons_of_mem _ hn)) (fun d hd => hds d (List.mem_cons_of_mem _ hd))
        hx' hh' hp' hl
      simp only [exp2LoopR, List.length_cons, exp2Err]
      constructor
      · have := IH.1; linarith
      · have := IH.2; linarith

end OsmoVerif.MathM
